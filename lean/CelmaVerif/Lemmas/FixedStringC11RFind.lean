import CelmaVerif.Lemmas.FixedStringC11Obs
namespace CelmaVerif.FixedString
open CelmaVerif
variable {c : Cfg}

/-
  C11, backward searches: on a well-formed string `rfind`, `find_last_of`, `find_last_not_of` return what
  the textbook definitions of Model/StdString.lean return on the text held, `abs s`.  Both sides are
  brought to the same normal form, `lastBelow q n` = the greatest index below `n` satisfying `q`.
-/

/-- greatest index below `n` that satisfies `q` -/
def lastBelow (q : Nat → Bool) : Nat → Option Nat
  | 0 => none
  | n + 1 => if q n then some n else lastBelow q n

theorem lastBelow_eq_none {q : Nat → Bool} : ∀ {n : Nat},
    lastBelow q n = none ↔ ∀ k, k < n → q k = false
  | 0 => by simp [lastBelow]
  | n + 1 => by
    unfold lastBelow
    cases hq : q n
    · simp only [Bool.false_eq_true, if_false]
      rw [lastBelow_eq_none (n := n)]
      constructor
      · intro h k hk
        by_cases hkn : k = n
        · subst hkn; exact hq
        · exact h k (by omega)
      · intro h k hk; exact h k (by omega)
    · simp only [if_true]
      constructor
      · intro h; cases h
      · intro h; have := h n (by omega); rw [hq] at this; cases this

theorem lastBelow_eq_some {q : Nat → Bool} {k : Nat} : ∀ {n : Nat},
    lastBelow q n = some k ↔ k < n ∧ q k = true ∧ ∀ j, k < j → j < n → q j = false
  | 0 => by simp [lastBelow]
  | n + 1 => by
    unfold lastBelow
    cases hq : q n
    · simp only [Bool.false_eq_true, if_false]
      rw [lastBelow_eq_some (n := n)]
      constructor
      · rintro ⟨h1, h2, h3⟩
        refine ⟨by omega, h2, fun j hj hjn => ?_⟩
        by_cases hjn' : j = n
        · subst hjn'; exact hq
        · exact h3 j hj (by omega)
      · rintro ⟨h1, h2, h3⟩
        have hkn : k ≠ n := by intro h; subst h; rw [hq] at h2; cases h2
        exact ⟨by omega, h2, fun j hj hjn => h3 j hj (by omega)⟩
    · simp only [if_true]
      constructor
      · intro h; cases h
        exact ⟨by omega, hq, fun j hj hjn => by omega⟩
      · rintro ⟨h1, h2, h3⟩
        by_cases hkn : k = n
        · subst hkn; rfl
        · have := h3 n (by omega) (by omega); rw [hq] at this; cases this

theorem lastBelow_congr {q q' : Nat → Bool} : ∀ {n : Nat}, (∀ k, k < n → q k = q' k) →
    lastBelow q n = lastBelow q' n
  | 0, _ => rfl
  | n + 1, h => by
    unfold lastBelow
    rw [h n (by omega), lastBelow_congr (n := n) (fun k hk => h k (by omega))]

/-- indices at which `q` is false can be dropped from the top of the range -/
theorem lastBelow_shrink {q : Nat → Bool} {m : Nat} : ∀ {n : Nat}, m ≤ n →
    (∀ k, m ≤ k → k < n → q k = false) → lastBelow q n = lastBelow q m
  | 0, h, _ => by have : m = 0 := by omega
                  subst this; rfl
  | n + 1, h, hq => by
    by_cases hm : m = n + 1
    · subst hm; rfl
    · rw [show lastBelow q (n + 1) = if q n then some n else lastBelow q n from rfl,
        hq n (by omega) (by omega)]
      simp only [Bool.false_eq_true, if_false]
      exact lastBelow_shrink (by omega) (fun k h1 h2 => hq k h1 (by omega))

theorem lastBelow_shift (q : Nat → Bool) : ∀ (m : Nat),
    lastBelow q (m + 1) =
      match lastBelow (fun k => q (k + 1)) m with
      | some k => some (k + 1)
      | none => if q 0 then some 0 else none
  | 0 => by simp [lastBelow]
  | m + 1 => by
    have ih := lastBelow_shift q m
    rw [lastBelow, ih]
    simp only [lastBelow]
    by_cases hq : q (m + 1) = true <;> simp [hq]

/-- (1) the backward loop over a total predicate returns the greatest hit below `n` -/
theorem rscanLoop_eq {buf : List Byte} {p : Nat → Res Bool} {q : Nat → Bool} (n : Nat)
    (hp : ∀ idx, idx < n → p idx = .ok (q idx)) : rscanLoop buf p n = .ok (lastBelow q n) := by
  induction n with
  | zero => rfl
  | succ n ih =>
    unfold rscanLoop lastBelow
    rw [hp n (by omega), bindR_ok]
    cases q n
    · simp only [Bool.false_eq_true, if_false]; exact ih (fun idx h => hp idx (by omega))
    · simp only [if_true]

/-! ### the specification's backward searches as `lastBelow` -/

theorem findIdxUpTo_eq (p : Nat → Bool) : ∀ (l : List Nat) (i lim : Nat) (best : Option Nat),
    StdString.findIdxUpTo p l i lim best =
      match lastBelow (fun k => l[k]?.any p) (min (lim + 1 - i) l.length) with
      | some k => some (i + k)
      | none => best
  | [], i, lim, best => by simp [StdString.findIdxUpTo, lastBelow]
  | x :: xs, i, lim, best => by
    unfold StdString.findIdxUpTo
    by_cases h : i > lim
    · rw [if_pos h]
      have : lim + 1 - i = 0 := by omega
      rw [this]; simp [lastBelow]
    · rw [if_neg h, findIdxUpTo_eq p xs]
      have e : min (lim + 1 - i) (x :: xs).length = min (lim + 1 - (i + 1)) xs.length + 1 := by
        simp only [List.length_cons]; omega
      rw [e, lastBelow_shift]
      simp only [List.getElem?_cons_succ, List.getElem?_cons_zero, Option.any_some]
      cases lastBelow (fun k => xs[k]?.any p) (min (lim + 1 - (i + 1)) xs.length) with
      | some k => simp only; congr 1; omega
      | none => by_cases hq : p x = true <;> simp [hq]

theorem findLast_eq (x : List Nat) (p : Nat → Bool) (pos : Nat) :
    StdString.findLast x p pos = lastBelow (fun k => x[k]?.any p) (min (pos + 1) x.length) := by
  unfold StdString.findLast
  rw [findIdxUpTo_eq]
  simp only [Nat.sub_zero, Nat.zero_add]
  cases lastBelow (fun k => x[k]?.any p) (min (pos + 1) x.length) <;> rfl

theorem isPrefixOf_nil_right (pat : List Nat) : pat.isPrefixOf [] = pat.isEmpty := by
  cases pat <;> rfl

theorem rfindUpTo_eq (pat : List Nat) : ∀ (l : List Nat) (i lim : Nat) (best : Option Nat),
    StdString.rfindUpTo pat l i lim best =
      match lastBelow (fun k => pat.isPrefixOf (l.drop k)) (min (lim + 1 - i) (l.length + 1)) with
      | some k => some (i + k)
      | none => best
  | [], i, lim, best => by
    unfold StdString.rfindUpTo
    by_cases h : i ≤ lim
    · have : min (lim + 1 - i) ([] : List Nat).length.succ = 1 := by simp; omega
      rw [this]
      simp only [lastBelow, List.drop_nil, isPrefixOf_nil_right]
      cases pat.isEmpty <;> simp [h]
    · have : lim + 1 - i = 0 := by omega
      rw [this]; simp [lastBelow, h]
  | x :: xs, i, lim, best => by
    unfold StdString.rfindUpTo
    by_cases h : i > lim
    · rw [if_pos h]
      have : lim + 1 - i = 0 := by omega
      rw [this]; simp [lastBelow]
    · rw [if_neg h, rfindUpTo_eq pat xs]
      have e : min (lim + 1 - i) ((x :: xs).length + 1) = min (lim + 1 - (i + 1)) (xs.length + 1) + 1 := by
        simp only [List.length_cons]; omega
      rw [e, lastBelow_shift]
      simp only [List.drop_succ_cons, List.drop_zero]
      cases lastBelow (fun k => pat.isPrefixOf (xs.drop k)) (min (lim + 1 - (i + 1)) (xs.length + 1)) with
      | some k => simp only; congr 1; omega
      | none => by_cases hq : pat.isPrefixOf (x :: xs) = true <;> simp [hq]

theorem rfind_eq (x pat : List Nat) (pos : Nat) :
    StdString.rfind x pat pos =
      lastBelow (fun k => pat.isPrefixOf (x.drop k)) (min (pos + 1) (x.length + 1)) := by
  unfold StdString.rfind
  rw [rfindUpTo_eq]
  simp only [Nat.sub_zero, Nat.zero_add]
  cases lastBelow (fun k => pat.isPrefixOf (x.drop k)) (min (pos + 1) (x.length + 1)) <;> rfl

/-! ### character-class searches: `find_last_of`, `find_last_not_of` -/

theorem get1_ok {a : List Byte} {i : Nat} (h : i < a.length) : get1 a i = .ok a[i] := by
  unfold get1; rw [List.getElem?_eq_getElem h]

theorem rf_abs_getElem? {s : FStr} (hs : WF c s) {k : Nat} (hk : k < s.len) :
    ∃ h : k < s.buf.length, (abs s)[k]? = some s.buf[k] ∧ s.buf[k] ∈ abs s := by
  have := hs.1; have := hs.2.1
  have hb : k < s.buf.length := by omega
  have e : (abs s)[k]? = some s.buf[k] := by
    unfold abs; rw [List.getElem?_take, if_pos hk, List.getElem?_eq_getElem hb]
  exact ⟨hb, e, List.mem_of_getElem? e⟩

/-- a backward scan whose per-character test `f` computes the class `g` on the characters held -/
theorem rscan_class {s : FStr} (hs : WF c s) (f : Byte → Res Bool) (g : Nat → Bool)
    (hf : ∀ x, x ∈ abs s → f x = .ok (g x)) {n pos : Nat} (hn : n = min (pos + 1) s.len) :
    rscanLoop s.buf (fun idx => bindR (get1 s.buf idx) f) n = .ok (StdString.findLast (abs s) g pos) := by
  rw [findLast_eq, abs_length hs, ← hn]
  apply rscanLoop_eq
  intro idx hidx
  obtain ⟨hb, e, hm⟩ := rf_abs_getElem? hs (k := idx) (by omega)
  rw [get1_ok hb, bindR_ok, e, Option.any_some, hf _ hm]

theorem findLast_neg (x set : List Nat) (pos : Nat) (neg : Bool) :
    (if neg then StdString.findLastNotOf x set pos else StdString.findLastOf x set pos) =
      StdString.findLast x (fun y => if neg then !set.contains y else set.contains y) pos := by
  cases neg <;> rfl

/-- (2) `find_last_of( ch, pos)` / `find_last_not_of( ch, pos)` -/
theorem findLastOfCh_abs {s : FStr} (hs : WF c s) (ch : Byte) (pos : Nat) (neg : Bool)
    (hp : pos = npos c ∨ pos < s.len) (hbig : s.len ≤ npos c) :
    findLastOfCh c s ch pos neg =
      .ok (if neg then StdString.findLastNotOf (abs s) [ch] pos else StdString.findLastOf (abs s) [ch] pos) := by
  rw [findLast_neg]
  have hf : ∀ x : Nat, x ∈ abs s →
      (Res.ok (if neg = true then decide (x ≠ ch) else decide (x = ch)) : Res Bool) =
        .ok (if neg then ![ch].contains x else [ch].contains x) := by
    intro x _; cases neg <;> simp
  unfold findLastOfCh
  by_cases h : pos = npos c
  · rw [if_pos h]
    exact rscan_class hs _ _ hf (by omega)
  · rw [if_neg h]
    have hlt : pos < s.len := by
      rcases hp with hp | hp
      · exact absurd hp h
      · exact hp
    rw [if_neg (by omega)]
    exact rscan_class hs _ _ hf (by omega)

theorem rf_memN_eq {a : List Byte} (x : Byte) : ∀ (fuel i : Nat), i + fuel ≤ a.length →
    memN a fuel i x = .ok (((a.drop i).take fuel).contains x)
  | 0, i, _ => by simp [memN]
  | fuel + 1, i, h => by
    have hi : i < a.length := by omega
    unfold memN
    rw [get1_ok hi, bindR_ok, List.drop_eq_getElem_cons hi, List.take_succ_cons, List.contains_cons]
    by_cases hx : a[i] = x
    · rw [if_pos hx]; simp [hx]
    · rw [if_neg hx, rf_memN_eq x fuel (i + 1) (by omega)]
      have : (x == a[i]) = false := by simp; exact fun h => hx h.symm
      rw [this]; simp

/-- (3) `find_last_of( str, pos, count)` / `find_last_not_of( str, pos, count)` -/
theorem findLastOfPN_abs {s : FStr} (hs : WF c s) {a : List Byte} {pos count : Nat} (ha : count ≤ a.length)
    (hc0 : 0 < count) (hp : pos < s.len) (neg : Bool) :
    findLastOfPN s a pos count neg =
      .ok (if neg then StdString.findLastNotOf (abs s) (a.take count) pos
           else StdString.findLastOf (abs s) (a.take count) pos) := by
  rw [findLast_neg]
  have hm : ∀ x : Nat, memN a count 0 x = .ok ((a.take count).contains x) := by
    intro x; rw [rf_memN_eq x count 0 (by omega)]; simp
  unfold findLastOfPN
  rw [if_neg (by omega)]
  refine rscan_class hs _ _ ?_ (by omega)
  intro x _
  cases neg
  · simp [hm]
  · simp [hm, notR]

/-! ### `rfind` -/

/-- the `memcmp` test of the `rfind` loops is "the pattern occurs at `k`" -/
theorem prefix_at_abs {s : FStr} (hs : WF c s) {a : List Byte} {n k : Nat} (ha : n ≤ a.length)
    (hk : k + n ≤ s.len) :
    bindR (memcmp s.buf k a 0 n) (fun r => Res.ok (decide (r = 0))) =
      .ok ((a.take n).isPrefixOf ((abs s).drop k)) := by
  have := hs.1; have := hs.2.1
  have hla : (a.take n).length = n := by rw [List.length_take]; omega
  rw [memcmp_ok (by omega) (by omega), bindR_ok]
  congr 1
  apply Bool.eq_iff_iff.mpr
  rw [decide_eq_true_iff, isPrefixOf_iff_take, hla, List.drop_zero,
    cmpSign_eq_zero _ _ (by rw [List.length_take, List.length_take, List.length_drop]; omega)]
  unfold abs
  rw [List.drop_take, List.take_take, Nat.min_eq_left (by omega)]

theorem prefix_at_long {x pat : List Nat} {k : Nat} (h0 : 0 < pat.length)
    (h : x.length < k + pat.length) :
    pat.isPrefixOf (x.drop k) = false := by
  apply Bool.eq_false_iff.mpr
  intro hp
  have := congrArg List.length ((isPrefixOf_iff_take _ _).mp hp)
  rw [List.length_take, List.length_drop] at this
  have h2 := Nat.min_le_right pat.length (x.length - k)
  rw [this] at h2
  omega

/-- (4) `rfind( str, pos)` for a search string of `n > 0` characters -/
theorem rfindN_abs (hc : CfgOK c) {s : FStr} (hs : WF c s) {a : List Byte} (pos : Nat) {n : Nat}
    (ha : n ≤ a.length) (hn : 0 < n) :
    rfindN c s a pos n = .ok (StdString.rfind (abs s) (a.take n) pos) := by
  have := hs.1; have := hs.2.1; have := hc.hW
  have hl := abs_length hs
  have hla : (a.take n).length = n := by rw [List.length_take]; omega
  rw [rfind_eq, hl]
  unfold rfindN
  by_cases h : s.len = 0 ∨ n = 0 ∨ n > s.len
  · rw [if_pos h]
    congr 1; symm
    apply lastBelow_eq_none.mpr
    intro k hk
    apply prefix_at_long (by omega); rw [hl, hla]; omega
  · rw [if_neg h]
    simp only
    generalize hpos' : (if pos = npos c ∨ pos > s.len - n then s.len - n else pos) = pos'
    have h1 : pos' + 1 ≤ min (pos + 1) (s.len + 1) ∧ pos' ≤ s.len - n ∧
        (pos' = s.len - n ∨ pos' = pos) := by
      rw [← hpos']
      by_cases hcond : pos = npos c ∨ pos > s.len - n
      · rw [if_pos hcond]; unfold npos at hcond; omega
      · rw [if_neg hcond]; unfold npos at hcond; omega
    rw [lastBelow_shrink (m := pos' + 1) h1.1 ?_]
    · apply rscanLoop_eq
      intro idx hidx
      exact prefix_at_abs hs ha (by omega)
    · intro k hk1 hk2
      apply prefix_at_long (by omega); rw [hl, hla]; omega

/-- the test of the `rfind( ch)` loop on an index inside the string (since the repair of the default position the
    loop never starts on the terminator, so `ch = 0` needs no special case) -/
theorem rfindCh_test {s : FStr} (hs : WF c s) (ch : Byte) {k : Nat} (hk : k < s.len) :
    bindR (get1 s.buf k) (fun x => Res.ok (decide (x = ch))) =
      .ok ([ch].isPrefixOf ((abs s).drop k)) := by
  have := hs.1; have := hs.2.1
  have hb : k < s.buf.length := by omega
  rw [get1_ok hb, bindR_ok]
  congr 1
  have hka : k < (abs s).length := by rw [abs_length hs]; exact hk
  rw [List.drop_eq_getElem_cons hka]
  have : (abs s)[k] = s.buf[k] := by simp only [abs, List.getElem_take]
  rw [this]
  by_cases he : s.buf[k] = ch
  · simp [List.isPrefixOf, he]
  · have he' : ¬ ch = s.buf[k] := fun h => he h.symm
    simp [List.isPrefixOf, he, he']

/-- (5) `rfind( ch, pos)`, for every character (also `'\0'`) -/
theorem rfindCh_abs (hc : CfgOK c) {s : FStr} (hs : WF c s) (ch : Byte) {pos : Nat}
    (hp : pos = npos c ∨ pos < s.len) :
    rfindCh c s ch pos = .ok (StdString.rfind (abs s) [ch] pos) := by
  have := hs.1; have := hs.2.1; have := hc.hW
  have hl := abs_length hs
  rw [rfind_eq, hl]
  unfold rfindCh
  by_cases h0 : s.len = 0
  · rw [if_pos (Or.inr h0)]
    congr 1; symm
    apply lastBelow_eq_none.mpr
    intro k hk
    apply prefix_at_long (by simp)
    rw [hl]; simp only [List.length_singleton]; omega
  · have hadd : ¬ (addW c pos 1 > s.len) := by
      unfold addW; unfold npos at hp
      split <;> omega
    rw [if_neg (by intro h; rcases h with h | h; exact hadd h; exact h0 h)]
    simp only
    have e : (if pos = npos c then s.len - 1 else pos) + 1 = min (pos + 1) s.len := by
      unfold npos; unfold npos at hp; split <;> omega
    rw [e, lastBelow_shrink (m := min (pos + 1) s.len) (by omega) ?_]
    · apply rscanLoop_eq
      intro idx hidx
      exact rfindCh_test hs ch (by omega)
    · intro k hk1 hk2
      apply prefix_at_long (by simp)
      rw [hl]; simp only [List.length_singleton]; omega

/-! ### `find_last_of( str, pos)` with `strchr` -/

theorem cstrlenAux_le : ∀ (a : List Byte) (k m : Nat), cstrlenAux a k = .ok m → k ≤ m
  | [], k, m, h => by simp [cstrlenAux] at h
  | b :: bs, k, m, h => by
    unfold cstrlenAux at h
    by_cases hb : b = 0
    · rw [if_pos hb] at h; cases h; omega
    · rw [if_neg hb] at h
      have := cstrlenAux_le bs (k + 1) m h
      omega

/-- `strchr` on a C string answers membership in the characters before the terminator (for `x ≠ 0`) -/
theorem rf_strchr_eq (x : Byte) (hx : x ≠ 0) : ∀ (a : List Byte) (k m : Nat), cstrlenAux a k = .ok m →
    strchr a x = .ok ((a.take (m - k)).contains x)
  | [], k, m, h => by simp [cstrlenAux] at h
  | b :: bs, k, m, h => by
    unfold cstrlenAux at h
    unfold strchr
    by_cases hb : b = 0
    · rw [if_pos hb] at h; cases h
      rw [if_neg (by rw [hb]; exact fun h => hx h.symm), if_pos hb]; simp
    · rw [if_neg hb] at h
      have hle := cstrlenAux_le bs (k + 1) m h
      have e : m - k = (m - (k + 1)) + 1 := by omega
      rw [e, List.take_succ_cons, List.contains_cons]
      by_cases hbx : b = x
      · rw [if_pos hbx]; simp [hbx]
      · rw [if_neg hbx, if_neg hb, rf_strchr_eq x hx bs (k + 1) m h]
        have : (x == b) = false := by simp; exact fun h => hbx h.symm
        rw [this]; simp

/-- (6) `find_last_of( str, pos)` / `find_last_not_of( str, pos)`: the set is the C string `a` -/
theorem findLastOfImpl_abs (hc : CfgOK c) {s : FStr} (hs : WF c s) {a : List Byte} {n : Nat}
    (hlen : cstrlen a = .ok n) (hn : 0 < n) (hx : (0 : Byte) ∉ abs s) {pos : Nat}
    (hp : pos = npos c ∨ pos < s.len) (neg : Bool) :
    findLastOfImpl c s a pos n neg =
      .ok (if neg then StdString.findLastNotOf (abs s) (a.take n) pos
           else StdString.findLastOf (abs s) (a.take n) pos) := by
  have := hs.1; have := hs.2.1; have := hc.hW
  rw [findLast_neg]
  have hm : ∀ x : Nat, x ∈ abs s → strchr a x = .ok ((a.take n).contains x) := by
    intro x hxm
    have := rf_strchr_eq x (by intro h; rw [h] at hxm; exact hx hxm) a 0 n hlen
    simpa using this
  have hf : ∀ x : Nat, x ∈ abs s →
      (if neg = true then notR (strchr a x) else strchr a x) =
        .ok (if neg then !(a.take n).contains x else (a.take n).contains x) := by
    intro x hxm; rw [hm x hxm]; cases neg <;> simp [notR]
  unfold findLastOfImpl
  simp only
  by_cases h0 : s.len = 0
  · rw [if_pos (Or.inl (by omega))]
    rw [findLast_eq, abs_length hs, h0]; rfl
  · have e : (if pos = npos c then s.len else addW c pos 1) = min (pos + 1) s.len := by
      unfold addW; unfold npos; unfold npos at hp
      split
      · omega
      · split <;> omega
    rw [e]
    have hno : ¬ (subW c (min (pos + 1) s.len) 1 ≥ s.len ∨ n = 0) := by
      unfold subW; intro h; rcases h with h | h
      · split at h <;> omega
      · omega
    rw [if_neg hno]
    exact rscan_class hs _ _ hf rfl

end CelmaVerif.FixedString
