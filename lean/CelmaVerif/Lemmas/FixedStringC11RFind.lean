import CelmaVerif.Lemmas.FixedStringC11Obs
namespace CelmaVerif.FixedString
open CelmaVerif
variable {c : Cfg}

/-- greatest index below `n` that satisfies `q` -/
def lastBelow (q : Nat → Bool) : Nat → Option Nat
  | 0 => none
  | n + 1 => if q n then some n else lastBelow q n

theorem lastBelow_eq_none {q : Nat → Bool} : ∀ {n : Nat},
    lastBelow q n = none ↔ ∀ k, k < n → q k = false
  | 0 => by simp [lastBelow]
  | n + 1 => by
    unfold lastBelow
    cases hq : q n
    · simp only [Bool.false_eq_true, if_false]
      rw [lastBelow_eq_none (n := n)]
      constructor
      · intro h k hk
        by_cases hkn : k = n
        · subst hkn; exact hq
        · exact h k (by omega)
      · intro h k hk; exact h k (by omega)
    · simp only [if_true]
      constructor
      · intro h; cases h
      · intro h; have := h n (by omega); rw [hq] at this; cases this

theorem lastBelow_eq_some {q : Nat → Bool} {k : Nat} : ∀ {n : Nat},
    lastBelow q n = some k ↔ k < n ∧ q k = true ∧ ∀ j, k < j → j < n → q j = false
  | 0 => by simp [lastBelow]
  | n + 1 => by
    unfold lastBelow
    cases hq : q n
    · simp only [Bool.false_eq_true, if_false]
      rw [lastBelow_eq_some (n := n)]
      constructor
      · rintro ⟨h1, h2, h3⟩
        refine ⟨by omega, h2, fun j hj hjn => ?_⟩
        by_cases hjn' : j = n
        · subst hjn'; exact hq
        · exact h3 j hj (by omega)
      · rintro ⟨h1, h2, h3⟩
        have hkn : k ≠ n := by intro h; subst h; rw [hq] at h2; cases h2
        exact ⟨by omega, h2, fun j hj hjn => h3 j hj (by omega)⟩
    · simp only [if_true]
      constructor
      · intro h; cases h
        exact ⟨by omega, hq, fun j hj hjn => by omega⟩
      · rintro ⟨h1, h2, h3⟩
        by_cases hkn : k = n
        · subst hkn; rfl
        · have := h3 n (by omega) (by omega); rw [hq] at this; cases this

theorem lastBelow_congr {q q' : Nat → Bool} : ∀ {n : Nat}, (∀ k, k < n → q k = q' k) →
    lastBelow q n = lastBelow q' n
  | 0, _ => rfl
  | n + 1, h => by
    unfold lastBelow
    rw [h n (by omega), lastBelow_congr (n := n) (fun k hk => h k (by omega))]

/-- indices at which `q` is false can be dropped from the top of the range -/
theorem lastBelow_shrink {q : Nat → Bool} {m : Nat} : ∀ {n : Nat}, m ≤ n →
    (∀ k, m ≤ k → k < n → q k = false) → lastBelow q n = lastBelow q m
  | 0, h, _ => by have : m = 0 := by omega
                  subst this; rfl
  | n + 1, h, hq => by
    by_cases hm : m = n + 1
    · subst hm; rfl
    · rw [show lastBelow q (n + 1) = if q n then some n else lastBelow q n from rfl,
        hq n (by omega) (by omega)]
      simp only [Bool.false_eq_true, if_false]
      exact lastBelow_shrink (by omega) (fun k h1 h2 => hq k h1 (by omega))

theorem lastBelow_shift (q : Nat → Bool) : ∀ (m : Nat),
    lastBelow q (m + 1) =
      match lastBelow (fun k => q (k + 1)) m with
      | some k => some (k + 1)
      | none => if q 0 then some 0 else none
  | 0 => by simp [lastBelow]
  | m + 1 => by
    have ih := lastBelow_shift q m
    rw [lastBelow, ih]
    simp only [lastBelow]
    by_cases hq : q (m + 1) = true <;> simp [hq]

/-- (1) the backward loop over a total predicate returns the greatest hit below `n` -/
theorem rscanLoop_eq {buf : List Byte} {p : Nat → Res Bool} {q : Nat → Bool} (n : Nat)
    (hp : ∀ idx, idx < n → p idx = .ok (q idx)) : rscanLoop buf p n = .ok (lastBelow q n) := by
  induction n with
  | zero => rfl
  | succ n ih =>
    unfold rscanLoop lastBelow
    rw [hp n (by omega), bindR_ok]
    cases q n
    · simp only [Bool.false_eq_true, if_false]; exact ih (fun idx h => hp idx (by omega))
    · simp only [if_true]

/-! ### the specification's backward searches as `lastBelow` -/

theorem findIdxUpTo_eq (p : Nat → Bool) : ∀ (l : List Nat) (i lim : Nat) (best : Option Nat),
    StdString.findIdxUpTo p l i lim best =
      match lastBelow (fun k => l[k]?.any p) (min (lim + 1 - i) l.length) with
      | some k => some (i + k)
      | none => best
  | [], i, lim, best => by simp [StdString.findIdxUpTo, lastBelow]
  | x :: xs, i, lim, best => by
    unfold StdString.findIdxUpTo
    by_cases h : i > lim
    · rw [if_pos h]
      have : lim + 1 - i = 0 := by omega
      rw [this]; simp [lastBelow]
    · rw [if_neg h, findIdxUpTo_eq p xs]
      have e : min (lim + 1 - i) (x :: xs).length = min (lim + 1 - (i + 1)) xs.length + 1 := by
        simp only [List.length_cons]; omega
      rw [e, lastBelow_shift]
      simp only [List.getElem?_cons_succ, List.getElem?_cons_zero, Option.any_some]
      cases lastBelow (fun k => xs[k]?.any p) (min (lim + 1 - (i + 1)) xs.length) with
      | some k => simp only; congr 1; omega
      | none => by_cases hq : p x = true <;> simp [hq]

theorem findLast_eq (x : List Nat) (p : Nat → Bool) (pos : Nat) :
    StdString.findLast x p pos = lastBelow (fun k => x[k]?.any p) (min (pos + 1) x.length) := by
  unfold StdString.findLast
  rw [findIdxUpTo_eq]
  simp only [Nat.sub_zero, Nat.zero_add]
  cases lastBelow (fun k => x[k]?.any p) (min (pos + 1) x.length) <;> rfl

theorem isPrefixOf_nil_right (pat : List Nat) : pat.isPrefixOf [] = pat.isEmpty := by
  cases pat <;> rfl

theorem rfindUpTo_eq (pat : List Nat) : ∀ (l : List Nat) (i lim : Nat) (best : Option Nat),
    StdString.rfindUpTo pat l i lim best =
      match lastBelow (fun k => pat.isPrefixOf (l.drop k)) (min (lim + 1 - i) (l.length + 1)) with
      | some k => some (i + k)
      | none => best
  | [], i, lim, best => by
    unfold StdString.rfindUpTo
    by_cases h : i ≤ lim
    · have : min (lim + 1 - i) ([] : List Nat).length.succ = 1 := by simp; omega
      rw [this]
      simp only [lastBelow, List.drop_nil, isPrefixOf_nil_right]
      cases pat.isEmpty <;> simp [h]
    · have : lim + 1 - i = 0 := by omega
      rw [this]; simp [lastBelow, h]
  | x :: xs, i, lim, best => by
    unfold StdString.rfindUpTo
    by_cases h : i > lim
    · rw [if_pos h]
      have : lim + 1 - i = 0 := by omega
      rw [this]; simp [lastBelow]
    · rw [if_neg h, rfindUpTo_eq pat xs]
      have e : min (lim + 1 - i) ((x :: xs).length + 1) = min (lim + 1 - (i + 1)) (xs.length + 1) + 1 := by
        simp only [List.length_cons]; omega
      rw [e, lastBelow_shift]
      simp only [List.drop_succ_cons, List.drop_zero]
      cases lastBelow (fun k => pat.isPrefixOf (xs.drop k)) (min (lim + 1 - (i + 1)) (xs.length + 1)) with
      | some k => simp only; congr 1; omega
      | none => by_cases hq : pat.isPrefixOf (x :: xs) = true <;> simp [hq]

theorem rfind_eq (x pat : List Nat) (pos : Nat) :
    StdString.rfind x pat pos =
      lastBelow (fun k => pat.isPrefixOf (x.drop k)) (min (pos + 1) (x.length + 1)) := by
  unfold StdString.rfind
  rw [rfindUpTo_eq]
  simp only [Nat.sub_zero, Nat.zero_add]
  cases lastBelow (fun k => pat.isPrefixOf (x.drop k)) (min (pos + 1) (x.length + 1)) <;> rfl

end CelmaVerif.FixedString
