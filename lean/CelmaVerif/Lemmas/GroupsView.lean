import CelmaVerif.Lemmas.GroupsNormal
import CelmaVerif.Lemmas.GroupsPending
import CelmaVerif.Lemmas.GroupsGlobals
import CelmaVerif.Lemmas.RulesBase
/-
  A member of an argument group as a *view* of the merged configuration (the argument indices and
  handler-constraint indices it owns), the well-formedness of a partition into views, and the
  relation between the state of the merged handler and the state of a member.
-/
namespace CelmaVerif.ProgArgs
open CelmaVerif CelmaVerif.Keys

/-- what a member owns: indices into `cfg.args` and into `cfg.globals` -/
structure View where
  ia : List Nat
  ig : List Nat

/-- the member's configuration (`memberCfg` is `viewCfg` of the indices `memberArgIdx` selects) -/
def viewCfg (cfg : Cfg) (v : View) : Cfg :=
  { args := pick v.ia cfg.args, globals := pick v.ig cfg.globals, abbr := cfg.abbr }

/-- the keys mentioned in the `requires` / `excludes` constraints of a configuration's arguments -/
def Cfg.ckeys (c : Cfg) : List Key := c.args.flatMap (fun d => d.constraints.flatMap (fun x => x.2))

/-- the key is mentioned in a constraint of an argument of the member -/
def ownsKey (cfg : Cfg) (v : View) (k : Key) : Bool := decide (k ∈ (viewCfg cfg v).ckeys)

theorem ownsKey_iff {cfg : Cfg} {v : View} {k : Key} :
    ownsKey cfg v k = true ↔ ∃ a ∈ v.ia, ∃ d, cfg.args[a]? = some d ∧ ∃ c ∈ d.constraints, k ∈ c.2 := by
  unfold ownsKey Cfg.ckeys viewCfg
  simp only [decide_eq_true_eq, List.mem_flatMap]
  constructor
  · rintro ⟨d, hd, c, hc, hk⟩
    obtain ⟨a, ha, hda⟩ := pick_mem hd
    exact ⟨a, ha, d, hda, c, hc, hk⟩
  · rintro ⟨a, ha, d, hda, c, hc, hk⟩
    exact ⟨d, mem_pick ha hda, c, hc, hk⟩

theorem pick_map {α β : Type} (f : α → β) (ia : List Nat) (l : List α) : pick ia (l.map f) = (pick ia l).map f := by
  induction ia with
  | nil => rfl
  | cons a ia ih =>
    unfold pick at ih ⊢
    rw [List.filterMap_cons, List.filterMap_cons, ih, List.getElem?_map]
    cases l[a]? <;> rfl

theorem viewCfg_table (cfg : Cfg) (v : View) : (viewCfg cfg v).table = pick v.ia cfg.table := by
  unfold Cfg.table viewCfg
  rw [pick_map]

/-- the partition of a configuration over the members of a group is well formed -/
structure GroupWF (cfg : Cfg) (vs : List View) : Prop where
  /-- abbreviations are off (see the finding `group-abbreviation-shadows-exact`) -/
  abbr : cfg.abbr = false
  /-- the keys of all arguments, of whatever member, do not clash pairwise -/
  disj : Disjoint cfg.table
  /-- there is no positional argument -/
  nopos : ∀ d ∈ cfg.args, d.key.eq Key.pos = false
  nodup : ∀ v ∈ vs, v.ia.Nodup
  abound : ∀ v ∈ vs, ∀ a ∈ v.ia, a < cfg.args.length
  gbound : ∀ v ∈ vs, ∀ g ∈ v.ig, g < cfg.globals.length
  /-- every argument and every handler constraint belongs to a member -/
  acover : ∀ a, a < cfg.args.length → ∃ v ∈ vs, a ∈ v.ia
  gcover : ∀ g, g < cfg.globals.length → ∃ v ∈ vs, g ∈ v.ig
  /-- no argument belongs to two members -/
  apart : vs.Pairwise (fun v w => ∀ a ∈ v.ia, a ∉ w.ia)
  /-- constraint partners live in one member: a key mentioned in a constraint of an argument of a
      member does not equal the key of an argument of another member … -/
  w1 : ∀ v ∈ vs, ∀ a ∈ v.ia, ∀ b, b ∉ v.ia → ∀ da db, cfg.args[a]? = some da → cfg.args[b]? = some db →
        ∀ c ∈ da.constraints, ∀ k ∈ c.2, db.key.eq k = false
  /-- … nor a key mentioned in a constraint of an argument of another member -/
  w2 : ∀ v ∈ vs, ∀ a ∈ v.ia, ∀ b, b ∉ v.ia → ∀ da db, cfg.args[a]? = some da → cfg.args[b]? = some db →
        ∀ c ∈ da.constraints, ∀ k ∈ c.2, ∀ c' ∈ db.constraints, ∀ k' ∈ c'.2, k.eq k' = false
  /-- the arguments of a handler constraint live in the member that owns the constraint -/
  w3 : ∀ v ∈ vs, ∀ g ∈ v.ig, ∀ b, b ∉ v.ia → ∀ gd db, cfg.globals[g]? = some gd → cfg.args[b]? = some db →
        isConstraintArgument gd.keys db.key = false
  /-- the argument lists of the value constraints differ / disjoint are as `validValueArguments`
      leaves them, over a type the constraint can compare (`Cfg.ValueArgsOk`, as in `Cfg.WellFormed`) -/
  vargs : cfg.ValueArgsOk

theorem apart_unique {vs : List View} (h : vs.Pairwise (fun v w => ∀ a ∈ v.ia, a ∉ w.ia)) {v w : View}
    (hv : v ∈ vs) (hw : w ∈ vs) {i : Nat} (hiv : i ∈ v.ia) (hiw : i ∈ w.ia) : v = w := by
  induction vs with
  | nil => cases hv
  | cons x vs ih =>
    rw [List.pairwise_cons] at h
    rcases List.mem_cons.mp hv with rfl | hv' <;> rcases List.mem_cons.mp hw with rfl | hw'
    · rfl
    · exact absurd hiw (h.1 w hw' i hiv)
    · exact absurd hiv (h.1 v hv' i hiw)
    · exact ih h.2 hv' hw'

/-- state of the merged handler as far as the simulation needs it -/
structure HInv (cfg : Cfg) (vs : List View) (H : HState) : Prop where
  alen : H.args.length = cfg.args.length
  glen : H.globals.length = cfg.globals.length
  inverted : H.inverted = false
  fromSrc : H.fromSrc = false
  pend : ∀ e ∈ H.pending, ∃ v ∈ vs, ownsKey cfg v e.1 = true
  last : ∀ i, H.lastArg = some i → i < cfg.args.length

/-- the state of a member is the merged state seen through the member's view -/
structure MemRel (cfg : Cfg) (v : View) (H h : HState) : Prop where
  args : h.args = pick v.ia H.args
  globals : h.globals = pick v.ig H.globals
  pending : h.pending = pfilter (ownsKey cfg v) H.pending
  last : h.lastArg = H.lastArg.bind (fun i => v.ia.idxOf? i)
  inverted : h.inverted = false
  fromSrc : h.fromSrc = false

/-- the member states of a group are the views of the merged state, member by member -/
def GRel (cfg : Cfg) (H : HState) : List View → List (Cfg × HState) → Prop
  | [], [] => True
  | v :: vs, m :: ms => m.1 = viewCfg cfg v ∧ MemRel cfg v H m.2 ∧ GRel cfg H vs ms
  | _, _ => False

theorem GRel_split {cfg : Cfg} {H : HState} : ∀ {vpre : List View} {v : View} {vpost : List View}
    {ms : List (Cfg × HState)}, GRel cfg H (vpre ++ v :: vpost) ms →
    ∃ pre h post, ms = pre ++ (viewCfg cfg v, h) :: post ∧ GRel cfg H vpre pre ∧ MemRel cfg v H h ∧
      GRel cfg H vpost post := by
  intro vpre
  induction vpre with
  | nil =>
    intro v vpost ms h
    cases ms with
    | nil => exact h.elim
    | cons m ms =>
      obtain ⟨c, hm⟩ := m
      obtain ⟨h1, h2, h3⟩ := h
      simp only at h1
      subst h1
      exact ⟨[], hm, ms, rfl, trivial, h2, h3⟩
  | cons x vpre ih =>
    intro v vpost ms h
    cases ms with
    | nil => exact h.elim
    | cons m ms =>
      obtain ⟨h1, h2, h3⟩ := h
      obtain ⟨pre, hm, post, e, r1, r2, r3⟩ := ih h3
      exact ⟨m :: pre, hm, post, by rw [e]; rfl, ⟨h1, h2, r1⟩, r2, r3⟩

theorem GRel_join {cfg : Cfg} {H : HState} : ∀ {vpre : List View} {v : View} {vpost : List View}
    {pre : List (Cfg × HState)} {h : HState} {post : List (Cfg × HState)},
    GRel cfg H vpre pre → MemRel cfg v H h → GRel cfg H vpost post →
    GRel cfg H (vpre ++ v :: vpost) (pre ++ (viewCfg cfg v, h) :: post) := by
  intro vpre
  induction vpre with
  | nil =>
    intro v vpost pre h post r1 r2 r3
    cases pre with
    | nil => exact ⟨rfl, r2, r3⟩
    | cons _ _ => exact r1.elim
  | cons x vpre ih =>
    intro v vpost pre h post r1 r2 r3
    cases pre with
    | nil => exact r1.elim
    | cons m pre =>
      obtain ⟨h1, h2, h3⟩ := r1
      exact ⟨h1, h2, ih h3 r2 r3⟩

/-- the members that do not answer keep their view of the merged state, with the last argument
    forgotten -/
theorem GRel_clear {cfg : Cfg} {H H' : HState} : ∀ {vs : List View} {ms : List (Cfg × HState)},
    GRel cfg H vs ms → (∀ v ∈ vs, ∀ h, MemRel cfg v H h → MemRel cfg v H' { h with lastArg := none }) →
    GRel cfg H' vs (clearLast ms) := by
  intro vs
  induction vs with
  | nil =>
    intro ms h _
    cases ms with
    | nil => trivial
    | cons _ _ => exact h.elim
  | cons v vs ih =>
    intro ms h hf
    cases ms with
    | nil => exact h.elim
    | cons m ms =>
      obtain ⟨c, hm⟩ := m
      obtain ⟨h1, h2, h3⟩ := h
      exact ⟨h1, hf v (List.mem_cons_self ..) hm h2, ih h3 (fun w hw => hf w (List.mem_cons_of_mem _ hw))⟩

theorem GRel_mem {cfg : Cfg} {H : HState} : ∀ {vs : List View} {ms : List (Cfg × HState)},
    GRel cfg H vs ms → ∀ m ∈ ms, ∃ v ∈ vs, m.1 = viewCfg cfg v ∧ MemRel cfg v H m.2 := by
  intro vs
  induction vs with
  | nil =>
    intro ms h m hm
    cases ms with
    | nil => cases hm
    | cons _ _ => exact h.elim
  | cons v vs ih =>
    intro ms h m hm
    cases ms with
    | nil => cases hm
    | cons m0 ms =>
      obtain ⟨h1, h2, h3⟩ := h
      rcases List.mem_cons.mp hm with rfl | hm
      · exact ⟨v, List.mem_cons_self .., h1, h2⟩
      · obtain ⟨w, hw, r⟩ := ih h3 m hm
        exact ⟨w, List.mem_cons_of_mem _ hw, r⟩

theorem GRel_mem' {cfg : Cfg} {H : HState} : ∀ {vs : List View} {ms : List (Cfg × HState)},
    GRel cfg H vs ms → ∀ v ∈ vs, ∃ m ∈ ms, m.1 = viewCfg cfg v ∧ MemRel cfg v H m.2 := by
  intro vs
  induction vs with
  | nil => intro ms _ v hv; cases hv
  | cons v0 vs ih =>
    intro ms h v hv
    cases ms with
    | nil => exact h.elim
    | cons m0 ms =>
      obtain ⟨h1, h2, h3⟩ := h
      rcases List.mem_cons.mp hv with rfl | hv
      · exact ⟨m0, List.mem_cons_self .., h1, h2⟩
      · obtain ⟨m, hm, r⟩ := ih h3 v hv
        exact ⟨m, List.mem_cons_of_mem _ hm, r⟩

theorem GRel_length {cfg : Cfg} {H : HState} : ∀ {vs : List View} {ms : List (Cfg × HState)},
    GRel cfg H vs ms → ms.length = vs.length := by
  intro vs
  induction vs with
  | nil => intro ms h; cases ms with
    | nil => rfl
    | cons _ _ => exact h.elim
  | cons v vs ih =>
    intro ms h
    cases ms with
    | nil => exact h.elim
    | cons m ms => simp [ih h.2.2]

end CelmaVerif.ProgArgs
