import CelmaVerif.Lemmas.DynBitsetIter
/-
  C12 helper lemmas, part 4: whole histories.  Every modelled operation returns normally and equals the
  reference operation, hence so does every sequence; every observer equals the reference observer.
-/
set_option linter.unusedSimpArgs false
namespace CelmaVerif.DynBitset
open CelmaVerif

theorem ofSize_eq (n : Nat) : ofSize n = List.replicate n false := by
  apply ext_bit (by rw [ofSize_length]; simp)
  intro j _
  rw [ofSize_getD, List.getD_eq_getElem?_getD, replicate_false_getD]

theorem step_eq (c : Bool) (st : Store) (op : Op) (h : c = false → op.isResetAll = false)
    (hr : op.arg < posLimit) :
    step st op = .ok (Ref.step c st op) := by
  cases op with
  | resetAll r =>
    cases c with
    | true => rfl
    | false => simp [Op.isResetAll] at h
  | new r bits => rfl
  | newSized r n => simp only [step, Ref.step, ofSize_eq]
  | setAll r => simp only [step, Ref.step, setAll_eq, rmap]
  | flipAll r => rfl
  | set r pos val => simp only [step, Ref.step, set_eq _ pos _ hr, rmap]
  | reset r pos => simp only [step, Ref.step, reset_eq _ pos hr, rmap]
  | flip r pos => simp only [step, Ref.step, flip_eq _ pos hr, rmap]
  | idxAssign r pos val => simp only [step, Ref.step, idxAssign_eq _ pos _ hr, rmap]
  | idxRead r pos => simp only [step, Ref.step, idxRead_eq _ pos hr, rmap]
  | resize r n val => rfl
  | andA r s => simp only [step, Ref.step, andAssign_eq, rmap]
  | orA r s => simp only [step, Ref.step, orAssign_eq, rmap]
  | xorA r s => simp only [step, Ref.step, xorAssign_eq, rmap]
  | shlA r k => simp only [step, Ref.step, shlAssign_eq _ k hr, rmap]
  | shrA r k => simp only [step, Ref.step, shrAssign_eq _ k hr, rmap]
  | and r s d => simp only [step, Ref.step, bitAnd, andAssign_eq, rmap]
  | or r s d => simp only [step, Ref.step, bitOr, orAssign_eq, rmap]
  | xor r s d => simp only [step, Ref.step, bitXor, xorAssign_eq, rmap]
  | shl r k d => simp only [step, Ref.step, shl_eq _ k hr, rmap]
  | shr r k d => simp only [step, Ref.step, shr_eq _ k hr, rmap]
  | not r d => rfl
  | copy r d => rfl

theorem run_eq (c : Bool) : ∀ (ops : List Op) (st : Store), (c = false → ∀ op ∈ ops, op.isResetAll = false) →
    (∀ op ∈ ops, op.arg < posLimit) →
    run st ops = .ok (Ref.run c st ops) := by
  intro ops
  induction ops with
  | nil => intro st _ _; rfl
  | cons op ops ih =>
    intro st h hr
    simp only [run, Ref.run]
    rw [step_eq c st op (fun hc => h hc op (List.mem_cons_self ..)) (hr op (List.mem_cons_self ..))]
    exact ih _ (fun hc o ho => h hc o (List.mem_cons_of_mem _ ho)) (fun o ho => hr o (List.mem_cons_of_mem _ ho))

/-- outside the modelled range the model is silent: a positional operation with an argument of
    2^51 or more is `oob` ("not modelled"), never `ok` -/
theorem step_out_of_range (st : Store) (op : Op) (h : posLimit ≤ op.arg) :
    ∃ w, step st op = .oob w := by
  have hn : ¬ op.arg < posLimit := by omega
  cases op <;> simp only [Op.arg] at hn <;>
    first
    | (exfalso; exact hn (by unfold posLimit; omega))
    | (simp only [step, set, reset, flip, idxAssign, idxRead, shlAssign, shrAssign, shl, shr, inRange, if_neg hn, rmap]
       exact ⟨_, rfl⟩)

/-! ## conversions from `std::bitset< N>` -/

/-- the copy loop `for idx in [0, N): mData[idx] = other[idx]` over a vector of N bits -/
theorem bsLoop (other a : Bits) (h : a.length = other.length) :
    forUp (bsBody other) other.length 0 a = .ok other := by
  obtain ⟨v, h1, h2, h3⟩ := forUp_inv
    (fun i (v : Bits) => v.length = other.length ∧
      ∀ j, j < i → v.getD j false = other.getD j false)
    (bsBody other) other.length 0 a ⟨h, by intro j hj; omega⟩
    (by
      intro i s _ hi ⟨hl, hb⟩
      have h1 : i < other.length := by omega
      have h2 : i < s.length := by omega
      refine ⟨s.set i (other.getD i false), by simp only [bsBody, rd_ok h1, wr_ok h2], by simp [hl], ?_⟩
      intro j hj
      rw [getD_set _ _ _ _ h2]
      by_cases hji : j = i
      · subst hji; rw [if_pos rfl]
      · rw [if_neg hji]; exact hb j (by omega))
  rw [h1]
  congr 1
  exact ext_bit h2 (fun j hj => h3 j (by omega))

theorem ofBitset_eq (other : Bits) : ofBitset other = .ok other := by
  unfold ofBitset; exact bsLoop other _ (by simp)

theorem assignBitset_eq (v other : Bits) : assignBitset v other = .ok other := by
  unfold assignBitset; exact bsLoop other _ (resize_length _ _ _)

theorem observe_eq (v : Bits) : observe v = Ref.observe v := by
  unfold observe Ref.observe
  rw [toStr_eq, count_eq, anySet_eq, noneSet_eq, allSet_eq, toUlong_eq, iterate_eq, riterate_eq]
  congr 1
  · funext p; exact test_eq v p
  · funext p; exact idxConst_eq v p

/-! ## `to_ulong` fits into 64 bits (the `unsigned long` accumulation of the code cannot wrap) -/

theorem value_lt (v : Bits) : Ref.value v < 2 ^ v.length := by
  induction v with
  | nil => simp [Ref.value]
  | cons b bs ih =>
    simp only [Ref.value, List.length_cons, Nat.pow_succ]
    cases b <;> simp <;> omega

theorem value_zero (v : Bits) (h : v.any id = false) : Ref.value v = 0 := by
  induction v with
  | nil => rfl
  | cons b bs ih =>
    simp only [List.any_cons, id, Bool.or_eq_false_iff] at h
    simp only [Ref.value, h.1, ih h.2]
    rfl

theorem value_take : ∀ (n : Nat) (v : Bits), (v.drop n).any id = false → Ref.value v = Ref.value (v.take n) := by
  intro n
  induction n with
  | zero => intro v h; rw [List.drop_zero] at h; rw [value_zero v h]; rfl
  | succ n ih =>
    intro v h
    cases v with
    | nil => rfl
    | cons b bs =>
      rw [List.drop_succ_cons] at h
      simp only [List.take_succ_cons, Ref.value, ih bs h]

theorem toUlong_fits (v : Bits) (n : Nat) (h : toUlong v = .ok n) : n < 2 ^ 64 := by
  rw [toUlong_eq] at h
  unfold Ref.toUlong at h
  split at h
  · cases h
  · rename_i hany
    cases h
    rw [value_take 64 v (by simpa using hany)]
    have h1 := value_lt (v.take 64)
    have h2 : (v.take 64).length ≤ 64 := by rw [List.length_take]; omega
    exact Nat.lt_of_lt_of_le h1 (Nat.pow_le_pow_right (by omega) h2)

end CelmaVerif.DynBitset
