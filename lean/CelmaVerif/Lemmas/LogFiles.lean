import CelmaVerif.Model.LogFiles
/-
  Helper lemmas for C15 (rolling log files), part 1: sizes, the rename chain, `retained`.
-/
namespace CelmaVerif.LogFiles

/-! ### files and sizes -/

@[simp] theorem setFile_get (fs : Fs) (n : Nat) (f : File) (i : Nat) :
    (setFile fs n f).get i = if i = n then some f else fs.get i := rfl

@[simp] theorem emptyFs_get (i : Nat) : emptyFs.get i = none := rfl

theorem fileBytes_append (f : File) (m : Msg) : fileBytes (f ++ [m]) = fileBytes f + (m.length + 1) := by
  simp [fileBytes, List.sum_append]

@[simp] theorem fileBytes_nil : fileBytes [] = 0 := rfl

theorem fileBytes_eq_zero {f : File} (h : fileBytes f = 0) : f = [] := by
  cases f with
  | nil => rfl
  | cons m f => simp [fileBytes] at h

theorem fileNewlines_eq_length {f : File} (h : ∀ m ∈ f, 10 ∉ m) : fileNewlines f = f.length := by
  induction f with
  | nil => rfl
  | cons m f ih =>
    have h1 : m.count 10 = 0 := List.count_eq_zero.mpr (h m (by simp))
    have h2 := ih (fun x hx => h x (by simp [hx]))
    simp only [fileNewlines, List.map_cons, List.sum_cons, List.length_cons] at h2 ⊢
    omega

@[simp] theorem size_nil (cfg : Cfg) : size cfg [] = 0 := by
  unfold size; cases cfg.kind <;> rfl

theorem size_append (cfg : Cfg) (f : File) (m : Msg) : size cfg (f ++ [m]) = size cfg f + cost cfg m := by
  unfold size cost
  cases cfg.kind
  · simp
  · exact fileBytes_append f m

theorem size_single (cfg : Cfg) (m : Msg) : size cfg [m] = cost cfg m := by
  have := size_append cfg [] m
  simpa using this

theorem cost_pos (cfg : Cfg) (m : Msg) : 1 ≤ cost cfg m := by
  unfold cost; cases cfg.kind <;> simp

theorem nextCost_pos (cfg : Cfg) (f : File) : 1 ≤ nextCost cfg f := by
  cases f with
  | nil => simp [nextCost]
  | cons m f => exact cost_pos cfg m

theorem nextCost_append (cfg : Cfg) (f : File) (m : Msg) :
    nextCost cfg (f ++ [m]) = if f = [] then cost cfg m else nextCost cfg f := by
  cases f <;> simp [nextCost]

/-! ### the rename chain -/

theorem rename_get_some {fs : Fs} {dest src : Nat} {f : File} (h : fs.get src = some f) (i : Nat) :
    (rename fs dest src).get i = if i = src then none else if i = dest then some f else fs.get i := by
  unfold rename; rw [h]

theorem rename_none {fs : Fs} {dest src : Nat} (h : fs.get src = none) : rename fs dest src = fs := by
  unfold rename; rw [h]

/-- closed form of the rename loop on a directory without holes below `j` -/
theorem rollFrom_get (j : Nat) : ∀ (fs : Fs),
    (∀ n, n < j → fs.get n = none → fs.get (n + 1) = none) →
    ∀ n, (rollFrom fs j).get n =
      if n = 0 then (if j = 0 then fs.get 0 else none)
      else if n ≤ j then fs.get (n - 1) else fs.get n := by
  induction j with
  | zero =>
    intro fs _ n
    simp only [rollFrom]
    by_cases h : n = 0
    · simp [h]
    · have : ¬ n ≤ 0 := by omega
      simp [h]
  | succ j ih =>
    intro fs hc n
    simp only [rollFrom]
    -- the first rename of the loop: (j+1) <- j
    cases hsrc : fs.get j with
    | none =>
      have hj1 : fs.get (j + 1) = none := hc j (by omega) hsrc
      rw [rename_none hsrc]
      rw [ih fs (fun n hn => hc n (by omega)) n]
      by_cases h0 : n = 0
      · subst h0
        by_cases hj : j = 0
        · subst hj; simp [hsrc]
        · simp [hj]
      · by_cases h1 : n ≤ j
        · have : n ≤ j + 1 := by omega
          simp [h0, h1, this]
        · by_cases h2 : n = j + 1
          · subst h2; simp [hj1, hsrc]
          · have : ¬ n ≤ j + 1 := by omega
            simp [h0, h1, this]
    | some f =>
      have hget := fun i => rename_get_some (dest := j + 1) hsrc i
      have hc' : ∀ n, n < j → (rename fs (j + 1) j).get n = none → (rename fs (j + 1) j).get (n + 1) = none := by
        intro n hn hnone
        rw [hget] at hnone ⊢
        have e1 : ¬ n = j := by omega
        have e2 : ¬ n = j + 1 := by omega
        rw [if_neg e1, if_neg e2] at hnone
        by_cases e3 : n + 1 = j
        · rw [if_pos e3]
        · have e4 : ¬ n + 1 = j + 1 := by omega
          rw [if_neg e3, if_neg e4]
          exact hc n (by omega) hnone
      rw [ih _ hc' n]
      by_cases h0 : n = 0
      · subst h0
        by_cases hj : j = 0
        · subst hj; simp [hget]
        · simp [hj]
      · by_cases h1 : n ≤ j
        · have : n ≤ j + 1 := by omega
          have e1 : ¬ n - 1 = j := by omega
          have e2 : ¬ n - 1 = j + 1 := by omega
          simp [h0, h1, this, hget, e1, e2]
        · by_cases h2 : n = j + 1
          · subst h2; simp [hget, hsrc]
          · have : ¬ n ≤ j + 1 := by omega
            have e1 : ¬ n = j := by omega
            simp [h0, h1, this, hget, e1, h2]

theorem numGen_pos (cfg : Cfg) : 1 ≤ numGen cfg := by
  unfold numGen; split <;> omega

theorem maxGen_sub (cfg : Cfg) : cfg.maxGen - 1 = numGen cfg - 1 := by
  unfold numGen; split <;> omega

/-- the directory after `rollFiles` and re-creating generation 0 with content `g0`, when the files were
    exactly the generations below `k ≤ numGen` -/
theorem roll_get (cfg : Cfg) (fs : Fs) (k : Nat) (hk : k ≤ numGen cfg)
    (hex : ∀ n, n < k → fs.get n ≠ none) (hnex : ∀ n, k ≤ n → fs.get n = none) (g0 : File) (n : Nat) :
    (setFile (rollFiles cfg fs) 0 g0).get n =
      if n = 0 then some g0 else if n < numGen cfg then fs.get (n - 1) else none := by
  have hc : ∀ n, n < cfg.maxGen - 1 → fs.get n = none → fs.get (n + 1) = none := by
    intro n _ h
    apply hnex
    by_cases hn : n < k
    · exact absurd h (hex n hn)
    · omega
  simp only [setFile_get, rollFiles]
  by_cases h0 : n = 0
  · simp [h0]
  · rw [if_neg h0, if_neg h0, rollFrom_get _ fs hc n, if_neg h0, maxGen_sub]
    have := numGen_pos cfg
    by_cases h1 : n < numGen cfg
    · have : n ≤ numGen cfg - 1 := by omega
      simp [h1, this]
    · have h2 : ¬ n ≤ numGen cfg - 1 := by omega
      rw [if_neg h2, if_neg h1]
      exact hnex n (by omega)

/-! ### `retained` -/

theorem retained_congr {fs fs' : Fs} (n : Nat) (h : ∀ i, i < n → fs'.get i = fs.get i) :
    retained fs' n = retained fs n := by
  induction n with
  | zero => rfl
  | succ n ih =>
    simp only [retained]
    rw [h n (by omega), ih (fun i hi => h i (by omega))]

/-- appending to generation 0 appends to what is retained -/
theorem retained_append0 {fs fs' : Fs} {f x : File} (h0 : fs.get 0 = some f) (h0' : fs'.get 0 = some (f ++ x))
    (hrest : ∀ i, 1 ≤ i → fs'.get i = fs.get i) (n : Nat) :
    retained fs' (n + 1) = retained fs (n + 1) ++ x := by
  induction n with
  | zero => simp [retained, h0, h0']
  | succ n ih =>
    have : retained fs' (n + 1 + 1) = (fs'.get (n + 1)).getD [] ++ retained fs' (n + 1) := rfl
    rw [this, ih, hrest (n + 1) (by omega)]
    simp [retained]

/-- after a roll, generations 1..n hold what generations 0..n-1 held -/
theorem retained_shift {fs fs' : Fs} {g0 : File} (K : Nat) (h0' : fs'.get 0 = some g0)
    (hshift : ∀ i, 1 ≤ i → i < K → fs'.get i = fs.get (i - 1)) (n : Nat) (hn : n + 1 ≤ K) :
    retained fs' (n + 1) = retained fs n ++ g0 := by
  induction n with
  | zero => simp [retained, h0']
  | succ n ih =>
    have : retained fs' (n + 1 + 1) = (fs'.get (n + 1)).getD [] ++ retained fs' (n + 1) := rfl
    rw [this, ih (by omega), hshift (n + 1) (by omega) (by omega)]
    simp [retained]

theorem retained_none {fs : Fs} (n : Nat) (h : fs.get n = none) : retained fs (n + 1) = retained fs n := by
  simp [retained, h]

theorem retained_suffix_succ (fs : Fs) (n : Nat) : retained fs n <:+ retained fs (n + 1) := by
  simp only [retained]
  exact List.suffix_append _ _

/-- `generations` read as one sequence is `retained` -/
theorem generations_flatten (fs : Fs) (n : Nat) : (generations fs n).flatten = retained fs n := by
  induction n with
  | zero => rfl
  | succ n ih =>
    unfold generations at ih ⊢
    rw [List.range_succ, List.reverse_append, List.filterMap_append, List.flatten_append, ih]
    simp only [List.reverse_cons, List.reverse_nil, List.nil_append, retained]
    cases h : fs.get n <;> simp [h]

theorem mem_generations {fs : Fs} {n : Nat} {g : File} :
    g ∈ generations fs n ↔ ∃ i, i < n ∧ fs.get i = some g := by
  unfold generations
  simp [List.mem_filterMap]

theorem generations_length {fs : Fs} {k : Nat} (hex : ∀ n, n < k → fs.get n ≠ none)
    (hnex : ∀ n, k ≤ n → fs.get n = none) (K : Nat) : (generations fs K).length = min k K := by
  induction K with
  | zero => simp [generations]
  | succ K ih =>
    unfold generations at ih ⊢
    rw [List.range_succ, List.reverse_append, List.filterMap_append, List.length_append, ih]
    by_cases h : K < k
    · cases hg : fs.get K with
      | none => exact absurd hg (hex K h)
      | some g => simp [hg]; omega
    · have hg := hnex K (by omega)
      simp [hg]; omega

theorem generations_length_le (fs : Fs) (n : Nat) : (generations fs n).length ≤ n := by
  unfold generations
  have := List.length_filterMap_le fs.get (List.range n).reverse
  simpa using this

end CelmaVerif.LogFiles
