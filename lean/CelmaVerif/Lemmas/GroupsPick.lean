import CelmaVerif.Lemmas.GroupsDispatch
/-
  Projections of the merged handler onto a member of an argument group: `pick ia l` selects the
  entries of `l` at the indices `ia` (how `memberCfg` builds a member's tables), with the lemmas that
  relate positions in the member to indices in the merged configuration.
-/
namespace CelmaVerif.ProgArgs
open CelmaVerif CelmaVerif.Keys

/-- the entries of `l` at the indices `ia`, in the order of `ia` -/
def pick {α : Type} (ia : List Nat) (l : List α) : List α := ia.filterMap (fun a => l[a]?)

theorem pick_nil {α : Type} (l : List α) : pick [] l = [] := rfl

theorem pick_cons_lt {α : Type} (a : Nat) (ia : List Nat) (l : List α) (h : a < l.length) :
    pick (a :: ia) l = l[a] :: pick ia l := by
  unfold pick
  rw [List.filterMap_cons]
  simp [h]

theorem pick_getElem? {α : Type} (ia : List Nat) (l : List α) (hb : ∀ a ∈ ia, a < l.length) (p : Nat) :
    (pick ia l)[p]? = (ia[p]?).bind (fun a => l[a]?) := by
  induction ia generalizing p with
  | nil => simp [pick]
  | cons a ia ih =>
    rw [pick_cons_lt a ia l (hb a (List.mem_cons_self ..))]
    cases p with
    | zero => simp
    | succ p =>
      simp only [List.getElem?_cons_succ]
      exact ih (fun x hx => hb x (List.mem_cons_of_mem _ hx)) p

theorem pick_length {α : Type} (ia : List Nat) (l : List α) (hb : ∀ a ∈ ia, a < l.length) :
    (pick ia l).length = ia.length := by
  induction ia with
  | nil => rfl
  | cons a ia ih =>
    rw [pick_cons_lt a ia l (hb a (List.mem_cons_self ..))]
    simp [ih (fun x hx => hb x (List.mem_cons_of_mem _ hx))]

theorem pick_mem {α : Type} {ia : List Nat} {l : List α} {x : α} (h : x ∈ pick ia l) :
    ∃ a ∈ ia, l[a]? = some x := by
  unfold pick at h
  rw [List.mem_filterMap] at h
  exact h

theorem mem_pick {α : Type} {ia : List Nat} {l : List α} {x : α} {a : Nat} (ha : a ∈ ia) (hx : l[a]? = some x) :
    x ∈ pick ia l := by
  unfold pick
  rw [List.mem_filterMap]
  exact ⟨a, ha, hx⟩

/-- the position of an index inside a member -/
theorem idxOf?_getElem? {ia : List Nat} {i loc : Nat} (h : ia.idxOf? i = some loc) : ia[loc]? = some i := by
  induction ia generalizing loc with
  | nil => simp [List.idxOf?] at h
  | cons a ia ih =>
    rw [List.idxOf?_cons] at h
    split at h
    · rename_i hai
      cases h
      simp at hai
      simp [hai]
    · cases hr : ia.idxOf? i with
      | none => rw [hr] at h; cases h
      | some l' =>
        rw [hr] at h
        simp only [Option.map_some, Option.some.injEq] at h
        subst h
        simpa using ih hr

theorem idxOf?_mem {ia : List Nat} {i loc : Nat} (h : ia.idxOf? i = some loc) : i ∈ ia :=
  List.mem_of_getElem? (idxOf?_getElem? h)

theorem idxOf?_of_mem {ia : List Nat} {i : Nat} (h : i ∈ ia) : ∃ loc, ia.idxOf? i = some loc := by
  cases hr : ia.idxOf? i with
  | none => exact absurd h (List.idxOf?_eq_none_iff.mp hr)
  | some l => exact ⟨l, rfl⟩

/-- the first position is the only position in a member without repeated indices -/
theorem idxOf?_unique {ia : List Nat} (hn : ia.Nodup) {i loc p : Nat} (h : ia.idxOf? i = some loc)
    (hp : ia[p]? = some i) : p = loc := by
  induction ia generalizing loc p with
  | nil => simp at hp
  | cons a ia ih =>
    rw [List.nodup_cons] at hn
    rw [List.idxOf?_cons] at h
    split at h
    · rename_i hai
      have hai' : a = i := by simpa using hai
      cases h
      cases p with
      | zero => rfl
      | succ p =>
        simp only [List.getElem?_cons_succ] at hp
        exact absurd (hai' ▸ List.mem_of_getElem? hp) hn.1
    · rename_i hai
      have hai' : a ≠ i := by simpa using hai
      cases hr : ia.idxOf? i with
      | none => rw [hr] at h; cases h
      | some l' =>
        rw [hr] at h
        simp only [Option.map_some, Option.some.injEq] at h
        subst h
        cases p with
        | zero => simp at hp; exact absurd hp hai'
        | succ p =>
          simp only [List.getElem?_cons_succ] at hp
          rw [ih hn.2 hr hp]

theorem pick_at {α : Type} {ia : List Nat} {l : List α} (hb : ∀ a ∈ ia, a < l.length) {i loc : Nat}
    (h : ia.idxOf? i = some loc) : (pick ia l)[loc]? = l[i]? := by
  rw [pick_getElem? ia l hb, idxOf?_getElem? h]
  rfl

/-- writing an entry that the member does not own is invisible in the member -/
theorem pick_set_notmem {α : Type} (ia : List Nat) (l : List α) (i : Nat) (x : α) (h : i ∉ ia) :
    pick ia (l.set i x) = pick ia l := by
  induction ia with
  | nil => rfl
  | cons a ia ih =>
    have hne : i ≠ a := fun e => h (e ▸ List.mem_cons_self ..)
    have hrest : i ∉ ia := fun hm => h (List.mem_cons_of_mem _ hm)
    unfold pick at ih ⊢
    rw [List.filterMap_cons, List.filterMap_cons, List.getElem?_set, if_neg hne, ih hrest]

/-- writing an entry that the member owns is a write at its position in the member -/
theorem pick_set_mem {α : Type} (ia : List Nat) (l : List α) (hb : ∀ a ∈ ia, a < l.length) (hn : ia.Nodup)
    {i loc : Nat} (x : α) (h : ia.idxOf? i = some loc) :
    pick ia (l.set i x) = (pick ia l).set loc x := by
  have hb' : ∀ a ∈ ia, a < (l.set i x).length := by intro a ha; rw [List.length_set]; exact hb a ha
  apply List.ext_getElem?
  intro p
  rw [pick_getElem? ia _ hb', List.getElem?_set, pick_getElem? ia l hb, pick_length ia l hb]
  by_cases hp : loc = p
  · subst hp
    rw [if_pos rfl, idxOf?_getElem? h]
    have hlt : loc < ia.length := by
      have := idxOf?_getElem? h
      exact (List.getElem?_eq_some_iff.mp this).1
    have hil : i < l.length := hb i (idxOf?_mem h)
    simp [hlt, hil]
  · rw [if_neg hp]
    cases hq : ia[p]? with
    | none => rfl
    | some a =>
      simp only [Option.bind_some]
      rw [List.getElem?_set]
      have : i ≠ a := by
        intro e
        subst e
        exact hp (idxOf?_unique hn h hq).symm
      rw [if_neg this]

/-! ### keys -/

theorem Key.eq_refl (a : Key) : a.eq a = true := by
  obtain ⟨s, l⟩ := a
  unfold Key.eq
  cases s <;> cases l <;> simp

theorem Key.eq_symm (a b : Key) : a.eq b = b.eq a := by
  obtain ⟨s, l⟩ := a
  obtain ⟨s', l'⟩ := b
  unfold Key.eq
  cases s <;> cases s' <;> cases l <;> cases l' <;> simp [Bool.beq_comm]

theorem disjoint_nodup {α : Type} {t : List (Key × α)} (h : Disjoint t) : t.Nodup := by
  unfold Disjoint at h
  exact h.imp (fun {a b} hnc e => hnc (by rw [e]; exact clash_refl _))

/-- in a table without clashing keys at most one entry equals a (single) lookup key -/
theorem disjoint_eq_unique {α : Type} {t : List (Key × α)} (ht : Disjoint t) {k : Key} (hk : k.Single)
    {i j : Nat} {e f : Key × α} (hi : t[i]? = some e) (hj : t[j]? = some f)
    (he : e.1.eq k = true) (hf : f.1.eq k = true) : i = j := by
  have hc1 := (eq_iff_clash_of_single e.1 k hk).mp he
  have hc2 := (eq_iff_clash_of_single f.1 k hk).mp hf
  have hef : e = f := disjoint_mem_eq ht (List.mem_of_getElem? hi) (List.mem_of_getElem? hj) (clash_trans_single hk hc1 hc2)
  have hn := disjoint_nodup ht
  obtain ⟨hil, hie⟩ := List.getElem?_eq_some_iff.mp hi
  obtain ⟨hjl, hje⟩ := List.getElem?_eq_some_iff.mp hj
  have hp := List.pairwise_iff_getElem.mp hn
  rcases Nat.lt_trichotomy i j with hlt | heq | hgt
  · exact absurd (by rw [hie, hje, hef]) (hp i j hil hjl hlt)
  · exact heq
  · exact absurd (by rw [hie, hje, hef]) (hp j i hjl hil hgt)

/-- the exact lookup in a member: the only entry of the merged table that equals the key is found at
    its position in the member, or not at all when the member does not own it -/
theorem findExact_pick {α : Type} (t : List (Key × α)) (k : Key) (i : Nat) (e : Key × α) (hi : t[i]? = some e)
    (huniq : ∀ j f, t[j]? = some f → f.1.eq k = true → j = i) (hek : e.1.eq k = true)
    (ia : List Nat) (hb : ∀ a ∈ ia, a < t.length) (s : Nat) :
    findExact k (pick ia t) s = (ia.idxOf? i).map (fun loc => (loc + s, e.2)) := by
  induction ia generalizing s with
  | nil => rfl
  | cons a ia ih =>
    have ha := hb a (List.mem_cons_self ..)
    rw [pick_cons_lt a ia t ha, List.idxOf?_cons]
    have hta : t[a]? = some t[a] := by simp [ha]
    unfold findExact
    by_cases hm : t[a].1.eq k = true
    · have hai := huniq a t[a] hta hm
      subst hai
      have : t[a] = e := by rw [hta] at hi; exact Option.some.inj hi
      rw [if_pos hm]
      simp [this]
    · rw [if_neg hm]
      have hne : a ≠ i := by
        intro e'
        subst e'
        rw [hta] at hi
        cases hi
        exact hm hek
      have : (a == i) = false := by simpa using hne
      rw [this]
      simp only [Bool.false_eq_true, if_false]
      rw [ih (fun x hx => hb x (List.mem_cons_of_mem _ hx)) (s + 1)]
      cases ia.idxOf? i with
      | none => rfl
      | some l => simp; omega

end CelmaVerif.ProgArgs
