import CelmaVerif.Lemmas.FixedStringC11Cover
import CelmaVerif.Lemmas.FixedStringC11W4
/-
  C11, deviation `strchrNul`: the strchr-based character-class searches (`find_first_of`, `find_first_not_of`,
  `find_last_of`, `find_last_not_of` with a FixedString, std::string or C-string needle) behave, for EVERY
  content (embedded NUL characters included) and every needle (embedded NUL included), exactly like the textbook
  search for the character set `ofCStr pat ++ [0]`: the set is cut at its first NUL, and NUL belongs to every set
  (`strchr( str, '\0')` finds the terminator).

  `strchr_all`, `findFirstOfImpl_nul`, `findLastOfImpl_nul` generalise `strchr_eq` / `findFirstOfImpl_abs` /
  `findLastOfImpl_abs` (no "content without NUL" hypothesis); `dev_step_strchrNul` is the `step`-level statement.
-/
namespace CelmaVerif.FixedString
open CelmaVerif
variable {c cu : Cfg} {w : World}

/-! ### `strchr` on a terminated allocation, for every character -/

theorem ofCStr_cons_nul (xs : List Byte) : StdString.ofCStr ((0 : Byte) :: xs) = [] := by
  rw [StdString.ofCStr, if_pos rfl]

theorem ofCStr_cons_ne {x : Byte} (hx : ¬ x = 0) (xs : List Byte) :
    StdString.ofCStr (x :: xs) = x :: StdString.ofCStr xs := by
  rw [StdString.ofCStr, if_neg hx]

theorem strchr_all : ∀ {a : List Byte} (_h0 : (0 : Byte) ∈ a) (x : Byte),
    strchr a x = .ok ((StdString.ofCStr a ++ [0]).contains x)
  | [], h0, _ => by cases h0
  | b :: bs, h0, x => by
    rw [strchr]
    by_cases hb : b = 0
    · subst hb
      rw [ofCStr_cons_nul]
      by_cases hbx : (0 : Byte) = x
      · rw [if_pos hbx]; subst hbx; simp
      · rw [if_neg hbx, if_pos rfl]
        have : ¬ x = 0 := fun e => hbx e.symm
        simp [this]
    · have h0' : (0 : Byte) ∈ bs := by
        rcases List.mem_cons.mp h0 with h | h
        · exact absurd h.symm hb
        · exact h
      rw [ofCStr_cons_ne hb, List.cons_append, List.contains_cons]
      by_cases hbx : b = x
      · rw [if_pos hbx]; simp [hbx]
      · rw [if_neg hbx, if_neg hb, strchr_all h0' x]
        have h' : ¬ x = b := fun e => hbx e.symm
        simp [h']

/-! ### the forward and the backward search, for every content and every needle -/

theorem findFirstOfImpl_nul {s : FStr} (hs : WF c s) {a : List Byte} (h0 : (0 : Byte) ∈ a) (pos : Nat) {n : Nat}
    (hn : 0 < n) (neg : Bool) :
    findFirstOfImpl s a pos n neg =
      .ok (if neg then StdString.findFirstNotOf (abs s) (StdString.ofCStr a ++ [0]) pos
           else StdString.findFirstOf (abs s) (StdString.ofCStr a ++ [0]) pos) := by
  have hl := abs_length hs
  unfold findFirstOfImpl
  by_cases hp : pos > s.len
  · rw [if_pos (Or.inl hp)]
    unfold StdString.findFirstNotOf StdString.findFirstOf StdString.findFirst
    have hge : pos ≥ s.len := by omega
    rw [hl, if_pos hge, if_pos hge]; simp
  · rw [if_neg (by omega)]
    exact scanSet_abs hs (p := fun x => strchr a x) (set := StdString.ofCStr a ++ [0])
      (fun x _ => strchr_all h0 x) (by omega) neg

theorem findLastOfImpl_nul (hc : CfgOK c) {s : FStr} (hs : WF c s) {a : List Byte} (h0 : (0 : Byte) ∈ a) {n : Nat}
    (hn : 0 < n) {pos : Nat} (hp : pos = npos c ∨ pos < s.len) (neg : Bool) :
    findLastOfImpl c s a pos n neg =
      .ok (if neg then StdString.findLastNotOf (abs s) (StdString.ofCStr a ++ [0]) pos
           else StdString.findLastOf (abs s) (StdString.ofCStr a ++ [0]) pos) := by
  have := hs.1; have := hs.2.1; have := hc.hW
  rw [findLast_neg]
  have hf : ∀ x : Nat, x ∈ abs s →
      (if neg = true then notR (strchr a x) else strchr a x) =
        .ok (if neg then !(StdString.ofCStr a ++ [0]).contains x else (StdString.ofCStr a ++ [0]).contains x) := by
    intro x _; rw [strchr_all h0 x]; cases neg <;> simp [notR]
  unfold findLastOfImpl
  simp only
  by_cases hz : s.len = 0
  · rw [if_pos (Or.inl (by omega))]
    rw [findLast_eq, abs_length hs, hz]; rfl
  · have e : (if pos = npos c then s.len else addW c pos 1) = min (pos + 1) s.len := by
      unfold addW; unfold npos; unfold npos at hp
      split
      · omega
      · split <;> omega
    rw [e]
    have hno : ¬ (subW c (min (pos + 1) s.len) 1 ≥ s.len ∨ n = 0) := by
      unfold subW; intro h; rcases h with h | h
      · split at h <;> omega
      · omega
    rw [if_neg hno]
    exact rscan_class hs _ _ hf rfl

/-! ### `ofCStr`: cutting at the first NUL -/

theorem ofCStr_append_nul : ∀ (d : List Byte), StdString.ofCStr (d ++ [0]) = StdString.ofCStr d
  | [] => by rw [List.nil_append, ofCStr_cons_nul]; rfl
  | x :: xs => by
    rw [List.cons_append]
    by_cases hx : x = 0
    · subst hx; rw [ofCStr_cons_nul, ofCStr_cons_nul]
    · rw [ofCStr_cons_ne hx, ofCStr_cons_ne hx, ofCStr_append_nul xs]

theorem ofCStr_idem : ∀ (a : List Byte), StdString.ofCStr (StdString.ofCStr a) = StdString.ofCStr a
  | [] => rfl
  | x :: xs => by
    by_cases hx : x = 0
    · subst hx; rw [ofCStr_cons_nul]; rfl
    · rw [ofCStr_cons_ne hx, ofCStr_cons_ne hx, ofCStr_idem xs]

/-- an allocation with a NUL at index `k`: only the bytes before `k` matter -/
theorem ofCStr_of_nul_at {a : List Byte} {k : Nat} (h : a[k]? = some 0) :
    StdString.ofCStr a = StdString.ofCStr (a.take k) :=
  (ofCStr_take_of_nul a k h).symm

/-- the buffer of a well-formed string, read as a C string, is its text read as a C string -/
theorem ofCStr_buf {co : Cfg} {o : FStr} (ho : WF co o) : StdString.ofCStr o.buf = StdString.ofCStr (abs o) :=
  ofCStr_of_nul_at ho.2.2

/-! ### the `step`-level statement -/

/-- the textbook answer of the family `fam` for the character set `set` -/
def famStd (fam : Fam) (x set : Str) (pos : Nat) : Option Nat :=
  match fam with
  | .ffo => StdString.findFirstOf x set pos
  | .ffno => StdString.findFirstNotOf x set pos
  | .flo => StdString.findLastOf x set pos
  | .flno => StdString.findLastNotOf x set pos
  | .find => StdString.find x set pos
  | .rfind => StdString.rfind x set pos

def famDflt (c : Cfg) : Fam → Nat | .find | .ffo | .ffno => 0 | _ => npos c

theorem backPosOk_iff {big n : Nat} {p : Option Nat} (h : backPosOk big n p = true) :
    p.getD big = big ∨ p.getD big < n := by
  unfold backPosOk at h
  simpa using h

/-- the position of a backward search, from the `devCase` equation -/
theorem devNul_backPos {big n : Nat} {p : Option Nat} {o : Option DevKind}
    (hk : (if backPosOk big n p = true then o else some DevKind.backwardBeyondEnd) = some DevKind.strchrNul) :
    p.getD big = big ∨ p.getD big < n := by
  cases hb : backPosOk big n p
  · rw [hb] at hk; cases hk
  · exact backPosOk_iff hb

theorem devNul_pp {a : List Byte} (h0 : (0 : Byte) ∈ a) (hne : ¬ (StdString.ofCStr a).length = 0) :
    ∃ n, cstrlen a = .ok n ∧ 0 < n := by
  obtain ⟨n, h1, h2, h3⟩ := cstrlen_of_mem h0
  refine ⟨n, h1, ?_⟩
  rw [h3, List.length_take] at hne
  omega

theorem dev_step_strchrNul (hc : CfgOK c) (hw : WFW c cu w) (fam : Fam) (nd : Needle)
    (ha : ArgsOK c w (.search fam nd))
    (hk : devCase (npos c) w (.search fam nd) = some .strchrNul) :
    step c cu w (.search fam nd) =
      .ok (w, .pos (famStd fam (abs w.s) (StdString.ofCStr (needleText w nd) ++ [0])
        (needlePos (famDflt c fam) nd))) := by
  have hs := hw.1
  have ht := hw.2.1
  have hl := abs_length hs
  have hlt := abs_length ht
  have hmt : (0 : Byte) ∈ w.t.buf := List.mem_of_getElem? ht.2.2
  by_cases h0 : (needleText w nd).length = 0
  · simp only [devCase, if_pos h0] at hk
    cases fam <;> cases nd <;> cases hk
  · simp only [devCase, if_neg h0] at hk
    cases fam <;> cases nd
    all_goals (try simp only [] at hk)
    all_goals (try (cases hk; done))
    all_goals (try unfold countCase at hk)
    all_goals (try ((split at hk <;> try split at hk) <;> cases hk; done))
    case flo.c ch p => cases hb : backPosOk (npos c) (abs w.s).length p <;> rw [hb] at hk <;> cases hk
    case flno.c ch p => cases hb : backPosOk (npos c) (abs w.s).length p <;> rw [hb] at hk <;> cases hk
    case ffo.f p =>
      have hpos : 0 < w.t.len := by rw [← hlt]; exact Nat.pos_of_ne_zero h0
      show obs w (findFirstOfImpl w.s w.t.buf (p.getD 0) w.t.len false) .pos = _
      rw [findFirstOfImpl_nul hs hmt _ hpos false, ofCStr_buf ht]; rfl
    case ffno.f p =>
      have hpos : 0 < w.t.len := by rw [← hlt]; exact Nat.pos_of_ne_zero h0
      show obs w (findFirstOfImpl w.s w.t.buf (p.getD 0) w.t.len true) .pos = _
      rw [findFirstOfImpl_nul hs hmt _ hpos true, ofCStr_buf ht]; rfl
    case ffo.s d p =>
      have hpos : 0 < d.length := Nat.pos_of_ne_zero h0
      show obs w (findFirstOfImpl w.s (d ++ [0]) (p.getD 0) d.length false) .pos = _
      rw [findFirstOfImpl_nul hs (by simp) _ hpos false, ofCStr_append_nul]; rfl
    case ffno.s d p =>
      have hpos : 0 < d.length := Nat.pos_of_ne_zero h0
      show obs w (findFirstOfImpl w.s (d ++ [0]) (p.getD 0) d.length true) .pos = _
      rw [findFirstOfImpl_nul hs (by simp) _ hpos true, ofCStr_append_nul]; rfl
    case ffo.pp a p =>
      have hm : (0 : Byte) ∈ a := ha
      obtain ⟨n, h1, hpos⟩ := devNul_pp hm h0
      show obs w (bindR (cstrlen a) fun n => findFirstOfImpl w.s a (p.getD 0) n false) .pos = _
      rw [h1, bindR_ok, findFirstOfImpl_nul hs hm _ hpos false, ← ofCStr_idem a]; rfl
    case ffno.pp a p =>
      have hm : (0 : Byte) ∈ a := ha
      obtain ⟨n, h1, hpos⟩ := devNul_pp hm h0
      show obs w (bindR (cstrlen a) fun n => findFirstOfImpl w.s a (p.getD 0) n true) .pos = _
      rw [h1, bindR_ok, findFirstOfImpl_nul hs hm _ hpos true, ← ofCStr_idem a]; rfl
    case flo.f p =>
      have hp := devNul_backPos hk; rw [hl] at hp
      have hpos : 0 < w.t.len := by rw [← hlt]; exact Nat.pos_of_ne_zero h0
      show obs w (findLastOfImpl c w.s w.t.buf (p.getD (npos c)) w.t.len false) .pos = _
      rw [findLastOfImpl_nul hc hs hmt hpos hp false, ofCStr_buf ht]; rfl
    case flno.f p =>
      have hp := devNul_backPos hk; rw [hl] at hp
      have hpos : 0 < w.t.len := by rw [← hlt]; exact Nat.pos_of_ne_zero h0
      show obs w (findLastOfImpl c w.s w.t.buf (p.getD (npos c)) w.t.len true) .pos = _
      rw [findLastOfImpl_nul hc hs hmt hpos hp true, ofCStr_buf ht]; rfl
    case flo.s d p =>
      have hp := devNul_backPos hk; rw [hl] at hp
      have hpos : 0 < d.length := Nat.pos_of_ne_zero h0
      show obs w (findLastOfImpl c w.s (d ++ [0]) (p.getD (npos c)) d.length false) .pos = _
      rw [findLastOfImpl_nul hc hs (by simp) hpos hp false, ofCStr_append_nul]; rfl
    case flno.s d p =>
      have hp := devNul_backPos hk; rw [hl] at hp
      have hpos : 0 < d.length := Nat.pos_of_ne_zero h0
      show obs w (findLastOfImpl c w.s (d ++ [0]) (p.getD (npos c)) d.length true) .pos = _
      rw [findLastOfImpl_nul hc hs (by simp) hpos hp true, ofCStr_append_nul]; rfl
    case flo.pp a p =>
      have hp := devNul_backPos hk; rw [hl] at hp
      have hm : (0 : Byte) ∈ a := ha
      obtain ⟨n, h1, hpos⟩ := devNul_pp hm h0
      show obs w (bindR (cstrlen a) fun n => findLastOfImpl c w.s a (p.getD (npos c)) n false) .pos = _
      rw [h1, bindR_ok, findLastOfImpl_nul hc hs hm hpos hp false, ← ofCStr_idem a]; rfl
    case flno.pp a p =>
      have hp := devNul_backPos hk; rw [hl] at hp
      have hm : (0 : Byte) ∈ a := ha
      obtain ⟨n, h1, hpos⟩ := devNul_pp hm h0
      show obs w (bindR (cstrlen a) fun n => findLastOfImpl c w.s a (p.getD (npos c)) n true) .pos = _
      rw [h1, bindR_ok, findLastOfImpl_nul hc hs hm hpos hp true, ← ofCStr_idem a]; rfl

/-! ### non-vacuity: capacity 4, content `a\0c`, `find_first_of( std::string( "x"))`

The hypotheses of `dev_step_strchrNul` hold, the deviation kind is `strchrNul`, and the answer (`1`, the embedded
NUL) differs from the one of `std::string` for the set `"x"` (`npos`). -/

example : devCase (npos ⟨4, 2 ^ 64, 256⟩) ⟨⟨[97, 0, 99, 0, 7], 3⟩, fresh ⟨4, 2 ^ 64, 256⟩, fresh ⟨9, 2 ^ 64, 256⟩⟩
    (.search .ffo (.s [120] none)) = some .strchrNul := by decide

example : WFW ⟨4, 2 ^ 64, 256⟩ ⟨9, 2 ^ 64, 256⟩
    ⟨⟨[97, 0, 99, 0, 7], 3⟩, fresh ⟨4, 2 ^ 64, 256⟩, fresh ⟨9, 2 ^ 64, 256⟩⟩ := by
  refine ⟨?_, ?_, ?_⟩ <;> decide

example : ArgsOK ⟨4, 2 ^ 64, 256⟩ ⟨⟨[97, 0, 99, 0, 7], 3⟩, fresh ⟨4, 2 ^ 64, 256⟩, fresh ⟨9, 2 ^ 64, 256⟩⟩
    (.search .ffo (.s [120] none)) := trivial

example : famStd .ffo (abs ⟨[97, 0, 99, 0, 7], 3⟩) (StdString.ofCStr [120] ++ [0]) 0 = some 1 := by decide

example : StdString.findFirstOf (abs ⟨[97, 0, 99, 0, 7], 3⟩) [120] 0 = none := by decide

end CelmaVerif.FixedString
