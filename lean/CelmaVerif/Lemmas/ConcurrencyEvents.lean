import CelmaVerif.Lemmas.ConcurrencySingleton
/-
  C20, audit 2 finding 6: an event-level happens-before relation that is INDEPENDENT of the ghost
  state `HB` / `hbStep`, and the proof that the ghost is sound and complete against it.

  The event trace of a run (`strace`, Model/Concurrency.lean) lists what the threads did: one
  `Ev` (thread, access) per effective step, in the order of the interleaving.  Over a trace:

  * `Edge` — the direct edges:  program order (an earlier event of the same thread);
    `unlock → lock` (every earlier unlock of the mutex synchronises with a later acquisition);
    release store → acquire load that **reads from** it (the store is the last store into the cell
    before the load — the reads-from of a sequentially consistent interleaving —, the cell is an
    atomic, the store is a release and the load an acquire; the load under the mutex (`read2`) is
    relaxed in the source and gets no edge);
  * `HBefore` — the transitive closure.

  Nothing here mentions `HB`, `knows`, `mutexKnows`, `cellKnows`.  `EInv` then relates the ghost to
  the trace:  `knows t` ⇔ some construction event is, or happens-before, an event of thread `t`
  (so by program order it happens-before the next event of `t`); `racyUse` = the threads with a
  `read3` event (the use of the object) that no construction happens-before.
-/
namespace CelmaVerif.Concurrency

/-! ### the relation -/

/-- direct happens-before edges between positions of an event trace -/
inductive Edge (cfg : Cfg) (tr : List Ev) : Nat → Nat → Prop
  /-- sequenced-before: an earlier event of the same thread -/
  | po {i j : Nat} {a b : Ev} : i < j → tr[i]? = some a → tr[j]? = some b → a.thread = b.thread → Edge cfg tr i j
  /-- an earlier unlock of the mutex synchronises with a later lock of it -/
  | mutex {i j : Nat} {a b : Ev} : i < j → tr[i]? = some a → tr[j]? = some b →
      a.kind = .unlock → b.kind = .lock → Edge cfg tr i j
  /-- a release store into the atomic fast-path cell synchronises with the acquire load (the
  unlocked first check) that reads from it: no other store in between -/
  | cell {i j : Nat} {a b : Ev} : i < j → tr[i]? = some a → tr[j]? = some b →
      a.kind = .write → b.kind = .read1 →
      (∀ k c, i < k → k < j → tr[k]? = some c → c.kind ≠ .write) →
      cfg.ptrAtomic = true → cfg.storeRel = true → cfg.loadAcq = true → Edge cfg tr i j

/-- happens-before = transitive closure of the direct edges -/
inductive HBefore (cfg : Cfg) (tr : List Ev) : Nat → Nat → Prop
  | edge {i j : Nat} : Edge cfg tr i j → HBefore cfg tr i j
  | trans {i k j : Nat} : HBefore cfg tr i k → HBefore cfg tr k j → HBefore cfg tr i j

def IsKind (tr : List Ev) (i : Nat) (k : SPc) : Prop := ∃ a, tr[i]? = some a ∧ a.kind = k
def OfThread (tr : List Ev) (i : Nat) (t : Nat) : Prop := ∃ a, tr[i]? = some a ∧ a.thread = t

/-- a construction event is event `i` or happens-before it -/
def Reached (cfg : Cfg) (tr : List Ev) (i : Nat) : Prop :=
  ∃ c, IsKind tr c .construct ∧ (c = i ∨ HBefore cfg tr c i)

/-- a construction is, or happens-before, some event of thread `t` — hence (program order)
happens-before everything `t` does next -/
def Knows (cfg : Cfg) (tr : List Ev) (t : Nat) : Prop := ∃ i, OfThread tr i t ∧ Reached cfg tr i

def UnlockKnows (cfg : Cfg) (tr : List Ev) : Prop := ∃ u, IsKind tr u .unlock ∧ Reached cfg tr u

def LastWrite (tr : List Ev) (w : Nat) : Prop :=
  IsKind tr w .write ∧ ∀ k c, w < k → tr[k]? = some c → c.kind ≠ .write

def CellKnows (cfg : Cfg) (tr : List Ev) : Prop := ∃ w, LastWrite tr w ∧ Reached cfg tr w

/-! ### list facts -/

theorem get_snoc (tr : List Ev) (e : Ev) (i : Nat) (a : Ev) :
    (tr ++ [e])[i]? = some a ↔ (i < tr.length ∧ tr[i]? = some a) ∨ (i = tr.length ∧ a = e) := by
  by_cases h : i < tr.length
  · rw [List.getElem?_append_left h]
    constructor
    · intro h1; exact Or.inl ⟨h, h1⟩
    · rintro (⟨_, h1⟩ | ⟨h1, _⟩)
      · exact h1
      · omega
  · rw [List.getElem?_append_right (by omega)]
    by_cases h2 : i = tr.length
    · subst h2
      rw [Nat.sub_self]
      show (some e = some a) ↔ _
      constructor
      · intro h1; exact Or.inr ⟨rfl, (Option.some.inj h1).symm⟩
      · rintro (⟨h1, _⟩ | ⟨_, h1⟩)
        · omega
        · rw [h1]
    · have : i - tr.length = (i - tr.length - 1) + 1 := by omega
      rw [this]
      simp only [List.getElem?_cons_succ, List.getElem?_nil]
      constructor
      · intro h1; cases h1
      · rintro (⟨h1, _⟩ | ⟨h1, _⟩) <;> omega

theorem get_lt {tr : List Ev} {i : Nat} {a : Ev} (h : tr[i]? = some a) : i < tr.length := by
  have := List.getElem?_eq_some_iff.mp h
  exact this.1

theorem get_snoc_lt (tr : List Ev) (e : Ev) {i : Nat} (h : i < tr.length) : (tr ++ [e])[i]? = tr[i]? :=
  List.getElem?_append_left h

theorem get_snoc_len (tr : List Ev) (e : Ev) : (tr ++ [e])[tr.length]? = some e :=
  (get_snoc tr e tr.length e).mpr (Or.inr ⟨rfl, rfl⟩)

/-! ### order and prefix stability -/

theorem Edge.lt {cfg : Cfg} {tr : List Ev} {i j : Nat} (h : Edge cfg tr i j) : i < j := by
  cases h <;> assumption

theorem Edge.bound {cfg : Cfg} {tr : List Ev} {i j : Nat} (h : Edge cfg tr i j) : j < tr.length := by
  cases h with
  | po _ _ hb _ => exact get_lt hb
  | mutex _ _ hb _ _ => exact get_lt hb
  | cell _ _ hb _ _ _ _ _ _ => exact get_lt hb

theorem HBefore.lt {cfg : Cfg} {tr : List Ev} {i j : Nat} (h : HBefore cfg tr i j) : i < j := by
  induction h with
  | edge e => exact e.lt
  | trans _ _ ih1 ih2 => omega

theorem HBefore.bound {cfg : Cfg} {tr : List Ev} {i j : Nat} (h : HBefore cfg tr i j) : j < tr.length := by
  induction h with
  | edge e => exact e.bound
  | trans _ _ _ ih2 => exact ih2

/-- the edges between events of a prefix do not depend on what comes later -/
theorem edge_snoc_iff (cfg : Cfg) (tr : List Ev) (e : Ev) (i j : Nat) (hj : j < tr.length) :
    Edge cfg (tr ++ [e]) i j ↔ Edge cfg tr i j := by
  constructor
  · intro h
    cases h with
    | po hij ha hb hab =>
      rw [get_snoc_lt tr e (by omega)] at ha
      rw [get_snoc_lt tr e hj] at hb
      exact Edge.po hij ha hb hab
    | mutex hij ha hb h1 h2 =>
      rw [get_snoc_lt tr e (by omega)] at ha
      rw [get_snoc_lt tr e hj] at hb
      exact Edge.mutex hij ha hb h1 h2
    | cell hij ha hb h1 h2 hno p1 p2 p3 =>
      rw [get_snoc_lt tr e (by omega)] at ha
      rw [get_snoc_lt tr e hj] at hb
      refine Edge.cell hij ha hb h1 h2 ?_ p1 p2 p3
      intro k c hik hkj hc
      apply hno k c hik hkj
      rw [get_snoc_lt tr e (by omega)]; exact hc
  · intro h
    cases h with
    | po hij ha hb hab =>
      rw [← get_snoc_lt tr e (by omega)] at ha
      rw [← get_snoc_lt tr e hj] at hb
      exact Edge.po hij ha hb hab
    | mutex hij ha hb h1 h2 =>
      rw [← get_snoc_lt tr e (by omega)] at ha
      rw [← get_snoc_lt tr e hj] at hb
      exact Edge.mutex hij ha hb h1 h2
    | cell hij ha hb h1 h2 hno p1 p2 p3 =>
      rw [← get_snoc_lt tr e (by omega)] at ha
      rw [← get_snoc_lt tr e hj] at hb
      refine Edge.cell hij ha hb h1 h2 ?_ p1 p2 p3
      intro k c hik hkj hc
      apply hno k c hik hkj
      rw [← get_snoc_lt tr e (by omega)]; exact hc

theorem hb_snoc_of (cfg : Cfg) (tr : List Ev) (e : Ev) {i j : Nat} (h : HBefore cfg tr i j) :
    HBefore cfg (tr ++ [e]) i j := by
  induction h with
  | edge ed => exact HBefore.edge ((edge_snoc_iff cfg tr e _ _ ed.bound).mpr ed)
  | trans _ _ ih1 ih2 => exact HBefore.trans ih1 ih2

theorem hb_of_snoc (cfg : Cfg) (tr : List Ev) (e : Ev) {i j : Nat} (h : HBefore cfg (tr ++ [e]) i j) :
    j < tr.length → HBefore cfg tr i j := by
  induction h with
  | edge ed => intro hj; exact HBefore.edge ((edge_snoc_iff cfg tr e _ _ hj).mp ed)
  | trans _ h2 ih1 ih2 =>
    intro hj
    have := h2.lt
    exact HBefore.trans (ih1 (by omega)) (ih2 hj)

theorem hb_snoc_iff (cfg : Cfg) (tr : List Ev) (e : Ev) (i j : Nat) (hj : j < tr.length) :
    HBefore cfg (tr ++ [e]) i j ↔ HBefore cfg tr i j :=
  ⟨fun h => hb_of_snoc cfg tr e h hj, hb_snoc_of cfg tr e⟩

/-- every happens-before path ends with a direct edge -/
theorem hb_last {cfg : Cfg} {tr : List Ev} {i j : Nat} (h : HBefore cfg tr i j) :
    ∃ k, Edge cfg tr k j ∧ (i = k ∨ HBefore cfg tr i k) := by
  induction h with
  | edge ed => exact ⟨_, ed, Or.inl rfl⟩
  | trans h1 _ _ ih2 =>
    obtain ⟨k, hk, hor⟩ := ih2
    refine ⟨k, hk, Or.inr ?_⟩
    rcases hor with rfl | h3
    · exact h1
    · exact HBefore.trans h1 h3

theorem isKind_snoc_lt (tr : List Ev) (e : Ev) {i : Nat} (k : SPc) (h : i < tr.length) :
    IsKind (tr ++ [e]) i k ↔ IsKind tr i k := by
  unfold IsKind; rw [get_snoc_lt tr e h]

theorem ofThread_snoc_lt (tr : List Ev) (e : Ev) {i : Nat} (t : Nat) (h : i < tr.length) :
    OfThread (tr ++ [e]) i t ↔ OfThread tr i t := by
  unfold OfThread; rw [get_snoc_lt tr e h]

theorem isKind_lt {tr : List Ev} {i : Nat} {k : SPc} (h : IsKind tr i k) : i < tr.length := by
  obtain ⟨a, ha, _⟩ := h; exact get_lt ha

theorem ofThread_lt {tr : List Ev} {i : Nat} {t : Nat} (h : OfThread tr i t) : i < tr.length := by
  obtain ⟨a, ha, _⟩ := h; exact get_lt ha

theorem isKind_snoc_len (tr : List Ev) (e : Ev) (k : SPc) : IsKind (tr ++ [e]) tr.length k ↔ e.kind = k := by
  unfold IsKind; rw [get_snoc_len]
  constructor
  · rintro ⟨a, ha, hk⟩; cases ha; exact hk
  · intro h; exact ⟨e, rfl, h⟩

theorem ofThread_snoc_len (tr : List Ev) (e : Ev) (t : Nat) : OfThread (tr ++ [e]) tr.length t ↔ e.thread = t := by
  unfold OfThread; rw [get_snoc_len]
  constructor
  · rintro ⟨a, ha, hk⟩; cases ha; exact hk
  · intro h; exact ⟨e, rfl, h⟩

/-- (A1) whether a construction reaches an old event does not change -/
theorem reached_snoc_lt (cfg : Cfg) (tr : List Ev) (e : Ev) {i : Nat} (hi : i < tr.length) :
    Reached cfg (tr ++ [e]) i ↔ Reached cfg tr i := by
  constructor
  · rintro ⟨c, hc, hor⟩
    have hci : c ≤ i := by
      rcases hor with rfl | h
      · exact Nat.le_refl _
      · exact Nat.le_of_lt h.lt
    refine ⟨c, (isKind_snoc_lt tr e _ (by omega)).mp hc, ?_⟩
    rcases hor with h | h
    · exact Or.inl h
    · exact Or.inr ((hb_snoc_iff cfg tr e c i hi).mp h)
  · rintro ⟨c, hc, hor⟩
    refine ⟨c, (isKind_snoc_lt tr e _ (isKind_lt hc)).mpr hc, ?_⟩
    rcases hor with h | h
    · exact Or.inl h
    · exact Or.inr (hb_snoc_of cfg tr e h)

/-- (A3) the direct edges into the new last event -/
theorem edge_snoc_len (cfg : Cfg) (tr : List Ev) (e : Ev) (k : Nat) :
    Edge cfg (tr ++ [e]) k tr.length ↔
      ∃ a, tr[k]? = some a ∧
        (a.thread = e.thread ∨ (a.kind = .unlock ∧ e.kind = .lock) ∨
         (a.kind = .write ∧ e.kind = .read1 ∧ (∀ k' c, k < k' → tr[k']? = some c → c.kind ≠ .write) ∧
          cfg.ptrAtomic = true ∧ cfg.storeRel = true ∧ cfg.loadAcq = true)) := by
  constructor
  · intro h
    cases h with
    | po hij ha hb hab =>
      rw [get_snoc_lt tr e hij] at ha
      rw [get_snoc_len] at hb; cases hb
      exact ⟨_, ha, Or.inl hab⟩
    | mutex hij ha hb h1 h2 =>
      rw [get_snoc_lt tr e hij] at ha
      rw [get_snoc_len] at hb; cases hb
      exact ⟨_, ha, Or.inr (Or.inl ⟨h1, h2⟩)⟩
    | cell hij ha hb h1 h2 hno p1 p2 p3 =>
      rw [get_snoc_lt tr e hij] at ha
      rw [get_snoc_len] at hb; cases hb
      refine ⟨_, ha, Or.inr (Or.inr ⟨h1, h2, ?_, p1, p2, p3⟩)⟩
      intro k' c hk hc
      have hk' := get_lt hc
      apply hno k' c hk hk'
      rw [get_snoc_lt tr e hk']; exact hc
  · rintro ⟨a, ha, hor⟩
    have hk := get_lt ha
    have ha' : (tr ++ [e])[k]? = some a := by rw [get_snoc_lt tr e hk]; exact ha
    rcases hor with h | ⟨h1, h2⟩ | ⟨h1, h2, hno, p1, p2, p3⟩
    · exact Edge.po hk ha' (get_snoc_len tr e) h
    · exact Edge.mutex hk ha' (get_snoc_len tr e) h1 h2
    · refine Edge.cell hk ha' (get_snoc_len tr e) h1 h2 ?_ p1 p2 p3
      intro k' c hkk hkl hc
      rw [get_snoc_lt tr e hkl] at hc
      exact hno k' c hkk hc

/-- (A2) what reaches the new last event -/
theorem reached_snoc_len (cfg : Cfg) (tr : List Ev) (e : Ev) :
    Reached cfg (tr ++ [e]) tr.length ↔
      e.kind = .construct ∨ ∃ k, Edge cfg (tr ++ [e]) k tr.length ∧ Reached cfg tr k := by
  constructor
  · rintro ⟨c, hc, hor⟩
    rcases hor with rfl | h
    · exact Or.inl ((isKind_snoc_len tr e _).mp hc)
    · right
      obtain ⟨k, hk, hor2⟩ := hb_last h
      have hkl := hk.lt
      refine ⟨k, hk, ?_⟩
      have hck : c ≤ k := by
        rcases hor2 with rfl | h2
        · exact Nat.le_refl _
        · exact Nat.le_of_lt h2.lt
      refine ⟨c, (isKind_snoc_lt tr e _ (by omega)).mp hc, ?_⟩
      rcases hor2 with h2 | h2
      · exact Or.inl h2
      · exact Or.inr ((hb_snoc_iff cfg tr e c k hkl).mp h2)
  · rintro (h | ⟨k, hk, c, hc, hor⟩)
    · exact ⟨tr.length, (isKind_snoc_len tr e _).mpr h, Or.inl rfl⟩
    · refine ⟨c, (isKind_snoc_lt tr e _ (isKind_lt hc)).mpr hc, Or.inr ?_⟩
      rcases hor with rfl | h2
      · exact HBefore.edge hk
      · exact HBefore.trans (hb_snoc_of cfg tr e h2) (HBefore.edge hk)

/-- (A4) the same in terms of the trace predicates -/
theorem reached_snoc_len' (cfg : Cfg) (tr : List Ev) (e : Ev) :
    Reached cfg (tr ++ [e]) tr.length ↔
      e.kind = .construct ∨ Knows cfg tr e.thread ∨ (e.kind = .lock ∧ UnlockKnows cfg tr) ∨
      (e.kind = .read1 ∧ cfg.ptrAtomic = true ∧ cfg.storeRel = true ∧ cfg.loadAcq = true ∧ CellKnows cfg tr) := by
  rw [reached_snoc_len]
  constructor
  · rintro (h | ⟨k, hk, hr⟩)
    · exact Or.inl h
    · right
      obtain ⟨a, ha, hor⟩ := (edge_snoc_len cfg tr e k).mp hk
      rcases hor with h | ⟨h1, h2⟩ | ⟨h1, h2, hno, p1, p2, p3⟩
      · exact Or.inl ⟨k, ⟨a, ha, h⟩, hr⟩
      · exact Or.inr (Or.inl ⟨h2, k, ⟨a, ha, h1⟩, hr⟩)
      · exact Or.inr (Or.inr ⟨h2, p1, p2, p3, k, ⟨⟨a, ha, h1⟩, hno⟩, hr⟩)
  · rintro (h | ⟨k, ⟨a, ha, h⟩, hr⟩ | ⟨h2, k, ⟨a, ha, h1⟩, hr⟩ | ⟨h2, p1, p2, p3, k, ⟨⟨a, ha, h1⟩, hno⟩, hr⟩)
    · exact Or.inl h
    · exact Or.inr ⟨k, (edge_snoc_len cfg tr e k).mpr ⟨a, ha, Or.inl h⟩, hr⟩
    · exact Or.inr ⟨k, (edge_snoc_len cfg tr e k).mpr ⟨a, ha, Or.inr (Or.inl ⟨h1, h2⟩)⟩, hr⟩
    · exact Or.inr ⟨k, (edge_snoc_len cfg tr e k).mpr ⟨a, ha, Or.inr (Or.inr ⟨h1, h2, hno, p1, p2, p3⟩)⟩, hr⟩

/-- (A5) -/
theorem knows_snoc (cfg : Cfg) (tr : List Ev) (e : Ev) (u : Nat) :
    Knows cfg (tr ++ [e]) u ↔ Knows cfg tr u ∨ (e.thread = u ∧ Reached cfg (tr ++ [e]) tr.length) := by
  constructor
  · rintro ⟨i, hi, hr⟩
    have hil := ofThread_lt hi
    simp only [List.length_append, List.length_cons, List.length_nil] at hil
    by_cases h : i < tr.length
    · exact Or.inl ⟨i, (ofThread_snoc_lt tr e u h).mp hi, (reached_snoc_lt cfg tr e h).mp hr⟩
    · have : i = tr.length := by omega
      subst this
      exact Or.inr ⟨(ofThread_snoc_len tr e u).mp hi, hr⟩
  · rintro (⟨i, hi, hr⟩ | ⟨h1, h2⟩)
    · have h := ofThread_lt hi
      exact ⟨i, (ofThread_snoc_lt tr e u h).mpr hi, (reached_snoc_lt cfg tr e h).mpr hr⟩
    · exact ⟨tr.length, (ofThread_snoc_len tr e u).mpr h1, h2⟩

/-- (A6) -/
theorem unlockKnows_snoc (cfg : Cfg) (tr : List Ev) (e : Ev) :
    UnlockKnows cfg (tr ++ [e]) ↔ UnlockKnows cfg tr ∨ (e.kind = .unlock ∧ Reached cfg (tr ++ [e]) tr.length) := by
  constructor
  · rintro ⟨i, hi, hr⟩
    have hil := isKind_lt hi
    simp only [List.length_append, List.length_cons, List.length_nil] at hil
    by_cases h : i < tr.length
    · exact Or.inl ⟨i, (isKind_snoc_lt tr e _ h).mp hi, (reached_snoc_lt cfg tr e h).mp hr⟩
    · have : i = tr.length := by omega
      subst this
      exact Or.inr ⟨(isKind_snoc_len tr e _).mp hi, hr⟩
  · rintro (⟨i, hi, hr⟩ | ⟨h1, h2⟩)
    · have h := isKind_lt hi
      exact ⟨i, (isKind_snoc_lt tr e _ h).mpr hi, (reached_snoc_lt cfg tr e h).mpr hr⟩
    · exact ⟨tr.length, (isKind_snoc_len tr e _).mpr h1, h2⟩

theorem lastWrite_snoc_write (tr : List Ev) (e : Ev) (he : e.kind = .write) (w : Nat) :
    LastWrite (tr ++ [e]) w ↔ w = tr.length := by
  constructor
  · rintro ⟨hk, hno⟩
    have hwl := isKind_lt hk
    simp only [List.length_append, List.length_cons, List.length_nil] at hwl
    by_cases h : w < tr.length
    · exact absurd he (hno tr.length e h (get_snoc_len tr e))
    · omega
  · rintro rfl
    refine ⟨(isKind_snoc_len tr e _).mpr he, ?_⟩
    intro k c hk hc
    have := get_lt hc
    simp only [List.length_append, List.length_cons, List.length_nil] at this
    omega

theorem lastWrite_snoc_other (tr : List Ev) (e : Ev) (he : e.kind ≠ .write) (w : Nat) :
    LastWrite (tr ++ [e]) w ↔ LastWrite tr w := by
  constructor
  · rintro ⟨hk, hno⟩
    have hwl := isKind_lt hk
    simp only [List.length_append, List.length_cons, List.length_nil] at hwl
    have h : w < tr.length := by
      by_cases h : w < tr.length
      · exact h
      · have : w = tr.length := by omega
        subst this
        exact absurd ((isKind_snoc_len tr e _).mp hk) he
    refine ⟨(isKind_snoc_lt tr e _ h).mp hk, ?_⟩
    intro k c hwk hc
    apply hno k c hwk
    rw [get_snoc_lt tr e (get_lt hc)]; exact hc
  · rintro ⟨hk, hno⟩
    have h := isKind_lt hk
    refine ⟨(isKind_snoc_lt tr e _ h).mpr hk, ?_⟩
    intro k c hwk hc
    rcases (get_snoc tr e k c).mp hc with ⟨_, h1⟩ | ⟨_, rfl⟩
    · exact hno k c hwk h1
    · exact he

/-- (A7) -/
theorem cellKnows_snoc_write (cfg : Cfg) (tr : List Ev) (e : Ev) (he : e.kind = .write) :
    CellKnows cfg (tr ++ [e]) ↔ Reached cfg (tr ++ [e]) tr.length := by
  constructor
  · rintro ⟨w, hw, hr⟩
    have := (lastWrite_snoc_write tr e he w).mp hw
    subst this; exact hr
  · intro hr
    exact ⟨tr.length, (lastWrite_snoc_write tr e he _).mpr rfl, hr⟩

theorem cellKnows_snoc_other (cfg : Cfg) (tr : List Ev) (e : Ev) (he : e.kind ≠ .write) :
    CellKnows cfg (tr ++ [e]) ↔ CellKnows cfg tr := by
  constructor
  · rintro ⟨w, hw, hr⟩
    have hw' := (lastWrite_snoc_other tr e he w).mp hw
    exact ⟨w, hw', (reached_snoc_lt cfg tr e (isKind_lt hw'.1)).mp hr⟩
  · rintro ⟨w, hw, hr⟩
    exact ⟨w, (lastWrite_snoc_other tr e he w).mpr hw, (reached_snoc_lt cfg tr e (isKind_lt hw.1)).mpr hr⟩

/-- a `read3` event of thread `t` (the use of the object) that no construction happens-before -/
def RacyUse (cfg : Cfg) (tr : List Ev) (t : Nat) : Prop :=
  ∃ j, tr[j]? = some ⟨t, .read3⟩ ∧ ¬ Reached cfg tr j

/-- (A8) -/
theorem racyUse_snoc (cfg : Cfg) (tr : List Ev) (e : Ev) (t : Nat) :
    RacyUse cfg (tr ++ [e]) t ↔
      RacyUse cfg tr t ∨ (e = ⟨t, .read3⟩ ∧ ¬ Reached cfg (tr ++ [e]) tr.length) := by
  constructor
  · rintro ⟨j, hj, hn⟩
    rcases (get_snoc tr e j _).mp hj with ⟨h1, h2⟩ | ⟨rfl, h2⟩
    · exact Or.inl ⟨j, h2, fun h => hn ((reached_snoc_lt cfg tr e h1).mpr h)⟩
    · exact Or.inr ⟨h2.symm, hn⟩
  · rintro (⟨j, hj, hn⟩ | ⟨h1, h2⟩)
    · have h := get_lt hj
      exact ⟨j, by rw [get_snoc_lt tr e h]; exact hj, fun hr => hn ((reached_snoc_lt cfg tr e h).mp hr)⟩
    · exact ⟨tr.length, by rw [get_snoc_len, h1], h2⟩

theorem exWrite_snoc (tr : List Ev) (e : Ev) :
    (∃ i, IsKind (tr ++ [e]) i .write) ↔ (∃ i, IsKind tr i .write) ∨ e.kind = .write := by
  constructor
  · rintro ⟨i, hi⟩
    have hil := isKind_lt hi
    simp only [List.length_append, List.length_cons, List.length_nil] at hil
    by_cases h : i < tr.length
    · exact Or.inl ⟨i, (isKind_snoc_lt tr e _ h).mp hi⟩
    · have : i = tr.length := by omega
      subst this
      exact Or.inr ((isKind_snoc_len tr e _).mp hi)
  · rintro (⟨i, hi⟩ | h)
    · exact ⟨i, (isKind_snoc_lt tr e _ (isKind_lt hi)).mpr hi⟩
    · exact ⟨tr.length, (isKind_snoc_len tr e _).mpr h⟩

end CelmaVerif.Concurrency
