import CelmaVerif.Model.Concurrency
/-
  Invariant of the interleaving model of Singleton<T>::instance(): one step lemma per program
  counter, then induction over the schedule.
-/
namespace CelmaVerif.Concurrency

/-- inside the `lock_guard` scope -/
def SPc.inCS : SPc → Prop
  | .read2 | .construct | .write | .unlock => True
  | _ => False

structure SInv (s : SState) : Prop where
  cs : ∀ t, (s.pc t).inCS → s.lock = some t
  held : ∀ h, s.lock = some h → (s.pc h).inCS
  cons : ∀ t, s.pc t = .construct → s.ptr = none ∧ s.built = 0
  wr : ∀ t, s.pc t = .write → s.ptr = none ∧ s.built = 1 ∧ s.loc t = some 0
  ptr0 : ∀ k, s.ptr = some k → k = 0 ∧ s.built = 1
  nobuilt : s.ptr = none → (∀ t, s.pc t ≠ .write) → s.built = 0
  post : ∀ t, (s.pc t = .unlock ∨ s.pc t = .read3 ∨ s.pc t = .done) → s.ptr = some 0 ∧ s.loc t = some 0
  ret : ∀ t k, s.ret t = some k → k = 0
  retd : ∀ t, s.pc t = .done → s.ret t = some 0
  notyet : ∀ t, s.pc t ≠ .done → s.ret t = none

theorem sinv_init : SInv SState.init := by
  constructor <;> simp [SState.init, SPc.inCS]

theorem sstep_ge (cfg : Cfg) (n : Nat) (s : SState) (t : Nat) (h : ¬ t < n) : sstep cfg n s t = s := by
  simp [sstep, h]

theorem sinv_read1 (cfg : Cfg) (n : Nat) (s : SState) (t : Nat) (ht : t < n) (hpc : s.pc t = .read1)
    (h : SInv s) : SInv (sstep cfg n s t) := by
  have e : sstep cfg n s t =
      { s with loc := upd s.loc t s.ptr, pc := upd s.pc t (if s.ptr.isSome then SPc.read3 else SPc.lock) } := by
    simp [sstep, ht, hpc]
  rw [e]
  obtain ⟨cs, held, cons, wr, ptr0, nobuilt, post, ret, retd, notyet⟩ := h
  have hnew : (if s.ptr.isSome then SPc.read3 else SPc.lock) = .read3 ∨
      (if s.ptr.isSome then SPc.read3 else SPc.lock) = .lock := by split <;> simp
  refine ⟨?_, ?_, ?_, ?_, ?_, ?_, ?_, ?_, ?_, ?_⟩
  · intro u hu
    by_cases hut : u = t
    · subst hut; simp only [upd_same] at hu
      rcases hnew with h1 | h1 <;> rw [h1] at hu <;> exact absurd hu (by simp [SPc.inCS])
    · simp only [upd_other _ _ _ _ hut] at hu; exact cs u hu
  · intro k hk
    have := held k hk
    by_cases hkt : k = t
    · subst hkt; rw [hpc] at this; exact absurd this (by simp [SPc.inCS])
    · simpa only [upd_other _ _ _ _ hkt] using this
  · intro u hu
    by_cases hut : u = t
    · subst hut; simp only [upd_same] at hu
      rcases hnew with h1 | h1 <;> rw [h1] at hu <;> cases hu
    · simp only [upd_other _ _ _ _ hut] at hu; exact cons u hu
  · intro u hu
    by_cases hut : u = t
    · subst hut; simp only [upd_same] at hu
      rcases hnew with h1 | h1 <;> rw [h1] at hu <;> cases hu
    · simp only [upd_other _ _ _ _ hut] at hu
      simpa only [upd_other _ _ _ _ hut] using wr u hu
  · exact ptr0
  · intro hp hall
    apply nobuilt hp
    intro u hu
    by_cases hut : u = t
    · subst hut; rw [hpc] at hu; cases hu
    · apply hall u; simpa only [upd_other _ _ _ _ hut] using hu
  · intro u hu
    by_cases hut : u = t
    · subst hut; simp only [upd_same] at hu ⊢
      cases hp : s.ptr with
      | none => simp [hp] at hu
      | some k => obtain ⟨rfl, _⟩ := ptr0 k hp; simp
    · simp only [upd_other _ _ _ _ hut] at hu ⊢; exact post u hu
  · exact ret
  · intro u hu
    by_cases hut : u = t
    · subst hut; simp only [upd_same] at hu
      rcases hnew with h1 | h1 <;> rw [h1] at hu <;> cases hu
    · simp only [upd_other _ _ _ _ hut] at hu; exact retd u hu
  · intro u hu
    by_cases hut : u = t
    · subst hut; exact notyet u (by rw [hpc]; simp)
    · simp only [upd_other _ _ _ _ hut] at hu; exact notyet u hu

theorem sinv_lock (cfg : Cfg) (n : Nat) (s : SState) (t : Nat) (ht : t < n) (hpc : s.pc t = .lock)
    (h : SInv s) : SInv (sstep cfg n s t) := by
  by_cases hl : s.lock = none
  · have e : sstep cfg n s t = { s with lock := some t, pc := upd s.pc t SPc.read2 } := by
      simp [sstep, ht, hpc, hl]
    rw [e]
    obtain ⟨cs, held, cons, wr, ptr0, nobuilt, post, ret, retd, notyet⟩ := h
    refine ⟨?_, ?_, ?_, ?_, ?_, ?_, ?_, ?_, ?_, ?_⟩
    · intro u hu
      by_cases hut : u = t
      · subst hut; rfl
      · simp only [upd_other _ _ _ _ hut] at hu
        have := cs u hu; rw [hl] at this; cases this
    · intro k hk
      have hk' : t = k := by simpa using hk
      subst hk'; simp [SPc.inCS]
    · intro u hu
      by_cases hut : u = t
      · subst hut; simp only [upd_same] at hu; cases hu
      · simp only [upd_other _ _ _ _ hut] at hu; exact cons u hu
    · intro u hu
      by_cases hut : u = t
      · subst hut; simp only [upd_same] at hu; cases hu
      · simp only [upd_other _ _ _ _ hut] at hu; exact wr u hu
    · exact ptr0
    · intro hp hall
      apply nobuilt hp
      intro u hu
      by_cases hut : u = t
      · subst hut; rw [hpc] at hu; cases hu
      · apply hall u; simpa only [upd_other _ _ _ _ hut] using hu
    · intro u hu
      by_cases hut : u = t
      · subst hut; simp only [upd_same] at hu; simp at hu
      · simp only [upd_other _ _ _ _ hut] at hu; exact post u hu
    · exact ret
    · intro u hu
      by_cases hut : u = t
      · subst hut; simp only [upd_same] at hu; cases hu
      · simp only [upd_other _ _ _ _ hut] at hu; exact retd u hu
    · intro u hu
      by_cases hut : u = t
      · subst hut; exact notyet u (by rw [hpc]; simp)
      · simp only [upd_other _ _ _ _ hut] at hu; exact notyet u hu
  · have e : sstep cfg n s t = s := by simp [sstep, ht, hpc, hl]
    rw [e]; exact h

theorem sinv_read2 (cfg : Cfg) (n : Nat) (s : SState) (t : Nat) (ht : t < n) (hpc : s.pc t = .read2)
    (h : SInv s) : SInv (sstep cfg n s t) := by
  have e : sstep cfg n s t =
      { s with loc := upd s.loc t s.ptr, pc := upd s.pc t (if s.ptr.isSome then SPc.unlock else SPc.construct) } := by
    simp [sstep, ht, hpc]
  rw [e]
  obtain ⟨cs, held, cons, wr, ptr0, nobuilt, post, ret, retd, notyet⟩ := h
  have hlt : s.lock = some t := cs t (by rw [hpc]; simp [SPc.inCS])
  have hnew : (if s.ptr.isSome then SPc.unlock else SPc.construct) = .unlock ∨
      (if s.ptr.isSome then SPc.unlock else SPc.construct) = .construct := by split <;> simp
  have hnow : ∀ u, s.pc u ≠ .write := by
    intro u hu
    have := cs u (by rw [hu]; simp [SPc.inCS])
    rw [hlt] at this
    have : t = u := by simpa using this
    subst this; rw [hpc] at hu; cases hu
  refine ⟨?_, ?_, ?_, ?_, ?_, ?_, ?_, ?_, ?_, ?_⟩
  · intro u hu
    by_cases hut : u = t
    · subst hut; exact hlt
    · simp only [upd_other _ _ _ _ hut] at hu; exact cs u hu
  · intro k hk
    by_cases hkt : k = t
    · subst hkt; simp only [upd_same]
      rcases hnew with h1 | h1 <;> rw [h1] <;> simp [SPc.inCS]
    · simp only [upd_other _ _ _ _ hkt]; exact held k hk
  · intro u hu
    by_cases hut : u = t
    · subst hut; simp only [upd_same] at hu
      cases hp : s.ptr with
      | some k => simp [hp] at hu
      | none => exact ⟨rfl, nobuilt hp hnow⟩
    · simp only [upd_other _ _ _ _ hut] at hu; exact cons u hu
  · intro u hu
    by_cases hut : u = t
    · subst hut; simp only [upd_same] at hu
      rcases hnew with h1 | h1 <;> rw [h1] at hu <;> cases hu
    · simp only [upd_other _ _ _ _ hut] at hu; exact absurd hu (hnow u)
  · exact ptr0
  · intro hp _
    exact nobuilt hp hnow
  · intro u hu
    by_cases hut : u = t
    · subst hut; simp only [upd_same] at hu ⊢
      cases hp : s.ptr with
      | none => simp [hp] at hu
      | some k => obtain ⟨rfl, _⟩ := ptr0 k hp; simp
    · simp only [upd_other _ _ _ _ hut] at hu ⊢; exact post u hu
  · exact ret
  · intro u hu
    by_cases hut : u = t
    · subst hut; simp only [upd_same] at hu
      rcases hnew with h1 | h1 <;> rw [h1] at hu <;> cases hu
    · simp only [upd_other _ _ _ _ hut] at hu; exact retd u hu
  · intro u hu
    by_cases hut : u = t
    · subst hut; exact notyet u (by rw [hpc]; simp)
    · simp only [upd_other _ _ _ _ hut] at hu; exact notyet u hu

/-- two threads inside the critical section are the same thread -/
theorem SInv.excl {s : SState} (h : SInv s) {t u : Nat} (ht : (s.pc t).inCS) (hu : (s.pc u).inCS) : u = t := by
  have a := h.cs t ht
  have b := h.cs u hu
  rw [a] at b
  simpa using b.symm

theorem sinv_construct (cfg : Cfg) (n : Nat) (s : SState) (t : Nat) (ht : t < n) (hpc : s.pc t = .construct)
    (h : SInv s) : SInv (sstep cfg n s t) := by
  have e : sstep cfg n s t =
      { s with loc := upd s.loc t (some s.built), built := s.built + 1, pc := upd s.pc t SPc.write } := by
    simp [sstep, ht, hpc]
  rw [e]
  have hcs : (s.pc t).inCS := by rw [hpc]; simp [SPc.inCS]
  have hex : ∀ u, (s.pc u).inCS → u = t := fun u hu => h.excl hcs hu
  obtain ⟨cs, held, cons, wr, ptr0, nobuilt, post, ret, retd, notyet⟩ := h
  obtain ⟨hp, hb⟩ := cons t hpc
  refine ⟨?_, ?_, ?_, ?_, ?_, ?_, ?_, ?_, ?_, ?_⟩
  · intro u hu
    by_cases hut : u = t
    · subst hut; exact cs u hcs
    · simp only [upd_other _ _ _ _ hut] at hu; exact cs u hu
  · intro k hk
    by_cases hkt : k = t
    · subst hkt; simp [SPc.inCS]
    · simp only [upd_other _ _ _ _ hkt]; exact held k hk
  · intro u hu
    by_cases hut : u = t
    · subst hut; simp only [upd_same] at hu; cases hu
    · simp only [upd_other _ _ _ _ hut] at hu
      exact absurd (hex u (by rw [hu]; simp [SPc.inCS])) hut
  · intro u hu
    by_cases hut : u = t
    · subst hut; simp only [upd_same]; exact ⟨hp, by omega, by rw [hb]⟩
    · simp only [upd_other _ _ _ _ hut] at hu
      exact absurd (hex u (by rw [hu]; simp [SPc.inCS])) hut
  · intro k hk; simp only [] at hk; rw [hp] at hk; cases hk
  · intro _ hall
    exact absurd (by simp) (hall t)
  · intro u hu
    by_cases hut : u = t
    · subst hut; simp only [upd_same] at hu; simp at hu
    · simp only [upd_other _ _ _ _ hut] at hu ⊢; exact post u hu
  · exact ret
  · intro u hu
    by_cases hut : u = t
    · subst hut; simp only [upd_same] at hu; cases hu
    · simp only [upd_other _ _ _ _ hut] at hu; exact retd u hu
  · intro u hu
    by_cases hut : u = t
    · subst hut; exact notyet u (by rw [hpc]; simp)
    · simp only [upd_other _ _ _ _ hut] at hu; exact notyet u hu

theorem sinv_write (cfg : Cfg) (n : Nat) (s : SState) (t : Nat) (ht : t < n) (hpc : s.pc t = .write)
    (h : SInv s) : SInv (sstep cfg n s t) := by
  have e : sstep cfg n s t = { s with ptr := s.loc t, pc := upd s.pc t SPc.unlock } := by
    simp [sstep, ht, hpc]
  rw [e]
  have hcs : (s.pc t).inCS := by rw [hpc]; simp [SPc.inCS]
  have hex : ∀ u, (s.pc u).inCS → u = t := fun u hu => h.excl hcs hu
  obtain ⟨cs, held, cons, wr, ptr0, nobuilt, post, ret, retd, notyet⟩ := h
  obtain ⟨hp, hb, hl⟩ := wr t hpc
  refine ⟨?_, ?_, ?_, ?_, ?_, ?_, ?_, ?_, ?_, ?_⟩
  · intro u hu
    by_cases hut : u = t
    · subst hut; exact cs u hcs
    · simp only [upd_other _ _ _ _ hut] at hu; exact cs u hu
  · intro k hk
    by_cases hkt : k = t
    · subst hkt; simp [SPc.inCS]
    · simp only [upd_other _ _ _ _ hkt]; exact held k hk
  · intro u hu
    by_cases hut : u = t
    · subst hut; simp only [upd_same] at hu; cases hu
    · simp only [upd_other _ _ _ _ hut] at hu
      exact absurd (hex u (by rw [hu]; simp [SPc.inCS])) hut
  · intro u hu
    by_cases hut : u = t
    · subst hut; simp only [upd_same] at hu; cases hu
    · simp only [upd_other _ _ _ _ hut] at hu
      exact absurd (hex u (by rw [hu]; simp [SPc.inCS])) hut
  · intro k hk
    simp only [] at hk; rw [hl] at hk
    have : k = 0 := by simpa using hk.symm
    exact ⟨this, hb⟩
  · intro hn _
    simp only [] at hn; rw [hl] at hn; cases hn
  · intro u hu
    by_cases hut : u = t
    · subst hut; exact ⟨hl, hl⟩
    · simp only [upd_other _ _ _ _ hut] at hu
      have := (post u hu).1; rw [hp] at this; cases this
  · exact ret
  · intro u hu
    by_cases hut : u = t
    · subst hut; simp only [upd_same] at hu; cases hu
    · simp only [upd_other _ _ _ _ hut] at hu; exact retd u hu
  · intro u hu
    by_cases hut : u = t
    · subst hut; exact notyet u (by rw [hpc]; simp)
    · simp only [upd_other _ _ _ _ hut] at hu; exact notyet u hu

theorem sinv_unlock (cfg : Cfg) (n : Nat) (s : SState) (t : Nat) (ht : t < n) (hpc : s.pc t = .unlock)
    (h : SInv s) : SInv (sstep cfg n s t) := by
  have e : sstep cfg n s t = { s with lock := none, pc := upd s.pc t SPc.read3 } := by
    simp [sstep, ht, hpc]
  rw [e]
  have hcs : (s.pc t).inCS := by rw [hpc]; simp [SPc.inCS]
  have hex : ∀ u, (s.pc u).inCS → u = t := fun u hu => h.excl hcs hu
  obtain ⟨cs, held, cons, wr, ptr0, nobuilt, post, ret, retd, notyet⟩ := h
  refine ⟨?_, ?_, ?_, ?_, ?_, ?_, ?_, ?_, ?_, ?_⟩
  · intro u hu
    by_cases hut : u = t
    · subst hut; simp only [upd_same] at hu; exact absurd hu (by simp [SPc.inCS])
    · simp only [upd_other _ _ _ _ hut] at hu; exact absurd (hex u hu) hut
  · intro k hk; cases hk
  · intro u hu
    by_cases hut : u = t
    · subst hut; simp only [upd_same] at hu; cases hu
    · simp only [upd_other _ _ _ _ hut] at hu; exact cons u hu
  · intro u hu
    by_cases hut : u = t
    · subst hut; simp only [upd_same] at hu; cases hu
    · simp only [upd_other _ _ _ _ hut] at hu; exact wr u hu
  · exact ptr0
  · intro hp hall
    apply nobuilt hp
    intro u hu
    by_cases hut : u = t
    · subst hut; rw [hpc] at hu; cases hu
    · apply hall u; simpa only [upd_other _ _ _ _ hut] using hu
  · intro u hu
    by_cases hut : u = t
    · subst hut; exact post u (Or.inl hpc)
    · simp only [upd_other _ _ _ _ hut] at hu; exact post u hu
  · exact ret
  · intro u hu
    by_cases hut : u = t
    · subst hut; simp only [upd_same] at hu; cases hu
    · simp only [upd_other _ _ _ _ hut] at hu; exact retd u hu
  · intro u hu
    by_cases hut : u = t
    · subst hut; exact notyet u (by rw [hpc]; simp)
    · simp only [upd_other _ _ _ _ hut] at hu; exact notyet u hu

theorem sinv_read3 (cfg : Cfg) (n : Nat) (s : SState) (t : Nat) (ht : t < n) (hpc : s.pc t = .read3)
    (h : SInv s) : SInv (sstep cfg n s t) := by
  have e : sstep cfg n s t =
      { s with ret := upd s.ret t (if cfg.finalReadShared then s.ptr else s.loc t), pc := upd s.pc t SPc.done } := by
    simp [sstep, ht, hpc]
  rw [e]
  obtain ⟨cs, held, cons, wr, ptr0, nobuilt, post, ret, retd, notyet⟩ := h
  obtain ⟨hp, hl⟩ := post t (Or.inr (Or.inl hpc))
  have hv : (if cfg.finalReadShared then s.ptr else s.loc t) = some 0 := by split <;> assumption
  rw [hv]
  refine ⟨?_, ?_, ?_, ?_, ?_, ?_, ?_, ?_, ?_, ?_⟩
  · intro u hu
    by_cases hut : u = t
    · subst hut; simp only [upd_same] at hu; exact absurd hu (by simp [SPc.inCS])
    · simp only [upd_other _ _ _ _ hut] at hu; exact cs u hu
  · intro k hk
    have := held k hk
    by_cases hkt : k = t
    · subst hkt; rw [hpc] at this; exact absurd this (by simp [SPc.inCS])
    · simpa only [upd_other _ _ _ _ hkt] using this
  · intro u hu
    by_cases hut : u = t
    · subst hut; simp only [upd_same] at hu; cases hu
    · simp only [upd_other _ _ _ _ hut] at hu; exact cons u hu
  · intro u hu
    by_cases hut : u = t
    · subst hut; simp only [upd_same] at hu; cases hu
    · simp only [upd_other _ _ _ _ hut] at hu; exact wr u hu
  · exact ptr0
  · intro hn _
    simp only [] at hn; rw [hp] at hn; cases hn
  · intro u hu
    by_cases hut : u = t
    · subst hut; exact ⟨hp, hl⟩
    · simp only [upd_other _ _ _ _ hut] at hu; exact post u hu
  · intro u k hk
    by_cases hut : u = t
    · subst hut; simp only [upd_same] at hk; simpa using hk.symm
    · simp only [upd_other _ _ _ _ hut] at hk; exact ret u k hk
  · intro u hu
    by_cases hut : u = t
    · subst hut; simp only [upd_same]
    · simp only [upd_other _ _ _ _ hut] at hu ⊢; exact retd u hu
  · intro u hu
    by_cases hut : u = t
    · subst hut; simp only [upd_same] at hu; exact absurd rfl hu
    · simp only [upd_other _ _ _ _ hut] at hu ⊢; exact notyet u hu

theorem sinv_done (cfg : Cfg) (n : Nat) (s : SState) (t : Nat) (hpc : s.pc t = .done)
    (h : SInv s) : SInv (sstep cfg n s t) := by
  have e : sstep cfg n s t = s := by
    unfold sstep; split <;> simp [hpc]
  rw [e]; exact h

/-- the invariant is preserved by every step of every thread -/
theorem sinv_step (cfg : Cfg) (n : Nat) (s : SState) (t : Nat) (h : SInv s) : SInv (sstep cfg n s t) := by
  by_cases ht : t < n
  · cases hpc : s.pc t with
    | read1 => exact sinv_read1 cfg n s t ht hpc h
    | lock => exact sinv_lock cfg n s t ht hpc h
    | read2 => exact sinv_read2 cfg n s t ht hpc h
    | construct => exact sinv_construct cfg n s t ht hpc h
    | write => exact sinv_write cfg n s t ht hpc h
    | unlock => exact sinv_unlock cfg n s t ht hpc h
    | read3 => exact sinv_read3 cfg n s t ht hpc h
    | done => exact sinv_done cfg n s t hpc h
  · rw [sstep_ge cfg n s t ht]; exact h

theorem sinv_runFrom (cfg : Cfg) (n : Nat) (sched : List Nat) : ∀ s, SInv s → SInv (srunFrom cfg n s sched) := by
  induction sched with
  | nil => intro s h; exact h
  | cons t rest ih => intro s h; exact ih _ (sinv_step cfg n s t h)

theorem sinv_run (cfg : Cfg) (n : Nat) (sched : List Nat) : SInv (srun cfg n sched) :=
  sinv_runFrom cfg n sched _ sinv_init

/-- at most one construction in every state satisfying the invariant -/
theorem SInv.built_le_one {s : SState} (h : SInv s) : s.built ≤ 1 := by
  cases hp : s.ptr with
  | some k => have := (h.ptr0 k hp).2; omega
  | none =>
    by_cases hw : ∃ t, s.pc t = .write
    · obtain ⟨t, ht⟩ := hw
      have := (h.wr t ht).2.1; omega
    · have : s.built = 0 := h.nobuilt hp (fun t ht => hw ⟨t, ht⟩)
      omega

/-- a thread that has returned got object 0, and the object has been constructed exactly once -/
theorem SInv.done_built {s : SState} (h : SInv s) {t : Nat} (ht : s.pc t = .done) :
    s.built = 1 ∧ s.ret t = some 0 ∧ s.ptr = some 0 := by
  have hp := (h.post t (Or.inr (Or.inr ht))).1
  exact ⟨(h.ptr0 0 hp).2, h.retd t ht, hp⟩

/-- a step of thread `t` changes no other thread's program counter -/
theorem sstep_pc_other (cfg : Cfg) (n : Nat) (s : SState) (t u : Nat) (h : u ≠ t) :
    (sstep cfg n s t).pc u = s.pc u := by
  unfold sstep
  split
  · split <;> (try split) <;> simp [upd_other _ _ _ _ h]
  · rfl

/-- thread ids ≥ n do not exist: they stay at their initial program counter -/
def SBound (n : Nat) (s : SState) : Prop := ∀ t, ¬ t < n → s.pc t = .read1

theorem sbound_runFrom (cfg : Cfg) (n : Nat) (sched : List Nat) :
    ∀ s, SBound n s → SBound n (srunFrom cfg n s sched) := by
  induction sched with
  | nil => intro s h; exact h
  | cons t rest ih =>
    intro s h
    apply ih
    intro u hu
    by_cases hut : u = t
    · subst hut; rw [sstep_ge cfg n s u hu]; exact h u hu
    · rw [sstep_pc_other cfg n s t u hut]; exact h u hu

theorem sbound_run (cfg : Cfg) (n : Nat) (sched : List Nat) : SBound n (srun cfg n sched) :=
  sbound_runFrom cfg n sched _ (fun _ _ => rfl)

/-- no deadlock: while some thread has not returned, some thread can move -/
theorem SInv.progress {s : SState} (h : SInv s) (n : Nat) (hb : SBound n s) {t : Nat} (ht : t < n)
    (hnd : s.pc t ≠ .done) : ∃ u, u < n ∧ s.pc u ≠ .done ∧ s.blocked u = false := by
  by_cases hbl : s.blocked t = false
  · exact ⟨t, ht, hnd, hbl⟩
  · have hb' : s.blocked t = true := by simpa using hbl
    simp only [SState.blocked, Bool.and_eq_true, beq_iff_eq] at hb'
    obtain ⟨_, hl⟩ := hb'
    cases hlk : s.lock with
    | none => rw [hlk] at hl; cases hl
    | some k =>
      have hk := h.held k hlk
      refine ⟨k, ?_, ?_, ?_⟩
      · apply Classical.byContradiction
        intro hkn
        rw [hb k hkn] at hk; exact absurd hk (by simp [SPc.inCS])
      · intro hd; rw [hd] at hk; exact absurd hk (by simp [SPc.inCS])
      · simp only [SState.blocked]
        cases hpk : s.pc k <;> simp_all [SPc.inCS]

end CelmaVerif.Concurrency
