import CelmaVerif.Lemmas.FixedStringC11RFind
import CelmaVerif.Lemmas.FixedStringC11Cmp
/-
  C11: `rfind( str, pos, count)` / `rfind( str, pos)` for C strings, reduced to `rfindN`.
-/
namespace CelmaVerif.FixedString
open CelmaVerif
variable {c : Cfg}

theorem rfindPN_eq_rfindN {s : FStr} {a : List Byte} {sl : Nat} (hlen : cstrlen a = .ok sl) (pos : Nat) {count : Nat}
    (h0 : 0 < count) (hle : count ≤ sl) : rfindPN c s a pos count = rfindN c s a pos count := by
  unfold rfindPN rfindN
  by_cases hz : s.len = 0
  · rw [if_pos hz, if_pos (Or.inl hz)]
  · rw [if_neg hz, hlen, bindR_ok, if_neg (show ¬ sl = 0 by omega)]
    simp only
    have e1 : (if count > sl then sl else count) = count := if_neg (by omega)
    rw [e1]
    by_cases hg : count > s.len
    · rw [if_pos hg, if_pos (show s.len = 0 ∨ count = 0 ∨ count > s.len from Or.inr (Or.inr hg))]
    · rw [if_neg hg, if_neg (show ¬ (s.len = 0 ∨ count = 0 ∨ count > s.len) by omega)]

theorem rfindPN_abs (hc : CfgOK c) {s : FStr} (hs : WF c s) {a : List Byte} {sl : Nat} (hlen : cstrlen a = .ok sl)
    (hsl : sl < a.length) (pos : Nat) {count : Nat} (h0 : 0 < count) (hle : count ≤ sl) :
    rfindPN c s a pos count = .ok (StdString.rfind (abs s) (a.take count) pos) := by
  rw [rfindPN_eq_rfindN hlen pos h0 hle]
  exact rfindN_abs hc hs pos (by omega) h0

theorem rfindP_abs (hc : CfgOK c) {s : FStr} (hs : WF c s) {a : List Byte} {sl : Nat} (hlen : cstrlen a = .ok sl)
    (hsl : sl < a.length) (pos : Nat) (h0 : 0 < sl) :
    rfindP c s a pos = .ok (StdString.rfind (abs s) (StdString.ofCStr a) pos) := by
  unfold rfindP
  rw [hlen, bindR_ok, rfindPN_abs hc hs hlen hsl pos h0 (Nat.le_refl _), ofCStr_take hlen]

end CelmaVerif.FixedString
