import CelmaVerif.Lemmas.Sources
import CelmaVerif.Lemmas.RulesProgress
import CelmaVerif.Lemmas.RulesGlobals
/-
  C07, source half, part 2: how the "from a source" flag changes the rules.

  The flag is read in exactly one place: `assignValue` skips the cardinality object's `gotValue()`.
  So the run with sources (`g`) and a run of the same uses all given on the command line (`h`) go
  through the same states up to the counters.  This file proves the simulation:
  * per argument state (`countAssign_mono`, `countAssign_relaxed`),
  * per use (`sim_step`), per list of uses (`sim_run`), for the final checks (`endChecks_sim`).
  The command-line run may be taken under a configuration in which the cardinality `max n` of some
  non-list arguments (`O`, the overridden ones) is dropped; for those the run with sources must not
  see more than `n` command-line uses (`CntRel.budget`).
-/
namespace CelmaVerif.ProgArgs
open CelmaVerif CelmaVerif.Keys

/-! ### one argument state -/

/-- an argument state without its counter -/
def ArgSt.noCnt (st : ArgSt) : ArgSt := { st with cnt := 0 }

/-- an argument definition without its cardinality object -/
def ArgDef.noCard (d : ArgDef) : ArgDef := { d with card := .unlimited }

theorem noCnt_eq_iff {a b : ArgSt} : a.noCnt = b.noCnt ↔ a = { b with cnt := a.cnt } := by
  cases a; cases b; simp [ArgSt.noCnt]

theorem hasValue_noCnt (k : Kind) (a : ArgSt) : a.noCnt.hasValue k = a.hasValue k := by
  cases k <;> rfl

/-- the part of `assignValue` that reads the cardinality object and the counter -/
def countAssign (skip : Bool) (d : ArgDef) (st : ArgSt) (v : Word) : Res ArgSt := do
  let cnt ← countValue skip d.card st.cnt
  assignDest d { st with cnt := cnt } v

/-- counting is monotone: with a smaller counter, and skipping whenever the other side skips, the
    count succeeds with a smaller result; with the same mode and counter, the same result -/
theorem countValue_mono {skipG skipH : Bool} {c : Card} {a b b' : Int} (hs : skipH = true → skipG = true)
    (hle : a ≤ b) (e : countValue skipH c b = .ok b') :
    ∃ a', countValue skipG c a = .ok a' ∧ a' ≤ b' ∧ (skipG = skipH → a = b → a' = b') := by
  unfold countValue at e ⊢
  have hb : b ≤ b' ∧ (skipH = false → c.limit = none → b' = b) ∧
      (skipH = false → ∀ n, c.limit = some n → b' = b + 1 ∧ b + 1 ≤ n) := by
    cases hH : skipH with
    | true => rw [hH] at e; simp only [if_true] at e; cases e; exact ⟨Int.le_refl _, fun h => (by cases h), fun h => (by cases h)⟩
    | false =>
      rw [hH] at e
      simp only [Bool.false_eq_true, if_false] at e
      cases hl : c.limit with
      | none =>
        have := gotValue_ok_none hl e
        exact ⟨by omega, fun _ _ => this, fun _ n h => (by cases h)⟩
      | some n =>
        have := gotValue_ok_some hl e
        exact ⟨by omega, fun _ h => (by cases h), fun _ m h => (by cases h; exact ⟨this.1, by omega⟩)⟩
  cases hG : skipG with
  | true =>
    simp only [if_true]
    refine ⟨a, rfl, by omega, fun h1 h2 => ?_⟩
    rw [← h1] at e; simp only [if_true] at e; cases e; exact h2
  | false =>
    have hH : skipH = false := by
      cases h : skipH with
      | false => rfl
      | true => have := hs h; rw [hG] at this; cases this
    simp only [Bool.false_eq_true, if_false]
    rw [gotValue_eq]
    cases hl : c.limit with
    | none =>
      have := hb.2.1 hH hl
      exact ⟨a, rfl, by omega, fun _ h => by omega⟩
    | some n =>
      have := hb.2.2 hH n hl
      dsimp only
      have hn : ¬ a + 1 > n := by omega
      rw [if_neg hn]
      exact ⟨a + 1, rfl, by omega, fun _ h => by omega⟩

theorem assignVecLoop_mono (d : ArgDef) : ∀ (ts : List Word) (first : Bool) (b b' : ArgSt) (x : Int),
    x ≤ b.cnt → assignVecLoop d ts first b = .ok b' →
    ∃ x', assignVecLoop d ts first { b with cnt := x } = .ok { b' with cnt := x' } ∧ x' ≤ b'.cnt ∧
      (x = b.cnt → x' = b'.cnt) := by
  intro ts
  induction ts with
  | nil =>
    intro first b b' x hle e
    simp only [assignVecLoop] at e; cases e
    exact ⟨x, rfl, hle, fun h => h⟩
  | cons t ts ih =>
    intro first b b' x hle e
    simp only [assignVecLoop, bind_eq_ok] at e
    obtain ⟨cnt, hc, _, hr, v, hv, e⟩ := e
    obtain ⟨a', ha, hle', heq'⟩ := countValue_mono (skipG := first) (fun h => h) hle hc
    obtain ⟨x', hx, hxle, hxeq⟩ := ih false _ b' a' (by exact hle') e
    refine ⟨x', ?_, hxle, fun h => hxeq (heq' rfl h)⟩
    simp only [assignVecLoop, ha, hr, hv, Res.bind_ok]
    exact hx

/-- `assign` never reads the counter -/
theorem assignDest_scalar_setCnt {d : ArgDef} {st st' : ArgSt} {v : Word} (hk : d.kind ≠ .vecInt)
    (e : assignDest d st v = .ok st') (x : Int) :
    assignDest d { st with cnt := x } v = .ok { st' with cnt := x } := by
  unfold assignDest at e ⊢
  split at e
  · rename_i hk'; simp only [hk']; cases e; rfl
  · rename_i hk'; simp only [hk', bind_eq_ok] at e ⊢
    obtain ⟨_, h1, n, h2, e⟩ := e; cases e
    exact ⟨(), h1, n, h2, rfl⟩
  · rename_i hk'; simp only [hk', bind_eq_ok] at e ⊢
    obtain ⟨_, h1, e⟩ := e; cases e
    exact ⟨(), h1, rfl⟩
  · rename_i hk'
    simp only [hk'] at e ⊢
    split at e
    · rename_i hv
      rw [if_pos hv]
      simp only [bind_eq_ok] at e ⊢
      obtain ⟨_, h1, _, h2, e⟩ := e; cases e
      exact ⟨(), h1, (), h2, rfl⟩
    · rename_i hv
      rw [if_neg hv]
      simp only [bind_eq_ok] at e ⊢
      obtain ⟨_, h1, _, h2, n, h3, e⟩ := e; cases e
      exact ⟨(), h1, (), h2, n, h3, rfl⟩
  · rename_i hv; exact absurd hv hk

/-- `assign` of a non-list destination does not look at the cardinality object -/
theorem assignDest_noCard {d : ArgDef} (hk : d.kind ≠ .vecInt) (st : ArgSt) (v : Word) :
    assignDest d.noCard st v = assignDest d st v := by
  obtain ⟨key, kind, vmode, card, mand, checks, cons, multi, sep, fv, depr, mix⟩ := d
  simp only at hk
  cases kind <;> first | rfl | exact absurd rfl hk

theorem assignDest_mono {d : ArgDef} {b b' : ArgSt} {v : Word} {x : Int} (hle : x ≤ b.cnt)
    (e : assignDest d b v = .ok b') :
    ∃ x', assignDest d { b with cnt := x } v = .ok { b' with cnt := x' } ∧ x' ≤ b'.cnt ∧
      (x = b.cnt → x' = b'.cnt) := by
  by_cases hk : d.kind = .vecInt
  · unfold assignDest at e ⊢
    simp only [hk] at e ⊢
    exact assignVecLoop_mono d _ true b b' x hle e
  · have hc := assignDest_cnt_scalar hk e
    exact ⟨x, assignDest_scalar_setCnt hk e x, by omega, fun h => by omega⟩

/-- **One value, same cardinality object.**  `b` is the state of the argument in the command-line
    run, `a` in the run with sources: same state, counter not larger.  If the command-line run
    accepts the value, so does the other run (which may skip the count), with the same resulting
    state and again a counter that is not larger — equal when nothing was skipped. -/
theorem countAssign_mono {skipG skipH : Bool} {d : ArgDef} {a b b' : ArgSt} {v : Word}
    (hs : skipH = true → skipG = true) (hab : a.noCnt = b.noCnt) (hle : a.cnt ≤ b.cnt)
    (e : countAssign skipH d b v = .ok b') :
    ∃ a', countAssign skipG d a v = .ok a' ∧ a'.noCnt = b'.noCnt ∧ a'.cnt ≤ b'.cnt ∧
      (skipG = skipH → a.cnt = b.cnt → a'.cnt = b'.cnt) := by
  unfold countAssign at e ⊢
  simp only [bind_eq_ok] at e
  obtain ⟨cb, hcb, e⟩ := e
  obtain ⟨ca, hca, hle', heq'⟩ := countValue_mono (skipG := skipG) hs hle hcb
  obtain ⟨x', hx, hxle, hxeq⟩ := assignDest_mono (b := { b with cnt := cb }) (x := ca) hle' e
  have ha : a = { b with cnt := a.cnt } := noCnt_eq_iff.mp hab
  refine ⟨{ b' with cnt := x' }, ?_, by simp [ArgSt.noCnt], hxle, fun h1 h2 => hxeq (heq' h1 h2)⟩
  rw [hca]
  simp only [Res.bind_ok]
  rw [ha]
  exact hx

/-- **One value, cardinality `max n` dropped on the command-line side** (non-list argument): if the
    run without the cardinality object accepts the value, the run with it accepts it as well,
    provided the count is skipped (value from a source), nothing is counted (`n = -1`) or there is
    room for one more value.  The counter moves only in the last case. -/
theorem countAssign_relaxed {skipG : Bool} {d : ArgDef} {n : Int} {a b b' : ArgSt} {v : Word}
    (hk : d.kind ≠ .vecInt) (hc : d.card = .max n) (hab : a.noCnt = b.noCnt)
    (hroom : skipG = true ∨ n = -1 ∨ a.cnt + 1 ≤ n)
    (e : countAssign false d.noCard b v = .ok b') :
    ∃ a', countAssign skipG d a v = .ok a' ∧ a'.noCnt = b'.noCnt ∧
      a'.cnt = (if skipG = true ∨ n = -1 then a.cnt else a.cnt + 1) := by
  unfold countAssign at e ⊢
  simp only [bind_eq_ok] at e
  obtain ⟨cb, _, e⟩ := e
  rw [assignDest_noCard hk] at e
  have ha : a = { b with cnt := a.cnt } := noCnt_eq_iff.mp hab
  have key : ∀ x : Int, assignDest d { a with cnt := x } v = .ok { b' with cnt := x } := by
    intro x
    have := assignDest_scalar_setCnt hk e x
    rw [ha]; exact this
  by_cases h1 : skipG = true ∨ n = -1
  · refine ⟨{ b' with cnt := a.cnt }, ?_, by simp [ArgSt.noCnt], by simp [h1]⟩
    have : countValue skipG d.card a.cnt = .ok a.cnt := by
      unfold countValue
      rcases h1 with h1 | h1
      · simp [h1]
      · cases skipG <;> simp [hc, Card.gotValue, h1]
    rw [this]; simp only [Res.bind_ok]; exact key _
  · have hsk : skipG = false := by
      cases h : skipG with
      | false => rfl
      | true => exact absurd (Or.inl h) h1
    have hn : n ≠ -1 := fun h => h1 (Or.inr h)
    have hr : a.cnt + 1 ≤ n := by
      rcases hroom with h | h | h
      · rw [hsk] at h; cases h
      · exact absurd h hn
      · exact h
    refine ⟨{ b' with cnt := a.cnt + 1 }, ?_, by simp [ArgSt.noCnt], by simp [h1]⟩
    have : countValue skipG d.card a.cnt = .ok (a.cnt + 1) := by
      unfold countValue
      have : ¬ a.cnt + 1 > n := by omega
      simp [hsk, hc, Card.gotValue, hn, this]
    rw [this]; simp only [Res.bind_ok]; exact key _

/-! ### handler states -/

/-- the two runs are in the same state up to the counters and the from-source flag -/
structure Eqv (g h : HState) : Prop where
  args     : g.args.map ArgSt.noCnt = h.args.map ArgSt.noCnt
  pending  : g.pending = h.pending
  globals  : g.globals = h.globals
  lastArg  : g.lastArg = h.lastArg
  inverted : g.inverted = h.inverted
  uses     : g.uses = h.uses

/-- the cardinality counter of argument `i` -/
def cntOf (h : HState) (i : Nat) : Int := (h.args.getD i default).cnt

/-- number of uses of argument `i` in a list of uses -/
def usesOf (i : Nat) (us : List Use) : Nat := us.countP (fun u => u.arg == i)

/-- `cfgH` is `cfg` with the cardinality object of the arguments in `O` removed; those are non-list
    arguments with a cardinality `max n` (the default of every scalar argument is `max 1`) -/
structure Relaxed (cfg cfgH : Cfg) (O : Nat → Prop) : Prop where
  globals : cfgH.globals = cfg.globals
  same    : ∀ i, ¬ O i → cfgH.args[i]? = cfg.args[i]?
  relaxed : ∀ i, O i → cfgH.args[i]? = (cfg.args[i]?).map ArgDef.noCard
  scalar  : ∀ i d, O i → cfg.args[i]? = some d → d.kind ≠ .vecInt ∧ ∃ n, d.card = .max n

/-- the counters of the run with sources (`g`) against the command-line run (`h`): not larger; equal
    for arguments no source touched (`S`: the arguments used by a source); and for an argument whose
    cardinality was dropped on the command-line side, room for the command-line uses still to come -/
structure CntRel (cfg : Cfg) (O S : Nat → Prop) (rest : List Use) (g h : HState) : Prop where
  le     : ∀ i, ¬ O i → cntOf g i ≤ cntOf h i
  eq     : ∀ i, ¬ O i → ¬ S i → cntOf g i = cntOf h i
  budget : ∀ i d n, O i → cfg.args[i]? = some d → d.card = .max n →
             n = -1 ∨ cntOf g i + (usesOf i rest : Int) ≤ n

theorem Eqv.getD {g h : HState} (e : Eqv g h) (i : Nat) :
    (g.args.getD i default).noCnt = (h.args.getD i default).noCnt := by
  have := congrArg (fun l => l[i]?) e.args
  simp only [List.getElem?_map] at this
  rw [List.getD_eq_getElem?_getD, List.getD_eq_getElem?_getD]
  cases hg : g.args[i]? <;> cases hh : h.args[i]? <;> rw [hg, hh] at this <;> simp at this ⊢
  exact this

theorem Eqv.len {g h : HState} (e : Eqv g h) : g.args.length = h.args.length := by
  have := congrArg List.length e.args
  simpa using this

theorem cnt_set (l : List ArgSt) (i j : Nat) (st : ArgSt) :
    ((l.set i st).getD j default).cnt = if i = j ∧ i < l.length then st.cnt else (l.getD j default).cnt := by
  rw [List.getD_eq_getElem?_getD, List.getD_eq_getElem?_getD, List.getElem?_set]
  by_cases h1 : i = j
  · subst h1
    by_cases h2 : i < l.length
    · simp [h2]
    · have : l[i]? = none := by simp; omega
      simp [h2, this]
  · simp [h1]

/-- `assignValue` for an argument that is not deprecated, when no inversion is pending -/
theorem assignValue_eq_countAssign {h : HState} {i : Nat} {d : ArgDef} {v : Word} {f : Bool}
    (hdep : d.deprecated = false) (hinv : h.inverted = false) :
    assignValue h i d v f = (countAssign h.fromSrc d (h.args.getD i default) v >>= fun st' =>
      pure { h with args := h.args.set i st', pending := activateConstraints d.constraints h.pending,
                    uses := h.uses ++ [{ arg := i, val := v, ident := f }] }) := by
  unfold assignValue countAssign
  simp only [hdep, hinv, throwIf, Bool.false_eq_true, if_false, Res.bind_ok]
  cases countValue h.fromSrc d.card (h.args.getD i default).cnt with
  | ok c => rfl
  | throw e => rfl
  | oob w => rfl

/-- one use is applied successfully when the argument exists and is not deprecated, no inversion is
    pending, the constraint containers accept the key, and the value is counted and assigned -/
theorem applyUse_of {cfg : Cfg} {g : HState} {u : Use} {d : ArgDef} {st' : ArgSt}
    {pend : List (Key × CType)} {globs : List GSt}
    (hd : cfg.args[u.arg]? = some d) (hdep : d.deprecated = false) (hinv : g.inverted = false)
    (hp : u.ident = true → pendingIdentified d.key g.pending = .ok pend) (hp' : u.ident = false → pend = g.pending)
    (hg : u.ident = true → executeGlobals cfg.globals g.globals d.key = .ok globs)
    (hg' : u.ident = false → globs = g.globals)
    (hc : countAssign g.fromSrc d (g.args.getD u.arg default) u.val = .ok st') :
    ∃ g', applyUse cfg g u = .ok g' ∧ g'.args = g.args.set u.arg st' ∧
      g'.pending = activateConstraints d.constraints pend ∧ g'.globals = globs ∧ g'.uses = g.uses ++ [u] ∧
      g'.lastArg = (if u.ident then some u.arg else g.lastArg) ∧ g'.inverted = false ∧ g'.fromSrc = g.fromSrc := by
  obtain ⟨i, v, b⟩ := u
  unfold applyUse
  simp only at hd hp hp' hg hg' hc ⊢
  rw [hd]
  cases b with
  | true =>
    simp only [if_true]
    unfold handleIdentifiedArg
    rw [hp rfl, hg rfl]
    simp only [Res.bind_ok]
    rw [assignValue_eq_countAssign hdep (by exact hinv)]
    simp only
    rw [hc]
    exact ⟨_, rfl, rfl, rfl, rfl, rfl, rfl, rfl, rfl⟩
  | false =>
    simp only [Bool.false_eq_true, if_false]
    rw [assignValue_eq_countAssign hdep hinv, hc, hp' rfl, hg' rfl]
    exact ⟨_, rfl, rfl, rfl, rfl, rfl, rfl, hinv, rfl⟩

/-- the budget list before a use: a command-line use takes one unit of its argument's budget, a use
    from a source none -/
def budgetBefore (src : Bool) (u : Use) (rest : List Use) : List Use := if src then rest else u :: rest

/-- **One use.**  If the command-line run (under the relaxed configuration) applies the use, the run
    with sources applies it too and the two states stay related.  A use from a source must be a use
    of an argument in `S`. -/
theorem sim_step {cfg cfgH : Cfg} {O S : Nat → Prop} (R : Relaxed cfg cfgH O) {g h h' : HState} {u : Use}
    {rest : List Use} (hE : Eqv g h) (hC : CntRel cfg O S (budgetBefore g.fromSrc u rest) g h)
    (hfH : h.fromSrc = false) (hmode : g.fromSrc = true → S u.arg)
    (e : applyUse cfgH h u = .ok h') :
    ∃ g', applyUse cfg g u = .ok g' ∧ Eqv g' h' ∧ CntRel cfg O S rest g' h' ∧ g'.fromSrc = g.fromSrc ∧
      h'.fromSrc = false := by
  obtain ⟨dH, pend, cntH, stH', s⟩ := applyUse_ok e
  have hlast := (applyUse_lastArg e).1
  have hcaH : countAssign false dH (h.args.getD u.arg default) u.val = .ok stH' := by
    unfold countAssign
    have := s.count
    rw [hfH] at this
    rw [this]; exact s.assign
  have hst := hE.getD u.arg
  have hlen := hE.len
  -- the argument definition on the side of the run with sources, and the counted assignment there
  have main : ∃ dG stG', cfg.args[u.arg]? = some dG ∧ dG.deprecated = dH.deprecated ∧ dG.key = dH.key ∧
      dG.constraints = dH.constraints ∧
      countAssign g.fromSrc dG (g.args.getD u.arg default) u.val = .ok stG' ∧ stG'.noCnt = stH'.noCnt ∧
      (¬ O u.arg → stG'.cnt ≤ stH'.cnt ∧
        (g.fromSrc = false → cntOf g u.arg = cntOf h u.arg → stG'.cnt = stH'.cnt)) ∧
      (O u.arg → ∀ n, dG.card = .max n → n = -1 ∨ stG'.cnt + (usesOf u.arg rest : Int) ≤ n) := by
    by_cases hO : O u.arg
    · have hr := R.relaxed _ hO
      rw [s.arg] at hr
      cases hdG : cfg.args[u.arg]? with
      | none => rw [hdG] at hr; cases hr
      | some dG =>
        rw [hdG] at hr
        simp only [Option.map_some, Option.some.injEq] at hr
        subst hr
        obtain ⟨hk, n, hn⟩ := R.scalar _ dG hO hdG
        have hb := hC.budget _ dG n hO hdG hn
        have hroom : g.fromSrc = true ∨ n = -1 ∨ (g.args.getD u.arg default).cnt + 1 ≤ n := by
          cases hsrc : g.fromSrc with
          | true => exact Or.inl rfl
          | false =>
            rcases hb with hb | hb
            · exact Or.inr (Or.inl hb)
            · refine Or.inr (Or.inr ?_)
              rw [hsrc] at hb
              simp only [budgetBefore, Bool.false_eq_true, if_false, usesOf, List.countP_cons, beq_self_eq_true,
                if_true] at hb
              unfold cntOf at hb
              omega
        obtain ⟨stG', h1, h2, h3⟩ := countAssign_relaxed (skipG := g.fromSrc) hk hn hst hroom hcaH
        refine ⟨dG, stG', rfl, rfl, rfl, rfl, h1, h2, fun c => absurd hO c, ?_⟩
        intro _ m hm
        rw [hn] at hm; cases hm
        rcases hb with hb | hb
        · exact Or.inl hb
        · by_cases hn1 : n = -1
          · exact Or.inl hn1
          · refine Or.inr ?_
            rw [h3]
            cases hsrc : g.fromSrc with
            | true =>
              rw [hsrc] at hb
              simp only [budgetBefore, if_true] at hb
              simp only [true_or, if_true]
              unfold cntOf at hb; exact hb
            | false =>
              rw [hsrc] at hb
              simp only [budgetBefore, Bool.false_eq_true, if_false, usesOf, List.countP_cons, beq_self_eq_true,
                if_true] at hb
              simp only [Bool.false_eq_true, false_or, hn1, if_false]
              unfold cntOf at hb
              unfold usesOf
              omega
    · have hr := R.same _ hO
      rw [s.arg] at hr
      have hle := hC.le _ hO
      obtain ⟨stG', h1, h2, h3, h4⟩ := countAssign_mono (skipG := g.fromSrc) (skipH := false)
        (fun c => by cases c) hst hle hcaH
      exact ⟨dH, stG', hr.symm, rfl, rfl, rfl, h1, h2, fun _ => ⟨h3, fun hs hc => h4 hs hc⟩, fun c => absurd c hO⟩
  obtain ⟨dG, stG', hdG, hdep, hkey, hcons, hca, hno, hcl, hbud⟩ := main
  obtain ⟨g', eg, ga, gp, gg, gu, gl, gi, gf⟩ := applyUse_of (cfg := cfg) (g := g) (u := u) (d := dG) (st' := stG')
    (pend := pend) (globs := h'.globals) hdG (by rw [hdep]; exact s.notDepr) (by rw [hE.inverted]; exact s.notInv)
    (fun hi => by rw [hkey, hE.pending]; exact s.pendI hi) (fun hi => by rw [hE.pending]; exact s.pendF hi)
    (fun hi => by rw [hkey, hE.globals, ← R.globals]; exact s.globI hi)
    (fun hi => by rw [hE.globals]; exact s.globF hi) hca
  refine ⟨g', eg, ⟨?_, ?_, gg, ?_, ?_, ?_⟩, ⟨?_, ?_, ?_⟩, gf, by rw [s.fromSrc']; exact hfH⟩
  · rw [ga, s.args', List.map_set, List.map_set, hE.args, hno]
  · rw [gp, s.pending', hcons]
  · rw [gl, hlast, hE.lastArg]
  · rw [gi, s.inverted']
  · rw [gu, s.uses', hE.uses]
  · intro j hj
    unfold cntOf
    rw [ga, s.args', cnt_set, cnt_set, ← hlen]
    by_cases hij : u.arg = j ∧ u.arg < g.args.length
    · rw [if_pos hij, if_pos hij]
      exact (hcl (by rw [hij.1]; exact hj)).1
    · rw [if_neg hij, if_neg hij]; exact hC.le j hj
  · intro j hj hS
    unfold cntOf
    rw [ga, s.args', cnt_set, cnt_set, ← hlen]
    by_cases hij : u.arg = j ∧ u.arg < g.args.length
    · rw [if_pos hij, if_pos hij]
      have hsrc : g.fromSrc = false := by
        cases hs : g.fromSrc with
        | false => rfl
        | true => exact absurd (by rw [← hij.1]; exact hmode hs) hS
      exact (hcl (by rw [hij.1]; exact hj)).2 hsrc (by rw [hij.1]; exact hC.eq j hj hS)
    · rw [if_neg hij, if_neg hij]; exact hC.eq j hj hS
  · intro j d n hj hd hn
    unfold cntOf
    rw [ga, cnt_set]
    by_cases hij : u.arg = j ∧ u.arg < g.args.length
    · rw [if_pos hij]
      obtain ⟨rfl, _⟩ := hij
      rw [hdG] at hd; cases hd
      exact hbud hj n hn
    · rw [if_neg hij]
      rcases hC.budget j d n hj hd hn with hb | hb
      · exact Or.inl hb
      · refine Or.inr ?_
        have : usesOf j rest ≤ usesOf j (budgetBefore g.fromSrc u rest) := by
          unfold budgetBefore usesOf
          split
          · exact Nat.le_refl _
          · rw [List.countP_cons]; omega
        have h2 : (usesOf j rest : Int) ≤ (usesOf j (budgetBefore g.fromSrc u rest) : Int) := by exact_mod_cast this
        unfold cntOf at hb
        omega

/-! ### lists of uses -/

/-- **A list of uses.**  `us` is applied in one mode by the run with sources (`g.fromSrc`), on the
    command line by the other run; `rest` are the command-line uses that follow later. -/
theorem sim_run {cfg cfgH : Cfg} {O S : Nat → Prop} (R : Relaxed cfg cfgH O) :
    ∀ (us rest : List Use) (g h h' : HState), Eqv g h →
      CntRel cfg O S (if g.fromSrc then rest else us ++ rest) g h → h.fromSrc = false →
      (g.fromSrc = true → ∀ u ∈ us, S u.arg) → applyUses cfgH h us = .ok h' →
      ∃ g', applyUses cfg g us = .ok g' ∧ Eqv g' h' ∧ CntRel cfg O S rest g' h' ∧ g'.fromSrc = g.fromSrc ∧
        h'.fromSrc = false := by
  intro us
  induction us with
  | nil =>
    intro rest g h h' hE hC hf _ e
    simp only [applyUses] at e; cases e
    refine ⟨g, rfl, hE, ?_, rfl, hf⟩
    cases hs : g.fromSrc <;> rw [hs] at hC <;> simpa using hC
  | cons u us ih =>
    intro rest g h h' hE hC hf hm e
    simp only [applyUses, bind_eq_ok] at e
    obtain ⟨h1, e1, e2⟩ := e
    have hC' : CntRel cfg O S (budgetBefore g.fromSrc u (if g.fromSrc then rest else us ++ rest)) g h := by
      unfold budgetBefore
      cases hs : g.fromSrc <;> rw [hs] at hC <;> simpa using hC
    obtain ⟨g1, eg1, hE1, hC1, hf1, hfh1⟩ := sim_step R hE hC' hf
      (fun hs => hm hs u (List.mem_cons_self)) e1
    obtain ⟨g', eg', hE', hCf, hf', hfh'⟩ := ih rest g1 h1 h' hE1 (by rw [hf1]; exact hC1) hfh1
      (fun hs v hv => hm (by rw [← hf1]; exact hs) v (List.mem_cons_of_mem _ hv)) e2
    refine ⟨g', ?_, hE', hCf, by rw [hf', hf1], hfh'⟩
    simp only [applyUses, eg1, Res.bind_ok]; exact eg'

/-! ### the final checks -/

/-- a cardinality object without a condition at the end of the evaluation (`unlimited`, `max n`) -/
def Card.NoEnd : Card → Prop
  | .unlimited => True
  | .max _ => True
  | _ => False

theorem noEnd_check {c : Card} (h : c.NoEnd) (x : Int) : c.check x = .ok () := by
  cases c <;> first | rfl | exact absurd h (by simp [Card.NoEnd])

/-- what the value constraints see of a stored argument handler: no cardinality object, no counter -/
def VArg.view (a : VArg) : VArg := (a.1, a.2.1.noCard, a.2.2.noCnt)

theorem VArg.hasValue_view (a : VArg) : a.view.hasValue = a.hasValue := by
  unfold VArg.view VArg.hasValue
  exact hasValue_noCnt _ _

theorem differInner_view (a1 : VArg) : ∀ l : List VArg, differInner a1.view (l.map VArg.view) = differInner a1 l := by
  intro l
  induction l with
  | nil => rfl
  | cons a2 l ih =>
    simp only [List.map_cons, differInner, VArg.hasValue_view, ih]
    rfl

theorem differOuter_view (all : List VArg) : ∀ l : List VArg,
    differOuter (all.map VArg.view) (l.map VArg.view) = differOuter all l := by
  intro l
  induction l with
  | nil => rfl
  | cons a1 l ih =>
    simp only [List.map_cons, differOuter, VArg.hasValue_view, differInner_view, ih]

theorem disjointCheck_view (l : List VArg) : disjointCheck (l.map VArg.view) = disjointCheck l := by
  cases l with
  | nil => rfl
  | cons a1 l =>
    cases l with
    | nil => rfl
    | cons a2 l =>
      simp only [List.map_cons, disjointCheck, VArg.hasValue_view]
      rfl

theorem argIndexOf_noCard (defs : List ArgDef) (k : Key) :
    argIndexOf (defs.map ArgDef.noCard) k = argIndexOf defs k := by
  unfold argIndexOf
  induction defs with
  | nil => rfl
  | cons d ds ih =>
    simp only [List.map_cons, List.findIdx?_cons, ih]
    rfl

theorem valueHandlers_view {defs defs' : List ArgDef} {sts sts' : List ArgSt}
    (hd : defs.map ArgDef.noCard = defs'.map ArgDef.noCard) (hs : sts.map ArgSt.noCnt = sts'.map ArgSt.noCnt)
    (keys : List Key) :
    (valueHandlers defs sts keys).map VArg.view = (valueHandlers defs' sts' keys).map VArg.view := by
  unfold valueHandlers
  rw [List.map_filterMap, List.map_filterMap]
  congr 1
  funext k
  have hi : argIndexOf defs k = argIndexOf defs' k := by
    rw [← argIndexOf_noCard defs, ← argIndexOf_noCard defs', hd]
  rw [hi]
  cases argIndexOf defs' k with
  | none => rfl
  | some i =>
    have h1 := congrArg (fun l => l[i]?) hd
    have h2 := congrArg (fun l => l[i]?) hs
    simp only [List.getElem?_map] at h1 h2
    have h3 : (sts.getD i default).noCnt = (sts'.getD i default).noCnt := by
      rw [List.getD_eq_getElem?_getD, List.getD_eq_getElem?_getD]
      cases ha : sts[i]? <;> cases hb : sts'[i]? <;> rw [ha, hb] at h2 <;> simp at h2 ⊢
      exact h2
    dsimp only
    cases ha : defs[i]? with
    | none =>
      cases hb : defs'[i]? with
      | none => rfl
      | some b => rw [ha, hb] at h1; cases h1
    | some a =>
      cases hb : defs'[i]? with
      | none => rw [ha, hb] at h1; cases h1
      | some b =>
        rw [ha, hb] at h1
        simp only [Option.map_some, Option.some.injEq] at h1
        simp only [Option.map_some, VArg.view, h1, h3]

theorem endCheck_view {defs defs' : List ArgDef} {sts sts' : List ArgSt}
    (hd : defs.map ArgDef.noCard = defs'.map ArgDef.noCard) (hs : sts.map ArgSt.noCnt = sts'.map ArgSt.noCnt)
    (g : GDef) (st : GSt) : g.endCheck defs sts st = g.endCheck defs' sts' st := by
  have hv := valueHandlers_view hd hs g.keys
  unfold GDef.endCheck
  cases g.kind with
  | allOf => rfl
  | anyOf => rfl
  | oneOf => rfl
  | differ =>
    simp only
    rw [← differOuter_view, ← differOuter_view (valueHandlers defs' sts' g.keys), hv]
  | disjoint =>
    simp only
    rw [← disjointCheck_view, ← disjointCheck_view (valueHandlers defs' sts' g.keys), hv]

theorem noCard_noCard (d : ArgDef) : d.noCard.noCard = d.noCard := rfl

theorem Relaxed.noCard {cfg cfgH : Cfg} {O : Nat → Prop} (R : Relaxed cfg cfgH O) :
    cfg.args.map ArgDef.noCard = cfgH.args.map ArgDef.noCard := by
  apply List.ext_getElem?
  intro i
  simp only [List.getElem?_map]
  by_cases hO : O i
  · rw [R.relaxed i hO]
    cases cfg.args[i]? <;> rfl
  · rw [R.same i hO]

/-- **The final checks.**  If the command-line run passes the final checks, so does the run with
    sources, provided every argument a source touched has a cardinality without end condition (or is
    one of the arguments whose cardinality was dropped on the command-line side). -/
theorem endChecks_sim {cfg cfgH : Cfg} {O S : Nat → Prop} (R : Relaxed cfg cfgH O) {g h h' : HState}
    (hE : Eqv g h) (hC : CntRel cfg O S [] g h)
    (hS : ∀ i d, S i → ¬ O i → cfg.args[i]? = some d → d.card.NoEnd)
    (e : endChecks cfgH h = .ok h') : ∃ g', endChecks cfg g = .ok g' ∧ Eqv g' h' := by
  obtain ⟨c1, c2, c3, hh⟩ := endChecks_ok e
  have k1 : checkMandatoryCardinality cfg.args g.args = .ok () := by
    apply checkMandatoryCardinality_progress
    intro i d st hd hst
    have hx := congrArg (fun l => l[i]?) hE.args
    simp only [List.getElem?_map, hst, Option.map_some] at hx
    cases hsh : h.args[i]? with
    | none => rw [hsh] at hx; cases hx
    | some stH =>
      rw [hsh] at hx
      simp only [Option.map_some, Option.some.injEq] at hx
      have hcg : cntOf g i = st.cnt := by unfold cntOf; rw [getD_of_getElem? hst]
      have hch : cntOf h i = stH.cnt := by unfold cntOf; rw [getD_of_getElem? hsh]
      have hv : ∀ k, st.hasValue k = stH.hasValue k := by
        intro k; rw [← hasValue_noCnt, hx, hasValue_noCnt]
      by_cases hO : O i
      · have hr := R.relaxed i hO
        rw [hd] at hr
        obtain ⟨m1, m2⟩ := checkMandatoryCardinality_ok _ _ c1 i d.noCard stH hr hsh
        obtain ⟨_, n, hn⟩ := R.scalar i d hO hd
        refine ⟨by rw [hv]; exact m1, ?_⟩
        rw [hn]; rfl
      · have hr := R.same i hO
        rw [hd] at hr
        obtain ⟨m1, m2⟩ := checkMandatoryCardinality_ok _ _ c1 i d stH hr hsh
        refine ⟨by rw [hv]; exact m1, ?_⟩
        by_cases hSi : S i
        · exact noEnd_check (hS i d hSi hO hd) _
        · have := hC.eq i hO hSi
          rw [hcg, hch] at this
          rw [this]; exact m2
  have k3 : checkGlobals cfg.args g.args cfg.globals g.globals = .ok () := by
    apply checkGlobals_progress
    intro n gd st hg hst
    rw [endCheck_view R.noCard hE.args]
    exact checkGlobals_get _ _ _ _ c3 n gd st (by rw [R.globals]; exact hg) (by rw [← hE.globals]; exact hst)
  refine ⟨{ g with lastArg := none }, ?_, ?_⟩
  · unfold endChecks
    simp only [k1, Res.bind_ok]
    rw [hE.pending, c2]
    simp only [Res.bind_ok, k3]
    rfl
  · subst hh
    exact ⟨hE.args, hE.pending, hE.globals, rfl, hE.inverted, hE.uses⟩

/-! ### the whole evaluation -/

/-- the evaluation with sources in abstract form (see `evalArguments_sources`) -/
def evalUsesSrc (cfg : Cfg) (h : HState) (usS usA : List Use) : Res HState :=
  applyUsesSrc cfg h usS >>= fun h1 => applyUses cfg h1 usA >>= fun h2 => endChecks cfg h2

/-- the arguments the sources use -/
def UsedBy (usS : List Use) (i : Nat) : Prop := ∃ u ∈ usS, u.arg = i

/-- **Simulation, whole evaluation.**  Let the abstract command line `usS ++ usA`, all of it given
    on the command line, be accepted under `cfgH` — the configuration `cfg` without the cardinality
    `max n` of the (non-list) arguments in `O`.  Then the evaluation under `cfg` in which `usS` comes
    from the sources and `usA` from argv is accepted and ends in the same state up to the counters,
    provided (1) no argument in `O` is used more than `n` times *on argv*, and (2) every other
    argument the sources use has a cardinality without end condition. -/
theorem evalUsesSrc_sim {cfg cfgH : Cfg} {O : Nat → Prop} (R : Relaxed cfg cfgH O) {h0 hA : HState}
    (h0f : h0.fromSrc = false) {usS usA : List Use}
    (e : evalUses cfgH h0 (usS ++ usA) = .ok hA)
    (hb : ∀ i d n, O i → cfg.args[i]? = some d → d.card = .max n → n = -1 ∨ cntOf h0 i + (usesOf i usA : Int) ≤ n)
    (hS : ∀ i d, UsedBy usS i → ¬ O i → cfg.args[i]? = some d → d.card.NoEnd) :
    ∃ hf, evalUsesSrc cfg h0 usS usA = .ok hf ∧ Eqv hf hA := by
  obtain ⟨hX, ea, ee⟩ := evalUses_ok e
  rw [applyUses_append] at ea
  simp only [bind_eq_ok] at ea
  obtain ⟨hM, e1, e2⟩ := ea
  have E0 : Eqv { h0 with fromSrc := true } h0 := ⟨rfl, rfl, rfl, rfl, rfl, rfl⟩
  have C0 : CntRel cfg O (UsedBy usS) (if ({ h0 with fromSrc := true } : HState).fromSrc then usA else usS ++ usA)
      { h0 with fromSrc := true } h0 :=
    ⟨fun i _ => Int.le_refl _, fun i _ _ => rfl, fun i d n hO hd hn => hb i d n hO hd hn⟩
  obtain ⟨g1, eg1, E1, C1, f1, fh1⟩ := sim_run R usS usA { h0 with fromSrc := true } h0 hM E0 C0 h0f
    (fun _ u hu => ⟨u, hu, rfl⟩) e1
  have E1' : Eqv { g1 with fromSrc := false } hM := ⟨E1.args, E1.pending, E1.globals, E1.lastArg, E1.inverted, E1.uses⟩
  have C1' : CntRel cfg O (UsedBy usS)
      (if ({ g1 with fromSrc := false } : HState).fromSrc then [] else usA ++ []) { g1 with fromSrc := false } hM := by
    simp only [Bool.false_eq_true, if_false, List.append_nil]
    exact ⟨C1.le, C1.eq, C1.budget⟩
  obtain ⟨g2, eg2, E2, C2, _, _⟩ := sim_run R usA [] { g1 with fromSrc := false } hM hX E1' C1' fh1
    (fun c => by cases c) e2
  obtain ⟨gf, egf, Ef⟩ := endChecks_sim R E2 C2 hS ee
  refine ⟨gf, ?_, Ef⟩
  unfold evalUsesSrc applyUsesSrc
  simp only [eg1, Res.bind_ok, Res.pure_eq, eg2, egf]

theorem relaxed_refl (cfg : Cfg) : Relaxed cfg cfg (fun _ => False) :=
  ⟨rfl, fun _ _ => rfl, fun _ c => absurd c id, fun _ _ c => absurd c id⟩

/-- the configuration without the cardinality object of the arguments selected by `O` -/
def Cfg.relax (cfg : Cfg) (O : Nat → Bool) : Cfg :=
  { cfg with args := cfg.args.zipIdx.map (fun p => if O p.2 then p.1.noCard else p.1) }

theorem relax_getElem? (cfg : Cfg) (O : Nat → Bool) (i : Nat) :
    (cfg.relax O).args[i]? = (cfg.args[i]?).map (fun d => if O i then d.noCard else d) := by
  unfold Cfg.relax
  simp only [List.getElem?_map, List.getElem?_zipIdx, Option.map_map]
  cases cfg.args[i]? <;> simp

theorem relaxed_relax (cfg : Cfg) (O : Nat → Bool)
    (hsc : ∀ i d, O i = true → cfg.args[i]? = some d → d.kind ≠ .vecInt ∧ ∃ n, d.card = .max n) :
    Relaxed cfg (cfg.relax O) (fun i => O i = true) := by
  refine ⟨rfl, ?_, ?_, hsc⟩
  · intro i hO
    rw [relax_getElem?]
    have : O i = false := by cases h : O i <;> simp_all
    cases cfg.args[i]? <;> simp [this]
  · intro i hO
    rw [relax_getElem?]
    cases cfg.args[i]? <;> simp [hO]

/-- equal up to the counters ⇒ equal destinations -/
theorem Eqv.dests {g h : HState} (e : Eqv g h) : g.args.map (·.dest) = h.args.map (·.dest) := by
  have := congrArg (List.map (·.dest)) e.args
  simpa [List.map_map, Function.comp_def, ArgSt.noCnt] using this

end CelmaVerif.ProgArgs
