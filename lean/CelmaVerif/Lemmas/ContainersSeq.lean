import CelmaVerif.Lemmas.SortDedup
import CelmaVerif.Lemmas.ContainersTok
/-
  Sequence / set / adapter destinations: the invariant that links the content reached by the C++ control flow
  (`elems`, `assignP`, `runP`) to the closed form `finalSpec`.
-/
namespace CelmaVerif.Containers

section seq
variable {α : Type} [DecidableEq α] (E : Elem α) (k : SeqKind) (o : Opts)

/-- the option set could be configured (`configure k o = ok`) -/
def Valid : Prop := (o.sort = true → k.sortable = true) ∧ (o.unique = true → k.hasIterators = true)

theorem valid_of_configure (h : configure k o = .ok ()) : Valid k o := by
  unfold configure at h
  constructor
  · intro hs
    cases hk : k.sortable
    · simp [hs, hk] at h
    · rfl
  · intro hu
    cases hk : k.hasIterators
    · cases hs : o.sort <;> cases hk2 : k.sortable <;> simp [hu, hk, hs, hk2] at h
    · rfl

/-- all tokens of a sequence of uses, in order -/
def allTokens (sep : Char) (uses : List (List Char)) : List (List Char) := (uses.map (tokens sep)).flatten

/-- the values that are stored out of `done` -/
def keepOf (base done : List α) : List α := if o.unique || k.isSet then dedupInto base done else done

/-- the number of elements in the destination (= the position the next stored value gets, `mDestVar.size()`)
    when it started as `base` and the values `done` have been given since -/
def posOf (base done : List α) : Nat := base.length + (keepOf k o base done).length

/-- the value a token stands for when the destination holds `p` elements: general format, then (vector only)
    the formatters of position `p`, then `lexical_cast` -/
def valOf (p : Nat) (t : List Char) : Option α := E.conv (fmtSeq k o p t)

/-- the token passes every check (on the text as given) and converts after formatting for position `p` -/
def Accepts (p : Nat) (t : List Char) : Prop := runChecks o.checks t = none ∧ (valOf E k o p t).isSome = true

/-- the values of the tokens `ts`, the destination having started as `base` and received `done` before them:
    every token is formatted for the position it would be stored at -/
def vals (base done : List α) : List (List Char) → List α
  | [] => []
  | t :: ts => match valOf E k o (posOf k o base done) t with
    | none => vals base done ts
    | some v => v :: vals base (done ++ [v]) ts

/-- every token is acceptable at the position at which it arrives -/
def AccAll (base done : List α) : List (List Char) → Prop
  | [] => True
  | t :: ts => runChecks o.checks t = none ∧
      ∃ v, valOf E k o (posOf k o base done) t = some v ∧ AccAll base (done ++ [v]) ts

/-- one accepted, not refused value -/
def stepV (c : List α) (v : α) : List α :=
  if (o.unique || k.isSet) && decide (v ∈ c) then c else addValue E k v c

/-- no value is refused as a duplicate (only matters with `setUniqueData( true)`) -/
def DupFree (base all : List α) : Prop := o.unique = true → o.dupErr = true → all.Nodup ∧ ∀ v ∈ all, v ∉ base

structure Inv (base c done : List α) : Prop where
  perm : c.Perm (base ++ keepOf k o base done)
  exact : o.sort = false → k.ordered = false →
    c = if k.prepend then (keepOf k o base done).reverse ++ base else base ++ keepOf k o base done
  sorted : k.ordered = true → Sorted E.le c

variable {E k o}

theorem addValue_perm (v : α) (c : List α) (h : k.isSet = true → v ∉ c) : (addValue E k v c).Perm (v :: c) := by
  have happ : (c ++ [v]).Perm (v :: c) := List.perm_append_comm
  cases k <;> simp only [addValue]
  all_goals first
    | exact happ
    | exact List.Perm.refl _
    | exact insertSorted_perm v c
    | (rw [if_neg (h rfl)]; exact insertSorted_perm v c)

theorem addValue_sorted (hl : LawfulLe E.le) (v : α) {c : List α} (hk : k.ordered = true) (hs : Sorted E.le c) :
    Sorted E.le (addValue E k v c) := by
  cases k <;> simp [SeqKind.ordered] at hk <;> simp only [addValue]
  · split
    · exact hs
    · exact insertSorted_sorted hl v hs
  · exact insertSorted_sorted hl v hs
  · exact insertSorted_sorted hl v hs

theorem addValue_exact (v : α) (c : List α) (hk : k.ordered = false) :
    addValue E k v c = if k.prepend then v :: c else c ++ [v] := by
  cases k <;> simp [SeqKind.ordered] at hk <;> simp [addValue, SeqKind.prepend]

theorem addValue_set_mem (v : α) (c : List α) (hk : k.isSet = true) (hv : v ∈ c) : addValue E k v c = c := by
  cases k <;> simp [SeqKind.isSet] at hk
  simp [addValue, hv]

theorem storeValue_ok (hv : Valid k o) (c : List α) (v : α)
    (hd : ¬ (o.unique = true ∧ o.dupErr = true ∧ v ∈ c)) : storeValue E k o c v = .ok (stepV E k o c v) := by
  unfold storeValue stepV
  cases hu : o.unique
  · simp only [Bool.false_eq_true, if_false, Bool.false_or]
    by_cases hm : v ∈ c
    · cases hs : k.isSet
      · simp
      · simp [hm, addValue_set_mem v c hs hm]
    · simp [hm]
  · simp only [if_true, Bool.true_or, Bool.true_and]
    unfold containsValue
    rw [if_pos (hv.2 hu)]
    by_cases hm : v ∈ c
    · have hde : o.dupErr = false := by
        cases h : o.dupErr
        · rfl
        · exact absurd ⟨hu, h, hm⟩ hd
      simp [hm, hde]
    · simp [hm]

theorem storeValue_dup (hv : Valid k o) (c : List α) (v : α) (hu : o.unique = true) (he : o.dupErr = true)
    (hm : v ∈ c) : storeValue E k o c v = .throw .runtime_error := by
  unfold storeValue containsValue
  rw [if_pos hu, if_pos (hv.2 hu)]
  simp [hm, he]

theorem keepOf_snoc_old (base done : List α) (v : α) (h : (o.unique || k.isSet) = true) (hm : v ∈ base ∨ v ∈ done) :
    keepOf k o base (done ++ [v]) = keepOf k o base done := by
  unfold keepOf
  rw [if_pos h, if_pos h, dedupInto_snoc, if_pos hm, List.append_nil]

theorem keepOf_snoc_new (base done : List α) (v : α) (h : (o.unique || k.isSet) = true → ¬ (v ∈ base ∨ v ∈ done)) :
    keepOf k o base (done ++ [v]) = keepOf k o base done ++ [v] := by
  unfold keepOf
  cases hb : (o.unique || k.isSet)
  · simp
  · simp only [if_true]
    rw [dedupInto_snoc, if_neg (h hb)]

theorem mem_of_inv {base c done : List α} (hi : Inv E k o base c done) (h : (o.unique || k.isSet) = true) (v : α) :
    v ∈ c ↔ v ∈ base ∨ v ∈ done := by
  rw [hi.perm.mem_iff]
  unfold keepOf
  rw [if_pos h]
  exact mem_append_dedupInto

theorem stepV_inv (hl : LawfulLe E.le) {base c done : List α} (hi : Inv E k o base c done) (v : α) :
    Inv E k o base (stepV E k o c v) (done ++ [v]) := by
  unfold stepV
  by_cases hcond : ((o.unique || k.isSet) && decide (v ∈ c)) = true
  · rw [if_pos hcond]
    simp only [Bool.and_eq_true, decide_eq_true_eq] at hcond
    have hm := (mem_of_inv hi hcond.1 v).mp hcond.2
    have hk := keepOf_snoc_old (k := k) (o := o) base done v hcond.1 hm
    exact ⟨hk ▸ hi.perm, fun h1 h2 => hk ▸ hi.exact h1 h2, hi.sorted⟩
  · rw [if_neg hcond]
    have hnew : (o.unique || k.isSet) = true → ¬ (v ∈ base ∨ v ∈ done) := by
      intro hb hm
      apply hcond
      simp only [Bool.and_eq_true, decide_eq_true_eq]
      exact ⟨hb, (mem_of_inv hi hb v).mpr hm⟩
    have hk := keepOf_snoc_new (k := k) (o := o) base done v hnew
    have hset : k.isSet = true → v ∉ c := by
      intro hs hm
      apply hcond
      simp only [Bool.and_eq_true, decide_eq_true_eq]
      exact ⟨by simp [hs], hm⟩
    refine ⟨?_, ?_, ?_⟩
    · rw [hk]
      refine (addValue_perm v c hset).trans ?_
      refine (List.Perm.cons v hi.perm).trans ?_
      rw [← List.append_assoc]
      exact List.perm_append_comm (l₁ := [v])
    · intro h1 h2
      rw [hk, addValue_exact v c h2, hi.exact h1 h2]
      cases k.prepend <;> simp
    · intro h3
      exact addValue_sorted hl v h3 (hi.sorted h3)

theorem vals_cons_some {base done : List α} {t : List Char} {v : α} (ts : List (List Char))
    (h : valOf E k o (posOf k o base done) t = some v) :
    vals E k o base done (t :: ts) = v :: vals E k o base (done ++ [v]) ts := by
  rw [vals, h]

theorem vals_append (base : List α) : ∀ (a b : List (List Char)) (done : List α),
    vals E k o base done (a ++ b) = vals E k o base done a ++ vals E k o base (done ++ vals E k o base done a) b
  | [], b, done => by simp [vals]
  | t :: a, b, done => by
    rw [List.cons_append, vals, vals]
    cases h : valOf E k o (posOf k o base done) t with
    | none => exact vals_append base a b done
    | some v =>
      simp only
      rw [vals_append base a b (done ++ [v])]
      simp [List.append_assoc]

theorem accAll_append (base : List α) : ∀ (a b : List (List Char)) (done : List α),
    AccAll E k o base done (a ++ b) ↔
      AccAll E k o base done a ∧ AccAll E k o base (done ++ vals E k o base done a) b
  | [], b, done => by simp [AccAll, vals]
  | t :: a, b, done => by
    rw [List.cons_append, AccAll, AccAll]
    constructor
    · rintro ⟨hc, v, hv, hr⟩
      have := (accAll_append base a b (done ++ [v])).mp hr
      rw [vals_cons_some a hv]
      exact ⟨⟨hc, v, hv, this.1⟩, by simpa [List.append_assoc] using this.2⟩
    · rintro ⟨⟨hc, v, hv, hr⟩, h2⟩
      rw [vals_cons_some a hv] at h2
      exact ⟨hc, v, hv, (accAll_append base a b (done ++ [v])).mpr ⟨hr, by simpa [List.append_assoc] using h2⟩⟩

/-- the invariant fixes the number of elements in the destination -/
theorem length_of_inv {base c done : List α} (hi : Inv E k o base c done) : c.length = posOf k o base done := by
  rw [hi.perm.length_eq, List.length_append]
  rfl

theorem elems_inv (hl : LawfulLe E.le) (hv : Valid k o) (base : List α) :
    ∀ (ts : List (List Char)) (c done : List α), Inv E k o base c done → AccAll E k o base done ts →
      DupFree o base (done ++ vals E k o base done ts) →
      ∃ c', elems E k o c ts = (c', none) ∧ Inv E k o base c' (done ++ vals E k o base done ts)
  | [], c, done, hi, _, _ => ⟨c, rfl, by simpa [vals] using hi⟩
  | t :: ts, c, done, hi, hacc, hdf => by
    obtain ⟨hchk, v, hvt, hrest⟩ := hacc
    have hvals := vals_cons_some ts hvt
    have hnd : ¬ (o.unique = true ∧ o.dupErr = true ∧ v ∈ c) := by
      rintro ⟨hu, he, hm⟩
      have hd := hdf hu he
      rw [hvals] at hd
      rcases (mem_of_inv hi (by simp [hu]) v).mp hm with hb | hdn
      · exact hd.2 v (by simp) hb
      · have := (List.nodup_append.mp hd.1).2.2 v hdn v List.mem_cons_self
        exact this rfl
    have hstep : elemStep E k o c t = .ok (stepV E k o c v) := by
      unfold elemStep
      rw [hchk]
      simp only
      unfold valOf at hvt
      rw [length_of_inv hi, hvt]
      exact storeValue_ok hv c v hnd
    have hi' := stepV_inv hl hi v
    have hassoc : done ++ vals E k o base done (t :: ts) = (done ++ [v]) ++ vals E k o base (done ++ [v]) ts := by
      rw [hvals]; simp
    obtain ⟨c', hc', hinv'⟩ := elems_inv hl hv base ts (stepV E k o c v) (done ++ [v]) hi' hrest (hassoc ▸ hdf)
    refine ⟨c', ?_, hassoc ▸ hinv'⟩
    rw [elems, hstep]
    exact hc'

/-- the content an `assign` call starts from -/
def startContent (s : SeqState α) : List α := if s.clearPending then [] else s.content

theorem assignP_inv (hl : LawfulLe E.le) (hv : Valid k o) (base : List α) (s : SeqState α) (value : List Char)
    (done : List α) (hi : Inv E k o base (startContent s) done)
    (hacc : AccAll E k o base done (tokens o.sep value))
    (hdf : DupFree o base (done ++ vals E k o base done (tokens o.sep value))) :
    ∃ c', assignP E k o s value = (⟨c', false⟩, none) ∧
      Inv E k o base c' (done ++ vals E k o base done (tokens o.sep value)) ∧ (o.sort = true → Sorted E.le c') := by
  obtain ⟨c1, hc1, hinv⟩ := elems_inv hl hv base _ _ done hi hacc hdf
  unfold startContent at hc1
  cases hs : o.sort
  · refine ⟨c1, ?_, hinv, by simp⟩
    unfold assignP
    simp only [hc1, hs, Bool.false_eq_true, if_false]
  · refine ⟨isort E.le c1, ?_, ?_, fun _ => isort_sorted hl c1⟩
    · unfold assignP sortContent
      simp only [hc1, hs, if_true, hv.1 hs]
    · refine ⟨(isort_perm c1).trans hinv.perm, ?_, fun _ => isort_sorted hl c1⟩
      intro h; rw [hs] at h; cases h

theorem runP_inv (hl : LawfulLe E.le) (hv : Valid k o) (base : List α) :
    ∀ (uses : List (List Char)) (s : SeqState α) (done : List α), Inv E k o base (startContent s) done →
      AccAll E k o base done (allTokens o.sep uses) →
      DupFree o base (done ++ vals E k o base done (allTokens o.sep uses)) → uses ≠ [] →
      ∃ c', runP E k o s uses = (⟨c', false⟩, none) ∧
        Inv E k o base c' (done ++ vals E k o base done (allTokens o.sep uses)) ∧ (o.sort = true → Sorted E.le c')
  | [], _, _, _, _, _, hne => absurd rfl hne
  | u :: us, s, done, hi, hacc, hdf, _ => by
    have htok : allTokens o.sep (u :: us) = tokens o.sep u ++ allTokens o.sep us := by simp [allTokens]
    have hvals : vals E k o base done (allTokens o.sep (u :: us)) = vals E k o base done (tokens o.sep u) ++
        vals E k o base (done ++ vals E k o base done (tokens o.sep u)) (allTokens o.sep us) := by
      rw [htok, vals_append]
    rw [htok, accAll_append] at hacc
    have hdf1 : DupFree o base (done ++ vals E k o base done (tokens o.sep u)) := by
      intro hu he
      have hd := hdf hu he
      rw [hvals, ← List.append_assoc] at hd
      exact ⟨(List.nodup_append.mp hd.1).1, fun v hm => hd.2 v (List.mem_append_left _ hm)⟩
    obtain ⟨c1, hc1, hinv1, hsort1⟩ := assignP_inv hl hv base s u done hi hacc.1 hdf1
    rw [runP, hc1]
    simp only
    cases us with
    | nil =>
      refine ⟨c1, rfl, ?_, hsort1⟩
      rw [hvals]
      simpa [allTokens, vals] using hinv1
    | cons u2 us2 =>
      have hstart : startContent (⟨c1, false⟩ : SeqState α) = c1 := by simp [startContent]
      obtain ⟨c2, hc2, hinv2, hsort2⟩ := runP_inv hl hv base (u2 :: us2) ⟨c1, false⟩
        (done ++ vals E k o base done (tokens o.sep u)) (hstart ▸ hinv1) hacc.2
        (by rw [List.append_assoc, ← hvals]; exact hdf) (by simp)
      refine ⟨c2, hc2, ?_, hsort2⟩
      rw [hvals, ← List.append_assoc]
      exact hinv2

/-- the initial content of a self-ordering container is ascending -/
def WF (init : List α) : Prop := k.ordered = true → Sorted E.le init

theorem finalSpec_of_inv (hl : LawfulLe E.le) (init c vs : List α)
    (hi : Inv E k o (if o.clear then [] else init) c vs) (hs : o.sort = true → Sorted E.le c) :
    c = finalSpec E k o init vs := by
  unfold finalSpec
  simp only
  have hperm := hi.perm
  unfold keepOf at hperm
  cases hso : o.sort
  · cases hko : k.ordered
    · simp only [Bool.or_false, Bool.false_eq_true, if_false]
      have := hi.exact hso hko
      unfold keepOf at this
      exact this
    · simp only [Bool.or_true, if_true]
      exact eq_isort_of_sorted_perm hl (hi.sorted hko) hperm
  · simp only [Bool.true_or, if_true]
    exact eq_isort_of_sorted_perm hl (hs hso) hperm

/-- the main refinement: any non-empty sequence of uses whose tokens are all accepted ends in `finalSpec` -/
theorem runP_finalSpec (hl : LawfulLe E.le) (hv : Valid k o) (init : List α) (hwf : WF (E := E) (k := k) init)
    (uses : List (List Char)) (hne : uses ≠ [])
    (hacc : AccAll E k o (if o.clear then [] else init) [] (allTokens o.sep uses))
    (hdf : DupFree o (if o.clear then [] else init) (vals E k o (if o.clear then [] else init) [] (allTokens o.sep uses))) :
    runP E k o (SeqState.start init o) uses
      = (⟨finalSpec E k o init (vals E k o (if o.clear then [] else init) [] (allTokens o.sep uses)), false⟩, none) := by
  have hstart : startContent (SeqState.start init o) = if o.clear then [] else init := rfl
  have hi0 : Inv E k o (if o.clear then [] else init) (startContent (SeqState.start init o)) [] := by
    rw [hstart]
    refine ⟨by simp [keepOf, dedupInto], ?_, ?_⟩
    · intro _ _; cases k.prepend <;> simp [keepOf, dedupInto]
    · intro hk
      cases o.clear
      · exact hwf hk
      · simp [Sorted]
  obtain ⟨c', hc', hinv, hsort⟩ := runP_inv hl hv _ uses (SeqState.start init o) [] hi0 hacc
    (by simpa using hdf) hne
  rw [hc']
  have := finalSpec_of_inv hl init c' _ (by simpa using hinv) hsort
  rw [this]

end seq

end CelmaVerif.Containers
