import CelmaVerif.Lemmas.LogFormat
/-
  C16, scoped attributes: specification-side bookkeeping of a history (`addsOf`, `endedOf`, `liveOf`,
  `globalsOf`, `Nested`), the invariant of the global container (`Scopes.WF`) and the lemmas behind
  the `C16_scoped*` / `C16_scope_*` theorems.  Model of the repaired code (entries carry ids).
-/
namespace CelmaVerif.LogFormat

/-! ### what a history does, told without the container -/

/-- `removeAttribute( name)`: the one event whose effect depends on the names in the container (removal by id -
    a scope end, `removeAttributeEntry( id)` - does not) -/
def Ev.isRemove : Ev → Bool
  | .remove _ => true
  | _ => false

/-- the entries a history adds (scoped and permanent), in order; the first one gets the id `next` -/
def addsOf (next : Nat) : List Ev → List GEntry
  | [] => []
  | .push n v :: es => ⟨next, n, v⟩ :: addsOf (next + 1) es
  | .global n v :: es => ⟨next, n, v⟩ :: addsOf (next + 1) es
  | .pop :: es => addsOf next es
  | .remove _ :: es => addsOf next es
  | .drop _ :: es => addsOf next es
  | .removeId _ :: es => addsOf next es

/-- the ids of the scopes that end during a history (`live`: ids of the scopes open before it, newest
    first): a `pop` ends the newest open scope, `drop i` the open scope number `i`; and the ids taken away
    through `removeAttributeEntry( k)` (by the application or by the destructor of a copy of a scope object),
    as far as `k` is an id that was handed out by then (`k < next`; any other `k` names no entry) -/
def endedOf (next : Nat) (live : List Nat) : List Ev → List Nat
  | [] => []
  | .push _ _ :: es => endedOf (next + 1) (next :: live) es
  | .global _ _ :: es => endedOf (next + 1) live es
  | .remove _ :: es => endedOf next live es
  | .removeId k :: es => if k < next then k :: endedOf next live es else endedOf next live es
  | .pop :: es =>
    match live with
    | [] => []
    | k :: rest => k :: endedOf next rest es
  | .drop i :: es =>
    match live[i]? with
    | none => []
    | some k => k :: endedOf next (live.eraseIdx i) es

/-- the ids of the scopes open after a history, newest first -/
def liveOf (next : Nat) (live : List Nat) : List Ev → List Nat
  | [] => live
  | .push _ _ :: es => liveOf (next + 1) (next :: live) es
  | .global _ _ :: es => liveOf (next + 1) live es
  | .remove _ :: es => liveOf next live es
  | .removeId _ :: es => liveOf next live es
  | .pop :: es =>
    match live with
    | [] => []
    | _ :: rest => liveOf next rest es
  | .drop i :: es =>
    match live[i]? with
    | none => []
    | some _ => liveOf next (live.eraseIdx i) es

/-- the permanent additions made by a history -/
def globalsOf : List Ev → Attrs
  | [] => []
  | .global n v :: es => (n, v) :: globalsOf es
  | _ :: es => globalsOf es

/-- Well-bracketed histories: scopes properly nested and sequenced to any depth, permanent additions
    anywhere — also with the name of a scope that is open at that moment. -/
inductive Nested : List Ev → Prop where
  | nil : Nested []
  | global (n v : Text) : Nested [.global n v]
  | scope (n v : Text) (es : List Ev) (h : Nested es) : Nested (.push n v :: es ++ [.pop])
  | cat (a b : List Ev) (ha : Nested a) (hb : Nested b) : Nested (a ++ b)

theorem globalsOf_append (a b : List Ev) : globalsOf (a ++ b) = globalsOf a ++ globalsOf b := by
  induction a with
  | nil => rfl
  | cons e es ih => cases e <;> simp [globalsOf, ih]

theorem Scopes.run_append (s : Scopes) (a b : List Ev) :
    s.run (a ++ b) = match s.run a with | some s' => s'.run b | none => none := by
  induction a generalizing s with
  | nil => simp [Scopes.run]
  | cons e es ih =>
    simp only [List.cons_append, Scopes.run]
    cases s.step e with
    | none => rfl
    | some s' => exact ih s'

/-! ### the invariant of the global container -/

/-- ids are handed out once: every entry's id is below `mNextId`, no id occurs twice, and every live
    scope object holds an id that was handed out.  True of the initial state and kept by every event. -/
structure Scopes.WF (s : Scopes) : Prop where
  lt : ∀ e ∈ s.ents, e.id < s.next
  nodup : (s.ents.map (·.id)).Nodup
  live_lt : ∀ k ∈ s.live, k < s.next

theorem Scopes.WF_init : ({} : Scopes).WF := ⟨by simp, by simp, by simp⟩

theorem removeId_sublist (g : List GEntry) (k : Nat) : (removeId g k).Sublist g := List.eraseP_sublist

theorem removeName_sublist (g : List GEntry) (n : Text) : (removeName g n).Sublist g := by
  unfold removeName
  have h : (g.reverse.eraseP (fun e => decide (e.name = n))).Sublist g.reverse := List.eraseP_sublist
  have := List.reverse_sublist.mpr h
  simpa using this

/-- with ids that occur once, erasing "the first entry with id k" is erasing every entry with id k -/
theorem removeId_eq_filter (g : List GEntry) (k : Nat) (h : (g.map (·.id)).Nodup) :
    removeId g k = g.filter (fun e => e.id ≠ k) := by
  induction g with
  | nil => rfl
  | cons x xs ih =>
    have hx : x.id ∉ xs.map (·.id) := (List.nodup_cons.mp h).1
    have hxs := (List.nodup_cons.mp h).2
    unfold removeId at ih ⊢
    by_cases hk : x.id = k
    · have hall : ∀ e ∈ xs, e.id ≠ k := by
        intro e he hek
        exact hx (List.mem_map.mpr ⟨e, he, by rw [hek, hk]⟩)
      have hf : xs.filter (fun e => decide (e.id ≠ k)) = xs := by
        rw [List.filter_eq_self]
        intro e he; simpa using hall e he
      rw [List.eraseP_cons_of_pos (by simpa using hk), List.filter_cons_of_neg (by simp [hk]), hf]
    · rw [List.eraseP_cons_of_neg (by simpa using hk), List.filter_cons_of_pos (by simpa using hk), ih hxs]

theorem removeId_absent (g : List GEntry) (k : Nat) (h : ∀ e ∈ g, e.id ≠ k) : removeId g k = g := by
  unfold removeId
  rw [List.eraseP_of_forall_not]
  intro e he; simpa using h e he

/-- the scope's own entry is the first (and only) one with its id -/
theorem removeId_own (a g : List GEntry) (x : GEntry) (ha : ∀ e ∈ a, e.id ≠ x.id) :
    removeId (a ++ x :: g) x.id = a ++ g := by
  unfold removeId
  rw [List.eraseP_append_right]
  · simp
  · intro e he; simpa using ha e he

theorem Scopes.WF_step (s s' : Scopes) (e : Ev) (hs : s.WF) (h : s.step e = some s') : s'.WF := by
  have hsub : ∀ g : List GEntry, g.Sublist s.ents → (∀ x ∈ g, x.id < s.next) ∧ (g.map (·.id)).Nodup :=
    fun g hg => ⟨fun x hx => hs.lt x (hg.subset hx), hs.nodup.sublist (hg.map _)⟩
  have hadd : ∀ n v, (∀ x ∈ s.ents ++ [(⟨s.next, n, v⟩ : GEntry)], x.id < s.next + 1) ∧
      ((s.ents ++ [(⟨s.next, n, v⟩ : GEntry)]).map (·.id)).Nodup := by
    intro n v
    constructor
    · intro x hx
      rcases List.mem_append.mp hx with hx | hx
      · have := hs.lt x hx; omega
      · have : x = ⟨s.next, n, v⟩ := by simpa using hx
        rw [this]; exact Nat.lt_succ_self _
    · rw [List.map_append, List.nodup_append]
      refine ⟨hs.nodup, by simp, ?_⟩
      intro a ha b hb
      obtain ⟨x, hx, rfl⟩ := List.mem_map.mp ha
      have hb' : b = s.next := by simpa using hb
      have := hs.lt x hx
      omega
  cases e with
  | push n v =>
    simp only [Scopes.step, Option.some.injEq] at h
    subst h
    refine ⟨(hadd n v).1, (hadd n v).2, ?_⟩
    intro k hk
    rcases List.mem_cons.mp hk with hk | hk
    · rw [hk]; exact Nat.lt_succ_self _
    · have := hs.live_lt k hk; show k < s.next + 1; omega
  | global n v =>
    simp only [Scopes.step, Option.some.injEq] at h
    subst h
    refine ⟨(hadd n v).1, (hadd n v).2, ?_⟩
    intro k hk
    have := hs.live_lt k hk; show k < s.next + 1; omega
  | remove n =>
    simp only [Scopes.step, Option.some.injEq] at h
    subst h
    exact ⟨(hsub _ (removeName_sublist _ _)).1, (hsub _ (removeName_sublist _ _)).2, hs.live_lt⟩
  | removeId k =>
    simp only [Scopes.step, Option.some.injEq] at h
    subst h
    exact ⟨(hsub _ (removeId_sublist _ _)).1, (hsub _ (removeId_sublist _ _)).2, hs.live_lt⟩
  | pop =>
    cases hl : s.live with
    | nil => simp [Scopes.step, hl] at h
    | cons k rest =>
      simp only [Scopes.step, hl, Option.some.injEq] at h
      subst h
      refine ⟨(hsub _ (removeId_sublist _ _)).1, (hsub _ (removeId_sublist _ _)).2, ?_⟩
      intro j hj
      exact hs.live_lt j (by rw [hl]; exact List.mem_cons_of_mem _ hj)
  | drop i =>
    cases hl : s.live[i]? with
    | none => simp [Scopes.step, hl] at h
    | some k =>
      simp only [Scopes.step, hl, Option.some.injEq] at h
      subst h
      refine ⟨(hsub _ (removeId_sublist _ _)).1, (hsub _ (removeId_sublist _ _)).2, ?_⟩
      intro j hj
      exact hs.live_lt j ((List.eraseIdx_sublist _ _).subset hj)

theorem Scopes.WF_run (es : List Ev) : ∀ (s s' : Scopes), s.WF → s.run es = some s' → s'.WF := by
  induction es with
  | nil => intro s s' hs h; simp only [Scopes.run, Option.some.injEq] at h; subst h; exact hs
  | cons e es ih =>
    intro s s' hs h
    simp only [Scopes.run] at h
    cases h1 : s.step e with
    | none => rw [h1] at h; cases h
    | some s1 => rw [h1] at h; exact ih s1 s' (Scopes.WF_step s s1 e hs h1) h

/-! ### every point of every history -/

theorem addsOf_ge (es : List Ev) : ∀ next, ∀ e ∈ addsOf next es, next ≤ e.id := by
  induction es with
  | nil => intro next e he; simp [addsOf] at he
  | cons ev es ih =>
    intro next e he
    cases ev with
    | push n v =>
      simp only [addsOf, List.mem_cons] at he
      rcases he with he | he
      · rw [he]; exact Nat.le_refl _
      · have := ih (next + 1) e he; omega
    | global n v =>
      simp only [addsOf, List.mem_cons] at he
      rcases he with he | he
      · rw [he]; exact Nat.le_refl _
      · have := ih (next + 1) e he; omega
    | pop => exact ih next e he
    | remove n => exact ih next e he
    | drop i => exact ih next e he
    | removeId k => exact ih next e he

/-- ending the scope with id `k` in front of a history: one more id to filter out -/
theorem filter_end (ents adds : List GEntry) (k next : Nat) (E : List Nat)
    (hn : (ents.map (·.id)).Nodup) (hk : k < next) (ha : ∀ e ∈ adds, next ≤ e.id) :
    (removeId ents k ++ adds).filter (fun e => !E.contains e.id) =
      (ents ++ adds).filter (fun e => !(k :: E).contains e.id) := by
  rw [removeId_eq_filter ents k hn, List.filter_append, List.filter_append, List.filter_filter]
  congr 1
  · apply List.filter_congr
    intro e _
    by_cases h1 : e.id = k <;> by_cases h2 : e.id ∈ E <;> simp [h1, h2]
  · apply List.filter_congr
    intro e he
    have : e.id ≠ k := by have := ha e he; omega
    by_cases h2 : e.id ∈ E <;> simp [this, h2]

/-- Histories without `removeAttribute`: the container after the history is exactly what was there and
    what was added, minus the entries of the scopes that ended. -/
theorem Scopes.run_spec (es : List Ev) : ∀ (s s' : Scopes), s.WF → (∀ e ∈ es, e.isRemove = false) →
    s.run es = some s' →
    s'.ents = (s.ents ++ addsOf s.next es).filter (fun e => !(endedOf s.next s.live es).contains e.id) ∧
    s'.live = liveOf s.next s.live es := by
  induction es with
  | nil =>
    intro s s' _ _ h
    simp only [Scopes.run, Option.some.injEq] at h
    subst h
    have : s.ents.filter (fun _ => true) = s.ents := List.filter_eq_self.mpr (by simp)
    simp [addsOf, endedOf, liveOf, this]
  | cons ev es ih =>
    intro s s' hs hr h
    have hr' : ∀ e ∈ es, e.isRemove = false := fun e he => hr e (List.mem_cons_of_mem _ he)
    simp only [Scopes.run] at h
    cases h1 : s.step ev with
    | none => rw [h1] at h; cases h
    | some s1 =>
      rw [h1] at h
      have hw1 := Scopes.WF_step s s1 ev hs h1
      have hi := ih s1 s' hw1 hr' h
      cases ev with
      | push n v =>
        simp only [Scopes.step, Option.some.injEq] at h1
        subst h1
        simp only [List.append_assoc, List.singleton_append] at hi
        exact hi
      | global n v =>
        simp only [Scopes.step, Option.some.injEq] at h1
        subst h1
        simp only [List.append_assoc, List.singleton_append] at hi
        exact hi
      | remove n => have := hr (.remove n) (List.mem_cons_self ..); simp [Ev.isRemove] at this
      | removeId k =>
        simp only [Scopes.step, Option.some.injEq] at h1
        subst h1
        simp only [addsOf, endedOf, liveOf]
        by_cases hk : k < s.next
        · have hf := filter_end s.ents (addsOf s.next es) k s.next (endedOf s.next s.live es) hs.nodup hk
            (addsOf_ge es s.next)
          rw [if_pos hk, ← hf]
          exact hi
        · have habs : removeId s.ents k = s.ents :=
            removeId_absent _ _ (fun e he => by have := hs.lt e he; omega)
          rw [if_neg hk]
          rw [habs] at hi
          exact hi
      | pop =>
        cases hl : s.live with
        | nil => simp [Scopes.step, hl] at h1
        | cons k rest =>
          simp only [Scopes.step, hl, Option.some.injEq] at h1
          subst h1
          have hk : k < s.next := hs.live_lt k (by rw [hl]; exact List.mem_cons_self ..)
          have hf := filter_end s.ents (addsOf s.next es) k s.next (endedOf s.next rest es) hs.nodup hk
            (addsOf_ge es s.next)
          simp only [addsOf, endedOf, liveOf]
          rw [← hf]
          exact hi
      | drop i =>
        cases hl : s.live[i]? with
        | none => simp [Scopes.step, hl] at h1
        | some k =>
          simp only [Scopes.step, hl, Option.some.injEq] at h1
          subst h1
          have hk : k < s.next := hs.live_lt k (List.mem_of_getElem? hl)
          have hf := filter_end s.ents (addsOf s.next es) k s.next (endedOf s.next (s.live.eraseIdx i) es)
            hs.nodup hk (addsOf_ge es s.next)
          simp only [addsOf, endedOf, liveOf, hl]
          rw [← hf]
          exact hi

/-- Every history, `removeAttribute` included: no entry of a scope that ended is left, and nothing is
    there that was not there before or added by the history. -/
theorem Scopes.run_ended (es : List Ev) : ∀ (s s' : Scopes), s.WF → s.run es = some s' →
    (∀ i ∈ endedOf s.next s.live es, ∀ e ∈ s'.ents, e.id ≠ i) ∧
    s'.ents.Sublist (s.ents ++ addsOf s.next es) := by
  induction es with
  | nil =>
    intro s s' _ h
    simp only [Scopes.run, Option.some.injEq] at h
    subst h
    simp [addsOf, endedOf]
  | cons ev es ih =>
    intro s s' hs h
    simp only [Scopes.run] at h
    cases h1 : s.step ev with
    | none => rw [h1] at h; cases h
    | some s1 =>
      rw [h1] at h
      have hw1 := Scopes.WF_step s s1 ev hs h1
      have hi := ih s1 s' hw1 h
      have hend : ∀ k, k < s.next → s1.ents = removeId s.ents k → s1.next = s.next →
          (∀ e ∈ s'.ents, e.id ≠ k) ∧ s'.ents.Sublist (s.ents ++ addsOf s.next es) := by
        intro k hk he hn
        have hsub : s'.ents.Sublist (s.ents ++ addsOf s.next es) := by
          have := hi.2
          rw [he, hn] at this
          exact this.trans ((removeId_sublist _ _).append (List.Sublist.refl _))
        refine ⟨?_, hsub⟩
        intro e hes hek
        have hmem := hi.2.subset hes
        rw [he, hn] at hmem
        rcases List.mem_append.mp hmem with hm | hm
        · rw [removeId_eq_filter _ _ hs.nodup] at hm
          have := (List.mem_filter.mp hm).2
          simp [hek] at this
        · have := addsOf_ge es s.next e hm; omega
      cases ev with
      | push n v =>
        simp only [Scopes.step, Option.some.injEq] at h1
        subst h1
        simpa [addsOf, endedOf] using hi
      | global n v =>
        simp only [Scopes.step, Option.some.injEq] at h1
        subst h1
        simpa [addsOf, endedOf] using hi
      | remove n =>
        simp only [Scopes.step, Option.some.injEq] at h1
        subst h1
        refine ⟨by simpa [endedOf] using hi.1, ?_⟩
        simp only [addsOf]
        exact hi.2.trans ((removeName_sublist _ _).append (List.Sublist.refl _))
      | removeId k =>
        simp only [Scopes.step, Option.some.injEq] at h1
        subst h1
        simp only [addsOf, endedOf]
        refine ⟨?_, hi.2.trans ((removeId_sublist _ _).append (List.Sublist.refl _))⟩
        by_cases hk : k < s.next
        · rw [if_pos hk]
          have hh := hend k hk rfl rfl
          intro i hi'
          rcases List.mem_cons.mp hi' with hi' | hi'
          · rw [hi']; exact hh.1
          · exact hi.1 i hi'
        · rw [if_neg hk]; exact hi.1
      | pop =>
        cases hl : s.live with
        | nil => simp [Scopes.step, hl] at h1
        | cons k rest =>
          simp only [Scopes.step, hl, Option.some.injEq] at h1
          subst h1
          have hk : k < s.next := hs.live_lt k (by rw [hl]; exact List.mem_cons_self ..)
          have hh := hend k hk rfl rfl
          simp only [addsOf, endedOf]
          refine ⟨?_, hh.2⟩
          intro i hi'
          rcases List.mem_cons.mp hi' with hi' | hi'
          · rw [hi']; exact hh.1
          · exact hi.1 i hi'
      | drop j =>
        cases hl : s.live[j]? with
        | none => simp [Scopes.step, hl] at h1
        | some k =>
          simp only [Scopes.step, hl, Option.some.injEq] at h1
          subst h1
          have hk : k < s.next := hs.live_lt k (List.mem_of_getElem? hl)
          have hh := hend k hk rfl rfl
          simp only [addsOf, endedOf, hl]
          refine ⟨?_, hh.2⟩
          intro i hi'
          rcases List.mem_cons.mp hi' with hi' | hi'
          · rw [hi']; exact hh.1
          · exact hi.1 i hi'

/-! ### well-bracketed histories -/

theorem viewOf_append (a b : List GEntry) : viewOf (a ++ b) = viewOf a ++ viewOf b := by
  simp [viewOf]

theorem Scopes.run_nested (es : List Ev) (h : Nested es) :
    ∀ s : Scopes, (∀ e ∈ s.ents, e.id < s.next) →
      ∃ g n, s.run es = some { ents := s.ents ++ g, next := n, live := s.live } ∧ s.next ≤ n ∧
        viewOf g = globalsOf es ∧ ∀ e ∈ g, e.id < n := by
  induction h with
  | nil => intro s _; exact ⟨[], s.next, by simp [Scopes.run], Nat.le_refl _, rfl, by simp⟩
  | global n v =>
    intro s _
    exact ⟨[⟨s.next, n, v⟩], s.next + 1, by simp [Scopes.run, Scopes.step], Nat.le_succ _,
      by simp [viewOf, globalsOf], by simp⟩
  | scope n v es _ ih =>
    intro s hs
    have hs1 : ∀ e ∈ s.ents ++ [(⟨s.next, n, v⟩ : GEntry)], e.id < s.next + 1 := by
      intro e he
      rcases List.mem_append.mp he with he | he
      · have := hs e he; omega
      · have : e = ⟨s.next, n, v⟩ := by simpa using he
        rw [this]; exact Nat.lt_succ_self _
    obtain ⟨g, m, hrun, hm, hv, hg⟩ :=
      ih { ents := s.ents ++ [⟨s.next, n, v⟩], next := s.next + 1, live := s.next :: s.live } hs1
    refine ⟨g, m, ?_, by simp only at hm; omega, by simp [globalsOf, globalsOf_append, hv], hg⟩
    have h1 : s.run (.push n v :: es ++ [.pop]) =
        (({ ents := s.ents ++ [⟨s.next, n, v⟩], next := s.next + 1, live := s.next :: s.live } : Scopes).run
          (es ++ [.pop])) := by
      simp [Scopes.run, Scopes.step]
    rw [h1, Scopes.run_append, hrun]
    simp only [Scopes.run, Scopes.step]
    have := removeId_own s.ents g ⟨s.next, n, v⟩ (by intro e he; have := hs e he; simp; omega)
    simp only [List.append_assoc, List.singleton_append]
    rw [this]
  | cat a b _ _ iha ihb =>
    intro s hs
    obtain ⟨g1, n1, hr1, hn1, hv1, hg1⟩ := iha s hs
    have hs1 : ∀ e ∈ s.ents ++ g1, e.id < n1 := by
      intro e he
      rcases List.mem_append.mp he with he | he
      · have := hs e he; omega
      · exact hg1 e he
    obtain ⟨g2, n2, hr2, hn2, hv2, hg2⟩ := ihb { ents := s.ents ++ g1, next := n1, live := s.live } hs1
    refine ⟨g1 ++ g2, n2, ?_, by simp only at hn2; omega, by simp [viewOf_append, globalsOf_append, hv1, hv2], ?_⟩
    · rw [Scopes.run_append, hr1]
      simp only
      rw [hr2]; simp
    · intro e he
      rcases List.mem_append.mp he with he | he
      · have := hg1 e he; simp only at hn2; omega
      · exact hg2 e he

/-! ### `removeAttribute( name)` on the global container -/

theorem removeName_last (a g : List GEntry) (x : GEntry) (hg : ∀ e ∈ g, e.name ≠ x.name) :
    removeName (a ++ x :: g) x.name = a ++ g := by
  unfold removeName
  have hrev : (a ++ x :: g).reverse = g.reverse ++ x :: a.reverse := by simp
  rw [hrev, List.eraseP_append_right]
  · simp
  · intro b hb
    have := hg b (by simpa using hb)
    simpa using this

theorem removeName_absent (g : List GEntry) (n : Text) (h : ∀ e ∈ g, e.name ≠ n) : removeName g n = g := by
  unfold removeName
  rw [List.eraseP_of_forall_not]
  · simp
  · intro b hb
    have := h b (by simpa using hb)
    simpa using this

end CelmaVerif.LogFormat
