import CelmaVerif.Lemmas.FixedStringC11W1
import CelmaVerif.Lemmas.FixedStringC11W2
import CelmaVerif.Lemmas.FixedStringC11W3
import CelmaVerif.Lemmas.FixedStringC11W4
/-
  C11 for the whole operation language: every operation with in-domain arguments on a well-formed world does
  what the std::string specification says (dispatch to the per-operation theorems of FixedStringC11W1..W4).
-/
namespace CelmaVerif.FixedString
open CelmaVerif
variable {c cu : Cfg} {w : World}

theorem c11_step (hc : CfgOK c) (hw : WFW c cu w) (op : Op) (ha : ArgsOK c w op)
    (hd : inDomain (npos c) w op = true) : C11Holds c cu w op := by
  cases op with
  | addC ch => exact c11_addC hc hw ch
  | addF f => exact c11_addF hc hw f
  | addP a => exact c11_addP hc hw a hd
  | addS d => exact c11_addS hc hw d
  | appendCC n ch => exact c11_appendCC hc hw n ch
  | appendF f => exact c11_appendF hc hw f
  | appendFP f p => exact c11_appendFP hc hw f p hd
  | appendFPC f p n => exact c11_appendFPC hc hw f p n hd
  | appendItIt x y => exact c11_appendItIt hc hw x y hd
  | appendP a => exact c11_appendP hc hw a hd
  | appendPC a n => exact c11_appendPC hc hw a n hd
  | appendS d => exact c11_appendS hc hw d
  | appendSP d p => exact c11_appendSP hc hw d p hd
  | appendSPC d p n => exact c11_appendSPC hc hw d p n hd
  | assignF f => exact c11_assignF hc hw f
  | assignP a => exact c11_assignP hc hw a
  | assignS d => exact c11_assignS hc hw d
  | atI i => exact c11_atI hw i hd
  | back => exact c11_back hw
  | cStr => exact c11_cStr hw
  | cat i => exact c11_cat hw i hd
  | clear => exact c11_clear hw
  | cmpCCF p n f => exact c11_cmpCCF hw p n f hd
  | cmpCCFCC p n f p2 n2 => exact c11_cmpCCFCC hw p n f p2 n2 hd
  | cmpCCP p n a => exact c11_cmpCCP hw p n a ha hd
  | cmpCCPC p n a n2 => exact c11_cmpCCPC hw p n a n2 ha hd
  | cmpCCS p n d => exact c11_cmpCCS hw p n d hd
  | cmpCCSCC p n d p2 n2 => exact c11_cmpCCSCC hw p n d p2 n2 hd
  | cmpF f => exact c11_cmpF hw f
  | cmpP a => exact c11_cmpP hw a ha
  | cmpS d => exact c11_cmpS hw d
  | copy n p => exact c11_copy hw n p hd
  | copyC n => exact c11_copyC hw n
  | ctC ch => exact c11_ctC hw ch
  | ctF f => exact c11_ctF hw f hd
  | ctP a => exact c11_ctP hw a ha hd
  | ctS d => exact c11_ctS hw d hd
  | ctorDef => exact c11_ctorDef
  | ctorF f => exact c11_ctorF hc hw f
  | ctorMove => exact c11_ctorMove hw
  | ctorP a => exact c11_ctorP hc a
  | ctorS d => exact c11_ctorS hc d
  | data => exact c11_data hw
  | empty => exact c11_empty hw
  | eq f => exact c11_eq hw f
  | erase i n => exact c11_erase hc hw i n hd
  | erase0 => exact c11_erase0 hc hw
  | eraseI i => exact c11_eraseI hc hw i hd
  | eraseIt p => exact c11_eraseIt hc hw p hd
  | eraseItIt p q => exact c11_eraseItIt hc hw p q hd
  | ewC ch => exact c11_ewC hw ch
  | ewF f => exact c11_ewF hw f
  | ewP a => exact c11_ewP hw a ha
  | ewS d => exact c11_ewS hw d
  | front => exact c11_front hw
  | idx i => exact c11_idx hw i hd
  | insertICC i n ch => exact c11_insertICC hc hw i n ch hd
  | insertIF i f => exact c11_insertIF hc hw i f hd
  | insertIFIC i f j n => exact c11_insertIFIC hc hw i f j n hd
  | insertIP i a => exact c11_insertIP hc hw i a hd
  | insertIPC i a n => exact c11_insertIPC hc hw i a n hd
  | insertIS i d => exact c11_insertIS hc hw i d hd
  | insertISIC i d j n => exact c11_insertISIC hc hw i d j n hd
  | insertItC p ch => exact c11_insertItC hc hw p ch hd
  | insertItCC p n ch => exact c11_insertItCC hc hw p n ch hd
  | insertItIl p il => exact c11_insertItIl hc hw p il hd
  | itDeref k => exact c11_itDeref hc hw k hd
  | itDist => exact c11_itDist hc hw
  | itWalk rev p ms => simp [inDomain] at hd
  | itWalkDeref rev p ms => simp [inDomain] at hd
  | itWalkIdx rev p ms k => simp [inDomain] at hd
  | itRel rev r a b => simp [inDomain] at hd
  | iterCFwd => exact c11_iterCFwd hc hw
  | iterCRev => exact c11_iterCRev hc hw
  | iterFwd => exact c11_iterFwd hc hw
  | iterRev => exact c11_iterRev hc hw
  | length => exact c11_length hw
  | ne f => exact c11_ne hw f
  | popBack => exact c11_popBack hc hw hd
  | pushBack ch => exact c11_pushBack hc hw ch
  | repCCCC p n n2 ch => exact c11_repCCCC hc hw p n n2 ch hd
  | repCCF p n f => exact c11_repCCF hc hw p n f hd
  | repCCFC p n f p2 => exact c11_repCCFC hc hw p n f p2 hd
  | repCCFCC p n f p2 n2 => exact c11_repCCFCC hc hw p n f p2 n2 hd
  | repCCP p n a => exact c11_repCCP hc hw p n a hd
  | repCCPC p n a n2 => exact c11_repCCPC hc hw p n a n2 hd
  | repCCS p n d => exact c11_repCCS hc hw p n d hd
  | repCCSC p n d p2 => exact c11_repCCSC hc hw p n d p2 hd
  | repCCSCC p n d p2 n2 => exact c11_repCCSCC hc hw p n d p2 n2 hd
  | repItItCC f l n2 ch => exact c11_repItItCC hc hw f l n2 ch hd
  | repItItIl f l il => exact c11_repItItIl hc hw f l il hd
  | repItItItIt f l x y => exact c11_repItItItIt hc hw f l x y hd
  | repItItP f l a => exact c11_repItItP hc hw f l a hd
  | repItItPC f l a n2 => exact c11_repItItPC hc hw f l a n2 hd
  | repItItSIt f l d i j => exact c11_repItItSIt hc hw f l d i j hd
  | setF f => exact c11_setF hc hw f
  | setP a => exact c11_setP hc hw a
  | setS d => exact c11_setS hc hw d
  | sprintf a => exact c11_sprintf hc hw a
  | sprintf2 a v => exact c11_sprintf2 hc hw a v
  | sprintfW a wa v b => exact c11_sprintfW hc hw a wa v b
  | str => exact c11_str hw
  | stream => exact c11_stream hw
  | substr p n => exact c11_substr hw p n hd
  | substrP p => exact c11_substrP hw p hd
  | swC ch => exact c11_swC hw ch
  | swF f => exact c11_swF hw f
  | swP a => exact c11_swP hw a ha
  | swS d => exact c11_swS hw d
  | swap => exact c11_swap hc hw
  | tset d => simp [inDomain] at hd
  | uset d => simp [inDomain] at hd
  | search fam nd =>
    cases fam with
    | find =>
      cases nd with
      | f p => exact c11_find_f hw p hd
      | s d p => exact c11_find_s hw d p hd
      | ppc a p n => exact c11_find_ppc hw a p n hd
      | pp a p => exact c11_find_pp hw a p hd
      | c ch p => exact c11_find_c hc hw ch p (ha.2 rfl)
    | rfind =>
      cases nd with
      | f p => exact c11_rfind_f hc hw p hd
      | s d p => exact c11_rfind_s hc hw d p hd
      | ppc a p n => exact c11_rfind_ppc hc hw a p n hd
      | pp a p => exact c11_rfind_pp hc hw a p hd
      | c ch p => exact c11_rfind_c hc hw ch p hd
    | ffo =>
      cases nd with
      | f p => exact c11_ffo_f hw p hd
      | s d p => exact c11_ffo_s hw d p hd
      | ppc a p n => exact c11_ffo_ppc hw a p n hd
      | pp a p => exact c11_ffo_pp hw a p hd
      | c ch p => exact c11_ffo_c hw ch p
    | ffno =>
      cases nd with
      | f p => exact c11_ffno_f hw p hd
      | s d p => exact c11_ffno_s hw d p hd
      | ppc a p n => exact c11_ffno_ppc hw a p n hd
      | pp a p => exact c11_ffno_pp hw a p hd
      | c ch p => exact c11_ffno_c hw ch p
    | flo =>
      cases nd with
      | f p => exact c11_flo_f hc hw p hd
      | s d p => exact c11_flo_s hc hw d p hd
      | ppc a p n => exact c11_flo_ppc hw a p n hd
      | pp a p => exact c11_flo_pp hc hw a p hd
      | c ch p => exact c11_flo_c hc hw ch p hd
    | flno =>
      cases nd with
      | f p => exact c11_flno_f hc hw p hd
      | s d p => exact c11_flno_s hc hw d p hd
      | ppc a p n => exact c11_flno_ppc hw a p n hd
      | pp a p => exact c11_flno_pp hc hw a p hd
      | c ch p => exact c11_flno_c hc hw ch p hd

end CelmaVerif.FixedString
