import CelmaVerif.Model.ProgArgs.Handler
/-
  The bytes of the argument file and the lines `readArgumentFile` evaluates (`std::getline` loop).
-/
namespace CelmaVerif.ProgArgs
open CelmaVerif

/-- the bytes of a text file whose lines are all terminated -/
def unlines (ls : List Word) : Word := ls.flatMap (· ++ ['\n'])

theorem splitNl_ne_nil (w : Word) : splitNl w ≠ [] := by
  induction w with
  | nil => simp [splitNl]
  | cons c cs ih =>
    simp only [splitNl]
    split
    · simp
    · split <;> simp

theorem splitNl_noNl (l : Word) (h : '\n' ∉ l) : splitNl l = [l] := by
  induction l with
  | nil => rfl
  | cons c cs ih =>
    have hc : c ≠ '\n' := fun e => h (by simp [e])
    have hcs : '\n' ∉ cs := fun m => h (List.mem_cons_of_mem _ m)
    simp only [splitNl, ih hcs]
    simp [hc]

theorem splitNl_line (l rest : Word) (h : '\n' ∉ l) : splitNl (l ++ '\n' :: rest) = l :: splitNl rest := by
  induction l with
  | nil =>
    simp only [List.nil_append, splitNl]
    cases hr : splitNl rest with
    | nil => exact absurd hr (splitNl_ne_nil rest)
    | cons p ps => simp
  | cons c cs ih =>
    have hc : c ≠ '\n' := fun e => h (by simp [e])
    have hcs : '\n' ∉ cs := fun m => h (List.mem_cons_of_mem _ m)
    simp only [List.cons_append, splitNl, ih hcs]
    simp [hc]

theorem splitNl_unlines (ls : List Word) (tail : Word) (h : ∀ l ∈ ls, '\n' ∉ l) :
    splitNl (unlines ls ++ tail) = ls ++ splitNl tail := by
  induction ls with
  | nil => simp [unlines]
  | cons l ls ih =>
    have hl := h l (List.mem_cons_self ..)
    have hls : ∀ x ∈ ls, '\n' ∉ x := fun x m => h x (List.mem_cons_of_mem _ m)
    have : unlines (l :: ls) ++ tail = l ++ '\n' :: (unlines ls ++ tail) := by
      simp [unlines, List.append_assoc]
    rw [this, splitNl_line l _ hl, ih hls]
    rfl

/-- a file whose lines are all terminated by a newline is read as exactly these lines -/
theorem fileLines_terminated (ls : List Word) (h : ∀ l ∈ ls, '\n' ∉ l) : fileLines (unlines ls) = ls := by
  have e : splitNl (unlines ls) = ls ++ [[]] := by
    have := splitNl_unlines ls [] h
    simpa [splitNl] using this
  simp [fileLines, e]

/-- … and so is a file whose last line is not terminated -/
theorem fileLines_unterminated (ls : List Word) (last : Word) (h : ∀ l ∈ ls, '\n' ∉ l)
    (hl : '\n' ∉ last) (hne : last ≠ []) : fileLines (unlines ls ++ last) = ls ++ [last] := by
  have e : splitNl (unlines ls ++ last) = ls ++ [last] := by
    rw [splitNl_unlines ls last h, splitNl_noNl last hl]
  simp [fileLines, e, hne]

/-- the pinned loop lost that last line -/
theorem fileLinesHead_unterminated (ls : List Word) (last : Word) (h : ∀ l ∈ ls, '\n' ∉ l)
    (hl : '\n' ∉ last) : fileLinesHead (unlines ls ++ last) = ls := by
  have e : splitNl (unlines ls ++ last) = ls ++ [last] := by
    rw [splitNl_unlines ls last h, splitNl_noNl last hl]
  simp [fileLinesHead, e]

end CelmaVerif.ProgArgs
