import CelmaVerif.Lemmas.GroupsStep
/-
  Dispatch of a value element (a free value: a word that is neither a key nor attached to one) inside
  an argument group.  `Groups::evalArguments` offers it to the members in registration order with
  `isKey = false`; a member takes it when the argument it handled last accepts several values
  (`multi`), or when it defines a positional argument.
-/
namespace CelmaVerif.ProgArgs
open CelmaVerif CelmaVerif.Keys

/-- the member passes a free value on: abbreviations off, it defines no positional argument, and the
    argument it handled last (if any) does not take several values -/
structure PassesValue (m : Cfg × HState) : Prop where
  abbr : m.1.abbr = false
  nopos : ∀ e ∈ m.1.table, e.1.eq Key.pos = false
  nomulti : ∀ i d, m.2.lastArg = some i → m.1.args[i]? = some d → d.multi = false

theorem PassesValue.eval {m : Cfg × HState} (hp : PassesValue m) {ai : It}
    (hty : ai.cur.ty = .value ∨ ai.cur.ty = .invalid) :
    evalSingleArgument m.1 m.2 ai = .ok (m.2, ai, .unknown) := by
  apply evalSingleArgument_value_nomulti m.1 m.2 ai hty hp.nomulti
  rw [hp.abbr]
  exact findArg_noabbr_none _ _ hp.nopos

/-- members that answer `unknown` without changing their state pass a value element on unchanged -/
theorem offer_value_skip (pre rest : List (Cfg × HState)) (ai : It)
    (hpre : ∀ m ∈ pre, evalSingleArgument m.1 m.2 ai = .ok (m.2, ai, .unknown)) :
    offer false (pre ++ rest) ai =
      (offer false rest ai >>= fun (x : List (Cfg × HState) × It × ArgResult) =>
        pure (pre ++ x.1, x.2.1, x.2.2)) := by
  induction pre with
  | nil =>
    simp only [List.nil_append]
    cases offer false rest ai <;> rfl
  | cons m pre ih =>
    obtain ⟨c, h⟩ := m
    have hev := hpre (c, h) (List.mem_cons_self ..)
    rw [List.cons_append, offer_miss false c h (pre ++ rest) ai _ ai hev,
      ih (fun m hm' => hpre m (List.mem_cons_of_mem _ hm'))]
    cases offer false rest ai with
    | ok x => simp only [Res.bind_ok, Res.pure_eq, Bool.false_and, Bool.false_eq_true, if_false, List.cons_append]
    | throw e => rfl
    | oob w => rfl

/-- Dispatch of a free value: the members in front pass it on, member `c` handled the multi-value
    argument `d` last: the value is assigned by `c` (its `assignValue`, same exception if that
    throws), nobody else changes state, the members behind are not asked. -/
theorem offer_value_dispatch (pre post : List (Cfg × HState)) (c : Cfg) (h : HState) (ai : It)
    (hty : ai.cur.ty = .value) (hpre : ∀ m ∈ pre, PassesValue m)
    (i : Nat) (d : ArgDef) (hl : h.lastArg = some i) (hd : c.args[i]? = some d) (hm : d.multi = true) :
    offer (ai.cur.ty != .value) (pre ++ (c, h) :: post) ai =
      (assignValue h i d ai.cur.val >>= fun h' => pure (pre ++ (c, h') :: post, ai, .consumed)) := by
  have hk : (ai.cur.ty != .value) = false := by rw [hty]; rfl
  rw [hk, offer_value_skip pre _ ai (fun m hm' => (hpre m hm').eval (Or.inl hty))]
  have hown := evalSingleArgument_value_multi c h ai (Or.inl hty) i d hl hd hm
  cases hok : assignValue h i d ai.cur.val with
  | ok h' =>
    rw [hok] at hown
    simp only [Res.bind_ok, Res.pure_eq] at hown
    rw [offer_hit false c h post ai h' ai .consumed hown (by simp)]
    simp
  | throw e =>
    rw [hok] at hown
    rw [offer_throw false c h post ai e hown]; rfl
  | oob w =>
    rw [hok] at hown
    rw [offer_oob false c h post ai w hown]; rfl

/-- a free value nobody takes: every member passes it on, the offer answers `unknown` and leaves
    all member states as they were -/
theorem offer_value_nobody (ms : List (Cfg × HState)) (ai : It) (hty : ai.cur.ty = .value)
    (hall : ∀ m ∈ ms, PassesValue m) :
    offer (ai.cur.ty != .value) ms ai = .ok (ms, ai, .unknown) := by
  have hk : (ai.cur.ty != .value) = false := by rw [hty]; rfl
  have := offer_value_skip ms [] ai (fun m hm' => (hall m hm').eval (Or.inl hty))
  rw [List.append_nil] at this
  rw [hk, this]
  simp [offer]

/-- … and `Groups::evalArguments` then throws `std::runtime_error` -/
theorem groupsLoop_value_nobody (fuel : Nat) (ms : List (Cfg × HState)) (ai : It) (hty : ai.cur.ty = .value)
    (hend : ai.atEnd = false) (hall : ∀ m ∈ ms, PassesValue m) :
    groupsLoop (fuel + 1) ms ai = .throw .runtime_error := by
  unfold groupsLoop
  rw [hend, offer_value_nobody ms ai hty hall]
  rfl

end CelmaVerif.ProgArgs
