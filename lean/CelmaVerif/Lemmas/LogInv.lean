import CelmaVerif.Lemmas.LogRoute
/-
  Helper lemmas for C14, part 3: the invariant of the whole log table and its preservation by
  every operation; consequently no history ever reaches undefined behaviour.
-/
namespace CelmaVerif.Log
open CelmaVerif CelmaVerif.Generated.LogDefs

/-! ### list helpers -/

theorem mem_updFirst {α : Type} (p : α → Bool) (g : α → α) (l : List α) (x : α)
    (h : x ∈ updFirst p g l) : x ∈ l ∨ ∃ y ∈ l, x = g y := by
  induction l with
  | nil => simp [updFirst] at h
  | cons a as ih =>
    unfold updFirst at h
    by_cases hp : p a = true
    · rw [if_pos hp] at h
      simp only [List.mem_cons] at h
      cases h with
      | inl h => exact .inr ⟨a, by simp, h⟩
      | inr h => exact .inl (by simp [h])
    · rw [if_neg hp] at h
      simp only [List.mem_cons] at h
      cases h with
      | inl h => exact .inl (by simp [h])
      | inr h =>
        cases ih h with
        | inl h => exact .inl (by simp [h])
        | inr h => obtain ⟨y, hy, e⟩ := h; exact .inr ⟨y, by simp [hy], e⟩

theorem map_updFirst {α β : Type} (p : α → Bool) (g : α → α) (k : α → β) (l : List α)
    (h : ∀ y, k (g y) = k y) : (updFirst p g l).map k = l.map k := by
  induction l with
  | nil => simp [updFirst]
  | cons a as ih =>
    unfold updFirst
    by_cases hp : p a = true
    · rw [if_pos hp]; simp [h]
    · rw [if_neg hp]; simp [ih]

theorem mem_eraseFirst (name : String) (ds : List Dest) (d : Dest) (h : d ∈ eraseFirst name ds) :
    d ∈ ds := by
  induction ds with
  | nil => simp [eraseFirst] at h
  | cons a as ih =>
    unfold eraseFirst at h
    by_cases hp : (a.name == name) = true
    · rw [if_pos hp] at h; simp [h]
    · rw [if_neg hp] at h
      simp only [List.mem_cons] at h ⊢
      cases h with
      | inl h => exact .inl h
      | inr h => exact .inr (ih h)

/-! ### the class-list constructor never leaves the bitset -/

theorem bitsetSet_ok (bits r : List Bool) (c : Nat) (h : bitsetSet bits c = .ok r) :
    r.length = bits.length := by
  unfold bitsetSet at h
  split at h
  · cases h; simp
  · cases h

theorem bitsetSet_noOob (bits : List Bool) (c : Nat) (w : String) : bitsetSet bits c ≠ .oob w := by
  unfold bitsetSet
  split <;> simp

theorem classesFromTokens_ok (ts : List (List Char)) (bits r : List Bool)
    (h : classesFromTokens ts bits = .ok r) : r.length = bits.length := by
  induction ts generalizing bits with
  | nil =>
    unfold classesFromTokens at h
    split at h
    · cases h
    · cases h; rfl
  | cons t ts ih =>
    unfold classesFromTokens at h
    simp only at h
    by_cases hr : (classRejected == some (text2logClass (cstr t))) = true
    · rw [if_pos hr] at h; cases h
    · rw [if_neg hr] at h
      cases hb : bitsetSet bits (text2logClass (cstr t)) with
      | ok b' =>
        rw [hb] at h
        rw [ih _ h, bitsetSet_ok _ _ _ hb]
      | throw e => rw [hb] at h; cases h
      | oob w => rw [hb] at h; cases h

theorem classesFromTokens_noOob (ts : List (List Char)) (bits : List Bool) (w : String) :
    classesFromTokens ts bits ≠ .oob w := by
  induction ts generalizing bits with
  | nil =>
    unfold classesFromTokens
    split <;> simp
  | cons t ts ih =>
    unfold classesFromTokens
    simp only
    by_cases hr : (classRejected == some (text2logClass (cstr t))) = true
    · rw [if_pos hr]; simp
    · rw [if_neg hr]
      cases hb : bitsetSet bits (text2logClass (cstr t)) with
      | ok b' => exact ih _
      | throw e => simp
      | oob w' => exact absurd hb (bitsetSet_noOob _ _ w')

/-- `new F( filter_param)`: either a well-formed filter of the requested type or an exception -/
theorem FilterSpec.mk_spec (s : FilterSpec) :
    (∀ w, s.mk ≠ .oob w) ∧
    (∀ nf, s.mk = .ok nf → nf.WF ∧ nf.isLevelFilter = s.ftype.isLevel ∧ nf.ftype = .ok s.ftype) := by
  cases s with
  | max x => exact ⟨by simp [FilterSpec.mk], by intro nf h; cases h; simp [Filter.WF, Filter.isLevelFilter, FilterSpec.ftype, FType.isLevel, Filter.ftype]⟩
  | min x => exact ⟨by simp [FilterSpec.mk], by intro nf h; cases h; simp [Filter.WF, Filter.isLevelFilter, FilterSpec.ftype, FType.isLevel, Filter.ftype]⟩
  | level x => exact ⟨by simp [FilterSpec.mk], by intro nf h; cases h; simp [Filter.WF, Filter.isLevelFilter, FilterSpec.ftype, FType.isLevel, Filter.ftype]⟩
  | classes l =>
    constructor
    · intro w
      simp only [FilterSpec.mk]
      cases hn : newClassSelection l with
      | ok b => simp
      | throw e => simp
      | oob w' => exact absurd hn (classesFromTokens_noOob _ _ w')
    · intro nf h
      simp only [FilterSpec.mk] at h
      cases hn : newClassSelection l with
      | ok b =>
        rw [hn] at h
        cases h
        have := classesFromTokens_ok _ _ _ hn
        simp [Filter.WF, Filter.isLevelFilter, FilterSpec.ftype, FType.isLevel, Filter.ftype, this]
      | throw e => rw [hn] at h; cases h
      | oob w' => rw [hn] at h; cases h

/-! ### `checkSetFilter` -/

theorem Filter.ftype_of_WF (f : Filter) (hf : f.WF) : ∃ t, f.ftype = .ok t := by
  cases f <;> simp [Filter.ftype, Filter.WF] at hf ⊢

theorem Filter.isLevel_of_ftype (f : Filter) (t : FType) (h : f.ftype = .ok t) :
    f.isLevelFilter = t.isLevel := by
  cases f <;> simp [Filter.ftype] at h <;> subst h <;> rfl

/-- the search loop: no undefined behaviour on live filters; a hit is a filter of that type -/
theorem findType_spec (t : FType) (fs : List Filter) (i : Nat) (hf : ∀ f ∈ fs, f.WF) :
    findType t fs i = .ok none ∧ (∀ f ∈ fs, f.ftype ≠ .ok t) ∨
    ∃ j f, findType t fs i = .ok (some (i + j)) ∧ fs[j]? = some f ∧ f.ftype = .ok t ∧
      ∀ k g, k < j → fs[k]? = some g → g.ftype ≠ .ok t := by
  induction fs generalizing i with
  | nil => exact .inl ⟨rfl, by simp⟩
  | cons a as ih =>
    obtain ⟨ta, hta⟩ := Filter.ftype_of_WF a (hf a (by simp))
    unfold findType
    rw [hta]
    simp only
    by_cases h : ta = t
    · rw [if_pos h]
      exact .inr ⟨0, a, by simp, by simp, by rw [hta, h], by intro k g hk; omega⟩
    · rw [if_neg h]
      cases ih (i + 1) (fun f hm => hf f (by simp [hm])) with
      | inl h1 =>
        refine .inl ⟨h1.1, ?_⟩
        intro f hm
        simp only [List.mem_cons] at hm
        cases hm with
        | inl e => subst e; rw [hta]; intro c; cases c; exact h rfl
        | inr e => exact h1.2 f e
      | inr h1 =>
        obtain ⟨j, f, e1, e2, e3, e4⟩ := h1
        refine .inr ⟨j + 1, f, by rw [e1]; congr 2; omega, by simpa using e2, e3, ?_⟩
        intro k g hk hg
        cases k with
        | zero =>
          simp only [List.getElem?_cons_zero, Option.some.injEq] at hg
          subst hg; rw [hta]; intro c; cases c; exact h rfl
        | succ k => exact e4 k g (by omega) (by simpa using hg)

theorem Filters.checkSet_inv (F : Filters) (p : DuplicatePolicy) (t : FType) (mk : Res Filter)
    (hF : F.Inv) (hno : ∀ w, mk ≠ .oob w)
    (hmk : ∀ nf, mk = .ok nf → nf.WF ∧ nf.isLevelFilter = t.isLevel ∧ nf.ftype = .ok t) :
    ∃ F' exc, F.checkSet p t mk = .ok (F', exc) ∧ F'.Inv := by
  unfold Filters.checkSet
  cases findType_spec t F.filters 0 hF.wf with
  | inl h =>
    rw [h.1]
    simp only
    cases hm : mk with
    | oob w => exact absurd hm (hno w)
    | throw e => exact ⟨F, some e, rfl, hF⟩
    | ok nf =>
      obtain ⟨h1, h2, _⟩ := hmk nf hm
      refine ⟨_, none, rfl, ⟨?_, ?_⟩⟩
      · intro f hf
        simp only [List.mem_append, List.mem_singleton] at hf
        cases hf with
        | inl hf => exact hF.wf f hf
        | inr hf => subst hf; exact h1
      · intro i hi
        simp only at hi
        by_cases hl : t.isLevel = true
        · rw [if_pos hl] at hi
          cases hi
          exact ⟨nf, by simp, by rw [h2, hl]⟩
        · rw [if_neg hl] at hi
          obtain ⟨f, hf, hfl⟩ := hF.lvl i hi
          have hlt : i < F.filters.length := by
            rcases Nat.lt_or_ge i F.filters.length with h | h
            · exact h
            · rw [List.getElem?_eq_none h] at hf; cases hf
          exact ⟨f, by rw [List.getElem?_append_left hlt]; exact hf, hfl⟩
  | inr h =>
    obtain ⟨j, f, e1, e2, e3, _⟩ := h
    rw [e1]
    simp only [Nat.zero_add]
    have hjlt : j < F.filters.length := by
      rcases Nat.lt_or_ge j F.filters.length with h | h
      · exact h
      · rw [List.getElem?_eq_none h] at e2; cases e2
    have hfl : f.isLevelFilter = t.isLevel := Filter.isLevel_of_ftype f t e3
    -- re-pointing the cached level filter at slot j keeps the invariant
    have relevel_keep : (if t.isLevel then { F with levelIdx := some j } else F).Inv := by
      by_cases hl : t.isLevel = true
      · rw [if_pos hl]
        exact ⟨hF.wf, by intro i hi; cases hi; exact ⟨f, e2, by rw [hfl, hl]⟩⟩
      · rw [if_neg hl]; exact hF
    cases hp : acceptNew p with
    | throws => exact ⟨F, some .runtime_error, rfl, hF⟩
    | keep => exact ⟨_, none, rfl, relevel_keep⟩
    | replace =>
      simp only
      cases hm : mk with
      | oob w => exact absurd hm (hno w)
      | throw e =>
        simp only [replace_is_safe]
        exact ⟨F, some e, rfl, hF⟩
      | ok nf =>
        obtain ⟨h1, h2, _⟩ := hmk nf hm
        refine ⟨_, none, rfl, ?_⟩
        have hwf : ∀ g ∈ F.filters.set j nf, g.WF := by
          intro g hg
          cases List.mem_or_eq_of_mem_set hg with
          | inl hg => exact hF.wf g hg
          | inr hg => subst hg; exact h1
        by_cases hl : t.isLevel = true
        · rw [if_pos hl]
          refine ⟨hwf, ?_⟩
          intro i hi
          cases hi
          exact ⟨nf, by simp [hjlt], by rw [h2, hl]⟩
        · rw [if_neg hl]
          refine ⟨hwf, ?_⟩
          intro i hi
          obtain ⟨g, hg, hgl⟩ := hF.lvl i hi
          have hne : j ≠ i := by
            intro hji
            subst hji
            rw [e2] at hg
            cases hg
            rw [hfl] at hgl
            exact hl hgl
          exact ⟨g, by simp only; rw [List.getElem?_set_ne hne]; exact hg, hgl⟩

theorem Filters.set_inv (F : Filters) (p : DuplicatePolicy) (s : FilterSpec) (hF : F.Inv) :
    ∃ F' exc, F.set p s = .ok (F', exc) ∧ F'.Inv :=
  Filters.checkSet_inv F p s.ftype s.mk hF (FilterSpec.mk_spec s).1 (FilterSpec.mk_spec s).2

/-! ### the log table -/

structure World.Inv (w : World) : Prop where
  ids : ∃ n, w.nextId = 2 ^ n ∧ w.logs.map (·.id) = (List.range n).map (fun k => 2 ^ k)
  logs : ∀ e ∈ w.logs, e.log.Inv

theorem World.Inv.disjoint {w : World} (h : w.Inv) : Disjoint (w.logs.map (·.id)) := by
  obtain ⟨n, _, h2⟩ := h.ids
  rw [h2]
  exact disjoint_pows n

theorem World.init_inv : World.init.Inv :=
  ⟨⟨0, firstLogId_eq, by simp [World.init]⟩, by simp [World.init]⟩

theorem World.newFilters_eq (w : World) : w.newFilters = w := by
  simp [World.newFilters, ctor_keeps_policy]

theorem Log.inv_empty : ({} : Log).Inv := ⟨Filters.inv_empty, by simp⟩

theorem World.updLog_inv (w : World) (name : String) (g : LogEntry → LogEntry) (hw : w.Inv)
    (hid : ∀ e, (g e).id = e.id) (hg : ∀ e ∈ w.logs, (g e).log.Inv) : (w.updLog name g).Inv := by
  refine ⟨?_, ?_⟩
  · obtain ⟨n, h1, h2⟩ := hw.ids
    refine ⟨n, h1, ?_⟩
    simp only [World.updLog]
    rw [map_updFirst _ _ _ _ hid]
    exact h2
  · intro e he
    simp only [World.updLog] at he
    cases mem_updFirst _ _ _ _ he with
    | inl h => exact hw.logs e h
    | inr h => obtain ⟨y, hy, e1⟩ := h; subst e1; exact hg y hy

theorem World.findCreateLog_inv (w : World) (name : String) (hw : w.Inv) :
    (w.findCreateLog name).1.Inv := by
  unfold World.findCreateLog
  split
  · exact hw
  · split
    · exact hw
    · rw [World.newFilters_eq]
      obtain ⟨n, h1, h2⟩ := hw.ids
      refine ⟨⟨n + 1, by simp only; rw [h1, Nat.pow_succ], ?_⟩, ?_⟩
      · simp only [List.map_append, h2, List.map_cons, List.map_nil, List.range_succ, h1]
      · intro e he
        simp only [List.mem_append, List.mem_singleton] at he
        cases he with
        | inl h => exact hw.logs e h
        | inr h => subst h; exact Log.inv_empty

theorem World.addDest_inv (w w' : World) (l d : String) (hw : w.Inv) (h : w.addDest l d = some w') :
    w'.Inv := by
  unfold World.addDest at h
  split at h
  · cases h
  · rw [World.newFilters_eq] at h
    cases h
    apply World.updLog_inv _ _ _ hw (by intro e; rfl)
    intro e he
    have := hw.logs e he
    refine ⟨this.own, ?_⟩
    intro x hx
    simp only [LogEntry.setDests, List.mem_append, List.mem_singleton] at hx
    cases hx with
    | inl hx => exact this.dests x hx
    | inr hx => subst hx; exact Filters.inv_empty

theorem World.removeDest_inv (w w' : World) (l d : String) (hw : w.Inv)
    (h : w.removeDest l d = some w') : w'.Inv := by
  unfold World.removeDest at h
  split at h
  · cases h
  · cases h
    apply World.updLog_inv _ _ _ hw (by intro e; rfl)
    intro e he
    have := hw.logs e he
    exact ⟨this.own, fun x hx => this.dests x (mem_eraseFirst _ _ _ hx)⟩

theorem World.getLogByName_mem (w : World) (name : String) (e : LogEntry)
    (h : w.getLogByName name = some e) : e ∈ w.logs := List.mem_of_find?_eq_some h

theorem World.setFilter_inv (w : World) (tgt : Target) (s : FilterSpec) (hw : w.Inv) :
    ∃ w' r, w.setFilter tgt s = .ok (w', r) ∧ w'.Inv ∧ w'.policy = w.policy := by
  unfold World.setFilter
  cases tgt with
  | log name =>
    simp only
    cases hl : w.getLogByName name with
    | none => exact ⟨w, .nolog, rfl, hw, rfl⟩
    | some e =>
      have he := hw.logs e (World.getLogByName_mem w name e hl)
      obtain ⟨F', exc, h1, h2⟩ := Filters.set_inv e.log.filters w.policy s he.own
      simp only [h1]
      refine ⟨_, _, rfl, ?_, rfl⟩
      apply World.updLog_inv _ _ _ hw (by intro e; rfl)
      intro x hx
      exact ⟨h2, (hw.logs x hx).dests⟩
  | dest name dname =>
    simp only
    cases hl : w.getLogByName name with
    | none => exact ⟨w, .nolog, rfl, hw, rfl⟩
    | some e =>
      have he := hw.logs e (World.getLogByName_mem w name e hl)
      simp only
      cases hd : e.log.dests.find? (fun d => d.name == dname) with
      | none => exact ⟨w, .threw .runtime_error, rfl, hw, rfl⟩
      | some d =>
        have hdm : d ∈ e.log.dests := List.mem_of_find?_eq_some hd
        obtain ⟨F', exc, h1, h2⟩ := Filters.set_inv d.filters w.policy s (he.dests d hdm)
        simp only [h1]
        refine ⟨_, _, rfl, ?_, rfl⟩
        apply World.updLog_inv _ _ _ hw (by intro e; rfl)
        intro x hx
        refine ⟨(hw.logs x hx).own, ?_⟩
        intro y hy
        simp only [LogEntry.setDests] at hy
        cases mem_updFirst _ _ _ _ hy with
        | inl h => exact (hw.logs x hx).dests y h
        | inr h => obtain ⟨z, _, e1⟩ := h; subst e1; exact h2

/-! ### sending keeps the invariant -/

theorem Dest.deliver_filters (d : Dest) (m : Msg) : (d.deliver m).filters = d.filters := by
  unfold Dest.deliver; split <;> rfl

theorem LogEntry.deliver_id (e : LogEntry) (b : Bool) (m : Msg) : (e.deliver b m).id = e.id := by
  unfold LogEntry.deliver; split <;> rfl

theorem LogEntry.deliver_name (e : LogEntry) (b : Bool) (m : Msg) : (e.deliver b m).name = e.name := by
  unfold LogEntry.deliver; split <;> rfl

theorem LogEntry.deliver_filters (e : LogEntry) (b : Bool) (m : Msg) :
    (e.deliver b m).log.filters = e.log.filters := by
  unfold LogEntry.deliver; split <;> rfl

theorem LogEntry.deliver_inv (e : LogEntry) (b : Bool) (m : Msg) (he : e.log.Inv) :
    (e.deliver b m).log.Inv := by
  refine ⟨by rw [LogEntry.deliver_filters]; exact he.own, ?_⟩
  unfold LogEntry.deliver
  split
  · intro d hd
    simp only [List.mem_map] at hd
    obtain ⟨x, hx, e1⟩ := hd
    subst e1
    rw [Dest.deliver_filters]
    exact he.dests x hx
  · exact he.dests

theorem World.deliver_inv (w : World) (ids : Nat) (m : Msg) (hw : w.Inv) : (w.deliver ids m).Inv := by
  refine ⟨?_, ?_⟩
  · obtain ⟨n, h1, h2⟩ := hw.ids
    refine ⟨n, h1, ?_⟩
    simp only [World.deliver, List.map_map]
    rw [← h2]
    apply List.map_congr_left
    intro e _
    simp [LogEntry.deliver_id]
  · intro e he
    simp only [World.deliver, List.mem_map] at he
    obtain ⟨x, hx, e1⟩ := he
    subst e1
    exact LogEntry.deliver_inv x _ m (hw.logs x hx)

theorem World.deliverName_inv (w : World) (name : String) (m : Msg) (hw : w.Inv) :
    (w.deliverName name m).Inv :=
  World.updLog_inv _ _ _ hw (fun e => LogEntry.deliver_id e true m)
    (fun e he => LogEntry.deliver_inv e true m (hw.logs e he))

theorem World.logIds_eq (w : World) (ids : Nat) (m : Msg) (hw : w.Inv) (hm : m.Valid) :
    w.logIds ids m = .ok (w.deliver ids m) := by
  unfold World.logIds
  rw [logIdsGo_eq ids m hm w.logs hw.logs hw.disjoint]
  rfl

theorem World.logName_eq (w : World) (name : String) (m : Msg) (hw : w.Inv) (hm : m.Valid) :
    w.logName name m = .ok (w.deliverName name m) := by
  unfold World.logName
  rw [logNameGo_eq name m hm w.logs hw.logs]
  rfl

end CelmaVerif.Log
