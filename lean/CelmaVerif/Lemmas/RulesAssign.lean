import CelmaVerif.Lemmas.RulesBase
/-
  Rules layer, part 2a: what `assign` (`assignDest`, `assignVecLoop`) and the cardinality objects do
  to the state of one argument — counter, accepted values, destination.
-/
namespace CelmaVerif.ProgArgs
open CelmaVerif CelmaVerif.Keys

/-! ### cardinality objects -/

/-- the limit a cardinality object counts against (`none`: the object does not count at all) -/
def Card.limit : Card → Option Int
  | .unlimited => none
  | .max n => if n = -1 then none else some n
  | .exact n => some n
  | .range _ hi => if hi = -1 then none else some hi

theorem gotValue_eq (c : Card) (cnt : Int) :
    c.gotValue cnt = match c.limit with
      | none => .ok cnt
      | some n => if cnt + 1 > n then .throw .runtime_error else .ok (cnt + 1) := by
  cases c with
  | unlimited => rfl
  | max n => by_cases h : n = -1 <;> simp [Card.gotValue, Card.limit, h]
  | exact n => rfl
  | range lo hi => by_cases h : hi = -1 <;> simp [Card.gotValue, Card.limit, h]

theorem gotValue_ok_some {c : Card} {n cnt cnt' : Int} (hl : c.limit = some n) (e : c.gotValue cnt = .ok cnt') :
    cnt' = cnt + 1 ∧ cnt' ≤ n := by
  rw [gotValue_eq, hl] at e
  dsimp only at e
  split at e
  · cases e
  · cases e; omega

theorem gotValue_ok_none {c : Card} {cnt cnt' : Int} (hl : c.limit = none) (e : c.gotValue cnt = .ok cnt') :
    cnt' = cnt := by
  rw [gotValue_eq, hl] at e
  cases e; rfl

/-! ### the element loop of a list value -/

theorem assignVecLoop_cnt_false (d : ArgDef) (n : Int) (hl : d.card.limit = some n) :
    ∀ (ts : List Word) (st st' : ArgSt), assignVecLoop d ts false st = .ok st' → st.cnt ≤ n →
      st'.cnt ≤ n ∧ st'.cnt = st.cnt + ts.length := by
  intro ts
  induction ts with
  | nil => intro st st' e hle; simp only [assignVecLoop] at e; cases e; simp [hle]
  | cons t ts ih =>
    intro st st' e hle
    simp only [assignVecLoop, bind_eq_ok, countValue] at e
    obtain ⟨cnt, hc, _, _, v, _, e⟩ := e
    simp only [Bool.false_eq_true, if_false] at hc
    obtain ⟨h1, h2⟩ := gotValue_ok_some hl hc
    obtain ⟨h3, h4⟩ := ih _ _ e h2
    refine ⟨h3, ?_⟩
    rw [h4]; simp only [List.length_cons]; omega

theorem assignVecLoop_cnt_true (d : ArgDef) (n : Int) (hl : d.card.limit = some n)
    (ts : List Word) (st st' : ArgSt) (e : assignVecLoop d ts true st = .ok st') (hle : st.cnt ≤ n) :
    st'.cnt ≤ n ∧ st'.cnt + 1 = st.cnt + max 1 ts.length := by
  cases ts with
  | nil => simp only [assignVecLoop] at e; cases e; simp [hle]
  | cons t ts =>
    simp only [assignVecLoop, bind_eq_ok, countValue] at e
    obtain ⟨cnt, hc, _, _, v, _, e⟩ := e
    simp only [if_true] at hc
    cases hc
    obtain ⟨h3, h4⟩ := assignVecLoop_cnt_false d n hl _ _ _ e hle
    refine ⟨h3, ?_⟩
    rw [h4]; simp only [List.length_cons]; omega

/-- `assign` of a non-list destination does not touch the counter -/
theorem assignDest_cnt_scalar {d : ArgDef} {st st' : ArgSt} {v : Word} (hk : d.kind ≠ .vecInt)
    (e : assignDest d st v = .ok st') : st'.cnt = st.cnt := by
  unfold assignDest at e
  split at e
  · cases e; rfl
  · simp only [bind_eq_ok] at e; obtain ⟨_, _, _, _, e⟩ := e; cases e; rfl
  · simp only [bind_eq_ok] at e; obtain ⟨_, _, e⟩ := e; cases e; rfl
  · dsimp only at e
    split at e
    · simp only [bind_eq_ok] at e; obtain ⟨_, _, _, _, e⟩ := e; cases e; rfl
    · simp only [bind_eq_ok] at e; obtain ⟨_, _, _, _, _, _, e⟩ := e; cases e; rfl
  · rename_i hv; exact absurd hv hk

/-- the counter after `assign`: one value was counted by `assignValue` already, a list adds one per
    element after the first -/
theorem assignDest_cnt {d : ArgDef} {n : Int} (hl : d.card.limit = some n) {st st' : ArgSt} {u : Use}
    (e : assignDest d st u.val = .ok st') (hle : st.cnt ≤ n) :
    st'.cnt ≤ n ∧ st'.cnt + 1 = st.cnt + u.valueCount d := by
  by_cases hk : d.kind = .vecInt
  · unfold assignDest at e
    rw [hk] at e
    dsimp only at e
    have := assignVecLoop_cnt_true d n hl _ _ _ e hle
    unfold Use.valueCount
    rw [hk]
    exact this
  · have := assignDest_cnt_scalar hk e
    unfold Use.valueCount
    constructor
    · omega
    · cases hkk : d.kind <;> first | exact absurd hkk hk | (simp only; omega)

/-! ### accepted values -/

theorem assignVecLoop_valueOk (d : ArgDef) : ∀ (ts : List Word) (first : Bool) (st st' : ArgSt),
    assignVecLoop d ts first st = .ok st' →
    ∀ t ∈ ts, runChecks d.checks t = .ok () ∧ ∃ n, lexCastInt t = .ok n := by
  intro ts
  induction ts with
  | nil => intro _ _ _ _ t ht; cases ht
  | cons t ts ih =>
    intro first st st' e t' ht'
    simp only [assignVecLoop, bind_eq_ok] at e
    obtain ⟨cnt, _, _, hr, v, hv, e⟩ := e
    rcases List.mem_cons.mp ht' with rfl | hm
    · exact ⟨hr, v, hv⟩
    · exact ih _ _ _ e t' hm

/-- a value that `assign` accepted converts to the destination type and passes all checks -/
theorem assignDest_valueOk {d : ArgDef} {st st' : ArgSt} {v : Word} (e : assignDest d st v = .ok st') :
    ScalarValueOk d v := by
  unfold assignDest at e
  unfold ScalarValueOk
  split at e
  · rename_i hk; rw [hk]; trivial
  · rename_i hk; rw [hk]; simp only [bind_eq_ok] at e; obtain ⟨_, hr, n, hn, _⟩ := e; exact ⟨hr, n, hn⟩
  · rename_i hk; rw [hk]; simp only [bind_eq_ok] at e; obtain ⟨_, hr, _⟩ := e; exact hr
  · rename_i hk; rw [hk]; dsimp only at e ⊢
    split at e
    · rename_i hv; left; simpa using hv
    · simp only [bind_eq_ok] at e; obtain ⟨_, _, _, hr, n, hn, _⟩ := e; right; exact ⟨hr, n, hn⟩
  · rename_i hk; rw [hk]; exact assignVecLoop_valueOk d _ _ _ _ e

/-! ### destinations -/

-- `castOr0`, `castAll`, `vecOf`, `levelOf`, `levelStep`, `valsOf` are defined in Model/ProgArgs/Spec.lean

theorem valsOf_snoc (i : Nat) (us : List Use) (u : Use) :
    valsOf i (us ++ [u]) = valsOf i us ++ (if u.arg = i then [u.val] else []) := by
  unfold valsOf
  by_cases h : u.arg = i <;> simp [List.filter_append, h]

theorem valsOf_cons_self (u : Use) (us : List Use) : valsOf u.arg (u :: us) = u.val :: valsOf u.arg us := by
  simp [valsOf]

theorem valsOf_cons_ne {i : Nat} {u : Use} (h : u.arg ≠ i) (us : List Use) : valsOf i (u :: us) = valsOf i us := by
  simp [valsOf, h]

/-! ### the effect of `assign` -/

theorem castOr0_ok {t : Word} {v : Int} (h : lexCastInt t = .ok v) : castOr0 t = v := by
  unfold castOr0; rw [h]

/-- the element loop: flags untouched; no elements — destination untouched; otherwise the converted
    elements are appended to the list -/
theorem assignVecLoop_dest (d : ArgDef) : ∀ (ts : List Word) (first : Bool) (st st' : ArgSt),
    assignVecLoop d ts first st = .ok st' →
    st'.hasValueSet = st.hasValueSet ∧ st'.incremented = st.incremented ∧
    st'.dest = if ts = [] then st.dest else .vec (vecOf st.dest ++ castAll ts) := by
  intro ts
  induction ts with
  | nil => intro first st st' e; simp only [assignVecLoop] at e; cases e; simp
  | cons t ts ih =>
    intro first st st' e
    simp only [assignVecLoop, bind_eq_ok] at e
    obtain ⟨cnt, _, _, _, v, hv, e⟩ := e
    obtain ⟨h1, h2, h3⟩ := ih _ _ _ e
    refine ⟨h1, h2, ?_⟩
    rw [h3]
    simp only [reduceCtorEq, if_false]
    generalize st.dest = x
    by_cases hts : ts = []
    · subst hts; cases x <;> simp [castAll, castOr0_ok hv, vecOf]
    · cases x <;> simp [hts, castAll, castOr0_ok hv, vecOf]

/-- destination and flags after `assign`, per kind -/
theorem assignDest_effect {d : ArgDef} {st st' : ArgSt} {v : Word} (e : assignDest d st v = .ok st') :
    match d.kind with
    | .flag => st'.dest = .flag d.flagValue ∧ st'.hasValueSet = true
    | .int => st'.dest = .int (castOr0 v) ∧ st'.hasValueSet = true
    | .str => st'.dest = .str (d.fmt.apply v) ∧ st'.hasValueSet = true
    | .level => st'.dest = .level (levelStep (levelOf st.dest) v) ∧
        st'.hasValueSet = (st.hasValueSet || !v.isEmpty) ∧ st'.incremented = (st.incremented || v.isEmpty)
    | .vecInt => st'.hasValueSet = st.hasValueSet ∧
        st'.dest = if splitSep d.sep v = [] then st.dest else .vec (vecOf st.dest ++ castAll (splitSep d.sep v)) := by
  unfold assignDest at e
  cases hk : d.kind with
  | flag => rw [hk] at e; cases e; exact ⟨rfl, rfl⟩
  | int =>
    rw [hk] at e; simp only [bind_eq_ok] at e
    obtain ⟨_, _, n, hn, e⟩ := e; cases e
    exact ⟨by rw [castOr0_ok hn], rfl⟩
  | str =>
    rw [hk] at e; simp only [bind_eq_ok] at e
    obtain ⟨_, _, e⟩ := e; cases e; exact ⟨rfl, rfl⟩
  | level =>
    rw [hk] at e
    dsimp only at e ⊢
    unfold levelStep
    generalize st.dest = x at e ⊢
    cases x <;> simp only [levelOf] at e ⊢ <;>
    · split at e
      · rename_i hv
        simp only [bind_eq_ok] at e
        obtain ⟨_, _, _, _, e⟩ := e; cases e
        rw [if_pos hv, hv]; simp
      · rename_i hv
        simp only [bind_eq_ok] at e
        obtain ⟨_, _, _, _, n, hn, e⟩ := e; cases e
        rw [if_neg hv, castOr0_ok hn]
        simp only [Bool.not_eq_true] at hv
        rw [hv]; simp
  | vecInt =>
    rw [hk] at e
    dsimp only at e ⊢
    obtain ⟨h1, _, h3⟩ := assignVecLoop_dest d _ _ _ _ e
    exact ⟨h1, h3⟩

end CelmaVerif.ProgArgs
