import CelmaVerif.Lemmas.UsageHelp
/-
  Lemmas for C18 (4): sub-group handlers.  What a sequence of standard arguments (of the main handler and of
  sub-group handlers) leaves in the ONE shared `UsageParams` object; the sub-group usage is the usage of an
  ordinary handler with the sub-group's arguments and the shared settings.
-/
namespace CelmaVerif.Usage
open CelmaVerif.TextBlock

/-- the last element, `d` for the empty list -/
def lastD {α : Type} (l : List α) (d : α) : α := l.foldl (fun _ x => x) d

theorem lastD_cons {α : Type} (x : α) (l : List α) (d : α) : lastD (x :: l) d = lastD l x := rfl
theorem lastD_nil {α : Type} (d : α) : lastD ([] : List α) d = d := rfl

/-- the value a standard argument stores into "print hidden" (only the main handler has such an argument) -/
def Ev.hiddenValue (t : Tree) : Ev → Option Bool
  | .main .printHidden => some (!t.main.flags.usageHidden)
  | _ => none

/-- the value a standard argument stores into "print deprecated" -/
def Ev.deprValue (t : Tree) : Ev → Option Bool
  | .main .printDeprecated => some (!t.main.flags.usageDeprecated)
  | .sub k .printDeprecated => (t.subs[k]?).map (·.deprValue)
  | _ => none

/-- the contents a standard argument asks for -/
def Ev.contentsValue : Ev → Option Contents
  | .main .helpShort => some .shortOnly
  | .sub _ .helpShort => some .shortOnly
  | .main .helpLong => some .longOnly
  | .sub _ .helpLong => some .longOnly
  | _ => none

theorem setContents_ok (u u' : UsageParams) (c : Contents) (h : setContents u c = .ok u') :
    u.contents = .all ∧ u' = { u with contents := c } := by
  unfold setContents at h
  by_cases hc : u.contents = .all
  · simp [hc] at h; exact ⟨hc, h.symm⟩
  · have : (u.contents == Contents.all) = false := by simpa using hc
    simp [this] at h

/-- one standard argument: what it changes -/
theorem apply_spec (t : Tree) (u u' : UsageParams) (e : Ev) (h : Ev.apply t u e = .ok u') :
    u'.printHidden = (Ev.hiddenValue t e).getD u.printHidden
    ∧ u'.printDeprecated = (Ev.deprValue t e).getD u.printDeprecated
    ∧ (match Ev.contentsValue e with
       | none => u'.contents = u.contents
       | some c => u.contents = .all ∧ u'.contents = c ∧ c ≠ .all) := by
  cases e with
  | main s =>
    cases s
    · simp only [Ev.apply, Res.ok.injEq] at h; subst h; simp [Ev.hiddenValue, Ev.deprValue, Ev.contentsValue]
    · simp only [Ev.apply, Res.ok.injEq] at h; subst h; simp [Ev.hiddenValue, Ev.deprValue, Ev.contentsValue]
    · obtain ⟨h1, h2⟩ := setContents_ok _ _ _ h; subst h2; simp [Ev.hiddenValue, Ev.deprValue, Ev.contentsValue, h1]
    · obtain ⟨h1, h2⟩ := setContents_ok _ _ _ h; subst h2; simp [Ev.hiddenValue, Ev.deprValue, Ev.contentsValue, h1]
  | sub k s =>
    cases s
    · simp only [Ev.apply] at h
      cases hs : t.subs[k]? with
      | none => rw [hs] at h; simp at h
      | some sh =>
        rw [hs] at h; simp only [Res.ok.injEq] at h; subst h
        simp [Ev.hiddenValue, Ev.deprValue, Ev.contentsValue, hs]
    · obtain ⟨h1, h2⟩ := setContents_ok _ _ _ h; subst h2; simp [Ev.hiddenValue, Ev.deprValue, Ev.contentsValue, h1]
    · obtain ⟨h1, h2⟩ := setContents_ok _ _ _ h; subst h2; simp [Ev.hiddenValue, Ev.deprValue, Ev.contentsValue, h1]

theorem evalEvs_cons_ok (t : Tree) (e : Ev) (es : List Ev) (u0 u : UsageParams) (h : evalEvs t (e :: es) u0 = .ok u) :
    ∃ u1, Ev.apply t u0 e = .ok u1 ∧ evalEvs t es u1 = .ok u := by
  rw [evalEvs] at h
  cases ha : Ev.apply t u0 e with
  | ok u1 => rw [ha] at h; exact ⟨u1, rfl, h⟩
  | throw x => rw [ha] at h; simp at h
  | oob w => rw [ha] at h; simp at h

/-- once the contents is not `all` no further contents argument is accepted -/
theorem evalEvs_contents_fixed (t : Tree) : ∀ (es : List Ev) (u0 u : UsageParams), u0.contents ≠ .all →
    evalEvs t es u0 = .ok u → es.filterMap Ev.contentsValue = [] ∧ u.contents = u0.contents := by
  intro es
  induction es with
  | nil => intro u0 u _ h; simp [evalEvs] at h; subst h; exact ⟨rfl, rfl⟩
  | cons e es ih =>
    intro u0 u hc h
    obtain ⟨u1, ha, hr⟩ := evalEvs_cons_ok t e es u0 u h
    obtain ⟨_, _, h3⟩ := apply_spec t u0 u1 e ha
    cases hcv : Ev.contentsValue e with
    | none =>
      rw [hcv] at h3
      obtain ⟨i1, i2⟩ := ih u1 u (by rw [h3]; exact hc) hr
      exact ⟨by rw [List.filterMap_cons, hcv]; exact i1, by rw [i2, h3]⟩
    | some c => rw [hcv] at h3; exact absurd h3.1 hc

/-- the shared settings after the standard arguments `evs`: "print hidden" / "print deprecated" hold what the
    last such argument stored (the preset when there was none); at most one contents argument was accepted and
    it is in force -/
theorem evalEvs_spec (t : Tree) : ∀ (evs : List Ev) (u0 u : UsageParams), evalEvs t evs u0 = .ok u →
    u.printHidden = lastD (evs.filterMap (Ev.hiddenValue t)) u0.printHidden
    ∧ u.printDeprecated = lastD (evs.filterMap (Ev.deprValue t)) u0.printDeprecated
    ∧ (u0.contents = .all → evs.filterMap Ev.contentsValue = if u.contents = .all then [] else [u.contents]) := by
  intro evs
  induction evs with
  | nil => intro u0 u h; simp [evalEvs] at h; subst h; exact ⟨rfl, rfl, fun hc => by simp [hc]⟩
  | cons e es ih =>
    intro u0 u h
    obtain ⟨u1, ha, hr⟩ := evalEvs_cons_ok t e es u0 u h
    obtain ⟨h1, h2, h3⟩ := apply_spec t u0 u1 e ha
    obtain ⟨i1, i2, i3⟩ := ih u1 u hr
    refine ⟨?_, ?_, ?_⟩
    · rw [i1, h1, List.filterMap_cons]
      cases Ev.hiddenValue t e <;> rfl
    · rw [i2, h2, List.filterMap_cons]
      cases Ev.deprValue t e <;> rfl
    · intro hc
      rw [List.filterMap_cons]
      cases hcv : Ev.contentsValue e with
      | none =>
        rw [hcv] at h3
        simp only
        exact i3 (by rw [h3]; exact hc)
      | some c =>
        rw [hcv] at h3
        obtain ⟨_, h32, h33⟩ := h3
        obtain ⟨f1, f2⟩ := evalEvs_contents_fixed t es u1 u (by rw [h32]; exact h33) hr
        simp only
        rw [f1, f2, h32, if_neg h33]

/-- entering sub-group `k` gives the handler stored under `k` -/
theorem enter_ok (t : Tree) (k : Nat) (s : SubHandler) (h : t.enter k = .ok s) : t.subs[k]? = some s := by
  unfold Tree.enter at h
  split at h
  · split at h
    · simp at h
    · simp only [Res.ok.injEq] at h; subst h; assumption
  · simp at h

/-- the sub-group usage is the usage of a handler with the sub-group's arguments and the shared settings -/
theorem usageSub_ok (t : Tree) (k : Nat) (evs : List Ev) (ls : List Str) (h : t.usageSub k evs = .ok ls) :
    ∃ s u, t.subs[k]? = some s ∧ evalEvs t evs t.main.params = .ok u ∧ usageWith (s.asHandler u) [] = .ok ls := by
  unfold Tree.usageSub at h
  cases he : t.enter k with
  | ok s =>
    rw [he] at h
    simp only at h
    cases hv : evalEvs t evs t.main.params with
    | ok u => rw [hv] at h; exact ⟨s, u, enter_ok t k s he, rfl, h⟩
    | throw x => rw [hv] at h; simp at h
    | oob w => rw [hv] at h; simp at h
  | throw x => rw [he] at h; simp at h
  | oob w => rw [he] at h; simp at h

theorem usageMain_ok (t : Tree) (evs : List Ev) (ls : List Str) (h : t.usageMain evs = .ok ls) :
    ∃ u, evalEvs t evs t.main.params = .ok u ∧ usageWith { t.main with params := u } [] = .ok ls := by
  unfold Tree.usageMain at h
  cases hv : evalEvs t evs t.main.params with
  | ok u => rw [hv] at h; exact ⟨u, rfl, h⟩
  | throw x => rw [hv] at h; simp at h
  | oob w => rw [hv] at h; simp at h

end CelmaVerif.Usage
