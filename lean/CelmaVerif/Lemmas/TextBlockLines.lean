import CelmaVerif.Lemmas.TextBlock
/-
  Per-line facts of the formatter model: no newline inside a line, indentation, width.
-/
namespace CelmaVerif.TextBlock

/-- like `fmtWords_forall`, for the lines after the first one: nothing is assumed about what
    is on the open line when `formatLine` is entered -/
theorem fmtWords_tail (c : Cfg) (R : Str → Prop) (P : Str → Prop) (Q : Str → Nat → Prop)
    (hclose : ∀ cur len, Q cur len → P cur)
    (hnn : ∀ dash : Bool, Q (c.ind ++ (if dash then [' '] else [])) (c.indent + (if dash then 1 else 0)))
    (hbrk : ∀ (w : Str) (dash : Bool), R w →
      Q (c.ind ++ (if dash then [' ', ' '] else []) ++ w) (c.indent + w.length + (if dash then 2 else 0)))
    (happ1 : ∀ cur len w, Q cur len → R w → len + w.length + 1 ≤ c.width → len ≠ c.indent →
      Q (cur ++ ' ' :: w) (len + 1 + w.length))
    (happ0 : ∀ cur w, Q cur c.indent → R w → c.indent + w.length + 1 ≤ c.width →
      Q (cur ++ w) (c.indent + w.length)) :
    ∀ (ws : List Str), (∀ w ∈ ws, R w) → ∀ cur len dash l rest,
      fmtWords c ws cur len dash = l :: rest → ∀ x ∈ rest, P x := by
  intro ws
  induction ws with
  | nil =>
    intro _ cur len dash l rest h x hx
    simp only [fmtWords, List.cons.injEq] at h
    rw [← h.2] at hx; cases hx
  | cons w ws ih =>
    intro hws cur len dash l rest h x hx
    have hw : R w := hws w (List.mem_cons_self ..)
    have hws' : ∀ w ∈ ws, R w := fun y hy => hws y (List.mem_cons_of_mem _ hy)
    have all := fmtWords_forall c R P Q hclose hnn hbrk happ1 happ0 ws hws'
    unfold fmtWords at h
    split at h
    · simp only [List.cons.injEq] at h
      rw [← h.2] at hx
      exact all _ _ _ (hnn dash) x hx
    · split at h
      · simp only [List.cons.injEq] at h
        rw [← h.2] at hx
        exact all _ _ _ (hbrk w dash hw) x hx
      · split at h
        · exact ih hws' _ _ _ l rest h x hx
        · exact ih hws' _ _ _ l rest h x hx

/-! ### no newline inside a line -/

theorem formatLine_clean (c : Cfg) (start p : Str) (hs : Blanks start) (hp : Clean isNl p) :
    ∀ l ∈ formatLine c start p, Clean isNl l := by
  have hb : ∀ {b : Str}, Blanks b → Clean isNl b := by
    intro b hb x hx; rw [hb x hx]; rfl
  unfold formatLine
  refine fmtWords_forall c (Clean isNl) (Clean isNl) (fun cur _ => Clean isNl cur)
    (fun _ _ h => h) ?_ ?_ ?_ ?_ _ (tokP_clean_other isSp isNl p hp) _ _ _ (hb hs)
  · intro dash; exact hb ((blanks_ind c).append (blanks_pad1 dash))
  · intro w dash hw; exact (hb ((blanks_ind c).append (blanks_pad2 dash))).append hw
  · intro cur len w hq hw _ _; exact hq.append (Clean.cons (by rfl) hw)
  · intro cur w hq hw _; exact hq.append hw

theorem fmtParas_clean (c : Cfg) : ∀ (ps : List Str), (∀ p ∈ ps, Clean isNl p) → ∀ start, Blanks start →
    ∀ l ∈ fmtParas c start ps, Clean isNl l := by
  intro ps
  induction ps with
  | nil => intro _ _ _ l hl; cases hl
  | cons p ps ih =>
    intro hps start hs l hl
    rw [fmtParas] at hl
    rcases List.mem_append.mp hl with hl | hl
    · exact formatLine_clean c start p hs (hps p (List.mem_cons_self ..)) l hl
    · exact ih (fun q hq => hps q (List.mem_cons_of_mem _ hq)) _ (blanks_ind c) l hl

theorem paras_clean (txt : Str) : ∀ p ∈ tokP isNl txt, Clean isNl p :=
  fun p hp => (tokP_spec isNl txt p hp).2.1

theorem format_clean (c : Cfg) (txt : Str) : ∀ l ∈ format c txt, Clean isNl l :=
  fmtParas_clean c _ (paras_clean txt) _ (start_blanks c)

theorem flatMap_congr_mem {f g : Str → List Str} : ∀ (ls : List Str), (∀ l ∈ ls, f l = g l) →
    ls.flatMap f = ls.flatMap g := by
  intro ls
  induction ls with
  | nil => intro _; rfl
  | cons l ls ih =>
    intro h
    rw [List.flatMap_cons, List.flatMap_cons, h l (List.mem_cons_self ..),
      ih (fun x hx => h x (List.mem_cons_of_mem _ hx))]

/-! ### indentation -/

theorem prefix_append_of_prefix {a b : Str} (h : a <+: b) (t : Str) : a <+: b ++ t := by
  obtain ⟨u, hu⟩ := h
  exact ⟨u ++ t, by rw [← List.append_assoc, hu]⟩

/-- all lines but possibly the first one start with the indentation -/
theorem formatLine_tail_indented (c : Cfg) (start p l : Str) (rest : List Str)
    (h : formatLine c start p = l :: rest) : ∀ x ∈ rest, c.ind <+: x := by
  unfold formatLine at h
  refine fmtWords_tail c (fun _ => True) (fun l => c.ind <+: l) (fun cur _ => c.ind <+: cur)
    (fun _ _ h => h) ?_ ?_ ?_ ?_ _ (fun _ _ => trivial) _ _ _ l rest h
  · intro dash; exact List.prefix_append _ _
  · intro w dash _; rw [List.append_assoc]; exact List.prefix_append _ _
  · intro cur len w hq _ _ _; exact prefix_append_of_prefix hq _
  · intro cur w hq _ _; exact prefix_append_of_prefix hq _

theorem formatLine_indented (c : Cfg) (p : Str) : ∀ x ∈ formatLine c c.ind p, c.ind <+: x := by
  unfold formatLine
  refine fmtWords_forall c (fun _ => True) (fun l => c.ind <+: l) (fun cur _ => c.ind <+: cur)
    (fun _ _ h => h) ?_ ?_ ?_ ?_ _ (fun _ _ => trivial) _ _ _ (List.prefix_refl _)
  · intro dash; exact List.prefix_append _ _
  · intro w dash _; rw [List.append_assoc]; exact List.prefix_append _ _
  · intro cur len w hq _ _ _; exact prefix_append_of_prefix hq _
  · intro cur w hq _ _; exact prefix_append_of_prefix hq _

theorem fmtParas_indented (c : Cfg) : ∀ (ps : List Str), ∀ x ∈ fmtParas c c.ind ps, c.ind <+: x := by
  intro ps
  induction ps with
  | nil => intro x hx; cases hx
  | cons p ps ih =>
    intro x hx
    rw [fmtParas] at hx
    rcases List.mem_append.mp hx with hx | hx
    · exact formatLine_indented c p x hx
    · exact ih x hx

/-! ### width -/

/-- the words that `formatLine` sees: no blank, no newline, not empty -/
def PWord (w : Str) : Prop := Word w ∧ Clean isNl w

theorem para_words (p : Str) (hp : Clean isNl p) : ∀ w ∈ tokP isSp p, PWord w := by
  intro w hw
  exact ⟨⟨(tokP_spec isSp p w hw).1, (tokP_spec isSp p w hw).2.1⟩, tokP_clean_other isSp isNl p hp w hw⟩

/-- an over-long line: the indentation (plus the two blanks of a list continuation) and one word -/
def SingleWordLine (c : Cfg) (l : Str) : Prop :=
  ∃ w, PWord w ∧ (l = c.ind ++ w ∨ l = c.ind ++ ' ' :: ' ' :: w)

theorem pad1_length (dash : Bool) : (if dash then [' '] else [] : Str).length = if dash then 1 else 0 := by
  cases dash <;> rfl

theorem pad2_length (dash : Bool) : (if dash then [' ', ' '] else [] : Str).length = if dash then 2 else 0 := by
  cases dash <;> rfl

/-- a word-less line: nothing but the indentation (and the blank written after a forced break
    inside a list item) -/
def BlankLine (c : Cfg) (l : Str) : Prop := Blanks l ∧ l.length ≤ c.indent + 1

theorem formatLine_width_exact (c : Cfg) (start p : Str)
    (hs : start = c.ind ∨ start = []) (hp : Clean isNl p) :
    ∀ l ∈ formatLine c start p, l.length ≤ c.width ∨ SingleWordLine c l ∨ BlankLine c l := by
  unfold formatLine
  refine fmtWords_forall c PWord (fun l => l.length ≤ c.width ∨ SingleWordLine c l ∨ BlankLine c l)
    (fun cur len => cur.length ≤ len ∧ (len ≤ c.width ∨ SingleWordLine c cur ∨ BlankLine c cur))
    ?_ ?_ ?_ ?_ ?_ _ (para_words p hp) _ _ _ ?_
  · intro cur len ⟨h1, h2⟩
    rcases h2 with h2 | h2
    · exact Or.inl (by omega)
    · exact Or.inr h2
  · intro dash
    refine ⟨?_, Or.inr (Or.inr ⟨(blanks_ind c).append (blanks_pad1 dash), ?_⟩)⟩
    · rw [List.length_append, ind_length, pad1_length]; exact Nat.le_refl _
    · rw [List.length_append, ind_length, pad1_length]; cases dash <;> simp
  · intro w dash hw
    refine ⟨?_, Or.inr (Or.inl ⟨w, hw, ?_⟩)⟩
    · rw [List.length_append, List.length_append, ind_length, pad2_length]; omega
    · cases dash
      · exact Or.inl (by simp)
      · exact Or.inr (by simp)
  · intro cur len w ⟨h1, _⟩ _ hfit _
    refine ⟨?_, Or.inl (by omega)⟩
    rw [List.length_append, List.length_cons]; omega
  · intro cur w ⟨h1, _⟩ _ hfit
    refine ⟨?_, Or.inl (by omega)⟩
    rw [List.length_append]; omega
  · rcases hs with hs | hs
    · rw [hs, ind_length]
      exact ⟨Nat.le_refl _, Or.inr (Or.inr ⟨blanks_ind c, by rw [ind_length]; omega⟩)⟩
    · rw [hs]
      exact ⟨Nat.zero_le _, Or.inr (Or.inr ⟨blanks_nil, by simp⟩)⟩

theorem formatLine_width_weak (c : Cfg) (start p : Str) (hs : start = c.ind ∨ start = []) :
    ∀ l ∈ formatLine c start p, l.length ≤ c.width ∨ (tokP isSp l).length ≤ 1 := by
  unfold formatLine
  refine fmtWords_forall c Word (fun l => l.length ≤ c.width ∨ (tokP isSp l).length ≤ 1)
    (fun cur len => cur.length ≤ len ∧ (len ≤ c.width ∨ (tokP isSp cur).length ≤ 1))
    ?_ ?_ ?_ ?_ ?_ _ (fun w hw => ⟨(tokP_spec isSp p w hw).1, (tokP_spec isSp p w hw).2.1⟩) _ _ _ ?_
  · intro cur len ⟨h1, h2⟩
    rcases h2 with h2 | h2
    · exact Or.inl (by omega)
    · exact Or.inr h2
  · intro dash
    refine ⟨?_, Or.inr ?_⟩
    · rw [List.length_append, ind_length, pad1_length]; exact Nat.le_refl _
    · rw [tokP_seps _ ((blanks_ind c).append (blanks_pad1 dash)).seps]; exact Nat.zero_le _
  · intro w dash hw
    refine ⟨?_, Or.inr ?_⟩
    · rw [List.length_append, List.length_append, ind_length, pad2_length]; omega
    · rw [tokP_blanks_word ((blanks_ind c).append (blanks_pad2 dash)) hw]; exact Nat.le_refl _
  · intro cur len w ⟨h1, _⟩ _ hfit _
    refine ⟨?_, Or.inl (by omega)⟩
    rw [List.length_append, List.length_cons]; omega
  · intro cur w ⟨h1, _⟩ _ hfit
    refine ⟨?_, Or.inl (by omega)⟩
    rw [List.length_append]; omega
  · have hb : Blanks start := by
      rcases hs with hs | hs
      · rw [hs]; exact blanks_ind c
      · rw [hs]; exact blanks_nil
    refine ⟨?_, Or.inr ?_⟩
    · rcases hs with hs | hs
      · rw [hs, ind_length]; exact Nat.le_refl _
      · rw [hs]; exact Nat.zero_le _
    · rw [tokP_seps _ hb.seps]; exact Nat.zero_le _

/-- the words of a single line (no newline inside) are its blank-separated tokens -/
theorem words_line (l : Str) (hl : Clean isNl l) : words l = tokP isSp l := by
  have := words_render [l] (by intro x hx; rw [List.mem_singleton.mp hx]; exact hl)
  simpa [render] using this

end CelmaVerif.TextBlock
