import CelmaVerif.Lemmas.UsageText
/-
  Lemmas for C18 (3): the caption lines of the model's usage text; `findArg` / `getArgDesc` for the
  help of a single argument.
-/
namespace CelmaVerif.Usage
open CelmaVerif.TextBlock

/-! ### caption lines -/

def captionOf (l : Str) : Option Bool := match classify l with | .caption m => some m | _ => none

theorem captions_eq (ls : List Str) : captions ls = ls.filterMap captionOf := rfl

theorem captionOf_ind (x : Str) : captionOf (' ' :: ' ' :: ' ' :: x) = none := by
  unfold captionOf
  by_cases hx : x = []
  · subst hx; have : classify [' ', ' ', ' '] = .other := by decide
    rw [this]
  · rw [classify_ind x hx]
    by_cases hh : x.head? = some ' '
    · rw [if_pos hh]
    · rw [if_neg hh]

theorem captionOf_nil : captionOf [] = none := by unfold captionOf; rw [classify_nil]

theorem captions_blocks (u : UsageParams) (ll : Nat) (sl : Bool) (ml : Nat) (vs : List Arg) :
    (vs.flatMap (entryPure u ll sl ml)).filterMap captionOf = [] := by
  rw [List.filterMap_eq_nil_iff]
  intro l hl
  obtain ⟨a, _, hla⟩ := List.mem_flatMap.mp hl
  obtain ⟨s, cs, he, _, hcs, _⟩ := entryPure_shape u ll sl ml a
  rw [he] at hla
  rcases List.mem_cons.mp hla with rfl | hl
  · exact captionOf_ind _
  · rcases hcs with h | h
    · obtain ⟨t, rfl⟩ := h l hl; exact captionOf_ind _
    · subst h; simp at hl; subst hl; exact captionOf_nil

theorem captions_usage_text (u : UsageParams) (ll : Nat) (sl : Bool) (ml : Nat) (args : List Arg) :
    captions ("Usage:".toList ::
        (((if args.filter (doPrint u true) ≠ [] then captionLines true 0 else [])
            ++ (args.filter (doPrint u true)).flatMap (entryPure u ll sl ml))
         ++ ((if args.filter (doPrint u false) ≠ [] then captionLines false (args.filter (doPrint u true)).length else [])
            ++ (args.filter (doPrint u false)).flatMap (entryPure u ll sl ml))) ++ [[]])
      = (if args.filter (doPrint u true) ≠ [] then [true] else [])
        ++ (if args.filter (doPrint u false) ≠ [] then [false] else []) := by
  have hU : captionOf "Usage:".toList = none := by unfold captionOf; rw [classify_usage]
  have hM : captionOf captionMandatory = some true := by unfold captionOf; rw [classify_capM]
  have hO : captionOf captionOptional = some false := by unfold captionOf; rw [classify_capO]
  have cM : (captionLines true 0).filterMap captionOf = [true] := by
    simp [captionLines, hM]
  have cO : ∀ n, (captionLines false n).filterMap captionOf = [false] := by
    intro n
    unfold captionLines
    by_cases hn : n > 0 <;> simp [hn, hO, captionOf_nil]
  rw [captions_eq]
  simp only [List.cons_append, List.filterMap_cons, hU, List.filterMap_append, captions_blocks, List.append_nil,
    List.filterMap_nil, captionOf_nil]
  by_cases h1 : args.filter (doPrint u true) = [] <;> by_cases h2 : args.filter (doPrint u false) = []
  · simp [h1, h2]
  · rw [if_neg (by simpa using h1), if_pos h2, if_neg (by simpa using h1), if_pos h2, cO]; simp
  · rw [if_pos h1, if_neg (by simpa using h2), if_pos h1, if_neg (by simpa using h2), cM]; simp
  · rw [if_pos h1, if_pos h2, if_pos h1, if_pos h2, cM, cO]

/-! ### the usage in closed form -/

theorem usageWith_eq (h : Handler) (sw : List Switch) :
    usageWith h sw =
      if (h.args.filter (doPrint (sw.foldl (Switch.apply h.flags) h.params) true)).any defaultMissing then .throw .runtime_error
      else if (h.args.filter (doPrint (sw.foldl (Switch.apply h.flags) h.params) false)).any defaultMissing then
        .throw .runtime_error
      else .ok ("Usage:".toList ::
        (((if h.args.filter (doPrint (sw.foldl (Switch.apply h.flags) h.params) true) ≠ [] then captionLines true 0 else [])
            ++ (h.args.filter (doPrint (sw.foldl (Switch.apply h.flags) h.params) true)).flatMap
                (entryPure (sw.foldl (Switch.apply h.flags) h.params) h.lineLen
                  (decide (maxLength (sw.foldl (Switch.apply h.flags) h.params) h.args < MaxNameLength))
                  (maxLength (sw.foldl (Switch.apply h.flags) h.params) h.args)))
         ++ ((if h.args.filter (doPrint (sw.foldl (Switch.apply h.flags) h.params) false) ≠ [] then
                captionLines false (h.args.filter (doPrint (sw.foldl (Switch.apply h.flags) h.params) true)).length else [])
            ++ (h.args.filter (doPrint (sw.foldl (Switch.apply h.flags) h.params) false)).flatMap
                (entryPure (sw.foldl (Switch.apply h.flags) h.params) h.lineLen
                  (decide (maxLength (sw.foldl (Switch.apply h.flags) h.params) h.args < MaxNameLength))
                  (maxLength (sw.foldl (Switch.apply h.flags) h.params) h.args)))) ++ [[]]) := by
  unfold usageWith usage
  simp only [print_eq]
  generalize sw.foldl (Switch.apply h.flags) h.params = u
  by_cases h1 : (h.args.filter (doPrint u true)).any defaultMissing = true
  · simp [h1]
  · by_cases h2 : (h.args.filter (doPrint u false)).any defaultMissing = true
    · simp [h1, h2]
    · simp [h1, h2]

/-! ### help for one argument -/

theorem keyEq_refl (k : Key) : keyEq k k = true := by
  unfold keyEq Key.hasWord
  cases hs : k.short <;> cases hl : k.long <;> simp

def KeysDistinct (args : List Arg) : Prop := args.Pairwise (fun a b => keyEq a.key b.key = false)

instance (args : List Arg) : Decidable (KeysDistinct args) := by unfold KeysDistinct; exact inferInstance

/-- `KeyClean`, computably -/
def keyCleanB (k : Key) : Bool := k.short != some ' ' && !k.long.contains ' '

theorem keyClean_of_bool (k : Key) (h : keyCleanB k = true) : KeyClean k := by
  unfold keyCleanB at h
  simp only [Bool.and_eq_true, bne_iff_ne, ne_eq, Bool.not_eq_eq_eq_not, Bool.not_true] at h
  obtain ⟨h1, h2⟩ := h
  refine ⟨?_, ?_⟩
  · intro c hc heq; subst heq; exact h1 hc
  · intro c hc heq; subst heq
    have : k.long.contains ' ' = true := List.contains_iff_mem.mpr hc
    rw [h2] at this; cases this

theorem getArgDesc_mem (args : List Arg) (hd : KeysDistinct args) (a : Arg) (ha : a ∈ args) :
    getArgDesc args a.key = a.desc := by
  induction args with
  | nil => cases ha
  | cons x xs ih =>
    rw [getArgDesc]
    obtain ⟨hx, hxs⟩ := List.pairwise_cons.mp hd
    rcases List.mem_cons.mp ha with rfl | ha
    · rw [if_pos (keyEq_refl _)]
    · rw [if_neg (by rw [hx a ha]; simp)]
      exact ih hxs ha

theorem findExact_some (k : Key) : ∀ (xs : List Arg) (a : Arg), findExact k xs = some a → a ∈ xs ∧ keyEq a.key k = true := by
  intro xs
  induction xs with
  | nil => intro a h; simp [findExact] at h
  | cons x xs ih =>
    intro a h
    rw [findExact] at h
    by_cases he : keyEq x.key k = true
    · rw [if_pos he] at h; simp at h; subst h; exact ⟨List.mem_cons_self .., he⟩
    · rw [if_neg he] at h
      obtain ⟨hm, hk⟩ := ih a h
      exact ⟨List.mem_cons_of_mem _ hm, hk⟩

theorem findExact_none (k : Key) : ∀ (xs : List Arg), findExact k xs = none → ∀ a ∈ xs, keyEq a.key k = false := by
  intro xs
  induction xs with
  | nil => intro _ a ha; cases ha
  | cons x xs ih =>
    intro h a ha
    rw [findExact] at h
    by_cases he : keyEq x.key k = true
    · rw [if_pos he] at h; simp at h
    · rw [if_neg he] at h
      rcases List.mem_cons.mp ha with rfl | ha
      · simpa using he
      · exact ih h a ha

theorem findAbbrLoop_cons (k : Key) (a : Arg) (as : List Arg) (part : Option Arg) :
    findAbbrLoop k (a :: as) part =
      if keyStartsWith a.key k then
        match part with
        | none => findAbbrLoop k as (some a)
        | some _ => .throw .runtime_error
      else findAbbrLoop k as part := by
  cases part <;> simp [findAbbrLoop]

theorem findAbbrLoop_some (k : Key) : ∀ (xs : List Arg) (part : Option Arg) (a : Arg),
    findAbbrLoop k xs part = .ok (some a) → (a ∈ xs ∧ keyStartsWith a.key k = true) ∨ part = some a := by
  intro xs
  induction xs with
  | nil => intro part a h; simp [findAbbrLoop] at h; exact Or.inr h
  | cons x xs ih =>
    intro part a h
    rw [findAbbrLoop_cons] at h
    by_cases hs : keyStartsWith x.key k = true
    · rw [if_pos hs] at h
      cases part with
      | none =>
        simp only at h
        rcases ih _ _ h with ⟨hm, hk⟩ | hp
        · exact Or.inl ⟨List.mem_cons_of_mem _ hm, hk⟩
        · simp at hp; subst hp
          exact Or.inl ⟨List.mem_cons_self .., hs⟩
      | some p => simp at h
    · rw [if_neg hs] at h
      rcases ih _ _ h with ⟨hm, hk⟩ | hp
      · exact Or.inl ⟨List.mem_cons_of_mem _ hm, hk⟩
      · exact Or.inr hp

theorem findAbbrLoop_none (k : Key) : ∀ (xs : List Arg) (part : Option Arg),
    findAbbrLoop k xs part = .ok none → part = none ∧ ∀ a ∈ xs, keyStartsWith a.key k = false := by
  intro xs
  induction xs with
  | nil => intro part h; simp [findAbbrLoop] at h; exact ⟨h, by simp⟩
  | cons x xs ih =>
    intro part h
    rw [findAbbrLoop_cons] at h
    by_cases hs : keyStartsWith x.key k = true
    · rw [if_pos hs] at h
      cases part with
      | none => simp only at h; have := (ih _ h).1; simp at this
      | some p => simp at h
    · rw [if_neg hs] at h
      obtain ⟨hp, hall⟩ := ih _ h
      refine ⟨hp, ?_⟩
      intro a ha
      rcases List.mem_cons.mp ha with rfl | ha
      · simpa using hs
      · exact hall a ha

theorem findAbbrLoop_throw (k : Key) : ∀ (xs : List Arg) (part : Option Arg) (e : Exc),
    findAbbrLoop k xs part = .throw e →
      e = .runtime_error ∧ ∃ pre a post, xs = pre ++ a :: post ∧ keyStartsWith a.key k = true
        ∧ (part.isSome = true ∨ ∃ p ∈ pre, keyStartsWith p.key k = true) := by
  intro xs
  induction xs with
  | nil => intro part e h; simp [findAbbrLoop] at h
  | cons x xs ih =>
    intro part e h
    rw [findAbbrLoop_cons] at h
    by_cases hs : keyStartsWith x.key k = true
    · rw [if_pos hs] at h
      cases part with
      | none =>
        simp only at h
        obtain ⟨h1, pre, a, post, hx, ha, hp⟩ := ih _ _ h
        refine ⟨h1, x :: pre, a, post, by rw [hx]; rfl, ha, Or.inr ?_⟩
        rcases hp with hp | ⟨p, hp, hpk⟩
        · exact ⟨x, List.mem_cons_self .., hs⟩
        · exact ⟨p, List.mem_cons_of_mem _ hp, hpk⟩
      | some p =>
        simp at h
        exact ⟨h.symm, [], x, xs, rfl, hs, Or.inl rfl⟩
    · rw [if_neg hs] at h
      obtain ⟨h1, pre, a, post, hx, ha, hp⟩ := ih _ _ h
      refine ⟨h1, x :: pre, a, post, by rw [hx]; rfl, ha, ?_⟩
      rcases hp with hp | ⟨p, hp, hpk⟩
      · exact Or.inl hp
      · exact Or.inr ⟨p, List.mem_cons_of_mem _ hp, hpk⟩

theorem findAbbrLoop_not_oob (k : Key) : ∀ (xs : List Arg) (part : Option Arg) (w : String),
    findAbbrLoop k xs part ≠ .oob w := by
  intro xs
  induction xs with
  | nil => intro part w h; simp [findAbbrLoop] at h
  | cons x xs ih =>
    intro part w h
    rw [findAbbrLoop_cons] at h
    by_cases hs : keyStartsWith x.key k = true
    · rw [if_pos hs] at h
      cases part with
      | none => exact ih _ _ h
      | some p => simp at h
    · rw [if_neg hs] at h; exact ih _ _ h

/-- `findArg` in one statement -/
theorem findArg_spec (abbr : Bool) (args : List Arg) (k : Key) :
    (∃ a ∈ args, keyMatches abbr a k = true ∧ findArg abbr args k = .ok (some a))
    ∨ ((∀ a ∈ args, keyMatches abbr a k = false) ∧ findArg abbr args k = .ok none)
    ∨ (findArg abbr args k = .throw .runtime_error ∧ abbr = true ∧ (∀ a ∈ args, keyEq a.key k = false)
        ∧ ∃ pre a post, args = pre ++ a :: post ∧ keyStartsWith a.key k = true
            ∧ ∃ p ∈ pre, keyStartsWith p.key k = true) := by
  unfold findArg
  cases hx : findExact k args with
  | some a =>
    obtain ⟨hm, hk⟩ := findExact_some k args a hx
    exact Or.inl ⟨a, hm, by simp [keyMatches, hk], rfl⟩
  | none =>
    have hne := findExact_none k args hx
    simp only
    cases abbr with
    | false =>
      right; left
      exact ⟨fun a ha => by simp [keyMatches, hne a ha], rfl⟩
    | true =>
      simp only [Bool.not_true, Bool.false_eq_true, if_false]
      cases hf : findAbbrLoop k args none with
      | ok r =>
        cases r with
        | some a =>
          rcases findAbbrLoop_some _ _ _ _ hf with ⟨hm, hs⟩ | hp
          · exact Or.inl ⟨a, hm, by simp [keyMatches, hs], rfl⟩
          · simp at hp
        | none =>
          right; left
          exact ⟨fun a ha => by simp [keyMatches, hne a ha, (findAbbrLoop_none _ _ _ hf).2 a ha], rfl⟩
      | throw e =>
        right; right
        obtain ⟨he, pre, a, post, hxs, ha, hp⟩ := findAbbrLoop_throw _ _ _ _ hf
        subst he
        refine ⟨rfl, trivial, hne, pre, a, post, hxs, ha, ?_⟩
        rcases hp with hp | hp
        · simp at hp
        · exact hp
      | oob w => exact absurd hf (findAbbrLoop_not_oob _ _ _ _)

/-! ### handlers built through the API have pairwise different keys -/

theorem applyMod_key (a a' : Arg) (m : Mod) (h : applyMod a m = .ok a') : a'.key = a.key := by
  cases m <;> simp only [applyMod] at h
  all_goals (repeat' split at h) <;> simp at h <;> subst h <;> rfl

theorem applyMods_key (ms : List Mod) : ∀ (a : Arg), (applyMods a ms).1.key = a.key := by
  induction ms with
  | nil => intro a; rfl
  | cons m ms ih =>
    intro a
    rw [applyMods]
    cases hm : applyMod a m with
    | ok a' => simp only; rw [ih a', applyMod_key a a' m hm]
    | throw e => rfl
    | oob w => rfl

theorem applyMod_subGroup (a a' : Arg) (m : Mod) (h : applyMod a m = .ok a') : a'.subGroup = a.subGroup := by
  cases m <;> simp only [applyMod] at h
  all_goals (repeat' split at h) <;> simp at h <;> subst h <;> rfl

theorem applyMods_subGroup (ms : List Mod) : ∀ (a : Arg), (applyMods a ms).1.subGroup = a.subGroup := by
  induction ms with
  | nil => intro a; rfl
  | cons m ms ih =>
    intro a
    rw [applyMods]
    cases hm : applyMod a m with
    | ok a' => simp only; rw [ih a', applyMod_subGroup a a' m hm]
    | throw e => rfl
    | oob w => rfl

theorem plainArgs_append (xs ys : List Arg) : plainArgs (xs ++ ys) = plainArgs xs ++ plainArgs ys := by
  unfold plainArgs; rw [List.filter_append]

theorem subGroupArgs_append (xs ys : List Arg) : subGroupArgs (xs ++ ys) = subGroupArgs xs ++ subGroupArgs ys := by
  unfold subGroupArgs; rw [List.filter_append]

theorem keysDistinct_snoc (xs : List Arg) (a : Arg) (k : Key) (hd : KeysDistinct xs) (hk : a.key = k)
    (hs : storageAccepts xs k = true) : KeysDistinct (xs ++ [a]) := by
  unfold KeysDistinct
  rw [List.pairwise_append]
  refine ⟨hd, by simp, ?_⟩
  intro x hx y hy
  simp at hy; subst hy
  rw [hk]
  unfold storageAccepts at hs
  have := List.all_eq_true.mp hs x hx
  simp at this
  exact this.1

/-- `addArgument` (as repaired: the key is checked against both containers) keeps the keys of ALL arguments of
    the handler - plain and sub-group arguments - pairwise different -/
theorem addArgument_distinct (h : Handler) (a : Arg) (mods : List Mod) (hd : KeysDistinct h.args) :
    KeysDistinct (h.addArgument a mods).1.args := by
  unfold Handler.addArgument
  by_cases hacc : storageAccepts h.args a.key = true
  · rw [if_neg (by simp [hacc])]
    exact keysDistinct_snoc _ _ _ hd (applyMods_key mods a) hacc
  · rw [if_pos (by simpa using hacc)]
    exact hd

/-! ### `findArg2`: the plain arguments first, then the sub-group arguments -/

theorem mem_plain_or_sub (args : List Arg) (a : Arg) (ha : a ∈ args) : a ∈ plainArgs args ∨ a ∈ subGroupArgs args := by
  unfold plainArgs subGroupArgs
  cases hg : a.subGroup with
  | none => exact Or.inl (List.mem_filter.mpr ⟨ha, by simp [hg]⟩)
  | some k => exact Or.inr (List.mem_filter.mpr ⟨ha, by simp [hg]⟩)

theorem plainArgs_sub (args : List Arg) : ∀ a ∈ plainArgs args, a ∈ args := fun _ h => (List.mem_filter.mp h).1
theorem subGroupArgs_sub (args : List Arg) : ∀ a ∈ subGroupArgs args, a ∈ args := fun _ h => (List.mem_filter.mp h).1

/-- a handler without sub-group arguments (every sub-group handler here): one container -/
theorem plainArgs_all (args : List Arg) (h : ∀ a ∈ args, a.subGroup = none) : plainArgs args = args := by
  unfold plainArgs
  rw [List.filter_eq_self]
  intro a ha; simp [h a ha]

theorem subGroupArgs_none (args : List Arg) (h : ∀ a ∈ args, a.subGroup = none) : subGroupArgs args = [] := by
  unfold subGroupArgs
  rw [List.filter_eq_nil_iff]
  intro a ha; simp [h a ha]

/-- `findArg2` in one statement: an argument meant by the key is found - one with exactly this key whenever
    there is one -; or none is meant; or no argument has exactly this key and the abbreviation is ambiguous
    within the container that is searched (the sub-group arguments are only searched when no plain argument is
    meant) -/
theorem findArg2_spec (abbr : Bool) (args : List Arg) (k : Key) :
    (∃ a ∈ args, keyMatches abbr a k = true ∧ findArg2 abbr args k = .ok (some a)
        ∧ ((∃ b ∈ args, keyEq b.key k = true) → keyEq a.key k = true))
    ∨ ((∀ a ∈ args, keyMatches abbr a k = false) ∧ findArg2 abbr args k = .ok none)
    ∨ (findArg2 abbr args k = .throw .runtime_error ∧ abbr = true
        ∧ (∀ a ∈ args, keyEq a.key k = false)
        ∧ ∃ c, (c = plainArgs args ∨ (c = subGroupArgs args ∧ ∀ a ∈ plainArgs args, keyMatches abbr a k = false))
          ∧ ∃ pre a post, c = pre ++ a :: post ∧ keyStartsWith a.key k = true
              ∧ ∃ p ∈ pre, keyStartsWith p.key k = true) := by
  unfold findArg2
  cases hx1 : findExact k (plainArgs args) with
  | some a =>
    obtain ⟨hm, hk⟩ := findExact_some k _ a hx1
    exact Or.inl ⟨a, plainArgs_sub _ a hm, by simp [keyMatches, hk], rfl, fun _ => hk⟩
  | none =>
    simp only
    cases hx2 : findExact k (subGroupArgs args) with
    | some a =>
      obtain ⟨hm, hk⟩ := findExact_some k _ a hx2
      exact Or.inl ⟨a, subGroupArgs_sub _ a hm, by simp [keyMatches, hk], rfl, fun _ => hk⟩
    | none =>
      simp only
      have hne : ∀ a ∈ args, keyEq a.key k = false := by
        intro a ha
        rcases mem_plain_or_sub args a ha with h | h
        · exact findExact_none k _ hx1 a h
        · exact findExact_none k _ hx2 a h
      have hnoex : (∃ b ∈ args, keyEq b.key k = true) → False := by
        rintro ⟨b, hb, hbk⟩; rw [hne b hb] at hbk; cases hbk
      rcases findArg_spec abbr (plainArgs args) k with ⟨a, ha, hm, hf⟩ | ⟨hn, hf⟩ | ⟨hf, hab, _, hrest⟩
      · left; rw [hf]; exact ⟨a, plainArgs_sub _ a ha, hm, rfl, fun h => (hnoex h).elim⟩
      · rw [hf]
        simp only
        rcases findArg_spec abbr (subGroupArgs args) k with ⟨a, ha, hm, hf2⟩ | ⟨hn2, hf2⟩ | ⟨hf2, hab, _, hrest⟩
        · left; exact ⟨a, subGroupArgs_sub _ a ha, hm, hf2, fun h => (hnoex h).elim⟩
        · right; left
          refine ⟨?_, hf2⟩
          intro a ha
          rcases mem_plain_or_sub args a ha with h | h
          · exact hn a h
          · exact hn2 a h
        · right; right
          exact ⟨hf2, hab, hne, _, Or.inr ⟨rfl, hn⟩, hrest⟩
      · right; right
        rw [hf]
        exact ⟨rfl, hab, hne, _, Or.inl rfl, hrest⟩

end CelmaVerif.Usage
