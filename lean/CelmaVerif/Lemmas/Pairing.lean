import CelmaVerif.Model.ProgArgs.Abstract
import CelmaVerif.Lemmas.HandlerSafe
import CelmaVerif.Lemmas.Keys
/-
  Pairing layer, direction "what was accepted was a list of uses": every successful run of the
  element loop is the replay of its own use log by `applyUses` — the cursor, the key lookup and the
  value modes decide *which* uses there are, nothing else reaches the destinations, counters and
  constraint lists.
-/
namespace CelmaVerif.ProgArgs
open CelmaVerif CelmaVerif.Keys

/-- two handler states agree on everything the rules read and write (they may differ in the
    last-argument marker and the inversion flag, which belong to the pairing layer) -/
structure HState.Same (a b : HState) : Prop where
  args    : a.args = b.args
  pending : a.pending = b.pending
  globals : a.globals = b.globals
  uses    : a.uses = b.uses
  fromSrc : a.fromSrc = b.fromSrc

theorem HState.Same.refl (a : HState) : a.Same a := ⟨rfl, rfl, rfl, rfl, rfl⟩
theorem HState.Same.symm {a b : HState} (h : a.Same b) : b.Same a :=
  ⟨h.args.symm, h.pending.symm, h.globals.symm, h.uses.symm, h.fromSrc.symm⟩
theorem HState.Same.trans {a b c : HState} (h1 : a.Same b) (h2 : b.Same c) : a.Same c :=
  ⟨h1.args.trans h2.args, h1.pending.trans h2.pending, h1.globals.trans h2.globals, h1.uses.trans h2.uses,
   h1.fromSrc.trans h2.fromSrc⟩

/-- a state that agrees with `a` and has the same inversion flag is `a` with another last-argument marker -/
theorem same_eq_with_last {a b : HState} (hs : a.Same b) (hi : a.inverted = b.inverted) :
    b = { a with lastArg := b.lastArg } := by
  cases a; cases b
  cases hs with
  | mk h1 h2 h3 h4 h5 =>
    simp only at h1 h2 h3 h4 h5 hi
    subst h1 h2 h3 h4 h5 hi
    rfl

def Res.mapOk {α β : Type} (f : α → β) : Res α → Res β
  | .ok a => .ok (f a)
  | .throw e => .throw e
  | .oob w => .oob w

/-- `assignValue` does not look at the last-argument marker and hands it through -/
theorem assignValue_lastArg (a : HState) (l : Option Nat) (i : Nat) (d : ArgDef) (v : Word) (f : Bool) :
    assignValue { a with lastArg := l } i d v f = Res.mapOk (fun r => { r with lastArg := l }) (assignValue a i d v f) := by
  unfold assignValue
  cases throwIf d.deprecated Exc.runtime_error with
  | throw e => rfl
  | oob w => rfl
  | ok _ =>
    simp only [Res.bind_ok]
    cases countValue a.fromSrc d.card (a.args.getD i default).cnt with
    | throw e => rfl
    | oob w => rfl
    | ok cnt =>
      simp only [Res.bind_ok]
      cases throwIf a.inverted Exc.runtime_error with
      | throw e => rfl
      | oob w => rfl
      | ok _ =>
        simp only [Res.bind_ok]
        cases assignDest d { (a.args.getD i default) with cnt := cnt } v with
        | throw e => rfl
        | oob w => rfl
        | ok st' => rfl

/-- what a successful `assignValue` leaves alone and what it appends to the log -/
theorem assignValue_frame {a a' : HState} {i : Nat} {d : ArgDef} {v : Word} {f : Bool}
    (h : assignValue a i d v f = .ok a') :
    a'.inverted = a.inverted ∧ a'.lastArg = a.lastArg ∧ a'.fromSrc = a.fromSrc ∧ a'.globals = a.globals ∧
    a'.uses = a.uses ++ [{ arg := i, val := v, ident := f }] ∧ a.inverted = false := by
  unfold assignValue at h
  cases h1 : throwIf d.deprecated Exc.runtime_error with
  | throw e => rw [h1] at h; cases h
  | oob w => rw [h1] at h; cases h
  | ok _ =>
    rw [h1] at h
    simp only [Res.bind_ok] at h
    cases h2 : countValue a.fromSrc d.card (a.args.getD i default).cnt with
    | throw e => rw [h2] at h; cases h
    | oob w => rw [h2] at h; cases h
    | ok cnt =>
      rw [h2] at h
      simp only [Res.bind_ok] at h
      cases h3 : throwIf a.inverted Exc.runtime_error with
      | throw e => rw [h3] at h; cases h
      | oob w => rw [h3] at h; cases h
      | ok _ =>
        rw [h3] at h
        simp only [Res.bind_ok] at h
        have hinv : a.inverted = false := by
          unfold throwIf at h3
          cases hb : a.inverted with
          | false => rfl
          | true => rw [hb] at h3; simp at h3
        cases h4 : assignDest d { (a.args.getD i default) with cnt := cnt } v with
        | throw e => rw [h4] at h; cases h
        | oob w => rw [h4] at h; cases h
        | ok st' =>
          rw [h4] at h
          simp only [Res.bind_ok, Res.pure_eq] at h
          cases h
          exact ⟨rfl, rfl, rfl, rfl, rfl, hinv⟩

theorem handleIdentifiedArg_lastArg (cfg : Cfg) (a : HState) (l : Option Nat) (i : Nat) (d : ArgDef) (v : Word) :
    handleIdentifiedArg cfg { a with lastArg := l } i d v
      = Res.mapOk (fun r => { r with lastArg := l }) (handleIdentifiedArg cfg a i d v) := by
  unfold handleIdentifiedArg
  cases pendingIdentified d.key a.pending with
  | throw e => rfl
  | oob w => rfl
  | ok p =>
    simp only [Res.bind_ok]
    cases executeGlobals cfg.globals a.globals d.key with
    | throw e => rfl
    | oob w => rfl
    | ok g =>
      simp only [Res.bind_ok]
      have := assignValue_lastArg { a with pending := p, globals := g } l i d v true
      simp only at this
      rw [this]
      cases assignValue { a with pending := p, globals := g } i d v true with
      | throw e => rfl
      | oob w => rfl
      | ok r => rfl

theorem handleIdentifiedArg_frame {cfg : Cfg} {a a' : HState} {i : Nat} {d : ArgDef} {v : Word}
    (h : handleIdentifiedArg cfg a i d v = .ok a') :
    a'.inverted = false ∧ a'.lastArg = a.lastArg ∧ a'.fromSrc = a.fromSrc ∧
    a'.uses = a.uses ++ [{ arg := i, val := v, ident := true }] ∧ a.inverted = false := by
  unfold handleIdentifiedArg at h
  cases h1 : pendingIdentified d.key a.pending with
  | throw e => rw [h1] at h; cases h
  | oob w => rw [h1] at h; cases h
  | ok p =>
    rw [h1] at h
    simp only [Res.bind_ok] at h
    cases h2 : executeGlobals cfg.globals a.globals d.key with
    | throw e => rw [h2] at h; cases h
    | oob w => rw [h2] at h; cases h
    | ok g =>
      rw [h2] at h
      simp only [Res.bind_ok] at h
      cases h3 : assignValue { a with pending := p, globals := g } i d v true with
      | throw e => rw [h3] at h; cases h
      | oob w => rw [h3] at h; cases h
      | ok r =>
        rw [h3] at h
        simp only [Res.bind_ok, Res.pure_eq] at h
        cases h
        obtain ⟨f1, f2, f3, f4, f5, f6⟩ := assignValue_frame h3
        exact ⟨rfl, f2, f3, f5, f6⟩

/-- the table lookup returns an index into `cfg.args` and the definition stored there -/
theorem findArg_cfg {cfg : Cfg} {k : Key} {i : Nat} {d : ArgDef}
    (h : findArg cfg.abbr cfg.table k = .ok (some (i, d))) : cfg.args[i]? = some d := by
  obtain ⟨key, h1, _⟩ := findArg_index cfg.abbr cfg.table k i d h
  unfold Cfg.table at h1
  rw [List.getElem?_map] at h1
  cases hc : cfg.args[i]? with
  | none => rw [hc] at h1; cases h1
  | some d' =>
    rw [hc] at h1
    simp only [Option.map_some, Option.some.injEq, Prod.mk.injEq] at h1
    rw [h1.2]

/-- outcome of one element for the rules: nothing happened, or exactly one use was applied -/
inductive StepEffect (cfg : Cfg) (h h' : HState) : Prop where
  | none (same : h'.Same h) (inv : h.inverted = true → h'.inverted = true)
  | use (u : Use) (hinv : h.inverted = false) (hinv' : h'.inverted = false)
      (rep : ∀ g : HState, g.Same h → g.inverted = false →
        ∃ g', applyUse cfg g u = .ok g' ∧ g'.Same h' ∧ g'.inverted = false)
      (log : h'.uses = h.uses ++ [u])

theorem applyUse_ident_of (cfg : Cfg) (h h' g : HState) (i : Nat) (d : ArgDef) (v : Word)
    (hd : cfg.args[i]? = some d) (hh : handleIdentifiedArg cfg { h with lastArg := some i } i d v = .ok h')
    (hs : g.Same h) (hgi : g.inverted = false) (hhi : h.inverted = false) :
    ∃ g', applyUse cfg g { arg := i, val := v, ident := true } = .ok g' ∧ g'.Same h' ∧ g'.inverted = false := by
  have hg : g = { h with lastArg := g.lastArg } := same_eq_with_last hs.symm (by rw [hhi, hgi])
  unfold applyUse
  simp only [hd, if_true]
  have : ({ g with lastArg := some i } : HState) = { h with lastArg := some i } := by
    rw [hg]
  rw [this, hh]
  exact ⟨h', rfl, HState.Same.refl _, (handleIdentifiedArg_frame hh).1⟩

theorem processArg_effect (cfg : Cfg) (h : HState) (key : Key) (ai : It) (h' : HState) (ai' : It) (r : ArgResult)
    (he : processArg cfg h key ai = .ok (h', ai', r)) : StepEffect cfg h h' := by
  unfold processArg at he
  cases hf : findArg cfg.abbr cfg.table key with
  | throw e => rw [hf] at he; cases he
  | oob w => rw [hf] at he; cases he
  | ok found =>
    rw [hf] at he
    simp only [Res.bind_ok] at he
    cases found with
    | none =>
      simp only [Res.pure_eq, Res.ok.injEq, Prod.mk.injEq] at he
      obtain ⟨e1, _, _⟩ := he
      subst e1
      exact .none ⟨rfl, rfl, rfl, rfl, rfl⟩ (fun x => x)
    | some p =>
      obtain ⟨i, d⟩ := p
      have hd := findArg_cfg hf
      dsimp only at he
      -- every successful branch is `handleIdentifiedArg cfg { h with lastArg := some i } i d v`
      have key_fact : ∀ v (hh : HState), handleIdentifiedArg cfg { h with lastArg := some i } i d v = .ok hh →
          StepEffect cfg h hh := by
        intro v hh hok
        obtain ⟨f1, _, _, f4, f5⟩ := handleIdentifiedArg_frame hok
        exact .use { arg := i, val := v, ident := true } f5 f1
          (fun g hs hgi => applyUse_ident_of cfg h hh g i d v hd hok hs hgi f5) f4
      split at he
      · cases hh : handleIdentifiedArg cfg { h with lastArg := some i } i d [] with
        | throw e => rw [hh] at he; cases he
        | oob w => rw [hh] at he; cases he
        | ok x =>
          rw [hh] at he
          simp only [Res.bind_ok, Res.pure_eq, Res.ok.injEq, Prod.mk.injEq] at he
          rw [← he.1]; exact key_fact _ _ hh
      · cases hs : (if d.vmode = VMode.required then ({ ai with remAsValue := true } : It) else ai).step with
        | throw e => rw [hs] at he; cases he
        | oob w => rw [hs] at he; cases he
        | ok ait2 =>
          rw [hs] at he
          simp only [Res.bind_ok] at he
          split at he
          · split at he
            · cases hh : handleIdentifiedArg cfg { h with lastArg := some i } i d [] with
              | throw e => rw [hh] at he; cases he
              | oob w => rw [hh] at he; cases he
              | ok x =>
                rw [hh] at he
                simp only [Res.bind_ok, Res.pure_eq, Res.ok.injEq, Prod.mk.injEq] at he
                rw [← he.1]; exact key_fact _ _ hh
            · cases he
          · cases hh : handleIdentifiedArg cfg { h with lastArg := some i } i d ait2.cur.val with
            | throw e => rw [hh] at he; cases he
            | oob w => rw [hh] at he; cases he
            | ok x =>
              rw [hh] at he
              simp only [Res.bind_ok, Res.pure_eq, Res.ok.injEq, Prod.mk.injEq] at he
              rw [← he.1]; exact key_fact _ _ hh

theorem evalSingleArgument_effect (cfg : Cfg) (h : HState) (ai : It) (h' : HState) (ai' : It) (r : ArgResult)
    (he : evalSingleArgument cfg h ai = .ok (h', ai', r)) : StepEffect cfg h h' := by
  unfold evalSingleArgument at he
  split at he
  · exact processArg_effect _ _ _ _ _ _ _ he
  · cases hk : wordKey ai.cur.str with
    | throw e => rw [hk] at he; cases he
    | oob w => rw [hk] at he; cases he
    | ok key =>
      rw [hk] at he
      simp only [Res.bind_ok] at he
      exact processArg_effect _ _ _ _ _ _ _ he
  · split at he
    · simp only [Res.pure_eq, Res.ok.injEq, Prod.mk.injEq] at he
      rw [← he.1]; exact .none (HState.Same.refl _) (fun x => x)
    · simp only [Res.pure_eq, Res.ok.injEq, Prod.mk.injEq] at he
      rw [← he.1]; exact .none ⟨rfl, rfl, rfl, rfl, rfl⟩ (fun _ => rfl)
  · dsimp only at he
    split at he
    · rename_i i d hml
      -- free value of the last multi-value argument
      have hd : cfg.args[i]? = some d := by
        revert hml
        cases h.lastArg with
        | none => intro hml; cases hml
        | some j =>
          dsimp only
          cases hc : cfg.args[j]? with
          | none => intro hml; cases hml
          | some d' =>
            dsimp only
            split
            · intro hml; cases hml; exact hc
            · intro hml; cases hml
      cases ha : assignValue h i d ai.cur.val with
      | throw e => rw [ha] at he; cases he
      | oob w => rw [ha] at he; cases he
      | ok x =>
        rw [ha] at he
        simp only [Res.bind_ok, Res.pure_eq, Res.ok.injEq, Prod.mk.injEq] at he
        rw [← he.1]
        obtain ⟨f1, f2, f3, f4, f5, f6⟩ := assignValue_frame ha
        refine .use { arg := i, val := ai.cur.val, ident := false } f6 (by rw [f1, f6]) ?_ f5
        intro g hs hgi
        have hg : g = { h with lastArg := g.lastArg } := same_eq_with_last hs.symm (by rw [f6, hgi])
        unfold applyUse
        simp only [hd, Bool.false_eq_true, if_false]
        rw [hg, assignValue_lastArg, ha]
        exact ⟨_, rfl, ⟨rfl, rfl, rfl, rfl, rfl⟩, by show x.inverted = false; rw [f1, f6]⟩
    · cases hf : findArg cfg.abbr cfg.table Key.pos with
      | throw e => rw [hf] at he; cases he
      | oob w => rw [hf] at he; cases he
      | ok found =>
        rw [hf] at he
        simp only [Res.bind_ok] at he
        cases found with
        | none =>
          simp only [Res.pure_eq, Res.ok.injEq, Prod.mk.injEq] at he
          rw [← he.1]; exact .none (HState.Same.refl _) (fun x => x)
        | some p =>
          obtain ⟨i, d⟩ := p
          have hd := findArg_cfg hf
          dsimp only at he
          cases hh : handleIdentifiedArg cfg h i d ai.cur.val with
          | throw e => rw [hh] at he; cases he
          | oob w => rw [hh] at he; cases he
          | ok x =>
            rw [hh] at he
            simp only [Res.bind_ok, Res.pure_eq, Res.ok.injEq, Prod.mk.injEq] at he
            rw [← he.1]
            obtain ⟨f1, f2, f3, f4, f5⟩ := handleIdentifiedArg_frame hh
            refine .use { arg := i, val := ai.cur.val, ident := true } f5 f1 ?_ f4
            intro g hs hgi
            -- the positional argument is handled without touching the last-argument marker
            have hg : g = { h with lastArg := g.lastArg } := same_eq_with_last hs.symm (by rw [f5, hgi])
            unfold applyUse
            simp only [hd, if_true]
            have e1 : ({ g with lastArg := some i } : HState) = { h with lastArg := some i } := by rw [hg]
            rw [e1, handleIdentifiedArg_lastArg, hh]
            exact ⟨_, rfl, ⟨rfl, rfl, rfl, rfl, rfl⟩, f1⟩

/-- replaying a log from a state that agrees with the start state -/
def Replays (cfg : Cfg) (h h' : HState) : Prop :=
  ∃ us, h'.uses = h.uses ++ us ∧
    ∀ g : HState, g.Same h → g.inverted = false → ∃ g', applyUses cfg g us = .ok g' ∧ g'.Same h' ∧ g'.inverted = false

theorem Replays.refl (cfg : Cfg) (h : HState) : Replays cfg h h :=
  ⟨[], by simp, fun g hs hgi => ⟨g, rfl, hs, hgi⟩⟩

theorem Replays.of_same (cfg : Cfg) {h h' : HState} (hs : h'.Same h) : Replays cfg h h' :=
  ⟨[], by simp [hs.uses], fun g hg hgi => ⟨g, rfl, hg.trans hs.symm, hgi⟩⟩

theorem Replays.trans_same {cfg : Cfg} {a b c : HState} (h1 : b.Same a) (h2 : Replays cfg b c) : Replays cfg a c := by
  obtain ⟨us, hu, hr⟩ := h2
  exact ⟨us, by rw [hu, h1.uses], fun g hg hgi => hr g (hg.trans h1.symm) hgi⟩

theorem Replays.step_use {cfg : Cfg} {a b c : HState} (u : Use)
    (rep : ∀ g : HState, g.Same a → g.inverted = false → ∃ g', applyUse cfg g u = .ok g' ∧ g'.Same b ∧ g'.inverted = false)
    (log : b.uses = a.uses ++ [u]) (h2 : Replays cfg b c) : Replays cfg a c := by
  obtain ⟨us, hu, hr⟩ := h2
  refine ⟨u :: us, by rw [hu, log]; simp, ?_⟩
  intro g hg hgi
  obtain ⟨g1, e1, s1, i1⟩ := rep g hg hgi
  obtain ⟨g2, e2, s2, i2⟩ := hr g1 s1 i1
  exact ⟨g2, by simp only [applyUses, e1, Res.bind_ok]; exact e2, s2, i2⟩

/-- Every successful run of the element loop is the replay of the uses it logged. (If the inversion
    flag is set no further use can succeed, so the remaining elements change nothing.) -/
theorem iterateLoop_replays (cfg : Cfg) (fuel : Nat) : ∀ (h : HState) (ai : It) (h' : HState),
    iterateLoop cfg fuel h ai = .ok h' → Replays cfg h h' := by
  induction fuel with
  | zero => intro h ai h' he; simp [iterateLoop] at he
  | succ fuel ih =>
    intro h ai h' he
    unfold iterateLoop at he
    split at he
    · cases he; exact Replays.refl cfg h
    · cases hs : evalSingleArgument cfg h ai with
      | throw e => rw [hs] at he; cases he
      | oob w => rw [hs] at he; cases he
      | ok p =>
        obtain ⟨h1, ai1, r⟩ := p
        rw [hs] at he
        simp only [Res.bind_ok] at he
        have eff := evalSingleArgument_effect cfg h ai h1 ai1 r hs
        have rest : Replays cfg h1 h' := by
          cases r with
          | unknown => cases he
          | last => simp only [Res.pure_eq, Res.ok.injEq] at he; rw [he]; exact Replays.refl cfg h'
          | consumed =>
            dsimp only at he
            cases hst : ai1.step with
            | throw e => rw [hst] at he; cases he
            | oob w => rw [hst] at he; cases he
            | ok ai2 =>
              rw [hst] at he
              simp only [Res.bind_ok] at he
              exact ih h1 ai2 h' he
        cases eff with
        | none same inv => exact Replays.trans_same same rest
        | use u hinv hinv' rep log => exact Replays.step_use u rep log rest

theorem iterateArguments_replays (cfg : Cfg) (h h' : HState) (argv : List Word)
    (he : iterateArguments cfg h argv = .ok h') : Replays cfg h h' := by
  unfold iterateArguments at he
  cases hb : It.begin argv with
  | throw e => rw [hb] at he; cases he
  | oob w => rw [hb] at he; cases he
  | ok ai =>
    rw [hb] at he
    simp only [Res.bind_ok] at he
    exact iterateLoop_replays cfg _ h ai h' he

theorem endChecks_same {cfg : Cfg} {a b a' : HState} (hs : a.Same b) (he : endChecks cfg a = .ok a') :
    ∃ b', endChecks cfg b = .ok b' ∧ a'.Same b' := by
  unfold endChecks at he ⊢
  dsimp only at he ⊢
  rw [← hs.args, ← hs.pending, ← hs.globals]
  cases h1 : checkMandatoryCardinality cfg.args a.args with
  | throw e => rw [h1] at he; cases he
  | oob w => rw [h1] at he; cases he
  | ok _ =>
    rw [h1] at he
    simp only [Res.bind_ok] at he ⊢
    cases h2 : pendingCheckRequired a.pending with
    | throw e => rw [h2] at he; cases he
    | oob w => rw [h2] at he; cases he
    | ok _ =>
      rw [h2] at he
      simp only [Res.bind_ok] at he ⊢
      cases h3 : checkGlobals cfg.args a.args cfg.globals a.globals with
      | throw e => rw [h3] at he; cases he
      | oob w => rw [h3] at he; cases he
      | ok _ =>
        rw [h3] at he
        simp only [Res.bind_ok, Res.pure_eq, Res.ok.injEq] at he ⊢
        subst he
        exact ⟨_, rfl, ⟨rfl, rfl, rfl, hs.uses, hs.fromSrc⟩⟩

/-- Command-line evaluation is the abstract evaluation of the uses it logged: if `evalArguments`
    (no file, no environment source) returns normally, then `evalUses` on the logged uses returns
    normally with the same argument states, constraint list and constraint states. -/
theorem evalArguments_replays (cfg : Cfg) (h0 hf : HState) (argv : List Word) (hi : h0.inverted = false)
    (he : evalArguments cfg h0 {} argv = .ok hf) :
    ∃ us, hf.uses = h0.uses ++ us ∧ ∃ g, evalUses cfg h0 us = .ok g ∧ g.Same hf := by
  unfold evalArguments evalFileSource evalEnvSource at he
  simp only [Res.pure_eq, Res.bind_ok] at he
  cases hit : iterateArguments cfg h0 argv with
  | throw e => rw [hit] at he; cases he
  | oob w => rw [hit] at he; cases he
  | ok h1 =>
    rw [hit] at he
    simp only [Res.bind_ok] at he
    obtain ⟨us, hu, hr⟩ := iterateArguments_replays cfg h0 h1 argv hit
    obtain ⟨g1, e1, s1, _⟩ := hr h0 (HState.Same.refl _) hi
    obtain ⟨g2, e2, s2⟩ := endChecks_same s1.symm he
    refine ⟨us, ?_, g2, ?_, s2.symm⟩
    · have : hf.uses = h1.uses := by
        unfold endChecks at he
        dsimp only at he
        cases c1 : checkMandatoryCardinality cfg.args h1.args with
        | throw e => rw [c1] at he; cases he
        | oob w => rw [c1] at he; cases he
        | ok _ =>
          rw [c1] at he; simp only [Res.bind_ok] at he
          cases c2 : pendingCheckRequired h1.pending with
          | throw e => rw [c2] at he; cases he
          | oob w => rw [c2] at he; cases he
          | ok _ =>
            rw [c2] at he; simp only [Res.bind_ok] at he
            cases c3 : checkGlobals cfg.args h1.args cfg.globals h1.globals with
            | throw e => rw [c3] at he; cases he
            | oob w => rw [c3] at he; cases he
            | ok _ =>
              rw [c3] at he; simp only [Res.bind_ok, Res.pure_eq, Res.ok.injEq] at he
              rw [← he]
      rw [this, hu]
    · unfold evalUses
      rw [e1]; simp only [Res.bind_ok]; exact e2

/-- the destination assignment of a scalar argument leaves the cardinality counter alone -/
theorem assignDest_keeps_cnt {d : ArgDef} {st st' : ArgSt} {v : Word} (hk : d.kind ≠ .vecInt)
    (h : assignDest d st v = .ok st') : st'.cnt = st.cnt := by
  unfold assignDest at h
  split at h
  · cases h; rfl
  · simp only [Res.bind_eq_ok, Res.pure_eq, Res.ok.injEq] at h
    obtain ⟨_, _, _, _, h⟩ := h; rw [← h]
  · simp only [Res.bind_eq_ok, Res.pure_eq, Res.ok.injEq] at h
    obtain ⟨_, _, h⟩ := h; rw [← h]
  · dsimp only at h
    split at h
    · simp only [Res.bind_eq_ok, Res.pure_eq, Res.ok.injEq] at h
      obtain ⟨_, _, _, _, h⟩ := h; rw [← h]
    · simp only [Res.bind_eq_ok, Res.pure_eq, Res.ok.injEq] at h
      obtain ⟨_, _, _, _, _, _, h⟩ := h; rw [← h]
  · rename_i hv; exact absurd hv hk

/-- values that come from the argument file or the environment variable do not count towards the
    cardinality of a scalar argument (which is what lets the command line override them) -/
theorem assignValue_fromSrc_cnt {h h' : HState} {i : Nat} {d : ArgDef} {v : Word} {f : Bool}
    (hsrc : h.fromSrc = true) (hk : d.kind ≠ .vecInt) (hlt : i < h.args.length)
    (he : assignValue h i d v f = .ok h') :
    (h'.args.getD i default).cnt = (h.args.getD i default).cnt := by
  unfold assignValue at he
  cases h1 : throwIf d.deprecated Exc.runtime_error with
  | throw e => rw [h1] at he; cases he
  | oob w => rw [h1] at he; cases he
  | ok _ =>
    rw [h1] at he
    simp only [Res.bind_ok] at he
    have hc : countValue h.fromSrc d.card (h.args.getD i default).cnt = .ok (h.args.getD i default).cnt := by
      unfold countValue; simp [hsrc]
    rw [hc] at he
    simp only [Res.bind_ok] at he
    cases h3 : throwIf h.inverted Exc.runtime_error with
    | throw e => rw [h3] at he; cases he
    | oob w => rw [h3] at he; cases he
    | ok _ =>
      rw [h3] at he
      simp only [Res.bind_ok] at he
      cases h4 : assignDest d { (h.args.getD i default) with cnt := (h.args.getD i default).cnt } v with
      | throw e => rw [h4] at he; cases he
      | oob w => rw [h4] at he; cases he
      | ok st' =>
        rw [h4] at he
        simp only [Res.bind_ok, Res.pure_eq, Res.ok.injEq] at he
        subst he
        have hcnt : st'.cnt = (h.args.getD i default).cnt := assignDest_keeps_cnt hk h4
        show ((h.args.set i st').getD i default).cnt = _
        simp [hlt, hcnt]

end CelmaVerif.ProgArgs
