import CelmaVerif.Lemmas.FixedStringSafe2
namespace CelmaVerif.FixedString
open CelmaVerif
variable {c : Cfg}

/-! ### pointwise descriptions of the primitives -/

theorem write_getElem? {buf src : List Byte} {off : Nat} (h : off + src.length ≤ buf.length) (i : Nat) :
    (buf.take off ++ src ++ buf.drop (off + src.length))[i]? =
      if i < off then buf[i]? else if i < off + src.length then src[i - off]? else buf[i]? := by
  simp only [List.getElem?_append, List.getElem?_take, List.getElem?_drop, List.length_append,
    List.length_take]
  have : min off buf.length = off := Nat.min_eq_left (by omega)
  rw [this]
  repeat' split
  all_goals first | rfl | omega | (congr 1; omega)

theorem copyIn_getElem? {buf a r : List Byte} {off spos n : Nat} (h : copyIn buf off a spos n = .ok r)
    (h1 : off + n ≤ buf.length) (h2 : spos + n ≤ a.length) (i : Nat) :
    r[i]? = if i < off then buf[i]? else if i < off + n then a[spos + (i - off)]? else buf[i]? := by
  unfold copyIn at h
  rw [Mem.read_ok h2, bindR_ok] at h
  have hl : ((a.drop spos).take n).length = n := by simp; omega
  rw [Mem.write_ok (by omega)] at h
  cases h
  rw [write_getElem? (by omega), hl]
  split
  · rfl
  · split
    · rw [List.getElem?_take_of_lt (by omega), List.getElem?_drop]
    · rfl

theorem move_getElem? {buf r : List Byte} {dst src n : Nat} {w : String} (h : Mem.move buf dst src n w = .ok r)
    (h1 : dst + n ≤ buf.length) (h2 : src + n ≤ buf.length) (i : Nat) :
    r[i]? = if i < dst then buf[i]? else if i < dst + n then buf[src + (i - dst)]? else buf[i]? := by
  unfold Mem.move at h
  rw [Mem.read_ok h2] at h
  simp only [] at h
  have hl : ((buf.drop src).take n).length = n := by simp; omega
  rw [Mem.write_ok (by omega)] at h
  cases h
  rw [write_getElem? (by omega), hl]
  split
  · rfl
  · split
    · rw [List.getElem?_take_of_lt (by omega), List.getElem?_drop]
    · rfl

theorem put1_getElem? {buf r : List Byte} {k : Nat} {b : Byte} (h : put1 buf k b = .ok r) (hk : k < buf.length)
    (i : Nat) : r[i]? = if i = k then some b else buf[i]? := by
  unfold put1 at h
  rw [Mem.write_ok (by simp; omega)] at h
  cases h
  rw [write_getElem? (by simp; omega)]
  simp only [List.length_singleton]
  split
  · rw [if_neg (by omega)]
  · split
    · have : i = k := by omega
      rw [if_pos this]; subst this; simp
    · rw [if_neg (by omega)]

theorem finish_spec (hc : CfgOK c) {b : List Byte} {n : Nat} {s' : FStr} (hb : b.length = c.L + 1) (hn : n ≤ c.L)
    (h : finish c b n = .ok s') : s'.len = n ∧ ∀ i, i < n → s'.buf[i]? = b[i]? := by
  unfold finish at h
  rw [narrow_eq hc hn] at h
  obtain ⟨r, hr, _⟩ := good_put1 (buf := b) (i := n) (b := 0) hb (by omega)
  rw [hr, bindR_ok] at h
  cases h
  refine ⟨rfl, ?_⟩
  intro i hi
  simp only
  rw [put1_getElem? hr (by omega), if_neg (by omega)]

theorem abs_getElem? (s : FStr) (i : Nat) : (abs s)[i]? = if i < s.len then s.buf[i]? else none := by
  unfold abs; rw [List.getElem?_take]

/-! ### swap -/

theorem abs_nil {s : FStr} (h : s.len = 0) : abs s = [] := by unfold abs; rw [h]; rfl

theorem swap_abs (hc : CfgOK c) {s o : FStr} (hs : WF c s) (ho : WF c o) {p : FStr × FStr}
    (h : swap c s o = .ok p) : abs p.1 = abs o ∧ abs p.2 = abs s := by
  have _ := hc
  obtain ⟨hb, hl, h0⟩ := hs
  obtain ⟨ob, ol, o0⟩ := ho
  unfold swap at h
  by_cases hz : s.len = 0
  · rw [if_pos hz] at h
    by_cases hoz : o.len > 0
    · rw [if_pos hoz] at h
      obtain ⟨b, e1, l1⟩ := good_copyIn (buf := s.buf) (off := 0) (a := o.buf) (spos := 0) (n := o.len + 1) hb
        (by omega) (by omega)
      obtain ⟨b2, e2, l2⟩ := good_put1 (buf := o.buf) (i := 0) (b := 0) ob (by omega)
      rw [e1, bindR_ok, e2, bindR_ok] at h
      cases h
      refine ⟨?_, ?_⟩
      · apply List.ext_getElem?; intro i
        rw [abs_getElem?, abs_getElem?]
        simp only
        rw [copyIn_getElem? e1 (by omega) (by omega)]
        repeat' split
        all_goals first | rfl | omega | (congr 1; omega)
      · rw [abs_nil hz, abs_nil rfl]
    · rw [if_neg hoz] at h
      cases h
      rw [abs_nil hz, abs_nil (by omega)]
      exact ⟨rfl, rfl⟩
  · rw [if_neg hz] at h
    by_cases hoz : o.len = 0
    · rw [if_pos hoz] at h
      obtain ⟨b, e1, l1⟩ := good_copyIn (buf := o.buf) (off := 0) (a := s.buf) (spos := 0) (n := s.len + 1) ob
        (by omega) (by omega)
      obtain ⟨b2, e2, l2⟩ := good_put1 (buf := s.buf) (i := 0) (b := 0) hb (by omega)
      rw [e1, bindR_ok, e2, bindR_ok] at h
      cases h
      refine ⟨?_, ?_⟩
      · rw [abs_nil hoz, abs_nil rfl]
      · apply List.ext_getElem?; intro i
        rw [abs_getElem?, abs_getElem?]
        simp only
        rw [copyIn_getElem? e1 (by omega) (by omega)]
        repeat' split
        all_goals first | rfl | omega | (congr 1; omega)
    · rw [if_neg hoz] at h
      obtain ⟨tmp, e0, l0⟩ := good_copyIn (buf := zeros c) (off := 0) (a := s.buf) (spos := 0) (n := s.len + 1)
        (zeros_length c) (by omega) (by omega)
      obtain ⟨b, e1, l1⟩ := good_copyIn (buf := s.buf) (off := 0) (a := o.buf) (spos := 0) (n := o.len + 1) hb
        (by omega) (by omega)
      obtain ⟨b2, e2, l2⟩ := good_copyIn (buf := o.buf) (off := 0) (a := tmp) (spos := 0) (n := s.len + 1) ob
        (by omega) (by omega)
      rw [e0, bindR_ok, e1, bindR_ok, e2, bindR_ok] at h
      cases h
      have z0 := zeros_length c
      refine ⟨?_, ?_⟩
      · apply List.ext_getElem?; intro i
        rw [abs_getElem?, abs_getElem?]
        simp only
        rw [copyIn_getElem? e1 (by omega) (by omega)]
        repeat' split
        all_goals first | rfl | omega | (congr 1; omega)
      · apply List.ext_getElem?; intro i
        rw [abs_getElem?, abs_getElem?]
        simp only
        rw [copyIn_getElem? e2 (by omega) (by omega)]
        by_cases hi : i < s.len
        · rw [if_pos hi, if_neg (by omega), if_pos (by omega), if_pos hi,
            copyIn_getElem? e0 (by omega) (by omega), if_neg (by omega), if_pos (by omega)]
          congr 1; omega
        · rw [if_neg hi, if_neg hi]

/-! ### replace -/

/-- the specification text of `replace`, pointwise -/
theorem repSpec_getElem? {s : FStr} {a : List Byte} {pos1 pos2 count2 : Nat} (count1 : Nat)
    (hb : s.buf.length = c.L + 1) (hl : s.len ≤ c.L) (hp : pos1 ≤ s.len) (ha : pos2 + count2 ≤ a.length) (i : Nat) :
    (((abs s).take pos1 ++ (a.drop pos2).take count2 ++ (abs s).drop (pos1 + count1)).take c.L)[i]? =
      if i < c.L then
        if i < pos1 then s.buf[i]?
        else if i < pos1 + count2 then a[pos2 + (i - pos1)]?
        else if pos1 + count1 + (i - (pos1 + count2)) < s.len then s.buf[pos1 + count1 + (i - (pos1 + count2))]?
        else none
      else none := by
  have e1 : min pos1 (min s.len s.buf.length) = pos1 := by omega
  have e2 : min count2 (a.length - pos2) = count2 := by omega
  simp only [abs, List.getElem?_take, List.getElem?_append, List.getElem?_drop, List.length_take,
    List.length_append, List.length_drop, e1, e2]
  repeat' split
  all_goals first | rfl | omega | (congr 1; omega)

/-- branch "replace up to the end": `count1 ≥ len - pos1` -/
theorem replace_end_abs (hc : CfgOK c) {s s' : FStr} (hs : WF c s) {pos1 count1 : Nat} {a : List Byte}
    {pos2 count2 : Nat} (hp : pos1 ≤ s.len) (ha : pos2 + count2 ≤ a.length) (hcnt : count1 ≥ s.len - pos1)
    {cl : Nat} (hcl : (cl = count2 ∧ count2 ≤ c.L - pos1) ∨ (cl = c.L - pos1 ∧ count2 > c.L - pos1))
    (h : (bindR (copyIn s.buf pos1 a pos2 cl) fun b => finish c b (pos1 + cl)) = .ok s') :
    abs s' = ((abs s).take pos1 ++ (a.drop pos2).take count2 ++ (abs s).drop (pos1 + count1)).take c.L := by
  obtain ⟨hb, hl, h0⟩ := hs
  obtain ⟨b, e1, l1⟩ := good_copyIn (buf := s.buf) (off := pos1) (a := a) (spos := pos2) (n := cl) hb
    (by omega) (by omega)
  rw [e1, bindR_ok] at h
  obtain ⟨f1, f2⟩ := finish_spec hc l1 (by omega) h
  apply List.ext_getElem?; intro i
  rw [abs_getElem?, repSpec_getElem? count1 hb hl hp ha, f1]
  by_cases hi : i < pos1 + cl
  · rw [if_pos hi, f2 i hi, copyIn_getElem? e1 (by omega) (by omega)]
    repeat' split
    all_goals first | rfl | omega | (congr 1; omega)
  · rw [if_neg hi]
    repeat' split
    all_goals first | rfl | omega | (congr 1; omega)

/-- branch "same length": `count1 = count2` -/
theorem replace_same_abs {s s' : FStr} (hs : WF c s) {pos1 count1 : Nat} {a : List Byte}
    {pos2 count2 : Nat} (hp : pos1 ≤ s.len) (ha : pos2 + count2 ≤ a.length) (hcnt : ¬ count1 ≥ s.len - pos1)
    (heq : count1 = count2)
    (h : (bindR (copyIn s.buf pos1 a pos2 count2) fun b => Res.ok (⟨b, s.len⟩ : FStr)) = .ok s') :
    abs s' = ((abs s).take pos1 ++ (a.drop pos2).take count2 ++ (abs s).drop (pos1 + count1)).take c.L := by
  obtain ⟨hb, hl, h0⟩ := hs
  obtain ⟨b, e1, l1⟩ := good_copyIn (buf := s.buf) (off := pos1) (a := a) (spos := pos2) (n := count2) hb
    (by omega) (by omega)
  rw [e1, bindR_ok] at h
  cases h
  apply List.ext_getElem?; intro i
  rw [abs_getElem?, repSpec_getElem? count1 hb hl hp ha]
  simp only
  rw [copyIn_getElem? e1 (by omega) (by omega)]
  repeat' split
  all_goals first | rfl | omega | (congr 1; omega)

/-- branch "growing": `count1 < count2`, clamped to the capacity -/
theorem replace_grow_abs (hc : CfgOK c) {s s' : FStr} (hs : WF c s) {pos1 count1 : Nat} {a : List Byte}
    {pos2 count2 : Nat} (hp : pos1 ≤ s.len) (ha : pos2 + count2 ≤ a.length) (hcnt : ¬ count1 ≥ s.len - pos1)
    (hlt : count1 < count2)
    {cl rest : Nat} (hcl : (cl = count2 ∧ count2 ≤ c.L - pos1) ∨ (cl = c.L - pos1 ∧ count2 > c.L - pos1))
    (hrest : (rest = s.len - pos1 - count1 ∧ s.len - pos1 - count1 ≤ c.L - pos1 - cl) ∨
      (rest = c.L - pos1 - cl ∧ s.len - pos1 - count1 > c.L - pos1 - cl))
    (h : (bindR (Mem.move s.buf (pos1 + cl) (pos1 + count1) rest) fun b1 =>
          bindR (copyIn b1 pos1 a pos2 cl) fun b2 => finish c b2 (pos1 + cl + rest)) = .ok s') :
    abs s' = ((abs s).take pos1 ++ (a.drop pos2).take count2 ++ (abs s).drop (pos1 + count1)).take c.L := by
  obtain ⟨hb, hl, h0⟩ := hs
  obtain ⟨b1, e1, l1⟩ := good_move (buf := s.buf) (dst := pos1 + cl) (src := pos1 + count1) (n := rest)
    (w := "memmove") hb (by omega) (by omega)
  obtain ⟨b2, e2, l2⟩ := good_copyIn (buf := b1) (off := pos1) (a := a) (spos := pos2) (n := cl) l1
    (by omega) (by omega)
  rw [e1, bindR_ok, e2, bindR_ok] at h
  obtain ⟨f1, f2⟩ := finish_spec hc l2 (by omega) h
  apply List.ext_getElem?; intro i
  rw [abs_getElem?, repSpec_getElem? count1 hb hl hp ha, f1]
  by_cases hi : i < pos1 + cl + rest
  · rw [if_pos hi, f2 i hi, copyIn_getElem? e2 (by omega) (by omega),
      move_getElem? e1 (by omega) (by omega)]
    repeat' split
    all_goals first | rfl | omega | (congr 1; omega)
  · rw [if_neg hi]
    repeat' split
    all_goals first | rfl | omega | (congr 1; omega)

/-- branch "shrinking": `count1 > count2` -/
theorem replace_shrink_abs (hc : CfgOK c) {s s' : FStr} (hs : WF c s) {pos1 count1 : Nat} {a : List Byte}
    {pos2 count2 : Nat} (hp : pos1 ≤ s.len) (ha : pos2 + count2 ≤ a.length) (hcnt : ¬ count1 ≥ s.len - pos1)
    (hgt : count2 < count1)
    (h : (bindR (Mem.move s.buf (pos1 + count2) (pos1 + count1) (s.len - pos1 - count1)) fun b1 =>
          bindR (copyIn b1 pos1 a pos2 count2) fun b2 => finish c b2 (s.len - (count1 - count2))) = .ok s') :
    abs s' = ((abs s).take pos1 ++ (a.drop pos2).take count2 ++ (abs s).drop (pos1 + count1)).take c.L := by
  obtain ⟨hb, hl, h0⟩ := hs
  obtain ⟨b1, e1, l1⟩ := good_move (buf := s.buf) (dst := pos1 + count2) (src := pos1 + count1)
    (n := s.len - pos1 - count1) (w := "memmove") hb (by omega) (by omega)
  obtain ⟨b2, e2, l2⟩ := good_copyIn (buf := b1) (off := pos1) (a := a) (spos := pos2) (n := count2) l1
    (by omega) (by omega)
  rw [e1, bindR_ok, e2, bindR_ok] at h
  obtain ⟨f1, f2⟩ := finish_spec hc l2 (by omega) h
  apply List.ext_getElem?; intro i
  rw [abs_getElem?, repSpec_getElem? count1 hb hl hp ha, f1]
  by_cases hi : i < s.len - (count1 - count2)
  · rw [if_pos hi, f2 i hi, copyIn_getElem? e2 (by omega) (by omega),
      move_getElem? e1 (by omega) (by omega)]
    repeat' split
    all_goals first | rfl | omega | (congr 1; omega)
  · rw [if_neg hi]
    repeat' split
    all_goals first | rfl | omega | (congr 1; omega)

/-- C11, `replace`: the text afterwards is the text before with `[pos1, pos1 + count1)` replaced by
    `[str + pos2, str + pos2 + count2)`, cut at the capacity -/
theorem replaceImpl_abs (hc : CfgOK c) {s s' : FStr} (hs : WF c s) (pos1 count1 : Nat) {a : List Byte}
    {pos2 count2 : Nat} (hp : pos1 ≤ s.len) (ha : pos2 + count2 ≤ a.length)
    (h : replaceImpl c s pos1 count1 a pos2 count2 = .ok s') :
    abs s' = ((abs s).take pos1 ++ (a.drop pos2).take count2 ++ (abs s).drop (pos1 + count1)).take c.L := by
  unfold replaceImpl at h
  rw [if_neg (by omega)] at h
  by_cases h1 : count1 ≥ s.len - pos1
  · rw [if_pos h1] at h
    simp only [] at h
    refine replace_end_abs hc hs hp ha h1 ?_ h
    by_cases h2 : count2 > c.L - pos1
    · rw [if_pos h2]; omega
    · rw [if_neg h2]; omega
  · rw [if_neg h1] at h
    by_cases h2 : count1 = count2
    · rw [if_pos h2] at h
      exact replace_same_abs hs hp ha h1 h2 h
    · rw [if_neg h2] at h
      by_cases h3 : count1 < count2
      · rw [if_pos h3] at h
        simp only [] at h
        refine replace_grow_abs hc hs hp ha h1 h3 ?_ ?_ h
        · by_cases h4 : count2 > c.L - pos1
          · rw [if_pos h4]; omega
          · rw [if_neg h4]; omega
        · repeat' split
          all_goals omega
      · rw [if_neg h3] at h
        exact replace_shrink_abs hc hs hp ha h1 (by omega) h

end CelmaVerif.FixedString
