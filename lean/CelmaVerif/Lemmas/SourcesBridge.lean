import CelmaVerif.Lemmas.SourcesFunctional
import CelmaVerif.Lemmas.SourcesWords
import CelmaVerif.Lemmas.ParseSpells
/-
  Bridge between the two grammars of the sources (audit3, section 1a.b).

  `C02_parse_faithful_sources` delivers derivations in the wide grammar (`FileSrcSpellsPlus`,
  `EnvSrcSpellsPlus`, `LineSpells` — token level, with end states); the C07b theorems about "the same
  words on argv" take derivations in the fragment `Spells` (`FileSrcSpells(C)`, `EnvSrcSpells`,
  `Spells`: no `--`, no `!`, no positional values).  Here:

  * `spells_SPE`: a `Spells` line read from the marker `l` IS a line of the wide grammar, ending with
    the marker `lastAfter l us` and not behind a `!` (the end-state version of `spells_SP`);
  * `fileSpells_plus`, `fileSrcSpells_plus`, `envSrcSpells_plus`: the same for a file / the sources;
  * `fragment_is_the_spelling`: where file, environment value and argv HAVE fragment derivations, the
    wide derivations of the same input (e.g. the ones an accepted run delivers) spell the same uses —
    by functionality of the wide grammar (`sources_functional`).
-/
namespace CelmaVerif.ProgArgs
open CelmaVerif CelmaVerif.Keys

theorem lastAfter_flagUses (l : Option Nat) (fs : List (Char × Nat × ArgDef)) :
    lastAfter l (fs.map (fun f => ({ arg := f.2.1, val := [], ident := true } : Use))) = lastIdx l fs := by
  induction fs generalizing l with
  | nil => rfl
  | cons f fs ih =>
    rw [lastIdx_cons]
    simp only [List.map_cons, lastAfter, if_true]
    exact ih _

/-- `flags_SP` with the end state -/
theorem flags_SPE {cfg : Cfg} (ws : List Word) (tl : Word) (tu : List Use) (l' : Option Nat) (inv' : Bool) :
    ∀ (fs : List (Char × Nat × ArgDef)) (l : Option Nat),
      (∀ f ∈ fs, f.1 ≠ '-' ∧ Resolves cfg (Key.ofChar f.1) f.2.1 f.2.2 ∧ f.2.2.vmode = .none) →
      SPE cfg (lastIdx l fs) false (nextTok false (posOf tl ws)) tu l' inv' →
      SPE cfg l false (nextTok false (posOf (fs.map (·.1) ++ tl) ws))
        (fs.map (fun f => { arg := f.2.1, val := [], ident := true }) ++ tu) l' inv' := by
  intro fs
  induction fs with
  | nil => intro l _ h; exact h
  | cons f fs ih =>
    intro l hall h
    obtain ⟨h1, h2, h3⟩ := hall f (List.mem_cons_self ..)
    rw [lastIdx_cons] at h
    have hrec := ih (some f.2.1) (fun g hg => hall g (List.mem_cons_of_mem _ hg)) h
    show SPE cfg l false (inWordTok f.1 (fs.map (·.1) ++ tl) ws) _ _ _
    rw [inWordTok_short _ ws h1]
    exact SPE.flag (k := Key.ofChar f.1) rfl h2 h3 hrec

/-- **every `Spells` line is a line of the wide grammar, with its end state**: read from the marker
    `l` (not behind a `!`), it ends with the marker `lastAfter l us` and not behind a `!` -/
theorem spells_SPE {cfg : Cfg} {l : Option Nat} {us : List Use} {ws : List Word} (hs : Spells cfg l us ws) (f : Bool) :
    SPE cfg l false (nextTok false (.bnd false f ws)) us (lastAfter l us) false := by
  induction hs generalizing f with
  | nil l => exact SPE.done l false
  | @shortFlag l c i d us ws hc hr hv _ ih =>
    rw [nextTok_dash2, inWordTok_short [] ws hc]
    exact SPE.flag (k := Key.ofChar c) rfl hr hv (ih false)
  | @longFlag l name k i d us ws hn he hk hr hv _ ih =>
    rw [nextTok_dash2, inWordTok_long ws hn he]
    exact SPE.flag (k := k) hk hr hv (ih false)
  | @shortVal l c v i d us ws hc hr hv hp _ ih =>
    rw [nextTok_dash2, inWordTok_short [] (v :: ws) hc]
    exact SPE.keyValue (k := Key.ofChar c) rfl hr hv (nextTok_plain hp _ false ws) (ih false)
  | @longVal l name v k i d us ws hn he hk hr hv hp _ ih =>
    rw [nextTok_dash2, inWordTok_long (v :: ws) hn he]
    exact SPE.keyValue (k := k) hk hr hv (nextTok_plain hp _ false ws) (ih false)
  | @longEq l name v k i d us ws hn he hk hr hv _ ih =>
    rw [nextTok_dash2, inWordTok_long_eq ws (by simp) (findEq_append_eq he)]
    have e1 : (name ++ '=' :: v).take name.length = name := by simp
    have e2 : (name ++ '=' :: v).drop (name.length + 1) = v := by simp
    rw [e1, e2]
    exact SPE.keyValue (k := k) (pos' := .bnd false false ws) hk hr hv rfl (ih false)
  | @shortGlued l c v i d us ws hc hv0 hr hv _ ih =>
    rw [nextTok_dash2, inWordTok_short v ws hc]
    cases v with
    | nil => exact absurd rfl hv0
    | cons v0 vr =>
      refine SPE.keyValue (k := Key.ofChar c) (pos' := .bnd false false ws) rfl hr (by rw [hv]; simp) ?_ (ih false)
      rw [hv]
      rfl
  | @shortOpt l c i d us ws hc hr hv hnv _ ih =>
    rw [nextTok_dash2, inWordTok_short [] ws hc]
    exact SPE.keyAlone (k := Key.ofChar c) rfl hr hv (noValueNext_tok hnv) (ih false)
  | @longOpt l name k i d us ws hn he hk hr hv hnv _ ih =>
    rw [nextTok_dash2, inWordTok_long ws hn he]
    exact SPE.keyAlone (k := k) hk hr hv (noValueNext_tok hnv) (ih false)
  | @flagGroup l fs last us ws hall hlast _ ih =>
    have hne : fs.map (·.1) ≠ [] := by
      cases fs with
      | nil => simp at hlast
      | cons a as => simp
    rw [nextTok_word hne]
    have hl : lastIdx l fs = some last := by
      unfold lastIdx
      cases hg : fs.getLast? with
      | none => rw [hg] at hlast; simp at hlast
      | some g => rw [hg] at hlast; simpa using hlast
    have hend : lastAfter l (fs.map (fun f => ({ arg := f.2.1, val := [], ident := true } : Use)) ++ us) =
        lastAfter (some last) us := by
      rw [lastAfter_append, lastAfter_flagUses, hl]
    rw [hend]
    have := flags_SPE (cfg := cfg) ws [] us _ _ fs l hall (by rw [hl]; exact ih false)
    simpa using this
  | @groupVal l fs c v i d us ws hall hc hr hv hp _ ih =>
    rw [nextTok_word (by simp)]
    have hend : lastAfter l (fs.map (fun f => ({ arg := f.2.1, val := [], ident := true } : Use)) ++
        { arg := i, val := v, ident := true } :: us) = lastAfter (some i) us := by
      rw [lastAfter_append]; rfl
    rw [hend]
    refine flags_SPE (cfg := cfg) (v :: ws) [c] _ _ _ fs l hall ?_
    show SPE cfg _ false (inWordTok c [] (v :: ws)) _ _ _
    rw [inWordTok_short [] (v :: ws) hc]
    exact SPE.keyValue (k := Key.ofChar c) rfl hr hv (nextTok_plain hp _ false ws) (ih false)
  | @groupGlued l fs c v i d us ws hall hc hv0 hr hv _ ih =>
    rw [nextTok_word (by simp)]
    have hend : lastAfter l (fs.map (fun f => ({ arg := f.2.1, val := [], ident := true } : Use)) ++
        { arg := i, val := v, ident := true } :: us) = lastAfter (some i) us := by
      rw [lastAfter_append]; rfl
    rw [hend]
    refine flags_SPE (cfg := cfg) ws (c :: v) _ _ _ fs l hall ?_
    show SPE cfg _ false (inWordTok c v ws) _ _ _
    rw [inWordTok_short v ws hc]
    cases v with
    | nil => exact absurd rfl hv0
    | cons v0 vr =>
      refine SPE.keyValue (k := Key.ofChar c) (pos' := .bnd false false ws) rfl hr (by rw [hv]; simp) ?_ (ih false)
      rw [hv]
      rfl
  | @free v i d us ws hd hm hp _ ih =>
    rw [nextTok_plain hp]
    exact SPE.free hd hm (ih false)

/-- a `Spells` line is a `LineSpells` line -/
theorem spells_lineSpells {cfg : Cfg} {l : Option Nat} {us : List Use} {ws : List Word} (hs : Spells cfg l us ws) :
    LineSpells cfg l false us ws (lastAfter l us) false := spells_SPE hs true

/-- a file in the fragment is a file of the wide grammar -/
theorem fileSpells_plus {cfg : Cfg} {l : Option Nat} {us : List Use} {lines : List Word}
    (h : FileSpells cfg l us lines) : FileSpellsPlus cfg l false us lines (lastAfter l us) false := by
  induction h with
  | nil l => exact .nil l false
  | skip hs _ ih => exact .skip hs ih
  | @line l us1 us2 line rest hn hsp _ ih =>
    rw [lastAfter_append]
    exact .line hn (spells_lineSpells hsp) ih

theorem fileSrcSpells_plus {cfg : Cfg} {l : Option Nat} {us : List Use} {file : Option (List Word)}
    (h : FileSrcSpells cfg l us file) : FileSrcSpellsPlus cfg l false us file (lastAfter l us) false := by
  cases file with
  | none =>
    have : us = [] := h
    subst this
    exact ⟨rfl, rfl, rfl⟩
  | some lines => exact fileSpells_plus h

theorem envSrcSpells_plus {cfg : Cfg} {l : Option Nat} {us : List Use} {env : Option Word}
    (h : EnvSrcSpells cfg l us env) : EnvSrcSpellsPlus cfg l false us env (lastAfter l us) false := by
  cases env with
  | none =>
    have : us = [] := h
    subst this
    exact ⟨rfl, rfl, rfl⟩
  | some e => exact spells_lineSpells h

/-- **On the fragment the wide derivations are the fragment derivations.**  File, environment value
    and argv have derivations in `Spells` (uses `usF`, `usE`, `usA`); then ANY derivations of the same
    input in the wide grammar, started from the same marker and not behind a `!`, spell the same three
    use lists, end with the marker `lastAfter l (usF ++ usE ++ usA)` and not behind a `!`. -/
theorem fragment_is_the_spelling {cfg : Cfg} {l : Option Nat} {src : Sources} {ws : List Word}
    {usF usE usA usF' usE' usA' : List Use} {lF lE lA : Option Nat} {iF iE iA : Bool}
    (hF : FileSrcSpells cfg l usF src.file) (hE : EnvSrcSpells cfg (lastAfter l usF) usE src.env)
    (hA : Spells cfg (lastAfter l (usF ++ usE)) usA ws)
    (pF : FileSrcSpellsPlus cfg l false usF' src.file lF iF) (pE : EnvSrcSpellsPlus cfg lF iF usE' src.env lE iE)
    (pA : LineSpells cfg lE iE usA' ws lA iA) :
    usF' = usF ∧ usE' = usE ∧ usA' = usA ∧ lA = lastAfter l (usF ++ usE ++ usA) ∧ iA = false := by
  have qA := spells_lineSpells hA
  rw [lastAfter_append] at qA
  obtain ⟨a, b, c, d, e⟩ := sources_functional pF pE pA (fileSrcSpells_plus hF) (envSrcSpells_plus hE) qA
  refine ⟨a, b, c, ?_, e⟩
  rw [d, lastAfter_append, lastAfter_append]

end CelmaVerif.ProgArgs
