import CelmaVerif.Lemmas.Sources
/-
  C07, "as if they had been given on the command line" for the WORDS: when do the words of the file
  lines, followed by the words of the environment value, followed by argv, spell — as one command
  line — the uses the sources spell line by line?

  Every line of the file (and the environment value, and argv) is read by its own parser.  The only
  thing a parser reads across a word boundary inside `Spells` is the value of a key whose value is
  OPTIONAL (`-v` of a LevelCounter): on one command line `-v 3` gives the value 3, as two file lines
  `-v` / `3` the first line is a use without value and the second line a free value.  The LINE-END
  CONDITION `BoundaryOk` excludes exactly this: where one line (source) ends and the next begins,
  either the next words do not begin with a value word, or the line did not end in a value-less use of
  an optional-value argument.  (A key that REQUIRES a value at the end of a line — `-n` / `5` — and the
  separator `--` at the end of a line are not `Spells` lines at all.)
-/
namespace CelmaVerif.ProgArgs
open CelmaVerif CelmaVerif.Keys

/-- the words of the lines the file loop does not skip, in order -/
def fileWords (lines : List Word) : List Word :=
  (lines.filter (fun l => !(l.isEmpty || l.head? == some '#'))).flatMap ArgString.splitString

theorem fileWords_skip {line : Word} (rest : List Word) (h : SkippedLine line) : fileWords (line :: rest) = fileWords rest := by
  unfold fileWords
  rw [List.filter_cons, if_neg]
  rw [(skipped_iff line).mpr h]; simp

theorem fileWords_line {line : Word} (rest : List Word) (h : ¬ SkippedLine line) :
    fileWords (line :: rest) = ArgString.splitString line ++ fileWords rest := by
  unfold fileWords
  have : ¬ (line.isEmpty || line.head? == some '#') = true := fun c => h ((skipped_iff line).mp c)
  rw [List.filter_cons, if_pos (by simpa using this), List.flatMap_cons]

/-- the uses do not end in a value-less use of an argument whose value is optional -/
def EndsClosed (cfg : Cfg) (us : List Use) : Prop :=
  ∀ u, us.getLast? = some u → ∀ d, cfg.args[u.arg]? = some d → d.vmode = .optional → u.val ≠ []

/-- **the line-end condition**: the words `next` that follow do not begin with a value word (they are
    empty, or begin with a key word), or the uses before do not end in a value-less optional-value use -/
def BoundaryOk (cfg : Cfg) (us : List Use) (next : List Word) : Prop := NoValueNext next ∨ EndsClosed cfg us

theorem endsClosed_suffix {cfg : Cfg} (pre us : List Use) (h : EndsClosed cfg (pre ++ us)) : EndsClosed cfg us := by
  cases us with
  | nil => intro u hu; cases hu
  | cons a r =>
    intro u hu
    apply h u
    rw [List.getLast?_append]
    cases hx : (a :: r).getLast? with
    | none => simp at hx
    | some y => rw [hx] at hu; cases hu; simp

theorem boundaryOk_suffix {cfg : Cfg} (pre us : List Use) {next : List Word} (h : BoundaryOk cfg (pre ++ us) next) :
    BoundaryOk cfg us next :=
  h.elim Or.inl (fun c => Or.inr (endsClosed_suffix pre us c))

theorem boundaryOk_tail {cfg : Cfg} (u : Use) (us : List Use) {next : List Word} (h : BoundaryOk cfg (u :: us) next) :
    BoundaryOk cfg us next := boundaryOk_suffix [u] us h

theorem spells_nil_words {cfg : Cfg} {l : Option Nat} {us : List Use} (h : Spells cfg l us []) : us = [] := by
  cases h; rfl

theorem noValueNext_append {ws ws2 : List Word} (h : NoValueNext ws) (hne : ws ≠ []) : NoValueNext (ws ++ ws2) := by
  rcases h with rfl | ⟨t, rest, rfl, h1, h2⟩
  · exact absurd rfl hne
  · exact Or.inr ⟨t, rest ++ ws2, rfl, h1, h2⟩

/-- the value-less use of an optional-value key, before the words `ws ++ ws2` -/
theorem optional_boundary {cfg : Cfg} {i : Nat} {d : ArgDef} {k : Key} {us : List Use} {ws ws2 : List Word}
    (hr : Resolves cfg k i d) (hm : d.vmode = .optional) (hn : NoValueNext ws) (hs : Spells cfg (some i) us ws)
    (hb : BoundaryOk cfg ({ arg := i, val := [], ident := true } :: us) ws2) : NoValueNext (ws ++ ws2) := by
  cases ws with
  | cons w ws' => exact noValueNext_append hn (by simp)
  | nil =>
    have hus := spells_nil_words hs
    subst hus
    rcases hb with hb | hb
    · simpa using hb
    · exact absurd rfl (hb _ rfl d (findArg_cfg hr) hm)

theorem lastAfter_flags (l : Option Nat) (fs : List (Char × Nat × ArgDef)) (last : Nat)
    (h : fs.getLast?.map (·.2.1) = some last) :
    lastAfter l (fs.map (fun f => ({ arg := f.2.1, val := [], ident := true } : Use))) = some last := by
  induction fs generalizing l with
  | nil => simp at h
  | cons f rest ih =>
    simp only [List.map_cons, lastAfter, if_true]
    cases rest with
    | nil => simp only [List.getLast?_singleton, Option.map_some, Option.some.injEq] at h; simp [lastAfter, h]
    | cons g r => exact ih _ (by rw [List.getLast?_cons_cons] at h; exact h)

/-- **Two lines are one line.**  If `ws1` spells `us1` and `ws2` spells `us2` from the marker `us1`
    leaves, and the line-end condition holds between them, then `ws1 ++ ws2` spells `us1 ++ us2`. -/
theorem spells_append {cfg : Cfg} {l : Option Nat} {us1 : List Use} {ws1 : List Word} (h1 : Spells cfg l us1 ws1) :
    ∀ {us2 : List Use} {ws2 : List Word}, Spells cfg (lastAfter l us1) us2 ws2 → BoundaryOk cfg us1 ws2 →
      Spells cfg l (us1 ++ us2) (ws1 ++ ws2) := by
  induction h1 with
  | nil l => intro us2 ws2 h2 _; exact h2
  | shortFlag hc hr hm _ ih =>
    intro us2 ws2 h2 hb
    exact .shortFlag hc hr hm (ih h2 (boundaryOk_tail _ _ hb))
  | longFlag hn he hk hr hm _ ih =>
    intro us2 ws2 h2 hb
    exact .longFlag hn he hk hr hm (ih h2 (boundaryOk_tail _ _ hb))
  | shortVal hc hr hm hp _ ih =>
    intro us2 ws2 h2 hb
    exact .shortVal hc hr hm hp (ih h2 (boundaryOk_tail _ _ hb))
  | longVal hn he hk hr hm hp _ ih =>
    intro us2 ws2 h2 hb
    exact .longVal hn he hk hr hm hp (ih h2 (boundaryOk_tail _ _ hb))
  | longEq hn he hk hr hm _ ih =>
    intro us2 ws2 h2 hb
    exact .longEq hn he hk hr hm (ih h2 (boundaryOk_tail _ _ hb))
  | shortGlued hc hv hr hm _ ih =>
    intro us2 ws2 h2 hb
    exact .shortGlued hc hv hr hm (ih h2 (boundaryOk_tail _ _ hb))
  | shortOpt hc hr hm hn hs ih =>
    intro us2 ws2 h2 hb
    exact .shortOpt hc hr hm (optional_boundary hr hm hn hs hb) (ih h2 (boundaryOk_tail _ _ hb))
  | longOpt hne he hk hr hm hn hs ih =>
    intro us2 ws2 h2 hb
    exact .longOpt hne he hk hr hm (optional_boundary hr hm hn hs hb) (ih h2 (boundaryOk_tail _ _ hb))
  | @flagGroup l fs last us ws hall hlast _ ih =>
    intro us2 ws2 h2 hb
    rw [List.append_assoc]
    refine .flagGroup hall hlast (ih ?_ (boundaryOk_suffix _ _ hb))
    rw [lastAfter_append, lastAfter_flags l fs last hlast] at h2
    exact h2
  | @groupVal l fs c v i d us ws hall hc hr hm hp _ ih =>
    intro us2 ws2 h2 hb
    rw [List.append_assoc, List.cons_append]
    refine .groupVal hall hc hr hm hp (ih ?_ (boundaryOk_tail _ _ (boundaryOk_suffix _ _ hb)))
    rw [lastAfter_append] at h2
    simpa [lastAfter] using h2
  | @groupGlued l fs c v i d us ws hall hc hv hr hm _ ih =>
    intro us2 ws2 h2 hb
    rw [List.append_assoc, List.cons_append]
    refine .groupGlued hall hc hv hr hm (ih ?_ (boundaryOk_tail _ _ (boundaryOk_suffix _ _ hb)))
    rw [lastAfter_append] at h2
    simpa [lastAfter] using h2
  | free ha hmul hp _ ih =>
    intro us2 ws2 h2 hb
    exact .free ha hmul hp (ih (by simpa [lastAfter] using h2) (boundaryOk_tail _ _ hb))

/-- `FileSpells` with the line-end condition at the end of every line that is not skipped; `after` are
    the words that follow the file (environment value, argv) -/
inductive FileSpellsC (cfg : Cfg) (after : List Word) : Option Nat → List Use → List Word → Prop where
  | nil (l : Option Nat) : FileSpellsC cfg after l [] []
  | skip {l : Option Nat} {us : List Use} {line : Word} {rest : List Word} :
      SkippedLine line → FileSpellsC cfg after l us rest → FileSpellsC cfg after l us (line :: rest)
  | line {l : Option Nat} {us1 us2 : List Use} {line : Word} {rest : List Word} :
      ¬ SkippedLine line → Spells cfg l us1 (ArgString.splitString line) →
      BoundaryOk cfg us1 (fileWords rest ++ after) →
      FileSpellsC cfg after (lastAfter l us1) us2 rest → FileSpellsC cfg after l (us1 ++ us2) (line :: rest)

theorem FileSpellsC.toFileSpells {cfg : Cfg} {after : List Word} {l : Option Nat} {us : List Use} {lines : List Word}
    (h : FileSpellsC cfg after l us lines) : FileSpells cfg l us lines := by
  induction h with
  | nil l => exact .nil l
  | skip hs _ ih => exact .skip hs ih
  | line hn hsp _ _ ih => exact .line hn hsp ih

/-- **The file is its words.**  Lines that spell `usF` line by line and obey the line-end condition,
    followed by words `after` that spell `usR`: the words of the lines followed by `after` spell
    `usF ++ usR` as ONE command line. -/
theorem fileSpellsC_words {cfg : Cfg} {after : List Word} {l : Option Nat} {usF : List Use} {lines : List Word}
    (h : FileSpellsC cfg after l usF lines) :
    ∀ {usR : List Use}, Spells cfg (lastAfter l usF) usR after → Spells cfg l (usF ++ usR) (fileWords lines ++ after) := by
  induction h with
  | nil l => intro usR hR; exact hR
  | @skip l us line rest hs _ ih => intro usR hR; rw [fileWords_skip rest hs]; exact ih hR
  | @line l us1 us2 line rest hn hsp hb _ ih =>
    intro usR hR
    rw [fileWords_line rest hn, List.append_assoc, List.append_assoc]
    rw [lastAfter_append] at hR
    exact spells_append hsp (ih hR) hb

/-- the file source with the line-end condition -/
def FileSrcSpellsC (cfg : Cfg) (after : List Word) (l : Option Nat) (us : List Use) : Option (List Word) → Prop
  | none => us = []
  | some lines => FileSpellsC cfg after l us lines

theorem FileSrcSpellsC.toFileSrcSpells {cfg : Cfg} {after : List Word} {l : Option Nat} {us : List Use}
    {file : Option (List Word)} (h : FileSrcSpellsC cfg after l us file) : FileSrcSpells cfg l us file := by
  cases file with
  | none => exact h
  | some lines => exact FileSpellsC.toFileSpells h

/-- the words the sources deliver, in the order of evaluation -/
def Sources.fileWordList (src : Sources) : List Word := match src.file with | none => [] | some lines => fileWords lines
def Sources.envWordList (src : Sources) : List Word := match src.env with | none => [] | some e => ArgString.splitString e
def Sources.words (src : Sources) : List Word := src.fileWordList ++ src.envWordList

/-- **Sources and argv are one command line of words.** -/
theorem sources_words_spell (cfg : Cfg) (l : Option Nat) (src : Sources) (ws : List Word) {usF usE usA : List Use}
    (hF : FileSrcSpellsC cfg (src.envWordList ++ ws) l usF src.file)
    (hE : EnvSrcSpells cfg (lastAfter l usF) usE src.env)
    (hEb : BoundaryOk cfg usE ws)
    (hA : Spells cfg (lastAfter l (usF ++ usE)) usA ws) :
    Spells cfg l (usF ++ usE ++ usA) (src.words ++ ws) := by
  have hEA : Spells cfg (lastAfter l usF) (usE ++ usA) (src.envWordList ++ ws) := by
    unfold Sources.envWordList
    cases henv : src.env with
    | none =>
      rw [henv] at hE
      simp only [EnvSrcSpells] at hE
      subst hE
      simpa using hA
    | some e =>
      rw [henv] at hE
      simp only [EnvSrcSpells] at hE
      rw [lastAfter_append] at hA
      exact spells_append hE hA hEb
  unfold Sources.words
  rw [List.append_assoc, List.append_assoc]
  unfold Sources.fileWordList
  cases hfile : src.file with
  | none =>
    rw [hfile] at hF
    simp only [FileSrcSpellsC] at hF
    subst hF
    simpa [lastAfter] using hEA
  | some lines =>
    rw [hfile] at hF
    simp only [FileSrcSpellsC] at hF
    exact fileSpellsC_words hF hEA

end CelmaVerif.ProgArgs
