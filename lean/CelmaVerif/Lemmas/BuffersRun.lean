import CelmaVerif.Lemmas.Buffers
/-
  Composition of WriteBuffer histories and the facts that hold in every state reachable
  from a fresh buffer (audit follow-up for C19: the invariant is exported to Props/C19.lean).
-/
namespace CelmaVerif.Buffers
open CelmaVerif

/-- a history followed by a history is the second run from where the first one ended -/
theorem WBuf.run_append (ops1 ops2 : List WOp) : ∀ (a : WBuf),
    a.run (ops1 ++ ops2) = (a.run ops1 >>= fun c => c.run ops2) := by
  induction ops1 with
  | nil => intro a; rfl
  | cons op ops ih =>
    intro a
    simp only [WBuf.run, List.cons_append]
    cases hs : a.step op with
    | ok a' => simp only [Res.bind_ok]; exact ih a'
    | throw e => rfl
    | oob w => rfl

theorem WBuf.run_single (c : WBuf) (op : WOp) : c.run [op] = c.step op := by
  simp only [WBuf.run]
  cases c.step op <;> rfl

/-- one more operation after a history that ended in `c` -/
theorem WBuf.run_snoc (ops : List WOp) (op : WOp) (a c : WBuf) (h : a.run ops = .ok c) :
    a.run (ops ++ [op]) = c.step op := by
  rw [WBuf.run_append, h, Res.bind_ok, WBuf.run_single]

/-- every state reached from the fresh buffer by any history: the history does not fail,
    the invariant holds, the size is unchanged and the stream is what was appended -/
theorem WBuf.reach (N : Nat) (ops : List WOp) :
    ∃ b, (WBuf.new N).run ops = .ok b ∧ b.Inv ∧ b.N = N ∧ b.stream = appended ops := by
  obtain ⟨b, h1, h2, h3, h4⟩ := WBuf.run_spec ops (WBuf.new N) (WBuf.new_inv N)
  refine ⟨b, h1, h2, by rw [h3]; rfl, ?_⟩
  have : (WBuf.new N).stream = [] := by simp [WBuf.stream, WBuf.new]
  rw [h4, this, List.nil_append]

/-- the oversized branch of `append`, on an invariant state -/
theorem WBuf.append_big (b : WBuf) (h : b.Inv) (d : List Byte) (hd : d.length ≥ b.N) (hne : d ≠ []) :
    ∃ b', b.append d = .ok b' ∧ b'.Inv ∧ b'.N = b.N ∧ b'.pos = 0 ∧ b'.buf = b.buf ∧
      b'.sink = (if b.pos > 0 then b.sink ++ [b.buf.take b.pos] else b.sink) ++ [d] := by
  obtain ⟨bf, hf, hfi, hfn, hfp, hfb, hfs⟩ := WBuf.flush_spec b h
  have h0 : (d.length == 0) = false := by
    cases d with | nil => exact absurd rfl hne | cons _ _ => simp
  unfold WBuf.append
  simp only [h0, Bool.false_eq_true, if_false]
  rw [if_pos hd, hf]
  refine ⟨_, rfl, ?_, hfn, hfp, hfb, by simp [hfs]⟩
  exact hfi

/-- what the sink holds after a flush of an invariant state, as a stream -/
theorem WBuf.flushed_sink_flatten (b : WBuf) :
    (if b.pos > 0 then b.sink ++ [b.buf.take b.pos] else b.sink).flatten = b.stream := by
  unfold WBuf.stream
  by_cases hp : b.pos > 0
  · simp [hp]
  · have : b.pos = 0 := by omega
    simp [this]

end CelmaVerif.Buffers
