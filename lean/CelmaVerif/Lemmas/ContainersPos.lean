import CelmaVerif.Lemmas.ContainersSeq2
/-
  Position formatters (`addFormatPos`) of sequence destinations: which formatter an element was formatted with,
  read off the final content; and the special case without position formatters (the values are elementwise).
-/
namespace CelmaVerif.Containers

section seq
variable {α : Type} [DecidableEq α] {E : Elem α} {k : SeqKind} {o : Opts}

theorem applyPos_nil (p : Nat) (s : List Char) : applyPos [] p s = s := rfl

/-- no position formatter can be in play: the kind refuses them, or none was added -/
def NoPos (k : SeqKind) (o : Opts) : Prop := k.allowsPos = false ∨ o.fmtPos = []

theorem noPos_of_kind (hk : k ≠ .vec) : NoPos k o := by
  left
  cases k <;> first | rfl | exact absurd rfl hk

theorem fmtSeq_nopos (h : NoPos k o) (p : Nat) (t : List Char) : fmtSeq k o p t = applyFmt o.fmt t := by
  unfold fmtSeq
  rcases h with h | h
  · rw [h]; simp
  · rw [h]; simp [applyPos]

omit [DecidableEq α] in
/-- without position formatters the value of a token does not depend on the position … -/
theorem valOf_nopos (h : NoPos k o) (p : Nat) (t : List Char) : valOf E k o p t = E.conv (applyFmt o.fmt t) := by
  unfold valOf
  rw [fmtSeq_nopos h]

/-- … so the values are the elementwise ones … -/
theorem vals_nopos (h : NoPos k o) (base : List α) : ∀ (ts : List (List Char)) (done : List α),
    vals E k o base done ts = ts.filterMap (fun t => E.conv (applyFmt o.fmt t))
  | [], _ => rfl
  | t :: ts, done => by
    rw [vals, valOf_nopos h]
    cases hc : E.conv (applyFmt o.fmt t) with
    | none => simp [hc, vals_nopos h base ts done]
    | some v => simp [hc, vals_nopos h base ts (done ++ [v])]

/-- … and "every token is acceptable where it arrives" is "every token passes the checks and converts after
    the general format" -/
theorem accAll_nopos (h : NoPos k o) (base : List α) : ∀ (ts : List (List Char)) (done : List α),
    AccAll E k o base done ts ↔
      ∀ t ∈ ts, runChecks o.checks t = none ∧ (E.conv (applyFmt o.fmt t)).isSome = true
  | [], _ => by simp [AccAll]
  | t :: ts, done => by
    rw [AccAll, valOf_nopos h]
    constructor
    · rintro ⟨hc, v, hv, hr⟩ t' ht'
      rcases List.mem_cons.mp ht' with rfl | ht'
      · exact ⟨hc, by rw [hv]; rfl⟩
      · exact (accAll_nopos h base ts _).mp hr t' ht'
    · intro hall
      obtain ⟨hc, hs⟩ := hall t List.mem_cons_self
      obtain ⟨v, hv⟩ := Option.isSome_iff_exists.mp hs
      exact ⟨hc, v, hv, (accAll_nopos h base ts _).mpr (fun t' ht' => hall t' (List.mem_cons_of_mem _ ht'))⟩

/-- kept values of a prefix are a prefix of the kept values -/
theorem dedupInto_prefix (s a b : List α) : ∃ r, dedupInto s (a ++ b) = dedupInto s a ++ r := by
  induction a generalizing s with
  | nil => exact ⟨_, rfl⟩
  | cons x xs ih =>
    simp only [List.cons_append]
    unfold dedupInto
    by_cases hx : x ∈ s
    · rw [if_pos hx, if_pos hx]; exact ih s
    · rw [if_neg hx, if_neg hx]
      obtain ⟨r, hr⟩ := ih (x :: s)
      exact ⟨r, by rw [hr]; rfl⟩

theorem keepOf_prefix (base a b : List α) : ∃ r, keepOf k o base (a ++ b) = keepOf k o base a ++ r := by
  unfold keepOf
  cases (o.unique || k.isSet)
  · exact ⟨b, rfl⟩
  · exact dedupInto_prefix base a b

theorem keepOf_snoc_cases (base done : List α) (v : α) :
    keepOf k o base (done ++ [v]) = keepOf k o base done ∨
    keepOf k o base (done ++ [v]) = keepOf k o base done ++ [v] := by
  by_cases h : (o.unique || k.isSet) = true ∧ (v ∈ base ∨ v ∈ done)
  · exact Or.inl (keepOf_snoc_old base done v h.1 h.2)
  · exact Or.inr (keepOf_snoc_new base done v (fun hb hm => h ⟨hb, hm⟩))

/-- **Each kept value was formatted for the position it was stored at.**  The `j`-th value kept out of the
    tokens `ts` (counting the values kept before them) is the image of one of these tokens under the general
    format and the formatters of position `base.length + j` — the index it has in a destination that appends. -/
theorem kept_formatted (base : List α) : ∀ (ts : List (List Char)) (done : List α), AccAll E k o base done ts →
    ∀ (j : Nat), (keepOf k o base done).length ≤ j →
      ∀ (h : j < (keepOf k o base (done ++ vals E k o base done ts)).length),
        ∃ t ∈ ts, valOf E k o (base.length + j) t = some ((keepOf k o base (done ++ vals E k o base done ts))[j])
  | [], done, _, j, hle, h => by
    exfalso
    simp only [vals, List.append_nil] at h
    omega
  | t :: ts, done, hacc, j, hle, h => by
    obtain ⟨_, v, hv, hrest⟩ := hacc
    have hvals := vals_cons_some (E := E) (k := k) (o := o) ts hv
    have hassoc : done ++ vals E k o base done (t :: ts) = (done ++ [v]) ++ vals E k o base (done ++ [v]) ts := by
      rw [hvals]; simp
    have ih := kept_formatted base ts (done ++ [v]) hrest j
    by_cases hj : (keepOf k o base (done ++ [v])).length ≤ j
    · obtain ⟨t', ht', hval⟩ := ih hj (by rw [← hassoc]; exact h)
      refine ⟨t', List.mem_cons_of_mem _ ht', ?_⟩
      rw [hval]
      congr 1
      simp only [hassoc]
    · -- the value of this very token is the one kept at index `j`
      rcases keepOf_snoc_cases (k := k) (o := o) base done v with hk | hk
      · rw [hk] at hj; exact absurd hle hj
      · have hjeq : j = (keepOf k o base done).length := by
          rw [hk, List.length_append] at hj
          simp at hj
          omega
        obtain ⟨r, hr⟩ := keepOf_prefix (k := k) (o := o) base (done ++ [v]) (vals E k o base (done ++ [v]) ts)
        refine ⟨t, List.mem_cons_self, ?_⟩
        have hpos : posOf k o base done = base.length + j := by rw [hjeq]; rfl
        rw [← hpos, hv]
        congr 1
        simp only [hassoc, hr, hk, hjeq]
        simp

/-- without unique-data (and not a set) nothing is dropped: value number `i` belongs to token number `i`, which was
    formatted for position `base.length + done.length + i` -/
theorem vals_nounique (hu : (o.unique || k.isSet) = false) (base : List α) : ∀ (ts : List (List Char)) (done : List α),
    AccAll E k o base done ts →
    (vals E k o base done ts).length = ts.length ∧
    ∀ (i : Nat) (h : i < ts.length), (vals E k o base done ts)[i]? = valOf E k o (base.length + done.length + i) ts[i]
  | [], _, _ => ⟨rfl, fun i h => absurd h (by simp)⟩
  | t :: ts, done, hacc => by
    obtain ⟨_, v, hv, hrest⟩ := hacc
    have hpos : posOf k o base done = base.length + done.length := by
      unfold posOf keepOf
      rw [hu]; simp
    have ih := vals_nounique hu base ts (done ++ [v]) hrest
    rw [vals_cons_some ts hv]
    refine ⟨by simp [ih.1], ?_⟩
    intro i h
    cases i with
    | zero => simp [← hpos, hv]
    | succ i =>
      have := ih.2 i (by simpa using h)
      simp only [List.getElem?_cons_succ, List.getElem_cons_succ]
      rw [this]
      congr 1
      simp
      omega

/-- the invariant holds for the state an evaluation starts from -/
theorem inv_start (init : List α) (hwf : WF (E := E) (k := k) init) :
    Inv E k o (if o.clear then [] else init) (startContent (SeqState.start init o)) [] := by
  have hstart : startContent (SeqState.start init o) = if o.clear then [] else init := rfl
  rw [hstart]
  refine ⟨by simp [keepOf, dedupInto], ?_, ?_⟩
  · intro _ _; cases k.prepend <;> simp [keepOf, dedupInto]
  · intro hk
    cases o.clear
    · exact hwf hk
    · simp [Sorted]

/-- the elementwise reading of `AccAll`: every token passes all checks and converts after the general format and
    the formatters of some position -/
theorem accAll_elementwise (base : List α) : ∀ (ts : List (List Char)) (done : List α), AccAll E k o base done ts →
    ∀ t ∈ ts, runChecks o.checks t = none ∧ ∃ p, Accepts E k o p t
  | [], _, _ => by simp
  | t :: ts, done, ⟨hc, v, hv, hr⟩ => by
    intro t' ht'
    rcases List.mem_cons.mp ht' with rfl | ht'
    · exact ⟨hc, _, hc, by rw [hv]; rfl⟩
    · exact accAll_elementwise base ts _ hr t' ht'

end seq


end CelmaVerif.Containers
