import CelmaVerif.Lemmas.LogFilesRun
/-
  Helper lemmas for C15, part 4 (audit follow-up): consequences of the invariant at history level —
  where the most recent message is, what one event does to the retained text, how much is retained.
-/
namespace CelmaVerif.LogFiles

/-! ### lists -/

theorem suffix_getLast? {α : Type} {s l : List α} (h : s <:+ l) (hne : s ≠ []) : s.getLast? = l.getLast? := by
  obtain ⟨t, rfl⟩ := h
  cases s with
  | nil => exact absurd rfl hne
  | cons a s =>
    rw [List.getLast?_append]
    cases h : (a :: s).getLast? with
    | none => simp at h
    | some x => rfl

theorem size_cons (cfg : Cfg) (x : Msg) (g : File) : size cfg (x :: g) = cost cfg x + size cfg g := by
  unfold size cost fileBytes
  cases cfg.kind
  · simp; omega
  · simp

theorem size_app (cfg : Cfg) (a b : File) : size cfg (a ++ b) = size cfg a + size cfg b := by
  induction a with
  | nil => simp
  | cons x a ih => rw [List.cons_append, size_cons, size_cons, ih]; omega

theorem size_eq_zero {cfg : Cfg} {g : File} (h : size cfg g = 0) : g = [] := by
  cases g with
  | nil => rfl
  | cons x g => rw [size_cons] at h; have := cost_pos cfg x; omega

/-! ### `retained` -/

/-- generation 0 is the end of what is retained -/
theorem retained_ends0 (fs : Fs) (n : Nat) : ∃ t, retained fs (n + 1) = t ++ (fs.get 0).getD [] := by
  induction n with
  | zero => exact ⟨[], by simp [retained]⟩
  | succ n ih =>
    obtain ⟨t, ht⟩ := ih
    refine ⟨(fs.get (n + 1)).getD [] ++ t, ?_⟩
    have : retained fs (n + 1 + 1) = (fs.get (n + 1)).getD [] ++ retained fs (n + 1) := rfl
    rw [this, ht, List.append_assoc]

/-- generations 1 and 0 are the end of what is retained -/
theorem retained_ends1 (fs : Fs) (n : Nat) :
    ∃ t, retained fs (n + 2) = t ++ ((fs.get 1).getD [] ++ (fs.get 0).getD []) := by
  induction n with
  | zero => exact ⟨[], by simp [retained]⟩
  | succ n ih =>
    obtain ⟨t, ht⟩ := ih
    refine ⟨(fs.get (n + 2)).getD [] ++ t, ?_⟩
    have : retained fs (n + 1 + 2) = (fs.get (n + 2)).getD [] ++ retained fs (n + 2) := rfl
    rw [this, ht, List.append_assoc]

/-- numbers from `k` on are not in use: only the generations below `k` count -/
theorem retained_beyond {fs : Fs} {k : Nat} (hnex : ∀ n, k ≤ n → fs.get n = none) :
    ∀ K, k ≤ K → retained fs K = retained fs k := by
  intro K hK
  induction K with
  | zero => have : k = 0 := by omega
            subst this; rfl
  | succ K ih =>
    by_cases h : k = K + 1
    · subst h; rfl
    · rw [retained_none K (hnex K (by omega))]
      exact ih (by omega)

/-! ### the most recent message -/

/-- what is retained is not empty once a message was written — except with a single file that a restart found
    full and emptied -/
theorem inv_retained_ne_nil {cfg : Cfg} {fs : Fs} {c k : Nat} {msgs : List Msg} (hlim : 1 ≤ cfg.limit)
    (hI : Inv cfg fs c msgs k) (hne : msgs ≠ [])
    (h2 : 2 ≤ numGen cfg ∨ fs.get 0 ≠ some []) : retained fs (numGen cfg) ≠ [] := by
  obtain ⟨f, h0, _, _⟩ := hI.cur
  have hK := numGen_pos cfg
  by_cases hf : f = []
  · subst hf
    have h2' : 2 ≤ numGen cfg := by
      rcases h2 with h | h
      · exact h
      · exact absurd h0 h
    by_cases hk : k < numGen cfg
    · rw [hI.all hk]; exact hne
    · have hk2 : 1 < k := by have := hI.k_le; omega
      cases h1 : fs.get 1 with
      | none => exact absurd h1 (hI.ex 1 hk2)
      | some g =>
        have hadj := hI.adj 0 g [] h1 h0
        simp only [nextCost] at hadj
        have hg : g ≠ [] := by
          intro e; subst e; simp at hadj; omega
        obtain ⟨t, ht⟩ := retained_ends1 fs (numGen cfg - 2)
        have e : numGen cfg - 2 + 2 = numGen cfg := by omega
        rw [e] at ht
        rw [ht, h1, h0]
        simp [hg]
  · obtain ⟨t, ht⟩ := retained_ends0 fs (numGen cfg - 1)
    have e : numGen cfg - 1 + 1 = numGen cfg := by omega
    rw [e] at ht
    rw [ht, h0]
    simp [hf]

theorem inv_latest {cfg : Cfg} {fs : Fs} {c k : Nat} {msgs : List Msg} (hlim : 1 ≤ cfg.limit)
    (hI : Inv cfg fs c msgs k) (hne : msgs ≠ [])
    (h2 : 2 ≤ numGen cfg ∨ fs.get 0 ≠ some []) :
    (retained fs (numGen cfg)).getLast? = msgs.getLast? :=
  suffix_getLast? hI.suf (inv_retained_ne_nil hlim hI hne h2)

/-- a non-empty generation 0 ends with the most recent message -/
theorem inv_latest_cur {cfg : Cfg} {fs : Fs} {c k : Nat} {msgs : List Msg}
    (hI : Inv cfg fs c msgs k) {f : File} (h0 : fs.get 0 = some f) (hf : f ≠ []) :
    f.getLast? = msgs.getLast? := by
  have hK := numGen_pos cfg
  obtain ⟨t, ht⟩ := retained_ends0 fs (numGen cfg - 1)
  have e : numGen cfg - 1 + 1 = numGen cfg := by omega
  rw [e, h0] at ht
  have hs : f <:+ msgs := by
    have h1 : f <:+ retained fs (numGen cfg) := ⟨t, by rw [ht]; rfl⟩
    exact h1.trans hI.suf
  exact suffix_getLast? hs hf

/-- when generation 0 is still empty (a restart found its predecessor full), generation 1 ends with the most
    recent message -/
theorem inv_latest_prev {cfg : Cfg} {fs : Fs} {c k : Nat} {msgs : List Msg} (hlim : 1 ≤ cfg.limit)
    (hI : Inv cfg fs c msgs k) (h0 : fs.get 0 = some []) {g : File} (h1 : fs.get 1 = some g) :
    g ≠ [] ∧ g.getLast? = msgs.getLast? := by
  have hadj := hI.adj 0 g [] h1 h0
  simp only [nextCost] at hadj
  have hg : g ≠ [] := by
    intro e; subst e; simp at hadj; omega
  have hk2 : 1 < k := by
    by_cases h : 1 < k
    · exact h
    · have := hI.nex 1 (by omega); rw [h1] at this; cases this
  have hK : 2 ≤ numGen cfg := by have := hI.k_le; omega
  obtain ⟨t, ht⟩ := retained_ends1 fs (numGen cfg - 2)
  have e : numGen cfg - 2 + 2 = numGen cfg := by omega
  rw [e, h0, h1] at ht
  have hs : g <:+ msgs := by
    have h1 : g <:+ retained fs (numGen cfg) := ⟨t, by rw [ht]; simp⟩
    exact h1.trans hI.suf
  exact ⟨hg, suffix_getLast? hs hg⟩

/-! ### one event and the retained text -/

/-- the messages one event writes -/
theorem messages_single (e : Event) :
    messages [e] = (match e with | .write m => [m] | .restart => []) := by
  cases e <;> rfl

/-- One event on a well-formed state: either nothing is rolled and the text of the event is appended to what is
    retained, or the generations are rolled: what generation `numGen-1` held is gone, the rest is kept, the text
    of the event follows.  The generations are rolled iff `limit < size f + nextCost (text of the event)`:
    a message that does not fit generation 0, or a restart on a generation 0 that can take no message at all. -/
theorem step_retained {cfg : Cfg} {w : World} {msgs : List Msg} (e : Event) (hlim : 1 ≤ cfg.limit)
    (hW : WInv cfg w msgs) {f : File} (h0 : w.fs.get 0 = some f) :
    (size cfg f + nextCost cfg (messages [e]) ≤ cfg.limit →
      retained (w.step e).1.fs (numGen cfg) = retained w.fs (numGen cfg) ++ messages [e]) ∧
    (cfg.limit < size cfg f + nextCost cfg (messages [e]) →
      retained (w.step e).1.fs (numGen cfg) = retained w.fs (numGen cfg - 1) ++ messages [e]) := by
  have hK := numGen_pos cfg
  have eK : numGen cfg - 1 + 1 = numGen cfg := by omega
  cases e with
  | write m =>
    obtain ⟨hfit, hroll⟩ := step_write_fs m hlim hW h0
    simp only [messages, nextCost]
    constructor
    · intro h
      have hg := hfit h
      have := retained_append0 (fs := w.fs) (fs' := (w.step (.write m)).1.fs) (x := [m]) h0
        (by rw [hg 0]; simp) (by intro i hi; rw [hg i]; have : ¬ i = 0 := by omega
                                 simp [this]) (numGen cfg - 1)
      rw [eK] at this; exact this
    · intro h
      have hg := hroll h
      have := retained_shift (fs := w.fs) (fs' := (w.step (.write m)).1.fs) (g0 := [m]) (numGen cfg)
        (by rw [hg 0]; simp)
        (by intro i h1 h2; rw [hg i]; have : ¬ i = 0 := by omega
            simp [this, h2]) (numGen cfg - 1) (by omega)
      rw [eK] at this; exact this
  | restart =>
    obtain ⟨hkeep, hroll⟩ := step_restart_fs hlim hW h0
    simp only [messages, nextCost, List.append_nil]
    constructor
    · intro h
      exact retained_congr _ (fun i _ => hkeep (by omega) i)
    · intro h
      have hg := hroll (by omega)
      have := retained_shift (fs := w.fs) (fs' := (w.step .restart).1.fs) (g0 := []) (numGen cfg)
        (by rw [hg 0]; simp)
        (by intro i h1 h2; rw [hg i]; have : ¬ i = 0 := by omega
            simp [this, h2]) (numGen cfg - 1) (by omega)
      rw [eK] at this; simpa using this

/-- what is retained = what the oldest possible generation holds ++ the rest; the oldest possible generation
    (number `numGen-1`) exists only when the maximum number of files is reached -/
theorem retained_split (cfg : Cfg) (fs : Fs) :
    retained fs (numGen cfg) = (fs.get (numGen cfg - 1)).getD [] ++ retained fs (numGen cfg - 1) := by
  have hK := numGen_pos cfg
  have eK : numGen cfg - 1 + 1 = numGen cfg := by omega
  have : retained fs (numGen cfg - 1 + 1) = (fs.get (numGen cfg - 1)).getD [] ++ retained fs (numGen cfg - 1) := rfl
  rw [eK] at this; exact this

/-! ### how much is retained -/

/-- entry-counted files: every generation but the newest holds exactly `limit` messages -/
theorem inv_counted_length {cfg : Cfg} {fs : Fs} {c k : Nat} {msgs : List Msg} (hlim : 1 ≤ cfg.limit)
    (hk : cfg.kind = .counted) (hI : Inv cfg fs c msgs k) {f : File} (h0 : fs.get 0 = some f) :
    ∀ n, n < k → (retained fs (n + 1)).length = n * cfg.limit + f.length := by
  intro n
  induction n with
  | zero => intro _; simp [retained, h0]
  | succ n ih =>
    intro hn
    have ih' := ih (by omega)
    have : retained fs (n + 1 + 1) = (fs.get (n + 1)).getD [] ++ retained fs (n + 1) := rfl
    rw [this, List.length_append, ih']
    cases hg : fs.get (n + 1) with
    | none => exact absurd hg (hI.ex (n + 1) hn)
    | some g =>
      cases hg' : fs.get n with
      | none => exact absurd hg' (hI.ex n (by omega))
      | some g' =>
        have hadj := hI.adj n g g' hg hg'
        have hl := hI.lim (n + 1) g hg
        have hnc : nextCost cfg g' = 1 := by
          cases g' with
          | nil => rfl
          | cons x _ => simp [nextCost, cost, hk]
        have hs : size cfg g = g.length := by simp [size, hk]
        unfold GenOk at hl
        rw [hs] at hl hadj
        rw [hnc] at hadj
        have hlen : g.length = cfg.limit := by omega
        simp only [Option.getD_some]
        rw [hlen, Nat.succ_mul]
        omega

/-- entry-counted files: the number of retained messages is exactly
    `min (number written) ((numGen-1) * limit + number in generation 0)` -/
theorem inv_counted_count {cfg : Cfg} {fs : Fs} {c k : Nat} {msgs : List Msg} (hlim : 1 ≤ cfg.limit)
    (hk : cfg.kind = .counted) (hI : Inv cfg fs c msgs k) {f : File} (h0 : fs.get 0 = some f) :
    (retained fs (numGen cfg)).length = min msgs.length ((numGen cfg - 1) * cfg.limit + f.length) := by
  have hkpos := hI.k_pos
  have hkle := hI.k_le
  have hlen := inv_counted_length hlim hk hI h0 (k - 1) (by omega)
  have ek : k - 1 + 1 = k := by omega
  rw [ek] at hlen
  rw [retained_beyond hI.nex (numGen cfg) hkle, hlen]
  by_cases hfull : k < numGen cfg
  · have hall := hI.all hfull
    rw [retained_beyond hI.nex (numGen cfg) hkle] at hall
    rw [← hall, hlen]
    have : (k - 1) * cfg.limit ≤ (numGen cfg - 1) * cfg.limit := Nat.mul_le_mul_right _ (by omega)
    omega
  · have e : k = numGen cfg := by omega
    have hsuf := hI.suf.length_le
    rw [retained_beyond hI.nex (numGen cfg) hkle, hlen] at hsuf
    rw [e] at hsuf ⊢
    omega

/-- both kinds, in the unit of the limit (entries resp. bytes): when every retained message costs at most `c`,
    every generation but the newest holds at least `limit + 1 - c` -/
theorem inv_size_lower {cfg : Cfg} {fs : Fs} {c k : Nat} {msgs : List Msg} (cmax : Nat) (hc1 : 1 ≤ cmax)
    (hI : Inv cfg fs c msgs k) (hcost : ∀ m ∈ retained fs (numGen cfg), cost cfg m ≤ cmax)
    {f : File} (h0 : fs.get 0 = some f) :
    ∀ n, n < k → n * (cfg.limit + 1 - cmax) + size cfg f ≤ size cfg (retained fs (n + 1)) := by
  intro n
  induction n with
  | zero => intro _; simp [retained, h0]
  | succ n ih =>
    intro hn
    have ih' := ih (by omega)
    have hkle := hI.k_le
    have : retained fs (n + 1 + 1) = (fs.get (n + 1)).getD [] ++ retained fs (n + 1) := rfl
    rw [this, size_app]
    cases hg : fs.get (n + 1) with
    | none => exact absurd hg (hI.ex (n + 1) hn)
    | some g =>
      cases hg' : fs.get n with
      | none => exact absurd hg' (hI.ex n (by omega))
      | some g' =>
        have hadj := hI.adj n g g' hg hg'
        have hnc : nextCost cfg g' ≤ cmax := by
          cases g' with
          | nil => exact hc1
          | cons x r =>
            exact hcost x (mem_retained (i := n) (by omega) hg' (by simp))
        simp only [Option.getD_some]
        rw [Nat.succ_mul]
        omega

theorem inv_size_bound {cfg : Cfg} {fs : Fs} {c k : Nat} {msgs : List Msg} (cmax : Nat) (hc1 : 1 ≤ cmax)
    (hI : Inv cfg fs c msgs k) (hcost : ∀ m ∈ retained fs (numGen cfg), cost cfg m ≤ cmax)
    {f : File} (h0 : fs.get 0 = some f) :
    retained fs (numGen cfg) = msgs ∨
    (numGen cfg - 1) * (cfg.limit + 1 - cmax) + size cfg f ≤ size cfg (retained fs (numGen cfg)) := by
  have hkpos := hI.k_pos
  have hkle := hI.k_le
  by_cases hfull : k < numGen cfg
  · exact Or.inl (hI.all hfull)
  · right
    have e : k = numGen cfg := by omega
    have := inv_size_lower cmax hc1 hI hcost h0 (k - 1) (by omega)
    have ek : k - 1 + 1 = k := by omega
    rw [ek, e] at this
    exact this

/-! ### any well-formed directory as a starting point -/

/-- the directory whose generation `i` is `gs[i]` (newest first) -/
def dirOf (gs : List File) : Fs := ⟨fun i => gs[i]?⟩

/-- a directory (generations newest first) that a policy of configuration `cfg` may find and continue after
    `msgs` were written: between one and `numGen` files, each within the limit or one single message, each but
    the newest unable to take the first message of the next one, together a suffix of `msgs` (all of `msgs`
    while fewer than `numGen` files exist), and — entry-counted policy — no newline inside the messages of the
    newest file -/
structure DirOk (cfg : Cfg) (gs : List File) (msgs : List Msg) : Prop where
  pos : 1 ≤ gs.length
  le : gs.length ≤ numGen cfg
  lim : ∀ g ∈ gs, GenOk cfg g
  adj : ∀ n, n + 1 < gs.length → cfg.limit < size cfg (gs.getD (n + 1) []) + nextCost cfg (gs.getD n [])
  suf : gs.reverse.flatten <:+ msgs
  all : gs.length < numGen cfg → gs.reverse.flatten = msgs
  nl : cfg.kind = .counted → ∀ m ∈ gs.headD [], 10 ∉ m

theorem retained_dirOf (gs : List File) (n : Nat) : retained (dirOf gs) n = (gs.take n).reverse.flatten := by
  induction n with
  | zero => rfl
  | succ n ih =>
    have e : retained (dirOf gs) (n + 1) = (gs[n]?).getD [] ++ retained (dirOf gs) n := rfl
    rw [e, ih, List.take_add_one, List.reverse_append, List.flatten_append]
    cases gs[n]? <;> simp

/-- a policy object that was constructed on such a directory (counter = size of the newest file) -/
theorem winv_dirOf {cfg : Cfg} {gs : List File} {msgs : List Msg} (h : DirOk cfg gs msgs) :
    WInv cfg ⟨cfg, dirOf gs, some ⟨size cfg (gs.headD [])⟩⟩ msgs := by
  have hpos := h.pos
  have hret : retained (dirOf gs) (numGen cfg) = gs.reverse.flatten := by
    rw [retained_dirOf, List.take_of_length_le h.le]
  have h0 : (dirOf gs).get 0 = some (gs.headD []) := by
    cases gs with
    | nil => simp at hpos
    | cons g gs => simp [dirOf]
  refine ⟨rfl, _, gs.length, rfl, ⟨h.pos, h.le, ?_, ?_, ⟨_, h0, rfl, h.nl⟩, ?_, ?_, ?_, ?_⟩⟩
  · intro n hn
    simp [dirOf, hn]
  · intro n hn
    simp [dirOf, hn]
  · intro n f hf
    simp only [dirOf] at hf
    exact h.lim f (List.mem_of_getElem? hf)
  · intro n g g' hg hg'
    simp only [dirOf] at hg hg'
    have hn : n + 1 < gs.length := by
      by_cases hh : n + 1 < gs.length
      · exact hh
      · rw [List.getElem?_eq_none (by omega)] at hg; cases hg
    have := h.adj n hn
    simp only [List.getD_eq_getElem?_getD, hg, hg', Option.getD_some] at this
    exact this
  · rw [hret]; exact h.suf
  · intro hk; rw [hret]; exact h.all hk

end CelmaVerif.LogFiles
