import CelmaVerif.Lemmas.Int2StrApi
/-
  C13, audit follow-up: an independent, positional characterisation of `groupRight` (the meaning of
  "grouped"), that removing the group characters gives the digits back, and the facts about the
  specification text needed for the round trip of the grouped and buffer forms.
-/
namespace CelmaVerif.Int2Str
open CelmaVerif

/-! ### `groupRev`: least significant element first -/

/-- position by position: every index `i` with `i % 4 = 3` inside the result holds the group element,
    every other index holds element `i - i / 4` of the original list -/
theorem groupRev_getElem? {α : Type} (g : α) (m : List α) (i : Nat) :
    (groupRev g m)[i]? =
      if i % 4 = 3 then (if i < m.length + (m.length - 1) / 3 then some g else none)
      else m[i - i / 4]? := by
  induction m using groupRev.induct generalizing i with
  | case1 a b c d rest ih =>
    rw [groupRev]
    match i with
    | 0 => simp
    | 1 => simp
    | 2 => simp
    | 3 =>
      have : 3 < (a :: b :: c :: d :: rest).length + ((a :: b :: c :: d :: rest).length - 1) / 3 := by
        simp only [List.length_cons]; omega
      rw [if_pos (by rfl), if_pos this]
      rfl
    | j + 4 =>
      have e1 : (a :: b :: c :: g :: groupRev g (d :: rest))[j + 4]? = (groupRev g (d :: rest))[j]? := by
        simp
      rw [e1, ih j]
      have hm : (j + 4) % 4 = j % 4 := by omega
      rw [hm]
      by_cases h3 : j % 4 = 3
      · rw [if_pos h3, if_pos h3]
        have : (j < (d :: rest).length + ((d :: rest).length - 1) / 3) ↔
            (j + 4 < (a :: b :: c :: d :: rest).length + ((a :: b :: c :: d :: rest).length - 1) / 3) := by
          simp only [List.length_cons]; omega
        by_cases hj : j < (d :: rest).length + ((d :: rest).length - 1) / 3
        · rw [if_pos hj, if_pos (this.mp hj)]
        · rw [if_neg hj, if_neg (fun c => hj (this.mpr c))]
      · rw [if_neg h3, if_neg h3]
        have : j + 4 - (j + 4) / 4 = (j - j / 4) + 3 := by omega
        rw [this]
        simp
  | case2 m h =>
    rw [groupRev.eq_2 _ _ h]
    have hlen : m.length ≤ 3 := by
      match m, h with
      | [], _ => simp
      | [_], _ => simp
      | [_, _], _ => simp
      | [_, _, _], _ => simp
      | a :: b :: c :: d :: r, h => exact absurd rfl (fun e => h a b c d r e)
    by_cases h3 : i % 4 = 3
    · rw [if_pos h3, if_neg (by omega), List.getElem?_eq_none (by omega)]
    · rw [if_neg h3]
      by_cases hi : i < 3
      · have : i / 4 = 0 := by omega
        rw [this, Nat.sub_zero]
      · rw [List.getElem?_eq_none (by omega), List.getElem?_eq_none (by omega)]

/-- removing the group elements gives the original list back (when the group element is not one of
    the list's own elements) -/
theorem groupRev_filter {α : Type} [DecidableEq α] (g : α) (m : List α) (hg : g ∉ m) :
    (groupRev g m).filter (fun x => x != g) = m := by
  induction m using groupRev.induct with
  | case1 a b c d rest ih =>
    rw [groupRev]
    simp only [List.mem_cons, not_or] at hg
    obtain ⟨ha, hb, hc, hd, hr⟩ := hg
    have ih' := ih (by simp only [List.mem_cons, not_or]; exact ⟨hd, hr⟩)
    simp only [List.filter_cons, bne_self_eq_false, Bool.false_eq_true, if_false]
    rw [ih']
    simp [Ne.symm ha, Ne.symm hb, Ne.symm hc]
  | case2 m h =>
    rw [groupRev.eq_2 _ _ h]
    rw [List.filter_eq_self]
    intro x hx
    simp only [bne_iff_ne, ne_eq]
    intro e
    exact hg (e ▸ hx)

theorem groupRev_length {α : Type} (g : α) (m : List α) :
    (groupRev g m).length = m.length + (m.length - 1) / 3 := by
  induction m using groupRev.induct with
  | case1 a b c d rest ih =>
    simp only [groupRev, List.length_cons] at ih ⊢
    omega
  | case2 m h =>
    rw [groupRev.eq_2 _ _ h]
    match m, h with
    | [], _ => simp
    | [_], _ => simp
    | [_, _], _ => simp
    | [_, _, _], _ => simp
    | a :: b :: c :: d :: r, h => exact absurd rfl (fun e => h a b c d r e)

/-! ### `groupRight` -/

theorem groupRight_reverse_getElem? {α : Type} (g : α) (l : List α) (i : Nat) :
    (groupRight g l).reverse[i]? =
      if i % 4 = 3 then (if i < l.length + (l.length - 1) / 3 then some g else none)
      else l.reverse[i - i / 4]? := by
  unfold groupRight
  rw [List.reverse_reverse, groupRev_getElem?, List.length_reverse]

theorem groupRight_filter {α : Type} [DecidableEq α] (g : α) (l : List α) (hg : g ∉ l) :
    (groupRight g l).filter (fun x => x != g) = l := by
  unfold groupRight
  rw [List.filter_reverse, groupRev_filter g l.reverse (by simpa using hg), List.reverse_reverse]

/-! ### the specification text -/

/-- the digits of a number are the bytes '0'..'9' -/
theorem digitBytes_range (v : Nat) (b : Byte) (hb : b ∈ digitBytes v) : 48 ≤ b ∧ b ≤ 57 := by
  unfold digitBytes at hb
  rw [List.mem_map] at hb
  obtain ⟨c, hc, rfl⟩ := hb
  have := Nat.isDigit_of_mem_toDigits (by decide) (by decide) hc
  simp only [Char.isDigit, Bool.and_eq_true, decide_eq_true_eq] at this
  obtain ⟨h1, h2⟩ := this
  have g1 : ('0' : Char).val.toNat ≤ c.val.toNat := UInt32.le_iff_toNat_le.mp h1
  have g2 : c.val.toNat ≤ ('9' : Char).val.toNat := UInt32.le_iff_toNat_le.mp h2
  exact ⟨g1, g2⟩

/-- removing the group characters from the grouped text gives the plain text, when the group
    character is neither a digit nor the minus sign -/
theorem specText_filter (g : Byte) (v : Int) (hg : g ≠ 45 ∧ ¬ (48 ≤ g ∧ g ≤ 57)) :
    (specText true g v).filter (fun x => x != g) = specText false g v := by
  have hnot : g ∉ digitBytes v.natAbs := fun h => hg.2 (digitBytes_range _ _ h)
  unfold specText body
  simp only [if_true, Bool.false_eq_true, if_false, List.filter_append]
  rw [groupRight_filter g _ hnot]
  congr 1
  by_cases hv : v < 0
  · rw [if_pos hv]
    simp [Ne.symm hg.1]
  · rw [if_neg hv]; rfl

end CelmaVerif.Int2Str
