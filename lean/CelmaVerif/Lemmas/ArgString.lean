import CelmaVerif.Model.ArgString
/-
  Lemmas about the splitString model: what one quoted segment / one run of blanks does to the
  splitter state, then the word-list induction.
-/
namespace CelmaVerif.ArgString
open CelmaVerif

/-- outside quotes, no pending backslash (the state at every word boundary) -/
def St.Clean (s : St) : Prop :=
  s.inQuote = false ∧ s.gotBackslash = false ∧ s.usedQuoteChar = '-'

theorem clean_init : ({} : St).Clean := ⟨rfl, rfl, rfl⟩

@[simp] theorem run_nil (s : St) : run s [] = s := rfl
@[simp] theorem run_cons (s : St) (c : Char) (cs : List Char) : run s (c :: cs) = run (step s c) cs := rfl
theorem run_append (s : St) (a b : List Char) : run s (a ++ b) = run (run s a) b := by
  simp [run, List.foldl_append]

/-! ### single steps -/

theorem step_backslash_pending (s : St) (c : Char) (h : s.gotBackslash = true) :
    step s c = { s with currWord := s.currWord ++ [c], gotBackslash := false } := by
  unfold step; rw [if_pos h]

theorem step_backslash (s : St) (h : s.gotBackslash = false) :
    step s '\\' = { s with gotBackslash := true } := by
  unfold step; simp [h]

/-- a backslash followed by any character appends that character, in any quote state -/
theorem step_escaped (s : St) (c : Char) (h : s.gotBackslash = false) :
    step (step s '\\') c = { s with currWord := s.currWord ++ [c] } := by
  rw [step_backslash s h, step_backslash_pending _ _ rfl]
  cases s; simp_all

theorem step_inQuote_plain (s : St) (c : Char) (hb : s.gotBackslash = false) (hq : s.inQuote = true)
    (h1 : c ≠ s.usedQuoteChar) (h2 : c ≠ '\\') :
    step s c = { s with currWord := s.currWord ++ [c] } := by
  unfold step; simp [hb, hq, h1, h2]

theorem step_inQuote_close (s : St) (hb : s.gotBackslash = false) (hq : s.inQuote = true)
    (h2 : s.usedQuoteChar ≠ '\\') :
    step s s.usedQuoteChar = { s with usedQuoteChar := '-', inQuote := false } := by
  unfold step; simp [hb, hq, h2]

theorem step_open (s : St) (qc : Char) (hc : s.Clean) (hq : qc = '\'' ∨ qc = '"') :
    step s qc = { s with inQuote := true, usedQuoteChar := qc } := by
  obtain ⟨h1, h2, _⟩ := hc
  have : qc ≠ '\\' := by rcases hq with h | h <;> (rw [h]; decide)
  unfold step; simp [h1, h2, this, hq]

theorem step_plain (s : St) (c : Char) (hc : s.Clean) (h : special c = false) :
    step s c = { s with currWord := s.currWord ++ [c] } := by
  obtain ⟨h1, h2, _⟩ := hc
  simp only [special, Bool.or_eq_false_iff, beq_eq_false_iff_ne] at h
  obtain ⟨⟨⟨a, b⟩, c'⟩, d⟩ := h
  unfold step; simp [h1, h2, a, b, c', d]

theorem step_space_flush (s : St) (hc : s.Clean) (h : s.currWord ≠ []) :
    step s ' ' = { s with arguments := s.arguments ++ [s.currWord], currWord := [] } := by
  obtain ⟨h1, h2, _⟩ := hc
  unfold step
  have e1 : (' ' : Char) ≠ '\\' := by decide
  simp [h1, h2, e1, h]

theorem step_space_skip (s : St) (hc : s.Clean) (h : s.currWord = []) : step s ' ' = s := by
  obtain ⟨h1, h2, _⟩ := hc
  unfold step
  have e1 : (' ' : Char) ≠ '\\' := by decide
  simp [h1, h2, e1, h]

/-! ### segments -/

theorem run_inQuote {qc : Char} {b v : List Char} (h : InQuote qc b v) :
    ∀ s : St, s.inQuote = true → s.gotBackslash = false → s.usedQuoteChar = qc →
      run s b = { s with currWord := s.currWord ++ v } := by
  induction h with
  | nil => intro s _ _ _; cases s; simp
  | plain c h1 h2 _ ih =>
    intro s hq hb hu
    rw [run_cons, step_inQuote_plain s c hb hq (by rw [hu]; exact h1) h2,
      ih { s with currWord := s.currWord ++ [c] } hq hb hu]
    simp
  | esc c _ ih =>
    intro s hq hb hu
    rw [run_cons, run_cons, step_escaped s c hb, ih { s with currWord := s.currWord ++ [c] } hq hb hu]
    simp

theorem run_quotes {q w : List Char} (h : Quotes q w) :
    ∀ s : St, s.Clean → run s q = { s with currWord := s.currWord ++ w } := by
  induction h with
  | nil => intro s _; cases s; simp
  | plain c hc _ ih =>
    intro s hs
    rw [run_cons, step_plain s c hs hc, ih { s with currWord := s.currWord ++ [c] } hs]
    simp
  | esc c _ ih =>
    intro s hs
    rw [run_cons, run_cons, step_escaped s c hs.2.1, ih { s with currWord := s.currWord ++ [c] } hs]
    simp
  | @quoted qc b v q w hq hin _ ih =>
    intro s hs
    have hne : qc ≠ '\\' := by rcases hq with h | h <;> (rw [h]; decide)
    obtain ⟨h1, h2, h3⟩ := hs
    have e1 := run_inQuote hin { s with inQuote := true, usedQuoteChar := qc } rfl h2 rfl
    have e2 := step_inQuote_close
      { s with inQuote := true, usedQuoteChar := qc, currWord := s.currWord ++ v } h2 rfl hne
    have e3 := ih { s with currWord := s.currWord ++ v, usedQuoteChar := '-', inQuote := false } ⟨rfl, h2, rfl⟩
    simp only at e1 e2 e3
    rw [List.cons_append, run_cons, step_open s qc ⟨h1, h2, h3⟩ hq, run_append, e1, run_cons, e2, e3]
    cases s; simp_all

/-- a quoted word followed by a blank: the decoded word is pushed, the state is clean and empty -/
theorem run_word_space {q w : List Char} (h : Quotes q w) (hw : w ≠ []) (s : St) (hs : s.Clean)
    (he : s.currWord = []) (rest : List Char) :
    run s (q ++ ' ' :: rest) = run { s with arguments := s.arguments ++ [w] } rest := by
  rw [run_append, run_quotes h s hs, run_cons,
    step_space_flush { s with currWord := s.currWord ++ w } hs (by simp [he, hw])]
  simp [he]

theorem finish_word {q w : List Char} (h : Quotes q w) (hw : w ≠ []) (s : St) (hs : s.Clean)
    (he : s.currWord = []) : finish (run s q) = s.arguments ++ [w] := by
  rw [run_quotes h s hs]
  unfold finish
  have : 0 < (s.currWord ++ w).length := by
    cases w with | nil => exact absurd rfl hw | cons _ _ => simp; omega
  rw [if_pos this]; simp [he]

/-- blanks at a word boundary change nothing -/
theorem run_spaces (n : Nat) (s : St) (hs : s.Clean) (he : s.currWord = []) :
    run s (List.replicate n ' ') = s := by
  induction n with
  | zero => rfl
  | succ n ih => rw [List.replicate_succ, run_cons, step_space_skip s hs he, ih]

/-- the word-list induction, from any clean state at a word boundary -/
theorem finish_run_join (qs ws : List (List Char)) (h : AllQuotes qs ws)
    (hne : ∀ w ∈ ws, w ≠ []) :
    ∀ s : St, s.Clean → s.currWord = [] → finish (run s (joinSp qs)) = s.arguments ++ ws := by
  induction h with
  | nil => intro s _ he; simp [joinSp, finish, he]
  | @cons q w qs' ws' hq hrest ih =>
    intro s hs he
    have hw : w ≠ [] := hne w (by simp)
    have hne' : ∀ w ∈ ws', w ≠ [] := fun x hx => hne x (by simp [hx])
    cases hrest with
    | nil => simpa [joinSp] using finish_word hq hw s hs he
    | @cons q2 w2 qs2 ws2 hq2 hrest2 =>
      have : joinSp (q :: q2 :: qs2) = q ++ ' ' :: joinSp (q2 :: qs2) := rfl
      rw [this, run_word_space hq hw s hs he]
      have := ih hne' { s with arguments := s.arguments ++ [w] } hs he
      rw [this]
      simp

/-! ### the escape functions produce quoted spellings -/

theorem quotes_escape (w : List Char) : Quotes (escape w) w := by
  induction w with
  | nil => exact .nil
  | cons c w ih =>
    unfold escape
    rw [List.flatMap_cons]
    by_cases h : special c = true
    · rw [if_pos h]; exact .esc c ih
    · rw [if_neg h]; exact .plain c (by simpa using h) ih

theorem inQuote_escapeIn (qc : Char) (w : List Char) : InQuote qc (escapeIn qc w) w := by
  induction w with
  | nil => exact .nil
  | cons c w ih =>
    unfold escapeIn
    rw [List.flatMap_cons]
    by_cases h : c = qc ∨ c = '\\'
    · rw [if_pos h]; exact .esc c ih
    · rw [if_neg h]
      have : c ≠ qc ∧ c ≠ '\\' := by
        constructor
        · intro e; exact h (Or.inl e)
        · intro e; exact h (Or.inr e)
      exact .plain c this.1 this.2 ih

theorem quotes_render (st : Style) (w : List Char) : Quotes (render st w) w := by
  cases st with
  | backslash => exact quotes_escape w
  | single =>
    have := Quotes.quoted '\'' (Or.inl rfl) (inQuote_escapeIn '\'' w) Quotes.nil
    simpa [render] using this
  | double =>
    have := Quotes.quoted '"' (Or.inr rfl) (inQuote_escapeIn '"' w) Quotes.nil
    simpa [render] using this

/-- `joinSp` is the standard intercalation with one blank -/
theorem joinSp_eq_intercalate (qs : List (List Char)) : joinSp qs = [' '].intercalate qs := by
  induction qs with
  | nil => rfl
  | cons q rest ih =>
    cases rest with
    | nil => simp [joinSp, List.intercalate]
    | cons q' rest' =>
      have : joinSp (q :: q' :: rest') = q ++ ' ' :: joinSp (q' :: rest') := rfl
      rw [this, ih]
      simp [List.intercalate]

end CelmaVerif.ArgString
