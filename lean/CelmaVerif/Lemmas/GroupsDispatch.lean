import CelmaVerif.Lemmas.Groups
/-
  Dispatch of a key element inside an argument group: with abbreviations off and the key known
  exactly to one member, `offer` hands the element to that member and to nobody else.
-/
namespace CelmaVerif.ProgArgs
open CelmaVerif CelmaVerif.Keys

/-- `ai` is a key element (`-c` or `--word`) and `k` is the key it is looked up with -/
def ElemKey (ai : It) (k : Key) : Prop :=
  (ai.cur.ty = .singleCharArg ∧ k = Key.ofChar ai.cur.ch) ∨ (ai.cur.ty = .stringArg ∧ wordKey ai.cur.str = .ok k)

theorem ElemKey.isKey {ai : It} {k : Key} (hk : ElemKey ai k) : (ai.cur.ty != .value) = true := by
  rcases hk with ⟨h, _⟩ | ⟨h, _⟩ <;> rw [h] <;> rfl

theorem evalSingleArgument_key (c : Cfg) (h : HState) {ai : It} {k : Key} (hk : ElemKey ai k) :
    evalSingleArgument c h ai = processArg c h k ai := by
  unfold evalSingleArgument
  rcases hk with ⟨h1, h2⟩ | ⟨h1, h2⟩
  · rw [h1, h2]
  · rw [h1]; simp only [h2, Res.bind_ok]

theorem findArg_noabbr_none {α : Type} (t : List (Key × α)) (k : Key) (hno : ∀ e ∈ t, e.1.eq k = false) :
    findArg false t k = .ok none := by
  unfold findArg
  rw [(findExact_none_iff k t 0).mpr hno]
  rfl

theorem findArg_some_of_exact {α : Type} (abbr : Bool) (t : List (Key × α)) (k : Key)
    (hex : ∃ e ∈ t, e.1.eq k = true) : ∃ p, findArg abbr t k = .ok (some p) := by
  unfold findArg
  cases hf : findExact k t 0 with
  | none =>
    obtain ⟨e, he, hek⟩ := hex
    rw [(findExact_none_iff k t 0).mp hf e he] at hek
    cases hek
  | some r => exact ⟨r, rfl⟩

/-- a handler that does not know the key answers `unknown`; all it changes is its last argument -/
theorem processArg_unknown (c : Cfg) (h : HState) (k : Key) (ai : It) (hf : findArg c.abbr c.table k = .ok none) :
    processArg c h k ai = .ok ({ h with lastArg := none }, ai, .unknown) := by
  unfold processArg
  rw [hf]
  rfl

/-- a handler that knows the key never answers `unknown` -/
theorem processArg_known (c : Cfg) (h : HState) (k : Key) (ai : It) (p : Nat × ArgDef)
    (hf : findArg c.abbr c.table k = .ok (some p)) (h' : HState) (ai' : It) (r : ArgResult)
    (he : processArg c h k ai = .ok (h', ai', r)) : r = .consumed := by
  obtain ⟨i, d⟩ := p
  unfold processArg at he
  rw [hf] at he
  simp only [Res.bind_ok] at he
  split at he
  · rw [bind_eq_ok_g] at he
    obtain ⟨_, _, he⟩ := he
    simp only [Res.pure_eq, Res.ok.injEq, Prod.mk.injEq] at he
    exact he.2.2.symm
  · rw [bind_eq_ok_g] at he
    obtain ⟨ait2, _, he⟩ := he
    split at he
    · split at he
      · rw [bind_eq_ok_g] at he
        obtain ⟨_, _, he⟩ := he
        simp only [Res.pure_eq, Res.ok.injEq, Prod.mk.injEq] at he
        exact he.2.2.symm
      · cases he
    · rw [bind_eq_ok_g] at he
      obtain ⟨_, _, he⟩ := he
      simp only [Res.pure_eq, Res.ok.injEq, Prod.mk.injEq] at he
      exact he.2.2.symm

/-- members that do not know the key exactly (abbreviations off) pass a key element on; when a later
    member takes it they forget their last argument -/
theorem offer_skip (pre rest : List (Cfg × HState)) (ai : It) (k : Key) (hk : ElemKey ai k)
    (hpre : ∀ m ∈ pre, m.1.abbr = false ∧ ∀ e ∈ m.1.table, e.1.eq k = false) :
    offer true (pre ++ rest) ai =
      (offer true rest ai >>= fun (x : List (Cfg × HState) × It × ArgResult) =>
        pure (clearLast pre ++ x.1, x.2.1, x.2.2)) := by
  induction pre with
  | nil =>
    simp only [List.nil_append, clearLast_nil]
    cases offer true rest ai <;> rfl
  | cons m pre ih =>
    obtain ⟨c, h⟩ := m
    have hm := hpre (c, h) (List.mem_cons_self ..)
    have hev : evalSingleArgument c h ai = .ok ({ h with lastArg := none }, ai, .unknown) := by
      rw [evalSingleArgument_key c h hk]
      apply processArg_unknown
      rw [hm.1]
      exact findArg_noabbr_none _ _ hm.2
    rw [List.cons_append, offer_miss true c h (pre ++ rest) ai _ ai hev, ih (fun m hm' => hpre m (List.mem_cons_of_mem _ hm'))]
    cases offer true rest ai with
    | ok x =>
      simp only [Res.bind_ok, Res.pure_eq, ite_self, clearLast_cons, List.cons_append, Bool.true_and]
    | throw e => rfl
    | oob w => rfl

/-- Dispatch: the members in front do not know the key exactly (abbreviations off), member `c` does:
    the offer is `c`'s own answer, which is never `unknown`; every other member keeps its state apart
    from the cleared last argument. -/
theorem offer_dispatch (pre post : List (Cfg × HState)) (c : Cfg) (h : HState) (ai : It) (k : Key)
    (hk : ElemKey ai k)
    (hpre : ∀ m ∈ pre, m.1.abbr = false ∧ ∀ e ∈ m.1.table, e.1.eq k = false)
    (hc : ∃ e ∈ c.table, e.1.eq k = true) :
    offer (ai.cur.ty != .value) (pre ++ (c, h) :: post) ai =
      (evalSingleArgument c h ai >>= fun (x : HState × It × ArgResult) =>
        pure (clearLast pre ++ (c, x.1) :: clearLast post, x.2.1, x.2.2)) ∧
    ∀ h' ai' r, evalSingleArgument c h ai = .ok (h', ai', r) → r = .consumed := by
  obtain ⟨p, hf⟩ := findArg_some_of_exact c.abbr c.table k hc
  have hcons : ∀ h' ai' r, evalSingleArgument c h ai = .ok (h', ai', r) → r = .consumed := by
    intro h' ai' r he
    rw [evalSingleArgument_key c h hk] at he
    exact processArg_known c h k ai p hf h' ai' r he
  refine ⟨?_, hcons⟩
  rw [hk.isKey, offer_skip pre _ ai k hk hpre]
  cases he : evalSingleArgument c h ai with
  | ok x =>
    obtain ⟨h', ai', r⟩ := x
    have hr := hcons h' ai' r he
    subst hr
    rw [offer_hit true c h post ai h' ai' .consumed he (by simp)]
    simp
  | throw e => rw [offer_throw true c h post ai e he]; rfl
  | oob w => rw [offer_oob true c h post ai w he]; rfl

/-- the key tables of the members of a group do not clash pairwise (what the cross check at
    `addArgument` time establishes) -/
def MembersDisjoint (ms : List (Cfg × HState)) : Prop :=
  ms.Pairwise (fun a b => ∀ e ∈ a.1.table, ∀ f ∈ b.1.table, ¬ e.1.Clash f.1)

/-- in a group with pairwise non-clashing tables a (single) key designated by an entry of one member
    is not an exact key of any other member -/
theorem membersDisjoint_others (pre post : List (Cfg × HState)) (c : Cfg) (h : HState) (k : Key) (hs : k.Single)
    (hd : MembersDisjoint (pre ++ (c, h) :: post)) (hc : ∃ e ∈ c.table, e.1.Clash k) :
    ∀ m ∈ pre ++ post, ∀ f ∈ m.1.table, f.1.eq k = false := by
  obtain ⟨e, he, hek⟩ := hc
  unfold MembersDisjoint at hd
  rw [List.pairwise_append] at hd
  obtain ⟨_, hpost, hcross⟩ := hd
  rw [List.pairwise_cons] at hpost
  intro m hm f hf
  cases hfk : f.1.eq k with
  | false => rfl
  | true =>
    have hfc : f.1.Clash k := (eq_iff_clash_of_single f.1 k hs).mp hfk
    rcases List.mem_append.mp hm with hm | hm
    · exact absurd (clash_trans_single hs hfc hek) (hcross m hm (c, h) (List.mem_cons_self ..) f hf e he)
    · exact absurd (clash_trans_single hs hek hfc) (hpost.1 m hm e he f hf)

end CelmaVerif.ProgArgs
