import CelmaVerif.Lemmas.ConcurrencySingleton
import CelmaVerif.Lemmas.ConcurrencyManaged
/-
  The happens-before layer of the singleton / managed-thread models (Model/Concurrency.lean,
  last section): with an atomic fast-path cell, an acquire load and a release store, every thread
  that leaves `instance()` has the construction of the object happening-before its use of it.
  The memory orders are hypotheses that are *used*: see Props/C20.lean for the relaxed
  configurations in which the statement fails.
-/
namespace CelmaVerif.Concurrency

/-- the synchronisation facts the publication needs -/
def Cfg.Publishes (cfg : Cfg) : Prop := cfg.ptrAtomic = true ∧ cfg.loadAcq = true ∧ cfg.storeRel = true

structure HInv (s : SState) (h : HB) : Prop where
  /-- past the construction / past a check that saw the pointer: the construction happens-before -/
  late : ∀ t, (s.pc t = .write ∨ s.pc t = .unlock ∨ s.pc t = .read3 ∨ s.pc t = .done) → h.knows t = true
  /-- holding the mutex while the pointer is set -/
  locked : ∀ t, s.pc t = .read2 → s.ptr.isSome = true → h.knows t = true
  /-- the mutex is free and the pointer is set: the last unlock published the construction -/
  mutex : s.lock = none → s.ptr.isSome = true → h.mutexKnows = true
  /-- the pointer is set: the store published the construction -/
  cell : s.ptr.isSome = true → h.cellKnows = true
  clean : h.racyUse = []

theorem hinv_init : HInv SState.init HB.init := by
  constructor <;> simp [SState.init, HB.init]

theorem hbStep_ge (cfg : Cfg) (n : Nat) (s : SState) (h : HB) (t : Nat) (ht : ¬ t < n) : hbStep cfg n s h t = h := by
  simp [hbStep, ht]

theorem hinv_read1 (cfg : Cfg) (hp : cfg.Publishes) (n : Nat) (s : SState) (h : HB) (t : Nat) (ht : t < n)
    (hpc : s.pc t = .read1) (hi : HInv s h) : HInv (sstep cfg n s t) (hbStep cfg n s h t) := by
  obtain ⟨pa, la, _⟩ := hp
  have es : sstep cfg n s t =
      { s with loc := upd s.loc t s.ptr, pc := upd s.pc t (if s.ptr.isSome then SPc.read3 else SPc.lock) } := by
    simp [sstep, ht, hpc]
  obtain ⟨late, locked, mutex, cell, clean⟩ := hi
  cases hptr : s.ptr.isSome with
  | false =>
    have eh : hbStep cfg n s h t = h := by simp [hbStep, ht, hpc, hptr]
    rw [es, eh]
    refine ⟨?_, ?_, ?_, ?_, clean⟩
    · intro u hu
      by_cases hut : u = t
      · subst hut; simp [hptr] at hu
      · simp only [upd_other _ _ _ _ hut] at hu; exact late u hu
    · intro u hu
      by_cases hut : u = t
      · subst hut; simp [hptr] at hu
      · simp only [upd_other _ _ _ _ hut] at hu; exact locked u hu
    · exact mutex
    · exact cell
  | true =>
    have eh : hbStep cfg n s h t = { h with knows := upd h.knows t (h.knows t || h.cellKnows) } := by
      simp [hbStep, ht, hpc, hptr, pa, la]
    rw [es, eh]
    refine ⟨?_, ?_, ?_, ?_, clean⟩
    · intro u hu
      by_cases hut : u = t
      · subst hut; simp [cell hptr]
      · simp only [upd_other _ _ _ _ hut] at hu ⊢; exact late u hu
    · intro u hu
      by_cases hut : u = t
      · subst hut; simp [hptr] at hu
      · simp only [upd_other _ _ _ _ hut] at hu ⊢; exact locked u hu
    · exact mutex
    · exact cell

theorem hinv_lock (cfg : Cfg) (n : Nat) (s : SState) (h : HB) (t : Nat) (ht : t < n)
    (hpc : s.pc t = .lock) (hi : HInv s h) : HInv (sstep cfg n s t) (hbStep cfg n s h t) := by
  obtain ⟨late, locked, mutex, cell, clean⟩ := hi
  by_cases hl : s.lock = none
  · have es : sstep cfg n s t = { s with lock := some t, pc := upd s.pc t SPc.read2 } := by
      simp [sstep, ht, hpc, hl]
    have eh : hbStep cfg n s h t = { h with knows := upd h.knows t (h.knows t || h.mutexKnows) } := by
      simp [hbStep, ht, hpc, hl]
    rw [es, eh]
    refine ⟨?_, ?_, ?_, ?_, clean⟩
    · intro u hu
      by_cases hut : u = t
      · subst hut; simp at hu
      · simp only [upd_other _ _ _ _ hut] at hu ⊢; exact late u hu
    · intro u hu hptr
      by_cases hut : u = t
      · subst hut; simp [mutex hl hptr]
      · simp only [upd_other _ _ _ _ hut] at hu ⊢; exact locked u hu hptr
    · intro hn; cases hn
    · exact cell
  · have es : sstep cfg n s t = s := by simp [sstep, ht, hpc, hl]
    have eh : hbStep cfg n s h t = h := by simp [hbStep, ht, hpc, hl]
    rw [es, eh]; exact ⟨late, locked, mutex, cell, clean⟩

theorem hinv_read2 (cfg : Cfg) (n : Nat) (s : SState) (h : HB) (t : Nat) (ht : t < n)
    (hpc : s.pc t = .read2) (hi : HInv s h) : HInv (sstep cfg n s t) (hbStep cfg n s h t) := by
  obtain ⟨late, locked, mutex, cell, clean⟩ := hi
  have es : sstep cfg n s t =
      { s with loc := upd s.loc t s.ptr, pc := upd s.pc t (if s.ptr.isSome then SPc.unlock else SPc.construct) } := by
    simp [sstep, ht, hpc]
  have eh : hbStep cfg n s h t = h := by simp [hbStep, ht, hpc]
  rw [es, eh]
  refine ⟨?_, ?_, mutex, cell, clean⟩
  · intro u hu
    by_cases hut : u = t
    · subst hut
      cases hptr : s.ptr.isSome with
      | false => simp [hptr] at hu
      | true => exact locked u hpc hptr
    · simp only [upd_other _ _ _ _ hut] at hu; exact late u hu
  · intro u hu
    by_cases hut : u = t
    · subst hut
      cases hptr : s.ptr.isSome <;> simp [hptr] at hu
    · simp only [upd_other _ _ _ _ hut] at hu; exact locked u hu

theorem hinv_construct (cfg : Cfg) (n : Nat) (s : SState) (h : HB) (t : Nat) (ht : t < n)
    (hpc : s.pc t = .construct) (hi : HInv s h) : HInv (sstep cfg n s t) (hbStep cfg n s h t) := by
  obtain ⟨late, locked, mutex, cell, clean⟩ := hi
  have es : sstep cfg n s t =
      { s with loc := upd s.loc t (some s.built), built := s.built + 1, pc := upd s.pc t SPc.write } := by
    simp [sstep, ht, hpc]
  have eh : hbStep cfg n s h t = { h with knows := upd h.knows t true } := by simp [hbStep, ht, hpc]
  rw [es, eh]
  refine ⟨?_, ?_, mutex, cell, clean⟩
  · intro u hu
    by_cases hut : u = t
    · subst hut; simp
    · simp only [upd_other _ _ _ _ hut] at hu ⊢; exact late u hu
  · intro u hu hptr
    by_cases hut : u = t
    · subst hut; simp
    · simp only [upd_other _ _ _ _ hut] at hu ⊢; exact locked u hu hptr

theorem hinv_write (cfg : Cfg) (hp : cfg.Publishes) (n : Nat) (s : SState) (h : HB) (t : Nat) (ht : t < n)
    (hpc : s.pc t = .write) (hs : SInv s) (hi : HInv s h) : HInv (sstep cfg n s t) (hbStep cfg n s h t) := by
  obtain ⟨pa, _, sr⟩ := hp
  obtain ⟨late, locked, mutex, cell, clean⟩ := hi
  have es : sstep cfg n s t = { s with ptr := s.loc t, pc := upd s.pc t SPc.unlock } := by
    simp [sstep, ht, hpc]
  have kt : h.knows t = true := late t (Or.inl hpc)
  have eh : hbStep cfg n s h t = { h with cellKnows := true } := by
    simp [hbStep, ht, hpc, pa, sr, kt]
  have hlock : s.lock = some t := hs.cs t (by rw [hpc]; trivial)
  rw [es, eh]
  refine ⟨?_, ?_, ?_, ?_, clean⟩
  · intro u hu
    by_cases hut : u = t
    · subst hut; exact kt
    · simp only [upd_other _ _ _ _ hut] at hu; exact late u hu
  · intro u hu _
    by_cases hut : u = t
    · subst hut; simp at hu
    · simp only [upd_other _ _ _ _ hut] at hu
      -- two threads inside the critical section
      have := hs.excl (t := t) (u := u) (by rw [hpc]; trivial) (by rw [hu]; trivial)
      exact absurd this hut
  · intro hn; rw [hlock] at hn; cases hn
  · intro _; rfl

theorem hinv_unlock (cfg : Cfg) (n : Nat) (s : SState) (h : HB) (t : Nat) (ht : t < n)
    (hpc : s.pc t = .unlock) (hi : HInv s h) : HInv (sstep cfg n s t) (hbStep cfg n s h t) := by
  obtain ⟨late, locked, mutex, cell, clean⟩ := hi
  have es : sstep cfg n s t = { s with lock := none, pc := upd s.pc t SPc.read3 } := by
    simp [sstep, ht, hpc]
  have kt : h.knows t = true := late t (Or.inr (Or.inl hpc))
  have eh : hbStep cfg n s h t = { h with mutexKnows := true } := by simp [hbStep, ht, hpc, kt]
  rw [es, eh]
  refine ⟨?_, ?_, fun _ _ => rfl, cell, clean⟩
  · intro u hu
    by_cases hut : u = t
    · subst hut; exact kt
    · simp only [upd_other _ _ _ _ hut] at hu; exact late u hu
  · intro u hu
    by_cases hut : u = t
    · subst hut; simp at hu
    · simp only [upd_other _ _ _ _ hut] at hu; exact locked u hu

theorem hinv_read3 (cfg : Cfg) (n : Nat) (s : SState) (h : HB) (t : Nat) (ht : t < n)
    (hpc : s.pc t = .read3) (hi : HInv s h) : HInv (sstep cfg n s t) (hbStep cfg n s h t) := by
  obtain ⟨late, locked, mutex, cell, clean⟩ := hi
  have es : sstep cfg n s t =
      { s with ret := upd s.ret t (if cfg.finalReadShared then s.ptr else s.loc t), pc := upd s.pc t SPc.done } := by
    simp [sstep, ht, hpc]
  have kt : h.knows t = true := late t (Or.inr (Or.inr (Or.inl hpc)))
  have eh : hbStep cfg n s h t = h := by simp [hbStep, ht, hpc, kt]
  rw [es, eh]
  refine ⟨?_, ?_, mutex, cell, clean⟩
  · intro u hu
    by_cases hut : u = t
    · subst hut; exact kt
    · simp only [upd_other _ _ _ _ hut] at hu; exact late u hu
  · intro u hu
    by_cases hut : u = t
    · subst hut; simp at hu
    · simp only [upd_other _ _ _ _ hut] at hu; exact locked u hu

theorem hinv_step (cfg : Cfg) (hp : cfg.Publishes) (n : Nat) (s : SState) (h : HB) (t : Nat)
    (hs : SInv s) (hi : HInv s h) : HInv (sstep cfg n s t) (hbStep cfg n s h t) := by
  by_cases ht : t < n
  · cases hpc : s.pc t with
    | read1 => exact hinv_read1 cfg hp n s h t ht hpc hi
    | lock => exact hinv_lock cfg n s h t ht hpc hi
    | read2 => exact hinv_read2 cfg n s h t ht hpc hi
    | construct => exact hinv_construct cfg n s h t ht hpc hi
    | write => exact hinv_write cfg hp n s h t ht hpc hs hi
    | unlock => exact hinv_unlock cfg n s h t ht hpc hi
    | read3 => exact hinv_read3 cfg n s h t ht hpc hi
    | done =>
      have es : sstep cfg n s t = s := by simp [sstep, ht, hpc]
      have eh : hbStep cfg n s h t = h := by simp [hbStep, ht, hpc]
      rw [es, eh]; exact hi
  · rw [sstep_ge cfg n s t ht, hbStep_ge cfg n s h t ht]; exact hi

theorem hrunFrom_fst (cfg : Cfg) (n : Nat) (sched : List Nat) : ∀ s h,
    (hrunFrom cfg n s h sched).1 = srunFrom cfg n s sched := by
  induction sched with
  | nil => intro s h; rfl
  | cons t rest ih => intro s h; simp only [hrunFrom, srunFrom, List.foldl_cons]; exact ih _ _

theorem hinv_runFrom (cfg : Cfg) (hp : cfg.Publishes) (n : Nat) (sched : List Nat) : ∀ s h, SInv s → HInv s h →
    HInv (hrunFrom cfg n s h sched).1 (hrunFrom cfg n s h sched).2 := by
  induction sched with
  | nil => intro s h _ hi; exact hi
  | cons t rest ih =>
    intro s h hs hi
    simp only [hrunFrom]
    exact ih _ _ (sinv_step cfg n s t hs) (hinv_step cfg hp n s h t hs hi)

theorem hinv_run (cfg : Cfg) (hp : cfg.Publishes) (n : Nat) (sched : List Nat) :
    HInv (hrun cfg n sched).1 (hrun cfg n sched).2 :=
  hinv_runFrom cfg hp n sched _ _ sinv_init hinv_init

theorem hrun_fst (cfg : Cfg) (n : Nat) (sched : List Nat) : (hrun cfg n sched).1 = srun cfg n sched :=
  hrunFrom_fst cfg n sched _ _

/-! ### ManagedThread: the result of the user function is published by the flag -/

structure MHInv (s : MState) (l : List (Sample × Bool)) : Prop where
  same : l.map Prod.fst = s.samples
  pub : ∀ p ∈ l, p.1.win = .after → p.1.val = some false → p.2 = true

theorem mhinv_observer (cfg : Cfg) (ha : cfg.flagAtomic = true) (ho : cfg.flagOrders = true) (nobs : Nat)
    (s : MState) (l : List (Sample × Bool)) (t : Nat) (hm : MInv s) (h : MHInv s l) :
    MHInv (mstep cfg nobs s (t + 2)) (mhbStep cfg nobs s l (t + 2)) := by
  by_cases hc : t < nobs ∧ s.isLive = true
  · have e : mstep cfg nobs s (t + 2) =
        { s with samples := s.samples ++ [⟨t + 2, s.win, s.ppc == .joined, s.flag⟩] } := by
      simp [mstep, hc]
    have e2 : mhbStep cfg nobs s l (t + 2) =
        l ++ [(⟨t + 2, s.win, s.ppc == .joined, s.flag⟩,
               s.cpc == .done && s.flag == some false)] := by
      simp [mhbStep, hc, ha, ho]
    rw [e, e2]
    obtain ⟨same, pub⟩ := h
    refine ⟨by simp [same], ?_⟩
    intro p hp
    rcases List.mem_append.mp hp with hp | hp
    · exact pub p hp
    · have hp' : p = (⟨t + 2, s.win, s.ppc == .joined, s.flag⟩,
               s.cpc == .done && s.flag == some false) := by simpa using hp
      subst hp'
      have hl := hc.2
      obtain ⟨h1, h2, h3, h4, h5⟩ := hm
      obtain ⟨flag, ppc, cpc, early, samples⟩ := s
      simp only [MState.isLive] at hl h2
      simp only at h1 h3
      cases ppc <;> cases cpc <;> simp_all [MState.win, flagOf]
  · have e : mstep cfg nobs s (t + 2) = s := by simp [mstep, hc]
    have e2 : mhbStep cfg nobs s l (t + 2) = l := by simp [mhbStep, hc]
    rw [e, e2]; exact h

theorem mhinv_step (cfg : Cfg) (ha : cfg.flagAtomic = true) (ho : cfg.flagOrders = true) (nobs : Nat)
    (s : MState) (l : List (Sample × Bool)) (t : Nat) (hm : MInv s) (h : MHInv s l) :
    MHInv (mstep cfg nobs s t) (mhbStep cfg nobs s l t) := by
  match t with
  | 0 =>
    refine ⟨?_, h.pub⟩
    have : (mstep cfg nobs s 0).samples = s.samples := by
      simp only [mstep]; repeat' split
      all_goals rfl
    rw [this]; exact h.same
  | 1 =>
    refine ⟨?_, h.pub⟩
    have : (mstep cfg nobs s 1).samples = s.samples := by
      simp only [mstep]; repeat' split
      all_goals rfl
    rw [this]; exact h.same
  | t + 2 => exact mhinv_observer cfg ha ho nobs s l t hm h

theorem mhrunFrom_fst (cfg : Cfg) (nobs : Nat) (sched : List Nat) : ∀ s l,
    (mhrunFrom cfg nobs s l sched).1 = mrunFrom cfg nobs s sched := by
  induction sched with
  | nil => intro s l; rfl
  | cons t rest ih => intro s l; simp only [mhrunFrom, mrunFrom, List.foldl_cons]; exact ih _ _

theorem mhinv_runFrom (cfg : Cfg) (hf : cfg.flagFirst = true) (ha : cfg.flagAtomic = true) (ho : cfg.flagOrders = true)
    (nobs : Nat) (sched : List Nat) : ∀ s l, MInv s → MHInv s l →
    MHInv (mhrunFrom cfg nobs s l sched).1 (mhrunFrom cfg nobs s l sched).2 := by
  induction sched with
  | nil => intro s l _ h; exact h
  | cons t rest ih =>
    intro s l hm h
    simp only [mhrunFrom]
    exact ih _ _ (minv_step cfg hf nobs s t hm) (mhinv_step cfg ha ho nobs s l t hm h)

theorem mhinv_run (cfg : Cfg) (hf : cfg.flagFirst = true) (ha : cfg.flagAtomic = true) (ho : cfg.flagOrders = true)
    (nobs : Nat) (sched : List Nat) : MHInv (mhrun cfg nobs sched).1 (mhrun cfg nobs sched).2 :=
  mhinv_runFrom cfg hf ha ho nobs sched _ _ minv_init ⟨rfl, fun _ hp => by cases hp⟩

theorem mhrun_fst (cfg : Cfg) (nobs : Nat) (sched : List Nat) : (mhrun cfg nobs sched).1 = mrun cfg nobs sched :=
  mhrunFrom_fst cfg nobs sched _ _

end CelmaVerif.Concurrency
