import CelmaVerif.Lemmas.GroupsOwner
/-
  One iteration of the evaluation loop: `Groups::evalArguments` offering an element to its members
  simulates `Handler::evalSingleArgument` of the merged handler.
-/
namespace CelmaVerif.ProgArgs
open CelmaVerif CelmaVerif.Keys

/-! ### more structure of `offer` -/

/-- members that answer `unknown` and forget their last argument pass the element on -/
theorem offer_skip' (isKey : Bool) (pre rest : List (Cfg × HState)) (ai : It)
    (hpre : ∀ m ∈ pre, evalSingleArgument m.1 m.2 ai = .ok ({ m.2 with lastArg := none }, ai, .unknown)) :
    offer isKey (pre ++ rest) ai =
      (offer isKey rest ai >>= fun (x : List (Cfg × HState) × It × ArgResult) =>
        pure (clearLast pre ++ x.1, x.2.1, x.2.2)) := by
  induction pre with
  | nil =>
    simp only [List.nil_append, clearLast_nil]
    cases offer isKey rest ai <;> rfl
  | cons m pre ih =>
    obtain ⟨c, h⟩ := m
    have hev := hpre (c, h) (List.mem_cons_self ..)
    rw [List.cons_append, offer_miss isKey c h (pre ++ rest) ai _ ai hev,
      ih (fun m hm' => hpre m (List.mem_cons_of_mem _ hm'))]
    cases offer isKey rest ai with
    | ok x => simp only [Res.bind_ok, Res.pure_eq, ite_self, clearLast_cons, List.cons_append]
    | throw e => rfl
    | oob w => rfl

/-- nobody knows the element -/
theorem offer_all_unknown (isKey : Bool) (ai : It) : ∀ (ms : List (Cfg × HState)),
    (∀ m ∈ ms, ∃ h', evalSingleArgument m.1 m.2 ai = .ok (h', ai, .unknown)) →
    ∃ ms', offer isKey ms ai = .ok (ms', ai, .unknown) := by
  intro ms
  induction ms with
  | nil => intro _; exact ⟨[], rfl⟩
  | cons m ms ih =>
    intro h
    obtain ⟨c, hm⟩ := m
    obtain ⟨h', he⟩ := h (c, hm) (List.mem_cons_self ..)
    obtain ⟨ms', hms⟩ := ih (fun x hx => h x (List.mem_cons_of_mem _ hx))
    rw [offer_miss isKey c hm ms ai h' ai he, hms]
    exact ⟨_, rfl⟩

theorem GRel_keep {cfg : Cfg} {H H' : HState} : ∀ {vs : List View} {ms : List (Cfg × HState)},
    GRel cfg H vs ms → (∀ v ∈ vs, ∀ h, MemRel cfg v H h → MemRel cfg v H' h) → GRel cfg H' vs ms := by
  intro vs
  induction vs with
  | nil =>
    intro ms h _
    cases ms with
    | nil => trivial
    | cons _ _ => exact h.elim
  | cons v vs ih =>
    intro ms h hf
    cases ms with
    | nil => exact h.elim
    | cons m ms =>
      obtain ⟨h1, h2, h3⟩ := h
      exact ⟨h1, hf v (List.mem_cons_self ..) m.2 h2, ih h3 (fun w hw => hf w (List.mem_cons_of_mem _ hw))⟩

/-! ### the relation between the two answers -/

/-- the group's answer to an element simulates the merged handler's: the same result, cursor and
    exception, and — when the element is consumed — member states that are again the views of the
    merged state -/
def StepRel (cfg : Cfg) (vs : List View) :
    Res (HState × It × ArgResult) → Res (List (Cfg × HState) × It × ArgResult) → Prop
  | .ok (H', ai', r), g =>
      (r = .unknown ∧ ∃ ms', g = .ok (ms', ai', .unknown)) ∨
      (r = .consumed ∧ ∃ ms', g = .ok (ms', ai', .consumed) ∧ HInv cfg vs H' ∧ GRel cfg H' vs ms')
  | .throw e, g => g = .throw e
  | .oob w, g => g = .oob w

/-! ### members that do not own the argument -/

theorem idxOf?_none_of_notmem {ia : List Nat} {i : Nat} (h : i ∉ ia) : ia.idxOf? i = none :=
  List.idxOf?_eq_none_iff.mpr h

/-- a member that does not own argument `i` sees nothing of an identified use of it, apart from
    forgetting its last argument -/
theorem memrel_other_hia {cfg : Cfg} {vs : List View} (wf : GroupWF cfg vs) {H H' : HState} (hinv : HInv cfg vs H)
    {i : Nat} {d : ArgDef} {value : Word} (hd : cfg.args[i]? = some d)
    (hok : handleIdentifiedArg cfg { H with lastArg := some i } i d value = .ok H')
    {w : View} (hw : w ∈ vs) (hiw : i ∉ w.ia) {hw' : HState} (hm : MemRel cfg w H hw') :
    MemRel cfg w H' { hw' with lastArg := none } := by
  obtain ⟨P, G, st', hP, hG, e1, e2, e3, e4, e5, e6⟩ := handleIdentifiedArg_ok hok
  simp only at hP hG e1 e4 e6
  refine ⟨?_, ?_, ?_, ?_, hm.inverted, hm.fromSrc⟩
  · show hw'.args = pick w.ia H'.args
    rw [e1, pick_set_notmem w.ia H.args i st' hiw]; exact hm.args
  · show hw'.globals = pick w.ig H'.globals
    rw [e3, executeGlobals_other d.key cfg.globals H.globals G hinv.glen.symm w.ig (wf.gbound w hw)
      (other_globals wf hw hiw hd) hG]
    exact hm.globals
  · show hw'.pending = pfilter (ownsKey cfg w) H'.pending
    rw [e2, activate_filter_out (ownsKey cfg w) d.constraints P (other_ckeys wf hw hiw hd),
      pendingIdentified_filter_out (ownsKey cfg w) d.key H.pending P
        (fun e _ hek => other_pending wf hw hiw hd e.1 hek) hP]
    exact hm.pending
  · show none = H'.lastArg.bind (fun i => w.ia.idxOf? i)
    rw [e4]
    exact (idxOf?_none_of_notmem hiw).symm

theorem hinv_hia {cfg : Cfg} {vs : List View} {H H' : HState} (hinv : HInv cfg vs H)
    {i : Nat} {d : ArgDef} {value : Word} {v : View} (hv : v ∈ vs) (hiv : i ∈ v.ia) (hd : cfg.args[i]? = some d)
    (hok : handleIdentifiedArg cfg { H with lastArg := some i } i d value = .ok H') : HInv cfg vs H' := by
  obtain ⟨P, G, st', hP, hG, e1, e2, e3, e4, e5, e6⟩ := handleIdentifiedArg_ok hok
  simp only at hP hG e1 e4 e6
  refine ⟨?_, ?_, e5, by rw [e6]; exact hinv.fromSrc, ?_, ?_⟩
  · rw [e1, List.length_set]; exact hinv.alen
  · rw [e3, executeGlobals_length_g d.key cfg.globals H.globals G hinv.glen.symm hG]
  · intro e he
    rw [e2] at he
    rcases activate_mem d.constraints P e he with h1 | ⟨c, hc, hk⟩
    · exact hinv.pend e (pendingIdentified_sub d.key H.pending P hP e h1)
    · exact ⟨v, hv, owner_ckeys hiv hd c hc e.1 hk⟩
  · intro j hj
    rw [e4] at hj
    cases hj
    exact (List.getElem?_eq_some_iff.mp hd).1

/-- the same for a free value of a multi-value argument -/
theorem memrel_other_assign {cfg : Cfg} {vs : List View} (wf : GroupWF cfg vs) {H H' : HState}
    {i : Nat} {d : ArgDef} {value : Word} {b : Bool} (hd : cfg.args[i]? = some d) (hl : H.lastArg = some i)
    (hok : assignValue H i d value b = .ok H')
    {w : View} (hw : w ∈ vs) (hiw : i ∉ w.ia) {hw' : HState} (hm : MemRel cfg w H hw') :
    MemRel cfg w H' hw' ∧ MemRel cfg w H' { hw' with lastArg := none } := by
  obtain ⟨st', e1, e2, e3, e4, e5, e6, _⟩ := assignValue_ok_g hok
  have hlast : hw'.lastArg = none := by rw [hm.last, hl]; exact idxOf?_none_of_notmem hiw
  have hargs : hw'.args = pick w.ia H'.args := by
    rw [e1, pick_set_notmem w.ia H.args i st' hiw]; exact hm.args
  have hglob : hw'.globals = pick w.ig H'.globals := by rw [e3]; exact hm.globals
  have hpend : hw'.pending = pfilter (ownsKey cfg w) H'.pending := by
    rw [e2, activate_filter_out (ownsKey cfg w) d.constraints H.pending (other_ckeys wf hw hiw hd)]
    exact hm.pending
  have hl' : none = H'.lastArg.bind (fun i => w.ia.idxOf? i) := by
    rw [e4, hl]; exact (idxOf?_none_of_notmem hiw).symm
  exact ⟨⟨hargs, hglob, hpend, by rw [hlast]; exact hl', hm.inverted, hm.fromSrc⟩,
    ⟨hargs, hglob, hpend, hl', hm.inverted, hm.fromSrc⟩⟩

theorem hinv_assign {cfg : Cfg} {vs : List View} {H H' : HState} (hinv : HInv cfg vs H)
    {i : Nat} {d : ArgDef} {value : Word} {b : Bool} {v : View} (hv : v ∈ vs) (hiv : i ∈ v.ia)
    (hd : cfg.args[i]? = some d) (hok : assignValue H i d value b = .ok H') : HInv cfg vs H' := by
  obtain ⟨st', e1, e2, e3, e4, e5, e6, _⟩ := assignValue_ok_g hok
  refine ⟨?_, by rw [e3]; exact hinv.glen, by rw [e5]; exact hinv.inverted, by rw [e6]; exact hinv.fromSrc, ?_, ?_⟩
  · rw [e1, List.length_set]; exact hinv.alen
  · intro e he
    rw [e2] at he
    rcases activate_mem d.constraints H.pending e he with h1 | ⟨c, hc, hk⟩
    · exact hinv.pend e h1
    · exact ⟨v, hv, owner_ckeys hiv hd c hc e.1 hk⟩
  · intro j hj
    rw [e4] at hj
    exact hinv.last j hj

end CelmaVerif.ProgArgs
