import CelmaVerif.Lemmas.FixedStringSafe2
import CelmaVerif.Lemmas.FixedStringObs
/-
  C10 for the whole operation language: one step of any public operation on a well-formed world never
  reports an out-of-bounds access and leaves a well-formed world.
-/
namespace CelmaVerif.FixedString
open CelmaVerif

/-- all three objects of a case are well-formed -/
def WFW (c cu : Cfg) (w : World) : Prop := WF c w.s ∧ WF c w.t ∧ WF cu w.u

/-- an iterator pair `[x, y)` of `o` as the harness can build it: empty, or `x` dereferenceable and `y` either
    `end()` or not before `x` -/
def ItRangeOK (c : Cfg) (o : FStr) (x y : ItArg) : Prop :=
  itOf c o x = itOf c o y ∨
    (itOf c o x < o.len ∧ (itOf c o y = itEnd c ∨ (itOf c o x ≤ itOf c o y ∧ itOf c o y ≤ o.len)))

/-- Caller-side preconditions, the same ones `std::string` has: C strings are terminated inside their
    allocation, `[p, p + n)` is readable for the pointer+count overloads, iterator pairs are ranges,
    `operator[]` stays inside the buffer (documented), positions are `size_t` values. -/
def ArgsOK (c : Cfg) (w : World) : Op → Prop
  | .ctorP a | .assignP a | .setP a | .insertIP _ a | .appendPC a _ | .appendP a | .addP a
  | .cmpP a | .cmpCCP _ _ a | .cmpCCPC _ _ a _ | .swP a | .ewP a | .ctP a | .repCCP _ _ a | .repCCPC _ _ a _
  | .repItItP _ _ a => 0 ∈ a
  | .insertIPC _ a n | .repItItPC _ _ a n => n ≤ a.length
  | .repItItSIt _ _ d i j => i ≤ j ∧ j ≤ d.length
  | .repItItItIt _ _ x y | .appendItIt x y => ItRangeOK c w.t x y
  | .idx i => i ≤ c.L
  | .itWalkIdx rev p ms k =>      -- `it[ k]`: the same contract as `operator[]` of the string
    if rev then (k ≤ itWalk c w.s rev (itOf c w.s p) ms → itWalk c w.s rev (itOf c w.s p) ms - k ≤ c.L)
    else addW c (itWalk c w.s rev (itOf c w.s p) ms) k ≤ c.L
  | .search fam nd =>
    (match nd with
     | .ppc a _ n => n ≤ a.length ∧ (fam = .rfind → 0 ∈ a)
     | .pp a _ => 0 ∈ a
     | .c _ p => (fam = .rfind → p.getD (npos c) < c.W) ∧ (fam = .find → p.getD 0 < c.W)
     | _ => True)
  | _ => True

/-- the operations whose `std::string` counterpart throws too -/
def MayThrow : Op → Prop
  | .atI _ | .cat _ | .itDeref _ | .itWalkDeref .. | .itWalkIdx .. => True
  | _ => False

def StepOK (c cu : Cfg) (w : World) (op : Op) : Prop :=
  (∃ w' o, step c cu w op = .ok (w', o) ∧ WFW c cu w') ∨ (∃ e, step c cu w op = .throw e ∧ MayThrow op)

variable {c cu : Cfg} {w : World}

theorem mutS_ok (hw : WFW c cu w) {r : Res FStr} (h : OkWF c r) :
    ∃ w' o, mutS w r = .ok (w', o) ∧ WFW c cu w' := by
  obtain ⟨s', hs', hwf⟩ := h
  unfold mutS; rw [hs', bindR_ok]
  exact ⟨_, _, rfl, hwf, hw.2.1, hw.2.2⟩

theorem mutIt_ok (hw : WFW c cu w) {r : Res (FStr × Nat)} (h : OkWF2 c r) :
    ∃ w' o, mutIt w r = .ok (w', o) ∧ WFW c cu w' := by
  obtain ⟨p, hp, hwf⟩ := h
  unfold mutIt; rw [hp, bindR_ok]
  exact ⟨_, _, rfl, hwf, hw.2.1, hw.2.2⟩

theorem obs_ok {α : Type} (hw : WFW c cu w) {r : Res α} {f : α → Out} (h : OkR r) :
    ∃ w' o, obs w r f = .ok (w', o) ∧ WFW c cu w' := by
  obtain ⟨a, ha⟩ := h
  unfold obs; rw [ha, bindR_ok]
  exact ⟨_, _, rfl, hw⟩

theorem obs_throw {α : Type} (hw : WFW c cu w) {r : Res α} {f : α → Out} {op : Op} (hm : MayThrow op)
    (h : OkOrThrow r) :
    (∃ w' o, obs w r f = .ok (w', o) ∧ WFW c cu w') ∨ (∃ e, obs w r f = .throw e ∧ MayThrow op) := by
  rcases h with ⟨a, ha⟩ | ⟨e, he⟩
  · exact Or.inl (obs_ok hw ⟨a, ha⟩)
  · right; unfold obs; rw [he, bindR_throw]; exact ⟨e, rfl, hm⟩

theorem sel_wf (hw : WFW c cu w) (f : Sel) : ∃ co, WF co (w.sel f) := by
  cases f
  · exact ⟨c, hw.2.1⟩
  · exact ⟨cu, hw.2.2⟩

theorem sel_len (hw : WFW c cu w) (f : Sel) : (w.sel f).len ≤ (w.sel f).buf.length := by
  obtain ⟨co, h⟩ := sel_wf hw f
  have := h.1; have := h.2.1; omega

theorem cstr_then {α : Type} {a : List Byte} (ha : 0 ∈ a) {f : Nat → Res α}
    (k : ∀ n, n < a.length → OkR (f n)) : OkR (bindR (cstrlen a) f) := by
  obtain ⟨n, h1, h2, _⟩ := cstrlen_ok a ha
  rw [h1, bindR_ok]; exact k n h2

theorem searchStep_safe (hc : CfgOK c) (hw : WFW c cu w) (fam : Fam) (nd : Needle)
    (ha : ArgsOK c w (.search fam nd)) : OkR (searchStep c w fam nd) := by
  have hs := hw.1
  have ht := hw.2.1
  have htl : w.t.len ≤ w.t.buf.length := by have := ht.1; have := ht.2.1; omega
  have htz : (0 : Byte) ∈ w.t.buf := wf_mem_zero ht
  have hdz : ∀ d : Str, (0 : Byte) ∈ d ++ [0] := fun d => by simp
  have hdl : ∀ d : Str, d.length ≤ (d ++ [0]).length := fun d => by simp
  unfold searchStep
  simp only [ArgsOK] at ha
  cases fam <;> cases nd <;> simp only
  case find.f p => exact findN_safe hs _ htl
  case find.s d p => exact findN_safe hs _ (hdl d)
  case find.ppc a p n => exact findN_safe hs _ ha.1
  case find.pp a p => exact findP_safe hs ha _
  case find.c ch p => exact findCh_safe hs _ _
  case rfind.f p => exact rfindN_safe hs _ htl
  case rfind.s d p => exact rfindN_safe hs _ (hdl d)
  case rfind.ppc a p n => exact rfindPN_safe hs (ha.2 rfl) _ _
  case rfind.pp a p => exact rfindP_safe hs ha _
  case rfind.c ch p => exact rfindCh_safe hc hs _ (by cases p <;> simpa using ha.1 rfl)
  case ffo.f p => exact findFirstOfImpl_safe hs htz _ _ _
  case ffo.s d p => exact findFirstOfImpl_safe hs (hdz d) _ _ _
  case ffo.ppc a p n => exact findFirstOfPN_safe hs _ ha.1 _
  case ffo.pp a p => exact cstr_then ha (fun n _ => findFirstOfImpl_safe hs ha _ _ _)
  case ffo.c ch p => exact findFirstOfCh_safe hs _ _ _
  case ffno.f p => exact findFirstOfImpl_safe hs htz _ _ _
  case ffno.s d p => exact findFirstOfImpl_safe hs (hdz d) _ _ _
  case ffno.ppc a p n => exact findFirstOfPN_safe hs _ ha.1 _
  case ffno.pp a p => exact cstr_then ha (fun n _ => findFirstOfImpl_safe hs ha _ _ _)
  case ffno.c ch p => exact findFirstOfCh_safe hs _ _ _
  case flo.f p => exact findLastOfImpl_safe hc hs htz _ _ _
  case flo.s d p => exact findLastOfImpl_safe hc hs (hdz d) _ _ _
  case flo.ppc a p n => exact findLastOfPN_safe hs _ ha.1 _
  case flo.pp a p => exact cstr_then ha (fun n _ => findLastOfImpl_safe hc hs ha _ _ _)
  case flo.c ch p => exact findLastOfCh_safe hs _ _ _
  case flno.f p => exact findLastOfImpl_safe hc hs htz _ _ _
  case flno.s d p => exact findLastOfImpl_safe hc hs (hdz d) _ _ _
  case flno.ppc a p n => exact findLastOfPN_safe hs _ ha.1 _
  case flno.pp a p => exact cstr_then ha (fun n _ => findLastOfImpl_safe hc hs ha _ _ _)
  case flno.c ch p => exact findLastOfCh_safe hs _ _ _

end CelmaVerif.FixedString

namespace CelmaVerif.FixedString
open CelmaVerif

variable {c cu : Cfg} {w : World}

theorem itOf_inv (s : FStr) (p : ItArg) : itOf c s p = itEnd c ∨ itOf c s p < s.len := by
  cases p
  · exact Or.inl rfl
  · exact itAt_inv s _

/-- C10, one step: any operation with any argument values -/
theorem step_safe (hc : CfgOK c) (hcu : CfgOK cu) (hw : WFW c cu w) (op : Op) (ha : ArgsOK c w op) :
    StepOK c cu w op := by
  have hs := hw.1
  have ht := hw.2.1
  have hu := hw.2.2
  have hdl : ∀ d : Str, d.length ≤ (d ++ [0]).length := fun d => by simp
  unfold StepOK
  cases op <;> simp only [ArgsOK] at ha <;> simp only [step]
  case tset d =>
    left
    obtain ⟨t', h1, h2⟩ := assignS_safe hc ht d
    rw [h1, bindR_ok]; exact ⟨_, _, rfl, hs, h2, hu⟩
  case uset d =>
    left
    obtain ⟨u', h1, h2⟩ := assignS_safe hcu hu d
    rw [h1, bindR_ok]; exact ⟨_, _, rfl, hs, ht, h2⟩
  case ctorP a => exact Or.inl (mutS_ok hw (assignP_safe hc (fresh_wf c) ha))
  case ctorS d => exact Or.inl (mutS_ok hw (assignS_safe hc (fresh_wf c) d))
  case ctorF f => cases f
                  · exact Or.inl (mutS_ok hw (okwf_ok ht))
                  · exact Or.inl (mutS_ok hw (assignF_safe hc (fresh_wf c) hu))
  case ctorMove => exact Or.inl (mutS_ok hw (ctorMove_safe hc ht))
  case ctorDef => exact Or.inl (mutS_ok hw (okwf_ok (fresh_wf c)))
  case assignP a => exact Or.inl (mutS_ok hw (assignP_safe hc hs ha))
  case assignS d => exact Or.inl (mutS_ok hw (assignS_safe hc hs d))
  case assignF f => obtain ⟨co, ho⟩ := sel_wf hw f; exact Or.inl (mutS_ok hw (assignF_safe hc hs ho))
  case setP a => exact Or.inl (mutS_ok hw (assignP_safe hc hs ha))
  case setS d => exact Or.inl (mutS_ok hw (assignS_safe hc hs d))
  case setF f => cases f
                 · exact Or.inl (mutS_ok hw (okwf_ok ht))
                 · exact Or.inl (mutS_ok hw (assignF_safe hc hs hu))
  case clear => exact Or.inl (mutS_ok hw (clear_safe hs))
  case str => exact Or.inl (obs_ok hw (str_safe hs))
  case cStr => exact Or.inl (obs_ok hw (cstrView_safe hs))
  case data => exact Or.inl (obs_ok hw (cstrView_safe hs))
  case length => exact Or.inl ⟨_, _, rfl, hw⟩
  case empty => exact Or.inl ⟨_, _, rfl, hw⟩
  case atI i => exact obs_throw hw trivial (at_safe hs i)
  case cat i => exact obs_throw hw trivial (at_safe hs i)
  case idx i => exact Or.inl (obs_ok hw (index_safe hs ha))
  case front => exact Or.inl (obs_ok hw (front_safe hs))
  case back => exact Or.inl (obs_ok hw (back_safe hs))
  case stream => exact Or.inl (obs_ok hw (streamView_safe hs))
  case iterFwd => exact Or.inl (obs_ok hw (iterFwd_safe hs))
  case iterCFwd => exact Or.inl (obs_ok hw (iterFwd_safe hs))
  case iterRev => exact Or.inl (obs_ok hw (iterRev_safe hs))
  case iterCRev => exact Or.inl (obs_ok hw (iterRev_safe hs))
  case itDeref k => exact obs_throw hw trivial (itDeref_safe hs (itAt_inv _ _))
  case itDist => exact Or.inl ⟨_, _, rfl, hw⟩
  case itWalk rev p ms => exact Or.inl ⟨_, _, rfl, hw⟩
  case itRel rev r a b => exact Or.inl ⟨_, _, rfl, hw⟩
  case itWalkDeref rev p ms =>
    exact obs_throw hw trivial (itDeref_safe hs (itWalk_inv hc hs rev ms (itOf_inv w.s p)))
  case itWalkIdx rev p ms k => exact obs_throw hw trivial (itIndex_safe hs rev _ k ha)
  case insertICC i n ch => exact Or.inl (mutS_ok hw (insertCh_safe hc hs i n ch))
  case insertIPC i a n => exact Or.inl (mutS_ok hw (insertP_safe hc hs i ha))
  case insertIP i a => exact Or.inl (mutS_ok hw (insertCstr_safe hc hs i ha))
  case insertIS i d => exact Or.inl (mutS_ok hw (insertS_safe hc hs i d))
  case insertISIC i d j n => exact Or.inl (mutS_ok hw (insertSub_safe hc hs i d j n))
  case insertIF i f => obtain ⟨co, ho⟩ := sel_wf hw f; exact Or.inl (mutS_ok hw (insertF_safe hc hs i ho))
  case insertIFIC i f j n => obtain ⟨co, ho⟩ := sel_wf hw f; exact Or.inl (mutS_ok hw (insertFSub_safe hc hs i ho j n))
  case insertItC p ch => exact Or.inl (mutIt_ok hw (insertItCh_safe hc hs _ 1 ch))
  case insertItCC p n ch => exact Or.inl (mutIt_ok hw (insertItCh_safe hc hs _ n ch))
  case insertItIl p il => exact Or.inl (mutIt_ok hw (insertItList_safe hc hs _ il))
  case erase i n => exact Or.inl (mutS_ok hw (erase_safe hc hs i n))
  case eraseI i => exact Or.inl (mutS_ok hw (erase_safe hc hs i _))
  case erase0 => exact Or.inl (mutS_ok hw (erase_safe hc hs 0 _))
  case eraseIt p => exact Or.inl (mutIt_ok hw (eraseIt_safe hc hs _))
  case eraseItIt p q => exact Or.inl (mutIt_ok hw (eraseItIt_safe hc hs _ _))
  case pushBack ch => exact Or.inl (mutS_ok hw (pushBack_safe hc hs ch))
  case popBack => exact Or.inl (mutS_ok hw (popBack_safe hc hs))
  case appendCC n ch => exact Or.inl (mutS_ok hw (appendCh_safe hc hs n ch))
  case appendS d => exact Or.inl (mutS_ok hw (appendS_safe hc hs d))
  case appendF f => obtain ⟨co, ho⟩ := sel_wf hw f; exact Or.inl (mutS_ok hw (appendF_safe hc hs ho))
  case appendSPC d p n => exact Or.inl (mutS_ok hw (appendSSub_safe hc hs d p n))
  case appendSP d p => exact Or.inl (mutS_ok hw (appendSSub_safe hc hs d p _))
  case appendFPC f p n => obtain ⟨co, ho⟩ := sel_wf hw f; exact Or.inl (mutS_ok hw (appendFSub_safe hc hs ho p n))
  case appendFP f p => obtain ⟨co, ho⟩ := sel_wf hw f; exact Or.inl (mutS_ok hw (appendFSub_safe hc hs ho p _))
  case appendPC a n => exact Or.inl (mutS_ok hw (appendPN_safe hc hs ha n))
  case appendP a => exact Or.inl (mutS_ok hw (appendP_safe hc hs ha))
  case appendItIt x y => exact Or.inl (mutS_ok hw (appendItIt_safe hc hs ht ha))
  case addF f => obtain ⟨co, ho⟩ := sel_wf hw f; exact Or.inl (mutS_ok hw (appendF_safe hc hs ho))
  case addS d => exact Or.inl (mutS_ok hw (appendS_safe hc hs d))
  case addP a => exact Or.inl (mutS_ok hw (appendP_safe hc hs ha))
  case addC ch => exact Or.inl (mutS_ok hw (appendCh_safe hc hs 1 ch))
  case sprintf a => exact Or.inl (mutS_ok hw (sprintf_safe hc hs _))
  case sprintf2 a v => exact Or.inl (mutS_ok hw (sprintf_safe hc hs _))
  case sprintfW a wa v b => exact Or.inl (mutS_ok hw (sprintfF_safe hc hs _))
  case cmpF f => exact Or.inl (obs_ok hw (fullCompare_safe hs (sel_len hw f)))
  case cmpS d => exact Or.inl (obs_ok hw (fullCompare_safe hs (hdl d)))
  case cmpP a => exact Or.inl (obs_ok hw (cstr_then ha (fun n hn => fullCompare_safe hs (by omega))))
  case cmpCCF p n f => exact Or.inl (obs_ok hw (partCompare_safe hs p n (sel_len hw f)))
  case cmpCCS p n d => exact Or.inl (obs_ok hw (partCompare_safe hs p n (hdl d)))
  case cmpCCP p n a => exact Or.inl (obs_ok hw (cstr_then ha (fun k hk => partCompare_safe hs p n (by omega))))
  case cmpCCFCC p n f p2 n2 => exact Or.inl (obs_ok hw (partPartCompare_safe hs p n (sel_len hw f) p2 n2))
  case cmpCCSCC p n d p2 n2 => exact Or.inl (obs_ok hw (partPartCompare_safe hs p n (hdl d) p2 n2))
  case cmpCCPC p n a n2 =>
    exact Or.inl (obs_ok hw (cstr_then ha (fun k hk => partPartCompare_safe hs p n (by omega) 0 n2)))
  case swF f => exact Or.inl (obs_ok hw (startsWith_safe hs (sel_len hw f)))
  case swS d => exact Or.inl (obs_ok hw (startsWith_safe hs (hdl d)))
  case swP a => exact Or.inl (obs_ok hw (cstr_then ha (fun n hn => startsWith_safe hs (by omega))))
  case swC ch => exact Or.inl (obs_ok hw (startsWithCh_safe hs ch))
  case ewF f => exact Or.inl (obs_ok hw (endsWith_safe hs (sel_len hw f)))
  case ewS d => exact Or.inl (obs_ok hw (endsWith_safe hs (hdl d)))
  case ewP a => exact Or.inl (obs_ok hw (cstr_then ha (fun n hn => endsWith_safe hs (by omega))))
  case ewC ch => exact Or.inl (obs_ok hw (endsWithCh_safe hs ch))
  case ctF f => exact Or.inl (obs_ok hw (containsImpl_safe hs (sel_len hw f)))
  case ctS d => exact Or.inl (obs_ok hw (containsImpl_safe hs (hdl d)))
  case ctP a => exact Or.inl (obs_ok hw (cstr_then ha (fun n hn => containsImpl_safe hs (by omega))))
  case ctC ch => exact Or.inl (obs_ok hw (containsCh_safe hs ch))
  case repCCF p n f => obtain ⟨co, ho⟩ := sel_wf hw f; exact Or.inl (mutS_ok hw (replaceF_safe hc hs p n ho))
  case repCCS p n d => exact Or.inl (mutS_ok hw (replaceS_safe hc hs p n d))
  case repCCFCC p n f p2 n2 =>
    obtain ⟨co, ho⟩ := sel_wf hw f; exact Or.inl (mutS_ok hw (replaceFSub_safe hc hs p n ho p2 n2))
  case repCCFC p n f p2 =>
    obtain ⟨co, ho⟩ := sel_wf hw f; exact Or.inl (mutS_ok hw (replaceFSub_safe hc hs p n ho p2 _))
  case repCCSCC p n d p2 n2 => exact Or.inl (mutS_ok hw (replaceSSub_safe hc hs p n d p2 n2))
  case repCCSC p n d p2 => exact Or.inl (mutS_ok hw (replaceSSub_safe hc hs p n d p2 _))
  case repCCP p n a => exact Or.inl (mutS_ok hw (replaceP_safe hc hs p n ha))
  case repCCPC p n a n2 => exact Or.inl (mutS_ok hw (replacePN_safe hc hs p n ha n2))
  case repCCCC p n n2 ch => exact Or.inl (mutS_ok hw (replaceCh_safe hc hs p n n2 ch))
  case repItItItIt f l x y => exact Or.inl (mutS_ok hw (replaceItIt_safe hc hs _ _ ht ha))
  case repItItSIt f l d i j => exact Or.inl (mutS_ok hw (replaceItSIt_safe hc hs _ _ d ha.1 ha.2))
  case repItItPC f l a n2 => exact Or.inl (mutS_ok hw (replaceItPN_safe hc hs _ _ ha))
  case repItItP f l a => exact Or.inl (mutS_ok hw (replaceItP_safe hc hs _ _ ha))
  case repItItCC f l n2 ch => exact Or.inl (mutS_ok hw (replaceItCh_safe hc hs _ _ n2 ch))
  case repItItIl f l il => exact Or.inl (mutS_ok hw (replaceItList_safe hc hs _ _ il))
  case substr p n => exact Or.inl (obs_ok hw (substr_safe hs p n))
  case substrP p => exact Or.inl (obs_ok hw (substr_safe hs p _))
  case copy n p =>
    refine Or.inl (obs_ok hw (copy_safe hs ?_))
    split
    · exact Nat.le_refl _
    · have : w.s.len - p = 0 := by omega
      rw [this]; simp
  case copyC n => exact Or.inl (obs_ok hw (copy_safe hs (by simp)))
  case swap =>
    left
    obtain ⟨p, h1, h2, h3⟩ := swap_safe hc hs ht
    rw [h1, bindR_ok]; exact ⟨_, _, rfl, h2, h3, hu⟩
  case search fam nd => exact Or.inl (obs_ok hw (searchStep_safe hc hw fam nd (by simpa only [ArgsOK] using ha)))
  case eq f => obtain ⟨co, ho⟩ := sel_wf hw f; exact Or.inl (obs_ok hw (eqOp_safe hs ho))
  case ne f => obtain ⟨co, ho⟩ := sel_wf hw f; exact Or.inl (obs_ok hw (neOp_safe hs ho))

/-- the caller-side contract holds at every step of a history -/
def HistOK (c cu : Cfg) : World → List Op → Prop
  | _, [] => True
  | w, op :: ops =>
    ArgsOK c w op ∧
      (∀ p, step c cu w op = .ok p → HistOK c cu p.1 ops) ∧ (∀ e, step c cu w op = .throw e → HistOK c cu w ops)

/-- induction over the history: it runs to its end and ends well-formed -/
theorem run_wf (hc : CfgOK c) (hcu : CfgOK cu) (ops : List Op) :
    ∀ w, WFW c cu w → HistOK c cu w ops → ∃ w', run c cu w ops = .ok w' ∧ WFW c cu w' := by
  induction ops with
  | nil => intro w hw _; exact ⟨w, rfl, hw⟩
  | cons op ops ih =>
    intro w hw hh
    obtain ⟨ha, hok, hthrow⟩ := hh
    unfold run
    rcases step_safe hc hcu hw op ha with ⟨w', o, h1, h2⟩ | ⟨e, h1, _⟩
    · rw [h1]; exact ih w' h2 (hok _ h1)
    · rw [h1]; exact ih w hw (hthrow _ h1)

theorem init_wf (c cu : Cfg) : WFW c cu (World.init c cu) := ⟨fresh_wf c, fresh_wf c, fresh_wf cu⟩

end CelmaVerif.FixedString
