import CelmaVerif.Lemmas.ContainersSeq2
/-
  `std::map<int,std::string>` destinations: every well-formed pair is inserted in order into the previous
  (or cleared) content; a key that is already there keeps its value.
-/
namespace CelmaVerif.Containers

def keysOf (c : List Pair) : List Int := c.map (·.1)

/-- strictly ascending keys: what a `std::map` always is -/
def KeysSorted (c : List Pair) : Prop := (keysOf c).Pairwise (· < ·)

theorem mem_keys_mapInsert (p : Pair) (c : List Pair) (x : Int) :
    x ∈ keysOf (mapInsert p c) ↔ x = p.1 ∨ x ∈ keysOf c := by
  induction c with
  | nil => simp [mapInsert, keysOf]
  | cons q qs ih =>
    unfold mapInsert
    by_cases h1 : p.1 < q.1
    · simp [h1, keysOf]
    · by_cases h2 : p.1 = q.1
      · simp only [if_neg h1, if_pos h2, keysOf, List.map_cons, List.mem_cons]
        constructor
        · exact Or.inr
        · rintro (h | h)
          · exact Or.inl (h.trans h2)
          · exact h
      · simp only [if_neg h1, if_neg h2]
        simp only [keysOf, List.map_cons, List.mem_cons] at ih ⊢
        rw [ih]
        constructor
        · rintro (h | h | h)
          · exact Or.inr (Or.inl h)
          · exact Or.inl h
          · exact Or.inr (Or.inr h)
        · rintro (h | h | h)
          · exact Or.inr (Or.inl h)
          · exact Or.inl h
          · exact Or.inr (Or.inr h)

theorem mapInsert_sorted (p : Pair) (c : List Pair) (h : KeysSorted c) : KeysSorted (mapInsert p c) := by
  induction c with
  | nil => simp [mapInsert, KeysSorted, keysOf]
  | cons q qs ih =>
    have hq := List.pairwise_cons.mp (by simpa [KeysSorted, keysOf] using h : List.Pairwise (· < ·) (q.1 :: keysOf qs))
    unfold mapInsert
    by_cases h1 : p.1 < q.1
    · rw [if_pos h1]
      simp only [KeysSorted, keysOf, List.map_cons]
      refine List.pairwise_cons.mpr ⟨?_, by simpa [KeysSorted, keysOf] using h⟩
      intro y hy
      rcases List.mem_cons.mp hy with rfl | hy
      · exact h1
      · exact Int.lt_trans h1 (hq.1 y hy)
    · by_cases h2 : p.1 = q.1
      · rw [if_neg h1, if_pos h2]; exact h
      · rw [if_neg h1, if_neg h2]
        have ih' := ih hq.2
        simp only [KeysSorted, keysOf, List.map_cons]
        refine List.pairwise_cons.mpr ⟨?_, ih'⟩
        intro y hy
        rcases (mem_keys_mapInsert p qs y).mp hy with rfl | hy
        · omega
        · exact hq.1 y hy

/-- `std::map::insert` of a key that is there changes nothing -/
theorem mapInsert_present (p : Pair) (c : List Pair) (h : KeysSorted c) (hm : p.1 ∈ keysOf c) : mapInsert p c = c := by
  induction c with
  | nil => simp [keysOf] at hm
  | cons q qs ih =>
    have hq := List.pairwise_cons.mp (by simpa [KeysSorted, keysOf] using h : List.Pairwise (· < ·) (q.1 :: keysOf qs))
    unfold mapInsert
    rcases List.mem_cons.mp (by simpa [keysOf] using hm : p.1 ∈ q.1 :: keysOf qs) with heq | hin
    · rw [if_neg (by omega), if_pos heq]
    · have := hq.1 p.1 hin
      rw [if_neg (by omega), if_neg (by omega), ih hq.2 hin]

def AcceptsM (o : MapOpts) (t : List Char) : Prop := runChecks o.checks t = none ∧ (mapPairOf o t).isSome = true
def pairsOf (o : MapOpts) (ts : List (List Char)) : List Pair := ts.filterMap (mapPairOf o)
def insertAll (c : List Pair) (ps : List Pair) : List Pair := ps.foldl (fun c p => mapInsert p c) c

theorem insertAll_sorted (c : List Pair) (ps : List Pair) (h : KeysSorted c) : KeysSorted (insertAll c ps) := by
  induction ps generalizing c with
  | nil => exact h
  | cons p ps ih => exact ih _ (mapInsert_sorted p c h)

/-- one accepted token that is not refused as a duplicate key -/
theorem mapStep_ok (o : MapOpts) (c : List Pair) (t : List Char) (p : Pair) (hs : KeysSorted c)
    (hchk : runChecks o.checks t = none) (hp : mapPairOf o t = some p)
    (hnd : ¬ (o.unique = true ∧ o.dupErr = true ∧ p.1 ∈ keysOf c)) : mapStep o c t = .ok (mapInsert p c) := by
  unfold mapPairOf at hp
  unfold mapStep
  rw [hchk]
  simp only
  cases hub : unbracket o.pair t with
  | throw e => rw [hub] at hp; simp at hp
  | oob w => rw [hub] at hp; simp at hp
  | ok body =>
    rw [hub] at hp
    simp only at hp ⊢
    by_cases hemp : ((split2 (o.pair.headD ',') body).1 = [] || (split2 (o.pair.headD ',') body).2 = []) = true
    · rw [if_pos hemp] at hp; cases hp
    · rw [if_neg hemp] at hp ⊢
      cases hk : convInt (split2 (o.pair.headD ',') body).1 with
      | none => rw [hk] at hp; simp at hp
      | some key =>
        rw [hk] at hp
        simp only [Option.map_some, Option.some.injEq] at hp
        subst hp
        simp only
        have hany : (c.any fun q => decide (q.1 = key)) = decide (key ∈ keysOf c) := by
          simp only [keysOf, List.any_eq, List.mem_map, decide_eq_true_eq]
        by_cases hin : key ∈ keysOf c
        · by_cases hu : o.unique = true
          · have hde : o.dupErr = false := by
              cases h : o.dupErr
              · rfl
              · exact absurd ⟨hu, h, hin⟩ hnd
            rw [mapInsert_present _ c hs hin]
            simp [hu, hany, hin, hde]
          · simp [hu]
        · simp [hany, hin]

def DupFreeM (o : MapOpts) (base : List Pair) (all : List Pair) : Prop :=
  o.unique = true → o.dupErr = true → (keysOf all).Nodup ∧ ∀ x ∈ keysOf all, x ∉ keysOf base

theorem mem_keys_insertAll (c ps : List Pair) (x : Int) :
    x ∈ keysOf (insertAll c ps) ↔ x ∈ keysOf c ∨ x ∈ keysOf ps := by
  induction ps generalizing c with
  | nil => simp [insertAll, keysOf]
  | cons p ps ih =>
    simp only [insertAll, List.foldl_cons] at ih ⊢
    rw [ih, mem_keys_mapInsert]
    simp only [keysOf, List.map_cons, List.mem_cons]
    constructor
    · rintro ((h | h) | h)
      · exact Or.inr (Or.inl h)
      · exact Or.inl h
      · exact Or.inr (Or.inr h)
    · rintro (h | h | h)
      · exact Or.inl (Or.inr h)
      · exact Or.inl (Or.inl h)
      · exact Or.inr h

theorem mapElems_ok (o : MapOpts) (base : List Pair) (hb : KeysSorted base) :
    ∀ (ts : List (List Char)) (done : List Pair), (∀ t ∈ ts, AcceptsM o t) →
      DupFreeM o base (done ++ pairsOf o ts) →
      mapElems o (insertAll base done) ts = (insertAll base (done ++ pairsOf o ts), none)
  | [], done, _, _ => by simp [mapElems, pairsOf]
  | t :: ts, done, hacc, hdf => by
    obtain ⟨hchk, hsome⟩ := hacc t List.mem_cons_self
    obtain ⟨p, hp⟩ := Option.isSome_iff_exists.mp hsome
    have hps : pairsOf o (t :: ts) = p :: pairsOf o ts := by simp [pairsOf, hp]
    have hnd : ¬ (o.unique = true ∧ o.dupErr = true ∧ p.1 ∈ keysOf (insertAll base done)) := by
      rintro ⟨hu, he, hm⟩
      have hd := hdf hu he
      rw [hps] at hd
      simp only [keysOf, List.map_append, List.map_cons] at hd
      rcases (mem_keys_insertAll base done p.1).mp hm with hb' | hd'
      · exact hd.2 p.1 (by simp) hb'
      · exact (List.nodup_append.mp hd.1).2.2 p.1 hd' p.1 List.mem_cons_self rfl
    have hstep := mapStep_ok o (insertAll base done) t p (insertAll_sorted base done hb) hchk hp hnd
    have hassoc : done ++ pairsOf o (t :: ts) = (done ++ [p]) ++ pairsOf o ts := by rw [hps]; simp
    have hins : mapInsert p (insertAll base done) = insertAll base (done ++ [p]) := by
      simp [insertAll, List.foldl_append]
    rw [mapElems, hstep]
    simp only
    rw [hins, hassoc]
    exact mapElems_ok o base hb ts (done ++ [p]) (fun t' ht' => hacc t' (List.mem_cons_of_mem _ ht')) (hassoc ▸ hdf)

theorem mapRunP_ok (o : MapOpts) (base : List Pair) (hb : KeysSorted base) :
    ∀ (uses : List (List Char)) (done : List Pair), (∀ t ∈ allTokens o.sep uses, AcceptsM o t) →
      DupFreeM o base (done ++ pairsOf o (allTokens o.sep uses)) → uses ≠ [] →
      mapRunP o ⟨insertAll base done, false⟩ uses
        = (⟨insertAll base (done ++ pairsOf o (allTokens o.sep uses)), false⟩, none)
  | [], _, _, _, hne => absurd rfl hne
  | u :: us, done, hacc, hdf, _ => by
    have htok : allTokens o.sep (u :: us) = tokens o.sep u ++ allTokens o.sep us := by simp [allTokens]
    have hps : pairsOf o (allTokens o.sep (u :: us)) = pairsOf o (tokens o.sep u) ++ pairsOf o (allTokens o.sep us) := by
      rw [htok]; simp [pairsOf, List.filterMap_append]
    have hdf1 : DupFreeM o base (done ++ pairsOf o (tokens o.sep u)) := by
      intro hu he
      have hd := hdf hu he
      rw [hps, ← List.append_assoc] at hd
      simp only [keysOf, List.map_append] at hd ⊢
      exact ⟨(List.nodup_append.mp hd.1).1, fun x hx => hd.2 x (List.mem_append_left _ hx)⟩
    have h1 := mapElems_ok o base hb (tokens o.sep u) done
      (fun t ht => hacc t (by rw [htok]; exact List.mem_append_left _ ht)) hdf1
    rw [mapRunP]
    unfold mapAssignP
    simp only [Bool.false_eq_true, if_false, h1]
    cases us with
    | nil => simp [mapRunP, allTokens, pairsOf]
    | cons u2 us2 =>
      rw [mapRunP_ok o base hb (u2 :: us2) (done ++ pairsOf o (tokens o.sep u))
        (fun t ht => hacc t (by rw [htok]; exact List.mem_append_right _ ht))
        (by rw [List.append_assoc, ← hps]; exact hdf) (by simp)]
      rw [hps, List.append_assoc]

/-- the refinement for maps, clear-before-assign included -/
theorem mapRunP_spec (o : MapOpts) (init : List Pair) (hwf : KeysSorted init) (uses : List (List Char))
    (hne : uses ≠ []) (hacc : ∀ t ∈ allTokens o.sep uses, AcceptsM o t)
    (hdf : DupFreeM o (if o.clear then [] else init) (pairsOf o (allTokens o.sep uses))) :
    mapRunP o ⟨init, o.clear⟩ uses = (⟨mapFinalSpec o init (pairsOf o (allTokens o.sep uses)), false⟩, none) := by
  cases uses with
  | nil => exact absurd rfl hne
  | cons u us =>
    have key : mapRunP o ⟨init, o.clear⟩ (u :: us) = mapRunP o ⟨if o.clear then [] else init, false⟩ (u :: us) := by
      rw [mapRunP, mapRunP]
      have : mapAssignP o ⟨init, o.clear⟩ u = mapAssignP o ⟨if o.clear then [] else init, false⟩ u := by
        unfold mapAssignP
        cases o.clear <;> rfl
      rw [this]
    rw [key]
    have hb : KeysSorted (if o.clear then [] else init) := by
      cases o.clear
      · exact hwf
      · simp [KeysSorted, keysOf]
    have := mapRunP_ok o _ hb (u :: us) [] hacc (by simpa using hdf) (by simp)
    simpa [insertAll, mapFinalSpec] using this

end CelmaVerif.Containers
