import CelmaVerif.Lemmas.LogFilesInv
/-
  Helper lemmas for C15, part 3: what each operation of the model does on a well-formed directory
  (the specified step function), and the invariant along every history.
-/
namespace CelmaVerif.LogFiles

/-! ### the operations, on a directory whose generation 0 is `f` and whose counter is its size -/

theorem writeCheck_iff (cfg : Cfg) (c : Nat) (m : Msg) :
    writeCheck cfg ⟨c⟩ m = true ↔ c + cost cfg m ≤ cfg.limit := by
  unfold writeCheck cost
  cases cfg.kind <;> simp [Nat.add_assoc]

theorem written_counter (cfg : Cfg) (c : Nat) (m : Msg) : written cfg ⟨c⟩ m = ⟨c + cost cfg m⟩ := by
  unfold written cost
  cases cfg.kind <;> simp [Nat.add_assoc]

/-- the message fits: it is appended to generation 0, nothing else changes -/
theorem writeMessage_fits {cfg : Cfg} {fs : Fs} {c : Nat} {f : File} {m : Msg}
    (h0 : fs.get 0 = some f) (hroom : c + cost cfg m ≤ cfg.limit) :
    writeMessage cfg fs ⟨c⟩ m = (setFile fs 0 (f ++ [m]), .ok ⟨c + cost cfg m⟩) := by
  unfold writeMessage
  rw [if_pos ((writeCheck_iff cfg c m).mpr hroom), written_counter]
  simp [appendLine, h0]

theorem openAfterRoll_ok {cfg : Cfg} (fs : Fs) (hlim : 1 ≤ cfg.limit) :
    openAfterRoll cfg fs = (setFile fs 0 [], .ok ⟨0⟩) := by
  unfold openAfterRoll fopen openCheck
  cases cfg.kind
  · simp
  · have : 0 < cfg.limit := by omega
    simp [this]

/-- the message does not fit: the generations are rolled and the message starts the new generation 0 -/
theorem writeMessage_rolls {cfg : Cfg} {fs : Fs} {c : Nat} {m : Msg} (hlim : 1 ≤ cfg.limit)
    (hfull : cfg.limit < c + cost cfg m) :
    writeMessage cfg fs ⟨c⟩ m = (setFile (setFile (rollFiles cfg fs) 0 []) 0 [m], .ok ⟨cost cfg m⟩) := by
  unfold writeMessage
  have hw : ¬ writeCheck cfg ⟨c⟩ m = true := by
    rw [writeCheck_iff]; omega
  rw [if_neg hw]
  simp only [reOpenFile, openAfterRoll_ok _ hlim, written_counter]
  simp [appendLine]

/-- re-opening a generation 0 that is not yet full: it is kept and the counter picks up its size -/
theorem openFirst_keep {cfg : Cfg} {fs : Fs} {f : File} (h0 : fs.get 0 = some f)
    (hnl : cfg.kind = .counted → ∀ m ∈ f, 10 ∉ m) (hroom : size cfg f < cfg.limit) :
    openFirst cfg fs = (fs, .ok ⟨size cfg f⟩) := by
  unfold openFirst fopen openCheck size at *
  rw [h0]
  cases hk : cfg.kind
  · simp only [hk] at hroom
    by_cases hz : fileBytes f = 0
    · have := fileBytes_eq_zero hz
      subst this
      simp
    · have hn := fileNewlines_eq_length (hnl hk)
      simp [hz, h0, hn, hroom]
  · simp only [hk] at hroom
    simp [hroom]

/-- re-opening a generation 0 that is full: the generations are rolled, generation 0 starts empty -/
theorem openFirst_roll {cfg : Cfg} {fs : Fs} {f : File} (h0 : fs.get 0 = some f)
    (hnl : cfg.kind = .counted → ∀ m ∈ f, 10 ∉ m) (hlim : 1 ≤ cfg.limit) (hfull : cfg.limit ≤ size cfg f) :
    openFirst cfg fs = (setFile (rollFiles cfg fs) 0 [], .ok ⟨0⟩) := by
  unfold openFirst fopen openCheck size at *
  rw [h0]
  cases hk : cfg.kind
  · simp only [hk] at hfull
    have hz : ¬ fileBytes f = 0 := by
      intro hz
      have := fileBytes_eq_zero hz
      subst this
      simp at hfull; omega
    have hn := fileNewlines_eq_length (hnl hk)
    have hnot : ¬ f.length < cfg.limit := by omega
    simp [hz, h0, hn, hnot, reOpenFile, openAfterRoll, fopen, openCheck, hk]
  · simp only [hk] at hfull
    have hnot : ¬ fileBytes f < cfg.limit := by omega
    have : 0 < cfg.limit := by omega
    simp [hnot, reOpenFile, openAfterRoll, fopen, openCheck, hk, this]

/-- construction on an empty directory creates an empty generation 0 -/
theorem openFirst_empty {cfg : Cfg} (hlim : 1 ≤ cfg.limit) :
    openFirst cfg emptyFs = (setFile emptyFs 0 [], .ok ⟨0⟩) := by
  unfold openFirst fopen openCheck
  have : 0 < cfg.limit := by omega
  cases hk : cfg.kind <;> simp [this]

/-! ### the invariant along a history -/

/-- the policy object is alive with configuration `cfg` and the directory is well-formed -/
def WInv (cfg : Cfg) (w : World) (msgs : List Msg) : Prop :=
  w.cfg = cfg ∧ ∃ c k, w.pol = some ⟨c⟩ ∧ Inv cfg w.fs c msgs k

theorem start_empty_winv {cfg : Cfg} (hlim : 1 ≤ cfg.limit) :
    (start cfg emptyFs).2 = .ok () ∧ WInv cfg (start cfg emptyFs).1 [] := by
  unfold start
  rw [openFirst_empty hlim]
  refine ⟨rfl, rfl, 0, 1, rfl, ?_⟩
  have hK := numGen_pos cfg
  refine ⟨by omega, hK, ?_, ?_, ?_, ?_, ?_, ?_, ?_⟩
  · intro n hn; have : n = 0 := by omega
    subst this; simp
  · intro n hn; have : ¬ n = 0 := by omega
    simp [this]
  · exact ⟨[], by simp, by simp, by intro _ m hm; simp at hm⟩
  · intro n f hf
    by_cases h : n = 0
    · subst h; simp at hf; subst hf; left; simp
    · simp [h] at hf
  · intro n g g' hg; simp at hg
  · have : retained (setFile emptyFs 0 []) (numGen cfg) = [] := by
      generalize numGen cfg = K
      induction K with
      | zero => rfl
      | succ K ih =>
        simp only [retained, ih]
        by_cases h : K = 0 <;> simp [h]
    rw [this]; exact List.suffix_refl _
  · intro _
    generalize numGen cfg = K
    induction K with
    | zero => rfl
    | succ K ih =>
      simp only [retained, ih]
      by_cases h : K = 0 <;> simp [h]

theorem roll_shift {cfg : Cfg} {fs : Fs} {c k : Nat} {msgs : List Msg} (hI : Inv cfg fs c msgs k) (g0 : File) :
    (∀ i, 1 ≤ i → i < numGen cfg → (setFile (rollFiles cfg fs) 0 g0).get i = fs.get (i - 1)) ∧
    (∀ i, numGen cfg ≤ i → (setFile (rollFiles cfg fs) 0 g0).get i = none) := by
  have hK := numGen_pos cfg
  constructor
  · intro i h1 h2
    have e : ¬ i = 0 := by omega
    rw [roll_get cfg fs k hI.k_le hI.ex hI.nex g0 i, if_neg e, if_pos h2]
  · intro i h2
    have e : ¬ i = 0 := by omega
    have e2 : ¬ i < numGen cfg := by omega
    rw [roll_get cfg fs k hI.k_le hI.ex hI.nex g0 i, if_neg e, if_neg e2]

theorem setFile_setFile_get (fs : Fs) (a b : File) (i : Nat) :
    (setFile (setFile fs 0 a) 0 b).get i = (setFile fs 0 b).get i := by
  by_cases h : i = 0 <;> simp [h]

theorem step_write_winv {cfg : Cfg} {w : World} {msgs : List Msg} {m : Msg} (hlim : 1 ≤ cfg.limit)
    (hW : WInv cfg w msgs) (hm : Writable cfg m) :
    (w.step (.write m)).2 = .ok () ∧ WInv cfg (w.step (.write m)).1 (msgs ++ [m]) := by
  obtain ⟨hcfg, c, k, hp, hI⟩ := hW
  obtain ⟨f, h0, hc, hnl⟩ := hI.cur
  simp only [World.step, hp, hcfg]
  by_cases hroom : c + cost cfg m ≤ cfg.limit
  · rw [writeMessage_fits h0 hroom]
    refine ⟨rfl, rfl, c + cost cfg m, k, rfl, ?_⟩
    show Inv cfg (setFile w.fs 0 (f ++ [m])) _ _ _
    have hrest : ∀ i, 1 ≤ i → (setFile w.fs 0 (f ++ [m])).get i = w.fs.get i := by
      intro i hi
      have : ¬ i = 0 := by omega
      simp [this]
    exact inv_append hI h0 hm (by omega) (by simp) hrest
  · rw [writeMessage_rolls hlim (by omega)]
    refine ⟨rfl, rfl, cost cfg m, min (k + 1) (numGen cfg), rfl, ?_⟩
    show Inv cfg (setFile (setFile (rollFiles cfg w.fs) 0 []) 0 [m]) _ _ _
    obtain ⟨hs, hb⟩ := roll_shift hI [m]
    have key := inv_roll (fs' := setFile (setFile (rollFiles cfg w.fs) 0 []) 0 [m]) (g0 := [m]) hI h0
      (Or.inr ⟨m, rfl, hm⟩) (by simp only [nextCost]; omega) (by simp)
      (by intro i h1 h2; rw [setFile_setFile_get]; exact hs i h1 h2)
      (by intro i h2; rw [setFile_setFile_get]; exact hb i h2)
    rw [size_single] at key
    exact key

theorem step_restart_winv {cfg : Cfg} {w : World} {msgs : List Msg} (hlim : 1 ≤ cfg.limit)
    (hW : WInv cfg w msgs) :
    (w.step .restart).2 = .ok () ∧ WInv cfg (w.step .restart).1 msgs := by
  obtain ⟨hcfg, c, k, hp, hI⟩ := hW
  obtain ⟨f, h0, hc, hnl⟩ := hI.cur
  simp only [World.step, hcfg, start]
  by_cases hroom : size cfg f < cfg.limit
  · rw [openFirst_keep h0 hnl hroom]
    refine ⟨rfl, rfl, size cfg f, k, rfl, ?_⟩
    show Inv cfg w.fs _ _ _
    rw [← hc]; exact hI
  · rw [openFirst_roll h0 hnl hlim (by omega)]
    refine ⟨rfl, rfl, 0, min (k + 1) (numGen cfg), rfl, ?_⟩
    show Inv cfg (setFile (rollFiles cfg w.fs) 0 []) _ _ _
    obtain ⟨hs, hb⟩ := roll_shift hI []
    have key := inv_roll (fs' := setFile (rollFiles cfg w.fs) 0 []) (g0 := []) hI h0
      (Or.inl rfl) (by simp only [nextCost]; omega) (by simp) hs hb
    simpa using key

/-- the events of a history, from a given state -/
def runFrom (w : World) (evs : List Event) : World := evs.foldl (fun w e => (w.step e).1) w

theorem run_eq (cfg : Cfg) (evs : List Event) : run cfg evs = runFrom (start cfg emptyFs).1 evs := rfl

theorem runFrom_winv {cfg : Cfg} (hlim : 1 ≤ cfg.limit) (evs : List Event) :
    ∀ (w : World) (msgs : List Msg), WInv cfg w msgs → (∀ m ∈ messages evs, Writable cfg m) →
      WInv cfg (runFrom w evs) (msgs ++ messages evs) := by
  induction evs with
  | nil => intro w msgs hW _; simpa [runFrom, messages] using hW
  | cons e evs ih =>
    intro w msgs hW hadm
    cases e with
    | write m =>
      have h1 := (step_write_winv hlim hW (hadm m (by simp [messages]))).2
      have := ih _ _ h1 (fun x hx => hadm x (by simp [messages, hx]))
      simpa [runFrom, messages, List.append_assoc] using this
    | restart =>
      have h1 := (step_restart_winv hlim hW).2
      have := ih _ _ h1 (fun x hx => hadm x (by simpa [messages] using hx))
      simpa [runFrom, messages] using this

theorem run_winv {cfg : Cfg} (hlim : 1 ≤ cfg.limit) (evs : List Event)
    (hadm : ∀ m ∈ messages evs, Writable cfg m) : WInv cfg (run cfg evs) (messages evs) := by
  have := runFrom_winv hlim evs _ [] (start_empty_winv hlim).2 hadm
  simpa [run_eq] using this

theorem runFrom_append (w : World) (evs : List Event) (e : Event) :
    runFrom w (evs ++ [e]) = ((runFrom w evs).step e).1 := by
  simp [runFrom, List.foldl_append]

theorem messages_append (evs : List Event) (e : Event) :
    messages (evs ++ [e]) = messages evs ++ (match e with | .write m => [m] | .restart => []) := by
  induction evs with
  | nil => cases e <;> simp [messages]
  | cons a evs ih => cases a <;> simp [messages, ih]

/-! ### the exact effect of one event on a well-formed state (the specified step function) -/

theorem step_write_fs {cfg : Cfg} {w : World} {msgs : List Msg} (m : Msg) (hlim : 1 ≤ cfg.limit)
    (hW : WInv cfg w msgs) {f : File} (h0 : w.fs.get 0 = some f) :
    (size cfg f + cost cfg m ≤ cfg.limit →
      ∀ i, (w.step (.write m)).1.fs.get i = if i = 0 then some (f ++ [m]) else w.fs.get i) ∧
    (cfg.limit < size cfg f + cost cfg m →
      ∀ i, (w.step (.write m)).1.fs.get i =
        if i = 0 then some [m] else if i < numGen cfg then w.fs.get (i - 1) else none) := by
  obtain ⟨hcfg, c, k, hp, hI⟩ := hW
  obtain ⟨f', h0', hc, hnl⟩ := hI.cur
  have hff : f' = f := by rw [h0] at h0'; cases h0'; rfl
  subst hff
  constructor
  · intro hroom i
    simp only [World.step, hp, hcfg]
    rw [writeMessage_fits h0 (by omega)]
    show (setFile w.fs 0 (f' ++ [m])).get i = _
    simp
  · intro hfull i
    simp only [World.step, hp, hcfg]
    rw [writeMessage_rolls hlim (by omega)]
    show (setFile (setFile (rollFiles cfg w.fs) 0 []) 0 [m]).get i = _
    rw [setFile_setFile_get, roll_get cfg w.fs k hI.k_le hI.ex hI.nex [m] i]

theorem step_restart_fs {cfg : Cfg} {w : World} {msgs : List Msg} (hlim : 1 ≤ cfg.limit)
    (hW : WInv cfg w msgs) {f : File} (h0 : w.fs.get 0 = some f) :
    (size cfg f < cfg.limit → ∀ i, (w.step .restart).1.fs.get i = w.fs.get i) ∧
    (cfg.limit ≤ size cfg f →
      ∀ i, (w.step .restart).1.fs.get i =
        if i = 0 then some [] else if i < numGen cfg then w.fs.get (i - 1) else none) := by
  obtain ⟨hcfg, c, k, hp, hI⟩ := hW
  obtain ⟨f', h0', hc, hnl⟩ := hI.cur
  have hff : f' = f := by rw [h0] at h0'; cases h0'; rfl
  subst hff
  constructor
  · intro hroom i
    simp only [World.step, hcfg, start]
    rw [openFirst_keep h0 hnl hroom]
  · intro hfull i
    simp only [World.step, hcfg, start]
    rw [openFirst_roll h0 hnl hlim hfull]
    show (setFile (rollFiles cfg w.fs) 0 []).get i = _
    rw [roll_get cfg w.fs k hI.k_le hI.ex hI.nex [] i]

/-! ### generations that exceed the limit (messages longer than a whole generation) -/

theorem cost_le_size_of_mem (cfg : Cfg) {g : File} {m : Msg} (h : m ∈ g) : cost cfg m ≤ size cfg g := by
  induction g with
  | nil => cases h
  | cons x g ih =>
    have e : size cfg (x :: g) = cost cfg x + size cfg g := by
      unfold size cost fileBytes
      cases cfg.kind
      · simp; omega
      · simp
    rw [e]
    rcases List.mem_cons.mp h with h | h
    · subst h; omega
    · have := ih h; omega

/-- a generation that exceeds the limit although it is `GenOk` is one message that does not fit on its own -/
theorem genOk_exceeds {cfg : Cfg} {g : File} (h : GenOk cfg g) (hex : cfg.limit < size cfg g) :
    ∃ m, g = [m] ∧ cfg.limit < cost cfg m := by
  rcases h with h | h
  · omega
  · match g, h with
    | [m], _ => exact ⟨m, rfl, by rw [size_single] at hex; exact hex⟩

/-- a generation all of whose messages fit on their own respects the limit when it is `GenOk` -/
theorem genOk_fitting {cfg : Cfg} {g : File} (h : GenOk cfg g) (hfit : ∀ m ∈ g, cost cfg m ≤ cfg.limit) :
    size cfg g ≤ cfg.limit := by
  by_cases hex : cfg.limit < size cfg g
  · obtain ⟨m, hg, hm⟩ := genOk_exceeds h hex
    subst hg
    have := hfit m (by simp)
    omega
  · omega

theorem mem_retained {fs : Fs} {n i : Nat} {g : File} {m : Msg} (hi : i < n) (hg : fs.get i = some g)
    (hm : m ∈ g) : m ∈ retained fs n := by
  induction n with
  | zero => omega
  | succ n ih =>
    simp only [retained]
    by_cases h : i = n
    · subst h; rw [hg]; simp [hm]
    · exact List.mem_append_right _ (ih (by omega))

end CelmaVerif.LogFiles
