import CelmaVerif.Lemmas.ConcurrencySingleton
/-
  Race freedom of the singleton model: the only pair of simultaneously enabled conflicting
  accesses that mutual exclusion does not rule out is "store into the fast-path cell" against
  "unlocked first read"; it is a race exactly when that cell is not an atomic.
-/
namespace CelmaVerif.Concurrency

theorem mem_sAccesses_cases (cfg : Cfg) (pc : SPc) (a : Access) (h : a ∈ sAccesses cfg pc) :
    (pc = .read1 ∧ a = ⟨.fast, false⟩) ∨ (pc = .read2 ∧ a = ⟨.fast, false⟩) ∨
    (pc = .construct ∧ a = ⟨.owner, true⟩) ∨ (pc = .write ∧ a = ⟨.fast, true⟩) ∨
    (pc = .read3 ∧ a = ⟨.fast, false⟩) := by
  cases pc <;> simp [sAccesses] at h
  · simp [h]
  · simp [h]
  · simp [h.2]
  · simp [h]
  · simp [h.2]

/-- characterisation of every race the invariant allows -/
theorem sracy_char (cfg : Cfg) (n : Nat) (s : SState) (h : SInv s) (hr : SRacy cfg n s) :
    cfg.ptrAtomic = false ∧ ∃ t u, t < n ∧ u < n ∧ t ≠ u ∧ s.pc t = .write ∧ s.pc u = .read1 := by
  obtain ⟨t, ht, u, hu, htu, _, _, a, ha, b, hb, hc⟩ := hr
  have hex : ∀ {x y : Nat}, (s.pc x).inCS → (s.pc y).inCS → y = x := fun hx hy => h.excl hx hy
  simp only [conflict, Bool.and_eq_true, beq_iff_eq, Bool.or_eq_true, Bool.not_eq_true'] at hc
  obtain ⟨⟨hcell, hw⟩, hat⟩ := hc
  rcases mem_sAccesses_cases cfg _ a ha with ⟨pa, rfl⟩ | ⟨pa, rfl⟩ | ⟨pa, rfl⟩ | ⟨pa, rfl⟩ | ⟨pa, rfl⟩ <;>
  rcases mem_sAccesses_cases cfg _ b hb with ⟨pb, rfl⟩ | ⟨pb, rfl⟩ | ⟨pb, rfl⟩ | ⟨pb, rfl⟩ | ⟨pb, rfl⟩ <;>
  simp at hcell hw <;> simp only [cellAtomic] at hat
  · exact ⟨hat, u, t, hu, ht, fun e => htu e.symm, pb, pa⟩
  · exact absurd (hex (x := t) (y := u) (by rw [pa]; simp [SPc.inCS]) (by rw [pb]; simp [SPc.inCS])) (fun e => htu e.symm)
  · exact absurd (hex (x := t) (y := u) (by rw [pa]; simp [SPc.inCS]) (by rw [pb]; simp [SPc.inCS])) (fun e => htu e.symm)
  · exact ⟨hat, t, u, ht, hu, htu, pa, pb⟩
  · exact absurd (hex (x := t) (y := u) (by rw [pa]; simp [SPc.inCS]) (by rw [pb]; simp [SPc.inCS])) (fun e => htu e.symm)
  · exact absurd (hex (x := t) (y := u) (by rw [pa]; simp [SPc.inCS]) (by rw [pb]; simp [SPc.inCS])) (fun e => htu e.symm)
  · have := (h.post u (Or.inr (Or.inl pb))).1
    rw [(h.wr t pa).1] at this; cases this
  · have := (h.post t (Or.inr (Or.inl pa))).1
    rw [(h.wr u pb).1] at this; cases this

theorem sracy_of_inv_atomic (cfg : Cfg) (n : Nat) (s : SState) (h : SInv s) (ha : cfg.ptrAtomic = true) :
    ¬ SRacy cfg n s := by
  intro hr
  have := (sracy_char cfg n s h hr).1
  rw [ha] at this; cases this

theorem sracyAlong_iff (cfg : Cfg) (n : Nat) (sched : List Nat) : ∀ s,
    SRacyAlong cfg n s sched ↔ ∃ k, k ≤ sched.length ∧ SRacy cfg n (srunFrom cfg n s (sched.take k)) := by
  induction sched with
  | nil =>
    intro s
    simp [SRacyAlong, srunFrom]
  | cons t rest ih =>
    intro s
    simp only [SRacyAlong, ih]
    constructor
    · rintro (h | ⟨k, hk, h⟩)
      · exact ⟨0, by simp, by simpa [srunFrom] using h⟩
      · exact ⟨k + 1, by simp; omega, by simpa [srunFrom] using h⟩
    · rintro ⟨k, hk, h⟩
      cases k with
      | zero => left; simpa [srunFrom] using h
      | succ k => right; exact ⟨k, by simp at hk; omega, by simpa [srunFrom] using h⟩

end CelmaVerif.Concurrency
