import CelmaVerif.Lemmas.HandlerSafe
/-
  C04: the reads of `isSingleArg()` and `argsAsString()` (arg_list_iterator.hpp).  Both index argv
  through the *current element* (`mCurrElement.mArgIndex`, `[2]`), which `It.Inv` says nothing
  about.  `It.CurInv` is the invariant of the current element; it is established by `begin()` and
  re-established by every `operator++`, and under it
  * `isSingleArg()` reads `argv[i][2]` only when `argv[i]` has at least two characters,
  * `argsAsString( true)` reads `argv[i..argc)` with `i < argc`,
  * `argsAsString( false)` reads `argv[mArgIndex]`, which is `argv[argc]` — the terminating null
    pointer, from which a `std::string` is built — exactly when the current element is a `-c` word
    that is the last word of argv.
  `Int.toNat` in the model's `isSingleArg`/`argsAsString` (the element's index is an `int`, -1 in a
  default-constructed element) is never applied to a negative number on a cursor before the end.
-/
namespace CelmaVerif.ProgArgs
open CelmaVerif

/-- invariant of the current element of the cursor -/
structure It.CurInv (it : It) : Prop where
  /-- before the end the element was set by one of the `set…` functions -/
  valid  : it.argIndex ≤ it.argv.length → it.cur.ty ≠ .invalid
  /-- the element's word index is a valid index into argv (in particular not negative) -/
  idx    : it.cur.ty ≠ .invalid → ∃ i : Nat, it.cur.argIndex = (i : Int) ∧ i < it.argv.length
  /-- a single-character element `argv[i][p]`: `1 ≤ p < strlen`, and the cursor stands behind it — at
      the next character, or at the next word when it was the last character -/
  single : it.cur.ty = .singleCharArg → ∃ (i p : Nat) (w : Word), it.cur.argIndex = (i : Int) ∧
      it.cur.charPos = (p : Int) ∧ it.argv[i]? = some w ∧ 1 ≤ p ∧ p < w.length ∧
      (if p + 1 = w.length then it.argIndex = i + 1 else it.argIndex = i ∧ it.charPos = p + 1)

/-- postcondition of a cursor operation -/
def CurPost (r : Res It) : Prop :=
  match r with
  | .ok it' => it'.CurInv
  | _ => True

theorem curInv_congr {a b : It} (hv : b.argv = a.argv) (hi : b.argIndex = a.argIndex) (hc : b.charPos = a.charPos)
    (hcur : b.cur = a.cur) (h : a.CurInv) : b.CurInv :=
  ⟨by rw [hv, hi, hcur]; exact h.valid, by rw [hv, hcur]; exact h.idx, by rw [hv, hi, hc, hcur]; exact h.single⟩

theorem curPost_wrap {r : Res It} (h : CurPost r) : CurPost (clearRem r) := by
  cases r with
  | ok a => exact curInv_congr (a := a) rfl rfl rfl rfl h
  | throw e => trivial
  | oob w => trivial

/-- an element other than a single character, set for word `i < argc` -/
theorem curInv_other {it : It} {i : Nat} (hi : it.cur.argIndex = (i : Int)) (hlt : i < it.argv.length)
    (hty : it.cur.ty ≠ .singleCharArg) (hv : it.cur.ty ≠ .invalid) : it.CurInv :=
  ⟨fun _ => hv, fun _ => ⟨i, hi, hlt⟩, fun h => absurd h hty⟩

theorem curInv_end {argv : List Word} {e : It} (he : It.mkEnd argv = .ok e) : e.CurInv := by
  unfold It.mkEnd at he
  split at he
  · cases he
  · cases hw : getWord argv (argv.length - 1) with
    | ok w =>
      rw [hw] at he; simp only [Res.bind_ok, Res.pure_eq] at he; cases he
      exact ⟨fun h => (by simp at h; omega), fun h => absurd rfl h, fun h => (by cases h)⟩
    | throw x => rw [hw] at he; cases he
    | oob x => rw [hw] at he; cases he

theorem curPost_mkEnd (argv : List Word) : CurPost (It.mkEnd argv) := by
  cases h : It.mkEnd argv with
  | ok e => exact curInv_end h
  | throw e => trivial
  | oob w => trivial

/-- `operator++` at a word boundary with dashed values accepted (the continuation of `--`) -/
theorem next_boundary_cur (it : It) (fuel : Nat) (hc : it.charPos = 0) (hn : it.nextIsValue = false)
    (hd : it.acceptDashed = true) : CurPost (it.next (fuel + 1)) := by
  unfold It.next
  simp only [hn, hc, Bool.false_or, Nat.lt_irrefl, decide_false, Bool.and_false, Bool.false_eq_true, if_false]
  apply curPost_wrap
  by_cases hend : it.argIndex ≥ it.argc
  · rw [if_pos hend]; exact curPost_mkEnd _
  · rw [if_neg hend]
    have hlt : it.argIndex < it.argv.length := by unfold It.argc at hend; omega
    rw [getWord_ok hlt]
    simp only [Res.bind_ok, beq_self_eq_true, if_true]
    obtain ⟨c0, hc0⟩ := getChar_ok (j := 0) hlt (by omega)
    rw [hc0]
    simp only [Res.bind_ok, hd, Bool.or_true, if_true]
    split
    · exact curInv_other (i := it.argIndex) rfl hlt (by simp [Elem.setControl]) (by simp [Elem.setControl])
    · exact curInv_other (i := it.argIndex) rfl hlt (by simp [Elem.setValue]) (by simp [Elem.setValue])

/-- `determineNextArg()` from a position inside a word -/
theorem determineNextArg_cur (it : It) (fuel : Nat) (hlt : it.argIndex < it.argv.length)
    (hpos : 0 < it.charPos) (hin : it.charPos < it.argv[it.argIndex].length)
    (hcl : it.curLen = it.argv[it.argIndex].length) (hn : it.nextIsValue = false) :
    CurPost (it.determineNextArg (fuel + 2)) := by
  unfold It.determineNextArg
  obtain ⟨c, hc⟩ := getChar_ok (j := it.charPos) hlt (by omega)
  rw [hc]
  simp only [Res.bind_ok]
  have hw : it.argv[it.argIndex]? = some it.argv[it.argIndex] := by simp [hlt]
  by_cases hdash : (c == '-') = true
  · rw [if_pos hdash]
    by_cases hlast : (it.charPos + 1 == it.curLen) = true
    · rw [if_pos hlast]
      exact next_boundary_cur _ fuel rfl hn rfl
    · rw [if_neg hlast]
      rw [getSuffix_ok hlt (by omega)]
      simp only [Res.bind_ok]
      cases findEq (List.drop (it.charPos + 1) it.argv[it.argIndex]) with
      | none => exact curInv_other (i := it.argIndex) rfl hlt (by simp [Elem.setArgString]) (by simp [Elem.setArgString])
      | some e => exact curInv_other (i := it.argIndex) rfl hlt (by simp [Elem.setArgString]) (by simp [Elem.setArgString])
  · rw [if_neg hdash]
    by_cases hone : (it.curLen == it.charPos + 1) = true
    · rw [if_pos hone]
      have h1 : it.charPos + 1 = it.argv[it.argIndex].length := by
        have : it.curLen = it.charPos + 1 := by simpa using hone
        omega
      refine ⟨fun _ => by simp [Elem.setArgChar], fun _ => ⟨it.argIndex, rfl, hlt⟩, fun _ => ?_⟩
      exact ⟨it.argIndex, it.charPos, _, rfl, rfl, hw, hpos, hin, by rw [if_pos h1]⟩
    · rw [if_neg hone]
      have h1 : ¬ it.charPos + 1 = it.argv[it.argIndex].length := by
        have : it.curLen ≠ it.charPos + 1 := by simpa using hone
        omega
      refine ⟨fun _ => by simp [Elem.setArgChar], fun _ => ⟨it.argIndex, rfl, hlt⟩, fun _ => ?_⟩
      exact ⟨it.argIndex, it.charPos, _, rfl, rfl, hw, hpos, hin, by rw [if_neg h1]; exact ⟨rfl, rfl⟩⟩

/-- every `operator++` from a valid cursor re-establishes the invariant of the current element -/
theorem next_cur (it : It) (fuel : Nat) (hI : it.Inv) : CurPost (it.next (fuel + 3)) := by
  unfold It.next
  dsimp only
  apply curPost_wrap
  by_cases hend : it.argIndex ≥ it.argc
  · rw [if_pos hend]; exact curPost_mkEnd _
  · rw [if_neg hend]
    have hlt : it.argIndex < it.argv.length := by unfold It.argc at hend; omega
    have hw : it.argv[it.argIndex]? = some it.argv[it.argIndex] := by simp [hlt]
    have hple := hI.pos_le _ hw
    by_cases hval : (it.nextIsValue || (it.remAsValue && decide (it.charPos > 0))) = true
    · rw [if_pos hval]
      rw [getSuffix_ok hlt hple]
      simp only [Res.bind_ok, Res.pure_eq]
      exact curInv_other (i := it.argIndex) rfl hlt (by simp [Elem.setValue]) (by simp [Elem.setValue])
    · rw [if_neg hval]
      have hn : it.nextIsValue = false := by
        cases h : it.nextIsValue with
        | false => rfl
        | true => simp [h] at hval
      rw [getWord_ok hlt]
      simp only [Res.bind_ok]
      by_cases hc0 : (it.charPos == 0) = true
      · rw [if_pos hc0]
        obtain ⟨c0, hg⟩ := getChar_ok (j := 0) hlt (by omega)
        rw [hg]
        simp only [Res.bind_ok]
        by_cases hctrl : (it.argv[it.argIndex].length == 1 && isCtrlChar c0) = true
        · rw [if_pos hctrl]
          exact curInv_other (i := it.argIndex) rfl hlt (by simp [Elem.setControl]) (by simp [Elem.setControl])
        · rw [if_neg hctrl]
          by_cases hv : (c0 != '-' || it.acceptDashed) = true
          · rw [if_pos hv]
            exact curInv_other (i := it.argIndex) rfl hlt (by simp [Elem.setValue]) (by simp [Elem.setValue])
          · rw [if_neg hv]
            by_cases h1 : (it.argv[it.argIndex].length == 1) = true
            · rw [if_pos h1]; trivial
            · rw [if_neg h1]
              have hdash : c0 = '-' := by
                cases hcd : (c0 != '-') with
                | true => simp [hcd] at hv
                | false => simpa using hcd
              have hlen0 := getChar_dash hg hdash hlt
              have hlen1 : it.argv[it.argIndex].length ≠ 1 := by simpa using h1
              exact determineNextArg_cur { it with curLen := it.argv[it.argIndex].length, charPos := 1 } fuel hlt
                (by show 0 < 1; omega) (by show 1 < it.argv[it.argIndex].length; omega) rfl hn
      · rw [if_neg hc0]
        have hc : 0 < it.charPos := by
          have : it.charPos ≠ 0 := by simpa using hc0
          omega
        have hin := hI.inword _ hw hc hn
        exact determineNextArg_cur { it with curLen := it.argv[it.argIndex].length } fuel hlt hc hin rfl hn

/-- the same on the copy the handler flags with "the rest of the word is the value" -/
theorem step_flag_cur (it : It) (flag : Bool) (hI : it.Inv) :
    CurPost (({ it with remAsValue := flag } : It).step) :=
  next_cur _ 1 (Inv_congr (a := it) rfl rfl rfl rfl hI)

/-- `begin()` establishes it -/
theorem begin_cur (argv : List Word) : CurPost (It.begin argv) := by
  unfold It.begin
  split
  · exact curPost_mkEnd _
  · rename_i hlen
    have hlt : 1 < argv.length := by omega
    rw [getWord_ok hlt]
    simp only [Res.bind_ok]
    obtain ⟨c0, hg⟩ := getChar_ok (j := 0) hlt (by omega)
    rw [hg]
    simp only [Res.bind_ok]
    by_cases hd : (c0 == '-') = true
    · rw [if_pos hd]
      by_cases h1 : (argv[1].length == 1) = true
      · rw [if_pos h1]; trivial
      · rw [if_neg h1]
        have hdash : c0 = '-' := by simpa using hd
        have hlen0 := getChar_dash hg hdash hlt
        have hlen1 : argv[1].length ≠ 1 := by simpa using h1
        exact determineNextArg_cur { argv := argv, argIndex := 1, charPos := 1, cur := {}, curLen := argv[1].length } 2
          hlt (by show 0 < 1; omega) (by show 1 < argv[1].length; omega) rfl rfl
    · rw [if_neg hd]
      exact curInv_other (i := 1) rfl hlt (by simp [Elem.setValue]) (by simp [Elem.setValue])

/-! ### the reads of `isSingleArg()` and `argsAsString()` -/

/-- what `isSingleArg()` reads: `argv[i][2]` for a single-character element at position 1 of word
    `i`, which has at least two characters (so index 2 is at most the terminating NUL) -/
theorem isSingleArg_eq (it : It) (hC : it.CurInv)
    (h : (it.cur.ty == .singleCharArg && it.cur.charPos == 1) = true) :
    ∃ (i : Nat) (w : Word), it.cur.argIndex = (i : Int) ∧ it.argv[i]? = some w ∧ 2 ≤ w.length ∧
      (if 2 = w.length then it.argIndex = i + 1 else it.argIndex = i) ∧
      it.isSingleArg = .ok ((if 2 < w.length then w.getD 2 '\x00' else '\x00') == '\x00') := by
  have hty : it.cur.ty = .singleCharArg := by
    simp only [Bool.and_eq_true, beq_iff_eq] at h; exact h.1
  have hp1 : it.cur.charPos = 1 := by
    simp only [Bool.and_eq_true, beq_iff_eq] at h; exact h.2
  obtain ⟨i, p, w, hi, hp, hw, h1, h2, h3⟩ := hC.single hty
  have hp' : p = 1 := by rw [hp] at hp1; exact_mod_cast hp1
  subst hp'
  have hlt : i < it.argv.length := (List.getElem?_eq_some_iff.mp hw).1
  have hwi : it.argv[i] = w := by
    have := List.getElem?_eq_getElem hlt; rw [this] at hw; exact Option.some.inj hw
  refine ⟨i, w, hi, hw, by omega, ?_, ?_⟩
  · by_cases h2' : 2 = w.length
    · rw [if_pos h2']; rw [if_pos (by omega)] at h3; exact h3
    · rw [if_neg h2']; rw [if_neg (by omega)] at h3; exact h3.1
  · unfold It.isSingleArg
    simp only [h, if_true]
    rw [hi]
    simp only [Int.toNat_natCast]
    unfold getChar
    rw [getWord_ok hlt, hwi]
    simp only [Res.bind_ok]
    by_cases h2' : 2 < w.length
    · rw [if_pos h2', if_pos h2']; rfl
    · have : 2 = w.length := by omega
      rw [if_neg h2', if_pos this, if_neg h2']; rfl

/-- **`isSingleArg()` never reads outside a word** -/
theorem isSingleArg_safe (it : It) (hC : it.CurInv) : ∃ b, it.isSingleArg = .ok b := by
  by_cases h : (it.cur.ty == .singleCharArg && it.cur.charPos == 1) = true
  · obtain ⟨_, _, _, _, _, _, e⟩ := isSingleArg_eq it hC h
    exact ⟨_, e⟩
  · have : (it.cur.ty == .singleCharArg && it.cur.charPos == 1) = false := by simpa using h
    unfold It.isSingleArg
    simp only [this, Bool.false_eq_true, if_false]
    exact ⟨false, rfl⟩

/-- for words without NUL characters (every C string): `isSingleArg()` says "the element is the
    single character of a two-character word `-c`", and then the cursor stands at the next word -/
theorem isSingleArg_true (it : It) (hC : it.CurInv) (hnul : ∀ w ∈ it.argv, '\x00' ∉ w)
    (e : it.isSingleArg = .ok true) :
    ∃ (i : Nat) (w : Word), it.cur.argIndex = (i : Int) ∧ it.argv[i]? = some w ∧ w.length = 2 ∧
      it.argIndex = i + 1 := by
  by_cases h : (it.cur.ty == .singleCharArg && it.cur.charPos == 1) = true
  · obtain ⟨i, w, hi, hw, h2, h3, e'⟩ := isSingleArg_eq it hC h
    rw [e'] at e
    by_cases h2' : 2 < w.length
    · exfalso
      rw [if_pos h2'] at e
      have hm : w.getD 2 '\x00' ∈ w := by
        rw [List.getD_eq_getElem?_getD, List.getElem?_eq_getElem h2']
        exact List.getElem_mem h2'
      have hne := hnul w (List.mem_of_getElem? hw)
      have : w.getD 2 '\x00' = '\x00' := by simpa using e
      rw [this] at hm
      exact hne hm
    · have : 2 = w.length := by omega
      rw [if_pos this] at h3
      exact ⟨i, w, hi, hw, this.symm, h3⟩
  · have : (it.cur.ty == .singleCharArg && it.cur.charPos == 1) = false := by simpa using h
    unfold It.isSingleArg at e
    simp only [this, Bool.false_eq_true, if_false, Res.pure_eq] at e
    cases e

/-- **`argsAsString( true)`** (called for a positional value with value mode `command`): on a
    cursor before the end it reads `argv[i]`, …, `argv[argc-1]` for the element's own `i < argc` —
    never outside argv; the element's index is not negative, so `Int.toNat` is exact -/
theorem argsAsString_self_safe (it : It) (hC : it.CurInv) (hne : it.cur.ty ≠ .invalid) :
    ∃ (i : Nat) (w : Word), it.cur.argIndex = (i : Int) ∧ it.argv[i]? = some w ∧
      it.argsAsString true = .ok (w ++ ((it.argv.drop (i + 1)).map (fun w => ' ' :: w)).flatten) := by
  obtain ⟨i, hi, hlt⟩ := hC.idx hne
  refine ⟨i, it.argv[i], hi, by simp [hlt], ?_⟩
  unfold It.argsAsString
  simp only [Bool.not_true, Bool.false_eq_true, if_false, if_true, Res.bind_ok, Res.pure_eq]
  rw [hi]
  simp only [Int.toNat_natCast]
  have : ¬ i ≥ it.argc := by unfold It.argc; omega
  rw [if_neg this, getWord_ok hlt]
  rfl

/-- **`argsAsString( false)`** (called for a key with value mode `command`) never reads outside
    argv: it throws unless the element is a `-c` word; otherwise it returns the words that follow —
    nothing when `-c` is the last word (`argv[argc]`, the terminating null pointer, is not used) -/
theorem argsAsString_rest_safe (it : It) (hC : it.CurInv) :
    it.argsAsString false = .throw .runtime_error ∨ ∃ s, it.argsAsString false = .ok s := by
  obtain ⟨b, hb⟩ := isSingleArg_safe it hC
  cases b with
  | false =>
    left
    unfold It.argsAsString
    simp only [Bool.not_false, if_true, hb, Res.bind_ok]
    rfl
  | true =>
    right
    unfold It.argsAsString
    simp only [Bool.not_false, if_true, hb, Res.bind_ok, Bool.not_true, Bool.false_eq_true, if_false, Res.pure_eq]
    by_cases hn : it.argIndex ≥ it.argc
    · rw [if_pos hn]; exact ⟨_, rfl⟩
    · rw [if_neg hn]
      have : it.argIndex < it.argv.length := by unfold It.argc at hn; omega
      rw [getWord_ok this]
      exact ⟨_, rfl⟩

/-- what the pinned `argsAsString( false)` did: for a `-c` element that is the LAST word it indexed `argv[argc]` — the slot of the terminating null
    pointer — and built a `std::string` from it; the model answers `oob` -/
theorem argsAsStringHead_last (it : It) (hb : it.isSingleArg = .ok true) (hlast : it.argIndex = it.argv.length) :
    ∃ s, it.argsAsStringHead false = .oob s := by
  unfold It.argsAsStringHead
  simp only [Bool.not_false, if_true, hb, Res.bind_ok, Bool.not_true, Bool.false_eq_true, if_false, Res.pure_eq]
  unfold getWord
  have : it.argv[it.argIndex]? = none := by rw [hlast]; simp
  rw [this]
  exact ⟨_, rfl⟩

end CelmaVerif.ProgArgs
