import CelmaVerif.Lemmas.GroupsLoop
/-
  From views to the model's `groupsEval`: the members `memberCfg` builds are the views of the merged
  configuration, a well-formed distribution (`GroupWellFormed`) is a well-formed partition, and
  `groupDests` reads back the argument states of the merged handler.
-/
namespace CelmaVerif.ProgArgs
open CelmaVerif CelmaVerif.Keys

/-- the view of member `m` -/
def memberView (am gm : List Nat) (m : Nat) : View := ⟨memberArgIdx am m, memberArgIdx gm m⟩

def groupViews (am gm order : List Nat) : List View := order.map (memberView am gm)

theorem memberCfg_eq_view (cfg : Cfg) (am gm : List Nat) (m : Nat) :
    memberCfg cfg am gm m = viewCfg cfg (memberView am gm m) := rfl

theorem memberInits_eq_pick (inits : List DVal) (am : List Nat) (m : Nat) :
    memberInits inits am m = pick (memberArgIdx am m) inits := rfl

theorem mem_memberArgIdx {am : List Nat} {m a : Nat} : a ∈ memberArgIdx am m ↔ a < am.length ∧ am.getD a 0 = m := by
  unfold memberArgIdx
  simp [List.mem_filter, List.mem_range]

theorem memberArgIdx_nodup (am : List Nat) (m : Nat) : (memberArgIdx am m).Nodup := by
  unfold memberArgIdx
  exact List.Pairwise.filter _ List.nodup_range

/-- The distribution of a configuration over the members of a group is well formed:
    `argMember[a]` / `globMember[g]` name the member that owns argument `a` / handler constraint `g`. -/
structure GroupWellFormed (cfg : Cfg) (argMember globMember order : List Nat) : Prop where
  /-- abbreviations are off (known finding `group-abbreviation-shadows-exact`) -/
  abbr : cfg.abbr = false
  /-- the keys of all arguments, of whatever member, do not clash pairwise (inside a member by
      `addArgument`, across members by the cross check) -/
  disj : Disjoint cfg.table
  /-- there is no positional argument (the fragment defines none) -/
  nopos : ∀ d ∈ cfg.args, d.key.eq Key.pos = false
  alen : argMember.length = cfg.args.length
  glen : globMember.length = cfg.globals.length
  /-- every member is registered once, and every owner is a registered member -/
  order_nodup : order.Nodup
  amem : ∀ m ∈ argMember, m ∈ order
  gmem : ∀ m ∈ globMember, m ∈ order
  /-- constraint partners live in one member: a key mentioned in a `requires` / `excludes`
      constraint of an argument equals neither the key of an argument of another member nor a key
      mentioned in a constraint of an argument of another member -/
  partners : ∀ a b da db, cfg.args[a]? = some da → cfg.args[b]? = some db → argMember.getD a 0 ≠ argMember.getD b 0 →
      ∀ c ∈ da.constraints, ∀ k ∈ c.2,
        db.key.eq k = false ∧ ∀ c' ∈ db.constraints, ∀ k' ∈ c'.2, k.eq k' = false
  /-- the arguments of a handler constraint live in the member that owns the constraint -/
  gpartners : ∀ g b gd db, cfg.globals[g]? = some gd → cfg.args[b]? = some db →
      globMember.getD g 0 ≠ argMember.getD b 0 → isConstraintArgument gd.keys db.key = false
  /-- the argument lists of the value constraints differ / disjoint are as `validValueArguments`
      leaves them, over a type the constraint can compare (`Cfg.ValueArgsOk`, as in `Cfg.WellFormed`) -/
  vargs : cfg.ValueArgsOk

theorem getD_mem {l : List Nat} {a : Nat} (h : a < l.length) : l.getD a 0 ∈ l := by
  rw [List.getD_eq_getElem?_getD, List.getElem?_eq_getElem h]
  exact List.getElem_mem h

theorem GroupWellFormed.toWF {cfg : Cfg} {am gm order : List Nat} (w : GroupWellFormed cfg am gm order) :
    GroupWF cfg (groupViews am gm order) := by
  have hview : ∀ v ∈ groupViews am gm order, ∃ m ∈ order, v = memberView am gm m := by
    intro v hv
    obtain ⟨m, hm, rfl⟩ := List.mem_map.mp hv
    exact ⟨m, hm, rfl⟩
  refine ⟨w.abbr, w.disj, w.nopos, ?_, ?_, ?_, ?_, ?_, ?_, ?_, ?_, ?_, w.vargs⟩
  · intro v hv
    obtain ⟨m, _, rfl⟩ := hview v hv
    exact memberArgIdx_nodup am m
  · intro v hv a ha
    obtain ⟨m, _, rfl⟩ := hview v hv
    rw [← w.alen]; exact (mem_memberArgIdx.mp ha).1
  · intro v hv g hg
    obtain ⟨m, _, rfl⟩ := hview v hv
    rw [← w.glen]; exact (mem_memberArgIdx.mp hg).1
  · intro a ha
    rw [← w.alen] at ha
    exact ⟨memberView am gm (am.getD a 0), List.mem_map.mpr ⟨_, w.amem _ (getD_mem ha), rfl⟩,
      mem_memberArgIdx.mpr ⟨ha, rfl⟩⟩
  · intro g hg
    rw [← w.glen] at hg
    exact ⟨memberView am gm (gm.getD g 0), List.mem_map.mpr ⟨_, w.gmem _ (getD_mem hg), rfl⟩,
      mem_memberArgIdx.mpr ⟨hg, rfl⟩⟩
  · unfold groupViews
    rw [List.pairwise_map]
    refine List.Pairwise.imp ?_ w.order_nodup
    intro m m' hne a ha ha'
    exact hne ((mem_memberArgIdx.mp ha).2.symm.trans (mem_memberArgIdx.mp ha').2)
  · intro v hv a ha b hb da db hda hdb c hc k hk
    obtain ⟨m, _, rfl⟩ := hview v hv
    have hblt : b < am.length := by rw [w.alen]; exact (List.getElem?_eq_some_iff.mp hdb).1
    have hne : am.getD a 0 ≠ am.getD b 0 := by
      intro e
      exact hb (mem_memberArgIdx.mpr ⟨hblt, e ▸ (mem_memberArgIdx.mp ha).2⟩)
    exact (w.partners a b da db hda hdb hne c hc k hk).1
  · intro v hv a ha b hb da db hda hdb c hc k hk c' hc' k' hk'
    obtain ⟨m, _, rfl⟩ := hview v hv
    have hblt : b < am.length := by rw [w.alen]; exact (List.getElem?_eq_some_iff.mp hdb).1
    have hne : am.getD a 0 ≠ am.getD b 0 := by
      intro e
      exact hb (mem_memberArgIdx.mpr ⟨hblt, e ▸ (mem_memberArgIdx.mp ha).2⟩)
    exact (w.partners a b da db hda hdb hne c hc k hk).2 c' hc' k' hk'
  · intro v hv g hg b hb gd db hgd hdb
    obtain ⟨m, _, rfl⟩ := hview v hv
    have hblt : b < am.length := by rw [w.alen]; exact (List.getElem?_eq_some_iff.mp hdb).1
    have hne : gm.getD g 0 ≠ am.getD b 0 := by
      intro e
      exact hb (mem_memberArgIdx.mpr ⟨hblt, e ▸ (mem_memberArgIdx.mp hg).2⟩)
    exact w.gpartners g b gd db hgd hdb hne

/-! ### the initial states -/

theorem pick_zip {α β : Type} (ia : List Nat) (as : List α) (bs : List β)
    (ha : ∀ a ∈ ia, a < as.length) (hb : ∀ a ∈ ia, a < bs.length) :
    pick ia (as.zip bs) = (pick ia as).zip (pick ia bs) := by
  induction ia with
  | nil => rfl
  | cons a ia ih =>
    have h1 := ha a (List.mem_cons_self ..)
    have h2 := hb a (List.mem_cons_self ..)
    have h3 : a < (as.zip bs).length := by rw [List.length_zip]; omega
    rw [pick_cons_lt a ia _ h3, pick_cons_lt a ia as h1, pick_cons_lt a ia bs h2,
      ih (fun x hx => ha x (List.mem_cons_of_mem _ hx)) (fun x hx => hb x (List.mem_cons_of_mem _ hx))]
    simp

theorem hinv_init (cfg : Cfg) (vs : List View) (inits : List DVal) (hlen : inits.length = cfg.args.length) :
    HInv cfg vs (cfg.initState inits) := by
  refine ⟨?_, ?_, rfl, rfl, ?_, ?_⟩
  · simp [Cfg.initState, hlen]
  · simp [Cfg.initState]
  · intro e he; cases he
  · intro i hi; cases hi

theorem memrel_init (cfg : Cfg) (v : View) (inits : List DVal) (hlen : inits.length = cfg.args.length)
    (hb : ∀ a ∈ v.ia, a < cfg.args.length) :
    MemRel cfg v (cfg.initState inits) ((viewCfg cfg v).initState (pick v.ia inits)) := by
  refine ⟨?_, ?_, rfl, rfl, rfl, rfl⟩
  · show ((pick v.ia cfg.args).zip (pick v.ia inits)).map _ = pick v.ia ((cfg.args.zip inits).map _)
    rw [pick_map, pick_zip v.ia cfg.args inits hb (fun a ha => hlen ▸ hb a ha)]
  · show (pick v.ig cfg.globals).map _ = pick v.ig (cfg.globals.map _)
    rw [pick_map]

theorem grel_init (cfg : Cfg) (am gm : List Nat) (inits : List DVal) (hlen : inits.length = cfg.args.length) :
    ∀ (order : List Nat), (∀ m ∈ order, ∀ a ∈ memberArgIdx am m, a < cfg.args.length) →
    GRel cfg (cfg.initState inits) (groupViews am gm order)
      (order.map (fun m => (memberCfg cfg am gm m, (memberCfg cfg am gm m).initState (memberInits inits am m)))) := by
  intro order
  induction order with
  | nil => intro _; trivial
  | cons m order ih =>
    intro hb
    exact ⟨rfl, memrel_init cfg (memberView am gm m) inits hlen (hb m (List.mem_cons_self ..)),
      ih (fun m' hm' => hb m' (List.mem_cons_of_mem _ hm'))⟩

/-! ### reading the destinations back -/

theorem GRel_at {cfg : Cfg} {H : HState} : ∀ {vs : List View} {ms : List (Cfg × HState)}, GRel cfg H vs ms →
    ∀ (p : Nat) (v : View), vs[p]? = some v → ∃ h, ms[p]? = some (viewCfg cfg v, h) ∧ MemRel cfg v H h := by
  intro vs
  induction vs with
  | nil => intro ms _ p v hp; simp at hp
  | cons v0 vs ih =>
    intro ms h p v hp
    cases ms with
    | nil => exact h.elim
    | cons m ms =>
      obtain ⟨c, hm⟩ := m
      obtain ⟨h1, h2, h3⟩ := h
      cases p with
      | zero =>
        simp only [List.getElem?_cons_zero, Option.some.injEq] at hp
        subst hp
        simp only at h1
        subst h1
        exact ⟨hm, rfl, h2⟩
      | succ p =>
        simp only [List.getElem?_cons_succ] at hp ⊢
        exact ih h3 p v hp

theorem filterMap_congr' {α β : Type} {f g : α → Option β} : ∀ (l : List α), (∀ a ∈ l, f a = g a) →
    l.filterMap f = l.filterMap g := by
  intro l
  induction l with
  | nil => intro _; rfl
  | cons a l ih =>
    intro h
    rw [List.filterMap_cons, List.filterMap_cons, h a (List.mem_cons_self ..),
      ih (fun x hx => h x (List.mem_cons_of_mem _ hx))]

theorem idxOf?_getElem?_gen {l : List Nat} {i loc : Nat} (h : l.idxOf? i = some loc) : l[loc]? = some i :=
  idxOf?_getElem? h

/-- `groupDests` reads, in the order of the merged configuration, the argument states of the merged
    handler -/
theorem groupDests_eq {cfg : Cfg} {am gm order : List Nat} (w : GroupWellFormed cfg am gm order) {H : HState}
    (hinv : HInv cfg (groupViews am gm order) H) {ms : List (Cfg × HState)}
    (hrel : GRel cfg H (groupViews am gm order) ms) :
    groupDests cfg am order ms = cfg.args.zip H.args := by
  have hz : cfg.args.zip H.args = (cfg.args.zip H.args).take cfg.args.length := by
    rw [List.take_of_length_le]; rw [List.length_zip, hinv.alen]; omega
  rw [hz, ← filterMap_range_getElem?]
  unfold groupDests
  apply filterMap_congr'
  intro a ha
  have halt : a < cfg.args.length := List.mem_range.mp ha
  have halt' : a < am.length := by rw [w.alen]; exact halt
  have hHlt : a < H.args.length := by rw [hinv.alen]; exact halt
  have hmo : am.getD a 0 ∈ order := w.amem _ (getD_mem halt')
  obtain ⟨pos, hpos⟩ : ∃ pos, order.idxOf? (am.getD a 0) = some pos := idxOf?_of_mem hmo
  have hvp : (groupViews am gm order)[pos]? = some (memberView am gm (am.getD a 0)) := by
    unfold groupViews
    rw [List.getElem?_map, idxOf?_getElem? hpos]
    rfl
  obtain ⟨h, hms, hmr⟩ := GRel_at hrel pos _ hvp
  have hain : a ∈ memberArgIdx am (am.getD a 0) := mem_memberArgIdx.mpr ⟨halt', rfl⟩
  obtain ⟨loc, hloc⟩ := idxOf?_of_mem hain
  have hb : ∀ x ∈ memberArgIdx am (am.getD a 0), x < H.args.length := by
    intro x hx
    rw [hinv.alen, ← w.alen]
    exact (mem_memberArgIdx.mp hx).1
  have hs : h.args[loc]? = H.args[a]? := by
    rw [hmr.args]
    exact pick_at hb hloc
  simp only [hpos, hms, hloc, Option.getD_some, hs]
  have hzip : (cfg.args.zip H.args)[a]? = some (cfg.args[a], H.args[a]) :=
    List.getElem?_zip_eq_some.mpr ⟨List.getElem?_eq_getElem halt, List.getElem?_eq_getElem hHlt⟩
  rw [hzip]
  simp [halt, hHlt]

/-! ### the theorem -/

theorem evalArguments_nosrc (cfg : Cfg) (H0 : HState) (argv : List Word) :
    evalArguments cfg H0 {} argv = (iterateArguments cfg H0 argv >>= endChecks cfg) := by
  unfold evalArguments evalFileSource evalEnvSource
  rfl

theorem groupsEval_eq (cfg : Cfg) (inits : List DVal) (am gm order : List Nat) (argv : List Word) (hne : order ≠ []) :
    groupsEval cfg inits am gm order argv =
      (It.begin argv >>= fun ai =>
        groupsLoop (totalChars argv)
          (order.map (fun m => (memberCfg cfg am gm m, (memberCfg cfg am gm m).initState (memberInits inits am m)))) ai
        >>= fun ms' => groupsEndChecks ms' >>= fun _ => pure ms') := by
  unfold groupsEval
  have : order.isEmpty = false := by cases order with | nil => exact absurd rfl hne | cons _ _ => rfl
  rw [this, throwIf_false]
  rfl

/-- `Groups::evalArguments` over a well-formed distribution simulates `Handler::evalArguments` of
    the merged configuration -/
theorem group_sim (cfg : Cfg) (inits : List DVal) (am gm order : List Nat) (argv : List Word)
    (w : GroupWellFormed cfg am gm order) (hne : order ≠ []) (hlen : inits.length = cfg.args.length)
    (ha : ArgvPlain argv) :
    EvalRel cfg (groupViews am gm order) (evalArguments cfg (cfg.initState inits) {} argv)
      (groupsEval cfg inits am gm order argv) := by
  rw [evalArguments_nosrc, groupsEval_eq cfg inits am gm order argv hne]
  have wf := w.toWF
  apply eval_sim wf (by unfold groupViews; simpa using hne) _ _ (hinv_init cfg _ inits hlen) _ argv ha
  apply grel_init cfg am gm inits hlen order
  intro m _ a ha
  rw [← w.alen]
  exact (mem_memberArgIdx.mp ha).1

/-- … hence the two agree: same acceptance, same destinations -/
theorem group_agrees (cfg : Cfg) (inits : List DVal) (am gm order : List Nat) (argv : List Word)
    (w : GroupWellFormed cfg am gm order) (hne : order ≠ []) (hlen : inits.length = cfg.args.length)
    (ha : ArgvPlain argv) :
    GroupAgrees (evalArguments cfg (cfg.initState inits) {} argv)
      (groupDests cfg am order <$> groupsEval cfg inits am gm order argv) := by
  have h := group_sim cfg inits am gm order argv w hne hlen ha
  cases hs : evalArguments cfg (cfg.initState inits) {} argv with
  | ok H' =>
    rw [hs] at h
    obtain ⟨ms', H, hg, hH, hinv, hrel⟩ := h
    rw [hg]
    show (groupDests cfg am order ms').map (·.2) = H'.args
    rw [groupDests_eq w hinv hrel, hH]
    apply List.map_snd_zip
    rw [hinv.alen]
    exact Nat.le_refl _
  | throw e =>
    rw [hs] at h
    obtain ⟨e', hg, hee⟩ := h
    rw [hg]
    exact hee
  | oob x =>
    rw [hs] at h
    obtain ⟨w', hg⟩ := h
    rw [hg]
    trivial

end CelmaVerif.ProgArgs
