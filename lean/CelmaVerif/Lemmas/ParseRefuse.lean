import CelmaVerif.Lemmas.ParseGrammar
/-
  Consequences of the declarative grammar alone (no cursor, no handler): in every `SpellsPlus`
  derivation the reading arrives at the boundary before every word that starts with a dash (as long
  as no separator `--` was read before), so the key in that word must resolve and, if its argument
  requires a value, a value element must follow.
-/
namespace CelmaVerif.ProgArgs
open CelmaVerif CelmaVerif.Keys

/-- a word that cannot switch on "everything is a value": it does not both start and end with a dash
    (the separator is read where a dash ends a word that started with a dash: `--`, `-ab-`) -/
def NoSep (u : Word) : Prop := ¬ (u.head? = some '-' ∧ u.getLast? = some '-')

theorem nextTok_bnd_false (rem f : Bool) (ws : List Word) : nextTok rem (.bnd false f ws) = wordTok f ws := rfl
theorem nextTok_bnd_true (rem f : Bool) (ws : List Word) : nextTok rem (.bnd true f ws) = dashedTok ws := rfl
theorem nextTok_inw (rem : Bool) (c : Char) (cs : Word) (ws : List Word) :
    nextTok rem (.inw c cs ws) = if rem then .tok (.value (c :: cs)) (.bnd false false ws) else inWordTok c cs ws := rfl
theorem nextTok_eqv (rem : Bool) (v : Word) (ws : List Word) :
    nextTok rem (.eqv v ws) = .tok (.value v) (.bnd false false ws) := rfl

instance (u : Word) : Decidable (NoSep u) := by unfold NoSep; infer_instance

theorem SP_bad {cfg : Cfg} {l : Option Nat} {inv : Bool} {us : List Use} : ¬ SP cfg l inv .bad us := by
  intro h; cases h

theorem ctrlOf_long {c d : Char} {r : Word} : ctrlOf (c :: d :: r) = none := rfl

theorem ctrlOf_some_eq {u : Word} {c : Char} (h : ctrlOf u = some c) : u = [c] := by
  cases u with
  | nil => simp [ctrlOf] at h
  | cons a r =>
    cases r with
    | nil =>
      simp only [ctrlOf] at h
      split at h
      · cases h; rfl
      · cases h
    | cons b r' => simp [ctrlOf] at h

section Reach
variable {c : Char} {t : Word} {post : List Word}

/-- the position lies in front of the word `'-' :: c :: t` (followed by `post`), with only `NoSep`
    words and no separator in between -/
inductive Ahead (c : Char) (t : Word) (post : List Word) : Pos → Prop where
  | bnd (f : Bool) (pre : List Word) : (∀ u ∈ pre, NoSep u) → Ahead c t post (.bnd false f (pre ++ ('-' :: c :: t) :: post))
  | inw (a : Char) (cs : Word) (pre : List Word) : (∀ u ∈ pre, NoSep u) → (a :: cs).getLast? ≠ some '-' →
      Ahead c t post (.inw a cs (pre ++ ('-' :: c :: t) :: post))
  | eqv (v : Word) (pre : List Word) : (∀ u ∈ pre, NoSep u) → Ahead c t post (.eqv v (pre ++ ('-' :: c :: t) :: post))

/-- inside a word that does not end with a dash: the next element leaves the reading in front of the
    target word -/
theorem inWordTok_ahead (a : Char) (cs : Word) (pre : List Word) (hpre : ∀ u ∈ pre, NoSep u)
    (hl : (a :: cs).getLast? ≠ some '-') :
    ∃ t' pos', inWordTok a cs (pre ++ ('-' :: c :: t) :: post) = .tok t' pos' ∧ Ahead c t post pos' := by
  unfold inWordTok
  by_cases ha : a = '-'
  · rw [if_pos ha]
    cases cs with
    | nil => subst ha; simp at hl
    | cons b r =>
      dsimp only
      cases hd : List.dropWhile (fun x => x != '=') (b :: r) with
      | nil => exact ⟨_, _, rfl, Ahead.bnd false pre hpre⟩
      | cons e v => exact ⟨_, _, rfl, Ahead.eqv v pre hpre⟩
  · rw [if_neg ha]
    cases cs with
    | nil => exact ⟨_, _, rfl, Ahead.bnd false pre hpre⟩
    | cons b r =>
      refine ⟨_, _, rfl, Ahead.inw b r pre hpre ?_⟩
      simpa [List.getLast?_cons_cons] using hl

/-- from a position in front of the target word: either the reading stands exactly at the boundary
    before it, or the next element (whatever the "rest as value" flag) is a lone dash or leaves the
    reading in front of the target word -/
theorem ahead_next {pos : Pos} (ha : Ahead c t post pos) :
    (∃ f, pos = .bnd false f (('-' :: c :: t) :: post)) ∨
    (∀ rem, nextTok rem pos = .bad ∨ ∃ t' pos', nextTok rem pos = .tok t' pos' ∧ Ahead c t post pos') := by
  cases ha with
  | bnd f pre hpre =>
    cases pre with
    | nil => exact Or.inl ⟨f, rfl⟩
    | cons u pre' =>
      right
      intro rem
      have hu : NoSep u := hpre u (List.mem_cons_self ..)
      have hpre' : ∀ x ∈ pre', NoSep x := fun x hx => hpre x (List.mem_cons_of_mem _ hx)
      rw [nextTok_bnd_false]
      simp only [List.cons_append, wordTok]
      cases hc : (if f = true then none else ctrlOf u) with
      | some cc => exact Or.inr ⟨_, _, rfl, Ahead.bnd false pre' hpre'⟩
      | none =>
        dsimp only
        cases u with
        | nil => exact Or.inr ⟨_, _, rfl, Ahead.bnd false pre' hpre'⟩
        | cons a r =>
          by_cases had : a = '-'
          · subst had
            cases r with
            | nil => exact Or.inl rfl
            | cons b r' =>
              right
              apply inWordTok_ahead b r' pre' hpre'
              intro hl
              apply hu
              refine ⟨rfl, ?_⟩
              rw [List.getLast?_cons_cons]; exact hl
          · right
            refine ⟨.value (a :: r), .bnd false false (pre' ++ ('-' :: c :: t) :: post), ?_, Ahead.bnd false pre' hpre'⟩
            split
            · rename_i heq; cases heq; exact absurd rfl had
            · rename_i heq; cases heq; exact absurd rfl had
            · rfl
  | inw a cs pre hpre hl =>
    right
    intro rem
    rw [nextTok_inw]
    cases rem with
    | true => exact Or.inr ⟨_, _, rfl, Ahead.bnd false pre hpre⟩
    | false =>
      simp only [Bool.false_eq_true, if_false]
      exact Or.inr (inWordTok_ahead a cs pre hpre hl)
  | eqv v pre hpre =>
    right
    intro rem
    rw [nextTok_eqv]
    exact Or.inr ⟨_, _, rfl, Ahead.bnd false pre hpre⟩

/-- at the boundary before the target word the next element is read inside it -/
theorem nextTok_target (rem f : Bool) :
    nextTok rem (.bnd false f (('-' :: c :: t) :: post)) = inWordTok c t post := by
  rw [nextTok_bnd_false]
  simp only [wordTok, ctrlOf_long]
  cases f <;> rfl

/-- reading inside a dashed word never yields a value element, unless the word is `--` -/
theorem inWordTok_not_value (hsep : ¬ (c = '-' ∧ t = [])) (v : Word) (p : Pos) :
    inWordTok c t post ≠ .tok (.value v) p := by
  unfold inWordTok
  by_cases hc : c = '-'
  · rw [if_pos hc]
    cases t with
    | nil => exact absurd ⟨hc, rfl⟩ hsep
    | cons b r =>
      dsimp only
      cases List.dropWhile (fun x => x != '=') (b :: r) <;> simp
  · rw [if_neg hc]
    cases t <;> simp

/-- one step of the argument below: the rest of the derivation starts at the next element behind a
    position in front of the target word -/
theorem reach_step (cfg : Cfg) {pos : Pos} (ha : Ahead c t post pos) {l1 : Option Nat} {inv1 : Bool} {us1 : List Use}
    (sp' : SP cfg l1 inv1 (nextTok false pos) us1)
    (ih : ∀ t0 pos0, nextTok false pos = .tok t0 pos0 → Ahead c t post pos0 →
      ∃ l' inv' us', SP cfg l' inv' (inWordTok c t post) us') :
    ∃ l' inv' us', SP cfg l' inv' (inWordTok c t post) us' := by
  rcases ahead_next ha with ⟨f, rfl⟩ | hn
  · rw [nextTok_target] at sp'
    exact ⟨_, _, _, sp'⟩
  · rcases hn false with hb | ⟨t', pos', e, ha'⟩
    · rw [hb] at sp'; exact absurd sp' SP_bad
    · exact ih t' pos' e ha'

/-- **Every dashed word is reached.**  In a derivation over `pre ++ w :: post`, where `w` starts with a
    dash, has at least two characters and is not `--`, and no word of `pre` both starts and ends with
    a dash: the part of the derivation that starts inside `w` exists. -/
theorem SP_reaches (cfg : Cfg) (hsep : ¬ (c = '-' ∧ t = [])) {l : Option Nat} {inv : Bool} {res : TokRes}
    {us : List Use} (sp : SP cfg l inv res us) :
    ∀ t0 pos, res = .tok t0 pos → Ahead c t post pos →
      ∃ l' inv' us', SP cfg l' inv' (inWordTok c t post) us' := by
  induction sp with
  | done l inv => intro t0 pos heq; cases heq
  | flag _ _ _ sp' ih => intro t0 pos0 heq ha; cases heq; exact reach_step cfg ha sp' ih
  | keyAlone _ _ _ _ sp' ih => intro t0 pos0 heq ha; cases heq; exact reach_step cfg ha sp' ih
  | free _ _ sp' ih => intro t0 pos0 heq ha; cases heq; exact reach_step cfg ha sp' ih
  | positional _ _ sp' ih => intro t0 pos0 heq ha; cases heq; exact reach_step cfg ha sp' ih
  | invert sp' ih => intro t0 pos0 heq ha; cases heq; exact reach_step cfg ha sp' ih
  | keyValue _ _ _ hn sp' ih =>
    intro t0 pos0 heq ha
    cases heq
    rcases ahead_next ha with ⟨f, rfl⟩ | hn'
    · rw [nextTok_target] at hn
      exact absurd hn (inWordTok_not_value hsep _ _)
    · rcases hn' _ with hb | ⟨t', pos'', e, ha'⟩
      · rw [hb] at hn; cases hn
      · rw [e] at hn
        cases hn
        exact reach_step cfg ha' sp' ih

/-- the same from the beginning of the line -/
theorem SpellsPlus_reaches (cfg : Cfg) (hsep : ¬ (c = '-' ∧ t = [])) {us : List Use} (pre : List Word)
    (hpre : ∀ u ∈ pre, NoSep u) (sp : SpellsPlus cfg us (pre ++ ('-' :: c :: t) :: post)) :
    ∃ l' inv' us', SP cfg l' inv' (inWordTok c t post) us' := by
  unfold SpellsPlus at sp
  exact reach_step cfg (Ahead.bnd true pre hpre) sp (fun t0 pos0 e ha => SP_reaches cfg hsep (e ▸ sp) t0 pos0 rfl ha)

end Reach

/-! ### the refusal statements of the grammar -/

/-- a word `-c…` (anywhere in front of a separator) whose first key character resolves to no
    argument: no derivation -/
theorem SpellsPlus_unknown_short (cfg : Cfg) (pre post : List Word) (c : Char) (t : Word) (us : List Use)
    (hpre : ∀ u ∈ pre, NoSep u) (hc : c ≠ '-') (hunk : ∀ i d, ¬ Resolves cfg (Key.ofChar c) i d) :
    ¬ SpellsPlus cfg us (pre ++ ('-' :: c :: t) :: post) := by
  intro sp
  obtain ⟨l', inv', us', sp'⟩ := SpellsPlus_reaches cfg (fun h => hc h.1) pre hpre sp
  unfold inWordTok at sp'
  rw [if_neg hc] at sp'
  have key : ∀ p, ¬ SP cfg l' inv' (.tok (.short c) p) us' := by
    intro p h
    cases h with
    | flag hk hr _ _ => cases hk; exact hunk _ _ hr
    | keyValue hk hr _ _ _ => cases hk; exact hunk _ _ hr
    | keyAlone hk hr _ _ _ => cases hk; exact hunk _ _ hr
  cases t with
  | nil => exact key _ sp'
  | cons b r => exact key _ sp'

/-- a word `--name…` (anywhere in front of a separator) whose name (up to a `=`) is no key, or a key that
    resolves to no argument: no derivation -/
theorem SpellsPlus_unknown_long (cfg : Cfg) (pre post : List Word) (b : Char) (r : Word) (us : List Use)
    (hpre : ∀ u ∈ pre, NoSep u)
    (hunk : ∀ k i d, wordKey ((b :: r).takeWhile (· != '=')) = .ok k → ¬ Resolves cfg k i d) :
    ¬ SpellsPlus cfg us (pre ++ ('-' :: '-' :: b :: r) :: post) := by
  intro sp
  obtain ⟨l', inv', us', sp'⟩ := SpellsPlus_reaches cfg (c := '-') (t := b :: r) (by simp) pre hpre sp
  unfold inWordTok at sp'
  rw [if_pos rfl] at sp'
  dsimp only at sp'
  have key : ∀ p, ¬ SP cfg l' inv' (.tok (.long ((b :: r).takeWhile (· != '='))) p) us' := by
    intro p h
    cases h with
    | flag hk hr _ _ => exact hunk _ _ _ hk hr
    | keyValue hk hr _ _ _ => exact hunk _ _ _ hk hr
    | keyAlone hk hr _ _ _ => exact hunk _ _ _ hk hr
  cases hd : List.dropWhile (fun x => x != '=') (b :: r) with
  | nil =>
    rw [hd] at sp'
    dsimp only at sp'
    have : (b :: r).takeWhile (· != '=') = b :: r := by
      have := List.takeWhile_append_dropWhile (p := fun x => x != '=') (l := b :: r)
      rw [hd, List.append_nil] at this
      exact this
    rw [← this] at sp'
    exact key _ sp'
  | cons e v =>
    rw [hd] at sp'
    exact key _ sp'

/-- the word behind a key is no value: the line ends there, or a word follows that starts with a dash
    and is not the separator `--` -/
def NoValueWord (post : List Word) : Prop :=
  post = [] ∨ ∃ t rest, post = ('-' :: t) :: rest ∧ t ≠ ['-']

theorem wordTok_noValue {post : List Word} (h : NoValueWord post) (v : Word) (p : Pos) :
    wordTok false post ≠ .tok (.value v) p := by
  rcases h with rfl | ⟨t, rest, rfl, ht⟩
  · simp [wordTok]
  · cases t with
    | nil => simp [wordTok, ctrlOf]
    | cons c r =>
      simp only [wordTok, ctrlOf_long, Bool.false_eq_true, if_false]
      exact inWordTok_not_value (fun h => ht (by rw [h.1, h.2])) v p

/-- a word `-c` (anywhere in front of a separator) whose argument requires a value and that is the last
    word or is followed by a dashed word other than `--`: no derivation -/
theorem SpellsPlus_missing_value_short (cfg : Cfg) (pre post : List Word) (c : Char) (i : Nat) (d : ArgDef)
    (us : List Use) (hpre : ∀ u ∈ pre, NoSep u) (hc : c ≠ '-') (hr : Resolves cfg (Key.ofChar c) i d)
    (hm : d.vmode = .required) (hpost : NoValueWord post) :
    ¬ SpellsPlus cfg us (pre ++ ['-', c] :: post) := by
  intro sp
  obtain ⟨l', inv', us', sp'⟩ := SpellsPlus_reaches cfg (fun h => hc h.1) pre hpre sp
  unfold inWordTok at sp'
  rw [if_neg hc] at sp'
  dsimp only at sp'
  unfold Resolves at hr
  cases sp' with
  | flag hk hr' hm' _ =>
    cases hk; unfold Resolves at hr'; rw [hr] at hr'; cases hr'; rw [hm] at hm'; cases hm'
  | keyAlone hk hr' hm' _ _ =>
    cases hk; unfold Resolves at hr'; rw [hr] at hr'; cases hr'; rw [hm] at hm'; cases hm'
  | keyValue hk hr' _ hn _ =>
    cases hk; unfold Resolves at hr'; rw [hr] at hr'; cases hr'
    rw [nextTok_bnd_false] at hn
    exact wordTok_noValue hpost _ _ hn

theorem dropWhile_noEq {r : Word} (h : '=' ∉ r) : r.dropWhile (· != '=') = [] := by
  induction r with
  | nil => rfl
  | cons a r ih =>
    have ha : a ≠ '=' := fun e => h (e ▸ List.mem_cons_self ..)
    have hb : (a != '=') = true := by simp [ha]
    rw [List.dropWhile_cons, hb]
    simp only [if_true]
    exact ih (fun hx => h (List.mem_cons_of_mem _ hx))

/-- the same for a word `--name` (no `=` in it) -/
theorem SpellsPlus_missing_value_long (cfg : Cfg) (pre post : List Word) (b : Char) (r : Word) (k : Key) (i : Nat)
    (d : ArgDef) (us : List Use) (hpre : ∀ u ∈ pre, NoSep u) (hne : '=' ∉ b :: r)
    (hk : wordKey (b :: r) = .ok k) (hr : Resolves cfg k i d) (hm : d.vmode = .required) (hpost : NoValueWord post) :
    ¬ SpellsPlus cfg us (pre ++ ('-' :: '-' :: b :: r) :: post) := by
  intro sp
  obtain ⟨l', inv', us', sp'⟩ := SpellsPlus_reaches cfg (c := '-') (t := b :: r) (by simp) pre hpre sp
  unfold inWordTok at sp'
  rw [if_pos rfl] at sp'
  dsimp only at sp'
  have hd : List.dropWhile (fun x => x != '=') (b :: r) = [] := dropWhile_noEq hne
  rw [hd] at sp'
  dsimp only at sp'
  unfold Resolves at hr
  cases sp' with
  | flag hk' hr' hm' _ =>
    have : wordKey (b :: r) = .ok _ := hk'
    rw [hk] at this; cases this
    unfold Resolves at hr'; rw [hr] at hr'; cases hr'; rw [hm] at hm'; cases hm'
  | keyAlone hk' hr' hm' _ _ =>
    have : wordKey (b :: r) = .ok _ := hk'
    rw [hk] at this; cases this
    unfold Resolves at hr'; rw [hr] at hr'; cases hr'; rw [hm] at hm'; cases hm'
  | keyValue hk' hr' _ hn _ =>
    have : wordKey (b :: r) = .ok _ := hk'
    rw [hk] at this; cases this
    unfold Resolves at hr'; rw [hr] at hr'; cases hr'
    rw [nextTok_bnd_false] at hn
    exact wordTok_noValue hpost _ _ hn

/-! ### a declarative reason for "does not resolve" -/

theorem findExact_short_none {α : Type} (c : Char) (hc0 : c ≠ '\x00') (table : List (Key × α))
    (hno : ∀ e ∈ table, e.1.short ≠ some c) (n : Nat) : findExact (Key.ofChar c) table n = none := by
  induction table generalizing n with
  | nil => rfl
  | cons e rest ih =>
    obtain ⟨ek, a⟩ := e
    have h1 : ek.short ≠ some c := hno (ek, a) (List.mem_cons_self ..)
    have heq : ek.eq (Key.ofChar c) = false := by
      unfold Key.eq Key.ofChar mkShort
      rw [if_neg hc0]
      cases hs : ek.short with
      | none => simp
      | some x =>
        have : x ≠ c := fun e => h1 (by rw [hs, e])
        simp [this]
    simp only [findExact, heq, Bool.false_eq_true, if_false]
    exact ih (fun e he => hno e (List.mem_cons_of_mem _ he)) (n + 1)

theorem findAbbr_short {α : Type} (c : Char) (table : List (Key × α)) (n : Nat) (part : Option (Nat × α)) :
    findAbbr (Key.ofChar c) table n part = .ok part := by
  induction table generalizing n with
  | nil => rfl
  | cons e rest ih =>
    obtain ⟨ek, a⟩ := e
    have : ek.startsWith (Key.ofChar c) = false := by
      unfold Key.startsWith Key.ofChar; simp
    simp only [findAbbr, this, Bool.false_eq_true, if_false]
    exact ih (n + 1)

/-- a key character that is the short key of no defined argument resolves to nothing (with
    abbreviations on or off) -/
theorem findArg_short_unknown (cfg : Cfg) (c : Char) (hc0 : c ≠ '\x00')
    (hno : ∀ d ∈ cfg.args, d.key.short ≠ some c) : findArg cfg.abbr cfg.table (Key.ofChar c) = .ok none := by
  have hno' : ∀ e ∈ cfg.table, e.1.short ≠ some c := by
    intro e he
    unfold Cfg.table at he
    obtain ⟨d, hd, rfl⟩ := List.mem_map.mp he
    exact hno d hd
  unfold findArg
  rw [findExact_short_none c hc0 cfg.table hno' 0]
  cases cfg.abbr with
  | false => rfl
  | true => exact findAbbr_short c cfg.table 0 none

end CelmaVerif.ProgArgs
