import CelmaVerif.Lemmas.ConcurrencyHB
/-
  C20, ManagedThread: an event-level happens-before relation that is independent of the
  published-mark of `mhbStep`, and the proof that the mark is exact against it (for every
  configuration whose flag is constructed before the thread is started).

  Events (`MEv`): what a step did — creating thread (0): `begin`, `init` (construction of the flag,
  a plain write), `start` (the `std::thread` is started), `join` (join() returns); managed thread
  (1): `storeT`, `fBegin`, `inF`, `fEnd` (the user function has returned), `storeF`; observer
  `t + 2`: `load` (`isActive()`).  Edges (`MEdge`): program order; thread creation → every event of
  the new thread; every event of the managed thread → the return of `join()`; a store of the
  managed thread into the flag → a load that reads from it (no write to the flag in between),
  provided the flag is an atomic and the orders are release / acquire.  `MHB` = transitive closure.
-/
namespace CelmaVerif.Concurrency

inductive MK | begin | init | start | join | storeT | fBegin | inF | fEnd | storeF | load
  deriving DecidableEq, Repr

structure MEv where
  thread : Nat
  kind : MK
  deriving DecidableEq, Repr

/-- the event of letting thread `t` step in state `s`; `none` = nothing happens -/
def mevent (cfg : Cfg) (nobs : Nat) (s : MState) : Nat → Option MEv
  | 0 =>
    match s.ppc with
    | .begin => some ⟨0, if cfg.flagFirst then .begin else .start⟩
    | .atInit => some ⟨0, .init⟩
    | .atStart => some ⟨0, .start⟩
    | .live => if s.cpc = .done then some ⟨0, .join⟩ else none
    | .joined => none
  | 1 =>
    match s.cpc with
    | .idle => none
    | .storeT => some ⟨1, .storeT⟩
    | .fBegin => some ⟨1, .fBegin⟩
    | .inF => some ⟨1, .inF⟩
    | .fEnd => some ⟨1, .fEnd⟩
    | .storeF => some ⟨1, .storeF⟩
    | .done => none
  | t + 2 => if t < nobs ∧ s.isLive = true then some ⟨t + 2, .load⟩ else none

def mstepTrace (cfg : Cfg) (nobs : Nat) (s : MState) (tr : List MEv) (t : Nat) : List MEv :=
  match mevent cfg nobs s t with
  | some e => tr ++ [e]
  | none => tr

/-- state, marked samples and event trace along a schedule -/
def mtrunFrom (cfg : Cfg) (nobs : Nat) :
    MState → List (Sample × Bool) → List MEv → List Nat → MState × List (Sample × Bool) × List MEv
  | s, l, tr, [] => (s, l, tr)
  | s, l, tr, t :: rest =>
    mtrunFrom cfg nobs (mstep cfg nobs s t) (mhbStep cfg nobs s l t) (mstepTrace cfg nobs s tr t) rest

def mtrace (cfg : Cfg) (nobs : Nat) (sched : List Nat) : List MEv :=
  (mtrunFrom cfg nobs MState.init [] [] sched).2.2

def MK.isWrite : MK → Bool
  | .init | .storeT | .storeF => true
  | _ => false

/-- direct happens-before edges -/
inductive MEdge (cfg : Cfg) (tr : List MEv) : Nat → Nat → Prop
  | po {i j : Nat} {a b : MEv} : i < j → tr[i]? = some a → tr[j]? = some b → a.thread = b.thread → MEdge cfg tr i j
  /-- the completion of the `std::thread` constructor synchronises with the start of the thread function -/
  | create {i j : Nat} {a b : MEv} : i < j → tr[i]? = some a → tr[j]? = some b → a.kind = .start → b.thread = 1 →
      MEdge cfg tr i j
  /-- the completion of the thread synchronises with the return of `join()` -/
  | joined {i j : Nat} {a b : MEv} : i < j → tr[i]? = some a → tr[j]? = some b → a.thread = 1 → b.kind = .join →
      MEdge cfg tr i j
  /-- release store of the managed thread → acquire load that reads from it -/
  | flag {i j : Nat} {a b : MEv} : i < j → tr[i]? = some a → tr[j]? = some b →
      (a.kind = .storeT ∨ a.kind = .storeF) → b.kind = .load →
      (∀ k c, i < k → k < j → tr[k]? = some c → c.kind.isWrite = false) →
      cfg.flagAtomic = true → cfg.flagOrders = true → MEdge cfg tr i j

inductive MHB (cfg : Cfg) (tr : List MEv) : Nat → Nat → Prop
  | edge {i j : Nat} : MEdge cfg tr i j → MHB cfg tr i j
  | trans {i k j : Nat} : MHB cfg tr i k → MHB cfg tr k j → MHB cfg tr i j

/-- the end of the user function is event `i` or happens-before it -/
def MReached (cfg : Cfg) (tr : List MEv) (i : Nat) : Prop :=
  ∃ e a, tr[e]? = some a ∧ a.kind = .fEnd ∧ (e = i ∨ MHB cfg tr e i)

/-! ### list facts -/

theorem mget_snoc (tr : List MEv) (e : MEv) (i : Nat) (a : MEv) :
    (tr ++ [e])[i]? = some a ↔ (i < tr.length ∧ tr[i]? = some a) ∨ (i = tr.length ∧ a = e) := by
  by_cases h : i < tr.length
  · rw [List.getElem?_append_left h]
    constructor
    · intro h1; exact Or.inl ⟨h, h1⟩
    · rintro (⟨_, h1⟩ | ⟨h1, _⟩)
      · exact h1
      · omega
  · rw [List.getElem?_append_right (by omega)]
    by_cases h2 : i = tr.length
    · subst h2
      rw [Nat.sub_self]
      show (some e = some a) ↔ _
      constructor
      · intro h1; exact Or.inr ⟨rfl, (Option.some.inj h1).symm⟩
      · rintro (⟨h1, _⟩ | ⟨_, h1⟩)
        · omega
        · rw [h1]
    · have : i - tr.length = (i - tr.length - 1) + 1 := by omega
      rw [this]
      simp only [List.getElem?_cons_succ, List.getElem?_nil]
      constructor
      · intro h1; cases h1
      · rintro (⟨h1, _⟩ | ⟨h1, _⟩) <;> omega

theorem mget_lt {tr : List MEv} {i : Nat} {a : MEv} (h : tr[i]? = some a) : i < tr.length :=
  (List.getElem?_eq_some_iff.mp h).1

theorem mget_snoc_lt (tr : List MEv) (e : MEv) {i : Nat} (h : i < tr.length) : (tr ++ [e])[i]? = tr[i]? :=
  List.getElem?_append_left h

theorem mget_snoc_len (tr : List MEv) (e : MEv) : (tr ++ [e])[tr.length]? = some e :=
  (mget_snoc tr e tr.length e).mpr (Or.inr ⟨rfl, rfl⟩)

/-! ### order, prefix stability, last edge -/

theorem MEdge.lt {cfg : Cfg} {tr : List MEv} {i j : Nat} (h : MEdge cfg tr i j) : i < j := by
  cases h <;> assumption

theorem MEdge.bound {cfg : Cfg} {tr : List MEv} {i j : Nat} (h : MEdge cfg tr i j) : j < tr.length := by
  cases h with
  | po _ _ hb _ => exact mget_lt hb
  | create _ _ hb _ _ => exact mget_lt hb
  | joined _ _ hb _ _ => exact mget_lt hb
  | flag _ _ hb _ _ _ _ _ => exact mget_lt hb

theorem MHB.lt {cfg : Cfg} {tr : List MEv} {i j : Nat} (h : MHB cfg tr i j) : i < j := by
  induction h with
  | edge e => exact e.lt
  | trans _ _ ih1 ih2 => omega

theorem medge_snoc_iff (cfg : Cfg) (tr : List MEv) (e : MEv) (i j : Nat) (hj : j < tr.length) :
    MEdge cfg (tr ++ [e]) i j ↔ MEdge cfg tr i j := by
  constructor
  · intro h
    cases h with
    | po hij ha hb hab =>
      rw [mget_snoc_lt tr e (by omega)] at ha; rw [mget_snoc_lt tr e hj] at hb
      exact MEdge.po hij ha hb hab
    | create hij ha hb h1 h2 =>
      rw [mget_snoc_lt tr e (by omega)] at ha; rw [mget_snoc_lt tr e hj] at hb
      exact MEdge.create hij ha hb h1 h2
    | joined hij ha hb h1 h2 =>
      rw [mget_snoc_lt tr e (by omega)] at ha; rw [mget_snoc_lt tr e hj] at hb
      exact MEdge.joined hij ha hb h1 h2
    | flag hij ha hb h1 h2 hno p1 p2 =>
      rw [mget_snoc_lt tr e (by omega)] at ha; rw [mget_snoc_lt tr e hj] at hb
      refine MEdge.flag hij ha hb h1 h2 ?_ p1 p2
      intro k c hik hkj hc
      apply hno k c hik hkj
      rw [mget_snoc_lt tr e (by omega)]; exact hc
  · intro h
    cases h with
    | po hij ha hb hab =>
      rw [← mget_snoc_lt tr e (by omega)] at ha; rw [← mget_snoc_lt tr e hj] at hb
      exact MEdge.po hij ha hb hab
    | create hij ha hb h1 h2 =>
      rw [← mget_snoc_lt tr e (by omega)] at ha; rw [← mget_snoc_lt tr e hj] at hb
      exact MEdge.create hij ha hb h1 h2
    | joined hij ha hb h1 h2 =>
      rw [← mget_snoc_lt tr e (by omega)] at ha; rw [← mget_snoc_lt tr e hj] at hb
      exact MEdge.joined hij ha hb h1 h2
    | flag hij ha hb h1 h2 hno p1 p2 =>
      rw [← mget_snoc_lt tr e (by omega)] at ha; rw [← mget_snoc_lt tr e hj] at hb
      refine MEdge.flag hij ha hb h1 h2 ?_ p1 p2
      intro k c hik hkj hc
      apply hno k c hik hkj
      rw [← mget_snoc_lt tr e (by omega)]; exact hc

theorem mhb_snoc_of (cfg : Cfg) (tr : List MEv) (e : MEv) {i j : Nat} (h : MHB cfg tr i j) :
    MHB cfg (tr ++ [e]) i j := by
  induction h with
  | edge ed => exact MHB.edge ((medge_snoc_iff cfg tr e _ _ ed.bound).mpr ed)
  | trans _ _ ih1 ih2 => exact MHB.trans ih1 ih2

theorem mhb_of_snoc (cfg : Cfg) (tr : List MEv) (e : MEv) {i j : Nat} (h : MHB cfg (tr ++ [e]) i j) :
    j < tr.length → MHB cfg tr i j := by
  induction h with
  | edge ed => intro hj; exact MHB.edge ((medge_snoc_iff cfg tr e _ _ hj).mp ed)
  | trans _ h2 ih1 ih2 =>
    intro hj
    have := h2.lt
    exact MHB.trans (ih1 (by omega)) (ih2 hj)

theorem mhb_last {cfg : Cfg} {tr : List MEv} {i j : Nat} (h : MHB cfg tr i j) :
    ∃ k, MEdge cfg tr k j ∧ (i = k ∨ MHB cfg tr i k) := by
  induction h with
  | edge ed => exact ⟨_, ed, Or.inl rfl⟩
  | trans h1 _ _ ih2 =>
    obtain ⟨k, hk, hor⟩ := ih2
    refine ⟨k, hk, Or.inr ?_⟩
    rcases hor with rfl | h3
    · exact h1
    · exact MHB.trans h1 h3

theorem mreached_snoc_lt (cfg : Cfg) (tr : List MEv) (e : MEv) {i : Nat} (hi : i < tr.length) :
    MReached cfg (tr ++ [e]) i ↔ MReached cfg tr i := by
  constructor
  · rintro ⟨c, a, ha, hk, hor⟩
    have hci : c ≤ i := by
      rcases hor with rfl | h
      · exact Nat.le_refl _
      · exact Nat.le_of_lt h.lt
    rw [mget_snoc_lt tr e (by omega)] at ha
    refine ⟨c, a, ha, hk, ?_⟩
    rcases hor with h | h
    · exact Or.inl h
    · exact Or.inr (mhb_of_snoc cfg tr e h hi)
  · rintro ⟨c, a, ha, hk, hor⟩
    refine ⟨c, a, by rw [mget_snoc_lt tr e (mget_lt ha)]; exact ha, hk, ?_⟩
    rcases hor with h | h
    · exact Or.inl h
    · exact Or.inr (mhb_snoc_of cfg tr e h)

/-- what reaches the new last event: it is the end of the function itself, or a direct edge comes
from an old event that is reached -/
theorem mreached_snoc_len (cfg : Cfg) (tr : List MEv) (e : MEv) :
    MReached cfg (tr ++ [e]) tr.length ↔
      e.kind = .fEnd ∨ ∃ k, MEdge cfg (tr ++ [e]) k tr.length ∧ MReached cfg tr k := by
  constructor
  · rintro ⟨c, a, ha, hk, hor⟩
    rcases hor with rfl | h
    · rw [mget_snoc_len] at ha; cases ha; exact Or.inl hk
    · right
      obtain ⟨k, hke, hor2⟩ := mhb_last h
      have hkl := hke.lt
      have hck : c ≤ k := by
        rcases hor2 with rfl | h2
        · exact Nat.le_refl _
        · exact Nat.le_of_lt h2.lt
      rw [mget_snoc_lt tr e (by omega)] at ha
      refine ⟨k, hke, c, a, ha, hk, ?_⟩
      rcases hor2 with h2 | h2
      · exact Or.inl h2
      · exact Or.inr (mhb_of_snoc cfg tr e h2 hkl)
  · rintro (h | ⟨k, hke, c, a, ha, hk, hor⟩)
    · exact ⟨tr.length, e, mget_snoc_len tr e, h, Or.inl rfl⟩
    · refine ⟨c, a, by rw [mget_snoc_lt tr e (mget_lt ha)]; exact ha, hk, Or.inr ?_⟩
      rcases hor with rfl | h2
      · exact MHB.edge hke
      · exact MHB.trans (mhb_snoc_of cfg tr e h2) (MHB.edge hke)

/-- the direct edges into the new last event -/
theorem medge_snoc_len (cfg : Cfg) (tr : List MEv) (e : MEv) (k : Nat) :
    MEdge cfg (tr ++ [e]) k tr.length ↔
      ∃ a, tr[k]? = some a ∧
        (a.thread = e.thread ∨ (a.kind = .start ∧ e.thread = 1) ∨ (a.thread = 1 ∧ e.kind = .join) ∨
         ((a.kind = .storeT ∨ a.kind = .storeF) ∧ e.kind = .load ∧
          (∀ k' c, k < k' → tr[k']? = some c → c.kind.isWrite = false) ∧
          cfg.flagAtomic = true ∧ cfg.flagOrders = true)) := by
  constructor
  · intro h
    cases h with
    | po hij ha hb hab =>
      rw [mget_snoc_lt tr e hij] at ha; rw [mget_snoc_len] at hb; cases hb
      exact ⟨_, ha, Or.inl hab⟩
    | create hij ha hb h1 h2 =>
      rw [mget_snoc_lt tr e hij] at ha; rw [mget_snoc_len] at hb; cases hb
      exact ⟨_, ha, Or.inr (Or.inl ⟨h1, h2⟩)⟩
    | joined hij ha hb h1 h2 =>
      rw [mget_snoc_lt tr e hij] at ha; rw [mget_snoc_len] at hb; cases hb
      exact ⟨_, ha, Or.inr (Or.inr (Or.inl ⟨h1, h2⟩))⟩
    | flag hij ha hb h1 h2 hno p1 p2 =>
      rw [mget_snoc_lt tr e hij] at ha; rw [mget_snoc_len] at hb; cases hb
      refine ⟨_, ha, Or.inr (Or.inr (Or.inr ⟨h1, h2, ?_, p1, p2⟩))⟩
      intro k' c hk hc
      have hk' := mget_lt hc
      apply hno k' c hk hk'
      rw [mget_snoc_lt tr e hk']; exact hc
  · rintro ⟨a, ha, hor⟩
    have hk := mget_lt ha
    have ha' : (tr ++ [e])[k]? = some a := by rw [mget_snoc_lt tr e hk]; exact ha
    rcases hor with h | ⟨h1, h2⟩ | ⟨h1, h2⟩ | ⟨h1, h2, hno, p1, p2⟩
    · exact MEdge.po hk ha' (mget_snoc_len tr e) h
    · exact MEdge.create hk ha' (mget_snoc_len tr e) h1 h2
    · exact MEdge.joined hk ha' (mget_snoc_len tr e) h1 h2
    · refine MEdge.flag hk ha' (mget_snoc_len tr e) h1 h2 ?_ p1 p2
      intro k' c hkk hkl hc
      rw [mget_snoc_lt tr e hkl] at hc
      exact hno k' c hkk hc

/-! ### the published-mark of `mhbStep` is exact -/

def MK.ofParent : MK → Bool
  | .begin | .init | .start | .join => true
  | _ => false

def MK.ofChild : MK → Bool
  | .storeT | .fBegin | .inF | .fEnd | .storeF => true
  | _ => false

/-- which thread performs which kind of event -/
def MEv.wf (a : MEv) : Prop :=
  (a.thread = 0 ∧ a.kind.ofParent = true) ∨ (a.thread = 1 ∧ a.kind.ofChild = true) ∨ (2 ≤ a.thread ∧ a.kind = .load)

def StoreFBefore (tr : List MEv) (i : Nat) : Prop := ∃ (w : Nat) (b : MEv), w < i ∧ tr[w]? = some b ∧ b.kind = .storeF

structure MEInv (cfg : Cfg) (s : MState) (tr : List MEv) : Prop where
  shape : ∀ (i : Nat) (a : MEv), tr[i]? = some a → a.wf
  /-- nothing the creating thread does before `join()` returns is ordered after the end of the function -/
  par : ∀ (i : Nat) (a : MEv), tr[i]? = some a → a.thread = 0 → a.kind ≠ .join → ¬ MReached cfg tr i
  chi : ∀ (i : Nat) (a : MEv), tr[i]? = some a → a.thread = 1 → (MReached cfg tr i ↔ (a.kind = .fEnd ∨ a.kind = .storeF))
  obs : ∀ (i : Nat) (a : MEv), tr[i]? = some a → a.kind = .load →
    (MReached cfg tr i ↔ (cfg.flagAtomic = true ∧ cfg.flagOrders = true ∧ StoreFBefore tr i))
  hasF : (∃ (i : Nat) (a : MEv), tr[i]? = some a ∧ a.kind = .storeF) ↔ s.cpc = .done
  hasE : (∃ (i : Nat) (a : MEv), tr[i]? = some a ∧ a.kind = .fEnd) ↔ (s.cpc = .storeF ∨ s.cpc = .done)
  lastW : ∀ (w : Nat) (b : MEv), tr[w]? = some b → b.kind = .storeF → ∀ (k : Nat) (c : MEv), w < k → tr[k]? = some c → c.kind.isWrite = false
  noJoin : (∃ (i : Nat) (a : MEv), tr[i]? = some a ∧ a.kind = .join) → s.ppc = .joined

theorem meinv_init (cfg : Cfg) : MEInv cfg MState.init [] := by
  refine ⟨?_, ?_, ?_, ?_, ?_, ?_, ?_, ?_⟩
  · intro i a h; simp at h
  · intro i a h; simp at h
  · intro i a h; simp at h
  · intro i a h; simp at h
  · constructor
    · rintro ⟨i, a, h, _⟩; simp at h
    · intro h; simp [MState.init] at h
  · constructor
    · rintro ⟨i, a, h, _⟩; simp at h
    · intro h; simp [MState.init] at h
  · intro w b h; simp at h
  · rintro ⟨i, a, h, _⟩; simp at h

theorem storeFBefore_snoc_lt (tr : List MEv) (e : MEv) {i : Nat} (hi : i ≤ tr.length) :
    StoreFBefore (tr ++ [e]) i ↔ StoreFBefore tr i := by
  constructor
  · rintro ⟨w, b, hw, hb, hk⟩
    rw [mget_snoc_lt tr e (by omega)] at hb
    exact ⟨w, b, hw, hb, hk⟩
  · rintro ⟨w, b, hw, hb, hk⟩
    exact ⟨w, b, hw, by rw [mget_snoc_lt tr e (by omega)]; exact hb, hk⟩

/-- the clauses about old events survive the extension of the trace; what is left to show for an
extension by one event `e` is listed as hypotheses -/
theorem meinv_snoc (cfg : Cfg) (s s' : MState) (tr : List MEv) (e : MEv) (hi : MEInv cfg s tr)
    (hwf : e.wf)
    (hpar : e.thread = 0 → e.kind ≠ .join → ¬ MReached cfg (tr ++ [e]) tr.length)
    (hchi : e.thread = 1 → (MReached cfg (tr ++ [e]) tr.length ↔ (e.kind = .fEnd ∨ e.kind = .storeF)))
    (hobs : e.kind = .load → (MReached cfg (tr ++ [e]) tr.length ↔
      (cfg.flagAtomic = true ∧ cfg.flagOrders = true ∧ StoreFBefore tr tr.length)))
    (hF : ((∃ (i : Nat) (a : MEv), tr[i]? = some a ∧ a.kind = .storeF) ∨ e.kind = .storeF) ↔ s'.cpc = .done)
    (hE : ((∃ (i : Nat) (a : MEv), tr[i]? = some a ∧ a.kind = .fEnd) ∨ e.kind = .fEnd) ↔ (s'.cpc = .storeF ∨ s'.cpc = .done))
    (hW : (∃ (i : Nat) (a : MEv), tr[i]? = some a ∧ a.kind = .storeF) → e.kind.isWrite = false)
    (hJ : ((∃ (i : Nat) (a : MEv), tr[i]? = some a ∧ a.kind = .join) ∨ e.kind = .join) → s'.ppc = .joined) :
    MEInv cfg s' (tr ++ [e]) := by
  obtain ⟨shape, par, chi, obs, hasF, hasE, lastW, noJoin⟩ := hi
  have split : ∀ (k : MK), (∃ (i : Nat) (a : MEv), (tr ++ [e])[i]? = some a ∧ a.kind = k) ↔
      ((∃ (i : Nat) (a : MEv), tr[i]? = some a ∧ a.kind = k) ∨ e.kind = k) := by
    intro k
    constructor
    · rintro ⟨i, a, ha, hk⟩
      rcases (mget_snoc tr e i a).mp ha with ⟨_, h1⟩ | ⟨_, rfl⟩
      · exact Or.inl ⟨i, a, h1, hk⟩
      · exact Or.inr hk
    · rintro (⟨i, a, ha, hk⟩ | hk)
      · exact ⟨i, a, by rw [mget_snoc_lt tr e (mget_lt ha)]; exact ha, hk⟩
      · exact ⟨tr.length, e, mget_snoc_len tr e, hk⟩
  refine ⟨?_, ?_, ?_, ?_, ?_, ?_, ?_, ?_⟩
  · intro i a ha
    rcases (mget_snoc tr e i a).mp ha with ⟨_, h1⟩ | ⟨_, rfl⟩
    · exact shape i a h1
    · exact hwf
  · intro i a ha h0 hk
    rcases (mget_snoc tr e i a).mp ha with ⟨hl, h1⟩ | ⟨rfl, rfl⟩
    · rw [mreached_snoc_lt cfg tr e hl]; exact par i a h1 h0 hk
    · exact hpar h0 hk
  · intro i a ha h1'
    rcases (mget_snoc tr e i a).mp ha with ⟨hl, h1⟩ | ⟨rfl, rfl⟩
    · rw [mreached_snoc_lt cfg tr e hl]; exact chi i a h1 h1'
    · exact hchi h1'
  · intro i a ha hk
    rcases (mget_snoc tr e i a).mp ha with ⟨hl, h1⟩ | ⟨rfl, rfl⟩
    · rw [mreached_snoc_lt cfg tr e hl, storeFBefore_snoc_lt tr e (Nat.le_of_lt hl)]; exact obs i a h1 hk
    · rw [storeFBefore_snoc_lt tr a (Nat.le_refl _)]; exact hobs hk
  · rw [split]; exact hF
  · rw [split]; exact hE
  · intro w b hb hk k c hwk hc
    rcases (mget_snoc tr e w b).mp hb with ⟨_, h1⟩ | ⟨rfl, rfl⟩
    · rcases (mget_snoc tr e k c).mp hc with ⟨_, h2⟩ | ⟨_, rfl⟩
      · exact lastW w b h1 hk k c hwk h2
      · exact hW ⟨w, b, h1, hk⟩
    · have := mget_lt hc
      simp only [List.length_append, List.length_cons, List.length_nil] at this
      omega
  · rw [split]; exact hJ

/-! ### what reaches a new event, by the thread that performs it -/

theorem wf_thread0 {a : MEv} (h : a.wf) (h0 : a.thread = 0) : a.kind.ofParent = true := by
  rcases h with ⟨_, h⟩ | ⟨h1, _⟩ | ⟨h1, _⟩
  · exact h
  · omega
  · omega

theorem wf_thread1 {a : MEv} (h : a.wf) (h0 : a.thread = 1) : a.kind.ofChild = true := by
  rcases h with ⟨h1, _⟩ | ⟨_, h⟩ | ⟨h1, _⟩
  · omega
  · exact h
  · omega

theorem wf_obs {a : MEv} (h : a.wf) (h0 : 2 ≤ a.thread) : a.kind = .load := by
  rcases h with ⟨h1, _⟩ | ⟨h1, _⟩ | ⟨_, h⟩
  · omega
  · omega
  · exact h

theorem wf_parentKind {a : MEv} (h : a.wf) (hk : a.kind.ofParent = true) : a.thread = 0 := by
  rcases h with ⟨h1, _⟩ | ⟨_, h1⟩ | ⟨_, h1⟩
  · exact h1
  · cases hka : a.kind <;> simp [hka, MK.ofParent, MK.ofChild] at hk h1
  · rw [h1] at hk; simp [MK.ofParent] at hk

theorem wf_childKind {a : MEv} (h : a.wf) (hk : a.kind.ofChild = true) : a.thread = 1 := by
  rcases h with ⟨_, h1⟩ | ⟨h1, _⟩ | ⟨_, h1⟩
  · cases hka : a.kind <;> simp [hka, MK.ofParent, MK.ofChild] at hk h1
  · exact h1
  · rw [h1] at hk; simp [MK.ofChild] at hk

/-- a new event of the creating thread other than the return of `join()` is not reached -/
theorem reached_parent (cfg : Cfg) (s : MState) (tr : List MEv) (e : MEv) (hi : MEInv cfg s tr)
    (h0 : e.thread = 0) (hp : e.kind.ofParent = true) (hk : e.kind ≠ .join)
    (hnj : ¬ ∃ (i : Nat) (a : MEv), tr[i]? = some a ∧ a.kind = .join) :
    ¬ MReached cfg (tr ++ [e]) tr.length := by
  rw [mreached_snoc_len]
  rintro (h | ⟨k, hke, hr⟩)
  · rw [h] at hp; simp [MK.ofParent] at hp
  · obtain ⟨a, ha, hor⟩ := (medge_snoc_len cfg tr e k).mp hke
    rcases hor with h | ⟨_, h⟩ | ⟨_, h⟩ | ⟨_, h, _⟩
    · exact hi.par k a ha (by rw [h, h0]) (fun hj => hnj ⟨k, a, ha, hj⟩) hr
    · omega
    · exact hk h
    · rw [h] at hp; simp [MK.ofParent] at hp

/-- a new event of the managed thread is reached iff it is the end of the function or comes after it -/
theorem reached_child (cfg : Cfg) (s : MState) (tr : List MEv) (e : MEv) (hi : MEInv cfg s tr)
    (h1 : e.thread = 1) (hc : e.kind.ofChild = true) :
    MReached cfg (tr ++ [e]) tr.length ↔
      (e.kind = .fEnd ∨ ∃ (k : Nat) (a : MEv), tr[k]? = some a ∧ (a.kind = .fEnd ∨ a.kind = .storeF)) := by
  rw [mreached_snoc_len]
  constructor
  · rintro (h | ⟨k, hke, hr⟩)
    · exact Or.inl h
    · obtain ⟨a, ha, hor⟩ := (medge_snoc_len cfg tr e k).mp hke
      rcases hor with h | ⟨h, _⟩ | ⟨_, h⟩ | ⟨_, h, _⟩
      · exact Or.inr ⟨k, a, ha, (hi.chi k a ha (by rw [h, h1])).mp hr⟩
      · exfalso
        have hpk : a.kind.ofParent = true := by rw [h]; rfl
        exact hi.par k a ha (wf_parentKind (hi.shape k a ha) hpk) (by rw [h]; simp) hr
      · rw [h] at hc; simp [MK.ofChild] at hc
      · rw [h] at hc; simp [MK.ofChild] at hc
  · rintro (h | ⟨k, a, ha, hk⟩)
    · exact Or.inl h
    · have hck : a.kind.ofChild = true := by rcases hk with hk | hk <;> rw [hk] <;> rfl
      have ht := wf_childKind (hi.shape k a ha) hck
      exact Or.inr ⟨k, (medge_snoc_len cfg tr e k).mpr ⟨a, ha, Or.inl (by rw [ht, h1])⟩,
        (hi.chi k a ha ht).mpr hk⟩

/-- a new load is reached iff the flag is an atomic with release/acquire orders and the managed
thread's `store(false)` has been performed -/
theorem reached_load (cfg : Cfg) (s : MState) (tr : List MEv) (e : MEv) (hi : MEInv cfg s tr)
    (ho : 2 ≤ e.thread) (hl : e.kind = .load) :
    MReached cfg (tr ++ [e]) tr.length ↔
      (cfg.flagAtomic = true ∧ cfg.flagOrders = true ∧ StoreFBefore tr tr.length) := by
  rw [mreached_snoc_len]
  constructor
  · rintro (h | ⟨k, hke, hr⟩)
    · rw [hl] at h; cases h
    · obtain ⟨a, ha, hor⟩ := (medge_snoc_len cfg tr e k).mp hke
      have hkl := mget_lt ha
      rcases hor with h | ⟨_, h⟩ | ⟨_, h⟩ | ⟨hs, _, _, p1, p2⟩
      · have hal : a.kind = .load := wf_obs (hi.shape k a ha) (by omega)
        obtain ⟨q1, q2, w, b, hw, hb, hbk⟩ := (hi.obs k a ha hal).mp hr
        exact ⟨q1, q2, w, b, by omega, hb, hbk⟩
      · omega
      · rw [hl] at h; cases h
      · have hck : a.kind.ofChild = true := by rcases hs with hs | hs <;> rw [hs] <;> rfl
        have ht := wf_childKind (hi.shape k a ha) hck
        have := (hi.chi k a ha ht).mp hr
        rcases this with h | h
        · rcases hs with hs | hs <;> rw [hs] at h <;> cases h
        · exact ⟨p1, p2, k, a, hkl, ha, h⟩
  · rintro ⟨p1, p2, w, b, hw, hb, hbk⟩
    right
    have ht := wf_childKind (hi.shape w b hb) (by rw [hbk]; rfl)
    refine ⟨w, (medge_snoc_len cfg tr e w).mpr ⟨b, hb, Or.inr (Or.inr (Or.inr ⟨Or.inr hbk, hl, ?_, p1, p2⟩))⟩,
      (hi.chi w b hb ht).mpr (Or.inr hbk)⟩
    intro k' c hk hc
    exact hi.lastW w b hb hbk k' c hk hc

/-! ### the invariant along every schedule -/

theorem no_join_of (cfg : Cfg) (s : MState) (tr : List MEv) (hi : MEInv cfg s tr) (h : s.ppc ≠ .joined) :
    ¬ ∃ (i : Nat) (a : MEv), tr[i]? = some a ∧ a.kind = .join :=
  fun hj => h (hi.noJoin hj)

/-- a step of the creating thread that is not the return of `join()`; the managed thread has not
begun (`cpc` is `idle` before, `idle` or `storeT` after) -/
theorem meinv_parent_early (cfg : Cfg) (s s' : MState) (tr : List MEv) (k : MK) (hi : MEInv cfg s tr)
    (hk : k.ofParent = true) (hkj : k ≠ .join) (hp : s.ppc ≠ .joined)
    (hc : s.cpc = .idle) (hc' : s'.cpc = .idle ∨ s'.cpc = .storeT) :
    MEInv cfg s' (tr ++ [⟨0, k⟩]) := by
  have hnj := no_join_of cfg s tr hi hp
  have hnF : ¬ ∃ (i : Nat) (a : MEv), tr[i]? = some a ∧ a.kind = .storeF := by
    intro h; have := hi.hasF.mp h; rw [hc] at this; cases this
  have hnE : ¬ ∃ (i : Nat) (a : MEv), tr[i]? = some a ∧ a.kind = .fEnd := by
    intro h; have := hi.hasE.mp h; rw [hc] at this; rcases this with h | h <;> cases h
  refine meinv_snoc cfg s s' tr ⟨0, k⟩ hi (Or.inl ⟨rfl, hk⟩) ?_ ?_ ?_ ?_ ?_ ?_ ?_
  · intro _ _; exact reached_parent cfg s tr ⟨0, k⟩ hi rfl hk hkj hnj
  · intro h; cases h
  · intro h; exfalso; change k = MK.load at h; rw [h] at hk; simp [MK.ofParent] at hk
  · constructor
    · rintro (h | h)
      · exact absurd h hnF
      · exfalso; change k = MK.storeF at h; rw [h] at hk; simp [MK.ofParent] at hk
    · intro h; rcases hc' with h' | h' <;> rw [h'] at h <;> cases h
  · constructor
    · rintro (h | h)
      · exact absurd h hnE
      · exfalso; change k = MK.fEnd at h; rw [h] at hk; simp [MK.ofParent] at hk
    · intro h; rcases hc' with h' | h' <;> rw [h'] at h <;> rcases h with h | h <;> cases h
  · intro h; exact absurd h hnF
  · rintro (h | h)
    · exact absurd h hnj
    · exact absurd h hkj

/-- a step of the managed thread -/
theorem meinv_child (cfg : Cfg) (s s' : MState) (tr : List MEv) (k : MK) (hi : MEInv cfg s tr)
    (hk : k.ofChild = true) (hp : s'.ppc = s.ppc) (hnd : s.cpc ≠ .done)
    (hF : k = .storeF ↔ s'.cpc = .done)
    (hE : ((s.cpc = .storeF ∨ s.cpc = .done) ∨ k = .fEnd) ↔ (s'.cpc = .storeF ∨ s'.cpc = .done))
    (hS : k = .storeF ↔ s.cpc = .storeF) :
    MEInv cfg s' (tr ++ [⟨1, k⟩]) := by
  have hnF : ¬ ∃ (i : Nat) (a : MEv), tr[i]? = some a ∧ a.kind = .storeF := fun h => hnd (hi.hasF.mp h)
  refine meinv_snoc cfg s s' tr ⟨1, k⟩ hi (Or.inr (Or.inl ⟨rfl, hk⟩)) ?_ ?_ ?_ ?_ ?_ ?_ ?_
  · intro h; cases h
  · intro _
    rw [reached_child cfg s tr ⟨1, k⟩ hi rfl hk]
    show (k = MK.fEnd ∨ _) ↔ (k = MK.fEnd ∨ k = MK.storeF)
    constructor
    · rintro (h | ⟨i, a, ha, hka | hka⟩)
      · exact Or.inl h
      · have := hi.hasE.mp ⟨i, a, ha, hka⟩
        rcases this with h | h
        · exact Or.inr (hS.mpr h)
        · exact absurd h hnd
      · exact absurd ⟨i, a, ha, hka⟩ hnF
    · rintro (h | h)
      · exact Or.inl h
      · obtain ⟨i, a, ha, hka⟩ := hi.hasE.mpr (Or.inl (hS.mp h))
        exact Or.inr ⟨i, a, ha, Or.inl hka⟩
  · intro h; exfalso; change k = MK.load at h; rw [h] at hk; simp [MK.ofChild] at hk
  · show (_ ∨ k = MK.storeF) ↔ _
    rw [← hF]
    constructor
    · rintro (h | h)
      · exact absurd h hnF
      · exact h
    · exact Or.inr
  · show (_ ∨ k = MK.fEnd) ↔ _
    rw [← hE, hi.hasE]
  · intro h; exact absurd h hnF
  · rintro (h | h)
    · rw [hp]; exact hi.noJoin h
    · exfalso; change k = MK.join at h; rw [h] at hk; simp [MK.ofChild] at hk

/-- a step that leaves `ppc`, `cpc` alone and appends an event that is neither a write nor one of
the marker kinds (a load, or the return of `join()` with `ppc` moving to `joined`) -/
theorem meinv_quiet (cfg : Cfg) (s s' : MState) (tr : List MEv) (e : MEv) (hi : MEInv cfg s tr)
    (hwf : e.wf) (hc : s'.cpc = s.cpc) (hk : e.kind = .load ∨ e.kind = .join)
    (hp : e.kind = .load → s'.ppc = s.ppc) (hj : e.kind = .join → s'.ppc = .joined) :
    MEInv cfg s' (tr ++ [e]) := by
  refine meinv_snoc cfg s s' tr e hi hwf ?_ ?_ ?_ ?_ ?_ ?_ ?_
  · intro h0 hnj
    rcases hk with h | h
    · have := wf_thread0 hwf h0; rw [h] at this; simp [MK.ofParent] at this
    · exact absurd h hnj
  · intro h1
    have := wf_thread1 hwf h1
    rcases hk with h | h <;> rw [h] at this <;> simp [MK.ofChild] at this
  · intro hl
    have ho : 2 ≤ e.thread := by
      rcases hwf with ⟨_, h⟩ | ⟨_, h⟩ | ⟨h, _⟩
      · rw [hl] at h; simp [MK.ofParent] at h
      · rw [hl] at h; simp [MK.ofChild] at h
      · exact h
    exact reached_load cfg s tr e hi ho hl
  · rw [hc, ← hi.hasF]
    constructor
    · rintro (h | h)
      · exact h
      · rcases hk with h' | h' <;> rw [h'] at h <;> cases h
    · exact Or.inl
  · rw [hc, ← hi.hasE]
    constructor
    · rintro (h | h)
      · exact h
      · rcases hk with h' | h' <;> rw [h'] at h <;> cases h
    · exact Or.inl
  · intro _; rcases hk with h | h <;> rw [h] <;> rfl
  · rintro (h | h)
    · rcases hk with h' | h'
      · rw [hp h']; exact hi.noJoin h
      · exact hj h'
    · exact hj h

theorem meinv_step (cfg : Cfg) (hf : cfg.flagFirst = true) (nobs : Nat) (s : MState) (tr : List MEv) (t : Nat)
    (hm : MInv s) (hi : MEInv cfg s tr) :
    MEInv cfg (mstep cfg nobs s t) (mstepTrace cfg nobs s tr t) := by
  have hidle : ¬ s.isLive = true → s.cpc = .idle := by
    intro h
    cases hc : s.cpc with
    | idle => rfl
    | _ => exact absurd (hm.started.mp (by rw [hc]; simp)) h
  match t with
  | 0 =>
    cases hp : s.ppc with
    | begin =>
      have e1 : mstepTrace cfg nobs s tr 0 = tr ++ [⟨0, .begin⟩] := by simp [mstepTrace, mevent, hp, hf]
      have e2 : mstep cfg nobs s 0 = { s with ppc := .atInit } := by simp [mstep, hp, hf]
      rw [e1, e2]
      exact meinv_parent_early cfg s _ tr .begin hi rfl (by simp) (by rw [hp]; simp)
        (hidle (by simp [MState.isLive, hp])) (Or.inl (hidle (by simp [MState.isLive, hp])))
    | atInit =>
      have e1 : mstepTrace cfg nobs s tr 0 = tr ++ [⟨0, .init⟩] := by simp [mstepTrace, mevent, hp]
      have e2 : mstep cfg nobs s 0 = { s with flag := some false, ppc := .atStart } := by simp [mstep, hp, hf]
      rw [e1, e2]
      exact meinv_parent_early cfg s _ tr .init hi rfl (by simp) (by rw [hp]; simp)
        (hidle (by simp [MState.isLive, hp])) (Or.inl (hidle (by simp [MState.isLive, hp])))
    | atStart =>
      have e1 : mstepTrace cfg nobs s tr 0 = tr ++ [⟨0, .start⟩] := by simp [mstepTrace, mevent, hp]
      have e2 : mstep cfg nobs s 0 = { s with cpc := .storeT, ppc := .live } := by simp [mstep, hp]
      rw [e1, e2]
      exact meinv_parent_early cfg s _ tr .start hi rfl (by simp) (by rw [hp]; simp)
        (hidle (by simp [MState.isLive, hp])) (Or.inr rfl)
    | live =>
      by_cases hc : s.cpc = .done
      · have e1 : mstepTrace cfg nobs s tr 0 = tr ++ [⟨0, .join⟩] := by simp [mstepTrace, mevent, hp, hc]
        have e2 : mstep cfg nobs s 0 = { s with ppc := .joined } := by simp [mstep, hp, hc]
        rw [e1, e2]
        exact meinv_quiet cfg s _ tr ⟨0, .join⟩ hi (Or.inl ⟨rfl, rfl⟩) rfl (Or.inr rfl) (fun h => by cases h) (fun _ => rfl)
      · have e1 : mstepTrace cfg nobs s tr 0 = tr := by simp [mstepTrace, mevent, hp, hc]
        have e2 : mstep cfg nobs s 0 = s := by simp [mstep, hp, hc]
        rw [e1, e2]; exact hi
    | joined =>
      have e1 : mstepTrace cfg nobs s tr 0 = tr := by simp [mstepTrace, mevent, hp]
      have e2 : mstep cfg nobs s 0 = s := by simp [mstep, hp]
      rw [e1, e2]; exact hi
  | 1 =>
    cases hc : s.cpc with
    | idle =>
      have e1 : mstepTrace cfg nobs s tr 1 = tr := by simp [mstepTrace, mevent, hc]
      have e2 : mstep cfg nobs s 1 = s := by simp [mstep, hc]
      rw [e1, e2]; exact hi
    | storeT =>
      have e1 : mstepTrace cfg nobs s tr 1 = tr ++ [⟨1, .storeT⟩] := by simp [mstepTrace, mevent, hc]
      have e2 : mstep cfg nobs s 1 =
          { s with flag := some true, early := s.early || s.flag.isNone, cpc := .fBegin } := by simp [mstep, hc]
      rw [e1, e2]
      exact meinv_child cfg s _ tr .storeT hi rfl rfl (by rw [hc]; simp) (by simp) (by simp [hc]) (by simp [hc])
    | fBegin =>
      have e1 : mstepTrace cfg nobs s tr 1 = tr ++ [⟨1, .fBegin⟩] := by simp [mstepTrace, mevent, hc]
      have e2 : mstep cfg nobs s 1 = { s with cpc := .inF } := by simp [mstep, hc]
      rw [e1, e2]
      exact meinv_child cfg s _ tr .fBegin hi rfl rfl (by rw [hc]; simp) (by simp) (by simp [hc]) (by simp [hc])
    | inF =>
      have e1 : mstepTrace cfg nobs s tr 1 = tr ++ [⟨1, .inF⟩] := by simp [mstepTrace, mevent, hc]
      have e2 : mstep cfg nobs s 1 = { s with cpc := .fEnd } := by simp [mstep, hc]
      rw [e1, e2]
      exact meinv_child cfg s _ tr .inF hi rfl rfl (by rw [hc]; simp) (by simp) (by simp [hc]) (by simp [hc])
    | fEnd =>
      have e1 : mstepTrace cfg nobs s tr 1 = tr ++ [⟨1, .fEnd⟩] := by simp [mstepTrace, mevent, hc]
      have e2 : mstep cfg nobs s 1 = { s with cpc := .storeF } := by simp [mstep, hc]
      rw [e1, e2]
      exact meinv_child cfg s _ tr .fEnd hi rfl rfl (by rw [hc]; simp) (by simp) (by simp [hc]) (by simp [hc])
    | storeF =>
      have e1 : mstepTrace cfg nobs s tr 1 = tr ++ [⟨1, .storeF⟩] := by simp [mstepTrace, mevent, hc]
      have e2 : mstep cfg nobs s 1 =
          { s with flag := some false, early := s.early || s.flag.isNone, cpc := .done } := by simp [mstep, hc]
      rw [e1, e2]
      exact meinv_child cfg s _ tr .storeF hi rfl rfl (by rw [hc]; simp) (by simp) (by simp [hc]) (by simp [hc])
    | done =>
      have e1 : mstepTrace cfg nobs s tr 1 = tr := by simp [mstepTrace, mevent, hc]
      have e2 : mstep cfg nobs s 1 = s := by simp [mstep, hc]
      rw [e1, e2]; exact hi
  | t + 2 =>
    by_cases hc : t < nobs ∧ s.isLive = true
    · have e1 : mstepTrace cfg nobs s tr (t + 2) = tr ++ [⟨t + 2, .load⟩] := by simp [mstepTrace, mevent, hc]
      have e2 : mstep cfg nobs s (t + 2) =
          { s with samples := s.samples ++ [⟨t + 2, s.win, s.ppc == .joined, s.flag⟩] } := by simp [mstep, hc]
      rw [e1, e2]
      exact meinv_quiet cfg s _ tr ⟨t + 2, .load⟩ hi (Or.inr (Or.inr ⟨by simp, rfl⟩)) rfl (Or.inl rfl) (fun _ => rfl)
        (fun h => by cases h)
    · have e1 : mstepTrace cfg nobs s tr (t + 2) = tr := by simp [mstepTrace, mevent, hc]
      have e2 : mstep cfg nobs s (t + 2) = s := by simp [mstep, hc]
      rw [e1, e2]; exact hi

/-! ### samples and load events, position by position -/

/-- the positions of the load events of a trace, in order -/
def loadIdxFrom : Nat → List MEv → List Nat
  | _, [] => []
  | n, e :: r => (if e.kind = .load then [n] else []) ++ loadIdxFrom (n + 1) r

def loadIdx (tr : List MEv) : List Nat := loadIdxFrom 0 tr

theorem loadIdxFrom_snoc (e : MEv) : ∀ (tr : List MEv) (n : Nat),
    loadIdxFrom n (tr ++ [e]) = loadIdxFrom n tr ++ (if e.kind = .load then [n + tr.length] else []) := by
  intro tr
  induction tr with
  | nil => intro n; simp [loadIdxFrom]
  | cons a r ih =>
    intro n
    simp only [List.cons_append, loadIdxFrom, ih, List.length_cons, List.append_assoc]
    rw [show n + 1 + r.length = n + (r.length + 1) by omega]

theorem loadIdxFrom_lt : ∀ (tr : List MEv) (n j : Nat), j ∈ loadIdxFrom n tr → j < n + tr.length := by
  intro tr
  induction tr with
  | nil => intro n j h; simp [loadIdxFrom] at h
  | cons a r ih =>
    intro n j h
    simp only [loadIdxFrom, List.mem_append] at h
    rcases h with h | h
    · split at h
      · simp at h; subst h; simp
      · cases h
    · have := ih (n + 1) j h
      simp only [List.length_cons]; omega

/-- two lists related position by position -/
def Linked (P : Sample × Bool → Nat → Prop) : List (Sample × Bool) → List Nat → Prop
  | [], [] => True
  | p :: l, j :: js => P p j ∧ Linked P l js
  | _, _ => False

theorem linked_snoc {P : Sample × Bool → Nat → Prop} {p : Sample × Bool} {j : Nat} :
    ∀ (l : List (Sample × Bool)) (js : List Nat), Linked P l js → P p j → Linked P (l ++ [p]) (js ++ [j]) := by
  intro l
  induction l with
  | nil =>
    intro js h hp
    cases js with
    | nil => exact ⟨hp, trivial⟩
    | cons _ _ => cases h
  | cons q l ih =>
    intro js h hp
    cases js with
    | nil => cases h
    | cons k ks => exact ⟨h.1, ih ks h.2 hp⟩

theorem linked_mono {P Q : Sample × Bool → Nat → Prop} :
    ∀ (l : List (Sample × Bool)) (js : List Nat), (∀ p j, j ∈ js → P p j → Q p j) → Linked P l js → Linked Q l js := by
  intro l
  induction l with
  | nil =>
    intro js _ h
    cases js with
    | nil => trivial
    | cons _ _ => cases h
  | cons q l ih =>
    intro js hpq h
    cases js with
    | nil => cases h
    | cons k ks =>
      exact ⟨hpq q k List.mem_cons_self h.1, ih ks (fun p j hj => hpq p j (List.mem_cons_of_mem _ hj)) h.2⟩

theorem linked_get {P : Sample × Bool → Nat → Prop} :
    ∀ (l : List (Sample × Bool)) (js : List Nat), Linked P l js →
      l.length = js.length ∧ ∀ (k : Nat) (p : Sample × Bool) (j : Nat), l[k]? = some p → js[k]? = some j → P p j := by
  intro l
  induction l with
  | nil =>
    intro js h
    cases js with
    | nil => exact ⟨rfl, fun k p j hp => by simp at hp⟩
    | cons _ _ => cases h
  | cons q l ih =>
    intro js h
    cases js with
    | nil => cases h
    | cons i is =>
      obtain ⟨hl, hg⟩ := ih is h.2
      refine ⟨by simp [hl], ?_⟩
      intro k p j hp hj
      cases k with
      | zero => simp at hp hj; subst hp; subst hj; exact h.1
      | succ k => simp at hp hj; exact hg k p j hp hj

/-- the mark of a sample is right for the load event at position `j` of the trace: that event is
the `isActive()` call of the sample's observer, and the mark says whether the end of the user
function happens-before it -/
def MarkOk (cfg : Cfg) (tr : List MEv) (p : Sample × Bool) (j : Nat) : Prop :=
  tr[j]? = some ⟨p.1.obs, .load⟩ ∧ (p.2 = true ↔ MReached cfg tr j)

theorem markOk_snoc (cfg : Cfg) (tr : List MEv) (e : MEv) (p : Sample × Bool) (j : Nat) (hj : j < tr.length)
    (h : MarkOk cfg tr p j) : MarkOk cfg (tr ++ [e]) p j :=
  ⟨by rw [mget_snoc_lt tr e hj]; exact h.1, by rw [mreached_snoc_lt cfg tr e hj]; exact h.2⟩

theorem linked_step (cfg : Cfg) (hf : cfg.flagFirst = true) (nobs : Nat) (s : MState) (l : List (Sample × Bool))
    (tr : List MEv) (t : Nat) (hm : MInv s) (hi : MEInv cfg s tr) (hl : Linked (MarkOk cfg tr) l (loadIdx tr)) :
    Linked (MarkOk cfg (mstepTrace cfg nobs s tr t)) (mhbStep cfg nobs s l t) (loadIdx (mstepTrace cfg nobs s tr t)) := by
  have quiet : ∀ e : MEv, e.kind ≠ .load → Linked (MarkOk cfg (tr ++ [e])) l (loadIdx (tr ++ [e])) := by
    intro e he
    have : loadIdx (tr ++ [e]) = loadIdx tr := by
      unfold loadIdx; rw [loadIdxFrom_snoc, if_neg he, List.append_nil]
    rw [this]
    refine linked_mono l _ (fun p j hj h => ?_) hl
    have := loadIdxFrom_lt tr 0 j hj
    exact markOk_snoc cfg tr e p j (by omega) h
  match t with
  | 0 =>
    show Linked _ l _
    unfold mstepTrace
    cases he : mevent cfg nobs s 0 with
    | none => exact hl
    | some e =>
      apply quiet
      simp only [mevent] at he
      split at he
      · cases he; split <;> simp
      · cases he; simp
      · cases he; simp
      · split at he
        · cases he; simp
        · cases he
      · cases he
  | 1 =>
    show Linked _ l _
    unfold mstepTrace
    cases he : mevent cfg nobs s 1 with
    | none => exact hl
    | some e =>
      apply quiet
      simp only [mevent] at he
      split at he <;> first | (cases he; done) | (cases he; simp)
  | t + 2 =>
    by_cases hc : t < nobs ∧ s.isLive = true
    · have e1 : mstepTrace cfg nobs s tr (t + 2) = tr ++ [⟨t + 2, .load⟩] := by simp [mstepTrace, mevent, hc]
      have e2 : mhbStep cfg nobs s l (t + 2) =
          l ++ [(⟨t + 2, s.win, s.ppc == .joined, s.flag⟩,
                 cfg.flagAtomic && cfg.flagOrders && s.cpc == .done && s.flag == some false)] := by
        simp [mhbStep, hc]
      have e3 : loadIdx (tr ++ [⟨t + 2, .load⟩]) = loadIdx tr ++ [tr.length] := by
        unfold loadIdx; rw [loadIdxFrom_snoc]; simp
      rw [e1, e2, e3]
      apply linked_snoc
      · refine linked_mono l _ (fun p j hj h => ?_) hl
        have := loadIdxFrom_lt tr 0 j hj
        exact markOk_snoc cfg tr _ p j (by omega) h
      · refine ⟨mget_snoc_len tr _, ?_⟩
        rw [reached_load cfg s tr ⟨t + 2, .load⟩ hi (by simp) rfl]
        have hSF : StoreFBefore tr tr.length ↔ s.cpc = .done := by
          rw [← hi.hasF]
          constructor
          · rintro ⟨w, b, _, hb, hk⟩; exact ⟨w, b, hb, hk⟩
          · rintro ⟨w, b, hb, hk⟩; exact ⟨w, b, mget_lt hb, hb, hk⟩
        rw [hSF]
        have hflag : s.cpc = .done → s.flag = some false := by
          intro hd
          have h1 := hm.flag
          have h2 := hc.2
          simp only [MState.isLive, Bool.or_eq_true, beq_iff_eq] at h2
          rw [h1, hd]
          rcases h2 with h2 | h2 <;> rw [h2] <;> rfl
        simp only [Bool.and_eq_true, beq_iff_eq]
        constructor
        · rintro ⟨⟨⟨a1, a2⟩, a3⟩, _⟩; exact ⟨a1, a2, a3⟩
        · rintro ⟨a1, a2, a3⟩; exact ⟨⟨⟨a1, a2⟩, a3⟩, hflag a3⟩
    · have e1 : mstepTrace cfg nobs s tr (t + 2) = tr := by simp [mstepTrace, mevent, hc]
      have e2 : mhbStep cfg nobs s l (t + 2) = l := by simp [mhbStep, hc]
      rw [e1, e2]; exact hl

theorem mtrunFrom_inv (cfg : Cfg) (hf : cfg.flagFirst = true) (nobs : Nat) (sched : List Nat) :
    ∀ s l tr, MInv s → MEInv cfg s tr → Linked (MarkOk cfg tr) l (loadIdx tr) →
      Linked (MarkOk cfg (mtrunFrom cfg nobs s l tr sched).2.2) (mtrunFrom cfg nobs s l tr sched).2.1
        (loadIdx (mtrunFrom cfg nobs s l tr sched).2.2) := by
  induction sched with
  | nil => intro s l tr _ _ h; exact h
  | cons t rest ih =>
    intro s l tr hm hi hl
    simp only [mtrunFrom]
    exact ih _ _ _ (minv_step cfg hf nobs s t hm) (meinv_step cfg hf nobs s tr t hm hi)
      (linked_step cfg hf nobs s l tr t hm hi hl)

theorem mtrunFrom_marks (cfg : Cfg) (nobs : Nat) (sched : List Nat) : ∀ s l tr,
    ((mtrunFrom cfg nobs s l tr sched).1, (mtrunFrom cfg nobs s l tr sched).2.1) = mhrunFrom cfg nobs s l sched := by
  induction sched with
  | nil => intro s l tr; rfl
  | cons t rest ih => intro s l tr; simp only [mtrunFrom, mhrunFrom]; exact ih _ _ _

/-- **the published-mark is exact**: for every configuration whose flag is constructed before the
thread is started, every schedule and any number of observers, the marked samples of `mhrun`
and the load events of the event trace correspond position by position, and a sample is marked
published iff the end of the user function happens-before (`MHB`) its load event -/
theorem marks_exact (cfg : Cfg) (hf : cfg.flagFirst = true) (nobs : Nat) (sched : List Nat) :
    Linked (MarkOk cfg (mtrace cfg nobs sched)) (mhrun cfg nobs sched).2 (loadIdx (mtrace cfg nobs sched)) := by
  have h := mtrunFrom_inv cfg hf nobs sched MState.init [] [] minv_init (meinv_init cfg) trivial
  have e := mtrunFrom_marks cfg nobs sched MState.init [] []
  have e2 : (mhrun cfg nobs sched).2 = (mtrunFrom cfg nobs MState.init [] [] sched).2.1 := by
    unfold mhrun; rw [← e]
  rw [e2]; exact h

end CelmaVerif.Concurrency
