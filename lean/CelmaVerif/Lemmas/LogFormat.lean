import CelmaVerif.Model.LogFormat
/-
  Specification-side definitions and helper lemmas for C16 (log message formatting).
  The property theorems themselves are in Props/C16.lean.
-/
namespace CelmaVerif.LogFormat

/-! ### Specification of the builder: what a stream expression means, by position -/

/-- tokens that add a field (everything else sets an option) -/
def Tok.isAdder : Tok → Bool
  | .field _ | .const _ | .attr _ => true
  | _ => false

def Tok.widthOf : Tok → Option Int
  | .width w => some w
  | _ => none

def Tok.fmtOf : Tok → Option Text
  | .fmt s => some s
  | _ => none

/-- the separator a `separator(...)` token selects (`nullptr` = none = empty) -/
def Tok.sepOf : Tok → Option Text
  | .sep (some s) => some s
  | .sep none => some []
  | _ => none

/-- the tokens after the last field-adding token: the options pending for the next field -/
def pendingTokens (ts : List Tok) : List Tok :=
  (ts.reverse.takeWhile (fun t => !t.isAdder)).reverse

/-- width for the next field: the last width given since the previous field, 0 if none -/
def optWidth (seg : List Tok) : Int := ((seg.filterMap Tok.widthOf).getLast?).getD 0

/-- left alignment for the next field: `left` was given since the previous field -/
def optLeft (seg : List Tok) : Bool := seg.contains Tok.left

/-- format string for the next field: the last one given since the previous field, empty if none -/
def optFmt (seg : List Tok) : Text := ((seg.filterMap Tok.fmtOf).getLast?).getD []

/-- the automatic separator in force after the tokens `ts`: the last `separator(...)`, else the
    constructor argument -/
def sepAfter (init : Text) (ts : List Tok) : Text := ((ts.filterMap Tok.sepOf).getLast?).getD init

/-- the field a field-adding token creates when it follows the tokens `pre` -/
def fieldOf (pre : List Tok) : Tok → Option Field
  | .field t => some ⟨t, optFmt (pendingTokens pre), optWidth (pendingTokens pre), optLeft (pendingTokens pre)⟩
  | .const s => some ⟨.constant, s, optWidth (pendingTokens pre), optLeft (pendingTokens pre)⟩
  | .attr n => some ⟨.attribute, n, optWidth (pendingTokens pre), optLeft (pendingTokens pre)⟩
  | _ => none

/-- is there a field before position `pre.length` (in the definition `prior` the creator started
    with, or added by an earlier token)? -/
def hasFieldBefore (prior : List Field) (pre : List Tok) : Bool := !prior.isEmpty || pre.any Tok.isAdder

/-- what the token at position `i` contributes to the field list -/
def contribution (init : Text) (prior : List Field) (ts : List Tok) (i : Nat) : List Field :=
  match ts[i]? with
  | none => []
  | some a =>
    match fieldOf (ts.take i) a with
    | none => []
    | some f =>
      (if sepAfter init (ts.take i) ≠ [] ∧ hasFieldBefore prior (ts.take i) = true
        then [Creator.sepField (sepAfter init (ts.take i))] else []) ++ [f]

/-- the fields a stream expression adds to a definition that already holds `prior`, when the creator
    was constructed with separator `init` -/
def specUpTo (init : Text) (prior : List Field) (ts : List Tok) (n : Nat) : List Field :=
  (List.range n).flatMap (contribution init prior ts)

def specFields (init : Text) (prior : List Field) (ts : List Tok) : List Field :=
  specUpTo init prior ts ts.length

/-! ### snoc lemmas of the specification functions -/

theorem pendingTokens_snoc_adder (pre : List Tok) (t : Tok) (h : t.isAdder = true) :
    pendingTokens (pre ++ [t]) = [] := by
  simp [pendingTokens, h]

theorem pendingTokens_snoc_opt (pre : List Tok) (t : Tok) (h : t.isAdder = false) :
    pendingTokens (pre ++ [t]) = pendingTokens pre ++ [t] := by
  simp [pendingTokens, h]

theorem optWidth_snoc (seg : List Tok) (t : Tok) :
    optWidth (seg ++ [t]) = match t with | .width w => w | _ => optWidth seg := by
  cases t <;> simp [optWidth, Tok.widthOf, List.filterMap_append, List.getLast?_append]

theorem optFmt_snoc (seg : List Tok) (t : Tok) :
    optFmt (seg ++ [t]) = match t with | .fmt s => s | _ => optFmt seg := by
  cases t <;> simp [optFmt, Tok.fmtOf, List.filterMap_append, List.getLast?_append]

theorem optLeft_snoc (seg : List Tok) (t : Tok) :
    optLeft (seg ++ [t]) = (optLeft seg || t == Tok.left) := by
  cases t <;> simp [optLeft]

theorem sepAfter_snoc (init : Text) (ts : List Tok) (t : Tok) :
    sepAfter init (ts ++ [t]) = match t.sepOf with | some s => s | none => sepAfter init ts := by
  cases h : t.sepOf <;> simp [sepAfter, List.filterMap_append, List.getLast?_append, h]

theorem hasFieldBefore_snoc (prior : List Field) (pre : List Tok) (t : Tok) :
    hasFieldBefore prior (pre ++ [t]) = (hasFieldBefore prior pre || t.isAdder) := by
  simp [hasFieldBefore, List.any_append, Bool.or_assoc]

theorem specUpTo_succ (init : Text) (prior : List Field) (ts : List Tok) (n : Nat) :
    specUpTo init prior ts (n + 1) = specUpTo init prior ts n ++ contribution init prior ts n := by
  simp [specUpTo, List.range_succ, List.flatMap_append]

/-! ### the builder follows the specification -/

theorem Creator.run_snoc (c : Creator) (ts : List Tok) (t : Tok) :
    c.run (ts ++ [t]) = (c.run ts).step t := by
  simp [Creator.run, List.foldl_append]

/-- what is known about the creator after the first `n` tokens -/
structure BuilderInv (init : Text) (prior : List Field) (ts : List Tok) (n : Nat) (c : Creator) : Prop where
  fields : c.fields = prior ++ specUpTo init prior ts n
  sep : c.autoSep = sepAfter init (ts.take n)
  width : c.width = optWidth (pendingTokens (ts.take n))
  left : c.left = optLeft (pendingTokens (ts.take n))
  fmt : c.fmt = optFmt (pendingTokens (ts.take n))
  nonempty : (c.fields ≠ []) ↔ hasFieldBefore prior (ts.take n) = true

theorem take_succ_getElem (ts : List Tok) (n : Nat) (t : Tok) (h : ts[n]? = some t) :
    ts.take (n + 1) = ts.take n ++ [t] := by
  rw [List.take_add_one, h]; rfl

theorem builderInv_zero (init : Text) (prior : List Field) (ts : List Tok) (sep : Option Text)
    (hs : init = (match sep with | some s => s | none => [])) :
    BuilderInv init prior ts 0 (Creator.new prior sep) := by
  refine ⟨?_, ?_, ?_, ?_, ?_, ?_⟩
  · simp [Creator.new, specUpTo]
  · cases sep <;> simp_all [Creator.new, sepAfter]
  · simp [Creator.new, pendingTokens, optWidth]
  · simp [Creator.new, pendingTokens, optLeft]
  · simp [Creator.new, pendingTokens, optFmt]
  · simp [Creator.new, hasFieldBefore]

/-- an option token keeps the field list -/
theorem builderInv_opt (init : Text) (prior : List Field) (ts : List Tok) (n : Nat) (c : Creator) (t : Tok)
    (hI : BuilderInv init prior ts n c) (ht : ts[n]? = some t) (ha : t.isAdder = false) :
    BuilderInv init prior ts (n + 1) (c.step t) := by
  have htake := take_succ_getElem ts n t ht
  have hcontrib : contribution init prior ts n = [] := by
    unfold contribution; rw [ht]
    cases t <;> simp_all [fieldOf, Tok.isAdder]
  have hf : (c.step t).fields = c.fields := by
    cases t <;> simp_all [Creator.step, Tok.isAdder, Creator.setFixedWidth, Creator.alignLeft,
      Creator.formatString, Creator.setAutoSep]
    rename_i s; cases s <;> rfl
  refine ⟨?_, ?_, ?_, ?_, ?_, ?_⟩
  · rw [hf, hI.fields, specUpTo_succ, hcontrib, List.append_nil]
  · rw [htake, sepAfter_snoc, ← hI.sep]
    cases t <;> simp_all [Creator.step, Tok.isAdder, Tok.sepOf, Creator.setFixedWidth, Creator.alignLeft,
      Creator.formatString]
    rename_i s; cases s <;> simp [Creator.setAutoSep]
  · rw [htake, pendingTokens_snoc_opt _ _ ha, optWidth_snoc, ← hI.width]
    cases t <;> simp_all [Creator.step, Tok.isAdder, Creator.setFixedWidth, Creator.alignLeft,
      Creator.formatString]
    rename_i s; cases s <;> simp [Creator.setAutoSep]
  · rw [htake, pendingTokens_snoc_opt _ _ ha, optLeft_snoc, ← hI.left]
    cases t <;> simp_all [Creator.step, Tok.isAdder, Creator.setFixedWidth, Creator.alignLeft,
      Creator.formatString]
    rename_i s; cases s <;> simp [Creator.setAutoSep]
  · rw [htake, pendingTokens_snoc_opt _ _ ha, optFmt_snoc, ← hI.fmt]
    cases t <;> simp_all [Creator.step, Tok.isAdder, Creator.setFixedWidth, Creator.alignLeft,
      Creator.formatString]
    rename_i s; cases s <;> simp [Creator.setAutoSep]
  · rw [hf, htake, hasFieldBefore_snoc, ha, Bool.or_false]; exact hI.nonempty

/-- `addField` against the specification -/
theorem builderInv_add (init : Text) (prior : List Field) (ts : List Tok) (n : Nat) (c : Creator) (t : Tok)
    (f : Field) (hI : BuilderInv init prior ts n c) (ht : ts[n]? = some t) (ha : t.isAdder = true)
    (hfo : fieldOf (ts.take n) t = some f) :
    BuilderInv init prior ts (n + 1) (c.addField f) := by
  have htake := take_succ_getElem ts n t ht
  have hcontrib : contribution init prior ts n =
      (if sepAfter init (ts.take n) ≠ [] ∧ hasFieldBefore prior (ts.take n) = true
        then [Creator.sepField (sepAfter init (ts.take n))] else []) ++ [f] := by
    unfold contribution; rw [ht]; simp only [hfo]
  have hfields : (c.addField f).fields = prior ++ specUpTo init prior ts (n + 1) := by
    rw [specUpTo_succ, hcontrib]
    simp only [Creator.addField]
    rw [hI.sep]
    by_cases h1 : sepAfter init (ts.take n) ≠ []
    · by_cases h2 : hasFieldBefore prior (ts.take n) = true
      · have : c.fields ≠ [] := hI.nonempty.mpr h2
        rw [if_pos ⟨h1, this⟩, if_pos ⟨h1, h2⟩, hI.fields]; simp
      · have : ¬ c.fields ≠ [] := fun h => h2 (hI.nonempty.mp h)
        rw [if_neg (fun h => this h.2), if_neg (fun h => h2 h.2), hI.fields]; simp
    · rw [if_neg (fun h => h1 h.1), if_neg (fun h => h1 h.1), hI.fields]; simp
  refine ⟨hfields, ?_, ?_, ?_, ?_, ?_⟩
  · rw [htake, sepAfter_snoc]
    have : t.sepOf = none := by cases t <;> simp_all [Tok.isAdder, Tok.sepOf]
    rw [this]; simp [Creator.addField, hI.sep]
  · rw [htake, pendingTokens_snoc_adder _ _ ha]; simp [Creator.addField, optWidth]
  · rw [htake, pendingTokens_snoc_adder _ _ ha]; simp [Creator.addField, optLeft]
  · rw [htake, pendingTokens_snoc_adder _ _ ha]; simp [Creator.addField, optFmt]
  · rw [htake, hasFieldBefore_snoc, ha, Bool.or_true]
    simp [Creator.addField]

theorem builderInv_step (init : Text) (prior : List Field) (ts : List Tok) (n : Nat) (c : Creator) (t : Tok)
    (hI : BuilderInv init prior ts n c) (ht : ts[n]? = some t) :
    BuilderInv init prior ts (n + 1) (c.step t) := by
  cases hta : t.isAdder with
  | false => exact builderInv_opt init prior ts n c t hI ht hta
  | true =>
    cases t with
    | field k =>
      have := builderInv_add init prior ts n c (.field k) ⟨k, c.fmt, c.width, c.left⟩ hI ht hta
        (by simp [fieldOf, hI.fmt, hI.width, hI.left])
      simpa [Creator.step, Creator.field] using this
    | const s =>
      have := builderInv_add init prior ts n c (.const s) ⟨.constant, s, c.width, c.left⟩ hI ht hta
        (by simp [fieldOf, hI.width, hI.left])
      simpa [Creator.step, Creator.addConstantText] using this
    | attr a =>
      have := builderInv_add init prior ts n c (.attr a) ⟨.attribute, a, c.width, c.left⟩ hI ht hta
        (by simp [fieldOf, hI.width, hI.left])
      simpa [Creator.step, Creator.addAttribute] using this
    | width _ => simp [Tok.isAdder] at hta
    | left => simp [Tok.isAdder] at hta
    | fmt _ => simp [Tok.isAdder] at hta
    | sep _ => simp [Tok.isAdder] at hta

theorem builderInv_take (init : Text) (prior : List Field) (ts : List Tok) (sep : Option Text)
    (hs : init = (match sep with | some s => s | none => [])) :
    ∀ n, n ≤ ts.length → BuilderInv init prior ts n ((Creator.new prior sep).run (ts.take n)) := by
  intro n
  induction n with
  | zero => intro _; simpa [Creator.run] using builderInv_zero init prior ts sep hs
  | succ n ih =>
    intro hn
    have hlt : n < ts.length := hn
    have ht : ts[n]? = some ts[n] := List.getElem?_eq_getElem hlt
    rw [take_succ_getElem ts n ts[n] ht, Creator.run_snoc]
    exact builderInv_step init prior ts n _ _ (ih (Nat.le_of_lt hlt)) ht

/-! ### rendering -/

/-- a text padded to a fixed width (never cut), left- or right-aligned; widths `≤ 0` mean "none" -/
def padded (w : Int) (left : Bool) (s : Text) : Text :=
  if left then s ++ List.replicate (w.toNat - s.length) 32
  else List.replicate (w.toNat - s.length) 32 ++ s

/-- a stream in its default formatting state -/
def OStream.plain (o : Text) : OStream := { out := o, width := 0, left := false, fill := 32 }

theorem append_plain (o : Text) (f : Field) (str : Text) :
    append (OStream.plain o) f str = OStream.plain (o ++ padded f.width f.left str) := by
  unfold append OStream.plain OStream.put padded
  by_cases hw : f.width > 0
  · cases hl : f.left <;> simp [hw]
  · have : f.width.toNat = 0 := by omega
    cases hl : f.left <;> simp [hw, this]

theorem format_plain (e : Env) (m : Msg) (fields : List Field) :
    ∀ o, format e m (OStream.plain o) fields =
      OStream.plain (o ++ (fields.map (fun f => padded f.width f.left (fieldText e m f))).flatten) := by
  induction fields with
  | nil => intro o; simp [format]
  | cons f fs ih =>
    intro o
    have := ih (o ++ padded f.width f.left (fieldText e m f))
    simp only [format, List.foldl_cons, formatField, append_plain] at this ⊢
    rw [this]; simp

theorem padded_length (w : Int) (left : Bool) (s : Text) :
    (padded w left s).length = max w.toNat s.length := by
  unfold padded
  cases left <;> simp <;> omega

/-! ### attributes -/

theorem Attrs.find_eq_some_iff (c : Attrs) (n v : Text) :
    c.find n = some v ↔ ∃ pre post, c = pre ++ (n, v) :: post ∧ ∀ p ∈ post, p.1 ≠ n := by
  unfold Attrs.find
  constructor
  · intro h
    split at h
    · rename_i p hp
      cases h
      rw [List.find?_eq_some_iff_append] at hp
      obtain ⟨hpn, as, bs, hrev, hall⟩ := hp
      have hc : c = bs.reverse ++ p :: as.reverse := by
        have := congrArg List.reverse hrev
        simpa using this
      refine ⟨bs.reverse, as.reverse, ?_, ?_⟩
      · have : p = (n, p.2) := by
          cases p; simp_all
        rw [hc]; rw [← this]
      · intro q hq
        have := hall q (by simpa using hq)
        simpa using this
    · cases h
  · rintro ⟨pre, post, rfl, hpost⟩
    have : (pre ++ (n, v) :: post).reverse.find? (fun p => decide (p.1 = n)) = some (n, v) := by
      rw [List.find?_eq_some_iff_append]
      refine ⟨by simp, post.reverse, pre.reverse, by simp, ?_⟩
      intro a ha
      have := hpost a (by simpa using ha)
      simpa using this
    rw [this]

theorem Attrs.find_eq_none_iff (c : Attrs) (n : Text) :
    c.find n = none ↔ ∀ p ∈ c, p.1 ≠ n := by
  unfold Attrs.find
  constructor
  · intro h
    split at h
    · cases h
    · rename_i hnone
      rw [List.find?_eq_none] at hnone
      intro p hp
      have := hnone p (by simpa using hp)
      simpa using this
  · intro h
    have : c.reverse.find? (fun p => decide (p.1 = n)) = none := by
      rw [List.find?_eq_none]
      intro p hp
      have := h p (by simpa using hp)
      simpa using this
    rw [this]

/-- removing by name takes away the newest entry of that name -/
theorem Attrs.remove_last (a g : Attrs) (n v : Text) (hg : ∀ p ∈ g, p.1 ≠ n) :
    Attrs.remove (a ++ (n, v) :: g) n = a ++ g := by
  unfold Attrs.remove
  have hrev : (a ++ (n, v) :: g).reverse = g.reverse ++ (n, v) :: a.reverse := by simp
  rw [hrev, List.eraseP_append_right]
  · simp
  · intro b hb
    have := hg b (by simpa using hb)
    simpa using this

/-- removing a name that is not there changes nothing -/
theorem Attrs.remove_absent (c : Attrs) (n : Text) (h : ∀ p ∈ c, p.1 ≠ n) : Attrs.remove c n = c := by
  unfold Attrs.remove
  rw [List.eraseP_of_forall_not]
  · simp
  · intro b hb
    have := h b (by simpa using hb)
    simpa using this

/-! ### file name -/

theorem baseName_of_split (dir base : Text) (h : ∀ b ∈ base, b ≠ 47) :
    baseName (dir ++ 47 :: base) = base := by
  unfold baseName
  have hne : dir ++ 47 :: base ≠ [] := by simp
  rw [if_neg hne]
  have hc : (dir ++ 47 :: base).contains 47 = true := by simp
  rw [if_pos hc]
  have hrev : (dir ++ 47 :: base).reverse = base.reverse ++ 47 :: dir.reverse := by simp
  rw [hrev, List.takeWhile_append_of_pos]
  · simp
  · intro b hb
    have := h b (by simpa using hb)
    simpa using this

theorem baseName_no_slash (p : Text) (h : ∀ b ∈ p, b ≠ 47) : baseName p = p := by
  unfold baseName
  by_cases hp : p = []
  · rw [if_pos hp]
  · rw [if_neg hp]
    have : p.contains 47 = false := by
      rw [Bool.eq_false_iff]
      intro hc
      have := List.contains_iff_mem.mp hc
      exact h 47 this rfl
    rw [this]; simp

end CelmaVerif.LogFormat
