import CelmaVerif.Lemmas.FixedStringC11All
import CelmaVerif.Lemmas.FixedStringC11Dev
import CelmaVerif.Lemmas.FixedStringC11DevStep
import CelmaVerif.Lemmas.FixedStringC11DevNul
import CelmaVerif.Lemmas.FixedStringC11DevIt

/-!
# C11 — the `std::string` side of the deviation theorems, written out (audit 3, weakness 3)

Every `C11_deviation_*` theorem states what the code answers AND what `std::string` answers.  This file supplies the
textbook halves that were missing: the value of `spec` for a search as an explicit `famStd` term, the textbook
answers for an empty needle (`find_last_not_of( "")` included), for a count behind the terminator, and the fact that
`replace( first, last, first2, end())` returns under the caller contract.
-/

namespace CelmaVerif.FixedString
open CelmaVerif

variable {c cu : Cfg} {w : World}

/-- the textbook answer of every search overload, as one explicit term: family, content, needle text, start position
    (`famDflt`: 0 for the forward families, `npos` for the backward ones when the position is defaulted) -/
theorem spec_search (c : Cfg) (w : World) (fam : Fam) (nd : Needle) :
    spec id (npos c) w (.search fam nd) =
      .ok (abs w.s, .pos (famStd fam (abs w.s) (needleText w nd) (needlePos (famDflt c fam) nd))) := by
  cases fam <;> rfl

/-! ### empty needle -/

theorem std_findIdxUpTo_true {p : Byte → Bool} (hp : ∀ b, p b = true) : ∀ (l : Str) (i lim : Nat) (best : Option Nat),
    StdString.findIdxUpTo p l i lim best =
      if i ≤ lim ∧ 0 < l.length then some (min lim (i + l.length - 1)) else best := by
  intro l
  induction l with
  | nil => intro i lim best; simp [StdString.findIdxUpTo]
  | cons b bs ih =>
    intro i lim best
    unfold StdString.findIdxUpTo
    by_cases h : i > lim
    · rw [if_pos h, if_neg (by omega)]
    · rw [if_neg h, ih, hp b]
      by_cases h2 : i + 1 ≤ lim ∧ 0 < bs.length
      · rw [if_pos h2, if_pos ⟨by omega, by simp⟩]; simp only [List.length_cons]; congr 1; omega
      · have hr : i ≤ lim ∧ 0 < (b :: bs).length := ⟨by omega, by simp⟩
        rw [if_neg h2, if_pos hr, if_pos rfl]; simp only [List.length_cons]; congr 1; omega

/-- every character is outside the empty set: `find_last_not_of( "", pos)` is the last index `≤ pos` -/
theorem std_flno_empty (x : Str) (pos : Nat) :
    StdString.findLastNotOf x [] pos = if 0 < x.length then some (min pos (x.length - 1)) else none := by
  unfold StdString.findLastNotOf StdString.findLast
  rw [std_findIdxUpTo_true (p := fun b => !([] : Str).contains b) (fun b => by simp)]
  simp only [Nat.zero_le, true_and, Nat.zero_add]

theorem std_findIdxUpTo_false : ∀ (l : Str) (i lim : Nat) (best : Option Nat),
    StdString.findIdxUpTo (fun _ => false) l i lim best = best := by
  intro l
  induction l with
  | nil => intro i lim best; rfl
  | cons b bs ih =>
    intro i lim best
    unfold StdString.findIdxUpTo
    split
    · rfl
    · rw [ih]; rfl

/-- no character is in the empty set: `find_last_of( "", pos)` finds nothing (here the code agrees) -/
theorem std_flo_empty (x : Str) (pos : Nat) : StdString.findLastOf x [] pos = none := by
  unfold StdString.findLastOf StdString.findLast
  exact std_findIdxUpTo_false x 0 pos none

/-- what `std::string` answers for an empty needle: `contains( "")` is true, the searches answer the textbook value
    for the empty text (`C11_std_empty_needle` gives each of the six in closed form) -/
def emptyStd (c : Cfg) (w : World) : Op → Out
  | .ctF _ | .ctS _ | .ctP _ => .bool true
  | .search fam nd => .pos (famStd fam (abs w.s) [] (needlePos (famDflt c fam) nd))
  | _ => .unit

theorem dev_emptyNeedle_text {fam : Fam} {nd : Needle}
    (hk : devCase (npos c) w (.search fam nd) = some .emptyNeedle) : needleText w nd = [] := by
  by_cases h0 : (needleText w nd).length = 0
  · exact List.eq_nil_of_length_eq_zero h0
  · exfalso
    simp only [devCase, if_neg h0, countCase] at hk
    repeat' (split at hk)
    all_goals (cases hk)

theorem dev_spec_emptyNeedle (op : Op) (hk : devCase (npos c) w op = some .emptyNeedle) :
    spec id (npos c) w op = .ok (abs w.s, emptyStd c w op) := by
  cases op
  case search fam nd => rw [spec_search, dev_emptyNeedle_text hk]; rfl
  case ctF f =>
    simp only [devCase] at hk; split at hk
    · rename_i h0
      have : w.text f = [] := List.eq_nil_of_length_eq_zero h0
      simp only [spec, this, std_contains_empty, emptyStd]
    · cases hk
  case ctS d =>
    simp only [devCase] at hk; split at hk
    · rename_i h0
      have : d = [] := List.eq_nil_of_length_eq_zero h0
      simp only [spec, this, std_contains_empty, emptyStd]
    · cases hk
  case ctP a =>
    simp only [devCase] at hk; split at hk
    · rename_i h0
      have : StdString.ofCStr a = [] := List.eq_nil_of_length_eq_zero h0
      simp only [spec, this, std_contains_empty, emptyStd]
    · cases hk
  all_goals dev_other

/-! ### backward search from a position at or behind the end -/

theorem dev_backward_fam {fam : Fam} {nd : Needle}
    (hk : devCase (npos c) w (.search fam nd) = some .backwardBeyondEnd) : famDflt c fam = npos c := by
  by_cases h0 : (needleText w nd).length = 0
  · exfalso
    simp only [devCase, if_pos h0] at hk
    cases fam <;> cases nd <;> cases hk
  · simp only [devCase, if_neg h0] at hk
    cases fam
    case find => cases hk
    case ffo => exact absurd hk (bb_nul_ne _)
    case ffno => exact absurd hk (bb_nul_ne _)
    all_goals rfl

/-- the textbook answer is the one for the start position `npos`, as an explicit value -/
theorem dev_spec_backwardBeyondEnd (hc : CfgOK c) (hw : WFW c cu w) (fam : Fam) (nd : Needle)
    (ha : ArgsOK c w (.search fam nd)) (hsz : needlePos (npos c) nd < c.W)
    (hk : devCase (npos c) w (.search fam nd) = some .backwardBeyondEnd) :
    spec id (npos c) w (.search fam nd) =
      .ok (abs w.s, .pos (famStd fam (abs w.s) (needleText w nd) (npos c))) := by
  rw [(dev_step_backwardBeyondEnd hc hw fam nd ha hsz hk).2.2, spec_search, dev_backward_fam hk]
  have hT : needleText w (nd.atNpos (npos c)) = needleText w nd := by cases nd <;> rfl
  have hP : needlePos (npos c) (nd.atNpos (npos c)) = npos c := by cases nd <;> rfl
  rw [hT, hP]

/-! ### a count behind the terminator -/

/-- the textbook answer of the four `(p, n)` overloads as a function of the text `r` they take from `p`
    (`std::string`: `r = [p, p + n)`; the code: `r = [p, p + strlen( p))`) -/
def countOn (x r : Str) : Op → Res (Str × Out)
  | .appendPC _ _ => .ok (x ++ r, .unit)
  | .repCCPC p n _ _ => thenS (StdString.replace x p n r)
  | .cmpCCPC p n _ _ => bindR (StdString.substr x p n) fun y => .ok (x, .int (StdString.compare y r))
  | .search .rfind (.ppc _ p _) => .ok (x, .pos (StdString.rfind x r p))
  | _ => .ok (x, .unit)

theorem dev_take_ofCStr_len {a : List Byte} (h0 : (0 : Byte) ∈ a) :
    a.take (StdString.ofCStr a).length = StdString.ofCStr a := by
  obtain ⟨k0, hk0, hlen⟩ := dev_count_len h0
  rw [hlen, ← ofCStr_take hk0]

theorem cmpOut_clampCount (op : Op) : CmpOut (clampCount op) ↔ CmpOut op := by
  cases op <;> try exact Iff.rfl
  case search fam nd => cases fam <;> cases nd <;> exact Iff.rfl

/-- **Both answers for a count behind the terminator.**  `std::string` computes the textbook function on the `k`
    bytes `a.take k`; the clamped call is specified by the same function on `ofCStr a`, and whenever the clamped call
    lies in the domain the code's result IS that value cut at the capacity (through `c11_step`). -/
theorem dev_spec_countBeyondTerminator (hc : CfgOK c) (hw : WFW c cu w) (op : Op)
    (hk : devCase (npos c) w op = some .countBeyondTerminator) :
    ∃ a k, countArg op = some (a, k) ∧
      spec id (npos c) w op = countOn (abs w.s) (a.take k) op ∧
      spec id (npos c) w (clampCount op) = countOn (abs w.s) (StdString.ofCStr a) op ∧
      (ArgsOK c w (clampCount op) → inDomain (npos c) w (clampCount op) = true →
        ∀ w' o, step c cu w op = .ok (w', o) →
          ∃ t o', countOn (abs w.s) (StdString.ofCStr a) op = .ok (t, o') ∧ abs w'.s = t.take c.L ∧ o = o') := by
  obtain ⟨hstep, a, k, hca, _, _⟩ := dev_step_countBeyondTerminator (c := c) (cu := cu) op hk
  have h0 : (0 : Byte) ∈ a := by
    cases op <;> simp only [countArg] at hca <;> try (cases hca; done)
    case appendPC a' k' => cases hca; simp only [devCase] at hk; exact (countCase_inv hk).1
    case repCCPC p n a' k' => cases hca; simp only [devCase] at hk; exact (countCase_inv hk).1
    case cmpCCPC p n a' k' => cases hca; simp only [devCase] at hk; exact (countCase_inv hk).1
    case search fam nd =>
      cases fam <;> cases nd <;> try (cases hca; done)
      cases hca
      simp only [devCase] at hk
      split at hk
      · cases hk
      · exact (countCase_inv hk).1
  have hs1 : spec id (npos c) w op = countOn (abs w.s) (a.take k) op := by
    cases op <;> simp only [countArg] at hca <;> try (cases hca; done)
    case search fam nd =>
      cases fam <;> cases nd <;> try (cases hca; done)
      cases hca; rfl
    all_goals (cases hca; rfl)
  have hs2 : spec id (npos c) w (clampCount op) = countOn (abs w.s) (StdString.ofCStr a) op := by
    cases op <;> simp only [countArg] at hca <;> try (cases hca; done)
    case search fam nd =>
      cases fam <;> cases nd <;> try (cases hca; done)
      cases hca
      simp only [clampCount, spec, needleText, needlePos, countOn, dev_take_ofCStr_len h0]
    all_goals (cases hca; simp only [clampCount, spec, countOn, dev_take_ofCStr_len h0, okS]; try rfl)
  refine ⟨a, k, hca, hs1, hs2, fun ha hd w' o hst => ?_⟩
  rw [hstep] at hst
  obtain ⟨t, o', h1, h2, h3⟩ := c11_step hc hw (clampCount op) ha hd w' o hst
  refine ⟨t, o', by rw [← hs2]; exact h1, h2, h3 ?_⟩
  rw [cmpOut_clampCount]
  cases op <;> simp only [countArg] at hca <;> first | (cases hca; done) | trivial

/-! ### `replace( first, last, first2, end())`: the call returns under the caller contract -/

theorem dev_returns_repItItItIt (hc : CfgOK c) (hcu : CfgOK cu) (hw : WFW c cu w) (f l i j : ItArg)
    (ha : ArgsOK c w (.repItItItIt f l i j)) : ∃ w' o, step c cu w (.repItItItIt f l i j) = .ok (w', o) := by
  rcases step_safe hc hcu hw _ ha with ⟨w', o, h, _⟩ | ⟨e, _, hm⟩
  · exact ⟨w', o, h⟩
  · exact absurd hm (by simp [MayThrow])

end CelmaVerif.FixedString
