import CelmaVerif.Model.Containers
/-
  The tokenizer of the container destinations: a value string written as elements joined by the list separator
  is split back into exactly its non-empty elements.
-/
namespace CelmaVerif.Containers

theorem splitAll_cons_ne {sep c : Char} (cs : List Char) (h : c ≠ sep) :
    splitAll sep (c :: cs) = consHead c (splitAll sep cs) := by
  rw [splitAll, if_neg h]

theorem splitAll_nosep (sep : Char) : ∀ (e : List Char), sep ∉ e → splitAll sep e = [e]
  | [], _ => rfl
  | c :: cs, h => by
    have hc : c ≠ sep := fun hc => h (hc ▸ List.mem_cons_self)
    have hcs : sep ∉ cs := fun h' => h (List.mem_cons_of_mem _ h')
    rw [splitAll_cons_ne cs hc, splitAll_nosep sep cs hcs]; rfl

theorem splitAll_append_sep (sep : Char) (r : List Char) :
    ∀ (e : List Char), sep ∉ e → splitAll sep (e ++ sep :: r) = e :: splitAll sep r
  | [], _ => by simp [splitAll]
  | c :: cs, h => by
    have hc : c ≠ sep := fun hc => h (hc ▸ List.mem_cons_self)
    have hcs : sep ∉ cs := fun h' => h (List.mem_cons_of_mem _ h')
    simp only [List.cons_append]
    rw [splitAll_cons_ne _ hc, splitAll_append_sep sep r cs hcs]; rfl

theorem splitAll_joinSep (sep : Char) : ∀ (els : List (List Char)), (∀ e ∈ els, sep ∉ e) → els ≠ [] →
    splitAll sep (joinSep sep els) = els
  | [], _, h => absurd rfl h
  | [e], h, _ => by
    simp only [joinSep]
    exact splitAll_nosep sep e (h e List.mem_cons_self)
  | e :: e' :: es, h, _ => by
    simp only [joinSep]
    rw [splitAll_append_sep sep _ e (h e List.mem_cons_self)]
    congr 1
    exact splitAll_joinSep sep (e' :: es) (fun x hx => h x (List.mem_cons_of_mem _ hx)) (by simp)

/-- `Tokenizer( joinSep els, sep)` yields the non-empty elements, in order -/
theorem tokens_joinSep (sep : Char) (els : List (List Char)) (h : ∀ e ∈ els, sep ∉ e) :
    tokens sep (joinSep sep els) = els.filter (fun t => decide (t ≠ [])) := by
  unfold tokens
  cases els with
  | nil => simp [joinSep, splitAll]
  | cons e es => rw [splitAll_joinSep sep (e :: es) h (by simp)]

/-- tokens are never empty -/
theorem tokens_ne_nil {sep : Char} {s t : List Char} (h : t ∈ tokens sep s) : t ≠ [] := by
  unfold tokens at h
  have := (List.mem_filter.mp h).2
  simpa using this

end CelmaVerif.Containers
