import CelmaVerif.Lemmas.KeysSub
import CelmaVerif.Lemmas.GroupsNormal
import CelmaVerif.Model.ProgArgs.SubGroups
/-
  The evaluation function `processArgT` (what the driver runs for every key element) tied to the
  one-key-space specification `lookupSpec` on `unionTable`: which branch `processArg` of a handler
  with sub-group arguments takes is decided by the single-table lookup over ALL keys of the handler.
  A `processArgT` that called the pinned `findSubHead`, or handed its two tables to `findSub` in the
  wrong order, violates `processArgT_lookup` (witness: plain `out`, sub-group `output`, key `out`).
  Also: `cmdLookupT` (key word → entry over both containers) is `cmdLookup` on the joined table.
-/
namespace CelmaVerif.Keys
open CelmaVerif

/-- the entry `findSub` answers with is the entry at that index of the sub-group table -/
theorem findSub_index {α β : Type} (abbr : Bool) (subT : List (Key × α)) (plainT : List (Key × β)) (k : Key)
    (j : Nat) (a : α) (h : findSub abbr subT plainT k = .ok (some (j, a))) : ∃ key, subT[j]? = some (key, a) := by
  unfold findSub at h
  cases hS : findExact k subT 0 with
  | some r =>
    rw [hS] at h
    simp only [Res.ok.injEq, Option.some.injEq] at h
    subst h
    obtain ⟨key, _, h2, _⟩ := findExact_some k subT 0 j a hS
    exact ⟨key, by simpa using h2⟩
  | none =>
    rw [hS] at h
    dsimp only at h
    cases hP : findExact k plainT 0 with
    | some r => rw [hP] at h; cases h
    | none =>
      rw [hP] at h
      dsimp only at h
      cases hs : findArg abbr subT k with
      | ok s =>
        rw [hs] at h
        simp only [Res.bind_ok] at h
        cases s with
        | none => cases h
        | some r =>
          dsimp only at h
          cases hp : findArg abbr plainT k with
          | ok p =>
            rw [hp] at h
            simp only [Res.bind_ok] at h
            cases p with
            | some _ => cases h
            | none =>
              simp only [Res.pure_eq, Res.ok.injEq, Option.some.injEq] at h
              subst h
              obtain ⟨key, h2, _⟩ := findArg_index abbr subT k j a hs
              exact ⟨key, h2⟩
          | throw e => rw [hp] at h; cases h
          | oob w => rw [hp] at h; cases h
      | throw e => rw [hs] at h; cases h
      | oob w => rw [hs] at h; cases h

/-- `lookupSpec` under a relabelling of the payloads -/
theorem lookupSpec_map {γ δ : Type} (f : γ → δ) (abbr : Bool) (t : List (Key × γ)) (k : Key) :
    lookupSpec abbr (t.map (fun e => (e.1, f e.2))) k =
      (match lookupSpec abbr t k with
       | .ok o => .ok (o.map f)
       | .throw e => .throw e
       | .oob w => .oob w) := by
  unfold lookupSpec
  rw [List.find?_map, List.filter_map]
  simp only [Function.comp_def]
  cases t.find? (fun e => e.1.eq k) with
  | some e => rfl
  | none =>
    simp only [Option.map_none]
    cases abbr with
    | false => rfl
    | true =>
      simp only [if_true]
      cases hf : t.filter (fun e => e.1.startsWith k) with
      | nil => rfl
      | cons a l =>
        cases l with
        | nil => rfl
        | cons b l => rfl

/-- **`cmdLookupT` is `cmdLookup` on the joined table**: the entry a key word selects in a handler
    with both containers (`findSub`, then `mArguments.findArg`) is the entry the single-container
    command-line lookup selects in the table "sub-group arguments, then plain arguments" -/
theorem cmdLookupT_eq {α : Type} (abbr : Bool) (plainT subT : List (Key × α)) (w : List Char) :
    payload (cmdLookupT abbr plainT subT w) = payload (cmdLookup abbr (subT ++ plainT) w) := by
  unfold cmdLookupT cmdLookup
  cases classifyWord w with
  | none => rfl
  | some cw =>
    dsimp only
    cases cmdKey cw with
    | throw e => rfl
    | oob x => rfl
    | ok k =>
      simp only [Res.bind_ok]
      rw [findArg_spec]
      have hu : subT ++ plainT = (unionTable subT plainT).map (fun e => (e.1, Sum.elim id id e.2)) := by
        unfold unionTable
        simp [List.map_append, List.map_map, Function.comp_def]
      rw [hu, lookupSpec_map, ← lookupBoth_eq_union]
      unfold lookupBoth
      cases hs : findSub abbr subT plainT k with
      | ok o =>
        cases o with
        | some r => obtain ⟨j, a⟩ := r; rfl
        | none =>
          simp only [Res.bind_ok]
          cases findArg abbr plainT k with
          | ok p =>
            cases p with
            | some r => obtain ⟨j, a⟩ := r; rfl
            | none => rfl
          | throw e => rfl
          | oob x => rfl
      | throw e => rfl
      | oob x => rfl

end CelmaVerif.Keys

namespace CelmaVerif.ProgArgs
open CelmaVerif CelmaVerif.Keys

/-- the sub-group branch of `Handler::processArg` for the entry `(j, d)` of `mSubGroupArgs`:
    `handleIdentifiedArg`, the copy of the cursor and its `++`, the sub handler's loop,
    `mpLastArg = nullptr`, answer `consumed` -/
def subGroupBranch (cfg : TCfg) (t : TState) (j : Nat) (d : SubDef) (ai : It) : Res (TState × It × ArgResult) := do
  let t ← handleIdentifiedSub cfg t j d
  let subAI ← ai.step
  let (sh, ai') ← subLoop d.sub (totalChars ai.argv) (t.subs.getD j default) ai subAI
  pure ({ t with subs := t.subs.set j sh, main := { t.main with lastArg := none } }, ai', .consumed)

/-- the plain branch for the entry `(i, a)` of `mArguments`: value (by the argument's value mode),
    `handleIdentifiedArg`, answer `consumed` -/
def plainBranch (cfg : TCfg) (t : TState) (i : Nat) (a : ArgDef) (ai : It) : Res (TState × It × ArgResult) :=
  liftMain t (valueFor a ai >>= fun x =>
    handleIdentifiedArg cfg.main { t.main with lastArg := some i } i a x.1 >>= fun h' => pure (h', x.2, .consumed))

/-- **`processArg` takes the branch the one-table lookup over all keys of the handler selects.**
    For every tree, state, key and cursor: with `lookupSpec` on `unionTable` (first entry that equals
    the key; else, abbreviations allowed, the unique entry that starts with it; ambiguous ⇒
    `runtime_error`) answering
    * a sub-group argument `d`: `processArgT` runs the sub-group branch for an index `j` with
      `cfg.subs[j] = d`;
    * a plain argument `a`: it runs the plain branch for an index `i` with `cfg.main.args[i] = a`;
    * nothing: it answers `unknown` (only `mpLastArg` reset);
    * an exception: it throws that exception. -/
theorem processArgT_lookup (cfg : TCfg) (t : TState) (key : Key) (ai : It) :
    match lookupSpec cfg.main.abbr (unionTable cfg.subTable cfg.main.table) key with
    | .ok (some (.inl d)) => ∃ j, cfg.subs[j]? = some d ∧ processArgT cfg t key ai = subGroupBranch cfg t j d ai
    | .ok (some (.inr a)) => ∃ i, cfg.main.args[i]? = some a ∧ processArgT cfg t key ai = plainBranch cfg t i a ai
    | .ok none => processArgT cfg t key ai = .ok ({ t with main := { t.main with lastArg := none } }, ai, .unknown)
    | .throw e => processArgT cfg t key ai = .throw e
    | .oob w => processArgT cfg t key ai = .oob w := by
  rw [← lookupBoth_eq_union]
  unfold lookupBoth
  cases hs : findSub cfg.main.abbr cfg.subTable cfg.main.table key with
  | ok o =>
    cases o with
    | some r =>
      obtain ⟨j, d⟩ := r
      dsimp only
      obtain ⟨k', hk'⟩ := findSub_index _ _ _ _ j d hs
      refine ⟨j, ?_, ?_⟩
      · unfold TCfg.subTable at hk'
        rw [List.getElem?_map] at hk'
        cases hj : cfg.subs[j]? with
        | none => rw [hj] at hk'; cases hk'
        | some d' =>
          rw [hj] at hk'
          simp only [Option.map_some, Option.some.injEq, Prod.mk.injEq] at hk'
          rw [hk'.2]
      · unfold processArgT subGroupBranch
        rw [hs]
        rfl
    | none =>
      dsimp only
      have hproc : processArgT cfg t key ai = liftMain t (processArg cfg.main t.main key ai) := by
        unfold processArgT; rw [hs]; rfl
      cases hp : findArg cfg.main.abbr cfg.main.table key with
      | ok p =>
        cases p with
        | some r =>
          obtain ⟨i, a⟩ := r
          dsimp only
          obtain ⟨k', hk', _⟩ := findArg_index _ _ _ i a hp
          refine ⟨i, ?_, ?_⟩
          · unfold Cfg.table at hk'
            rw [List.getElem?_map] at hk'
            cases hi : cfg.main.args[i]? with
            | none => rw [hi] at hk'; cases hk'
            | some a' =>
              rw [hi] at hk'
              simp only [Option.map_some, Option.some.injEq, Prod.mk.injEq] at hk'
              rw [hk'.2]
          · rw [hproc, processArg_found_eq cfg.main t.main key ai i a hp]
            rfl
        | none =>
          dsimp only
          rw [hproc, processArg_unknown cfg.main t.main key ai hp]
          rfl
      | throw e =>
        dsimp only
        rw [hproc]; unfold processArg; rw [hp]; rfl
      | oob w =>
        dsimp only
        rw [hproc]; unfold processArg; rw [hp]; rfl
  | throw e =>
    dsimp only
    unfold processArgT; rw [hs]; rfl
  | oob w =>
    dsimp only
    unfold processArgT; rw [hs]; rfl

end CelmaVerif.ProgArgs
