import CelmaVerif.Lemmas.RulesProgress
/-
  Rules layer, part 8: the invariants of the completeness direction — everything in the run-time
  state has a reason in the uses so far (pending entries, remaining all-of keys, counters, hasValue).
-/
namespace CelmaVerif.ProgArgs
open CelmaVerif CelmaVerif.Keys

theorem assignVecLoop_cnt_none (d : ArgDef) (hl : d.card.limit = none) :
    ∀ (ts : List Word) (first : Bool) (st st' : ArgSt), assignVecLoop d ts first st = .ok st' → st'.cnt = st.cnt := by
  intro ts
  induction ts with
  | nil => intro first st st' e; simp only [assignVecLoop] at e; cases e; rfl
  | cons t ts ih =>
    intro first st st' e
    simp only [assignVecLoop, bind_eq_ok, countValue] at e
    obtain ⟨cnt, hc, _, _, v, _, e⟩ := e
    have := ih _ _ _ e
    rw [this]
    show cnt = st.cnt
    split at hc
    · cases hc; rfl
    · exact gotValue_ok_none hl hc

theorem assignDest_cnt_none {d : ArgDef} (hl : d.card.limit = none) {st st' : ArgSt} {v : Word}
    (e : assignDest d st v = .ok st') : st'.cnt = st.cnt := by
  by_cases hk : d.kind = .vecInt
  · unfold assignDest at e
    rw [hk] at e
    exact assignVecLoop_cnt_none d hl _ _ _ _ e
  · exact assignDest_cnt_scalar hk e

theorem eraseFirstEq_sublist (t : Key) : ∀ (l : List Key), (eraseFirstEq t l).Sublist l := by
  intro l
  induction l with
  | nil => exact List.Sublist.slnil
  | cons x xs ih =>
    simp only [eraseFirstEq]
    split
    · exact List.sublist_cons_self x xs
    · exact List.Sublist.cons_cons x ih

/-- when no two keys of the list `==` the same key `t`, erasing the first one that does leaves none -/
theorem eraseFirstEq_none (t : Key) : ∀ (l : List Key),
    l.Pairwise (fun x y => ¬ (x.eq t = true ∧ y.eq t = true)) → ∀ k ∈ eraseFirstEq t l, k.eq t = false := by
  intro l
  induction l with
  | nil => intro _ k hk; cases hk
  | cons x xs ih =>
    intro hp k hk
    rw [List.pairwise_cons] at hp
    simp only [eraseFirstEq] at hk
    split at hk
    · rename_i hx
      have := hp.1 k hk
      cases hkt : k.eq t with
      | false => rfl
      | true => exact absurd ⟨hx, hkt⟩ this
    · rename_i hx
      rcases List.mem_cons.mp hk with rfl | hk
      · simpa using hx
      · exact ih hp.2 k hk

/-- reasons for what is in the state -/
structure CInv (cfg : Cfg) (inits : List DVal) (h : HState) : Prop where
  /-- every pending entry was activated by a use, and a pending requirement was not met since -/
  origin : ∀ e ∈ h.pending, ∃ (p : Nat) (u : Use) (d : ArgDef) (ks : List Key),
    h.uses[p]? = some u ∧ cfg.args[u.arg]? = some d ∧ (e.2, ks) ∈ d.constraints ∧ e.1 ∈ ks ∧
    (e.2 = .required → ∀ (q : Nat) (w : Use), p < q → h.uses[q]? = some w → w.ident = true →
      ¬ Designates cfg e.1 w.arg)
  /-- all-of: the remaining keys are listed keys, and none of them designates an argument given so far -/
  remaining : ∀ (n : Nat) (g : GDef) (st : GSt), cfg.globals[n]? = some g → h.globals[n]? = some st →
    g.kind = .allOf → st.remaining.Sublist g.keys ∧
      ∀ k ∈ st.remaining, ∀ u ∈ h.uses, u.ident = true → ¬ Designates cfg k u.arg
  /-- a cardinality object that does not count stays at zero -/
  idle : ∀ (i : Nat) (d : ArgDef) (st : ArgSt), cfg.args[i]? = some d → h.args[i]? = some st →
    d.card.limit = none → st.cnt = 0
  /-- an argument that was given (a list: with at least one element, or holding elements initially)
      has a value -/
  hasValue : ∀ (i : Nat) (d : ArgDef) (st : ArgSt), cfg.args[i]? = some d → h.args[i]? = some st →
    ((∃ u ∈ h.uses, u.arg = i ∧ (d.kind = .vecInt → splitSep d.sep u.val ≠ [])) ∨
      (d.kind = .vecInt ∧ ∃ l, inits[i]? = some (.vec l) ∧ l ≠ [])) →
    st.hasValue d.kind = true

theorem cInv_init (cfg : Cfg) (inits : List DVal) (hin : cfg.args.length ≤ inits.length) :
    CInv cfg inits (cfg.initState inits) := by
  refine ⟨?_, ?_, ?_, ?_⟩
  · intro e he; simp [Cfg.initState] at he
  · intro n g st hg hs hk
    simp only [Cfg.initState, List.getElem?_map, hg, Option.map_some, Option.some.injEq] at hs
    subst hs
    refine ⟨by simp [hk], ?_⟩
    intro k _ u hu; simp [Cfg.initState] at hu
  · intro i d st hi hs _
    obtain ⟨v, _, hst⟩ := initState_args cfg inits i d hi hin
    rw [hst] at hs; cases hs; rfl
  · intro i d st hi hs hu
    obtain ⟨v, hv, hst⟩ := initState_args cfg inits i d hi hin
    rw [hst] at hs; cases hs
    rcases hu with ⟨u, hu, _⟩ | ⟨hk, l, hl, hne⟩
    · simp [Cfg.initState] at hu
    · rw [hv] at hl; cases hl
      rw [hk]; simp [ArgSt.hasValue, hne]

theorem hasValue_after {d : ArgDef} {st st' : ArgSt} {v : Word}
    (e : assignDest d st v = .ok st')
    (hv : st.hasValue d.kind = true ∨ (d.kind = .vecInt → splitSep d.sep v ≠ [])) :
    st'.hasValue d.kind = true := by
  have eff := assignDest_effect e
  unfold ArgSt.hasValue at hv ⊢
  cases hkk : d.kind with
  | flag => rw [hkk] at eff; exact eff.2
  | int => rw [hkk] at eff; exact eff.2
  | str => rw [hkk] at eff; exact eff.2
  | level =>
    rw [hkk] at eff; dsimp only at eff ⊢
    rw [eff.2.1, eff.2.2]
    cases v.isEmpty <;> simp
  | vecInt =>
    rw [hkk] at eff hv; dsimp only at eff hv ⊢
    rw [eff.2]
    by_cases hs : splitSep d.sep v = []
    · rw [if_pos hs]
      rcases hv with hv | hv
      · exact hv
      · exact absurd hs (hv rfl)
    · rw [if_neg hs]
      simp [castAll, hs]

theorem cInv_step {cfg : Cfg} (wf : cfg.WellFormed) {inits : List DVal} {h : HState} {u : Use} {h' : HState}
    (f : Frame cfg h) (a : CInv cfg inits h) (e : applyUse cfg h u = .ok h') : CInv cfg inits h' := by
  obtain ⟨d, pend, cnt, st', s⟩ := applyUse_ok e
  have hsub : ∀ x ∈ pend, x ∈ h.pending ∧ (u.ident = true → x.1.eq d.key = false) := by
    intro x hx
    cases hi : u.ident with
    | true =>
      have := ((pendingIdentified_ok (s.pendI hi)).2 x).mp hx
      exact ⟨this.1, fun _ => this.2⟩
    | false => rw [s.pendF hi] at hx; exact ⟨hx, fun c => by cases c⟩
  refine ⟨?_, ?_, ?_, ?_⟩
  · intro x hx
    rw [s.pending'] at hx
    rcases activate_origin _ _ _ hx with hx | ⟨c, hc, h1, h2⟩
    · obtain ⟨hx0, hne⟩ := hsub x hx
      obtain ⟨p, u0, d0, ks, hu0, hd0, hc0, hk0, hnot⟩ := a.origin x hx0
      refine ⟨p, u0, d0, ks, by rw [s.uses']; exact getElem?_snoc_of hu0, hd0, hc0, hk0, ?_⟩
      intro hreq q w hpq hw hwi
      rw [s.uses'] at hw
      by_cases hq : q < h.uses.length
      · exact hnot hreq q w hpq (getElem?_snoc_lt hw hq) hwi
      · obtain ⟨_, hwu⟩ := getElem?_snoc_ge hw hq
        subst hwu
        rintro ⟨d', hd', he'⟩
        rw [s.arg] at hd'; cases hd'
        rw [hne hwi] at he'; cases he'
    · refine ⟨h.uses.length, u, d, c.2, by rw [s.uses']; simp, s.arg, by rw [h2]; exact hc, h1, ?_⟩
      intro _ q w hpq hw
      have := (List.getElem?_eq_some_iff.mp hw).1
      rw [s.uses'] at this
      simp only [List.length_append, List.length_singleton] at this
      omega
  · intro n g st1 hg hs1 hk
    cases hi : u.ident with
    | false =>
      rw [s.globF hi] at hs1
      obtain ⟨h1, h2⟩ := a.remaining n g st1 hg hs1 hk
      refine ⟨h1, ?_⟩
      intro k hkm w hw hwi
      rw [s.uses'] at hw
      rcases List.mem_append.mp hw with hw | hw
      · exact h2 k hkm w hw hwi
      · simp only [List.mem_singleton] at hw; subst hw; rw [hi] at hwi; cases hwi
    | true =>
      cases h0 : h.globals[n]? with
      | none =>
        exfalso
        have := executeGlobals_length_le _ _ _ _ (s.globI hi)
        have h2 : n < h'.globals.length := (List.getElem?_eq_some_iff.mp hs1).1
        have h3 := List.getElem?_eq_none_iff.mp h0
        omega
      | some st0 =>
        obtain ⟨st1', h1, h2⟩ := executeGlobals_get _ _ _ _ (s.globI hi) n g st0 hg h0
        rw [hs1] at h1; cases h1
        obtain ⟨hsl, hno⟩ := a.remaining n g st0 hg h0 hk
        unfold GDef.execute at h2
        split at h2
        · rename_i hc
          cases h2
          refine ⟨hsl, ?_⟩
          intro k hkm w hw hwi
          rw [s.uses'] at hw
          rcases List.mem_append.mp hw with hw | hw
          · exact hno k hkm w hw hwi
          · simp only [List.mem_singleton] at hw; subst hw
            rintro ⟨d', hd', he'⟩
            rw [s.arg] at hd'; cases hd'
            simp only [Bool.not_eq_true'] at hc
            have : isConstraintArgument g.keys d.key = true := by
              unfold isConstraintArgument
              exact List.any_eq_true.mpr ⟨k, hsl.subset hkm, he'⟩
            rw [hc] at this; cases this
        · rw [hk] at h2; dsimp only at h2; cases h2
          dsimp only
          refine ⟨(eraseFirstEq_sublist _ _).trans hsl, ?_⟩
          intro k hkm w hw hwi
          rw [s.uses'] at hw
          rcases List.mem_append.mp hw with hw | hw
          · exact hno k ((eraseFirstEq_sublist _ _).subset hkm) w hw hwi
          · simp only [List.mem_singleton] at hw; subst hw
            rintro ⟨d', hd', he'⟩
            rw [s.arg] at hd'; cases hd'
            have hpw : st0.remaining.Pairwise (fun x y => ¬ (x.eq d.key = true ∧ y.eq d.key = true)) := by
              have := (wf.globKeys g (List.mem_of_getElem? hg)).sublist hsl
              exact this.imp (fun hxy => hxy d (List.mem_of_getElem? s.arg))
            rw [eraseFirstEq_none d.key _ hpw k hkm] at he'; cases he'
  · intro i di st hi hs hl
    rw [s.args'] at hs
    by_cases hui : u.arg = i
    · have hdd : di = d := by have := s.arg; rw [hui, hi] at this; cases this; rfl
      subst hdd
      have hlt : i < h.args.length := by rw [f.argsLen]; exact (List.getElem?_eq_some_iff.mp hi).1
      rw [hui] at hs
      simp only [List.getElem?_set_self hlt, Option.some.injEq] at hs
      subst hs
      have hst0 : h.args[i]? = some h.args[i] := List.getElem?_eq_getElem hlt
      have hcount := s.count
      have hassign := s.assign
      rw [hui, getD_of_getElem? hst0] at hcount hassign
      rw [assignDest_cnt_none hl hassign]
      show cnt = 0
      rw [f.fromSrc] at hcount
      simp only [countValue, Bool.false_eq_true, if_false] at hcount
      rw [gotValue_ok_none hl hcount]
      exact a.idle i di _ hi hst0 hl
    · rw [List.getElem?_set_ne hui] at hs
      exact a.idle i di st hi hs hl
  · intro i di st hi hs hu
    rw [s.args'] at hs
    by_cases hui : u.arg = i
    · have hdd : di = d := by have := s.arg; rw [hui, hi] at this; cases this; rfl
      subst hdd
      have hlt : i < h.args.length := by rw [f.argsLen]; exact (List.getElem?_eq_some_iff.mp hi).1
      rw [hui] at hs
      simp only [List.getElem?_set_self hlt, Option.some.injEq] at hs
      subst hs
      have hst0 : h.args[i]? = some h.args[i] := List.getElem?_eq_getElem hlt
      have hassign := s.assign
      rw [hui, getD_of_getElem? hst0] at hassign
      apply hasValue_after hassign
      rcases hu with ⟨w, hw, hwi, hwv⟩ | hinit
      · rw [s.uses'] at hw
        rcases List.mem_append.mp hw with hw | hw
        · left
          show (h.args[i]).hasValue di.kind = true
          exact a.hasValue i di _ hi hst0 (Or.inl ⟨w, hw, hwi, hwv⟩)
        · simp only [List.mem_singleton] at hw; subst hw
          right; exact hwv
      · left
        show (h.args[i]).hasValue di.kind = true
        exact a.hasValue i di _ hi hst0 (Or.inr hinit)
    · rw [List.getElem?_set_ne hui] at hs
      apply a.hasValue i di st hi hs
      rcases hu with ⟨w, hw, hwi, hwv⟩ | hinit
      · rw [s.uses'] at hw
        rcases List.mem_append.mp hw with hw | hw
        · exact Or.inl ⟨w, hw, hwi, hwv⟩
        · simp only [List.mem_singleton] at hw; subst hw; exact absurd hwi hui
      · exact Or.inr hinit

end CelmaVerif.ProgArgs
