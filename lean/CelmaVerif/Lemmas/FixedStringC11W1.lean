import CelmaVerif.Lemmas.FixedStringC11World
/-
  C11 at the level of the operation language, part 1: construction, assignment, insert, erase,
  push_back/pop_back.  One theorem per operation (`c11_<op>`), each concluding `C11Holds c cu w op`
  from the well-formedness of the world, the caller-side preconditions and the documented domain.
-/
namespace CelmaVerif.FixedString
open CelmaVerif
variable {c cu : Cfg} {w : World}

/-- a mutator through `mutS`: it is enough to know the specified text and the text afterwards -/
theorem w1_of_mutS {op : Op} {r : Res FStr} (hstep : step c cu w op = mutS w r) (t : Str)
    (hsp : spec id (npos c) w op = .ok (t, .unit))
    (habs : ∀ s', r = .ok s' → abs s' = t.take c.L) : C11Holds c cu w op := by
  intro w' o h
  rw [hstep] at h
  obtain ⟨s', h1, rfl, rfl⟩ := mutS_inv h
  exact c11_mut hsp (habs s' h1)

theorem w1_take_cap_of_le {t : Str} (h : t.length ≤ c.L) : t = t.take c.L :=
  (List.take_of_length_le h).symm

theorem w1_cstrlenAux_ofCStr (a : List Byte) (k m : Nat) (h : cstrlenAux a k = .ok m) :
    k ≤ m ∧ StdString.ofCStr a = a.take (m - k) ∧ m - k < a.length := by
  induction a generalizing k with
  | nil => unfold cstrlenAux at h; cases h
  | cons x xs ih =>
    unfold cstrlenAux at h
    unfold StdString.ofCStr
    by_cases hx : x = 0
    · rw [if_pos hx] at h; cases h
      rw [if_pos hx, Nat.sub_self]
      exact ⟨Nat.le_refl _, rfl, by simp⟩
    · rw [if_neg hx] at h
      obtain ⟨h1, h2, h3⟩ := ih (k + 1) h
      rw [if_neg hx, h2]
      have : m - k = (m - (k + 1)) + 1 := by omega
      rw [this, List.take_succ_cons]
      exact ⟨by omega, rfl, by simp only [List.length_cons]; omega⟩

theorem w1_cstrlen_ofCStr {a : List Byte} {n : Nat} (h : cstrlen a = .ok n) :
    StdString.ofCStr a = a.take n ∧ n < a.length := by
  have := w1_cstrlenAux_ofCStr a 0 n h
  simpa using this.2

theorem c11_clear (hw : WFW c cu w) : C11Holds c cu w .clear :=
  w1_of_mutS rfl [] rfl (fun _ h => by rw [clear_abs hw.1 h, List.take_nil])

theorem c11_pushBack (hc : CfgOK c) (hw : WFW c cu w) (ch : Byte) : C11Holds c cu w (.pushBack ch) :=
  w1_of_mutS rfl (abs w.s ++ [ch]) rfl (fun _ h => pushBack_abs hc hw.1 ch h)

theorem c11_addC (hc : CfgOK c) (hw : WFW c cu w) (ch : Byte) : C11Holds c cu w (.addC ch) := by
  refine w1_of_mutS rfl (abs w.s ++ [ch]) rfl (fun s' h => ?_)
  have hl := abs_length hw.1
  have h2 := hw.1.2.1
  unfold appendCh at h
  by_cases he : w.s.len = c.L
  · rw [if_pos he] at h; cases h
    rw [List.take_append_of_le_length (by omega)]
    exact w1_take_cap_of_le (by omega)
  · rw [if_neg he] at h
    have : min 1 (c.L - w.s.len) = 1 := by omega
    rw [this] at h
    unfold appendS at h
    have := appendImpl_abs hc hw.1 (a := List.replicate 1 ch ++ [0]) (pos := 0) (count := (List.replicate 1 ch).length)
      (by simp) h
    rw [this]
    rfl

theorem c11_popBack (hc : CfgOK c) (hw : WFW c cu w) (hd : inDomain (npos c) w .popBack = true) :
    C11Holds c cu w .popBack := by
  have hl := abs_length hw.1
  have h2 := hw.1.2.1
  simp only [inDomain, decide_eq_true_eq] at hd
  refine w1_of_mutS rfl (abs w.s).dropLast ?_ (fun s' h => ?_)
  · have hne : ¬ (abs w.s).isEmpty = true := by
      intro he
      rw [List.isEmpty_iff] at he
      rw [he] at hd; simp at hd
    simp only [spec]
    rw [if_neg hne]; rfl
  · rw [popBack_abs hc hw.1 (by omega) h]
    exact w1_take_cap_of_le (by rw [List.length_dropLast]; omega)

theorem c11_erase (hc : CfgOK c) (hw : WFW c cu w) (i n : Nat) (hd : inDomain (npos c) w (.erase i n) = true) :
    C11Holds c cu w (.erase i n) := by
  have hl := abs_length hw.1
  have h2 := hw.1.2.1
  simp only [inDomain, decide_eq_true_eq] at hd
  refine w1_of_mutS rfl ((abs w.s).take i ++ (abs w.s).drop (i + n)) ?_ (fun s' h => ?_)
  · simp only [spec, thenS, StdString.erase]
    rw [if_neg (by omega), bindR_ok]; rfl
  · rw [erase_abs hc hw.1 i n (by omega) h]
    exact w1_take_cap_of_le (by simp only [List.length_append, List.length_take, List.length_drop]; omega)

theorem c11_eraseI (hc : CfgOK c) (hw : WFW c cu w) (i : Nat) (hd : inDomain (npos c) w (.eraseI i) = true) :
    C11Holds c cu w (.eraseI i) := by
  have hl := abs_length hw.1
  have h2 := hw.1.2.1
  simp only [inDomain, decide_eq_true_eq] at hd
  refine w1_of_mutS rfl ((abs w.s).take i ++ (abs w.s).drop (i + npos c)) ?_ (fun s' h => ?_)
  · simp only [spec, thenS, StdString.erase]
    rw [if_neg (by omega), bindR_ok]; rfl
  · rw [erase_abs hc hw.1 i _ (by omega) h]
    exact w1_take_cap_of_le (by simp only [List.length_append, List.length_take, List.length_drop]; omega)

theorem c11_erase0 (hc : CfgOK c) (hw : WFW c cu w) : C11Holds c cu w .erase0 := by
  have hl := abs_length hw.1
  have h2 := hw.1.2.1
  refine w1_of_mutS rfl [] rfl (fun s' h => ?_)
  rw [erase_abs hc hw.1 0 _ (by omega) h]
  have hW := hc.hW
  rw [List.take_zero, List.nil_append, List.take_nil]
  apply List.drop_of_length_le
  unfold npos; omega

theorem c11_assignS (hc : CfgOK c) (hw : WFW c cu w) (d : Str) : C11Holds c cu w (.assignS d) :=
  w1_of_mutS rfl d rfl (fun _ h => assignS_abs hc hw.1 d h)

theorem c11_setS (hc : CfgOK c) (hw : WFW c cu w) (d : Str) : C11Holds c cu w (.setS d) :=
  w1_of_mutS rfl d rfl (fun _ h => assignS_abs hc hw.1 d h)

theorem c11_ctorS (hc : CfgOK c) (d : Str) : C11Holds c cu w (.ctorS d) :=
  w1_of_mutS rfl d rfl (fun _ h => assignS_abs hc (fresh_wf c) d h)

theorem c11_assignF (hc : CfgOK c) (hw : WFW c cu w) (f : Sel) : C11Holds c cu w (.assignF f) := by
  obtain ⟨co, ho⟩ := sel_wf hw f
  exact w1_of_mutS rfl (abs (w.sel f)) rfl (fun _ h => assignF_abs hc hw.1 ho h)

theorem c11_setF (hc : CfgOK c) (hw : WFW c cu w) (f : Sel) : C11Holds c cu w (.setF f) := by
  cases f
  · refine w1_of_mutS (r := .ok w.t) rfl (abs w.t) rfl (fun s' h => ?_)
    cases h
    exact (abs_take_cap hw.2.1).symm
  · exact w1_of_mutS (r := assignF c w.s w.u) rfl (abs w.u) rfl (fun _ h => assignF_abs hc hw.1 hw.2.2 h)

theorem c11_ctorF (hc : CfgOK c) (hw : WFW c cu w) (f : Sel) : C11Holds c cu w (.ctorF f) := by
  cases f
  · refine w1_of_mutS (r := .ok w.t) rfl (abs w.t) rfl (fun s' h => ?_)
    cases h
    exact (abs_take_cap hw.2.1).symm
  · exact w1_of_mutS (r := ctorF c w.u) rfl (abs w.u) rfl (fun _ h => assignF_abs hc (fresh_wf c) hw.2.2 h)

theorem c11_ctorDef : C11Holds c cu w .ctorDef := by
  refine w1_of_mutS (r := .ok (fresh c)) rfl [] rfl (fun s' h => ?_)
  cases h
  rw [List.take_nil]; rfl

theorem c11_ctorMove (hw : WFW c cu w) : C11Holds c cu w .ctorMove := by
  have ht := hw.2.1
  refine w1_of_mutS rfl (abs w.t) rfl (fun s' h => ?_)
  rw [abs_take_cap ht]
  unfold ctorMove at h
  by_cases hp : w.t.len > 0
  · rw [if_pos hp] at h
    exact internalCopy_abs (c := c) (by simp [zeros]) ht.2.1 (by have := ht.1; have := ht.2.1; omega) h
  · rw [if_neg hp] at h
    cases h
    have : w.t.len = 0 := by omega
    unfold abs
    simp only [this, List.take_zero]

theorem w1_insert_ok {x : Str} {i : Nat} (t : Str) (h : i ≤ x.length) :
    StdString.insert x i t = .ok (x.take i ++ t ++ x.drop i) := by
  unfold StdString.insert; rw [if_neg (by omega)]

theorem w1_substr_ok {x : Str} {j : Nat} (n : Nat) (h : j ≤ x.length) :
    StdString.substr x j n = .ok ((x.drop j).take n) := by
  unfold StdString.substr; rw [if_neg (by omega)]

theorem c11_insertICC (hc : CfgOK c) (hw : WFW c cu w) (i n : Nat) (ch : Byte)
    (hd : inDomain (npos c) w (.insertICC i n ch) = true) : C11Holds c cu w (.insertICC i n ch) := by
  have hl := abs_length hw.1
  simp only [inDomain, decide_eq_true_eq] at hd
  refine w1_of_mutS rfl ((abs w.s).take i ++ List.replicate n ch ++ (abs w.s).drop i) ?_
    (fun _ h => insertCh_abs hc hw.1 i n ch (by omega) h)
  simp only [spec, thenS, id]
  rw [w1_insert_ok _ hd, bindR_ok]; rfl

theorem c11_insertIS (hc : CfgOK c) (hw : WFW c cu w) (i : Nat) (d : Str)
    (hd : inDomain (npos c) w (.insertIS i d) = true) : C11Holds c cu w (.insertIS i d) := by
  have hl := abs_length hw.1
  simp only [inDomain, decide_eq_true_eq] at hd
  refine w1_of_mutS rfl ((abs w.s).take i ++ d ++ (abs w.s).drop i) ?_ (fun s' h => ?_)
  · simp only [spec, thenS]
    rw [w1_insert_ok _ hd, bindR_ok]; rfl
  · unfold insertS at h
    have := insertP_abs hc hw.1 i (a := d ++ [0]) (count := d.length) (by simp) (by omega) h
    have e : (d ++ [0]).take d.length = d := List.take_left' rfl
    rw [this, e]

theorem c11_insertIF (hc : CfgOK c) (hw : WFW c cu w) (i : Nat) (f : Sel)
    (hd : inDomain (npos c) w (.insertIF i f) = true) : C11Holds c cu w (.insertIF i f) := by
  have hl := abs_length hw.1
  simp only [inDomain, decide_eq_true_eq] at hd
  refine w1_of_mutS rfl ((abs w.s).take i ++ abs (w.sel f) ++ (abs w.s).drop i) ?_ (fun s' h => ?_)
  · simp only [spec, thenS, World.text]
    rw [w1_insert_ok _ hd, bindR_ok]; rfl
  · unfold insertF at h
    rw [insertP_abs hc hw.1 i (sel_len hw f) (by omega) h]
    rfl

theorem c11_insertIPC (hc : CfgOK c) (hw : WFW c cu w) (i : Nat) (a : List Byte) (n : Nat)
    (hd : inDomain (npos c) w (.insertIPC i a n) = true) : C11Holds c cu w (.insertIPC i a n) := by
  have hl := abs_length hw.1
  simp only [inDomain, Bool.and_eq_true, decide_eq_true_eq] at hd
  refine w1_of_mutS rfl ((abs w.s).take i ++ a.take n ++ (abs w.s).drop i) ?_
    (fun _ h => insertP_abs hc hw.1 i hd.2 (by omega) h)
  simp only [spec, thenS]
  rw [w1_insert_ok _ hd.1, bindR_ok]; rfl

theorem c11_insertISIC (hc : CfgOK c) (hw : WFW c cu w) (i : Nat) (d : Str) (j n : Nat)
    (hd : inDomain (npos c) w (.insertISIC i d j n) = true) : C11Holds c cu w (.insertISIC i d j n) := by
  have hl := abs_length hw.1
  simp only [inDomain, Bool.and_eq_true, decide_eq_true_eq] at hd
  refine w1_of_mutS rfl ((abs w.s).take i ++ (d.drop j).take n ++ (abs w.s).drop i) ?_ (fun s' h => ?_)
  · simp only [spec, thenS]
    rw [w1_substr_ok _ hd.2, bindR_ok, w1_insert_ok _ hd.1, bindR_ok]; rfl
  · unfold insertSub at h
    rw [if_neg (by omega)] at h
    unfold insertS at h
    have := insertP_abs hc hw.1 i (a := (d.drop j).take n ++ [0]) (count := ((d.drop j).take n).length)
      (by simp) (by omega) h
    have e : ((d.drop j).take n ++ [0]).take ((d.drop j).take n).length = (d.drop j).take n :=
      List.take_left' rfl
    rw [this, e]

theorem c11_insertIFIC (hc : CfgOK c) (hw : WFW c cu w) (i : Nat) (f : Sel) (j n : Nat)
    (hd : inDomain (npos c) w (.insertIFIC i f j n) = true) : C11Holds c cu w (.insertIFIC i f j n) := by
  have hl := abs_length hw.1
  obtain ⟨co, ho⟩ := sel_wf hw f
  have hlo := abs_length ho
  have hbo := sel_len hw f
  simp only [inDomain, Bool.and_eq_true, decide_eq_true_eq, World.text] at hd
  have hd2 : j ≤ (abs (w.sel f)).length := of_decide_eq_true hd.2
  refine w1_of_mutS rfl ((abs w.s).take i ++ ((abs (w.sel f)).drop j).take n ++ (abs w.s).drop i) ?_
    (fun s' h => ?_)
  · simp only [spec, thenS, World.text]
    rw [w1_substr_ok _ hd2, bindR_ok, w1_insert_ok _ hd.1, bindR_ok]; rfl
  · unfold insertFSub at h
    rw [if_neg (by omega)] at h
    have := insertP_abs hc hw.1 i (a := (w.sel f).buf.drop j) (count := min ((w.sel f).len - j) n)
      (by rw [List.length_drop]; have := Nat.min_le_left ((w.sel f).len - j) n; omega) (by omega) h
    have e : ((abs (w.sel f)).drop j).take n = ((w.sel f).buf.drop j).take (min ((w.sel f).len - j) n) := by
      unfold abs
      rw [List.drop_take, List.take_take, Nat.min_comm]
    rw [this, e]

theorem c11_insertIP (hc : CfgOK c) (hw : WFW c cu w) (i : Nat) (a : List Byte)
    (hd : inDomain (npos c) w (.insertIP i a) = true) : C11Holds c cu w (.insertIP i a) := by
  have hl := abs_length hw.1
  simp only [inDomain, Bool.and_eq_true, decide_eq_true_eq] at hd
  refine w1_of_mutS rfl ((abs w.s).take i ++ StdString.ofCStr a ++ (abs w.s).drop i) ?_ (fun s' h => ?_)
  · simp only [spec, thenS]
    rw [w1_insert_ok _ hd.1, bindR_ok]; rfl
  · unfold insertCstr at h
    cases hn : cstrlen a with
    | ok n =>
      rw [hn, bindR_ok] at h
      obtain ⟨h1, h2⟩ := w1_cstrlen_ofCStr hn
      rw [insertP_abs hc hw.1 i (by omega) (by omega) h, h1]
    | oob x => rw [hn, bindR_oob] at h; cases h
    | throw e => rw [hn, bindR_throw] at h; cases h

theorem w1_assignP_abs (hc : CfgOK c) {s s' : FStr} (hs : WF c s) {a : List Byte} (h : assignP c s a = .ok s') :
    abs s' = (StdString.ofCStr a).take c.L := by
  unfold assignP at h
  cases hn : cstrlen a with
  | ok n =>
    rw [hn, bindR_ok] at h
    obtain ⟨h1, h2⟩ := w1_cstrlen_ofCStr hn
    have m1 : min c.L n ≤ c.L := Nat.min_le_left _ _
    have m2 : min c.L n ≤ n := Nat.min_le_right _ _
    rw [narrow_eq hc m1] at h
    rw [internalCopy_abs hs.1 m1 (by omega) h, h1, List.take_take]
  | oob x => rw [hn, bindR_oob] at h; cases h
  | throw e => rw [hn, bindR_throw] at h; cases h

theorem c11_assignP (hc : CfgOK c) (hw : WFW c cu w) (a : List Byte) : C11Holds c cu w (.assignP a) :=
  w1_of_mutS rfl (StdString.ofCStr a) rfl (fun _ h => w1_assignP_abs hc hw.1 h)

theorem c11_setP (hc : CfgOK c) (hw : WFW c cu w) (a : List Byte) : C11Holds c cu w (.setP a) :=
  w1_of_mutS rfl (StdString.ofCStr a) rfl (fun _ h => w1_assignP_abs hc hw.1 h)

theorem c11_ctorP (hc : CfgOK c) (a : List Byte) : C11Holds c cu w (.ctorP a) :=
  w1_of_mutS rfl (StdString.ofCStr a) rfl (fun _ h => w1_assignP_abs hc (fresh_wf c) h)

/-! ### the overloads that take and return iterators (the returned iterator is not compared) -/

theorem w1_of_mutIt {op : Op} {r : Res (FStr × Nat)} (hstep : step c cu w op = mutIt w r)
    (hcmp : ¬ CmpOut op) (t : Str) (hsp : spec id (npos c) w op = .ok (t, .unit))
    (habs : ∀ p, r = .ok p → abs p.1 = t.take c.L) : C11Holds c cu w op := by
  intro w' o h
  rw [hstep] at h
  obtain ⟨p, h1, rfl⟩ := mutIt_inv h
  exact ⟨t, .unit, hsp, habs p h1, fun hh => absurd hh hcmp⟩

theorem w1_derefable_inv {x : Str} {p : ItArg} (h : derefable x p = true) :
    ∃ k, p = .pos k ∧ k < x.length ∧ itPos x p = k := by
  cases p with
  | fin => simp [derefable] at h
  | pos k =>
    simp only [derefable, decide_eq_true_eq] at h
    exact ⟨k, rfl, h, by simp only [itPos]; exact Nat.min_eq_left (by omega)⟩

/-- a dereferenceable position as the model's iterator value, and the index the iterator overloads compute -/
theorem w1_it_idx (hc : CfgOK c) {s : FStr} (hs : WF c s) {k : Nat} (hk : k < s.len) :
    itAt c s k = k ∧ k ≠ itEnd c ∧ itMinus c s k (itBegin c s) = k := by
  have hW := hc.hW
  have hL := hs.2.1
  have he : k ≠ itEnd c := by unfold itEnd; omega
  refine ⟨?_, he, ?_⟩
  · unfold itAt; rw [if_neg (by omega)]
  · unfold itBegin; rw [if_pos (by omega)]
    unfold itMinus
    by_cases h0 : k = 0
    · rw [if_pos (Or.inr h0), h0]
    · rw [if_neg (by unfold itEnd; omega), if_neg he]
      unfold subW; rw [if_pos (Nat.zero_le _)]; rfl

theorem w1_bindR_ok_inv {α β : Type} {r : Res α} {f : α → Res β} {b : β} (h : bindR r f = .ok b) :
    ∃ a, r = .ok a ∧ f a = .ok b := by
  cases r with
  | ok a => exact ⟨a, rfl, h⟩
  | oob x => rw [bindR_oob] at h; cases h
  | throw e => rw [bindR_throw] at h; cases h

theorem w1_insertItCh_abs (hc : CfgOK c) {s : FStr} (hs : WF c s) {k : Nat} (hk : k < s.len) (n : Nat) (ch : Byte)
    {p : FStr × Nat} (h : insertItCh c s (itAt c s k) n ch = .ok p) :
    abs p.1 = ((abs s).take k ++ List.replicate n ch ++ (abs s).drop k).take c.L := by
  obtain ⟨e1, e2, e3⟩ := w1_it_idx hc hs hk
  unfold insertItCh at h
  rw [e1, if_neg e2] at h
  simp only [e3] at h
  obtain ⟨s', h1, h2⟩ := w1_bindR_ok_inv h
  cases h2
  exact insertCh_abs hc hs k n ch (by omega) h1

theorem c11_insertItC (hc : CfgOK c) (hw : WFW c cu w) (p : ItArg) (ch : Byte)
    (hd : inDomain (npos c) w (.insertItC p ch) = true) : C11Holds c cu w (.insertItC p ch) := by
  have hl := abs_length hw.1
  simp only [inDomain] at hd
  obtain ⟨k, rfl, hk, hp⟩ := w1_derefable_inv hd
  refine w1_of_mutIt rfl (by simp [CmpOut]) ((abs w.s).take k ++ [ch] ++ (abs w.s).drop k) ?_
    (fun q h => w1_insertItCh_abs hc hw.1 (by omega) 1 ch h)
  simp only [spec, thenS]
  rw [hp, w1_insert_ok _ (by omega), bindR_ok]; rfl

theorem c11_insertItCC (hc : CfgOK c) (hw : WFW c cu w) (p : ItArg) (n : Nat) (ch : Byte)
    (hd : inDomain (npos c) w (.insertItCC p n ch) = true) : C11Holds c cu w (.insertItCC p n ch) := by
  have hl := abs_length hw.1
  simp only [inDomain] at hd
  obtain ⟨k, rfl, hk, hp⟩ := w1_derefable_inv hd
  refine w1_of_mutIt rfl (by simp [CmpOut]) ((abs w.s).take k ++ List.replicate n ch ++ (abs w.s).drop k) ?_
    (fun q h => w1_insertItCh_abs hc hw.1 (by omega) n ch h)
  simp only [spec, thenS, id]
  rw [hp, w1_insert_ok _ (by omega), bindR_ok]; rfl

theorem c11_insertItIl (hc : CfgOK c) (hw : WFW c cu w) (p : ItArg) (il : Str)
    (hd : inDomain (npos c) w (.insertItIl p il) = true) : C11Holds c cu w (.insertItIl p il) := by
  have hl := abs_length hw.1
  simp only [inDomain] at hd
  obtain ⟨k, rfl, hk, hp⟩ := w1_derefable_inv hd
  refine w1_of_mutIt rfl (by simp [CmpOut]) ((abs w.s).take k ++ il ++ (abs w.s).drop k) ?_ (fun q h => ?_)
  · simp only [spec, thenS]
    rw [hp, w1_insert_ok _ (by omega), bindR_ok]; rfl
  · obtain ⟨e1, e2, e3⟩ := w1_it_idx hc hw.1 (k := k) (by omega)
    simp only [itOf] at h
    unfold insertItList at h
    rw [e1, if_neg e2] at h
    simp only [e3] at h
    by_cases h0 : il.length = 0
    · rw [if_pos h0] at h
      cases h
      have : il = [] := List.eq_nil_of_length_eq_zero h0
      rw [this, List.append_nil, List.take_append_drop]
      exact (abs_take_cap hw.1).symm
    · rw [if_neg h0] at h
      obtain ⟨s', h1, h2⟩ := w1_bindR_ok_inv h
      cases h2
      rw [insertP_abs hc hw.1 k (Nat.le_refl _) (by omega) h1, List.take_length]

theorem c11_eraseIt (hc : CfgOK c) (hw : WFW c cu w) (p : ItArg)
    (hd : inDomain (npos c) w (.eraseIt p) = true) : C11Holds c cu w (.eraseIt p) := by
  have hl := abs_length hw.1
  have h2 := hw.1.2.1
  simp only [inDomain] at hd
  obtain ⟨k, rfl, hk, hp⟩ := w1_derefable_inv hd
  refine w1_of_mutIt rfl (by simp [CmpOut]) ((abs w.s).take k ++ (abs w.s).drop (k + 1)) ?_ (fun q h => ?_)
  · simp only [spec, thenS, StdString.erase]
    rw [hp, if_neg (by omega), if_neg (by omega), bindR_ok]; rfl
  · obtain ⟨e1, e2, e3⟩ := w1_it_idx hc hw.1 (k := k) (by omega)
    simp only [itOf] at h
    unfold eraseIt at h
    rw [e1, if_neg e2] at h
    simp only [e3] at h
    obtain ⟨s', h1, h3⟩ := w1_bindR_ok_inv h
    cases h3
    rw [erase_abs hc hw.1 k 1 (by omega) h1]
    exact w1_take_cap_of_le (by simp only [List.length_append, List.length_take, List.length_drop]; omega)

theorem c11_eraseItIt_range (hc : CfgOK c) (hw : WFW c cu w) (p q : ItArg)
    (hd : itRange (abs w.s) p q = true) : C11Holds c cu w (.eraseItIt p q) := by
  have hl := abs_length hw.1
  have h2 := hw.1.2.1
  have hW := hc.hW
  simp only [itRange, Bool.and_eq_true, decide_eq_true_eq] at hd
  obtain ⟨k, rfl, hk, hp⟩ := w1_derefable_inv hd.1
  have hq := hd.2
  rw [hp] at hq
  obtain ⟨e1, e2, e3⟩ := w1_it_idx hc hw.1 (k := k) (by omega)
  refine w1_of_mutIt rfl (by simp [CmpOut])
    ((abs w.s).take k ++ (abs w.s).drop (k + (itPos (abs w.s) q - k))) ?_ (fun r h => ?_)
  · simp only [spec, thenS, StdString.erase]
    rw [hp, if_neg (by omega), if_neg (by omega), bindR_ok]; rfl
  · change eraseItIt c w.s (itAt c w.s k) (itOf c w.s q) = .ok r at h
    unfold eraseItIt at h
    rw [e1] at h
    -- the value of the second iterator
    have hlast : (itOf c w.s q = itEnd c ∧ itPos (abs w.s) q = w.s.len) ∨
        (itOf c w.s q = itPos (abs w.s) q ∧ itPos (abs w.s) q < w.s.len ∧ itOf c w.s q ≠ itEnd c) := by
      cases q with
      | fin => left; exact ⟨rfl, hl⟩
      | pos j =>
        simp only [itOf, itPos, itAt]
        by_cases hj : j ≥ w.s.len
        · left; rw [if_pos hj]; exact ⟨rfl, by rw [hl]; exact Nat.min_eq_right hj⟩
        · right; rw [if_neg hj, hl, Nat.min_eq_left (by omega)]
          exact ⟨rfl, by omega, by unfold itEnd; omega⟩
    have hne : ¬ (k = itEnd c ∨ k = itOf c w.s q) := by
      rcases hlast with ⟨a, _⟩ | ⟨a, _, _⟩
      · rw [a]; intro hh; rcases hh with hh | hh <;> exact e2 hh
      · rw [a]; intro hh; rcases hh with hh | hh
        · exact e2 hh
        · omega
    rw [if_neg hne] at h
    simp only [e3] at h
    obtain ⟨s', h1, h3⟩ := w1_bindR_ok_inv h
    cases h3
    rw [erase_abs hc hw.1 k _ (by omega) h1]
    have hcount : (abs w.s).drop (k + (if itOf c w.s q = itEnd c then npos c else itMinus c w.s (itOf c w.s q) k)) =
        (abs w.s).drop (k + (itPos (abs w.s) q - k)) := by
      rcases hlast with ⟨a, b⟩ | ⟨a, b, b'⟩
      · rw [if_pos a, b, List.drop_of_length_le (by unfold npos; omega), List.drop_of_length_le (by omega)]
      · rw [if_neg b']
        unfold itMinus
        rw [if_neg (by intro hh; rcases hh with hh | hh; exact e2 hh; omega), if_neg b']
        unfold subW
        rw [if_pos (by omega), a]
    rw [hcount]
    exact w1_take_cap_of_le (by simp only [List.length_append, List.length_take, List.length_drop]; omega)

/-- the iterator value of an argument that is not dereferenceable is `end()` -/
theorem w1_not_derefable {s : FStr} (hs : WF c s) {p : ItArg} (h : derefable (abs s) p = false) :
    itOf c s p = itEnd c ∧ itPos (abs s) p = s.len := by
  have hl := abs_length hs
  cases p with
  | fin => exact ⟨rfl, hl⟩
  | pos k =>
    simp only [derefable, decide_eq_false_iff_not, hl] at h
    refine ⟨?_, ?_⟩
    · show itAt c s k = itEnd c
      unfold itAt; rw [if_pos (by omega)]
    · simp only [itPos, hl]; exact Nat.min_eq_right (by omega)

/-- `erase( first, last)` for every range `std::string` accepts (`first ≤ last`), the empty ranges `[it, it)` and
    `[end(), end())` included: there nothing happens on either side. -/
theorem c11_eraseItIt (hc : CfgOK c) (hw : WFW c cu w) (p q : ItArg)
    (hd : inDomain (npos c) w (.eraseItIt p q) = true) : C11Holds c cu w (.eraseItIt p q) := by
  by_cases hr : itRange (abs w.s) p q = true
  · exact c11_eraseItIt_range hc hw p q hr
  · have hl := abs_length hw.1
    simp only [inDomain, decide_eq_true_eq] at hd
    have hsame : (abs w.s).take (itPos (abs w.s) p) ++
        (abs w.s).drop (itPos (abs w.s) p + (itPos (abs w.s) q - itPos (abs w.s) p)) = abs w.s ∧
        (itOf c w.s p = itEnd c ∨ itOf c w.s p = itOf c w.s q) := by
      by_cases hdp : derefable (abs w.s) p = true
      · have hlt : ¬ itPos (abs w.s) p < itPos (abs w.s) q := by
          intro hh; apply hr; simp only [itRange, Bool.and_eq_true, decide_eq_true_eq]; exact ⟨hdp, hh⟩
        have he : itPos (abs w.s) q = itPos (abs w.s) p := by omega
        obtain ⟨k, rfl, hk, hp⟩ := w1_derefable_inv hdp
        refine ⟨by rw [he, Nat.sub_self, Nat.add_zero, List.take_append_drop], Or.inr ?_⟩
        rw [hp] at he
        cases q with
        | fin => simp only [itPos] at he; omega
        | pos j =>
          simp only [itPos] at he
          have : j = k := by
            rcases Nat.le_total j (abs w.s).length with h | h
            · rw [Nat.min_eq_left h] at he; exact he
            · rw [Nat.min_eq_right h] at he; omega
          rw [this]
      · have hdp' : derefable (abs w.s) p = false := by cases h : derefable (abs w.s) p <;> simp_all
        obtain ⟨e1, e2⟩ := w1_not_derefable hw.1 hdp'
        refine ⟨?_, Or.inl e1⟩
        rw [e2, List.take_of_length_le (by omega), List.drop_of_length_le (by omega), List.append_nil]
    refine w1_of_mutIt rfl (by simp [CmpOut]) (abs w.s) ?_ (fun r h => ?_)
    · simp only [spec, thenS, StdString.erase]
      rw [if_neg (by omega), if_neg (by have := Nat.min_le_right 0 0; cases p <;> simp only [itPos] <;> omega), bindR_ok,
        hsame.1]; rfl
    · change eraseItIt c w.s (itOf c w.s p) (itOf c w.s q) = .ok r at h
      unfold eraseItIt at h
      rw [if_pos hsame.2] at h
      cases h
      exact (abs_take_cap hw.1).symm

end CelmaVerif.FixedString
