import CelmaVerif.Model.Int2Str
import CelmaVerif.Lemmas.Digits
/-
  Generic lemmas for the integer-to-string model (C13), part 1: the `convert()` switch.
  * `exec_shape`: executing any list of standard statements on any value equals performing the
    writes of its symbolic shape (induction over the statement list, all values at once);
  * `applyW_consecutive`: writes at consecutive descending positions fill a region back to front;
  * `render_expect`: the expected shape renders to the (grouped) decimal digits;
  * `Tree.ok_sound`: a tree that passes the decidable check computes the digit count;
  * `convert_core`: a row that passes `rowOk` writes exactly the digits of every value with that
    digit count.
-/
namespace CelmaVerif.Int2Str
open CelmaVerif CelmaVerif.Digits

/-! ### symbolic shape = execution -/

def Item.byte (v : Nat) (g : Byte) : Item → Byte
  | .digit j => (48 + v / 10 ^ j % 10) % 256
  | .raw j => (48 + v / 10 ^ j) % 256
  | .group => g

/-- perform symbolic writes relative to `p0` -/
def applyW (v : Nat) (g : Byte) (p0 : Int) : List SymW → List Byte → Res (List Byte)
  | [], mem => .ok mem
  | (d, it) :: ws, mem =>
    match store mem (p0 - (d : Int)) (it.byte v g) "w" with
    | .ok m => applyW v g p0 ws m
    | .throw e => .throw e
    | .oob w => .oob w

/-- results up to the text of the `oob` message -/
def Res.same : Res (List Byte) → Res (List Byte) → Prop
  | .ok a, .ok b => a = b
  | .throw a, .throw b => a = b
  | .oob _, .oob _ => True
  | _, _ => False

theorem Res.same_ok {r : Res (List Byte)} {m : List Byte} (h : Res.same r (.ok m)) : r = .ok m := by
  cases r <;> simp [Res.same] at h
  rw [h]

theorem store_same (mem : List Byte) (p : Int) (b : Byte) (w w' : String) :
    (∃ m, store mem p b w = .ok m ∧ store mem p b w' = .ok m) ∨
    (∃ x y, store mem p b w = .oob x ∧ store mem p b w' = .oob y) := by
  unfold store
  split
  · exact .inl ⟨_, rfl, rfl⟩
  · exact .inr ⟨_, _, rfl, rfl⟩

theorem exec_shape (g : Byte) (v : Nat) (p0 : Int) :
    ∀ (ops : List Op) (s : CS) (j d : Nat), ops.all Op.std = true →
      s.value = v / 10 ^ j → s.pos = p0 - (d : Int) →
      Res.same (memOf (exec g ops s)) (applyW v g p0 (shape ops j s.nd d) s.mem) := by
  intro ops
  induction ops with
  | nil => intro s j d _ _ _; simp [exec, shape, applyW, memOf, Res.same]
  | cons o os ih =>
    intro s j d hstd hv hp
    rw [List.all_cons, Bool.and_eq_true] at hstd
    obtain ⟨ho, hos⟩ := hstd
    cases o with
    | emit base m dec =>
      simp only [Op.std, Bool.and_eq_true, beq_iff_eq, Bool.or_eq_true] at ho
      obtain ⟨hb, hm⟩ := ho
      subst hb
      rcases hm with hm | hm
      · subst hm
        simp only [exec, Op.step, shape, Option.isSome, applyW, Item.byte, ↓reduceIte]
        rw [hv, hp]
        rcases store_same s.mem (p0 - (d : Int)) ((48 + v / 10 ^ j % 10) % 256) "convert: *buffer" "w" with
          ⟨m, h1, h2⟩ | ⟨x, y, h1, h2⟩
        · rw [h1, h2]
          simp only
          have := ih { s with mem := m, pos := if dec = true then p0 - (d : Int) - 1 else p0 - (d : Int) }
            j (if dec = true then d + 1 else d) hos hv (by cases dec <;> simp <;> omega)
          simpa [hv] using this
        · rw [h1, h2]; simp [memOf, Res.same]
      · subst hm
        simp only [exec, Op.step, shape, Option.isSome, applyW, Item.byte, ↓reduceIte, Bool.false_eq_true]
        rw [hv, hp]
        rcases store_same s.mem (p0 - (d : Int)) ((48 + v / 10 ^ j) % 256) "convert: *buffer" "w" with
          ⟨m, h1, h2⟩ | ⟨x, y, h1, h2⟩
        · rw [h1, h2]
          simp only
          have := ih { s with mem := m, pos := if dec = true then p0 - (d : Int) - 1 else p0 - (d : Int) }
            j (if dec = true then d + 1 else d) hos hv (by cases dec <;> simp <;> omega)
          simpa [hv] using this
        · rw [h1, h2]; simp [memOf, Res.same]
    | div dd =>
      simp only [Op.std, beq_iff_eq] at ho
      subst ho
      simp only [exec, Op.step, shape]
      have := ih { s with value := s.value / 10 } (j + 1) d hos (by simp [hv, Nat.div_div_eq_div_mul, Nat.pow_succ]) hp
      simpa using this
    | inc =>
      simp only [exec, Op.step, shape]
      have := ih { s with nd := (s.nd + 1) % 256 } j d hos hv hp
      simpa using this
    | check thr reset =>
      simp only [exec, Op.step, shape]
      by_cases hc : (s.nd + 1) % 256 = thr
      · rw [if_pos hc, if_pos hc]
        simp only [applyW, Item.byte]
        rw [hp]
        rcases store_same s.mem (p0 - (d : Int)) g "checkAddGroupChar: *buffer" "w" with
          ⟨m, h1, h2⟩ | ⟨x, y, h1, h2⟩
        · rw [h1, h2]
          simp only
          have := ih { s with mem := m, pos := p0 - (d : Int) - 1, nd := reset % 256 } j (d + 1) hos hv
            (by simp; omega)
          simpa using this
        · rw [h1, h2]; simp [memOf, Res.same]
      · rw [if_neg hc, if_neg hc]
        have := ih { s with nd := (s.nd + 1) % 256 } j d hos hv hp
        simpa using this
    | group dec =>
      simp only [exec, Op.step, shape, applyW, Item.byte]
      rw [hp]
      rcases store_same s.mem (p0 - (d : Int)) g "convert: *buffer = group_char" "w" with
        ⟨m, h1, h2⟩ | ⟨x, y, h1, h2⟩
      · rw [h1, h2]
        simp only
        have := ih { s with mem := m, pos := if dec = true then p0 - (d : Int) - 1 else p0 - (d : Int) }
          j (if dec = true then d + 1 else d) hos hv (by cases dec <;> simp <;> omega)
        simpa using this
      · rw [h1, h2]; simp [memOf, Res.same]

/-! ### consecutive descending writes -/

theorem applyW_consecutive (v : Nat) (g : Byte) (p0 : Nat) :
    ∀ (ws : List SymW) (d0 : Nat) (mem : List Byte),
      ws.map (·.1) = List.range' d0 ws.length → d0 + ws.length ≤ p0 + 1 → p0 + 1 - d0 ≤ mem.length →
      applyW v g (p0 : Int) ws mem =
        .ok (mem.take (p0 + 1 - d0 - ws.length) ++ (ws.map fun w => w.2.byte v g).reverse ++ mem.drop (p0 + 1 - d0)) := by
  intro ws
  induction ws with
  | nil =>
    intro d0 mem _ h1 h2
    simp only [applyW, List.length_nil, List.map_nil, List.reverse_nil, List.append_nil, Nat.sub_zero]
    rw [List.take_append_drop]
  | cons w ws ih =>
    intro d0 mem hpos hlen hmem
    obtain ⟨d, it⟩ := w
    simp only [List.map_cons, List.length_cons, List.range'_succ, List.cons.injEq] at hpos
    obtain ⟨hd, hrest⟩ := hpos
    subst hd
    simp only [List.length_cons] at hlen
    have hlt : p0 - d < mem.length := by omega
    have hst : store mem ((p0 : Int) - (d : Int)) (it.byte v g) "w" = .ok (mem.set (p0 - d) (it.byte v g)) := by
      unfold store
      rw [if_pos (by omega)]
      congr 2
      omega
    simp only [applyW, hst]
    rw [ih (d + 1) _ hrest (by omega) (by rw [List.length_set]; omega)]
    congr 1
    simp only [List.map_cons, List.reverse_cons, List.append_assoc, List.length_cons]
    have e1 : p0 + 1 - (d + 1) - ws.length = p0 + 1 - d - (ws.length + 1) := by omega
    have e2 : p0 + 1 - (d + 1) = p0 - d := by omega
    have e3 : p0 + 1 - d = p0 - d + 1 := by omega
    rw [e1, e2, e3]
    rw [List.take_set_of_le (by omega)]
    congr 2
    rw [List.drop_set, if_neg (by omega), Nat.sub_self, List.drop_eq_getElem_cons hlt]
    rfl

/-! ### the expected shape renders to the decimal digits -/

theorem map_groupRev (f : α → β) (g : α) : ∀ l : List α, (groupRev g l).map f = groupRev (f g) (l.map f) := by
  intro l
  induction l using groupRev.induct with
  | case1 a b c d rest ih => simp only [groupRev, List.map_cons] at ih ⊢; rw [ih]
  | case2 l h =>
    rw [groupRev.eq_2 _ _ h, groupRev.eq_2]
    intro a b c d rest hl
    match l, hl with
    | a' :: b' :: c' :: d' :: r', _ => exact h a' b' c' d' r' rfl

theorem length_groupRev_ge (g : α) : ∀ l : List α, l.length ≤ (groupRev g l).length := by
  intro l
  induction l using groupRev.induct with
  | case1 a b c d rest ih => simp only [groupRev, List.length_cons] at ih ⊢; omega
  | case2 l h => rw [groupRev.eq_2 _ _ h]; exact Nat.le_refl _

theorem byte_norm (v : Nat) (g : Byte) (k : Nat) (hv : v < 10 ^ k) (it : Item) :
    (it.norm k).byte v g = it.byte v g := by
  cases it with
  | digit j => rfl
  | group => rfl
  | raw j =>
    simp only [Item.norm]
    split
    · rename_i h
      subst h
      simp only [Item.byte]
      have : v / 10 ^ j < 10 := by
        rw [Nat.pow_succ] at hv
        exact Nat.div_lt_of_lt_mul hv
      rw [Nat.mod_eq_of_lt this]
    · rfl

theorem render_expect (grouped : Bool) (g : Byte) (v k : Nat) (h : IsLen v k) :
    ((expectItems grouped k).map (Item.byte v g)).reverse = body grouped g v := by
  have hd : ((List.range k).map Item.digit).map (Item.byte v g) = (lowDigits v k).map (fun d => 48 + d) := by
    rw [List.map_map]
    unfold lowDigits
    rw [List.map_map]
    apply List.map_congr_left
    intro j _
    simp only [Function.comp, Item.byte]
    have : v / 10 ^ j % 10 < 10 := Nat.mod_lt _ (by decide)
    generalize v / 10 ^ j % 10 = x at this ⊢
    exact Nat.mod_eq_of_lt (by omega)
  have hb := toDigits_bytes k v h
  unfold expectItems body digitBytes groupRight
  cases grouped with
  | false => simp only [Bool.false_eq_true, if_false]; rw [hd, hb]
  | true =>
    simp only [if_true]
    rw [map_groupRev, hd, hb, List.reverse_reverse]
    rfl

theorem one_le_outLen (grouped : Bool) (k : Nat) (hk : 1 ≤ k) : 1 ≤ outLen grouped k := by
  unfold outLen expectItems
  cases grouped with
  | false => simp; omega
  | true =>
    have := length_groupRev_ge Item.group ((List.range k).map Item.digit)
    simp at this ⊢
    omega

theorem length_body (grouped : Bool) (g : Byte) (v k : Nat) (h : IsLen v k) :
    (body grouped g v).length = outLen grouped k := by
  rw [← render_expect grouped g v k h]
  simp [outLen]

/-! ### the decision tree -/

theorem Tree.ok_sound : ∀ (t : Tree) (lo hi v : Nat), t.ok lo hi = true → lo ≤ v → v < hi →
    IsLen v (t.eval v) ∧ t.eval v ∈ t.leaves := by
  intro t
  induction t with
  | leaf n =>
    intro lo hi v h hlo hhi
    simp only [Tree.ok, Bool.or_eq_true, Bool.and_eq_true, decide_eq_true_eq, beq_iff_eq] at h
    simp only [Tree.eval, Tree.leaves, List.mem_singleton, and_true]
    rcases h with h | ⟨⟨h1, h2⟩, h3⟩
    · omega
    · refine ⟨h1, by omega, ?_⟩
      rcases h2 with h2 | h2
      · exact .inl h2
      · exact .inr (by omega)
  | node k ge lt ihg ihl =>
    intro lo hi v h hlo hhi
    simp only [Tree.ok, Bool.and_eq_true] at h
    simp only [Tree.eval, Tree.leaves, List.mem_append]
    by_cases hk : k ≤ v
    · rw [if_pos hk]
      have := ihg (max lo k) hi v h.1 (by omega) hhi
      exact ⟨this.1, .inl this.2⟩
    · rw [if_neg hk]
      have := ihl lo (min hi k) v h.2 hlo (by omega)
      exact ⟨this.1, .inr this.2⟩

/-! ### a checked row converts every value of its digit count -/

theorem convert_core (f : FileSpec) (g : Byte) (k v : Nat) (hrow : rowOk f k = true) (hlen : IsLen v k)
    (mem : List Byte) (p0 : Nat) (h1 : outLen f.grouped k ≤ p0 + 1) (h2 : p0 + 1 ≤ mem.length) :
    memOf (exec g (switchOps f.rows k) ⟨mem, (p0 : Int), v, f.ndInit % 256⟩) =
      .ok (mem.take (p0 + 1 - outLen f.grouped k) ++ body f.grouped g v ++ mem.drop (p0 + 1)) := by
  simp only [rowOk, Bool.and_eq_true, beq_iff_eq] at hrow
  obtain ⟨⟨hstd, hpos⟩, hitems⟩ := hrow
  have hsh := exec_shape g v (p0 : Int) (switchOps f.rows k) ⟨mem, (p0 : Int), v, f.ndInit % 256⟩ 0 0 hstd
    (by simp) (by simp)
  simp only at hsh
  have hbytes : (shape (switchOps f.rows k) 0 (f.ndInit % 256) 0).map (fun w => w.2.byte v g)
      = (expectItems f.grouped k).map (Item.byte v g) := by
    rw [← hitems, List.map_map]
    apply List.map_congr_left
    intro w _
    simp only [Function.comp]
    exact (byte_norm v g k hlen.2.1 w.2).symm
  have hlenEq : (shape (switchOps f.rows k) 0 (f.ndInit % 256) 0).length = outLen f.grouped k := by
    have := congrArg List.length hitems
    simpa [outLen] using this
  rw [List.range_eq_range'] at hpos
  rw [applyW_consecutive v g p0 _ 0 mem hpos (by omega) (by omega)] at hsh
  rw [hbytes, render_expect f.grouped g v k hlen, hlenEq] at hsh
  simpa using Res.same_ok hsh

end CelmaVerif.Int2Str
