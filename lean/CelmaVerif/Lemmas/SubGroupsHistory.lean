import CelmaVerif.Lemmas.SubGroupsCross
import CelmaVerif.Lemmas.KeysSub
/-
  The cross check over registration histories with BOTH containers of every member
  (`mArguments` and `mSubGroupArgs`): after every sequence of definitions — plain or sub-group
  arguments — on the members of a group that `Handler::addArgument` accepted
  (`groupDefineSeqT … = none`), no two keys of the group clash: neither inside a member (the union
  of its two tables, the table `lookupBoth_eq_union` speaks about) nor across members.  Conversely a
  definition whose key clashes with any key of any container of any member is refused with
  `std::invalid_argument` (`groupDefineSeqT_clash_refused`; false for the pinned code before `fix:`
  b870f06, where a sub-group definition was not cross checked).
  Same development as Lemmas/GroupsHistory.lean (plain tables only).
-/
namespace CelmaVerif.ProgArgs
open CelmaVerif CelmaVerif.Keys

/-! ### the tables an accepted history leaves behind -/

/-- the tables the accepted definitions leave behind: `none` as soon as one definition is refused.
    (`groupDefineSeqT` of the validated model reports the refusal; `groupDefineSeqT_none_iff` ties the two.) -/
def groupDefineTablesT : List Tables2 → List (Nat × Bool × List Char) → Option (List Tables2)
  | tables, [] => some tables
  | tables, (m, isSub, spec) :: rest =>
    match Key.parse spec with
    | .ok k =>
      match groupAddArgumentT isSub (tables.getD m ([], [])) (otherTables tables m) k with
      | .ok t => groupDefineTablesT (tables.set m t) rest
      | _ => none
    | _ => none

theorem groupDefineSeqT_none_iff (defs : List (Nat × Bool × List Char)) :
    ∀ (tables : List Tables2) (idx : Nat),
      groupDefineSeqT tables defs idx = none ↔ ∃ ts, groupDefineTablesT tables defs = some ts := by
  induction defs with
  | nil => intro tables idx; simp [groupDefineSeqT, groupDefineTablesT]
  | cons d rest ih =>
    intro tables idx
    obtain ⟨m, isSub, spec⟩ := d
    simp only [groupDefineSeqT, groupDefineTablesT]
    cases Key.parse spec with
    | ok k =>
      simp only
      cases groupAddArgumentT isSub (tables.getD m ([], [])) (otherTables tables m) k with
      | ok t => simp only; exact ih _ _
      | throw e => simp
      | oob w => simp
    | throw e => simp
    | oob w => simp

/-- an accepted prefix: the sequence continues on the tables the prefix left, at the next index -/
theorem groupDefineSeqT_append (pre : List (Nat × Bool × List Char)) :
    ∀ (tables ts : List Tables2) (rest : List (Nat × Bool × List Char)) (idx : Nat),
      groupDefineTablesT tables pre = some ts →
      groupDefineSeqT tables (pre ++ rest) idx = groupDefineSeqT ts rest (idx + pre.length) := by
  induction pre with
  | nil =>
    intro tables ts rest idx h
    simp only [groupDefineTablesT, Option.some.injEq] at h
    subst h
    rfl
  | cons d pre ih =>
    intro tables ts rest idx h
    obtain ⟨m, isSub, spec⟩ := d
    simp only [groupDefineTablesT] at h
    simp only [List.cons_append, groupDefineSeqT]
    cases hp : Key.parse spec with
    | ok k =>
      rw [hp] at h
      simp only at h ⊢
      cases ha : groupAddArgumentT isSub (tables.getD m ([], [])) (otherTables tables m) k with
      | ok t =>
        rw [ha] at h
        simp only at h ⊢
        rw [ih _ ts rest (idx + 1) h, List.length_cons]
        congr 1
        omega
      | throw e => rw [ha] at h; cases h
      | oob w => rw [ha] at h; cases h
    | throw e => rw [hp] at h; cases h
    | oob w => rw [hp] at h; cases h

/-! ### one definition -/

theorem checkKeyUnused_cases {α : Type} (t : List (Key × α)) (k : Key) :
    (checkKeyUnused t k = .ok () ∧ ∀ e ∈ t, ¬ e.1.Clash k) ∨
    (checkKeyUnused t k = .throw .invalid_argument ∧ ∃ e ∈ t, e.1.Clash k) := by
  unfold checkKeyUnused
  by_cases h : t.any (fun e => e.1.eq k || e.1.mismatch k) = true
  · rw [if_pos h]
    obtain ⟨e, he, hc⟩ := List.any_eq_true.mp h
    exact Or.inr ⟨rfl, e, he, (eq_or_mismatch_iff e.1 k).mp hc⟩
  · rw [if_neg h]
    refine Or.inl ⟨rfl, ?_⟩
    intro e he hc
    exact h (List.any_eq_true.mpr ⟨e, he, (eq_or_mismatch_iff e.1 k).mpr hc⟩)

/-- `addArgumentChecked`: accepted (the entry is appended) iff no entry of the own table and none of
    the other container of the handler clashes with the key; else `std::invalid_argument` -/
theorem addArgumentChecked_cases {α β : Type} (own : List (Key × α)) (other : List (Key × β)) (k : Key) (a : α) :
    (addArgumentChecked own other k a = .ok (own ++ [(k, a)]) ∧
      (∀ e ∈ own, ¬ e.1.Clash k) ∧ ∀ e ∈ other, ¬ e.1.Clash k) ∨
    (addArgumentChecked own other k a = .throw .invalid_argument ∧
      ((∃ e ∈ own, e.1.Clash k) ∨ ∃ e ∈ other, e.1.Clash k)) := by
  unfold addArgumentChecked
  rcases checkKeyUnused_cases other k with ⟨e1, h1⟩ | ⟨e1, h1⟩
  · rw [e1]
    simp only [Res.bind_ok]
    rcases addArgument_cases own k a with h | h
    · exact Or.inr ⟨h, Or.inl ((addArgument_throw_iff own k a).mp h)⟩
    · refine Or.inl ⟨h, ?_, h1⟩
      intro e he hc
      exact (addArgument_ok_iff own k a).mp h ⟨e, he, hc⟩
  · rw [e1]
    exact Or.inr ⟨rfl, Or.inr h1⟩

/-- `Groups::crossCheckArguments( mod_handler)` over both containers: returns iff no key of the
    handler clashes with a key of any other member, otherwise `std::invalid_argument` -/
theorem crossCheckT_cases (op os : List Key) (others : List (List Key × List Key)) :
    (crossCheckT op os others = .ok () ∧ ∀ o ∈ others, ∀ a ∈ op ++ os, ∀ b ∈ o.1 ++ o.2, ¬ a.Clash b) ∨
    (crossCheckT op os others = .throw .invalid_argument ∧
      ∃ o ∈ others, ∃ a ∈ op ++ os, ∃ b ∈ o.1 ++ o.2, a.Clash b) := by
  induction others with
  | nil => exact Or.inl ⟨rfl, by simp⟩
  | cons o rest ih =>
    obtain ⟨p, s⟩ := o
    simp only [crossCheckT]
    rcases crossCheckHandlers_cases op os p s with ⟨e, hno⟩ | ⟨e, a, ha, b, hb, hc⟩
    · rw [e]
      simp only [Res.bind_ok]
      rcases ih with ⟨e', hno'⟩ | ⟨e', o', ho', a, ha, b, hb, hc⟩
      · refine Or.inl ⟨e', ?_⟩
        intro x hx
        rcases List.mem_cons.mp hx with rfl | hx
        · exact hno
        · exact hno' x hx
      · exact Or.inr ⟨e', o', List.mem_cons_of_mem _ ho', a, ha, b, hb, hc⟩
    · rw [e]
      exact Or.inr ⟨rfl, (p, s), List.mem_cons_self .., a, ha, b, hb, hc⟩

/-- the handler's tables after an accepted definition of `k` -/
def addedT (isSub : Bool) (own : Tables2) (k : Key) : Tables2 :=
  if isSub then (own.1, own.2 ++ [(k, ())]) else (own.1 ++ [(k, ())], own.2)

/-- the two outcomes of one definition on a member of a group -/
theorem groupAddArgumentT_cases (isSub : Bool) (own : Tables2) (others : List (List Key × List Key)) (k : Key) :
    (groupAddArgumentT isSub own others k = .ok (addedT isSub own k) ∧
      (∀ e ∈ own.1 ++ own.2, ¬ e.1.Clash k) ∧
      ∀ o ∈ others, ∀ a ∈ (addedT isSub own k).1.map (·.1) ++ (addedT isSub own k).2.map (·.1),
        ∀ b ∈ o.1 ++ o.2, ¬ a.Clash b) ∨
    (groupAddArgumentT isSub own others k = .throw .invalid_argument ∧
      ((∃ e ∈ own.1 ++ own.2, e.1.Clash k) ∨
       ∃ o ∈ others, ∃ a ∈ (addedT isSub own k).1.map (·.1) ++ (addedT isSub own k).2.map (·.1),
        ∃ b ∈ o.1 ++ o.2, a.Clash b)) := by
  obtain ⟨p, s⟩ := own
  cases isSub with
  | true =>
    simp only [groupAddArgumentT, addedT, if_true]
    rcases addArgumentChecked_cases s p k () with ⟨e, h1, h2⟩ | ⟨e, h⟩
    · rw [e]
      simp only [Res.bind_ok, Res.pure_eq]
      rcases crossCheckT_cases (p.map (·.1)) ((s ++ [(k, ())]).map (·.1)) others with ⟨e', hno⟩ | ⟨e', hex⟩
      · rw [e']
        refine Or.inl ⟨rfl, ?_, hno⟩
        intro x hx
        rcases List.mem_append.mp hx with hx | hx
        · exact h2 x hx
        · exact h1 x hx
      · rw [e']
        exact Or.inr ⟨rfl, Or.inr hex⟩
    · rw [e]
      refine Or.inr ⟨rfl, Or.inl ?_⟩
      rcases h with ⟨x, hx, hc⟩ | ⟨x, hx, hc⟩
      · exact ⟨x, List.mem_append_right _ hx, hc⟩
      · exact ⟨x, List.mem_append_left _ hx, hc⟩
  | false =>
    simp only [groupAddArgumentT, addedT, Bool.false_eq_true, if_false]
    rcases addArgumentChecked_cases p s k () with ⟨e, h1, h2⟩ | ⟨e, h⟩
    · rw [e]
      simp only [Res.bind_ok, Res.pure_eq]
      rcases crossCheckT_cases ((p ++ [(k, ())]).map (·.1)) (s.map (·.1)) others with ⟨e', hno⟩ | ⟨e', hex⟩
      · rw [e']
        refine Or.inl ⟨rfl, ?_, hno⟩
        intro x hx
        rcases List.mem_append.mp hx with hx | hx
        · exact h1 x hx
        · exact h2 x hx
      · rw [e']
        exact Or.inr ⟨rfl, Or.inr hex⟩
    · rw [e]
      refine Or.inr ⟨rfl, Or.inl ?_⟩
      rcases h with ⟨x, hx, hc⟩ | ⟨x, hx, hc⟩
      · exact ⟨x, List.mem_append_left _ hx, hc⟩
      · exact ⟨x, List.mem_append_right _ hx, hc⟩

/-- the new key is one of the keys of the handler after the definition -/
theorem key_mem_addedT (isSub : Bool) (own : Tables2) (k : Key) :
    k ∈ (addedT isSub own k).1.map (·.1) ++ (addedT isSub own k).2.map (·.1) := by
  cases isSub <;> simp [addedT]

/-- **one definition is accepted exactly when** the key clashes with no entry of either container
    of the handler and, afterwards, no key of the handler — plain or sub-group, old or new —
    clashes with a key of either container of any other member; the entry is then appended to the
    container addressed and nothing else changes -/
theorem groupAddArgumentT_ok (isSub : Bool) (own : Tables2) (others : List (List Key × List Key)) (k : Key)
    (t : Tables2) :
    groupAddArgumentT isSub own others k = .ok t ↔
      t = (if isSub then (own.1, own.2 ++ [(k, ())]) else (own.1 ++ [(k, ())], own.2)) ∧
      (∀ e ∈ own.1 ++ own.2, ¬ e.1.Clash k) ∧
      ∀ o ∈ others, ∀ a ∈ t.1.map (·.1) ++ t.2.map (·.1), ∀ b ∈ o.1 ++ o.2, ¬ a.Clash b := by
  show _ ↔ t = addedT isSub own k ∧ _
  constructor
  · intro h
    rcases groupAddArgumentT_cases isSub own others k with ⟨e, h1, h2⟩ | ⟨e, _⟩
    · rw [e] at h
      cases h
      exact ⟨rfl, h1, h2⟩
    · rw [e] at h; cases h
  · rintro ⟨rfl, h1, h2⟩
    rcases groupAddArgumentT_cases isSub own others k with ⟨e, _⟩ | ⟨_, hex | hex⟩
    · exact e
    · obtain ⟨x, hx, hc⟩ := hex
      exact absurd hc (h1 x hx)
    · obtain ⟨o, ho, a, ha, b, hb, hc⟩ := hex
      exact absurd hc (h2 o ho a ha b hb)

/-- a refusal is `std::invalid_argument` -/
theorem groupAddArgumentT_throw {isSub : Bool} {own : Tables2} {others : List (List Key × List Key)} {k : Key}
    {e : Exc} (h : groupAddArgumentT isSub own others k = .throw e) : e = .invalid_argument := by
  rcases groupAddArgumentT_cases isSub own others k with ⟨e', _⟩ | ⟨e', _⟩
  · rw [e'] at h; cases h
  · rw [e'] at h; cases h; rfl

/-- no definition runs into a checked access -/
theorem groupAddArgumentT_no_oob {isSub : Bool} {own : Tables2} {others : List (List Key × List Key)} {k : Key}
    {w : String} : groupAddArgumentT isSub own others k ≠ .oob w := by
  intro h
  rcases groupAddArgumentT_cases isSub own others k with ⟨e', _⟩ | ⟨e', _⟩
  · rw [e'] at h; cases h
  · rw [e'] at h; cases h

/-- a key that clashes with an entry of ANY container of ANY member — the handler itself or another
    member of the group — is refused with `std::invalid_argument`, for plain and for sub-group
    definitions alike -/
theorem groupAddArgumentT_refused (isSub : Bool) (own : Tables2) (others : List (List Key × List Key)) (k : Key)
    (h : (∃ e ∈ own.1 ++ own.2, e.1.Clash k) ∨ ∃ o ∈ others, ∃ b ∈ o.1 ++ o.2, b.Clash k) :
    groupAddArgumentT isSub own others k = .throw .invalid_argument := by
  rcases groupAddArgumentT_cases isSub own others k with ⟨_, h1, h2⟩ | ⟨e, _⟩
  · rcases h with ⟨x, hx, hc⟩ | ⟨o, ho, b, hb, hc⟩
    · exact absurd hc (h1 x hx)
    · exact absurd (clash_symm hc) (h2 o ho k (key_mem_addedT isSub own k) b hb)
  · exact e

/-! ### the invariant -/

/-- no two keys of the group clash: inside every member (all keys of the handler as one table, the
    sub-group entries first), and between any two members (either container of each) -/
structure Tables2Disjoint (tables : List Tables2) : Prop where
  own : ∀ (i : Nat) (t : Tables2), tables[i]? = some t → Disjoint (unionTable t.2 t.1)
  cross : ∀ (i j : Nat) (a b : Tables2), i ≠ j → tables[i]? = some a → tables[j]? = some b →
    ∀ e ∈ a.1 ++ a.2, ∀ f ∈ b.1 ++ b.2, ¬ e.1.Clash f.1

theorem tables2Disjoint_replicate (n : Nat) : Tables2Disjoint (List.replicate n ([], [])) := by
  constructor
  · intro i t ht
    rw [List.getElem?_replicate] at ht
    split at ht
    · cases ht; exact List.Pairwise.nil
    · cases ht
  · intro i j a b _ ha _ e he
    rw [List.getElem?_replicate] at ha
    split at ha
    · cases ha; cases he
    · cases ha

/-- the union of the two tables of a handler is free of clashes iff each table is and no sub-group
    key clashes with a plain key -/
theorem disjoint_unionTable_iff {α β : Type} (subT : List (Key × α)) (plainT : List (Key × β)) :
    Disjoint (unionTable subT plainT) ↔
      Disjoint subT ∧ Disjoint plainT ∧ ∀ a ∈ subT, ∀ b ∈ plainT, ¬ a.1.Clash b.1 := by
  unfold Disjoint unionTable
  rw [List.pairwise_append, List.pairwise_map, List.pairwise_map]
  simp only [List.mem_map, forall_exists_index, and_imp, forall_apply_eq_imp_iff₂]

theorem disjoint_snoc {α : Type} {t : List (Key × α)} {k : Key} {a : α} (ht : Disjoint t)
    (hno : ∀ e ∈ t, ¬ e.1.Clash k) : Disjoint (t ++ [(k, a)]) := by
  unfold Disjoint at ht ⊢
  rw [List.pairwise_append]
  refine ⟨ht, List.pairwise_singleton _ _, ?_⟩
  intro x hx b hb
  rw [List.mem_singleton] at hb
  subst hb
  exact hno x hx

/-- the keys of one handler stay free of clashes when a key that clashes with none of them is added
    to either container -/
theorem disjoint_union_addedT (isSub : Bool) (own : Tables2) (k : Key)
    (h0 : Disjoint (unionTable own.2 own.1)) (hno : ∀ e ∈ own.1 ++ own.2, ¬ e.1.Clash k) :
    Disjoint (unionTable (addedT isSub own k).2 (addedT isSub own k).1) := by
  obtain ⟨p, s⟩ := own
  obtain ⟨hs, hp, hsp⟩ := (disjoint_unionTable_iff s p).mp h0
  have hnp : ∀ e ∈ p, ¬ e.1.Clash k := fun e he => hno e (List.mem_append_left _ he)
  have hns : ∀ e ∈ s, ¬ e.1.Clash k := fun e he => hno e (List.mem_append_right _ he)
  rw [disjoint_unionTable_iff]
  cases isSub with
  | true =>
    simp only [addedT, if_true]
    refine ⟨disjoint_snoc hs hns, hp, ?_⟩
    intro a ha b hb
    rcases List.mem_append.mp ha with ha | ha
    · exact hsp a ha b hb
    · rw [List.mem_singleton] at ha
      subst ha
      exact fun hc => hnp b hb (clash_symm hc)
  | false =>
    simp only [addedT, Bool.false_eq_true, if_false]
    refine ⟨hs, disjoint_snoc hp hnp, ?_⟩
    intro a ha b hb
    rcases List.mem_append.mp hb with hb | hb
    · exact hsp a ha b hb
    · rw [List.mem_singleton] at hb
      subst hb
      exact hns a ha

theorem mem_otherTables {tables : List Tables2} {m : Nat} {o : List Key × List Key} :
    o ∈ otherTables tables m ↔
      ∃ j b, j ≠ m ∧ tables[j]? = some b ∧ o = (b.1.map (·.1), b.2.map (·.1)) := by
  unfold otherTables
  simp only [List.mem_map, List.mem_filter, bne_iff_ne, ne_eq]
  constructor
  · rintro ⟨⟨b, j⟩, ⟨hmem, hne⟩, rfl⟩
    exact ⟨j, b, hne, List.mem_zipIdx_iff_getElem?.mp hmem, rfl⟩
  · rintro ⟨j, b, hne, hb, rfl⟩
    exact ⟨(b, j), ⟨List.mem_zipIdx_iff_getElem?.mpr hb, hne⟩, rfl⟩

theorem mem_keys_append {a b : List (Key × Unit)} {x : Key} :
    x ∈ a.map (·.1) ++ b.map (·.1) ↔ ∃ e ∈ a ++ b, e.1 = x := by
  rw [← List.map_append, List.mem_map]

/-- one accepted definition keeps the group free of clashes -/
theorem tables2Disjoint_step {tables : List Tables2} (hinv : Tables2Disjoint tables) (m : Nat) (isSub : Bool)
    (k : Key) {t : Tables2}
    (h : groupAddArgumentT isSub (tables.getD m ([], [])) (otherTables tables m) k = .ok t) :
    Tables2Disjoint (tables.set m t) := by
  by_cases hm : m < tables.length
  · have hown : tables[m]? = some (tables.getD m ([], [])) := by
      rw [List.getD_eq_getElem?_getD, List.getElem?_eq_getElem hm]; rfl
    rcases groupAddArgumentT_cases isSub (tables.getD m ([], [])) (otherTables tables m) k with
      ⟨hok, hno, hothers⟩ | ⟨hthrow, _⟩
    · rw [hok] at h
      cases h
      have hdis := disjoint_union_addedT isSub _ k (hinv.own m _ hown) hno
      have hnew : ∀ j b, j ≠ m → tables[j]? = some b →
          ∀ e ∈ (addedT isSub (tables.getD m ([], [])) k).1 ++ (addedT isSub (tables.getD m ([], [])) k).2,
          ∀ f ∈ b.1 ++ b.2, ¬ e.1.Clash f.1 := by
        intro j b hne hb e he f hf
        exact hothers (b.1.map (·.1), b.2.map (·.1)) (mem_otherTables.mpr ⟨j, b, hne, hb, rfl⟩) e.1
          (mem_keys_append.mpr ⟨e, he, rfl⟩) f.1 (mem_keys_append.mpr ⟨f, hf, rfl⟩)
      constructor
      · intro i t' ht'
        rw [List.getElem?_set] at ht'
        by_cases hi : m = i
        · subst hi
          rw [if_pos rfl, if_pos hm] at ht'
          cases ht'; exact hdis
        · rw [if_neg hi] at ht'
          exact hinv.own i t' ht'
      · intro i j a b hij ha hb e he f hf
        rw [List.getElem?_set] at ha hb
        by_cases hi : m = i
        · subst hi
          rw [if_pos rfl, if_pos hm] at ha
          cases ha
          rw [if_neg hij] at hb
          exact hnew j b (Ne.symm hij) hb e he f hf
        · rw [if_neg hi] at ha
          by_cases hj : m = j
          · subst hj
            rw [if_pos rfl, if_pos hm] at hb
            cases hb
            exact fun hc => hnew i a (Ne.symm hi) ha f hf e he (clash_symm hc)
          · rw [if_neg hj] at hb
            exact hinv.cross i j a b hij ha hb e he f hf
    · rw [hthrow] at h; cases h
  · rw [List.set_eq_of_length_le (Nat.le_of_not_lt hm)]
    exact hinv

/-- every accepted registration history leaves a group without clashing keys -/
theorem groupDefineTablesT_disjoint (defs : List (Nat × Bool × List Char)) :
    ∀ (tables ts : List Tables2), Tables2Disjoint tables → groupDefineTablesT tables defs = some ts →
      Tables2Disjoint ts ∧ ts.length = tables.length := by
  induction defs with
  | nil =>
    intro tables ts hinv h
    simp only [groupDefineTablesT, Option.some.injEq] at h
    subst h
    exact ⟨hinv, rfl⟩
  | cons d rest ih =>
    intro tables ts hinv h
    obtain ⟨m, isSub, spec⟩ := d
    simp only [groupDefineTablesT] at h
    cases hp : Key.parse spec with
    | ok k =>
      rw [hp] at h
      simp only at h
      cases ha : groupAddArgumentT isSub (tables.getD m ([], [])) (otherTables tables m) k with
      | ok t =>
        rw [ha] at h
        simp only at h
        obtain ⟨h1, h2⟩ := ih _ ts (tables2Disjoint_step hinv m isSub k ha) h
        exact ⟨h1, by rw [h2, List.length_set]⟩
      | throw e => rw [ha] at h; cases h
      | oob w => rw [ha] at h; cases h
    | throw e => rw [hp] at h; cases h
    | oob w => rw [hp] at h; cases h

/-! ### what the tables contain -/

/-- the keys the definitions addressed to container `isSub` of member `m` spell, in the order of
    definition -/
def definedKeysT (defs : List (Nat × Bool × List Char)) (m : Nat) (isSub : Bool) : List Key :=
  (defs.filter (fun d => d.1 == m && d.2.1 == isSub)).filterMap
    (fun d => match Key.parse d.2.2 with | .ok k => some k | _ => none)

theorem groupAddArgumentT_ok_eq {isSub : Bool} {own t : Tables2} {others : List (List Key × List Key)} {k : Key}
    (h : groupAddArgumentT isSub own others k = .ok t) : t = addedT isSub own k :=
  ((groupAddArgumentT_ok isSub own others k t).mp h).1

/-- after an accepted history each container of member `m` holds what it held before followed by
    exactly the keys defined for it, in order -/
theorem groupDefineTablesT_content (defs : List (Nat × Bool × List Char)) :
    ∀ (tables ts : List Tables2), groupDefineTablesT tables defs = some ts →
      ∀ m, m < tables.length →
        (ts.getD m ([], [])).1.map (·.1) = (tables.getD m ([], [])).1.map (·.1) ++ definedKeysT defs m false ∧
        (ts.getD m ([], [])).2.map (·.1) = (tables.getD m ([], [])).2.map (·.1) ++ definedKeysT defs m true := by
  induction defs with
  | nil =>
    intro tables ts h m _
    simp only [groupDefineTablesT, Option.some.injEq] at h
    subst h
    simp [definedKeysT]
  | cons d rest ih =>
    intro tables ts h m hm
    obtain ⟨m', isSub, spec⟩ := d
    simp only [groupDefineTablesT] at h
    cases hp : Key.parse spec with
    | ok k =>
      rw [hp] at h
      simp only at h
      cases ha : groupAddArgumentT isSub (tables.getD m' ([], [])) (otherTables tables m') k with
      | ok t =>
        rw [ha] at h
        simp only at h
        have ht := groupAddArgumentT_ok_eq ha
        have := ih _ ts h m (by rw [List.length_set]; exact hm)
        rw [this.1, this.2]
        by_cases hmm : m' = m
        · subst hmm
          have h1 : (tables.set m' t).getD m' ([], []) = t := by
            rw [List.getD_eq_getElem?_getD, List.getElem?_set, if_pos rfl, if_pos hm]; rfl
          rw [h1, ht]
          cases isSub <;> simp [definedKeysT, addedT, hp]
        · have h1 : (tables.set m' t).getD m ([], []) = tables.getD m ([], []) := by
            rw [List.getD_eq_getElem?_getD, List.getD_eq_getElem?_getD, List.getElem?_set, if_neg hmm]
          rw [h1]
          have : ((m' == m) = false) := by simpa using hmm
          simp [definedKeysT, this]
      | throw e => rw [ha] at h; cases h
      | oob w => rw [ha] at h; cases h
    | throw e => rw [hp] at h; cases h
    | oob w => rw [hp] at h; cases h

/-! ### the history theorems -/

/-- **every accepted registration history — plain and sub-group definitions, on any members, in any
    order — leaves a group without clashing keys**: if `Handler::addArgument` accepted every
    definition of the history on `n` fresh members of a group, then in the tables left behind no two
    keys of one handler clash (its sub-group and plain entries taken as ONE table, the table of
    `lookupBoth_eq_union`) and no key of one member — either container — clashes with a key of
    another member — either container —; and each container holds exactly the keys defined for it,
    in order. -/
theorem groupDefineSeqT_accepted_disjoint (n : Nat) (defs : List (Nat × Bool × List Char))
    (hacc : groupDefineSeqT (List.replicate n ([], [])) defs 0 = none) :
    ∃ tables, groupDefineTablesT (List.replicate n ([], [])) defs = some tables ∧ tables.length = n ∧
      Tables2Disjoint tables ∧
      ∀ m, m < n →
        (tables.getD m ([], [])).1.map (·.1) = definedKeysT defs m false ∧
        (tables.getD m ([], [])).2.map (·.1) = definedKeysT defs m true := by
  obtain ⟨tables, ht⟩ := (groupDefineSeqT_none_iff defs _ 0).mp hacc
  obtain ⟨hdis, hlen⟩ := groupDefineTablesT_disjoint defs _ tables (tables2Disjoint_replicate n) ht
  rw [List.length_replicate] at hlen
  refine ⟨tables, ht, hlen, hdis, ?_⟩
  intro m hm
  have := groupDefineTablesT_content defs _ tables ht m (by rw [List.length_replicate]; exact hm)
  have h0 : (List.replicate n (([], []) : Tables2)).getD m ([], []) = ([], []) := by
    rw [List.getD_eq_getElem?_getD, List.getElem?_replicate]
    split <;> rfl
  rw [h0] at this
  simpa using this

/-- **the converse: a clashing definition is refused.**  After an accepted history `pre`, a
    definition — plain or sub-group, on any member — whose key clashes with an entry of any
    container of any member of the group is refused with `std::invalid_argument`, at its own index.
    (This fails for the pinned code before `fix:` b870f06: a sub-group definition was not cross
    checked against the other members.) -/
theorem groupDefineSeqT_clash_refused (n : Nat) (defs pre post : List (Nat × Bool × List Char))
    (m : Nat) (isSub : Bool) (spec : List Char) (k : Key) (tables : List Tables2)
    (hdefs : defs = pre ++ (m, isSub, spec) :: post)
    (hpre : groupDefineTablesT (List.replicate n ([], [])) pre = some tables)
    (hk : Key.parse spec = .ok k)
    (hclash : ∃ (j : Nat) (t : Tables2), tables[j]? = some t ∧ ∃ e ∈ t.1 ++ t.2, e.1.Clash k) :
    groupDefineSeqT (List.replicate n ([], [])) defs 0 = some (.invalid_argument, pre.length) := by
  subst hdefs
  rw [groupDefineSeqT_append pre _ tables _ 0 hpre]
  simp only [groupDefineSeqT, hk, Nat.zero_add]
  have href : groupAddArgumentT isSub (tables.getD m ([], [])) (otherTables tables m) k =
      .throw .invalid_argument := by
    apply groupAddArgumentT_refused
    obtain ⟨j, t, hj, e, he, hc⟩ := hclash
    by_cases hjm : j = m
    · subst hjm
      left
      have : tables.getD j ([], []) = t := by
        rw [List.getD_eq_getElem?_getD, hj]; rfl
      rw [this]
      exact ⟨e, he, hc⟩
    · right
      exact ⟨_, mem_otherTables.mpr ⟨j, t, hjm, hj, rfl⟩, e.1, mem_keys_append.mpr ⟨e, he, rfl⟩, hc⟩
  rw [href]

/-- **a handler built through the API, alone**: every accepted history of plain and sub-group
    definitions on one handler leaves the union of its two tables free of clashes — the hypothesis
    under which the two-container lookup of `processArg` (`lookupBoth_eq_union`) finds at most one
    exact entry -/
theorem handler_history_union_disjoint (defs : List (Nat × Bool × List Char))
    (h : groupDefineSeqT [([], [])] defs 0 = none) :
    ∃ plainT subT, groupDefineTablesT [([], [])] defs = some [(plainT, subT)] ∧
      Disjoint (unionTable subT plainT) := by
  obtain ⟨tables, ht, hlen, hdis, _⟩ := groupDefineSeqT_accepted_disjoint 1 defs h
  match tables, hlen with
  | [(p, s)], _ =>
    exact ⟨p, s, ht, hdis.own 0 (p, s) rfl⟩

/-! ### closed examples -/

/-- refused: member 1 defines the sub-group argument `x`, member 0 holds the plain argument `x,xray` -/
example : groupDefineSeqT [([], []), ([], [])]
    [(0, false, ['x', ',', 'x', 'r', 'a', 'y']), (1, true, ['x'])] 0 = some (.invalid_argument, 1) := by decide

/-- accepted: a sub-group argument and a plain argument in one handler, a plain one in another -/
example : groupDefineSeqT [([], []), ([], [])]
    [(0, true, ['o', ',', 'o', 'u', 't', 'p', 'u', 't']), (0, false, ['o', 'u', 't']), (1, false, ['m'])] 0 = none := by
  decide

end CelmaVerif.ProgArgs
