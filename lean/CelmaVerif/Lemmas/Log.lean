import CelmaVerif.Model.Log
/-
  Helper lemmas for C14, part 1: single filters, `Filters`, delivery inside one log.
  Facts about the regenerated constants are proved by evaluation (`decide` / `rfl`) at the top:
  they are the obligations that break when the source changes an operator, a size or a policy.
-/
namespace CelmaVerif.Log
open CelmaVerif CelmaVerif.Generated.LogDefs

/-! ### obligations on the regenerated constants -/

/-- the class set has a bit for every enumerator (6 bits for 7 classes at the pinned commit) -/
theorem bitset_covers_classes : numClasses ≤ classBitsetSize := by decide

theorem maxLevel_ops : maxLevelPassOp = .le ∧ maxLevelProcessOp = .le := by decide
theorem minLevel_ops : minLevelPassOp = .ge ∧ minLevelProcessOp = .ge := by decide
theorem level_ops : levelPassOp = .eq ∧ levelProcessOp = .eq := by decide

/-- `ignore` keeps the existing filter, `replace` takes the new one, `exception` throws -/
theorem acceptNew_table :
    acceptNew .ignore = .keep ∧ acceptNew .replace = .replace ∧ acceptNew .exception = .throws := by decide

/-- creating a `Filters` object does not touch the configured policy -/
theorem ctor_keeps_policy : ctorResetsPolicy = false := by decide

/-- a failed replacement leaves the existing filter in place -/
theorem replace_is_safe : replaceDeletesFirst = false := by decide

theorem firstLogId_eq : firstLogId = 2 ^ 0 := by decide

/-! ### single filters -/

/-- a live filter object whose class set (if any) has the width of the bitset -/
def Filter.WF : Filter → Prop
  | .classes bits => bits.length = classBitsetSize
  | .dangling => False
  | _ => True

def Filter.isLevelFilter : Filter → Bool
  | .maxLevel _ => true
  | .minLevel _ => true
  | .level _ => true
  | _ => false

theorem Filter.pass_eq_accepts (f : Filter) (m : Msg) (hf : f.WF) (hm : m.Valid) :
    f.pass m = .ok (f.accepts m) := by
  cases f with
  | maxLevel x => simp [Filter.pass, Filter.accepts, maxLevel_ops.1, CmpOp.eval]
  | minLevel x => simp [Filter.pass, Filter.accepts, minLevel_ops.1, CmpOp.eval]
  | level x => simp [Filter.pass, Filter.accepts, level_ops.1, CmpOp.eval]
  | classes bits =>
    have h1 : m.cls < bits.length := by
      have := bitset_covers_classes
      have h2 : bits.length = classBitsetSize := hf
      have h3 := hm.2
      omega
    simp [Filter.pass, Filter.accepts, h1]
  | dangling => exact absurd hf (by simp [Filter.WF])

theorem Filter.processLevel_eq_accepts (f : Filter) (m : Msg) (hl : f.isLevelFilter = true) :
    f.processLevel m.level = .ok (f.accepts m) := by
  cases f with
  | maxLevel x => simp [Filter.processLevel, Filter.accepts, maxLevel_ops.2, CmpOp.eval]
  | minLevel x => simp [Filter.processLevel, Filter.accepts, minLevel_ops.2, CmpOp.eval]
  | level x => simp [Filter.processLevel, Filter.accepts, level_ops.2, CmpOp.eval]
  | classes bits => simp [Filter.isLevelFilter] at hl
  | dangling => simp [Filter.isLevelFilter] at hl

/-! ### `Filters` -/

/-- invariant of a `Filters` object -/
structure Filters.Inv (F : Filters) : Prop where
  wf : ∀ f ∈ F.filters, f.WF
  lvl : ∀ i, F.levelIdx = some i → ∃ f, F.filters[i]? = some f ∧ f.isLevelFilter = true

theorem Filters.inv_empty : ({} : Filters).Inv := ⟨by simp, by simp⟩

theorem passList_eq (fs : List Filter) (m : Msg) (hf : ∀ f ∈ fs, f.WF) (hm : m.Valid) :
    passList fs m = .ok (fs.all (fun f => f.accepts m)) := by
  induction fs with
  | nil => simp [passList]
  | cons f fs ih =>
    have h1 := Filter.pass_eq_accepts f m (hf f (by simp)) hm
    have h2 := ih (fun g hg => hf g (by simp [hg]))
    simp only [passList, h1, List.all_cons]
    cases hacc : f.accepts m <;> simp [h2]

theorem Filters.pass_eq (F : Filters) (m : Msg) (hF : F.Inv) (hm : m.Valid) :
    F.pass m = .ok (F.accepts m) := passList_eq F.filters m hF.wf hm

/-- the cached level filter never makes `processLevel` throw, and a level it rejects is rejected
    by the full filter list -/
theorem Filters.processLevel_sound (F : Filters) (m : Msg) (hF : F.Inv) :
    ∃ b, F.processLevel m.level = .ok b ∧ (b = false → F.accepts m = false) := by
  unfold Filters.processLevel
  cases hi : F.levelIdx with
  | none => exact ⟨true, rfl, by simp⟩
  | some i =>
    obtain ⟨f, hf, hl⟩ := hF.lvl i hi
    simp only [hf]
    refine ⟨f.accepts m, Filter.processLevel_eq_accepts f m hl, ?_⟩
    intro hb
    have hmem : f ∈ F.filters := List.mem_of_getElem? hf
    simp only [Filters.accepts, List.all_eq_false]
    exact ⟨f, hmem, by simp [hb]⟩

/-! ### delivery inside one log -/

theorem Dest.handleMessage_eq (d : Dest) (m : Msg) (hd : d.filters.Inv) (hm : m.Valid) :
    d.handleMessage m = .ok (d.deliver m) := by
  unfold Dest.handleMessage Dest.deliver
  rw [Filters.pass_eq _ _ hd hm]
  cases d.filters.accepts m <;> simp

theorem handleAll_eq (ds : List Dest) (m : Msg) (hd : ∀ d ∈ ds, d.filters.Inv) (hm : m.Valid) :
    handleAll ds m = .ok (ds.map (fun d => d.deliver m)) := by
  induction ds with
  | nil => simp [handleAll]
  | cons d ds ih =>
    simp only [handleAll, Dest.handleMessage_eq d m (hd d (by simp)) hm,
      ih (fun g hg => hd g (by simp [hg])), List.map_cons]

/-- invariant of a log: its own filters and those of all its destinations -/
structure Log.Inv (l : Log) : Prop where
  own : l.filters.Inv
  dests : ∀ d ∈ l.dests, d.filters.Inv

theorem LogEntry.message_eq (e : LogEntry) (m : Msg) (he : e.log.Inv) (hm : m.Valid) :
    e.message m = .ok (e.deliver true m) := by
  unfold LogEntry.message Log.message LogEntry.deliver
  rw [Filters.pass_eq _ _ he.own hm]
  cases hacc : e.log.filters.accepts m
  · simp
  · simp [handleAll_eq _ _ he.dests hm]

theorem LogEntry.deliver_false (e : LogEntry) (m : Msg) : e.deliver false m = e := by
  simp [LogEntry.deliver]

end CelmaVerif.Log
