import CelmaVerif.Lemmas.FixedStringC11Cover
/-
  C11 deviation `nulInIteratorSource`: `replace( first, last, first2, last2)` with `last2 == end()` of the other
  object measures the source with `strlen( &*first2)`.  When the text behind `first2` contains a NUL character only
  the characters before that NUL are taken; `std::string::replace( first, last, first2, last2)` takes the whole range.

  Helper lemmas carry the prefix `devit_`; the deliverable is `dev_step_nulInIteratorSource`.
-/
namespace CelmaVerif.FixedString
open CelmaVerif

variable {c cu : Cfg} {w : World}

/-- `std::string( const char*)` never contains the terminator -/
theorem devit_zero_not_mem_ofCStr : ∀ (b : List Byte), (0 : Byte) ∉ StdString.ofCStr b
  | [] => by unfold StdString.ofCStr; exact List.not_mem_nil
  | x :: xs => by
    unfold StdString.ofCStr
    by_cases hx : x = 0
    · rw [if_pos hx]; exact List.not_mem_nil
    · rw [if_neg hx]
      intro h
      rcases List.mem_cons.mp h with h | h
      · exact hx h.symm
      · exact devit_zero_not_mem_ofCStr xs h

theorem devit_ofCStr_length_le : ∀ (b : List Byte), (StdString.ofCStr b).length ≤ b.length
  | [] => by unfold StdString.ofCStr; exact Nat.le_refl _
  | x :: xs => by
    unfold StdString.ofCStr
    by_cases hx : x = 0
    · rw [if_pos hx]; exact Nat.zero_le _
    · rw [if_neg hx, List.length_cons, List.length_cons]
      exact Nat.succ_le_succ (devit_ofCStr_length_le xs)

/-- a text with a NUL character is not what `std::string( const char*)` makes of it -/
theorem devit_ofCStr_ne {l : List Byte} (h : hasNul l = true) : StdString.ofCStr l ≠ l := by
  intro he
  have h0 : (0 : Byte) ∈ l := hasNul_iff.mp h
  rw [← he] at h0
  exact devit_zero_not_mem_ofCStr l h0

/-- the text of `o` from position `a` on, as a window of the buffer -/
theorem devit_abs_drop (o : FStr) (a : Nat) : (abs o).drop a = (o.buf.drop a).take (o.len - a) := by
  unfold abs
  exact List.drop_take

/-- `strlen( &o[ a])` for a well-formed `o`: it stops at the first NUL, which is at or before the terminator; the
    bytes before it are what `std::string( const char*)` makes of the rest of the text -/
theorem devit_cstrlen_tail {co : Cfg} {o : FStr} (ho : WF co o) (a : Nat) (ha : a ≤ o.len) :
    ∃ k, cstrlen (o.buf.drop a) = .ok k ∧ k ≤ o.len - a ∧
      (o.buf.drop a).take k = StdString.ofCStr ((abs o).drop a) := by
  have hb := w2_wf_len ho
  have hz : (o.buf.drop a)[o.len - a]? = some 0 := by
    rw [List.getElem?_drop, show a + (o.len - a) = o.len by omega]; exact ho.2.2
  have hmem : (0 : Byte) ∈ o.buf.drop a := List.mem_of_getElem? hz
  obtain ⟨k, hk, hlt, hof⟩ := cstrlen_of_mem hmem
  have heq : StdString.ofCStr ((abs o).drop a) = StdString.ofCStr (o.buf.drop a) := by
    rw [devit_abs_drop]
    exact ofCStr_take_of_nul _ _ hz
  refine ⟨k, hk, ?_, ?_⟩
  · have h1 := devit_ofCStr_length_le ((abs o).drop a)
    rw [heq, hof, List.length_take, devit_abs_drop, List.length_take] at h1
    omega
  · rw [heq, hof]

/-- the deviation with the facts spelled out: a proper range of `s`, a proper source range `[i, end())` of `t`
    whose text contains a NUL -/
theorem dev_step_nulInIteratorSource' (hc : CfgOK c) (hw : WFW c cu w) (f l i j : ItArg)
    (hr : itRange (abs w.s) f l = true) (hlt : itPos (abs w.t) i < itPos (abs w.t) j)
    (hder : derefable (abs w.t) i = true) (hj : actsEnd (abs w.t) j = true)
    (hn : hasNul ((abs w.t).drop (itPos (abs w.t) i)) = true) :
    (∀ w' o, step c cu w (.repItItItIt f l i j) = .ok (w', o) →
      abs w'.s = ((abs w.s).take (itPos (abs w.s) f) ++ StdString.ofCStr ((abs w.t).drop (itPos (abs w.t) i)) ++
                  (abs w.s).drop (itPos (abs w.s) l)).take c.L) ∧
    spec id (npos c) w (.repItItItIt f l i j) =
      .ok ((abs w.s).take (itPos (abs w.s) f) ++ (abs w.t).drop (itPos (abs w.t) i) ++
           (abs w.s).drop (itPos (abs w.s) l), .unit) ∧
    StdString.ofCStr ((abs w.t).drop (itPos (abs w.t) i)) ≠ (abs w.t).drop (itPos (abs w.t) i) := by
  obtain ⟨e1, e2, e3, e4, _, e6, e7⟩ := w2_it hc hw.1 f l hr
  obtain ⟨z1, z2, z3, z4, z5, z6, _⟩ := w2_it3 hc hw.2.1 i j hder hlt
  have hl := abs_length hw.1
  have hlt' := abs_length hw.2.1
  have hbt := w2_wf_len hw.2.1
  have hend : itOf c w.t j = itEnd c := itOf_actsEnd hw.2.1 hj
  have hpj : itPos (abs w.t) j = (abs w.t).length := cover_actsEnd_pos hj
  have hpl : itPos (abs w.s) f + (itPos (abs w.s) l - itPos (abs w.s) f) = itPos (abs w.s) l := by omega
  refine ⟨?_, ?_, devit_ofCStr_ne hn⟩
  · intro w' o h
    simp only [step] at h
    obtain ⟨s', h1, rfl, rfl⟩ := mutS_inv h
    show abs s' = _
    unfold replaceItIt at h1
    rw [if_neg (by intro hh; rcases hh with hh | hh | hh <;> first | exact e1 hh | exact e2 hh | exact z1 hh)] at h1
    simp only [] at h1
    obtain ⟨b, hb⟩ := okr_get1 (a := w.t.buf) (i := itOf c w.t i) (by omega)
    rw [show itDeref c w.t (itOf c w.t i) = .ok b from by unfold itDeref; rw [if_neg z2, hb]] at h1
    simp only [] at h1
    rw [e3, e4] at h1
    obtain ⟨k, hk, hkle, hkof⟩ := devit_cstrlen_tail hw.2.1 (itPos (abs w.t) i) (by omega)
    rw [if_pos hend, z3, hk, bindR_ok] at h1
    have h2 := replaceImpl_abs hc hw.1 _ _ (a := w.t.buf.drop (itPos (abs w.t) i)) (pos2 := 0)
      (count2 := k) e6 (by simp; omega) h1
    rw [List.drop_zero, hkof, hpl] at h2
    exact h2
  · simp only [spec]
    rw [show w.text Sel.t = abs w.t from rfl]
    rw [w2_spec_itRep _ _ _ _ e7 (by omega), hpl, hpj]
    rw [List.take_of_length_le (l := (abs w.t).drop (itPos (abs w.t) i))
      (i := (abs w.t).length - itPos (abs w.t) i) (by rw [List.length_drop]; omega)]

/-- what `devCase … = some .nulInIteratorSource` says -/
theorem devit_case_inv (f l i j : ItArg)
    (hk : devCase (npos c) w (.repItItItIt f l i j) = some .nulInIteratorSource) :
    itRange (abs w.s) f l = true ∧ itPos (abs w.t) i < itPos (abs w.t) j ∧ derefable (abs w.t) i = true ∧
    actsEnd (abs w.t) j = true ∧ hasNul ((abs w.t).drop (itPos (abs w.t) i)) = true := by
  simp only [devCase] at hk
  generalize hr : ((abs w.t).drop (itPos (abs w.t) i)).take (itPos (abs w.t) j - itPos (abs w.t) i) = r at hk
  cases hq : itRepCase (abs w.s) f l r with
  | some k =>
    rw [hq] at hk
    simp only [] at hk
    have hk' : k = .nulInIteratorSource := Option.some.inj hk
    subst hk'
    exfalso
    unfold itRepCase at hq
    split at hq
    · cases hq
    · split at hq
      · cases hq
      · split at hq <;> cases hq
  | none =>
    rw [hq] at hk
    simp only [] at hk
    have hcond : (actsEnd (abs w.t) j && hasNul ((abs w.t).drop (itPos (abs w.t) i))) = true := by
      cases hb : (actsEnd (abs w.t) j && hasNul ((abs w.t).drop (itPos (abs w.t) i)))
      · rw [hb] at hk; cases hk
      · rfl
    rw [Bool.and_eq_true] at hcond
    have h1 : ¬ actsEnd (abs w.s) f = true := by
      intro h; unfold itRepCase at hq; rw [if_pos h] at hq; cases hq
    have h2 : ¬ itPos (abs w.s) l ≤ itPos (abs w.s) f := by
      intro h; unfold itRepCase at hq; rw [if_neg h1, if_pos h] at hq; cases hq
    have h3 : ¬ r.length = 0 := by
      intro h; unfold itRepCase at hq; rw [if_neg h1, if_neg h2, if_pos h] at hq; cases hq
    have hdf : derefable (abs w.s) f = true := by
      rcases cover_deref_or (abs w.s) f with h | h
      · exact h
      · exact absurd h h1
    have hyl := itPos_le (abs w.t) j
    have hlt : itPos (abs w.t) i < itPos (abs w.t) j := by
      rw [← hr, List.length_take, List.length_drop] at h3; omega
    have hdi : derefable (abs w.t) i = true := by
      rcases cover_deref_or (abs w.t) i with h | h
      · exact h
      · have := cover_actsEnd_pos h; omega
    refine ⟨?_, hlt, hdi, hcond.1, hcond.2⟩
    unfold itRange
    rw [hdf, Bool.true_and, decide_eq_true_eq]
    omega

/-- **Deviation `nulInIteratorSource`.**  `replace( first, last, first2, end())` with a NUL character in the text of
    the source behind `first2`: the code takes the characters up to that NUL (`strlen( &*first2)`), `std::string`
    takes the whole range — and the two replacement texts differ. -/
theorem dev_step_nulInIteratorSource (hc : CfgOK c) (hw : WFW c cu w) (f l i j : ItArg)
    (hk : devCase (npos c) w (.repItItItIt f l i j) = some .nulInIteratorSource) :
    (∀ w' o, step c cu w (.repItItItIt f l i j) = .ok (w', o) →
      abs w'.s = ((abs w.s).take (itPos (abs w.s) f) ++ StdString.ofCStr ((abs w.t).drop (itPos (abs w.t) i)) ++
                  (abs w.s).drop (itPos (abs w.s) l)).take c.L) ∧
    spec id (npos c) w (.repItItItIt f l i j) =
      .ok ((abs w.s).take (itPos (abs w.s) f) ++ (abs w.t).drop (itPos (abs w.t) i) ++
           (abs w.s).drop (itPos (abs w.s) l), .unit) ∧
    StdString.ofCStr ((abs w.t).drop (itPos (abs w.t) i)) ≠ (abs w.t).drop (itPos (abs w.t) i) := by
  obtain ⟨hr, hlt, hder, hj, hn⟩ := devit_case_inv f l i j hk
  exact dev_step_nulInIteratorSource' hc hw f l i j hr hlt hder hj hn

/-! ### non-vacuity: `s = "abc"`, `t = "x\0y"`, `s.replace( s.begin(), s.begin() + 1, t.begin(), t.end())` -/

/-- capacity 8, 64-bit `size_t`, 8-bit length type -/
def devitCfg : Cfg := ⟨8, 2 ^ 64, 256⟩

def devitWorld : World :=
  ⟨⟨[97, 98, 99, 0, 0, 0, 0, 0, 0], 3⟩, ⟨[120, 0, 121, 0, 0, 0, 0, 0, 0], 3⟩, fresh ⟨9, 2 ^ 64, 256⟩⟩

def devitOp : Op := .repItItItIt (.pos 0) (.pos 1) (.pos 0) .fin

example : devCase (npos devitCfg) devitWorld devitOp = some .nulInIteratorSource := by decide

/-- the code answers `xbc` … -/
example : (match step devitCfg ⟨9, 2 ^ 64, 256⟩ devitWorld devitOp with
    | .ok (w', _) => some (abs w'.s)
    | _ => none) = some [120, 98, 99] := by decide

/-- … where `std::string` answers `x\0ybc` -/
example : spec id (npos devitCfg) devitWorld devitOp = .ok ([120, 0, 121, 98, 99], .unit) := by rfl

example : WFW devitCfg ⟨9, 2 ^ 64, 256⟩ devitWorld := ⟨by decide, by decide, by decide⟩

/-- the hypotheses of the theorem hold together in this world -/
example := dev_step_nulInIteratorSource (c := devitCfg) (cu := ⟨9, 2 ^ 64, 256⟩) (w := devitWorld)
  ⟨by decide, by decide⟩ ⟨by decide, by decide, by decide⟩ (.pos 0) (.pos 1) (.pos 0) .fin (by decide)

end CelmaVerif.FixedString
