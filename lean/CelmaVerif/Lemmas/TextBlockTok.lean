import CelmaVerif.Model.TextBlock
/-
  Lemmas about the tokenizer model `tokP` (maximal runs of non-delimiters) and `render`.
-/
namespace CelmaVerif.TextBlock

/-- no character of `w` is a delimiter -/
def Clean (p : Char → Bool) (w : Str) : Prop := ∀ x ∈ w, p x = false

theorem Clean.nil (p) : Clean p [] := by intro x hx; cases hx

theorem Clean.append {p} {a b : Str} (ha : Clean p a) (hb : Clean p b) : Clean p (a ++ b) := by
  intro x hx
  rcases List.mem_append.mp hx with h | h
  · exact ha x h
  · exact hb x h

theorem Clean.cons {p} {x : Char} {a : Str} (hx : p x = false) (ha : Clean p a) : Clean p (x :: a) := by
  intro y hy
  rcases List.mem_cons.mp hy with h | h
  · rw [h]; exact hx
  · exact ha y h

theorem push_nil (d : List Str) : push ([], d) = d := by simp [push]

theorem push_cons {a : Str} (h : a ≠ []) (d : List Str) : push (a, d) = a :: d := by simp [push, h]

theorem push_append (r : Str × List Str) (t : List Str) : push (r.1, r.2 ++ t) = push r ++ t := by
  unfold push
  split <;> simp

theorem tok_nil (p) : tok p [] = ([], []) := rfl

theorem tok_cons_sep {p} {c : Char} (h : p c = true) (cs : Str) : tok p (c :: cs) = ([], tokP p cs) := by
  simp [tok, h, tokP]

theorem tok_cons_not {p} {c : Char} (h : p c = false) (cs : Str) :
    tok p (c :: cs) = (c :: (tok p cs).1, (tok p cs).2) := by
  simp [tok, h]

theorem tokP_nil (p) : tokP p [] = [] := rfl

theorem tokP_cons_sep {p} {c : Char} (h : p c = true) (cs : Str) : tokP p (c :: cs) = tokP p cs := by
  unfold tokP
  rw [tok_cons_sep h, push_nil]
  rfl

/-- splitting a text at a delimiter splits the token list -/
theorem tok_append_sep {p} (a : Str) {c : Char} (h : p c = true) (b : Str) :
    tok p (a ++ c :: b) = ((tok p a).1, (tok p a).2 ++ tokP p b) := by
  induction a with
  | nil => simp [tok_cons_sep h, tok_nil]
  | cons x a ih =>
    cases hx : p x with
    | true =>
      rw [List.cons_append, tok_cons_sep hx, tok_cons_sep hx]
      unfold tokP
      rw [ih, push_append]
      rfl
    | false =>
      rw [List.cons_append, tok_cons_not hx, tok_cons_not hx, ih]

theorem tokP_append_sep {p} (a : Str) {c : Char} (h : p c = true) (b : Str) :
    tokP p (a ++ c :: b) = tokP p a ++ tokP p b := by
  unfold tokP
  rw [tok_append_sep a h, push_append]
  rfl

theorem tok_clean {p} {w : Str} (h : Clean p w) : tok p w = (w, []) := by
  induction w with
  | nil => rfl
  | cons x w ih =>
    have hx : p x = false := h x (List.mem_cons_self ..)
    have hw : Clean p w := fun y hy => h y (List.mem_cons_of_mem _ hy)
    rw [tok_cons_not hx, ih hw]

theorem tokP_clean {p} {w : Str} (h : Clean p w) (hne : w ≠ []) : tokP p w = [w] := by
  unfold tokP
  rw [tok_clean h, push_cons hne]

/-- leading delimiters are skipped -/
theorem tokP_seps_append {p} (b : Str) (hb : ∀ x ∈ b, p x = true) (s : Str) : tokP p (b ++ s) = tokP p s := by
  induction b with
  | nil => rfl
  | cons x b ih =>
    rw [List.cons_append, tokP_cons_sep (hb x (List.mem_cons_self ..))]
    exact ih (fun y hy => hb y (List.mem_cons_of_mem _ hy))

theorem tokP_seps {p} (b : Str) (hb : ∀ x ∈ b, p x = true) : tokP p b = [] := by
  have := tokP_seps_append b hb []
  rw [List.append_nil] at this
  rw [this]
  rfl

/-- every token is non-empty, free of delimiters and made of characters of the text -/
theorem tok_spec (p) (s : Str) :
    (Clean p (tok p s).1 ∧ ∀ x ∈ (tok p s).1, x ∈ s) ∧
    ∀ w ∈ (tok p s).2, w ≠ [] ∧ Clean p w ∧ ∀ x ∈ w, x ∈ s := by
  induction s with
  | nil => exact ⟨⟨Clean.nil p, by intro x hx; cases hx⟩, by intro w hw; cases hw⟩
  | cons c cs ih =>
    obtain ⟨⟨h1, h1s⟩, h2⟩ := ih
    cases hc : p c with
    | true =>
      rw [tok_cons_sep hc]
      refine ⟨⟨Clean.nil p, by intro x hx; cases hx⟩, ?_⟩
      intro w hw
      unfold tokP push at hw
      split at hw
      · obtain ⟨a, b, d⟩ := h2 w hw
        exact ⟨a, b, fun x hx => List.mem_cons_of_mem _ (d x hx)⟩
      · rename_i hne
        rcases List.mem_cons.mp hw with h | h
        · subst h
          exact ⟨hne, h1, fun x hx => List.mem_cons_of_mem _ (h1s x hx)⟩
        · obtain ⟨a, b, d⟩ := h2 w h
          exact ⟨a, b, fun x hx => List.mem_cons_of_mem _ (d x hx)⟩
    | false =>
      rw [tok_cons_not hc]
      refine ⟨⟨Clean.cons hc h1, ?_⟩, ?_⟩
      · intro x hx
        rcases List.mem_cons.mp hx with h | h
        · rw [h]; exact List.mem_cons_self ..
        · exact List.mem_cons_of_mem _ (h1s x h)
      · intro w hw
        obtain ⟨a, b, d⟩ := h2 w hw
        exact ⟨a, b, fun x hx => List.mem_cons_of_mem _ (d x hx)⟩

theorem tokP_spec (p) (s : Str) : ∀ w ∈ tokP p s, w ≠ [] ∧ Clean p w ∧ ∀ x ∈ w, x ∈ s := by
  intro w hw
  obtain ⟨⟨h1, h1s⟩, h2⟩ := tok_spec p s
  unfold tokP push at hw
  split at hw
  · exact h2 w hw
  · rename_i hne
    rcases List.mem_cons.mp hw with h | h
    · subst h; exact ⟨hne, h1, h1s⟩
    · exact h2 w h

/-- tokens of a text without delimiters of a second kind have none either -/
theorem tokP_clean_other (p q) (s : Str) (hs : Clean q s) : ∀ w ∈ tokP p s, Clean q w := by
  intro w hw x hx
  exact hs x ((tokP_spec p s w hw).2.2 x hx)

/-- delimiter set union -/
def por (p q : Char → Bool) : Char → Bool := fun c => p c || q c

theorem nested_aux (q : Char → Bool) (cur cur2 : Str) (d done : List Str) (h1 : tok q cur = (cur2, d)) :
    (push (cur, done)).flatMap (tokP q) = push (cur2, d ++ done.flatMap (tokP q)) := by
  by_cases hcur : cur = []
  · subst hcur
    rw [tok_nil] at h1
    cases h1
    simp [push]
  · rw [push_cons hcur, List.flatMap_cons]
    have : tokP q cur = push (cur2, d) := by unfold tokP; rw [h1]
    rw [this]
    exact (push_append (cur2, d) _).symm

/-- splitting at `p`, then every piece at `q`, is splitting at `p ∨ q` -/
theorem tok_nested (p q : Char → Bool) (s : Str) :
    ∃ d, tok q (tok p s).1 = ((tok (por p q) s).1, d) ∧
      d ++ (tok p s).2.flatMap (tokP q) = (tok (por p q) s).2 := by
  induction s with
  | nil => exact ⟨[], rfl, rfl⟩
  | cons c cs ih =>
    obtain ⟨d, h1, h2⟩ := ih
    cases hp : p c with
    | true =>
      have hpq : por p q c = true := by simp [por, hp]
      rw [tok_cons_sep hp, tok_cons_sep hpq]
      refine ⟨[], rfl, ?_⟩
      show (push ((tok p cs).1, (tok p cs).2)).flatMap (tokP q) = push ((tok (por p q) cs).1, (tok (por p q) cs).2)
      rw [nested_aux q _ _ d _ h1, h2]
    | false =>
      cases hq : q c with
      | true =>
        have hpq : por p q c = true := by simp [por, hq]
        rw [tok_cons_not hp, tok_cons_sep hpq, tok_cons_sep hq]
        refine ⟨tokP q (tok p cs).1, rfl, ?_⟩
        show push (tok q (tok p cs).1) ++ (tok p cs).2.flatMap (tokP q) = push ((tok (por p q) cs).1, (tok (por p q) cs).2)
        rw [h1, ← h2]
        exact (push_append (_, d) _).symm
      | false =>
        have hpq : por p q c = false := by simp [por, hp, hq]
        rw [tok_cons_not hp, tok_cons_not hpq, tok_cons_not hq, h1]
        exact ⟨d, rfl, h2⟩

theorem tokP_nested (p q : Char → Bool) (s : Str) :
    (tokP p s).flatMap (tokP q) = tokP (por p q) s := by
  obtain ⟨d, h1, h2⟩ := tok_nested p q s
  show (push ((tok p s).1, (tok p s).2)).flatMap (tokP q) = push ((tok (por p q) s).1, (tok (por p q) s).2)
  rw [nested_aux q _ _ d _ h1, h2]

/-- the words of a text are the blank-separated tokens of its newline-separated lines -/
theorem words_eq_nested (s : Str) : words s = (tokP isNl s).flatMap (tokP isSp) := by
  rw [tokP_nested]
  rfl

/-! ### `render` -/

theorem render_cons_cons (l l' : Str) (ls : List Str) : render (l :: l' :: ls) = l ++ '\n' :: render (l' :: ls) := rfl

/-- the newline-separated pieces of the rendered text are the lines (empty ones are dropped by
    the tokenizer, they hold no word anyway) -/
theorem flatMap_tokP_render (f : Str → List Str) (hf : f [] = []) (ls : List Str)
    (hls : ∀ l ∈ ls, Clean isNl l) : (tokP isNl (render ls)).flatMap f = ls.flatMap f := by
  induction ls with
  | nil => rfl
  | cons l ls ih =>
    have hl : Clean isNl l := hls l (List.mem_cons_self ..)
    have one : (tokP isNl l).flatMap f = f l := by
      by_cases hne : l = []
      · subst hne; simp [tokP_nil, hf]
      · rw [tokP_clean hl hne]; simp
    cases ls with
    | nil => simpa [render] using one
    | cons l' ls =>
      rw [render_cons_cons, tokP_append_sep l (by rfl : isNl '\n' = true), List.flatMap_append,
        ih (fun x hx => hls x (List.mem_cons_of_mem _ hx)), one]
      rfl

/-- the words of the rendered output are the words of its lines -/
theorem words_render (ls : List Str) (hls : ∀ l ∈ ls, Clean isNl l) :
    words (render ls) = ls.flatMap (tokP isSp) := by
  rw [words_eq_nested]
  exact flatMap_tokP_render _ (tokP_nil _) ls hls

end CelmaVerif.TextBlock
