import CelmaVerif.Lemmas.RulesArgs
/-
  Rules layer, part 7: the destinations.  The effect of `assign` on the destination per kind, the
  closed form `denote` of a destination in terms of the argument's own uses, and the theorem
  `dests_denote`.
-/
namespace CelmaVerif.ProgArgs
open CelmaVerif CelmaVerif.Keys

/-! ### specification: what a destination holds after the evaluation -/

-- `denote` is defined in Model/ProgArgs/Spec.lean (the value constraints of `ObeysGlobals` use it)

/-! ### `denote` step by step -/

theorem getLast?_snoc {α : Type} (l : List α) (a : α) : (l ++ [a]).getLast? = some a := by simp

/-- the closed form of a list destination also covers "not used" when the initial value is a list -/
theorem denote_vec {d : ArgDef} (hk : d.kind = .vecInt) (l : List Int) (vals : List Word) :
    denote d (.vec l) vals = .vec (l ++ vals.flatMap (fun v => castAll (splitSep d.sep v))) := by
  unfold denote
  cases h : vals.getLast? with
  | none =>
    have : vals = [] := by simpa using h
    subst this; simp
  | some last => simp [hk, vecOf]

theorem levelOf_denote {d : ArgDef} (hk : d.kind = .level) (init : DVal) (vals : List Word) :
    levelOf (denote d init vals) = vals.foldl levelStep (levelOf init) := by
  unfold denote
  cases h : vals.getLast? with
  | none =>
    have : vals = [] := by simpa using h
    subst this; simp
  | some last => simp [hk, levelOf]

/-- one more use of the argument: `assign` takes `denote` of the values so far to `denote` of the
    values including the new one -/
theorem denote_snoc {d : ArgDef} {init : DVal} {vals : List Word} {st st' : ArgSt} {v : Word}
    (ht : d.kind = .vecInt → ∃ l, init = .vec l)
    (hd : st.dest = denote d init vals) (e : assignDest d st v = .ok st') :
    st'.dest = denote d init (vals ++ [v]) := by
  have eff := assignDest_effect e
  cases hk : d.kind with
  | flag => rw [hk] at eff; rw [eff.1]; simp [denote, hk]
  | int => rw [hk] at eff; rw [eff.1]; simp [denote, hk]
  | str => rw [hk] at eff; rw [eff.1]; simp [denote, hk]
  | level =>
    rw [hk] at eff; dsimp only at eff
    rw [eff.1, hd, levelOf_denote hk]
    simp [denote, hk, List.foldl_append]
  | vecInt =>
    rw [hk] at eff; dsimp only at eff
    obtain ⟨l, rfl⟩ := ht hk
    rw [eff.2, hd, denote_vec hk, denote_vec hk]
    by_cases hs : splitSep d.sep v = []
    · simp [hs, castAll]
    · simp [hs, vecOf, List.flatMap_append]

/-! ### the invariant and the theorem -/

/-- every destination is `denote` of the uses of its argument so far -/
def DestInv (cfg : Cfg) (inits : List DVal) (h : HState) : Prop :=
  ∀ (i : Nat) (d : ArgDef) (v : DVal), cfg.args[i]? = some d → inits[i]? = some v →
    (d.kind = .vecInt → ∃ l, v = .vec l) →
    ∃ st, h.args[i]? = some st ∧ st.dest = denote d v (valsOf i h.uses)

theorem destInv_init (cfg : Cfg) (inits : List DVal) (hin : cfg.args.length ≤ inits.length) :
    DestInv cfg inits (cfg.initState inits) := by
  intro i d v hi hv _
  obtain ⟨v', hv', hst⟩ := initState_args cfg inits i d hi hin
  rw [hv] at hv'; cases hv'
  exact ⟨_, hst, by simp [valsOf, Cfg.initState, denote]⟩

theorem destInv_step {cfg : Cfg} {inits : List DVal} {h : HState} {u : Use} {h' : HState}
    (f : Frame cfg h) (a : DestInv cfg inits h) (e : applyUse cfg h u = .ok h') : DestInv cfg inits h' := by
  obtain ⟨d, pend, cnt, st', s⟩ := applyUse_ok e
  intro i di v hi hv ht
  obtain ⟨st, hst, hd⟩ := a i di v hi hv ht
  rw [s.uses', valsOf_snoc]
  by_cases hui : u.arg = i
  · have hdd : di = d := by have := s.arg; rw [hui, hi] at this; cases this; rfl
    subst hdd
    have hlt : i < h.args.length := by rw [f.argsLen]; exact (List.getElem?_eq_some_iff.mp hi).1
    refine ⟨st', by rw [s.args', hui]; simp [hlt], ?_⟩
    rw [if_pos hui]
    have hassign := s.assign
    rw [hui, getD_of_getElem? hst] at hassign
    exact denote_snoc ht (by exact hd) hassign
  · refine ⟨st, by rw [s.args', List.getElem?_set_ne hui]; exact hst, ?_⟩
    rw [if_neg hui, List.append_nil]; exact hd

/-- **The destinations after an accepted command line.**  For every configuration, all initial
    values and every abstract command line that the handler accepts: the destination of every
    argument is `denote` of the values of *its own* uses (in their order) and its initial value —
    unused ⇒ the initial value; flag ⇒ the value to set; int / string ⇒ the last value, converted;
    list ⇒ initial content followed by all elements of all its uses; LevelCounter ⇒ increments and
    assignments in order.  (For a list argument the initial value must be a list.) -/
theorem dests_denote {cfg : Cfg} {inits : List DVal} (hin : cfg.args.length ≤ inits.length)
    {us : List Use} {h : HState} (e : evalUses cfg (cfg.initState inits) us = .ok h)
    {i : Nat} {d : ArgDef} {v : DVal} (hi : cfg.args[i]? = some d) (hv : inits[i]? = some v)
    (ht : d.kind = .vecInt → ∃ l, v = .vec l) :
    ∃ st, h.args[i]? = some st ∧ st.dest = denote d v (valsOf i us) := by
  obtain ⟨h1, ha, he⟩ := evalUses_ok e
  obtain ⟨_, _, _, hh⟩ := endChecks_ok he
  have inv : Frame cfg h1 ∧ DestInv cfg inits h1 :=
    applyUses_inv (fun x => Frame cfg x ∧ DestInv cfg inits x)
      (fun _ _ _ a e => ⟨frame_step a.1 e, destInv_step a.1 a.2 e⟩) us _ _
      ⟨frame_init cfg inits hin, destInv_init cfg inits hin⟩ ha
  have hus : h1.uses = us := by simpa [Cfg.initState] using applyUses_uses us _ _ ha
  obtain ⟨st, hst, hd⟩ := inv.2 i d v hi hv ht
  subst hh
  exact ⟨st, hst, by rw [← hus]; exact hd⟩

/-- in particular the destinations do not depend on how the uses of *different* arguments are
    interleaved: two accepted command lines that give every argument the same values in the same
    order leave the same value in every destination -/
theorem dests_order_independent {cfg : Cfg} {inits : List DVal} (hin : cfg.args.length ≤ inits.length)
    {us us' : List Use} {h h' : HState} (e : evalUses cfg (cfg.initState inits) us = .ok h)
    (e' : evalUses cfg (cfg.initState inits) us' = .ok h')
    (hsame : ∀ i, valsOf i us = valsOf i us')
    {i : Nat} {d : ArgDef} {v : DVal} (hi : cfg.args[i]? = some d) (hv : inits[i]? = some v)
    (ht : d.kind = .vecInt → ∃ l, v = .vec l) :
    ∃ st st', h.args[i]? = some st ∧ h'.args[i]? = some st' ∧ st.dest = st'.dest := by
  obtain ⟨st, hst, hd⟩ := dests_denote hin e hi hv ht
  obtain ⟨st', hst', hd'⟩ := dests_denote hin e' hi hv ht
  exact ⟨st, st', hst, hst', by rw [hd, hd', hsame i]⟩

end CelmaVerif.ProgArgs
