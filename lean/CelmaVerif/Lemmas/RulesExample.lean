import CelmaVerif.Lemmas.RulesSound
import CelmaVerif.Lemmas.RulesComplete
/-
  A small configuration with one rule of each kind, used by the non-vacuity examples of
  Props/C02.lean (and C03): definitions only, plus the proof that it is well-formed.
-/
namespace CelmaVerif.ProgArgs.RulesExample
open CelmaVerif CelmaVerif.Keys CelmaVerif.ProgArgs

def kV : Key := ⟨some 'v', "verbose".toList⟩
def kN : Key := ⟨some 'n', "num".toList⟩
def kO : Key := ⟨some 'o', "out".toList⟩
def kQ : Key := ⟨some 'q', "quiet".toList⟩
def kL : Key := ⟨some 'l', "list".toList⟩

/-- `-v,--verbose` (flag); `-n,--num` (int, mandatory, at most once, 0 ≤ value < 10);
    `-o,--out` (string, requires `-n`); `-q,--quiet` (flag, excludes `--verbose`);
    `-l,--list` (list of int, 1 to 3 values, each ≥ 0); handler constraint one-of( `-v`, `-q`) -/
def cfg : Cfg :=
  { args := [
      { key := kV, kind := .flag, vmode := .none, card := .unlimited },
      { key := kN, kind := .int, vmode := .required, card := .max 1, mandatory := true,
        checks := [.range 0 10] },
      { key := kO, kind := .str, vmode := .required, card := .max 1,
        constraints := [(.required, [⟨some 'n', []⟩])] },
      { key := kQ, kind := .flag, vmode := .none, card := .unlimited,
        constraints := [(.excluded, [⟨none, "verbose".toList⟩])] },
      { key := kL, kind := .vecInt, vmode := .required, card := .range 1 3, checks := [.lower 0] } ],
    globals := [{ kind := .oneOf, keys := [⟨some 'v', []⟩, ⟨some 'q', []⟩] }] }

def inits : List DVal := [.flag false, .int 0, .str [], .flag false, .vec []]

def useV : Use := ⟨0, [], true⟩
def useN (v : String) : Use := ⟨1, v.toList, true⟩
def useO (v : String) : Use := ⟨2, v.toList, true⟩
def useQ : Use := ⟨3, [], true⟩
def useL (v : String) : Use := ⟨4, v.toList, true⟩

def run (us : List Use) : Res HState := evalUses cfg (cfg.initState inits) us

instance (a b : Key) : Decidable (a.Clash b) := by
  unfold Key.Clash Key.shareShort Key.shareLong; infer_instance

theorem cfg_wf : cfg.WellFormed := by
  refine ⟨?_, ?_, ?_, ?_, ?_⟩
  rotate_left 4
  · intro g hg
    simp only [cfg, List.mem_cons, List.not_mem_nil, or_false] at hg; subst hg
    exact ⟨fun h => (by cases h), fun h => (by cases h)⟩
  · unfold Disjoint; decide
  · intro d hd c hc k hk
    simp only [cfg, List.mem_cons, List.not_mem_nil, or_false] at hd
    rcases hd with rfl | rfl | rfl | rfl | rfl
    · cases hc
    · cases hc
    · simp only [List.mem_cons, List.not_mem_nil, or_false] at hc; subst hc
      simp only [List.mem_cons, List.not_mem_nil, or_false] at hk; subst hk
      exact ⟨1, _, rfl, by decide⟩
    · simp only [List.mem_cons, List.not_mem_nil, or_false] at hc; subst hc
      simp only [List.mem_cons, List.not_mem_nil, or_false] at hk; subst hk
      exact ⟨0, _, rfl, by decide⟩
    · cases hc
  · decide
  · decide

/-! ### why the clauses of `Cfg.WellFormed` are needed -/

/-- constraint keys that are not spellings of table keys: `-x` excludes `-a,--foo` and `-a,--bar`;
    `--bar` is an argument -/
def cfgBadKeys : Cfg :=
  { args := [
      { key := ⟨some 'x', []⟩, kind := .flag, vmode := .none, card := .unlimited,
        constraints := [(.excluded, [⟨some 'a', "foo".toList⟩, ⟨some 'a', "bar".toList⟩])] },
      { key := ⟨none, "bar".toList⟩, kind := .flag, vmode := .none, card := .unlimited } ] }

/-- without `argKeys` an exclusion is lost: the container drops `-a,--bar` as a duplicate of
    `-a,--foo` (same short key), and `--bar` then `==` the dropped key but not the stored one -/
theorem excludes_lost_without_argKeys :
    (evalUses cfgBadKeys (cfgBadKeys.initState [.flag false, .flag false]) [⟨0, [], true⟩, ⟨1, [], true⟩]).isOk = true ∧
    ¬ ObeysExcludes cfgBadKeys [⟨0, [], true⟩, ⟨1, [], true⟩] := by
  refine ⟨by decide, ?_⟩
  intro h
  exact h 0 1 ⟨0, [], true⟩ ⟨1, [], true⟩ _ _ ⟨some 'a', "bar".toList⟩ (by decide) rfl rfl rfl rfl
    (List.mem_cons_self) (by decide) ⟨_, rfl, by decide⟩

/-- `CardinalityMax( -5)` -/
def cfgBadCard : Cfg :=
  { args := [{ key := ⟨some 'x', []⟩, kind := .flag, vmode := .none, card := .max (-5) }] }

/-- without `cardSane`: the empty command line is accepted, but zero values are not "at most -5" -/
theorem cardinality_unsound_without_cardSane :
    (evalUses cfgBadCard (cfgBadCard.initState [.flag false]) []).isOk = true ∧
    ¬ ObeysCardinality cfgBadCard [] := by
  refine ⟨by decide, ?_⟩
  intro h
  have := h 0 _ rfl
  revert this
  simp [cfgBadCard, Card.MetBy, valuesGiven]

/-! ### corners of the completeness direction -/

/-- a mandatory list argument `-l` -/
def cfgVec : Cfg :=
  { args := [{ key := ⟨some 'l', []⟩, kind := .vecInt, vmode := .required, card := .unlimited, mandatory := true }] }

theorem obeys_nil_constraints {cfg : Cfg} {inits : List DVal} {us : List Use}
    (hm : ObeysMandatory cfg inits us) (hv : ObeysValues cfg us) (hc : ObeysCardinality cfg us)
    (hn : ∀ d ∈ cfg.args, d.constraints = []) (hg : ObeysGlobals cfg inits us) : Obeys cfg inits us := by
  refine ⟨hm, hv, hc, ?_, ?_, hg⟩
  · intro p q u w d ks k _ _ _ _ hd hcc
    rw [hn d (List.mem_of_getElem? hd)] at hcc; cases hcc
  · intro p u d ks k _ hd hcc
    rw [hn d (List.mem_of_getElem? hd)] at hcc; cases hcc

/-- `-l ,` : the mandatory list argument is used, but with a value without elements; `hasValue()` of
    the still empty vector is false, the handler throws "mandatory argument missing" — and the rule
    "mandatory" as written in Spec.lean (a list argument needs a use with at least one element)
    says the same -/
theorem mandatory_list_without_elements :
    ¬ ObeysMandatory cfgVec [.vec []] [⟨0, [','], true⟩] ∧
    (evalUses cfgVec (cfgVec.initState [.vec []]) [⟨0, [','], true⟩]).isThrow = true := by
  refine ⟨?_, by decide⟩
  intro h
  rcases h 0 _ rfl rfl with ⟨u, hu, _, hs⟩ | ⟨_, l, hl, hne⟩
  · simp only [List.mem_cons, List.not_mem_nil, or_false] at hu; subst hu
    exact hs rfl (by decide)
  · simp only [List.getElem?_cons_zero, Option.some.injEq, DVal.vec.injEq] at hl
    exact hne hl.symm

/-- all-of( `-a`, `--all`) where both keys are spellings of the one argument `-a,--all` -/
def cfgAll : Cfg :=
  { args := [{ key := ⟨some 'a', "all".toList⟩, kind := .flag, vmode := .none, card := .unlimited }],
    globals := [{ kind := .allOf, keys := [⟨some 'a', []⟩, ⟨none, "all".toList⟩] }] }

/-- `-a`: every key listed in the all-of constraint designates an argument that is used, but the
    handler erases only the first matching key per use and refuses at the end -/
theorem allOf_same_argument_twice :
    Obeys cfgAll [.flag false] [⟨0, [], true⟩] ∧
    (evalUses cfgAll (cfgAll.initState [.flag false]) [⟨0, [], true⟩]).isThrow = true := by
  refine ⟨obeys_nil_constraints ?_ ?_ ?_ ?_ ?_, by decide⟩
  · intro i d hd hm
    cases i with
    | zero => simp only [cfgAll, List.getElem?_cons_zero, Option.some.injEq] at hd; subst hd; cases hm
    | succ i => simp [cfgAll] at hd
  · intro u hu
    simp only [List.mem_cons, List.not_mem_nil, or_false] at hu; subst hu
    exact ⟨_, rfl, trivial⟩
  · intro i d hd
    cases i with
    | zero => simp only [cfgAll, List.getElem?_cons_zero, Option.some.injEq] at hd; subst hd; trivial
    | succ i => simp [cfgAll] at hd
  · intro d hd; simp only [cfgAll, List.mem_cons, List.not_mem_nil, or_false] at hd; subst hd; rfl
  · intro g hg
    simp only [cfgAll, List.mem_cons, List.not_mem_nil, or_false] at hg; subst hg
    intro k hk
    refine ⟨_, List.mem_cons_self, rfl, _, rfl, ?_⟩
    simp only [List.mem_cons, List.not_mem_nil, or_false] at hk
    rcases hk with rfl | rfl <;> decide

/-- a LevelCounter argument `-v` (mixing of increment and assignment not allowed) -/
def cfgLevel : Cfg :=
  { args := [{ key := ⟨some 'v', []⟩, kind := .level, vmode := .optional, card := .unlimited }] }

/-- `-v -v 3`: every single value is acceptable (`ScalarValueOk`) and all rules of Spec.lean are
    obeyed, but an assignment after an increment is refused — the stateful LevelCounter rule that
    `LevelValuesOk` states and `rules_complete` assumes -/
theorem level_mix_refused :
    Obeys cfgLevel [.level 0] [⟨0, [], true⟩, ⟨0, ['3'], true⟩] ∧
    (evalUses cfgLevel (cfgLevel.initState [.level 0]) [⟨0, [], true⟩, ⟨0, ['3'], true⟩]).isThrow = true ∧
    ¬ LevelValuesOk cfgLevel.args[0] 0 false false (valsOf 0 [⟨0, [], true⟩, ⟨0, ['3'], true⟩]) := by
  refine ⟨obeys_nil_constraints ?_ ?_ ?_ ?_ ?_, by decide, ?_⟩
  · intro i d hd hm
    cases i with
    | zero => simp only [cfgLevel, List.getElem?_cons_zero, Option.some.injEq] at hd; subst hd; cases hm
    | succ i => simp [cfgLevel] at hd
  · intro u hu
    simp only [List.mem_cons, List.not_mem_nil, or_false] at hu
    rcases hu with rfl | rfl
    · exact ⟨_, rfl, Or.inl rfl⟩
    · exact ⟨_, rfl, Or.inr ⟨rfl, 3, rfl⟩⟩
  · intro i d hd
    cases i with
    | zero => simp only [cfgLevel, List.getElem?_cons_zero, Option.some.injEq] at hd; subst hd; trivial
    | succ i => simp [cfgLevel] at hd
  · intro d hd; simp only [cfgLevel, List.mem_cons, List.not_mem_nil, or_false] at hd; subst hd; rfl
  · intro g hg; cases hg
  · intro h
    have h2 := h.2.1
    simp [LevelStepOk, cfgLevel] at h2

/-- … while `-v -v` obeys the LevelCounter rules and is accepted -/
theorem level_twice_accepted :
    LevelValuesOk cfgLevel.args[0] 0 false false (valsOf 0 [⟨0, [], true⟩, ⟨0, [], true⟩]) ∧
    (evalUses cfgLevel (cfgLevel.initState [.level 0]) [⟨0, [], true⟩, ⟨0, [], true⟩]).isOk = true := by
  refine ⟨?_, by decide⟩
  simp [valsOf, LevelValuesOk, LevelStepOk, cfgLevel, runChecks]

/-! ### value constraints and the pattern check -/

def kP : Key := ⟨some 'p', "primary".toList⟩
def kB : Key := ⟨some 'b', "backup".toList⟩
def kI : Key := ⟨some 'i', "include".toList⟩
def kX : Key := ⟨some 'x', "exclude".toList⟩
def kM : Key := ⟨some 'm', "name".toList⟩

/-- the compiled pattern `[a-z]+[0-9]?` -/
def patName : Regex.Re := (Regex.parse "[a-z]+[0-9]?".toList).getD .empty

/-- `-p,--primary` and `-b,--backup` (int) must differ; the lists `-i,--include` and `-x,--exclude`
    must be disjoint; `-m,--name` (string) must match `[a-z]+[0-9]?` -/
def cfgVal : Cfg :=
  { args := [
      { key := kP, kind := .int, vmode := .required, card := .max 1 },
      { key := kB, kind := .int, vmode := .required, card := .max 1 },
      { key := kI, kind := .vecInt, vmode := .required, card := .unlimited },
      { key := kX, kind := .vecInt, vmode := .required, card := .unlimited },
      { key := kM, kind := .str, vmode := .required, card := .max 1, checks := [.pattern patName] }],
    globals := [{ kind := .differ, keys := [kP, kB] }, { kind := .disjoint, keys := [kI, kX] }] }

def initsVal : List DVal := [.int 0, .int 0, .vec [], .vec [], .str []]

def runVal (us : List Use) : Res HState := evalUses cfgVal (cfgVal.initState initsVal) us

theorem cfgVal_wf : cfgVal.WellFormed := by
  refine ⟨?_, ?_, ?_, ?_, ?_⟩
  · unfold Disjoint; decide
  · intro d hd c hc
    simp only [cfgVal, List.mem_cons, List.not_mem_nil, or_false] at hd
    rcases hd with rfl | rfl | rfl | rfl | rfl <;> cases hc
  · decide
  · decide
  · intro g hg
    simp only [cfgVal, List.mem_cons, List.not_mem_nil, or_false] at hg
    rcases hg with rfl | rfl
    · refine ⟨fun _ => ⟨.int, Or.inl rfl, ?_⟩, fun h => (by cases h)⟩
      intro k hk
      simp only [List.mem_cons, List.not_mem_nil, or_false] at hk
      rcases hk with rfl | rfl
      · exact ⟨0, _, rfl, by decide, rfl⟩
      · exact ⟨1, _, rfl, by decide, rfl⟩
    · refine ⟨fun h => (by cases h), fun _ => ⟨rfl, ?_⟩⟩
      intro k hk
      simp only [List.mem_cons, List.not_mem_nil, or_false] at hk
      rcases hk with rfl | rfl
      · exact ⟨2, _, rfl, by decide, rfl⟩
      · exact ⟨3, _, rfl, by decide, rfl⟩

/-- differ over two flags passes `validValueArguments` (same destination type), but the end check
    cannot compare them: as soon as both are given `compareValue` throws std::invalid_argument —
    which says nothing about the values.  (`Cfg.WellFormed.valueArgs` asks for int / string.) -/
theorem differ_flags_invalid_argument :
    (match evalUses
      { args := [{ key := ⟨some 'a', []⟩, kind := .flag, vmode := .none, card := .unlimited },
                 { key := ⟨some 'b', []⟩, kind := .flag, vmode := .none, card := .unlimited }],
        globals := [{ kind := .differ, keys := [⟨some 'a', []⟩, ⟨some 'b', []⟩] }] }
      (Cfg.initState
        { args := [{ key := ⟨some 'a', []⟩, kind := .flag, vmode := .none, card := .unlimited },
                   { key := ⟨some 'b', []⟩, kind := .flag, vmode := .none, card := .unlimited }],
          globals := [{ kind := .differ, keys := [⟨some 'a', []⟩, ⟨some 'b', []⟩] }] } [.flag false, .flag false])
      [⟨0, [], true⟩, ⟨1, [], true⟩] with
    | .throw .invalid_argument => true
    | _ => false) = true := by decide

end CelmaVerif.ProgArgs.RulesExample
