import CelmaVerif.Lemmas.FixedStringBase
/-
  C10, observers: every non-modifying function returns a value (never `.oob`); `at()` and dereferencing
  an end iterator are the only ones that may throw.
-/
namespace CelmaVerif.FixedString
open CelmaVerif

variable {c : Cfg}

theorem okr_ok {α : Type} (a : α) : OkR (Res.ok a) := ⟨a, rfl⟩

theorem okr_read {a : List Byte} {off n : Nat} {w : String} (h : off + n ≤ a.length) : OkR (Mem.read a off n w) :=
  ⟨_, Mem.read_ok h⟩

/-- ok or a thrown exception, never out of bounds -/
def OkOrThrow {α : Type} (r : Res α) : Prop := (∃ a, r = .ok a) ∨ (∃ e, r = .throw e)

theorem str_safe {s : FStr} (hs : WF c s) : OkR (str s) := by
  unfold str; split
  · exact okr_read (by have := hs.1; have := hs.2.1; omega)
  · exact okr_ok _

theorem streamView_safe {s : FStr} (hs : WF c s) : OkR (streamView s) := by
  unfold streamView
  exact okr_read (by have := hs.1; have := hs.2.1; omega)

theorem wf_mem_zero {s : FStr} (hs : WF c s) : (0 : Byte) ∈ s.buf := List.mem_of_getElem? hs.2.2

theorem cstrView_safe {s : FStr} (hs : WF c s) : OkR (cstrView s) := by
  obtain ⟨n, h1, h2, _⟩ := cstrlen_ok s.buf (wf_mem_zero hs)
  unfold cstrView; rw [h1, bindR_ok]
  exact okr_read (by omega)

theorem at_safe {s : FStr} (hs : WF c s) (idx : Nat) : OkOrThrow (at_ s idx) := by
  unfold at_; split
  · exact Or.inr ⟨_, rfl⟩
  · exact Or.inl (okr_get1 (by have := hs.1; have := hs.2.1; omega))

/-- `operator[]`: documented precondition `idx` inside the buffer -/
theorem index_safe {s : FStr} (hs : WF c s) {idx : Nat} (h : idx ≤ c.L) : OkR (index s idx) := by
  unfold index; exact okr_get1 (by have := hs.1; omega)

theorem front_safe {s : FStr} (hs : WF c s) : OkR (front s) := by
  unfold front; exact okr_get1 (by have := hs.1; omega)

theorem back_safe {s : FStr} (hs : WF c s) : OkR (back s) := by
  unfold back; apply okr_get1; have := hs.1; have := hs.2.1; split <;> omega

theorem itDeref_safe {s : FStr} (hs : WF c s) {i : Nat} (h : i = itEnd c ∨ i < s.len) : OkOrThrow (itDeref c s i) := by
  unfold itDeref; split
  · exact Or.inr ⟨_, rfl⟩
  · rcases h with h | h
    · contradiction
    · exact Or.inl (okr_get1 (by have := hs.1; have := hs.2.1; omega))

theorem itAt_inv (s : FStr) (pos : Nat) : itAt c s pos = itEnd c ∨ itAt c s pos < s.len := by
  unfold itAt; split
  · exact Or.inl rfl
  · exact Or.inr (by omega)

/-! ### iterator arithmetic: every move keeps the iterator at `end()` or inside the string -/

theorem itInc_inv (hc : CfgOK c) {s : FStr} (hs : WF c s) {i : Nat} (h : i = itEnd c ∨ i < s.len) :
    itInc c s i = itEnd c ∨ itInc c s i < s.len := by
  have hW := hc.hW; have hl := hs.2.1
  unfold itInc
  split
  · rename_i h1
    unfold subW at h1
    right
    split at h1
    · omega
    · rcases h with h | h
      · unfold itEnd at h; omega
      · omega
  · exact Or.inl rfl

theorem itDec_inv {s : FStr} {i : Nat} (h : i = itEnd c ∨ i < s.len) :
    itDec c i = itEnd c ∨ itDec c i < s.len := by
  unfold itDec
  split
  · rename_i he; exact Or.inl he
  · rename_i hne
    split
    · right; rcases h with h | h
      · exact absurd h hne
      · omega
    · exact Or.inl rfl

theorem itAdd_inv {s : FStr} {i : Nat} (v : Nat) (h : i = itEnd c ∨ i < s.len) :
    itAdd c s i v = itEnd c ∨ itAdd c s i v < s.len := by
  unfold itAdd
  split
  · rename_i he; exact Or.inl he
  · split
    · rename_i h2; exact Or.inr h2
    · exact Or.inl rfl

theorem itSub_inv {s : FStr} {i : Nat} (v : Nat) (h : i = itEnd c ∨ i < s.len) :
    itSub c i v = itEnd c ∨ itSub c i v < s.len := by
  unfold itSub
  split
  · rename_i he; exact Or.inl he
  · rename_i hne
    split
    · right; rcases h with h | h
      · exact absurd h hne
      · omega
    · exact Or.inl rfl

theorem itMove_inv (hc : CfgOK c) {s : FStr} (hs : WF c s) (rev : Bool) {i : Nat} (h : i = itEnd c ∨ i < s.len)
    (m : ItMove) : itMove c s rev i m = itEnd c ∨ itMove c s rev i m < s.len := by
  cases m with
  | inc =>
    cases rev
    · exact itInc_inv hc hs h
    · exact itDec_inv (c := c) h
  | dec =>
    cases rev
    · exact itDec_inv (c := c) h
    · exact itInc_inv hc hs h
  | add v =>
    cases rev
    · exact itAdd_inv v h
    · exact itSub_inv v h
  | sub v =>
    cases rev
    · exact itSub_inv v h
    · exact itAdd_inv v h

theorem itWalk_inv (hc : CfgOK c) {s : FStr} (hs : WF c s) (rev : Bool) (ms : List ItMove) :
    ∀ {i : Nat}, (i = itEnd c ∨ i < s.len) → itWalk c s rev i ms = itEnd c ∨ itWalk c s rev i ms < s.len := by
  induction ms with
  | nil => intro i h; exact h
  | cons m ms ih =>
    intro i h
    exact ih (itMove_inv hc hs rev h m)

/-- `it[ idx]` stays inside the buffer under the caller contract of `operator[]` -/
theorem itIndex_safe {s : FStr} (hs : WF c s) (rev : Bool) (i k : Nat)
    (h : if rev then (k ≤ i → i - k ≤ c.L) else addW c i k ≤ c.L) : OkOrThrow (itIndex c s rev i k) := by
  have hb := hs.1
  unfold itIndex
  cases rev
  · simp only [Bool.false_eq_true, if_false] at h ⊢
    exact Or.inl (okr_get1 (by omega))
  · simp only [if_true] at h ⊢
    split
    · exact Or.inr ⟨_, rfl⟩
    · rename_i hk
      exact Or.inl (okr_get1 (by have := h (by omega); omega))

theorem iterFwdLoop_safe {s : FStr} (hs : WF c s) (fuel : Nat) : ∀ (it : Nat) (acc : List Byte),
    (it = itEnd c ∨ it < s.len) → OkR (iterFwdLoop c s fuel it acc) := by
  induction fuel with
  | zero => intro it acc _; exact okr_ok _
  | succ n ih =>
    intro it acc h
    unfold iterFwdLoop
    split
    · exact okr_ok _
    · rename_i hne
      have hlt : it < s.len := by rcases h with h | h; exact absurd h hne; exact h
      obtain ⟨b, hb⟩ := okr_get1 (a := s.buf) (i := it) (by have := hs.1; have := hs.2.1; omega)
      unfold itDeref; rw [if_neg hne, hb]
      apply ih
      unfold itInc subW
      repeat' split
      all_goals omega

theorem iterFwd_safe {s : FStr} (hs : WF c s) : OkR (iterFwd c s) := by
  unfold iterFwd; apply iterFwdLoop_safe hs
  unfold itBegin; split
  · exact Or.inr (by omega)
  · exact Or.inl rfl

theorem iterRevLoop_safe {s : FStr} (hs : WF c s) (fuel : Nat) : ∀ (it : Nat) (acc : List Byte),
    (it = itEnd c ∨ it < s.len) → OkR (iterRevLoop c s fuel it acc) := by
  induction fuel with
  | zero => intro it acc _; exact okr_ok _
  | succ n ih =>
    intro it acc h
    unfold iterRevLoop
    split
    · exact okr_ok _
    · rename_i hne
      have hlt : it < s.len := by rcases h with h | h; exact absurd h hne; exact h
      obtain ⟨b, hb⟩ := okr_get1 (a := s.buf) (i := it) (by have := hs.1; have := hs.2.1; omega)
      unfold itDeref; rw [if_neg hne, hb]
      apply ih
      unfold ritInc
      rw [if_neg hne]
      split
      · exact Or.inr (by omega)
      · exact Or.inl rfl

theorem iterRev_safe {s : FStr} (hs : WF c s) : OkR (iterRev c s) := by
  unfold iterRev; apply iterRevLoop_safe hs
  unfold ritBegin; split
  · exact Or.inr (by omega)
  · exact Or.inl rfl

/-! ### compare, starts_with, ends_with, contains, ==, != -/

theorem okr_memcmp_then {α : Type} {a b : List Byte} {i j n : Nat} {f : Int → Res α} (h1 : i + n ≤ a.length)
    (h2 : j + n ≤ b.length) (k : ∀ v, OkR (f v)) : OkR (bindR (memcmp a i b j n) f) := by
  obtain ⟨v, hv⟩ := okr_memcmp (a := a) (b := b) (i := i) (j := j) (n := n) h1 h2
  rw [hv, bindR_ok]; exact k v

/-- `len` characters are readable at `a` -/
theorem fullCompare_safe {s : FStr} (hs : WF c s) {a : List Byte} {len : Nat} (ha : len ≤ a.length) :
    OkR (fullCompare s a len) := by
  unfold fullCompare
  have := hs.1; have := hs.2.1
  have : min s.len len ≤ s.len := Nat.min_le_left _ _
  have : min s.len len ≤ len := Nat.min_le_right _ _
  exact okr_memcmp_then (by omega) (by omega) (fun _ => okr_ok _)

theorem partCompare_safe {s : FStr} (hs : WF c s) (pos1 count1 : Nat) {a : List Byte} {len2 : Nat}
    (ha : len2 ≤ a.length) : OkR (partCompare s pos1 count1 a len2) := by
  unfold partCompare
  have := hs.1; have := hs.2.1
  split
  · exact okr_ok _
  · simp only
    split
    · have : min (s.len - pos1) len2 ≤ s.len - pos1 := Nat.min_le_left _ _
      have : min (s.len - pos1) len2 ≤ len2 := Nat.min_le_right _ _
      exact okr_memcmp_then (by omega) (by omega) (fun _ => okr_ok _)
    · have : min count1 len2 ≤ count1 := Nat.min_le_left _ _
      have : min count1 len2 ≤ len2 := Nat.min_le_right _ _
      exact okr_memcmp_then (by omega) (by omega) (fun _ => okr_ok _)

theorem partPartCompare_safe {s : FStr} (hs : WF c s) (pos1 count1 : Nat) {a : List Byte} {len2 : Nat}
    (ha : len2 ≤ a.length) (pos2 count2 : Nat) : OkR (partPartCompare s pos1 count1 a len2 pos2 count2) := by
  unfold partPartCompare
  have := hs.1; have := hs.2.1
  split
  · exact okr_ok _
  · rename_i hn
    simp only
    have h1 : (if count1 > s.len - pos1 then s.len - pos1 else count1) ≤ s.len - pos1 := by split <;> omega
    have h2 : (if count2 > len2 - pos2 then len2 - pos2 else count2) ≤ len2 - pos2 := by split <;> omega
    generalize (if count1 > s.len - pos1 then s.len - pos1 else count1) = l1 at *
    generalize (if count2 > len2 - pos2 then len2 - pos2 else count2) = l2 at *
    have := Nat.min_le_left l1 l2
    have := Nat.min_le_right l1 l2
    exact okr_memcmp_then (by omega) (by omega) (fun _ => okr_ok _)

theorem startsWith_safe {s : FStr} (hs : WF c s) {a : List Byte} {n : Nat} (ha : n ≤ a.length) :
    OkR (startsWith s a n) := by
  unfold startsWith
  have := hs.1; have := hs.2.1
  split
  · exact okr_ok _
  · split
    · exact okr_ok _
    · exact okr_memcmp_then (by omega) (by omega) (fun _ => okr_ok _)

theorem endsWith_safe {s : FStr} (hs : WF c s) {a : List Byte} {n : Nat} (ha : n ≤ a.length) :
    OkR (endsWith s a n) := by
  unfold endsWith
  have := hs.1; have := hs.2.1
  split
  · exact okr_ok _
  · split
    · exact okr_ok _
    · exact okr_memcmp_then (by omega) (by omega) (fun _ => okr_ok _)

theorem startsWithCh_safe {s : FStr} (hs : WF c s) (ch : Byte) : OkR (startsWithCh s ch) := by
  unfold startsWithCh; split
  · exact okr_bind (okr_get1 (by have := hs.1; omega)) (fun _ _ => okr_ok _)
  · exact okr_ok _

theorem endsWithCh_safe {s : FStr} (hs : WF c s) (ch : Byte) : OkR (endsWithCh s ch) := by
  unfold endsWithCh; split
  · exact okr_bind (okr_get1 (by have := hs.1; have := hs.2.1; omega)) (fun _ _ => okr_ok _)
  · exact okr_ok _

theorem containsLoop_safe {s : FStr} {a : List Byte} {n : Nat} (hn : 0 < n) (ha : n ≤ a.length) (fuel : Nat) :
    ∀ idx, idx + fuel + n ≤ s.buf.length + 1 → OkR (containsLoop s a n fuel idx) := by
  induction fuel with
  | zero => intro _ _; exact okr_ok _
  | succ k ih =>
    intro idx h
    unfold containsLoop
    apply okr_bind (okr_get1 (by omega)); intro x _
    apply okr_bind (okr_get1 (by omega)); intro y _
    split
    · apply okr_memcmp_then (by omega) (by omega)
      intro v; split
      · exact okr_ok _
      · exact ih _ (by omega)
    · exact ih _ (by omega)

theorem containsImpl_safe {s : FStr} (hs : WF c s) {a : List Byte} {n : Nat} (ha : n ≤ a.length) :
    OkR (containsImpl s a n) := by
  unfold containsImpl; split
  · exact okr_ok _
  · exact containsLoop_safe (by omega) ha _ _ (by have := hs.1; have := hs.2.1; omega)

theorem containsChLoop_safe {s : FStr} (ch : Byte) (fuel : Nat) :
    ∀ idx, idx + fuel ≤ s.buf.length → OkR (containsChLoop s ch fuel idx) := by
  induction fuel with
  | zero => intro _ _; exact okr_ok _
  | succ k ih =>
    intro idx h
    unfold containsChLoop
    apply okr_bind (okr_get1 (by omega)); intro x _
    split
    · exact okr_ok _
    · exact ih _ (by omega)

theorem containsCh_safe {s : FStr} (hs : WF c s) (ch : Byte) : OkR (containsCh s ch) := by
  unfold containsCh; exact containsChLoop_safe ch _ _ (by have := hs.1; have := hs.2.1; omega)

theorem eqOp_safe {s : FStr} (hs : WF c s) {co : Cfg} {o : FStr} (ho : WF co o) : OkR (eqOp s o) := by
  unfold eqOp; split
  · exact okr_memcmp_then (by have := hs.1; have := hs.2.1; omega) (by have := ho.1; have := ho.2.1; omega)
      (fun _ => okr_ok _)
  · exact okr_ok _

theorem neOp_safe {s : FStr} (hs : WF c s) {co : Cfg} {o : FStr} (ho : WF co o) : OkR (neOp s o) := by
  unfold neOp; exact okr_bind (eqOp_safe hs ho) (fun _ _ => okr_ok _)

/-! ### substr, copy -/

theorem substr_safe {s : FStr} (hs : WF c s) (pos count : Nat) : OkR (substr s pos count) := by
  unfold substr
  have := hs.1; have := hs.2.1
  split
  · exact okr_ok _
  · simp only; split <;> exact okr_read (by omega)

/-- `dest` has room for what `std::string::copy` would copy -/
theorem copy_safe {s : FStr} (hs : WF c s) {room count pos : Nat} (hr : min count (s.len - pos) ≤ room) :
    OkR (copy s room count pos) := by
  unfold copy
  have := hs.1; have := hs.2.1
  split
  · exact okr_ok _
  · simp only
    split
    · rename_i h1
      split
      · rename_i h2; exfalso
        have : min count (s.len - pos) = s.len - pos := Nat.min_eq_right (by omega)
        omega
      · exact okr_bind (okr_read (by omega)) (fun _ _ => okr_ok _)
    · rename_i h1
      split
      · rename_i h2; exfalso
        have : min count (s.len - pos) = count := Nat.min_eq_left (by omega)
        omega
      · exact okr_bind (okr_read (by omega)) (fun _ _ => okr_ok _)

/-! ### find family -/

theorem findLoop_safe {s : FStr} {a : List Byte} {n : Nat} (ha : n ≤ a.length) (fuel : Nat) :
    ∀ idx, idx + fuel + n ≤ s.buf.length + 1 → OkR (findLoop s a n fuel idx) := by
  induction fuel with
  | zero => intro _ _; exact okr_ok _
  | succ k ih =>
    intro idx h
    unfold findLoop
    apply okr_memcmp_then (by omega) (by omega)
    intro v; split
    · exact okr_ok _
    · exact ih _ (by omega)

theorem findN_safe {s : FStr} (hs : WF c s) {a : List Byte} (pos : Nat) {n : Nat} (ha : n ≤ a.length) :
    OkR (findN s a pos n) := by
  unfold findN; split
  · exact okr_ok _
  · exact findLoop_safe ha _ _ (by have := hs.1; have := hs.2.1; omega)

theorem findP_safe {s : FStr} (hs : WF c s) {a : List Byte} (ha : 0 ∈ a) (pos : Nat) : OkR (findP s a pos) := by
  obtain ⟨n, h1, h2, _⟩ := cstrlen_ok a ha
  unfold findP; rw [h1, bindR_ok]
  exact findN_safe hs pos (by omega)

theorem scanLoop_safe {s : FStr} {p : Byte → Res Bool} (hp : ∀ x, OkR (p x)) (fuel : Nat) :
    ∀ idx, (fuel = 0 ∨ idx + fuel ≤ s.buf.length) → OkR (scanLoop s p fuel idx) := by
  induction fuel with
  | zero => intro _ _; exact okr_ok _
  | succ k ih =>
    intro idx h
    unfold scanLoop
    apply okr_bind (okr_get1 (by omega)); intro x _
    apply okr_bind (hp x); intro hit _
    split
    · exact okr_ok _
    · exact ih _ (by omega)

theorem findCh_safe {s : FStr} (hs : WF c s) (ch pos : Nat) : OkR (findCh c s ch pos) := by
  unfold findCh; split
  · exact okr_ok _
  · exact scanLoop_safe (fun _ => okr_ok _) _ _ (by have := hs.1; have := hs.2.1; omega)

theorem rscanLoop_safe {buf : List Byte} {p : Nat → Res Bool} (n : Nat) (hp : ∀ idx, idx < n → OkR (p idx)) :
    OkR (rscanLoop buf p n) := by
  induction n with
  | zero => exact okr_ok _
  | succ k ih =>
    unfold rscanLoop
    apply okr_bind (hp k (by omega)); intro hit _
    split
    · exact okr_ok _
    · exact ih (fun idx h => hp idx (by omega))

theorem rfindN_safe {s : FStr} (hs : WF c s) {a : List Byte} (pos : Nat) {n : Nat} (ha : n ≤ a.length) :
    OkR (rfindN c s a pos n) := by
  have := hs.1; have := hs.2.1
  unfold rfindN; split
  · exact okr_ok _
  · simp only
    apply rscanLoop_safe
    intro idx hidx
    apply okr_memcmp_then _ (by omega) (fun _ => okr_ok _)
    split at hidx <;> omega

theorem rfindPN_safe {s : FStr} (hs : WF c s) {a : List Byte} (ha : 0 ∈ a) (pos count : Nat) :
    OkR (rfindPN c s a pos count) := by
  have := hs.1; have := hs.2.1
  obtain ⟨n, h1, h2, _⟩ := cstrlen_ok a ha
  unfold rfindPN; split
  · exact okr_ok _
  · rw [h1, bindR_ok]; split
    · exact okr_ok _
    · have hk : (if count > n then n else count) ≤ n := by split <;> omega
      simp only
      generalize (if count > n then n else count) = k at *
      split
      · exact okr_ok _
      · apply rscanLoop_safe
        intro idx hidx
        apply okr_memcmp_then _ (by omega) (fun _ => okr_ok _)
        split at hidx <;> omega

theorem rfindP_safe {s : FStr} (hs : WF c s) {a : List Byte} (ha : 0 ∈ a) (pos : Nat) : OkR (rfindP c s a pos) := by
  obtain ⟨n, h1, h2, _⟩ := cstrlen_ok a ha
  unfold rfindP; rw [h1, bindR_ok]
  exact rfindPN_safe hs ha pos n

/-- `rfind( ch, pos)`: `pos` is a `size_t` -/
theorem rfindCh_safe (hc : CfgOK c) {s : FStr} (hs : WF c s) (ch : Nat) {pos : Nat} (hp : pos < c.W) :
    OkR (rfindCh c s ch pos) := by
  have := hs.1; have := hs.2.1; have := hc.hW
  unfold rfindCh; split
  · exact okr_ok _
  · rename_i h
    simp only
    apply rscanLoop_safe
    intro idx hidx
    apply okr_bind (okr_get1 _) (fun _ _ => okr_ok _)
    unfold addW npos at *
    split at hidx <;> split at h <;> omega

theorem memN_safe {a : List Byte} (x : Byte) (fuel : Nat) : ∀ i, i + fuel ≤ a.length → OkR (memN a fuel i x) := by
  induction fuel with
  | zero => intro _ _; exact okr_ok _
  | succ k ih =>
    intro i h
    unfold memN
    apply okr_bind (okr_get1 (by omega)); intro y _
    split
    · exact okr_ok _
    · exact ih _ (by omega)

theorem strchr_safe (a : List Byte) (ha : 0 ∈ a) (ch : Byte) : OkR (strchr a ch) := by
  induction a with
  | nil => cases ha
  | cons b bs ih =>
    unfold strchr
    split
    · exact okr_ok _
    · split
      · exact okr_ok _
      · rename_i h1 h2
        apply ih
        cases ha with
        | head => exact absurd rfl h2
        | tail _ h => exact h

theorem notR_safe {r : Res Bool} (h : OkR r) : OkR (notR r) := by
  unfold notR; exact okr_bind h (fun _ _ => okr_ok _)

theorem findFirstOfImpl_safe {s : FStr} (hs : WF c s) {a : List Byte} (ha : 0 ∈ a) (pos count : Nat) (neg : Bool) :
    OkR (findFirstOfImpl s a pos count neg) := by
  unfold findFirstOfImpl; split
  · exact okr_ok _
  · apply scanLoop_safe _ _ _ (by have := hs.1; have := hs.2.1; omega)
    intro x; split
    · exact notR_safe (strchr_safe a ha x)
    · exact strchr_safe a ha x

theorem findFirstOfPN_safe {s : FStr} (hs : WF c s) {a : List Byte} (pos : Nat) {count : Nat} (ha : count ≤ a.length)
    (neg : Bool) : OkR (findFirstOfPN s a pos count neg) := by
  unfold findFirstOfPN; split
  · exact okr_ok _
  · apply scanLoop_safe _ _ _ (by have := hs.1; have := hs.2.1; omega)
    intro x; split
    · exact notR_safe (memN_safe x _ _ (by omega))
    · exact memN_safe x _ _ (by omega)

theorem findFirstOfCh_safe {s : FStr} (hs : WF c s) (ch pos : Nat) (neg : Bool) : OkR (findFirstOfCh s ch pos neg) := by
  unfold findFirstOfCh; split
  · exact okr_ok _
  · exact scanLoop_safe (fun _ => okr_ok _) _ _ (by have := hs.1; have := hs.2.1; omega)

theorem findLastOfImpl_safe (hc : CfgOK c) {s : FStr} (hs : WF c s) {a : List Byte} (ha : 0 ∈ a) (pos : Nat)
    (count : Nat) (neg : Bool) : OkR (findLastOfImpl c s a pos count neg) := by
  have := hs.1; have := hs.2.1; have := hc.hW
  unfold findLastOfImpl
  simp only
  generalize (if pos = npos c then s.len else addW c pos 1) = p'
  split
  · exact okr_ok _
  · rename_i h
    apply rscanLoop_safe
    intro idx hidx
    apply okr_bind (okr_get1 _)
    · intro x _; split
      · exact notR_safe (strchr_safe a ha x)
      · exact strchr_safe a ha x
    · unfold subW at h
      split at h <;> omega

theorem findLastOfPN_safe {s : FStr} (hs : WF c s) {a : List Byte} (pos : Nat) {count : Nat} (ha : count ≤ a.length)
    (neg : Bool) : OkR (findLastOfPN s a pos count neg) := by
  have := hs.1; have := hs.2.1
  unfold findLastOfPN; split
  · exact okr_ok _
  · apply rscanLoop_safe
    intro idx hidx
    apply okr_bind (okr_get1 (by omega))
    intro x _; split
    · exact notR_safe (memN_safe x _ _ (by omega))
    · exact memN_safe x _ _ (by omega)

theorem findLastOfCh_safe {s : FStr} (hs : WF c s) (ch pos : Nat) (neg : Bool) : OkR (findLastOfCh c s ch pos neg) := by
  have := hs.1; have := hs.2.1
  unfold findLastOfCh; split
  · exact rscanLoop_safe _ (fun idx h => okr_bind (okr_get1 (by omega)) (fun _ _ => okr_ok _))
  · split
    · exact okr_ok _
    · exact rscanLoop_safe _ (fun idx h => okr_bind (okr_get1 (by omega)) (fun _ _ => okr_ok _))

end CelmaVerif.FixedString
