import CelmaVerif.Lemmas.ParseFaithful
/-
  The grammar `SP` with its END STATE, and parse faithfulness of ONE call of the element loop from
  ANY handler state.

  A line of an argument file, the value of the environment variable and argv are each evaluated by one
  call of `iterateArguments`; the last-argument marker and the "`!` was read" flag of the handler are
  carried from one call to the next (the reading position and the "behind `--`" mode are not: each call
  has its own parser).  `SPE cfg l inv r us l' inv'` is `SP cfg l inv r us` together with the marker
  `l'` and the flag `inv'` at the end of the line; both, and the uses, are determined by the elements
  and the start state (`SPE_functional`, proved in Lemmas/SourcesFunctional.lean).  `iterate_faithful`: a successful call spells — in this grammar, from the state
  it started in — exactly the uses it logged, and ends in the state the grammar says.
-/
namespace CelmaVerif.ProgArgs
open CelmaVerif CelmaVerif.Keys

/-- `SP` with the state at the end of the line: `l'` the argument used last by key (a value of the
    positional argument does not move it), `inv'` whether the line ended behind a `!` -/
inductive SPE (cfg : Cfg) : Option Nat → Bool → TokRes → List Use → Option Nat → Bool → Prop where
  | done (l : Option Nat) (inv : Bool) : SPE cfg l inv .done [] l inv
  | flag {l l' : Option Nat} {inv' : Bool} {t : Tok} {pos : Pos} {k : Key} {i : Nat} {d : ArgDef} {us : List Use} :
      KeyTok t k → Resolves cfg k i d → d.vmode = .none →
      SPE cfg (some i) false (nextTok false pos) us l' inv' →
      SPE cfg l false (.tok t pos) ({ arg := i, val := [], ident := true } :: us) l' inv'
  | keyValue {l l' : Option Nat} {inv' : Bool} {t : Tok} {pos pos' : Pos} {k : Key} {i : Nat} {d : ArgDef} {v : Word}
      {us : List Use} :
      KeyTok t k → Resolves cfg k i d → d.vmode ≠ .none →
      nextTok (decide (d.vmode = .required)) pos = .tok (.value v) pos' →
      SPE cfg (some i) false (nextTok false pos') us l' inv' →
      SPE cfg l false (.tok t pos) ({ arg := i, val := v, ident := true } :: us) l' inv'
  | keyAlone {l l' : Option Nat} {inv' : Bool} {t : Tok} {pos : Pos} {k : Key} {i : Nat} {d : ArgDef} {us : List Use} :
      KeyTok t k → Resolves cfg k i d → d.vmode = .optional →
      (∀ v pos', nextTok false pos ≠ .tok (.value v) pos') →
      SPE cfg (some i) false (nextTok false pos) us l' inv' →
      SPE cfg l false (.tok t pos) ({ arg := i, val := [], ident := true } :: us) l' inv'
  | free {l' : Option Nat} {inv' : Bool} {i : Nat} {d : ArgDef} {v : Word} {pos : Pos} {us : List Use} :
      cfg.args[i]? = some d → d.multi = true →
      SPE cfg (some i) false (nextTok false pos) us l' inv' →
      SPE cfg (some i) false (.tok (.value v) pos) ({ arg := i, val := v, ident := false } :: us) l' inv'
  | positional {l l' : Option Nat} {inv' : Bool} {i : Nat} {d : ArgDef} {v : Word} {pos : Pos} {us : List Use} :
      (∀ j dj, l = some j → cfg.args[j]? = some dj → dj.multi = false) →
      Resolves cfg Key.pos i d →
      SPE cfg l false (nextTok false pos) us l' inv' →
      SPE cfg l false (.tok (.value v) pos) ({ arg := i, val := v, ident := true } :: us) l' inv'
  | invert {l l' : Option Nat} {inv inv' : Bool} {pos : Pos} {us : List Use} :
      SPE cfg l true (nextTok false pos) us l' inv' → SPE cfg l inv (.tok (.ctrl '!') pos) us l' inv'

/-- forgetting the end state -/
theorem SPE.toSP {cfg : Cfg} {l l' : Option Nat} {inv inv' : Bool} {r : TokRes} {us : List Use}
    (h : SPE cfg l inv r us l' inv') : SP cfg l inv r us := by
  induction h with
  | done l inv => exact .done l inv
  | flag hk hr hm _ ih => exact .flag hk hr hm ih
  | keyValue hk hr hm hn _ ih => exact .keyValue hk hr hm hn ih
  | keyAlone hk hr hm hn _ ih => exact .keyAlone hk hr hm hn ih
  | free ha hm _ ih => exact .free ha hm ih
  | positional hno hr _ ih => exact .positional hno hr ih
  | invert _ ih => exact .invert ih

/-- every derivation has an end state -/
theorem SP.toSPE {cfg : Cfg} {l : Option Nat} {inv : Bool} {r : TokRes} {us : List Use}
    (h : SP cfg l inv r us) : ∃ l' inv', SPE cfg l inv r us l' inv' := by
  induction h with
  | done l inv => exact ⟨l, inv, .done l inv⟩
  | flag hk hr hm _ ih => obtain ⟨l', inv', s⟩ := ih; exact ⟨l', inv', .flag hk hr hm s⟩
  | keyValue hk hr hm hn _ ih => obtain ⟨l', inv', s⟩ := ih; exact ⟨l', inv', .keyValue hk hr hm hn s⟩
  | keyAlone hk hr hm hn _ ih => obtain ⟨l', inv', s⟩ := ih; exact ⟨l', inv', .keyAlone hk hr hm hn s⟩
  | free ha hm _ ih => obtain ⟨l', inv', s⟩ := ih; exact ⟨l', inv', .free ha hm s⟩
  | positional hno hr _ ih => obtain ⟨l', inv', s⟩ := ih; exact ⟨l', inv', .positional hno hr s⟩
  | invert _ ih => obtain ⟨l', inv', s⟩ := ih; exact ⟨l', inv', .invert s⟩

/-- behind a `!` nothing but further `!` can follow: the line spells no use and ends behind the `!` -/
theorem SPE_inverted {cfg : Cfg} {l l' : Option Nat} {inv inv' : Bool} {r : TokRes} {us : List Use}
    (h : SPE cfg l inv r us l' inv') : inv = true → us = [] ∧ l' = l ∧ inv' = true := by
  induction h with
  | done l inv => intro hi; exact ⟨rfl, rfl, hi⟩
  | flag _ _ _ _ _ => intro hi; cases hi
  | keyValue _ _ _ _ _ _ => intro hi; cases hi
  | keyAlone _ _ _ _ _ _ => intro hi; cases hi
  | free _ _ _ _ => intro hi; cases hi
  | positional _ _ _ _ => intro hi; cases hi
  | invert _ ih => intro _; exact ih rfl

/-! ### one call of the element loop -/

theorem cont_faithful_end {cfg : Cfg} {argv : List Word} (h1 : 1 ≤ argv.length) {fuel : Nat}
    (ih : ∀ (h : HState) (ai : It) (res : TokRes) (hf : HState), Cur ai argv res →
      iterateLoop cfg fuel h ai = .ok hf →
      ∃ us, SPE cfg h.lastArg h.inverted res us hf.lastArg hf.inverted ∧ hf.uses = h.uses ++ us)
    {h hf : HState} {ai : It} {pos : Pos} (hrep : Rep ai argv pos) (hrem : ai.remAsValue = false)
    (he : (ai.step >>= fun ai'' => iterateLoop cfg fuel h ai'') = .ok hf) :
    ∃ us, SPE cfg h.lastArg h.inverted (nextTok false pos) us hf.lastArg hf.inverted ∧ hf.uses = h.uses ++ us := by
  cases hs : ai.step with
  | throw e => rw [hs] at he; cases he
  | oob w => rw [hs] at he; cases he
  | ok ai2 =>
    rw [hs] at he
    simp only [Res.bind_ok] at he
    have hcur := step_ok_cur h1 hrep hs
    rw [hrem] at hcur
    exact ih h ai2 _ hf hcur he

/-- `loop_faithful` with the state at the end of the loop -/
theorem loop_faithful_end (cfg : Cfg) (argv : List Word) (h1 : 1 ≤ argv.length) (fuel : Nat) :
    ∀ (h : HState) (ai : It) (res : TokRes) (hf : HState), Cur ai argv res →
      iterateLoop cfg fuel h ai = .ok hf →
      ∃ us, SPE cfg h.lastArg h.inverted res us hf.lastArg hf.inverted ∧ hf.uses = h.uses ++ us := by
  induction fuel with
  | zero => intro h ai res hf _ he; simp [iterateLoop] at he
  | succ fuel ih =>
    intro h ai res hf hcur he
    unfold iterateLoop at he
    cases res with
    | bad => exact hcur.elim
    | done =>
      change ai.atEnd = true at hcur
      rw [if_pos hcur] at he
      cases he
      exact ⟨[], SPE.done _ _, by simp⟩
    | tok t pos =>
      obtain ⟨hne, htok, hrep, hrem⟩ := hcur
      rw [if_neg (by rw [hne]; decide)] at he
      cases hs : evalSingleArgument cfg h ai with
      | throw e => rw [hs] at he; cases he
      | oob w => rw [hs] at he; cases he
      | ok p =>
        obtain ⟨h', ai', r⟩ := p
        rw [hs] at he
        simp only [Res.bind_ok] at he
        have hru : r ≠ .unknown := by
          intro e; subst e; cases he
        cases t with
        | ctrl c =>
          obtain ⟨hty, hch, hc⟩ := htok
          unfold evalSingleArgument at hs
          rw [hty] at hs
          dsimp only at hs
          rw [hch] at hs
          rcases hc with rfl | rfl | rfl
          · simp at hs; exact absurd hs.2.2.symm hru
          · simp at hs; exact absurd hs.2.2.symm hru
          · have hb : (('!' : Char) == '(' || ('!' : Char) == ')') = false := by decide
            rw [hb] at hs
            simp only [Bool.false_eq_true, if_false, Res.pure_eq, Res.ok.injEq, Prod.mk.injEq] at hs
            obtain ⟨e1, e2, e3⟩ := hs
            subst e1 e2 e3
            dsimp only at he
            obtain ⟨us, sp, hu⟩ := cont_faithful_end h1 ih (h := { h with inverted := true }) hrep hrem he
            exact ⟨us, SPE.invert sp, hu⟩
        | value v =>
          obtain ⟨hty, hval⟩ := htok
          obtain ⟨e1, e2, i1, i2, hl, hcase⟩ := evalValue_shape hty hs hru
          subst e1 e2
          dsimp only at he
          obtain ⟨us, sp, hu⟩ := cont_faithful_end h1 ih (h := h') hrep hrem he
          rw [i2, hl] at sp
          rw [i1]
          rcases hcase with ⟨i, d, hli, hd, hm, hlog⟩ | ⟨i, d, hnm, hres, hlog⟩
          · rw [hli] at sp ⊢
            refine ⟨_ :: us, SPE.free hd hm sp, ?_⟩
            rw [hu, hlog, hval]; simp
          · refine ⟨_ :: us, SPE.positional hnm hres sp, ?_⟩
            rw [hu, hlog, hval]; simp
        | short c =>
          obtain ⟨hty, hch⟩ := htok
          have hs' : processArg cfg h (Key.ofChar c) ai = .ok (h', ai', r) := by
            unfold evalSingleArgument at hs
            rw [hty] at hs
            dsimp only at hs
            rw [hch] at hs
            exact hs
          obtain ⟨e2, i1, i2, i, d, hres, hl, hcase⟩ := processArg_shape h1 hrep hrem hs' hru
          subst e2
          dsimp only at he
          rw [i1]
          rcases hcase with ⟨hm, e1, hlog⟩ | ⟨hm, v, pos', hn, hrep', hrem', hlog⟩ | ⟨hm, hnv, e1, hlog⟩
          · subst e1
            obtain ⟨us, sp, hu⟩ := cont_faithful_end h1 ih (h := h') hrep hrem he
            rw [i2, hl] at sp
            exact ⟨_ :: us, SPE.flag (t := .short c) (k := Key.ofChar c) rfl hres hm sp, by rw [hu, hlog]; simp⟩
          · obtain ⟨us, sp, hu⟩ := cont_faithful_end h1 ih (h := h') hrep' hrem' he
            rw [i2, hl] at sp
            exact ⟨_ :: us, SPE.keyValue (t := .short c) (k := Key.ofChar c) rfl hres hm hn sp, by rw [hu, hlog]; simp⟩
          · subst e1
            obtain ⟨us, sp, hu⟩ := cont_faithful_end h1 ih (h := h') hrep hrem he
            rw [i2, hl] at sp
            exact ⟨_ :: us, SPE.keyAlone (t := .short c) (k := Key.ofChar c) rfl hres hm hnv sp, by rw [hu, hlog]; simp⟩
        | long n =>
          obtain ⟨hty, hstr⟩ := htok
          have hs' : ∃ key, wordKey n = .ok key ∧ processArg cfg h key ai = .ok (h', ai', r) := by
            unfold evalSingleArgument at hs
            rw [hty] at hs
            dsimp only at hs
            rw [hstr] at hs
            cases hk : wordKey n with
            | throw e => rw [hk] at hs; cases hs
            | oob w => rw [hk] at hs; cases hs
            | ok key => rw [hk] at hs; exact ⟨key, rfl, hs⟩
          obtain ⟨key, hk, hs'⟩ := hs'
          obtain ⟨e2, i1, i2, i, d, hres, hl, hcase⟩ := processArg_shape h1 hrep hrem hs' hru
          subst e2
          dsimp only at he
          rw [i1]
          rcases hcase with ⟨hm, e1, hlog⟩ | ⟨hm, v, pos', hn, hrep', hrem', hlog⟩ | ⟨hm, hnv, e1, hlog⟩
          · subst e1
            obtain ⟨us, sp, hu⟩ := cont_faithful_end h1 ih (h := h') hrep hrem he
            rw [i2, hl] at sp
            exact ⟨_ :: us, SPE.flag (t := .long n) (k := key) hk hres hm sp, by rw [hu, hlog]; simp⟩
          · obtain ⟨us, sp, hu⟩ := cont_faithful_end h1 ih (h := h') hrep' hrem' he
            rw [i2, hl] at sp
            exact ⟨_ :: us, SPE.keyValue (t := .long n) (k := key) hk hres hm hn sp, by rw [hu, hlog]; simp⟩
          · subst e1
            obtain ⟨us, sp, hu⟩ := cont_faithful_end h1 ih (h := h') hrep hrem he
            rw [i2, hl] at sp
            exact ⟨_ :: us, SPE.keyAlone (t := .long n) (k := key) hk hres hm hnv sp, by rw [hu, hlog]; simp⟩

/-- the words `ws` of one line (a file line, the environment value, argv without the program name),
    read from the handler state (`l`, `inv`), spell the uses `us` and leave the state (`l'`, `inv'`) -/
def LineSpells (cfg : Cfg) (l : Option Nat) (inv : Bool) (us : List Use) (ws : List Word) (l' : Option Nat)
    (inv' : Bool) : Prop :=
  SPE cfg l inv (nextTok false (.bnd false true ws)) us l' inv'

/-- a line read from the initial state is a `SpellsPlus` line -/
theorem LineSpells.spellsPlus {cfg : Cfg} {us : List Use} {ws : List Word} {l' : Option Nat} {inv' : Bool}
    (h : LineSpells cfg none false us ws l' inv') : SpellsPlus cfg us ws := h.toSP

/-- **Parse faithfulness of one call of the element loop, from any handler state.** -/
theorem iterate_faithful (cfg : Cfg) (h hf : HState) (prog : Word) (ws : List Word)
    (he : iterateArguments cfg h (prog :: ws) = .ok hf) :
    ∃ us, LineSpells cfg h.lastArg h.inverted us ws hf.lastArg hf.inverted ∧ hf.uses = h.uses ++ us := by
  unfold iterateArguments at he
  have hb := begin_sim prog ws
  cases hbeg : It.begin (prog :: ws) with
  | throw e => rw [hbeg] at he; cases he
  | oob w => rw [hbeg] at he; cases he
  | ok ai =>
    rw [hbeg] at he hb
    simp only [Res.bind_ok] at he
    have hcur : Cur ai (prog :: ws) (nextTok false (.bnd false true ws)) := by
      cases hn : nextTok false (.bnd false true ws) with
      | bad => rw [hn, StepSim_bad] at hb; cases hb
      | done => rw [hn, StepSim_done] at hb; obtain ⟨x, e, c⟩ := hb; cases e; exact c
      | tok t p => rw [hn, StepSim_tok] at hb; obtain ⟨x, e, c⟩ := hb; cases e; exact c
    exact loop_faithful_end cfg (prog :: ws) (by simp) _ h ai _ hf hcur he

end CelmaVerif.ProgArgs
