import CelmaVerif.Lemmas.GroupsStepValue
/-
  Command lines without the two spellings on which a group and a single handler differ for reasons
  outside the key tables: the inversion word `!` and a comma inside a long key (`--a,bcd`).  The
  cursor over such a command line only produces elements that satisfy `ElemPlain`.
-/
namespace CelmaVerif.ProgArgs
open CelmaVerif CelmaVerif.Keys

/-- no word is `!`, no word contains a comma -/
def ArgvPlain (argv : List Word) : Prop := ∀ w ∈ argv, w ≠ ['!'] ∧ ',' ∉ w

structure It.Plain (it : It) : Prop where
  argv : ArgvPlain it.argv
  str : ',' ∉ it.cur.str
  ctrl : it.cur.ty = .control → (it.cur.ch == '(' || it.cur.ch == ')') = true

theorem parseSingle_single (s : List Char) (k : Key) (h : parseSingle true s = .ok k) : k.Single := by
  unfold parseSingle at h
  simp only [bind_eq_ok_g] at h
  obtain ⟨c0, _, c1, _, ci, _, h⟩ := h
  split at h
  · cases h
  · split at h
    · cases h; exact Or.inr rfl
    · rw [bind_eq_ok_g] at h
      obtain ⟨w, _, h⟩ := h
      cases h
      exact Or.inl rfl

theorem parse_nocomma_single (s : List Char) (hc : ',' ∉ s) (k : Key) (h : Key.parse s = .ok k) : k.Single := by
  by_cases hne : s = []
  · subst hne; cases h
  · by_cases hsp : ' ' ∈ s
    · exfalso
      unfold Key.parse Key.parseWith at h
      have h0 : ¬ s.length = 0 := by
        cases s with | nil => exact absurd rfl hne | cons _ _ => simp
      have h1 : ¬ s = [KeySeparator] := by
        intro e; rw [e] at hc; exact hc (by simp [KeySeparator])
      rw [if_neg h0, if_neg h1, if_pos (List.contains_iff_mem.mpr hsp)] at h
      cases h
    · rw [parse_single_eq s hne hc hsp] at h
      exact parseSingle_single s k h

theorem It.Plain.elem {it : It} (h : it.Plain) : ElemPlain it :=
  ⟨fun _ k hk => parse_nocomma_single _ h.str k hk, h.ctrl⟩

theorem getWord_mem {argv : List Word} {i : Nat} {w : Word} (h : getWord argv i = .ok w) : w ∈ argv := by
  unfold getWord at h
  cases hg : argv[i]? with
  | none => rw [hg] at h; cases h
  | some x => rw [hg] at h; cases h; exact List.mem_of_getElem? hg

theorem getSuffix_nocomma {argv : List Word} (ha : ArgvPlain argv) {i j : Nat} {s : Word}
    (h : getSuffix argv i j = .ok s) : ',' ∉ s := by
  unfold getSuffix at h
  rw [bind_eq_ok_g] at h
  obtain ⟨w, hw, h⟩ := h
  split at h
  · cases h
    exact fun hm => (ha w (getWord_mem hw)).2 (List.mem_of_mem_drop hm)
  · cases h

theorem plain_of_cur {it : It} (ha : ArgvPlain it.argv) (hs : ',' ∉ it.cur.str) (hc : it.cur.ty ≠ .control) : it.Plain :=
  ⟨ha, hs, fun h => absurd h hc⟩

theorem clearRem_ok {r : Res It} {it' : It} (h : clearRem r = .ok it') :
    ∃ it'', r = .ok it'' ∧ it' = { it'' with remAsValue := false } := by
  cases r with
  | ok x => simp only [clearRem, Res.ok.injEq] at h; exact ⟨x, rfl, h.symm⟩
  | throw e => cases h
  | oob w => cases h

theorem mkEnd_plain {argv : List Word} (ha : ArgvPlain argv) {e : It} (h : It.mkEnd argv = .ok e) : e.Plain := by
  unfold It.mkEnd at h
  split at h
  · cases h
  · rw [bind_eq_ok_g] at h
    obtain ⟨w, _, h⟩ := h
    cases h
    exact ⟨ha, by simp, by intro hh; cases hh⟩

/-- every cursor step over a plain command line yields a plain element, whatever the flags -/
theorem next_plain (fuel : Nat) :
    (∀ (it it' : It), ArgvPlain it.argv → it.next fuel = .ok it' → it'.Plain) ∧
    (∀ (it it' : It), ArgvPlain it.argv → it.determineNextArg fuel = .ok it' → it'.Plain) := by
  induction fuel with
  | zero =>
    constructor
    · intro it it' _ h; unfold It.next at h; cases h
    · intro it it' _ h; unfold It.determineNextArg at h; cases h
  | succ fuel ih =>
    constructor
    · intro it it' ha h
      unfold It.next at h
      dsimp only at h
      obtain ⟨x, hx, rfl⟩ := clearRem_ok h
      suffices hx' : x.Plain from ⟨hx'.argv, hx'.str, hx'.ctrl⟩
      split at hx
      · exact mkEnd_plain ha hx
      · split at hx
        · rw [bind_eq_ok_g] at hx
          obtain ⟨v, _, hx⟩ := hx
          cases hx
          exact plain_of_cur ha (by simp [Elem.setValue]) (by simp [Elem.setValue])
        · rw [bind_eq_ok_g] at hx
          obtain ⟨w, hw, hx⟩ := hx
          split at hx
          · rw [bind_eq_ok_g] at hx
            obtain ⟨c0, hc0, hx⟩ := hx
            split at hx
            · rename_i hctrl
              cases hx
              refine ⟨ha, by simp [Elem.setControl], fun _ => ?_⟩
              simp only [Bool.and_eq_true, beq_iff_eq] at hctrl
              obtain ⟨hlen, hcc⟩ := hctrl
              -- the word is the single character c0
              have hw1 : w = [c0] := by
                unfold getChar at hc0
                rw [hw] at hc0
                simp only [Res.bind_ok] at hc0
                match w, hlen with
                | [c], _ =>
                  simp at hc0
                  cases hc0
                  rfl
              have hne : w ≠ ['!'] := (ha w (getWord_mem hw)).1
              show (c0 == '(' || c0 == ')') = true
              unfold isCtrlChar at hcc
              by_cases hb : c0 = '!'
              · subst hb; exact absurd hw1 hne
              · simp only [Bool.or_eq_true, beq_iff_eq] at hcc ⊢
                rcases hcc with (h1 | h1) | h1
                · exact Or.inl h1
                · exact Or.inr h1
                · exact absurd h1 hb
            · split at hx
              · cases hx
                exact plain_of_cur ha (by simp [Elem.setValue]) (by simp [Elem.setValue])
              · split at hx
                · cases hx
                · refine ih.2 _ x ?_ hx; exact ha
          · refine ih.2 _ x ?_ hx; exact ha
    · intro it it' ha h
      unfold It.determineNextArg at h
      rw [bind_eq_ok_g] at h
      obtain ⟨c, _, h⟩ := h
      split at h
      · split at h
        · refine ih.1 _ it' ?_ h; exact ha
        · rw [bind_eq_ok_g] at h
          obtain ⟨name, hname, h⟩ := h
          have hn := getSuffix_nocomma ha hname
          split at h
          · cases h
            exact plain_of_cur ha (by simpa [Elem.setArgString] using hn) (by simp [Elem.setArgString])
          · cases h
            exact plain_of_cur ha (by
              simp only [Elem.setArgString]
              exact fun hm => hn (List.mem_of_mem_take hm)) (by simp [Elem.setArgString])
      · split at h
        · cases h
          exact plain_of_cur ha (by simp [Elem.setArgChar]) (by simp [Elem.setArgChar])
        · cases h
          exact plain_of_cur ha (by simp [Elem.setArgChar]) (by simp [Elem.setArgChar])

theorem step_plain {it it' : It} (ha : ArgvPlain it.argv) (h : it.step = .ok it') : it'.Plain :=
  (next_plain 4).1 it it' ha h

theorem begin_plain {argv : List Word} (ha : ArgvPlain argv) {ai : It} (h : It.begin argv = .ok ai) : ai.Plain := by
  unfold It.begin at h
  split at h
  · exact mkEnd_plain ha h
  · rw [bind_eq_ok_g] at h
    obtain ⟨w, _, h⟩ := h
    rw [bind_eq_ok_g] at h
    obtain ⟨c0, _, h⟩ := h
    split at h
    · split at h
      · cases h
      · exact (next_plain 4).2 _ ai ha h
    · cases h
      exact plain_of_cur ha (by simp [Elem.setValue]) (by simp [Elem.setValue])

/-- the cursor a handler hands back is plain again -/
theorem valueFor_plain {d : ArgDef} {ai : It} (hp : ai.Plain) {x : Word × It} (h : valueFor d ai = .ok x) : x.2.Plain := by
  unfold valueFor at h
  split at h
  · cases h; exact hp
  · rw [bind_eq_ok_g] at h
    obtain ⟨ait2, hs, h⟩ := h
    have h2 : ait2.Plain := by
      split at hs
      · exact step_plain (it := { ai with remAsValue := true }) hp.argv hs
      · exact step_plain hp.argv hs
    split at h
    · split at h
      · cases h; exact hp
      · cases h
    · cases h; exact h2

theorem evalSingleArgument_plain {c : Cfg} {h h' : HState} {ai ai' : It} {r : ArgResult} (hp : ai.Plain)
    (he : evalSingleArgument c h ai = .ok (h', ai', r)) : ai'.Plain := by
  have hproc : ∀ k, processArg c h k ai = .ok (h', ai', r) → ai'.Plain := by
    intro k hk
    cases hf : findArg c.abbr c.table k with
    | ok f =>
      cases f with
      | none =>
        rw [processArg_unknown c h k ai hf] at hk
        cases hk
        exact hp
      | some p =>
        rw [processArg_found_eq c h k ai p.1 p.2 hf] at hk
        simp only [bind_eq_ok_g] at hk
        obtain ⟨x, hx, _, _, hk⟩ := hk
        cases hk
        exact valueFor_plain hp hx
    | throw e => unfold processArg at hk; rw [hf] at hk; cases hk
    | oob w => unfold processArg at hk; rw [hf] at hk; cases hk
  unfold evalSingleArgument at he
  split at he
  · exact hproc _ he
  · rw [bind_eq_ok_g] at he
    obtain ⟨k, _, he⟩ := he
    exact hproc k he
  · split at he <;> cases he <;> exact hp
  · dsimp only at he
    split at he
    · rw [bind_eq_ok_g] at he
      obtain ⟨_, _, he⟩ := he
      cases he
      exact hp
    · rw [bind_eq_ok_g] at he
      obtain ⟨found, _, he⟩ := he
      cases found with
      | none => cases he; exact hp
      | some p =>
        dsimp only at he
        rw [bind_eq_ok_g] at he
        obtain ⟨_, _, he⟩ := he
        cases he
        exact hp

end CelmaVerif.ProgArgs
