import CelmaVerif.Lemmas.GroupsStepValue
/-
  Command lines without the two spellings on which a group and a single handler differ for reasons
  outside the key tables: the inversion word `!` and a comma inside a typed long key (`--a,bcd`).
  The cursor over such a command line only produces elements that satisfy `ElemPlain`.

  Commas are excluded only where the cursor can take them into a long KEY.  In a word that starts
  with a dash the cursor reads at most ONE long key: behind the first LATER dash (position ≥ 1), up
  to the first `=` behind it or the end of the word (`determineNextArg`).  After that it never looks
  for a key in the same word again: without `=` the word is finished, with `=` the whole rest of the
  word is taken as a value by the next `++` (`mNextIsValue`).  So only that one stretch is
  restricted.
  * inside: value words (`1,2,3`, `1,-2`, `-1,2` behind `-m`), everything behind the `=` of a long
    key (`--list=1,2,3`, `--max=-1,2`, `--name=a-b,c`, `--files=my-file,other`), values glued to
    short keys as long as no dash precedes the comma (`-m1,2,3`);
  * outside: `--x,lll`, `-a-x,lll`, and also `-m-1,2` — a dash behind short key characters followed
    by a comma before the next `=`.  Whether `-1,2` there is the value of `-m` or a long key `1,2`
    depends on whether `-m` takes a value, i.e. on the configuration, which this predicate on the
    command line alone does not see; such words stay outside.
-/
namespace CelmaVerif.ProgArgs
open CelmaVerif CelmaVerif.Keys

/-- the part of a string a long key is taken from: up to the first `=` (`determineNextArg`) -/
def keyPart (s : Word) : Word :=
  match findEq s with
  | none => s
  | some e => s.take e

/-- behind the FIRST dash of `s` no comma occurs before the next `=` / the end of `s`; what follows
    that `=` and what precedes the dash is not restricted (no dash in `s`: `true`) -/
def dashKeysPlain : Word → Bool
  | [] => true
  | c :: rest => if c == '-' then !(keyPart rest).contains ',' else dashKeysPlain rest

/-- the word is not `!`, and if it starts with a dash the one long key the cursor can read from it
    (the text from behind the first later dash up to the next `=` / the end of the word) contains no
    comma.  Words that do not start with a dash are not restricted (`1,2,3`, `a,-b`), nor is the text
    behind the `=` of a long key (`--max=-1,2`, `--name=a-b,c`).  `-m-1,2` is NOT plain: the comma
    follows a dash behind the short key character `m` with no `=` in between, and only the
    configuration (does `-m` take a value?) decides whether `1,2` is read as a long key. -/
def wordPlain (w : Word) : Bool :=
  w != ['!'] && (match w with
    | '-' :: rest => dashKeysPlain rest
    | _ => true)

/-- no word is `!`; no comma inside the long key that can be typed in a word (`wordPlain`).  Commas
    in value words, behind the `=` of a long key, and in values glued to short keys without a dash
    before the comma are allowed; `-m-1,2`-style words are not (see `wordPlain`). -/
def ArgvPlain (argv : List Word) : Prop := ∀ w ∈ argv, wordPlain w = true

instance (argv : List Word) : Decidable (ArgvPlain argv) := by unfold ArgvPlain; infer_instance

/-- a cursor position inside a word (`charPos ≠ 0`) is inside a word that starts with a dash, and
    as long as no long key with `=` has been read from it (`nextIsValue = false`) there is no dash at
    the positions `1 ≤ j < charPos` that the cursor has passed: a dash at `charPos` is the first later
    dash of the word.  (`remAsValue` is not mentioned: `valueFor` may set it.) -/
def It.Dash (it : It) : Prop := it.charPos ≠ 0 → ∀ w, it.argv[it.argIndex]? = some w →
  w.head? = some '-' ∧ (it.nextIsValue = false → ∀ j, 1 ≤ j → j < it.charPos → w[j]? ≠ some '-')

structure It.Plain (it : It) : Prop where
  argv : ArgvPlain it.argv
  str : ',' ∉ it.cur.str
  ctrl : it.cur.ty = .control → (it.cur.ch == '(' || it.cur.ch == ')') = true
  dash : it.Dash

/-- behind the first dash of `s` (at `j`) the key part has no comma -/
theorem dashKeysPlain_at : ∀ (s : Word), dashKeysPlain s = true → ∀ j, s[j]? = some '-' →
    (∀ i, i < j → s[i]? ≠ some '-') → ',' ∉ keyPart (s.drop (j + 1)) := by
  intro s
  induction s with
  | nil => intro _ j hj; simp at hj
  | cons c rest ih =>
    intro h j hj hfirst
    unfold dashKeysPlain at h
    cases j with
    | zero =>
      simp only [List.getElem?_cons_zero, Option.some.injEq] at hj
      subst hj
      rw [if_pos (by decide)] at h
      intro hm
      rw [List.drop_succ_cons, List.drop_zero] at hm
      have := List.contains_iff_mem.mpr hm
      rw [this] at h; cases h
    | succ j =>
      have hc : ¬ (c == '-') = true := by
        intro hc
        have : c = '-' := by simpa using hc
        exact hfirst 0 (Nat.succ_pos j) (by simp [this])
      rw [if_neg hc] at h
      simp only [List.getElem?_cons_succ] at hj
      rw [List.drop_succ_cons]
      refine ih h j hj ?_
      intro i hi
      have := hfirst (i + 1) (by omega)
      simpa only [List.getElem?_cons_succ] using this

theorem parseSingle_single (s : List Char) (k : Key) (h : parseSingle true s = .ok k) : k.Single := by
  unfold parseSingle at h
  simp only [bind_eq_ok_g] at h
  obtain ⟨c0, _, c1, _, ci, _, h⟩ := h
  split at h
  · cases h
  · split at h
    · cases h; exact Or.inr rfl
    · rw [bind_eq_ok_g] at h
      obtain ⟨w, _, h⟩ := h
      cases h
      exact Or.inl rfl

theorem parse_nocomma_single (s : List Char) (hc : ',' ∉ s) (k : Key) (h : Key.parse s = .ok k) : k.Single := by
  by_cases hne : s = []
  · subst hne; cases h
  · by_cases hsp : ' ' ∈ s
    · exfalso
      unfold Key.parse Key.parseWith at h
      have h0 : ¬ s.length = 0 := by
        cases s with | nil => exact absurd rfl hne | cons _ _ => simp
      have h1 : ¬ s = [KeySeparator] := by
        intro e; rw [e] at hc; exact hc (by simp [KeySeparator])
      rw [if_neg h0, if_neg h1, if_pos (List.contains_iff_mem.mpr hsp)] at h
      cases h
    · rw [parse_single_eq s hne hc hsp] at h
      exact parseSingle_single s k h

/-- the key of a typed name without comma has one part (a one-character name is looked up as `--c`) -/
theorem wordKey_nocomma_single (s : List Char) (hc : ',' ∉ s) (k : Key) (h : wordKey s = .ok k) : k.Single := by
  unfold wordKey at h
  split at h
  · refine parse_nocomma_single _ ?_ k h
    intro hm
    simp only [List.mem_cons] at hm
    rcases hm with e | e | e
    · cases e
    · cases e
    · exact hc e
  · exact parse_nocomma_single _ hc k h

theorem It.Plain.elem {it : It} (h : it.Plain) : ElemPlain it :=
  ⟨fun _ k hk => wordKey_nocomma_single _ h.str k hk, h.ctrl⟩

theorem getWord_mem {argv : List Word} {i : Nat} {w : Word} (h : getWord argv i = .ok w) : w ∈ argv := by
  unfold getWord at h
  cases hg : argv[i]? with
  | none => rw [hg] at h; cases h
  | some x => rw [hg] at h; cases h; exact List.mem_of_getElem? hg

theorem getWord_get {argv : List Word} {i : Nat} {w : Word} (h : getWord argv i = .ok w) : argv[i]? = some w := by
  unfold getWord at h
  cases hg : argv[i]? with
  | none => rw [hg] at h; cases h
  | some x => rw [hg] at h; cases h; rfl

/-- `mpArgV[i][j] == '-'` really is a dash of the word (not the terminating NUL) -/
theorem getChar_isDash {argv : List Word} {i j : Nat} {w : Word} (hw : argv[i]? = some w)
    (h : getChar argv i j = .ok '-') : w[j]? = some '-' := by
  unfold getChar getWord at h
  rw [hw] at h
  simp only [Res.bind_ok] at h
  split at h
  · rename_i hlt
    simp only [Res.pure_eq, Res.ok.injEq] at h
    rw [List.getD_eq_getElem?_getD, List.getElem?_eq_getElem hlt] at h
    rw [List.getElem?_eq_getElem hlt]
    simpa using h
  · split at h
    · simp only [Res.pure_eq, Res.ok.injEq] at h; exact absurd h (by decide)
    · cases h

/-- `mpArgV[i][j]` is not a dash: the word has no dash at `j` -/
theorem getChar_notDash {argv : List Word} {i j : Nat} {w : Word} {c : Char} (hw : argv[i]? = some w)
    (h : getChar argv i j = .ok c) (hc : c ≠ '-') : w[j]? ≠ some '-' := by
  unfold getChar getWord at h
  rw [hw] at h
  simp only [Res.bind_ok] at h
  split at h
  · rename_i hlt
    simp only [Res.pure_eq, Res.ok.injEq] at h
    rw [List.getD_eq_getElem?_getD, List.getElem?_eq_getElem hlt] at h
    rw [List.getElem?_eq_getElem hlt]
    intro he
    apply hc
    rw [← h]
    simpa using he
  · rename_i hlt
    rw [List.getElem?_eq_none (by omega)]
    intro he; cases he

/-- the long key read behind the FIRST later dash (position `j ≥ 1`, no dash at `1 ≤ i < j`) of a word
    of a plain command line has no comma -/
theorem keyPart_nocomma {argv : List Word} (ha : ArgvPlain argv) {i j : Nat} {w : Word}
    (hw : argv[i]? = some w) (hd : w.head? = some '-') (hj : 1 ≤ j) (hc : w[j]? = some '-')
    (hfirst : ∀ k, 1 ≤ k → k < j → w[k]? ≠ some '-') :
    ',' ∉ keyPart (w.drop (j + 1)) := by
  have hp := ha w (List.mem_of_getElem? hw)
  cases w with
  | nil => cases hd
  | cons c rest =>
    simp only [List.head?_cons, Option.some.injEq] at hd
    subst hd
    simp only [wordPlain, Bool.and_eq_true] at hp
    obtain ⟨j', rfl⟩ : ∃ j', j = j' + 1 := ⟨j - 1, by omega⟩
    simp only [List.getElem?_cons_succ] at hc
    rw [List.drop_succ_cons]
    refine dashKeysPlain_at rest hp.2 j' hc ?_
    intro k hk
    have := hfirst (k + 1) (by omega) (by omega)
    simpa only [List.getElem?_cons_succ] using this

theorem getSuffix_eq {argv : List Word} {i j : Nat} {w s : Word} (hw : argv[i]? = some w)
    (h : getSuffix argv i j = .ok s) : s = w.drop j := by
  unfold getSuffix getWord at h
  rw [hw] at h
  simp only [Res.bind_ok] at h
  split at h
  · cases h; rfl
  · cases h

theorem plain_of_cur {it : It} (ha : ArgvPlain it.argv) (hs : ',' ∉ it.cur.str) (hc : it.cur.ty ≠ .control)
    (hd : it.Dash) : it.Plain :=
  ⟨ha, hs, fun h => absurd h hc, hd⟩

theorem dash_zero {it : It} (h : it.charPos = 0) : it.Dash := fun hne => absurd h hne

theorem clearRem_ok_inv {r : Res It} {it' : It} (h : clearRem r = .ok it') :
    ∃ it'', r = .ok it'' ∧ it' = { it'' with remAsValue := false } := by
  cases r with
  | ok x => simp only [clearRem, Res.ok.injEq] at h; exact ⟨x, rfl, h.symm⟩
  | throw e => cases h
  | oob w => cases h

theorem mkEnd_plain {argv : List Word} (ha : ArgvPlain argv) {e : It} (h : It.mkEnd argv = .ok e) : e.Plain := by
  unfold It.mkEnd at h
  split at h
  · cases h
  · rw [bind_eq_ok_g] at h
    obtain ⟨w, _, h⟩ := h
    cases h
    refine ⟨ha, by simp, (by intro hh; cases hh), ?_⟩
    intro _ w hw
    have : argv[argv.length + 1]? = none := List.getElem?_eq_none (by omega)
    rw [this] at hw; cases hw

/-- the cursor enters a word behind its leading dash: `charPos = 1` -/
theorem dash_one {it : It} (hcp : it.charPos = 1) {w : Word} (hw : it.argv[it.argIndex]? = some w)
    (h0 : w[0]? = some '-') : it.Dash := by
  intro _ w' hw'
  rw [hw] at hw'; cases hw'
  refine ⟨?_, fun _ j h1 h2 => ?_⟩
  · cases w with
    | nil => simp at h0
    | cons c _ => simpa using h0
  · rw [hcp] at h2; omega

/-- every cursor step over a plain command line yields a plain element, whatever the flags -/
theorem next_plain (fuel : Nat) :
    (∀ (it it' : It), ArgvPlain it.argv → it.Dash → it.next fuel = .ok it' → it'.Plain) ∧
    (∀ (it it' : It), ArgvPlain it.argv → it.Dash → it.nextIsValue = false → 1 ≤ it.charPos →
      it.determineNextArg fuel = .ok it' → it'.Plain) := by
  induction fuel with
  | zero =>
    constructor
    · intro it it' _ _ h; unfold It.next at h; cases h
    · intro it it' _ _ _ _ h; unfold It.determineNextArg at h; cases h
  | succ fuel ih =>
    constructor
    · intro it it' ha hd h
      unfold It.next at h
      dsimp only at h
      obtain ⟨x, hx, rfl⟩ := clearRem_ok_inv h
      suffices hx' : x.Plain from ⟨hx'.argv, hx'.str, hx'.ctrl, hx'.dash⟩
      split at hx
      · exact mkEnd_plain ha hx
      · split at hx
        · rw [bind_eq_ok_g] at hx
          obtain ⟨v, _, hx⟩ := hx
          cases hx
          exact plain_of_cur ha (by simp [Elem.setValue]) (by simp [Elem.setValue]) (dash_zero rfl)
        · rename_i hnv
          have hnv' : it.nextIsValue = false := by
            cases hv : it.nextIsValue with
            | false => rfl
            | true => rw [hv] at hnv; exact absurd (by simp) hnv
          rw [bind_eq_ok_g] at hx
          obtain ⟨w, hw, hx⟩ := hx
          split at hx
          · rename_i hcp0
            have hcp : it.charPos = 0 := by simpa using hcp0
            rw [bind_eq_ok_g] at hx
            obtain ⟨c0, hc0, hx⟩ := hx
            split at hx
            · rename_i hctrl
              cases hx
              refine ⟨ha, by simp [Elem.setControl], fun _ => ?_, dash_zero hcp⟩
              simp only [Bool.and_eq_true, beq_iff_eq] at hctrl
              obtain ⟨hlen, hcc⟩ := hctrl
              -- the word is the single character c0
              have hw1 : w = [c0] := by
                unfold getChar at hc0
                rw [hw] at hc0
                simp only [Res.bind_ok] at hc0
                match w, hlen with
                | [c], _ =>
                  simp at hc0
                  cases hc0
                  rfl
              have hne : w ≠ ['!'] := by
                have := ha w (getWord_mem hw)
                simp only [wordPlain, Bool.and_eq_true, bne_iff_ne, ne_eq] at this
                exact this.1
              show (c0 == '(' || c0 == ')') = true
              unfold isCtrlChar at hcc
              by_cases hb : c0 = '!'
              · subst hb; exact absurd hw1 hne
              · simp only [Bool.or_eq_true, beq_iff_eq] at hcc ⊢
                rcases hcc with (h1 | h1) | h1
                · exact Or.inl h1
                · exact Or.inr h1
                · exact absurd h1 hb
            · split at hx
              · cases hx
                exact plain_of_cur ha (by simp [Elem.setValue]) (by simp [Elem.setValue]) (dash_zero hcp)
              · rename_i hval
                split at hx
                · cases hx
                · refine ih.2 _ x ?_ ?_ ?_ ?_ hx
                  · exact ha
                  rotate_left
                  · exact hnv'
                  · exact Nat.le_refl 1
                  -- the word starts with a dash; the cursor is placed directly behind it
                  have hww : it.argv[it.argIndex]? = some w := getWord_get hw
                  have hc0' : c0 = '-' := by
                    simp only [Bool.or_eq_true, bne_iff_ne, ne_eq, not_or, Bool.not_eq_true] at hval
                    exact Classical.not_not.mp hval.1
                  subst hc0'
                  exact dash_one rfl hww (getChar_isDash hww hc0)
          · rename_i hcp0
            have : it.charPos ≠ 0 := by simpa using hcp0
            refine ih.2 _ x ?_ ?_ ?_ ?_ hx
            · exact ha
            · exact hd
            · exact hnv'
            · show 1 ≤ it.charPos
              omega
    · intro it it' ha hd hnv hpos h
      unfold It.determineNextArg at h
      rw [bind_eq_ok_g] at h
      obtain ⟨c, hc, h⟩ := h
      split at h
      · rename_i hcd
        have hcd' : c = '-' := by simpa using hcd
        subst hcd'
        split at h
        · refine ih.1 _ it' ?_ ?_ h
          · exact ha
          · exact dash_zero rfl
        · rw [bind_eq_ok_g] at h
          obtain ⟨name, hname, h⟩ := h
          -- the word under the cursor
          have hex : ∃ w, it.argv[it.argIndex]? = some w := by
            unfold getSuffix at hname
            rw [bind_eq_ok_g] at hname
            obtain ⟨w, hw, _⟩ := hname
            exact ⟨w, getWord_get hw⟩
          obtain ⟨w, hw⟩ := hex
          obtain ⟨hhead, hfirst⟩ := hd (by omega) w hw
          -- the dash under the cursor is the first later dash of the word
          have hn : ',' ∉ keyPart name := by
            rw [getSuffix_eq hw hname]
            exact keyPart_nocomma ha hw hhead hpos (getChar_isDash hw hc) (hfirst hnv)
          unfold keyPart at hn
          split at h
          · rename_i hfe
            rw [hfe] at hn
            cases h
            exact plain_of_cur ha (by simpa [Elem.setArgString] using hn) (by simp [Elem.setArgString])
              (dash_zero rfl)
          · rename_i e hfe
            rw [hfe] at hn
            cases h
            refine plain_of_cur ha (by simpa [Elem.setArgString] using hn) (by simp [Elem.setArgString]) ?_
            -- `nextIsValue = true`: the rest of the word is a value, no further key is read from it
            intro _ w' hw'
            exact ⟨(hd (by omega) w' hw').1, fun hf => by cases hf⟩
      · rename_i hcd
        have hcd' : c ≠ '-' := by simpa using hcd
        split at h
        · cases h
          exact plain_of_cur ha (by simp [Elem.setArgChar]) (by simp [Elem.setArgChar]) (dash_zero rfl)
        · cases h
          refine plain_of_cur ha (by simp [Elem.setArgChar]) (by simp [Elem.setArgChar]) ?_
          -- a short key character: still no dash behind the leading one
          intro _ w' hw'
          obtain ⟨hhead, hfirst⟩ := hd (by omega) w' hw'
          refine ⟨hhead, fun _ j h1 h2 => ?_⟩
          have h2' : j < it.charPos + 1 := h2
          by_cases hj : j < it.charPos
          · exact hfirst hnv j h1 hj
          · have hj' : j = it.charPos := by omega
            subst hj'
            exact getChar_notDash hw' hc hcd'

theorem plain_step {it it' : It} (hp : it.Plain) (h : it.step = .ok it') : it'.Plain :=
  (next_plain 4).1 it it' hp.argv hp.dash h

theorem begin_plain {argv : List Word} (ha : ArgvPlain argv) {ai : It} (h : It.begin argv = .ok ai) : ai.Plain := by
  unfold It.begin at h
  split at h
  · exact mkEnd_plain ha h
  · rw [bind_eq_ok_g] at h
    obtain ⟨w, hw, h⟩ := h
    rw [bind_eq_ok_g] at h
    obtain ⟨c0, hc0, h⟩ := h
    split at h
    · rename_i hcd
      have hcd' : c0 = '-' := by simpa using hcd
      subst hcd'
      split at h
      · cases h
      · refine (next_plain 4).2 _ ai ha ?_ rfl (Nat.le_refl 1) h
        have hww : argv[1]? = some w := getWord_get hw
        exact dash_one rfl hww (getChar_isDash hww hc0)
    · cases h
      exact plain_of_cur ha (by simp [Elem.setValue]) (by simp [Elem.setValue]) (dash_zero rfl)

/-- the cursor a handler hands back is plain again -/
theorem valueFor_plain {d : ArgDef} {ai : It} (hp : ai.Plain) {x : Word × It} (h : valueFor d ai = .ok x) : x.2.Plain := by
  unfold valueFor at h
  split at h
  · cases h; exact hp
  · rw [bind_eq_ok_g] at h
    obtain ⟨ait2, hs, h⟩ := h
    have h2 : ait2.Plain := by
      split at hs
      · exact plain_step (it := { ai with remAsValue := true }) ⟨hp.argv, hp.str, hp.ctrl, hp.dash⟩ hs
      · exact plain_step hp hs
    split at h
    · split at h
      · cases h; exact hp
      · cases h
    · cases h; exact h2

theorem evalSingleArgument_plain {c : Cfg} {h h' : HState} {ai ai' : It} {r : ArgResult} (hp : ai.Plain)
    (he : evalSingleArgument c h ai = .ok (h', ai', r)) : ai'.Plain := by
  have hproc : ∀ k, processArg c h k ai = .ok (h', ai', r) → ai'.Plain := by
    intro k hk
    cases hf : findArg c.abbr c.table k with
    | ok f =>
      cases f with
      | none =>
        rw [processArg_unknown c h k ai hf] at hk
        cases hk
        exact hp
      | some p =>
        rw [processArg_found_eq c h k ai p.1 p.2 hf] at hk
        simp only [bind_eq_ok_g] at hk
        obtain ⟨x, hx, _, _, hk⟩ := hk
        cases hk
        exact valueFor_plain hp hx
    | throw e => unfold processArg at hk; rw [hf] at hk; cases hk
    | oob w => unfold processArg at hk; rw [hf] at hk; cases hk
  unfold evalSingleArgument at he
  split at he
  · exact hproc _ he
  · rw [bind_eq_ok_g] at he
    obtain ⟨k, _, he⟩ := he
    exact hproc k he
  · split at he <;> cases he <;> exact hp
  · dsimp only at he
    split at he
    · rw [bind_eq_ok_g] at he
      obtain ⟨_, _, he⟩ := he
      cases he
      exact hp
    · rw [bind_eq_ok_g] at he
      obtain ⟨found, _, he⟩ := he
      cases found with
      | none => cases he; exact hp
      | some p =>
        dsimp only at he
        rw [bind_eq_ok_g] at he
        obtain ⟨_, _, he⟩ := he
        cases he
        exact hp

end CelmaVerif.ProgArgs
