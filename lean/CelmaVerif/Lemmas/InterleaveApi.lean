import CelmaVerif.Lemmas.InterleaveInventory
/-
  C09, the link between the handler and the footprint condition, without assuming the condition.

  A thread of the property's quantifier is described by *what it calls* (`Api`): construct a
  handler (with or without the `hfInGroup` flag, bound to the standard streams or to streams of
  its own), add arguments, add a bracket handler, evaluate uses of its own command line, ask for
  the usage, list the argument groups, use the standard-argument group, evaluate an argument
  string without a handler.  Its thread program is *derived* from that description
  (`threadProg`):

  * every call touches objects of the thread (handler, argument objects, destination variables,
    its command line) — cells `tmp/sepv/dest/argv` of that thread;
  * the cells of process-wide state are the *regenerated inventory*
    (`Generated/HandlerSharedState.lean`): `singletonCells` are its entries justified by
    `singletonOnlyThroughGroups`, `streamCells` the external objects justified by
    `standardStreamOnlyBound`;
  * which call reaches which of them is the regenerated call-site table `singletonCallers`
    (every function of the reach that calls a member of `common::Singleton<T>`; per call site the
    conjunction of the conditions of the enclosing `if` statements, as normalised source text):
    `Api.touchesSingleton` evaluates the guards of that table under the handler's flag
    `mUsedByGroup` (an expression the model does not know may hold), `modelledCallers` is the
    model's own reading (expected guard per caller), `callersModelled` checks (by `decide`, in
    Props/C09.lean) that the table of the tree under check is covered by it — same callers, same
    guards — and `plain_not_touches` / `threadProg_local` take that fact as a hypothesis.

  * (audit follow-up 2) what else of process-wide state a call can name is the regenerated table
    `entryFootprints`: per `Api` call the mutable static-storage objects named anywhere in the
    CALL CLOSURE (by simple function name, cut at the other entry points and at the singleton's
    members) of the C++ function the call enters.  `Api.generated` puts those objects into the
    call's steps, so the thread programs follow the tree under check; `callFootprintsModelled`
    (by `decide`, in Props/C09.lean) checks that every such object is one the model's reading gives
    that call anyway (a singleton cell for a call that reaches the singleton, a stream cell for a
    printing call), that the singleton callers inside a call's closure are reached only under guards
    under which `Api.touchesSingleton` says so, that standard streams are only *bound* by the
    constructor, and that no external callee is on the list of functions with hidden static state
    (except the justified ones).  `plain_generated_nil` / `threadProg_local` take that fact as a
    hypothesis.  What stays hand-written: the cells of the thread's OWN objects per call
    (`tmp/sepv/dest/argv`), the map `Api.entry`/`Api.apiName` from calls to C++ functions, and
    `Api.prints` (who writes to the streams the handler was bound to).

  `Plain` is a decidable condition on the call list (plain handler, no usage / group / standard
  argument request).  `threadProg_local` PROVES the footprint condition for plain threads;
  `threadProg_not_local` proves it fails for every thread with a call that reaches the
  singleton whatever the handler's flag, so `Plain` is not a restatement of `Local` for arbitrary
  programs.  It is a SUFFICIENT condition, not the exact boundary inside this family: a handler
  constructed with `hfInGroup` on which no add-call is made is `Local` without being `Plain`
  (`group_handler_without_add_local`; audit 2, part D, finding 6).
-/
namespace CelmaVerif.Interleave

open CelmaVerif.Generated.HandlerSharedState

/-! ### process-wide cells, from the regenerated inventory -/

/-- indices `< k` of the inventory entries satisfying `p` -/
def idxWhere {α : Type} (l : List α) (p : α → Bool) : List Nat :=
  (List.range l.length).filter fun e => match l[e]? with
    | some a => p a
    | none => false

/-- the cells of the inventory entries that belong to `common::Singleton<T>` -/
def singletonCells : List HCell :=
  (idxWhere mutableStatics fun e => justifyStatic e == some .singletonOnlyThroughGroups).map HCell.static

/-- the cells of the external stream objects (`std::cout`, `std::cerr`) -/
def streamCells : List HCell :=
  (idxWhere externalStatics fun x => justifyExternal x == some .standardStreamOnlyBound).map HCell.ext

/-! ### the calls of a thread -/

/-- one call of a thread on its own handler (k = argument index, j = value word index) -/
inductive Api where
  /-- `Handler h( flags)`: `inGroup` = the flag `hfInGroup` (sets `mUsedByGroup`, handler.cpp
  constructor initialisers), `stdStreams` = bound to `std::cout` / `std::cerr` (the default) -/
  | construct (inGroup stdStreams : Bool)
  /-- `addArgument( key, DEST_VAR( v), desc)->setListSep( c)`: `Handler::internAddArgument` -/
  | addListArg (k : Nat)
  /-- `Handler::addBracketHandler` -/
  | addBracketHandler
  /-- `addArgument( key, subGroupHandler, desc)`: the overload `Handler::addArgument( const string&,
  Handler&, const string&)` for a sub-group argument (the sub-group handler is an object of the
  thread); since /repo b870f06 it makes the same cross check as `internAddArgument` -/
  | addSubGroupArg
  /-- one use `-k value` during `evalArguments` (tokenise and append, `assignFixed`) -/
  | evalUse (k j : Nat)
  /-- `Handler::usage()` (`-h`, `--help`, an error exit that prints the usage) -/
  | usage
  /-- `Handler::listArgGroups()` (`--list-arg-groups`) -/
  | listArgGroups
  /-- `addStandardArgument( …)` (add_standard_argument.hpp) -/
  | addStandardArgument
  /-- `evalArgumentString( "…")` without a handler (eval_argument_string.cpp) -/
  | evalArgumentString
deriving DecidableEq, Repr

/-- the C++ function a call enters that may call a member of `Singleton<Groups>`:
(file, function) as the call-site table names them -/
def Api.entry : Api → Option (String × String)
  | .construct .. => none
  | .addListArg _ => some ("library/prog_args/handler.cpp", "Handler::internAddArgument")
  | .addBracketHandler => some ("library/prog_args/handler.cpp", "Handler::addBracketHandler")
  | .addSubGroupArg => some ("library/prog_args/handler.cpp", "Handler::addArgument")
  | .evalUse .. => none
  | .usage => some ("library/prog_args/handler.cpp", "Handler::usage")
  | .listArgGroups => some ("library/prog_args/handler.cpp", "Handler::listArgGroups")
  | .addStandardArgument => some ("celma/prog_args/add_standard_argument.hpp", "addStandardArgument")
  | .evalArgumentString => some ("library/prog_args/eval_argument_string.cpp", "evalArgumentString")

/-! ### which member flag makes a call reach the singleton

`Handler::mUsedByGroup` is set from the constructor flag `hfInGroup` (both constructors'
initialisers, handler.cpp) and never written afterwards; `Groups::internGetArgHandler` is the only
code that passes that flag.  A guard is the conjunction of the conditions of the `if` statements
around a call site, as the translator reads them from the tree under check. -/

/-- the callers this model knows: (file, function, the guards of its call sites as the call-site
table lists them: distinct, sorted, `[]` = a call outside every `if` branch).
`internAddArgument`, `addBracketHandler` and the sub-group overload of `addArgument` call
`Groups::instance().crossCheckArguments( this)` under `if (mUsedByGroup)`; `usage()` calls `Groups::instance().evaluatedByArgGroups()` *in* the
condition of its first `if` (unguarded) and `Groups::instance().displayUsage()` under it; the
other three call unconditionally. -/
def modelledCallers : List (String × String × List (List String)) :=
  [ ("library/prog_args/handler.cpp", "Handler::internAddArgument", [["mUsedByGroup"]]),
    ("library/prog_args/handler.cpp", "Handler::addBracketHandler", [["mUsedByGroup"]]),
    ("library/prog_args/handler.cpp", "Handler::addArgument", [["mUsedByGroup"]]),
    ("library/prog_args/handler.cpp", "Handler::usage",
      [[], ["Groups::instance().evaluatedByArgGroups()&&!mIsSubGroupHandler"]]),
    ("library/prog_args/handler.cpp", "Handler::listArgGroups", [[]]),
    ("celma/prog_args/add_standard_argument.hpp", "addStandardArgument", [[]]),
    ("library/prog_args/eval_argument_string.cpp", "evalArgumentString", [[]]) ]

/-- the guards of the call sites of `fn` (in `file`) in the tree under check; `[]` when the
function calls no member of the singleton -/
def foundGuards (file fn : String) : List (List String) :=
  (singletonCallers.filter fun c => c.file == file && c.function == fn).flatMap (·.guards)

/-- every caller of a singleton member found in the tree under check is one the model knows,
**with the same guards** (a new call site, a guard that disappeared, or a guard that tests
another expression makes this false) -/
def callersModelled : Bool :=
  singletonCallers.all fun c => modelledCallers.contains (c.file, c.function, c.guards)

/-- one condition under a handler whose `mUsedByGroup` is `g`; an expression the model does not
know may hold -/
def conjunctHolds (g : Bool) (s : String) : Bool :=
  if s == "mUsedByGroup" then g
  else if s == "!mUsedByGroup" || s == "!(mUsedByGroup)" then !g
  else true

/-- can a call behind these guards be reached on a handler whose `mUsedByGroup` is `g`?
(one site whose conjuncts may all hold) -/
def reaches (g : Bool) (guards : List (List String)) : Bool :=
  guards.any fun conj => conj.all (conjunctHolds g)

/-- does this call, made on a handler whose `mUsedByGroup` is `inGroup`, reach a member of
`Singleton<Groups>`?  Read from the call-site table **of the tree under check**. -/
def Api.touchesSingleton (inGroup : Bool) (a : Api) : Bool :=
  match a.entry with
  | none => false
  | some (f, g) => singletonCallers.any fun c => c.file == f && c.function == g && reaches inGroup c.guards

/-- the same question answered from the model's own reading `modelledCallers` -/
def Api.touchesModel (inGroup : Bool) (a : Api) : Bool :=
  match a.entry with
  | none => false
  | some (f, g) => modelledCallers.any fun c => c.1 == f && c.2.1 == g && reaches inGroup c.2.2

/-- when the table of the tree is covered by the model's reading, a call reaches the singleton in
the tree only if it does in the model -/
theorem touches_le_model (hm : callersModelled = true) (g : Bool) (a : Api)
    (h : a.touchesSingleton g = true) : a.touchesModel g = true := by
  unfold Api.touchesSingleton at h
  unfold Api.touchesModel
  cases he : a.entry with
  | none => rw [he] at h; cases h
  | some fg =>
    obtain ⟨f, fn⟩ := fg
    rw [he] at h
    simp only [List.any_eq_true] at h ⊢
    obtain ⟨c, hc, hcc⟩ := h
    have hin := List.all_eq_true.mp hm c hc
    exact ⟨(c.file, c.function, c.guards), List.contains_iff_mem.mp hin, hcc⟩

/-- does this call write to the handler's output streams?  (Hand-written.  `Handler::usage`,
`Handler::listArgGroups` write to `mOutput`.  `evalArguments` writes to `mOutput` only under
`if (mVerbose)` in `Handler::handleIdentifiedArg`, i.e. for a handler constructed with
`hfVerboseArgs`: such handlers are outside this model unless they have streams of their own.) -/
def Api.prints : Api → Bool
  | .usage | .listArgGroups => true
  | _ => false

/-! ### the generated footprint of a call: what its call closure names

`entryFootprints` (regenerated) lists per call the mutable static-storage objects named in the
call closure of the C++ entry point. -/

/-- the name of the call in the generated table -/
def Api.apiName : Api → String
  | .construct .. => "construct"
  | .addListArg _ => "addListArg"
  | .addBracketHandler => "addBracketHandler"
  | .addSubGroupArg => "addSubGroupArg"
  | .evalUse .. => "evalUse"
  | .usage => "usage"
  | .listArgGroups => "listArgGroups"
  | .addStandardArgument => "addStandardArgument"
  | .evalArgumentString => "evalArgumentString"

/-- the row of the generated table for this call -/
def Api.footprint (a : Api) : Option EntryFootprint :=
  entryFootprints.find? fun fp => fp.api == a.apiName

/-- inventory indices of the mutable statics of the repository the call closure names -/
def Api.genStatics (a : Api) : List Nat :=
  match a.footprint with
  | some fp => fp.statics
  | none => []

/-- indices of the external objects (`std::cout` …) the call closure uses other than by binding a
reference -/
def Api.genExts (a : Api) : List Nat :=
  match a.footprint with
  | some fp => fp.usedExternals
  | none => []

/-- the process-wide cells the call closure names **in the tree under check** -/
def Api.generated (a : Api) : List HCell := a.genStatics.map HCell.static ++ a.genExts.map HCell.ext

/-- is inventory entry `e`, named in the closure of `a`, a cell the model's reading gives that
call on a handler with `mUsedByGroup = g`?  (The only static cells of `Api.steps` besides the
generated ones are the singleton cells, given to a call that reaches the singleton.) -/
def allowedStatic (a : Api) (g : Bool) (e : Nat) : Bool :=
  a.touchesSingleton g && singletonCells.contains (.static e)

/-- the same for an external object used by the closure, on a handler bound to the standard
streams iff `s` (the only external cells of `Api.steps` are the stream cells of a printing call) -/
def allowedExt (a : Api) (s : Bool) (x : Nat) : Bool :=
  a.prints && s && streamCells.contains (.ext x)

def Api.isConstruct : Api → Bool
  | .construct .. => true
  | _ => false

/-- external callees with hidden process-wide state that are accepted, with the reason:
`getenv` (`Handler::checkReadEnvVarArgs`, only with `hfEnvVarArgs`) reads the environment, which no
function of any closure writes (`setenv`, `putenv`, `unsetenv` are on the list and would alarm). -/
def allowedHiddenState : List String := ["getenv"]

/-- the generated footprint of call `a` is covered by the model's reading, for the least
permissive flags (an object named in the closure counts as touched whatever the flags):
* a row exists;
* every mutable static of the repository / every external object *used* in the closure is a cell
  the model gives the call with `mUsedByGroup = false`, own streams;
* a standard stream is only *bound* (constructor argument / default argument) in the closure of
  the constructor, and is a stream cell — that is the flag `stdStreams` of `Api.construct`;
* every function of the closure that is a caller of a singleton member (rows of
  `singletonCallers`, by simple name) reaches it only under guards under which the model says the
  call touches the singleton;
* no external callee with hidden static state except the accepted ones. -/
def footprintModelled (a : Api) : Bool :=
  match a.footprint with
  | none => false
  | some fp =>
    fp.statics.all (allowedStatic a false) && fp.usedExternals.all (allowedExt a false) &&
    fp.boundExternals.all (fun x => a.isConstruct && streamCells.contains (.ext x)) &&
    fp.singletonCallers.all (fun r => [false, true].all fun g =>
      !reaches g (foundGuards r.1 r.2) || a.touchesSingleton g) &&
    fp.hiddenStateCallees.all (fun n => allowedHiddenState.contains n)

/-- one representative per call (the table does not depend on the parameters) -/
def Api.rep : Api → Api
  | .construct .. => .construct false false
  | .addListArg _ => .addListArg 0
  | .evalUse .. => .evalUse 0 0
  | a => a

def apiReps : List Api :=
  [.construct false false, .addListArg 0, .addBracketHandler, .addSubGroupArg, .evalUse 0 0,
   .usage, .listArgGroups, .addStandardArgument, .evalArgumentString]

/-- **the obligation**: the generated footprint of every call is covered by the model's reading -/
def callFootprintsModelled : Bool := apiReps.all footprintModelled

/-! ### nested entry points (the closures are cut there)

The closure of a call stops at the entry points of the other calls (`nestedEntries`), so what a
*nested* entry reaches is not in the row of the call that nests it.  The obligation below closes
that cut for handlers outside a group: whatever a nested entry reaches of the singleton with
`mUsedByGroup = false`, the nesting call must be said to reach as well — except the pairs listed
in `nestedAccepted`, each with its reason. -/

/-- the calls whose C++ entry has the simple name `e` (the closure is by simple name) -/
def apisOfEntryName (e : String) : List Api :=
  apiReps.filter fun b => (b.footprint.map (·.entry)) == some e

/-- nested entries accepted although the nested call reaches the singleton and the nesting one is
not said to, (nesting call, nested entry): the `Handler` constructors name `usage` and
`listArgGroups` only to bind them as the callbacks of the help arguments (`-h`, `--help`,
`--list-arg-groups`; address taken, not called) — they run when such an argument is *used* during
`evalArguments`, and a thread that does so has `Api.usage` / `Api.listArgGroups` in its call list
(the harness' `help` workloads; `C09_usage_threads_conflict`). -/
def nestedAccepted : List (String × String) :=
  [("construct", "usage"), ("construct", "listArgGroups")]

/-- every entry point nested in the closure of `a` is known (some call has that entry), and on a
handler with `mUsedByGroup = false` reaches the singleton only if `a` itself is said to, or the
pair is accepted with a reason -/
def nestedModelled (a : Api) : Bool :=
  match a.footprint with
  | none => false
  | some fp => fp.nestedEntries.all fun e =>
      !(apisOfEntryName e).isEmpty &&
      (apisOfEntryName e).all fun b =>
        !b.touchesSingleton false || a.touchesSingleton false ||
        nestedAccepted.contains (a.apiName, e)

/-- **the obligation** for the nested entry points of all nine calls -/
def nestedEntriesModelled : Bool := apiReps.all nestedModelled

theorem rep_mem (a : Api) : a.rep ∈ apiReps := by
  cases a <;> simp [Api.rep, apiReps]

theorem rep_footprint (a : Api) : a.rep.footprint = a.footprint := by cases a <;> rfl

theorem rep_touches (g : Bool) (a : Api) : a.rep.touchesSingleton g = a.touchesSingleton g := by
  cases a <;> rfl

theorem footprintModelled_of (hf : callFootprintsModelled = true) (a : Api) :
    footprintModelled a.rep = true :=
  List.all_eq_true.mp hf _ (rep_mem a)

theorem all_false_nil {α : Type} (l : List α) (p : α → Bool) (hp : ∀ x, p x = false)
    (h : l.all p = true) : l = [] := by
  cases l with
  | nil => rfl
  | cons x xs => simp [List.all_cons, hp x] at h

/-- an access-only step (no value is changed: `assign` ignores missing values) -/
def touch (cells : List HCell) : List HCell × List HCell × (List HVal → List HVal) :=
  (cells, cells, fun _ => [])

/-- the steps of one call of thread `t`; `inGroup`, `stdStreams`: the handler's construction flags.
First line: the thread's own objects (hand-written); second: the singleton's cells, by the
regenerated call-site table; third: the stream cells; fourth: whatever else of process-wide state
the call closure names in the tree under check (regenerated `entryFootprints`; empty on a tree
whose footprints are the modelled ones). -/
def Api.steps (t : Nat) (inGroup stdStreams : Bool) (a : Api) :
    List (List HCell × List HCell × (List HVal → List HVal)) :=
  (match a with
    | .construct .. => [touch [.tmp t]]
    | .addListArg k => [touch [.tmp t, .sepv t k]]
    | .addBracketHandler => [touch [.tmp t]]
    | .addSubGroupArg => [touch [.tmp t]]
    | .evalUse k j => touch [.tmp t] :: assignFixed t k j
    | _ => [touch [.tmp t]])
  ++ (if a.touchesSingleton inGroup then [touch singletonCells] else [])
  ++ (if a.prints && stdStreams then [touch streamCells] else [])
  ++ (if a.generated.isEmpty then [] else [touch a.generated])

/-- the step list of a call sequence; a `construct` sets the flags for the calls that follow -/
def apiSteps (t : Nat) : Bool → Bool → List Api → List (List HCell × List HCell × (List HVal → List HVal))
  | _, _, [] => []
  | g, s, a :: rest =>
    match a with
    | .construct g' s' => a.steps t g' s' ++ apiSteps t g' s' rest
    | _ => a.steps t g s ++ apiSteps t g s rest

/-- the thread program derived from the calls (before any `construct`: no group, own streams) -/
def threadProg (t : Nat) (calls : List Api) : Prog HCell HVal := Prog.ofList (apiSteps t false false calls)

/-- the threads of the property's quantifier: plain handlers (no `hfInGroup`), no call that enters
the group singleton unconditionally -/
def Api.plain : Api → Bool
  | .construct inGroup _ => !inGroup
  | .usage | .listArgGroups | .addStandardArgument | .evalArgumentString => false
  | _ => true

def Plain (calls : List Api) : Bool := calls.all Api.plain

/-! ### plain threads are local (proved) -/

/-- in the model's reading a plain call on a handler with `mUsedByGroup = false` reaches nothing:
the two callers a plain thread enters are guarded by exactly that flag -/
theorem plain_not_touchesModel (a : Api) (h : a.plain = true) : a.touchesModel false = false := by
  cases a <;> first | rfl | (simp [Api.plain] at h) | decide

/-- … hence not in the tree under check either, **provided its call-site table is the modelled
one** (`hm` = `C09_singleton_callers_modelled`) -/
theorem plain_not_touches (hm : callersModelled = true) (a : Api) (h : a.plain = true) :
    a.touchesSingleton false = false := by
  cases ht : a.touchesSingleton false with
  | false => rfl
  | true =>
    have h2 := touches_le_model hm false a ht
    rw [plain_not_touchesModel a h] at h2
    cases h2

theorem plain_not_prints (a : Api) (h : a.plain = true) : a.prints = false := by
  cases a <;> first | rfl | (simp [Api.plain] at h)

/-- the call closure of a call that does not reach the singleton under `mUsedByGroup = false`
names no process-wide mutable object, **provided the generated footprints are the modelled ones**
(`hf` = `C09_call_footprints_modelled`): an object named there would have to be a singleton cell of
a call that reaches the singleton under `mUsedByGroup = false`, or a stream cell of a printing call
on a handler bound to the standard streams (the obligation is stated for own streams) -/
theorem generated_nil_of (hf : callFootprintsModelled = true) (a : Api)
    (ht : a.touchesSingleton false = false) : a.generated = [] := by
  have h1 := footprintModelled_of hf a
  unfold footprintModelled at h1
  rw [rep_footprint] at h1
  unfold Api.generated Api.genStatics Api.genExts
  cases hfp : a.footprint with
  | none => rfl
  | some fp =>
    rw [hfp] at h1
    simp only [Bool.and_eq_true] at h1
    have hs : fp.statics = [] := all_false_nil _ _ (fun e => by
      unfold allowedStatic; rw [rep_touches, ht]; rfl) h1.1.1.1.1
    have hx : fp.usedExternals = [] := all_false_nil _ _ (fun x => by
      unfold allowedExt; rw [Bool.and_false, Bool.false_and]) h1.1.1.1.2
    show fp.statics.map HCell.static ++ fp.usedExternals.map HCell.ext = []
    rw [hs, hx]; rfl

/-- … in particular a plain call (`hm` = `C09_singleton_callers_modelled`) -/
theorem plain_generated_nil (hm : callersModelled = true) (hf : callFootprintsModelled = true)
    (a : Api) (h : a.plain = true) : a.generated = [] :=
  generated_nil_of hf a (plain_not_touches hm a h)

/-- a step that reads and writes only cells of thread `i` -/
def OwnStep {n : Nat} (i : Fin n) (s : List HCell × List HCell × (List HVal → List HVal)) : Prop :=
  (∀ c ∈ s.1, Vis (handlerOwner n) i c) ∧ (∀ c ∈ s.2.1, handlerOwner n c = .thread i)

theorem ownStep_touch {n : Nat} (i : Fin n) (cells : List HCell)
    (h : ∀ c ∈ cells, handlerOwner n c = .thread i) : OwnStep i (touch cells) :=
  ⟨fun c hc => Or.inl (h c hc), h⟩

theorem own_tmp {n : Nat} (i : Fin n) : ∀ c ∈ [HCell.tmp i.val], handlerOwner n c = .thread i := by
  intro c hc
  rcases hc with _ | ⟨_, hc⟩
  · exact handlerOwner_tmp i
  · cases hc

theorem own_tmp_sepv {n : Nat} (i : Fin n) (k : Nat) :
    ∀ c ∈ [HCell.tmp i.val, HCell.sepv i.val k], handlerOwner n c = .thread i := by
  intro c hc
  rcases hc with _ | ⟨_, hc⟩
  · exact handlerOwner_tmp i
  · rcases hc with _ | ⟨_, hc⟩
    · exact handlerOwner_sepv i k
    · cases hc

theorem ownStep_assignFixed {n : Nat} (i : Fin n) (k j : Nat) : ∀ s ∈ assignFixed i.val k j, OwnStep i s := by
  intro s hs
  have h := go_fixed_local i [(k, [])] j s (by
    unfold Job.prog.go
    rw [if_pos rfl]
    unfold Job.prog.go
    rw [List.append_nil]
    exact hs)
  exact h

/-- the steps of a plain call on a plain handler touch only cells of the thread -/
theorem steps_own (hm : callersModelled = true) (hf : callFootprintsModelled = true) {n : Nat} (i : Fin n)
    (s : Bool) (a : Api) (h : a.plain = true) :
    ∀ st ∈ a.steps i.val false s, OwnStep i st := by
  intro st hst
  unfold Api.steps at hst
  rw [plain_not_touches hm a h, plain_not_prints a h, plain_generated_nil hm hf a h] at hst
  simp only [Bool.false_and, Bool.false_eq_true, if_false, List.append_nil, List.isEmpty_nil, if_true] at hst
  cases a with
  | construct g s' =>
    rcases hst with _ | ⟨_, hst⟩
    · exact ownStep_touch i _ (own_tmp i)
    · cases hst
  | addListArg k =>
    rcases hst with _ | ⟨_, hst⟩
    · exact ownStep_touch i _ (own_tmp_sepv i k)
    · cases hst
  | addBracketHandler =>
    rcases hst with _ | ⟨_, hst⟩
    · exact ownStep_touch i _ (own_tmp i)
    · cases hst
  | addSubGroupArg =>
    rcases hst with _ | ⟨_, hst⟩
    · exact ownStep_touch i _ (own_tmp i)
    · cases hst
  | evalUse k j =>
    rcases hst with _ | ⟨_, hst⟩
    · exact ownStep_touch i _ (own_tmp i)
    · exact ownStep_assignFixed i k j st hst
  | usage => simp [Api.plain] at h
  | listArgGroups => simp [Api.plain] at h
  | addStandardArgument => simp [Api.plain] at h
  | evalArgumentString => simp [Api.plain] at h

theorem apiSteps_own (hm : callersModelled = true) (hf : callFootprintsModelled = true) {n : Nat} (i : Fin n)
    (calls : List Api) :
    ∀ s, Plain calls = true → ∀ st ∈ apiSteps i.val false s calls, OwnStep i st := by
  induction calls with
  | nil => intro s _ st hst; cases hst
  | cons a rest ih =>
    intro s hp st hst
    have hp' : a.plain = true ∧ Plain rest = true := by
      simpa [Plain, List.all_cons] using hp
    cases a with
    | construct g s' =>
      have hg : g = false := by simpa [Api.plain] using hp'.1
      subst hg
      unfold apiSteps at hst
      rcases List.mem_append.mp hst with h1 | h2
      · exact steps_own hm hf i s' _ hp'.1 st h1
      · exact ih s' hp'.2 st h2
    | addListArg k =>
      unfold apiSteps at hst
      rcases List.mem_append.mp hst with h1 | h2
      · exact steps_own hm hf i s _ hp'.1 st h1
      · exact ih s hp'.2 st h2
    | addBracketHandler =>
      unfold apiSteps at hst
      rcases List.mem_append.mp hst with h1 | h2
      · exact steps_own hm hf i s _ hp'.1 st h1
      · exact ih s hp'.2 st h2
    | addSubGroupArg =>
      unfold apiSteps at hst
      rcases List.mem_append.mp hst with h1 | h2
      · exact steps_own hm hf i s _ hp'.1 st h1
      · exact ih s hp'.2 st h2
    | evalUse k j =>
      unfold apiSteps at hst
      rcases List.mem_append.mp hst with h1 | h2
      · exact steps_own hm hf i s _ hp'.1 st h1
      · exact ih s hp'.2 st h2
    | usage => simp [Api.plain] at hp'
    | listArgGroups => simp [Api.plain] at hp'
    | addStandardArgument => simp [Api.plain] at hp'
    | evalArgumentString => simp [Api.plain] at hp'

/-- **the footprint condition, proved**: the thread program derived from a plain call list reads
and writes only cells of its own thread -/
theorem threadProg_local (hm : callersModelled = true) (hf : callFootprintsModelled = true) {n : Nat} (i : Fin n)
    (calls : List Api) (h : Plain calls = true) : (threadProg i.val calls).Local (handlerOwner n) i :=
  ofList_local _ i _ (apiSteps_own hm hf i calls false h)

/-- `Plain` is sufficient, not necessary (audit 2, part D, probe (1)): a handler constructed with
`hfInGroup` on which no argument is added is not `Plain`, and its thread program is `Local` all the
same — no add-call reaches the cross check (and, `hf`, the closures of the constructor and of
`evalArguments` name no process-wide object in the tree under check). -/
theorem group_handler_without_add_local (hf : callFootprintsModelled = true) :
    Plain [.construct true true, .evalUse 0 0] = false ∧
    (threadProg 0 [.construct true true, .evalUse 0 0]).Local (handlerOwner 1) (0 : Fin 1) := by
  refine ⟨by decide, ?_⟩
  have g1 : (Api.construct true true).generated = [] := generated_nil_of hf _ rfl
  have g2 : (Api.evalUse 0 0).generated = [] := generated_nil_of hf _ rfl
  apply ofList_local
  intro s hs
  have : s ∈ (touch [HCell.tmp 0] :: touch [HCell.tmp 0] :: assignFixed 0 0 0) := by
    simpa [threadProg, apiSteps, Api.steps, Api.touchesSingleton, Api.entry, Api.prints, g1, g2] using hs
  rcases List.mem_cons.mp this with h | h
  · subst h; exact ownStep_touch (0 : Fin 1) _ (own_tmp (0 : Fin 1))
  · rcases List.mem_cons.mp h with h | h
    · subst h; exact ownStep_touch (0 : Fin 1) _ (own_tmp (0 : Fin 1))
    · exact ownStep_assignFixed (0 : Fin 1) 0 0 s h

/-! ### … and only they: a call that reaches the singleton breaks the condition -/

theorem ofList_footprint (l : List (List HCell × List HCell × (List HVal → List HVal)))
    (s : List HCell × List HCell × (List HVal → List HVal)) (hs : s ∈ l) (c : HCell) (hc : c ∈ s.2.1) :
    (Prog.ofList l : Prog HCell HVal).Footprint c true := by
  induction l with
  | nil => cases hs
  | cons x l ih =>
    obtain ⟨rs, ws, f⟩ := x
    rcases List.mem_cons.mp hs with h | h
    · subst h
      exact Prog.Footprint.write hc
    · exact Prog.Footprint.later [] (ih h)

/-- a local handler program never writes a process-wide cell -/
theorem local_no_static {n : Nat} (i : Fin n) (p : Prog HCell HVal) (hl : p.Local (handlerOwner n) i)
    (e : Nat) : ¬ p.Footprint (.static e) true := by
  intro hf
  have h := (footprint_of_local (handlerOwner n) i p hl _ _ hf).1 rfl
  simp [handlerOwner] at h

/-- the steps of every call of the list occur in the step list, under some flags -/
theorem mem_apiSteps (t : Nat) (a : Api) (calls : List Api) : ∀ g s, a ∈ calls →
    ∃ g' s', ∀ st ∈ a.steps t g' s', st ∈ apiSteps t g s calls := by
  induction calls with
  | nil => intro _ _ h; cases h
  | cons b rest ih =>
    intro g s h0
    rcases List.mem_cons.mp h0 with h | hr
    · subst h
      cases a with
      | construct g' s' =>
        exact ⟨g', s', fun st hst => by unfold apiSteps; exact List.mem_append_left _ hst⟩
      | addListArg k => exact ⟨g, s, fun st hst => by unfold apiSteps; exact List.mem_append_left _ hst⟩
      | addBracketHandler => exact ⟨g, s, fun st hst => by unfold apiSteps; exact List.mem_append_left _ hst⟩
      | addSubGroupArg => exact ⟨g, s, fun st hst => by unfold apiSteps; exact List.mem_append_left _ hst⟩
      | evalUse k j => exact ⟨g, s, fun st hst => by unfold apiSteps; exact List.mem_append_left _ hst⟩
      | usage => exact ⟨g, s, fun st hst => by unfold apiSteps; exact List.mem_append_left _ hst⟩
      | listArgGroups => exact ⟨g, s, fun st hst => by unfold apiSteps; exact List.mem_append_left _ hst⟩
      | addStandardArgument => exact ⟨g, s, fun st hst => by unfold apiSteps; exact List.mem_append_left _ hst⟩
      | evalArgumentString => exact ⟨g, s, fun st hst => by unfold apiSteps; exact List.mem_append_left _ hst⟩
    · cases b with
      | construct g' s' =>
        obtain ⟨g2, s2, h2⟩ := ih g' s' hr
        exact ⟨g2, s2, fun st hst => by unfold apiSteps; exact List.mem_append_right _ (h2 st hst)⟩
      | addListArg k =>
        obtain ⟨g2, s2, h2⟩ := ih g s hr
        exact ⟨g2, s2, fun st hst => by unfold apiSteps; exact List.mem_append_right _ (h2 st hst)⟩
      | addBracketHandler =>
        obtain ⟨g2, s2, h2⟩ := ih g s hr
        exact ⟨g2, s2, fun st hst => by unfold apiSteps; exact List.mem_append_right _ (h2 st hst)⟩
      | addSubGroupArg =>
        obtain ⟨g2, s2, h2⟩ := ih g s hr
        exact ⟨g2, s2, fun st hst => by unfold apiSteps; exact List.mem_append_right _ (h2 st hst)⟩
      | evalUse k j =>
        obtain ⟨g2, s2, h2⟩ := ih g s hr
        exact ⟨g2, s2, fun st hst => by unfold apiSteps; exact List.mem_append_right _ (h2 st hst)⟩
      | usage =>
        obtain ⟨g2, s2, h2⟩ := ih g s hr
        exact ⟨g2, s2, fun st hst => by unfold apiSteps; exact List.mem_append_right _ (h2 st hst)⟩
      | listArgGroups =>
        obtain ⟨g2, s2, h2⟩ := ih g s hr
        exact ⟨g2, s2, fun st hst => by unfold apiSteps; exact List.mem_append_right _ (h2 st hst)⟩
      | addStandardArgument =>
        obtain ⟨g2, s2, h2⟩ := ih g s hr
        exact ⟨g2, s2, fun st hst => by unfold apiSteps; exact List.mem_append_right _ (h2 st hst)⟩
      | evalArgumentString =>
        obtain ⟨g2, s2, h2⟩ := ih g s hr
        exact ⟨g2, s2, fun st hst => by unfold apiSteps; exact List.mem_append_right _ (h2 st hst)⟩

/-- a call that reaches the group singleton whatever the handler's flag (usage, list of groups,
standard arguments, argument string without handler: a call site outside every `if`) puts every
singleton cell of the inventory into the thread's write footprint -/
theorem threadProg_reaches (t : Nat) (calls : List Api) (a : Api) (ha : a ∈ calls)
    (hu : ∀ g, a.touchesSingleton g = true) :
    ∀ c ∈ singletonCells, (threadProg t calls).Footprint c true := by
  intro c hc
  obtain ⟨g, s, h⟩ := mem_apiSteps t a calls false false ha
  apply ofList_footprint _ (touch singletonCells) (h _ _) c hc
  unfold Api.steps
  rw [hu g, if_pos rfl]
  exact List.mem_append_left _ (List.mem_append_left _ (List.mem_append_right _ List.mem_cons_self))

/-- … hence such a thread does **not** satisfy the footprint condition (as long as the inventory
lists a singleton member at all) -/
theorem threadProg_not_local {n : Nat} (i : Fin n) (calls : List Api) (a : Api) (ha : a ∈ calls)
    (hu : ∀ g, a.touchesSingleton g = true) (hne : singletonCells ≠ []) :
    ¬ (threadProg i.val calls).Local (handlerOwner n) i := by
  intro hl
  cases hsc : singletonCells with
  | nil => exact hne hsc
  | cons c rest =>
    have hc : c ∈ singletonCells := by rw [hsc]; exact List.mem_cons_self
    have hf := threadProg_reaches i.val calls a ha hu c hc
    unfold singletonCells at hc
    obtain ⟨e, _, rfl⟩ := List.mem_map.mp hc
    exact local_no_static i _ hl e hf

/-! ### what the two hypotheses of `C09_handler_threads_isolated_partial` amount to

(found by the audit of 2026-09-30) -/

theorem own_of_local {n : Nat} (progs : Fin n → Prog HCell HVal) (hl : ∀ i, (progs i).Local (handlerOwner n) i) :
    ∀ (i : Fin n) c w, (progs i).Footprint c w → handlerOwner n c = .thread i := by
  intro i c w hf
  have h := footprint_of_local (handlerOwner n) i _ (hl i) c w hf
  cases w with
  | true => exact h.1 rfl
  | false =>
    cases h.2 rfl with
    | inl h => exact h
    | inr h =>
      exfalso
      cases c <;> simp [handlerOwner] at h <;> split at h <;> cases h

theorem cell_of_owner {n : Nat} (i : Fin n) (c : HCell) (ho : handlerOwner n c = .thread i) :
    (∃ k, c = .dest i.val k) ∨ (∃ k, c = .sepv i.val k) ∨ c = .tmp i.val ∨ (∃ j, c = .argv i.val j) := by
  cases c with
  | dest t k =>
    left; refine ⟨k, ?_⟩
    simp only [handlerOwner] at ho
    split at ho
    · have ht : t = i.val := congrArg Fin.val (Owner.thread.inj ho)
      rw [ht]
    · cases ho
  | sepv t k =>
    right; left; refine ⟨k, ?_⟩
    simp only [handlerOwner] at ho
    split at ho
    · have ht : t = i.val := congrArg Fin.val (Owner.thread.inj ho)
      rw [ht]
    · cases ho
  | tmp t =>
    right; right; left
    simp only [handlerOwner] at ho
    split at ho
    · have ht : t = i.val := congrArg Fin.val (Owner.thread.inj ho)
      rw [ht]
    · cases ho
  | argv t j =>
    right; right; right; refine ⟨j, ?_⟩
    simp only [handlerOwner] at ho
    split at ho
    · have ht : t = i.val := congrArg Fin.val (Owner.thread.inj ho)
      rw [ht]
    · cases ho
  | static e => simp [handlerOwner] at ho
  | ext x => simp [handlerOwner] at ho

/-- the footprint condition gives the closed world and every justification's assumption -/
theorem closedWorld_of_local {n : Nat} (progs : Fin n → Prog HCell HVal)
    (hl : ∀ i, (progs i).Local (handlerOwner n) i) :
    (∀ i, ClosedWorld i (progs i)) ∧ ∀ j : Justification, j.Holds progs := by
  have hfp := own_of_local progs hl
  constructor
  · intro i c w hf
    rcases cell_of_owner i c (hfp i c w hf) with h | h | h | h
    · exact Or.inl h
    · exact Or.inr (Or.inl h)
    · exact Or.inr (Or.inr (Or.inl h))
    · exact Or.inr (Or.inr (Or.inr (Or.inl h)))
  · intro j
    constructor
    · intro i e _ _ w hf
      have ho := hfp i _ w hf
      simp [handlerOwner] at ho
    · intro i x _ _ w hf
      have ho := hfp i _ w hf
      simp [handlerOwner] at ho

/-- With an inventory in which every entry is justified, "closed world + every justification's
assumption" is **equivalent** to the footprint condition: for arbitrary programs the two
hypotheses are the condition itself, split along the inventory. -/
theorem hyps_iff_local {n : Nat} (progs : Fin n → Prog HCell HVal)
    (hs : ∀ e ∈ mutableStatics, (justifyStatic e).isSome = true)
    (hx : ∀ x ∈ externalStatics, (justifyExternal x).isSome = true) :
    ((∀ i, ClosedWorld i (progs i)) ∧ ∀ j : Justification, j.Holds progs) ↔
    ∀ i, (progs i).Local (handlerOwner n) i :=
  ⟨fun h => local_of_closedWorld progs hs hx h.1 h.2, closedWorld_of_local progs⟩

end CelmaVerif.Interleave
