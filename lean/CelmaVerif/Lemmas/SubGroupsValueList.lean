import CelmaVerif.Lemmas.SubGroupsLookup
import CelmaVerif.Lemmas.Pairing
import CelmaVerif.Lemmas.SubGroupsExamples
/-
  Helper lemmas and the concrete tree for Props/C06s.lean: which destination a FREE value goes to
  after a sub-group argument (`mpLastArg = nullptr` at the end of the sub-group branch of
  `Handler::processArg`), after a plain key, and while a value list is running.
-/
namespace CelmaVerif.ProgArgs
open CelmaVerif CelmaVerif.Keys

/-- a value element with no last argument takes the positional branch of `evalSingleArgument` -/
theorem evalSingleArgument_value_none (c : Cfg) (h : HState) (av : It) (hv : av.cur.ty = .value)
    (hl : h.lastArg = none) :
    evalSingleArgument c h av =
      (do let found ← findArg c.abbr c.table Key.pos
          match found with
          | none => pure (h, av, .unknown)
          | some (i, d) => do
            let h' ← handleIdentifiedArg c h i d av.cur.val
            pure (h', av, .consumed)) := by
  unfold evalSingleArgument
  rw [hv]
  simp only [hl]
  rfl

/-- a value element when the last argument takes one value only: the positional branch -/
theorem evalSingleArgument_value_single (c : Cfg) (h : HState) (av : It) (hv : av.cur.ty = .value)
    (i : Nat) (d : ArgDef) (hl : h.lastArg = some i) (hd : c.args[i]? = some d) (hm : d.multi = false) :
    evalSingleArgument c h av =
      (do let found ← findArg c.abbr c.table Key.pos
          match found with
          | none => pure (h, av, .unknown)
          | some (i, d) => do
            let h' ← handleIdentifiedArg c h i d av.cur.val
            pure (h', av, .consumed)) := by
  unfold evalSingleArgument
  rw [hv]
  simp only [hl, hd, hm]
  rfl

/-- the sub-group branch of `processArgT` ends with `mpLastArg = nullptr` and answers `consumed` -/
theorem processArgT_sub_lastArg (cfg : TCfg) (t t' : TState) (key : Key) (ai ai' : It) (r : ArgResult)
    (j : Nat) (d : SubDef)
    (hs : findSub cfg.main.abbr cfg.subTable cfg.main.table key = .ok (some (j, d)))
    (hp : processArgT cfg t key ai = .ok (t', ai', r)) :
    t'.main.lastArg = none ∧ r = .consumed := by
  unfold processArgT at hp
  rw [hs] at hp
  simp only [Res.bind_ok] at hp
  cases h1 : handleIdentifiedSub cfg t j d with
  | throw e => rw [h1] at hp; cases hp
  | oob w => rw [h1] at hp; cases hp
  | ok t1 =>
    rw [h1] at hp
    simp only [Res.bind_ok] at hp
    cases h2 : ai.step with
    | throw e => rw [h2] at hp; cases hp
    | oob w => rw [h2] at hp; cases hp
    | ok s =>
      rw [h2] at hp
      simp only [Res.bind_ok] at hp
      cases h3 : subLoop d.sub (totalChars ai.argv) (t1.subs.getD j default) ai s with
      | throw e => rw [h3] at hp; cases hp
      | oob w => rw [h3] at hp; cases hp
      | ok x =>
        rw [h3] at hp
        simp only [Res.bind_ok, Res.pure_eq] at hp
        cases hp
        exact ⟨rfl, rfl⟩

/-- `processArgT` on a key that is no sub-group argument is `processArg` of the main handler -/
theorem processArgT_plain (cfg : TCfg) (t : TState) (key : Key) (ai : It)
    (hs : findSub cfg.main.abbr cfg.subTable cfg.main.table key = .ok none) :
    processArgT cfg t key ai = liftMain t (processArg cfg.main t.main key ai) := by
  unfold processArgT; rw [hs]; rfl

/-- `liftMain` answers `.ok` exactly when the main handler's result does -/
theorem liftMain_ok_eq {α : Type} {t t' : TState} {r : Res (HState × α)} {a : α}
    (h : liftMain t r = .ok (t', a)) : r = .ok (t'.main, a) ∧ t' = { t with main := t'.main } := by
  cases r with
  | ok x => obtain ⟨m, b⟩ := x; unfold liftMain at h; cases h; exact ⟨rfl, rfl⟩
  | throw e => cases h
  | oob w => cases h

/-- `processArg` on a key of the handler: that argument becomes the last argument -/
theorem processArg_found_lastArg (c : Cfg) (h h' : HState) (k : Key) (ai ai' : It) (r : ArgResult) (i : Nat)
    (d : ArgDef) (hf : findArg c.abbr c.table k = .ok (some (i, d)))
    (hp : processArg c h k ai = .ok (h', ai', r)) : h'.lastArg = some i ∧ r = .consumed := by
  rw [processArg_found_eq c h k ai i d hf] at hp
  cases hv : valueFor d ai with
  | throw e => rw [hv] at hp; cases hp
  | oob w => rw [hv] at hp; cases hp
  | ok x =>
    rw [hv] at hp
    simp only [Res.bind_ok] at hp
    cases hh : handleIdentifiedArg c { h with lastArg := some i } i d x.1 with
    | throw e => rw [hh] at hp; cases hp
    | oob w => rw [hh] at hp; cases hp
    | ok h1 =>
      rw [hh] at hp
      simp only [Res.bind_ok, Res.pure_eq] at hp
      cases hp
      exact ⟨(handleIdentifiedArg_frame hh).2.1, rfl⟩

/-- `assignValue` on argument `i` writes the state of argument `i` only -/
theorem assignValue_args_other {a a' : HState} {i : Nat} {d : ArgDef} {v : Word} {f : Bool}
    (h : assignValue a i d v f = .ok a') (k : Nat) (hk : k ≠ i) : a'.args[k]? = a.args[k]? := by
  unfold assignValue at h
  cases h1 : throwIf d.deprecated Exc.runtime_error with
  | throw e => rw [h1] at h; cases h
  | oob w => rw [h1] at h; cases h
  | ok _ =>
    rw [h1] at h
    simp only [Res.bind_ok] at h
    cases h2 : countValue a.fromSrc d.card (a.args.getD i default).cnt with
    | throw e => rw [h2] at h; cases h
    | oob w => rw [h2] at h; cases h
    | ok cnt =>
      rw [h2] at h
      simp only [Res.bind_ok] at h
      cases h3 : throwIf a.inverted Exc.runtime_error with
      | throw e => rw [h3] at h; cases h
      | oob w => rw [h3] at h; cases h
      | ok _ =>
        rw [h3] at h
        simp only [Res.bind_ok] at h
        cases h4 : assignDest d { (a.args.getD i default) with cnt := cnt } v with
        | throw e => rw [h4] at h; cases h
        | oob w => rw [h4] at h; cases h
        | ok st' =>
          rw [h4] at h
          simp only [Res.bind_ok, Res.pure_eq] at h
          cases h
          exact List.getElem?_set_ne (Ne.symm hk)

/-- `handleIdentifiedArg` on argument `i` writes the state of argument `i` only -/
theorem handleIdentifiedArg_args_other {c : Cfg} {a a' : HState} {i : Nat} {d : ArgDef} {v : Word}
    (h : handleIdentifiedArg c a i d v = .ok a') (k : Nat) (hk : k ≠ i) : a'.args[k]? = a.args[k]? := by
  unfold handleIdentifiedArg at h
  cases h1 : pendingIdentified d.key a.pending with
  | throw e => rw [h1] at h; cases h
  | oob w => rw [h1] at h; cases h
  | ok p =>
    rw [h1] at h
    simp only [Res.bind_ok] at h
    cases h2 : executeGlobals c.globals a.globals d.key with
    | throw e => rw [h2] at h; cases h
    | oob w => rw [h2] at h; cases h
    | ok g =>
      rw [h2] at h
      simp only [Res.bind_ok] at h
      cases h3 : assignValue { a with pending := p, globals := g } i d v true with
      | throw e => rw [h3] at h; cases h
      | oob w => rw [h3] at h; cases h
      | ok r =>
        rw [h3] at h
        simp only [Res.bind_ok, Res.pure_eq] at h
        cases h
        exact assignValue_args_other h3 k hk

/-! ## a concrete tree: multi-value `-v`, flag `-f`, (optionally) a positional list; sub-group `-g`
    whose handler has `-x` (int) and the flag `-q` -/

def vlSub : Cfg :=
  { args := [{ key := ⟨some 'x', []⟩, kind := .int, vmode := .required, card := .unlimited },
             { key := ⟨some 'q', []⟩, kind := .flag, vmode := .none, card := .unlimited }],
    abbr := true }

/-- `pos = true`: the main handler also has a positional argument (key "-") with a list destination -/
def vlMain (pos : Bool) : Cfg :=
  { args := [{ key := ⟨some 'v', []⟩, kind := .vecInt, vmode := .required, card := .unlimited, multi := true },
             { key := ⟨some 'f', []⟩, kind := .flag, vmode := .none, card := .unlimited }] ++
            (if pos then [{ key := Key.pos, kind := .vecInt, vmode := .required, card := .unlimited }] else []),
    abbr := true }

def vlCfg (pos : Bool) : TCfg :=
  { main := vlMain pos, subs := [{ key := ⟨some 'g', []⟩, sub := vlSub }] }

def vlInits : TInits := { main := [.vec [], .flag false, .vec []], subs := [[.int 0, .flag false]] }

/-- `evalArguments` of the tree on `prog ws…`, seen through `sgView` (main destinations, sub-group
    argument used, sub destinations) -/
def vlEval (pos : Bool) (ws : List String) : Res TState :=
  evalArgumentsT (vlCfg pos) ((vlCfg pos).initState vlInits) {} (sgArgv ws)

/-- the main handler alone (plain handler model) -/
def vlPlainEval (pos : Bool) (ws : List String) : Res HState :=
  evalArguments (vlMain pos) ((vlMain pos).initState vlInits.main) {} (sgArgv ws)

def vlPlainView (r : Res HState) : Option (List DVal) :=
  match r with
  | .ok h => some (h.args.map (·.dest))
  | _ => none

/-- one element of the plain handler from a state with the given last argument: destinations and
    last argument afterwards -/
def vlStepView (r : Res (HState × It × ArgResult)) : Option (List DVal × Option Nat × ArgResult) :=
  match r with
  | .ok (h, _, a) => some (h.args.map (·.dest), h.lastArg, a)
  | _ => none

/-- the initial state of the tree with `-v` (argument 0) marked as the main handler's last argument:
    the state in which `-g` is met in `-v 1 2 -g …` as far as `mpLastArg` is concerned -/
def vlStale (pos : Bool) : TState :=
  let t := (vlCfg pos).initState vlInits
  { t with main := { t.main with lastArg := some 0 } }

/-- one `processArg` of the tree: main destinations, main last argument, sub destinations, answer -/
def vlStepViewT (r : Res (TState × It × ArgResult)) :
    Option (List DVal × Option Nat × List (List DVal) × ArgResult) :=
  match r with
  | .ok (t, _, a) => some (t.main.args.map (·.dest), t.main.lastArg, t.subs.map (fun h => h.args.map (·.dest)), a)
  | _ => none

end CelmaVerif.ProgArgs
