import CelmaVerif.Lemmas.Int2StrApi
import CelmaVerif.Generated.Int2StrOk
/-
  The obligations of the regenerated tables (Generated/Int2StrOk.lean) assembled into the
  hypotheses of the generic theorems, for every width and both families.
-/
namespace CelmaVerif.Int2Str
open CelmaVerif

/-- the four widths of the property -/
def Width (n : Nat) : Prop := n = 8 ∨ n = 16 ∨ n = 32 ∨ n = 64

theorem plain8_fileOk : FileOk Gen.plain8 Gen.plain8Dispatch :=
  ⟨Gen.plain8_tree_ok, Gen.plain8_rows_ok, Gen.plain8_unsigned_ok, Gen.plain8_neg_callers_ok,
   Gen.plain8_negation_ok, Gen.plain8_dispatch_ok⟩
theorem plain16_fileOk : FileOk Gen.plain16 Gen.plain16Dispatch :=
  ⟨Gen.plain16_tree_ok, Gen.plain16_rows_ok, Gen.plain16_unsigned_ok, Gen.plain16_neg_callers_ok,
   Gen.plain16_negation_ok, Gen.plain16_dispatch_ok⟩
theorem plain32_fileOk : FileOk Gen.plain32 Gen.plain32Dispatch :=
  ⟨Gen.plain32_tree_ok, Gen.plain32_rows_ok, Gen.plain32_unsigned_ok, Gen.plain32_neg_callers_ok,
   Gen.plain32_negation_ok, Gen.plain32_dispatch_ok⟩
theorem plain64_fileOk : FileOk Gen.plain64 Gen.plain64Dispatch :=
  ⟨Gen.plain64_tree_ok, Gen.plain64_rows_ok, Gen.plain64_unsigned_ok, Gen.plain64_neg_callers_ok,
   Gen.plain64_negation_ok, Gen.plain64_dispatch_ok⟩
theorem grouped8_fileOk : FileOk Gen.grouped8 Gen.grouped8Dispatch :=
  ⟨Gen.grouped8_tree_ok, Gen.grouped8_rows_ok, Gen.grouped8_unsigned_ok, Gen.grouped8_neg_callers_ok,
   Gen.grouped8_negation_ok, Gen.grouped8_dispatch_ok⟩
theorem grouped16_fileOk : FileOk Gen.grouped16 Gen.grouped16Dispatch :=
  ⟨Gen.grouped16_tree_ok, Gen.grouped16_rows_ok, Gen.grouped16_unsigned_ok, Gen.grouped16_neg_callers_ok,
   Gen.grouped16_negation_ok, Gen.grouped16_dispatch_ok⟩
theorem grouped32_fileOk : FileOk Gen.grouped32 Gen.grouped32Dispatch :=
  ⟨Gen.grouped32_tree_ok, Gen.grouped32_rows_ok, Gen.grouped32_unsigned_ok, Gen.grouped32_neg_callers_ok,
   Gen.grouped32_negation_ok, Gen.grouped32_dispatch_ok⟩
theorem grouped64_fileOk : FileOk Gen.grouped64 Gen.grouped64Dispatch :=
  ⟨Gen.grouped64_tree_ok, Gen.grouped64_rows_ok, Gen.grouped64_unsigned_ok, Gen.grouped64_neg_callers_ok,
   Gen.grouped64_negation_ok, Gen.grouped64_dispatch_ok⟩

/-- for every width and family the library has a checked `.cpp`/`.hpp` pair of that width -/
theorem gen_file (grouped : Bool) (n : Nat) (hn : Width n) :
    ∃ f d, Gen.lib.file grouped n = some (f, d) ∧ f.bits = n ∧ f.grouped = grouped ∧ FileOk f d := by
  rcases hn with rfl | rfl | rfl | rfl <;> cases grouped
  · exact ⟨_, _, rfl, rfl, rfl, plain8_fileOk⟩
  · exact ⟨_, _, rfl, rfl, rfl, grouped8_fileOk⟩
  · exact ⟨_, _, rfl, rfl, rfl, plain16_fileOk⟩
  · exact ⟨_, _, rfl, rfl, rfl, grouped16_fileOk⟩
  · exact ⟨_, _, rfl, rfl, rfl, plain32_fileOk⟩
  · exact ⟨_, _, rfl, rfl, rfl, grouped32_fileOk⟩
  · exact ⟨_, _, rfl, rfl, rfl, plain64_fileOk⟩
  · exact ⟨_, _, rfl, rfl, rfl, grouped64_fileOk⟩

theorem gen_api (grouped : Bool) : apiOk (Gen.lib.api grouped) = true := by
  cases grouped
  · exact Gen.apiPlain_ok
  · exact Gen.apiGrouped_ok

/-- range of the signed type in the form used by the model -/
theorem two_eq_pow (b : Nat) : two b = (2 : Int) ^ b := by
  unfold two
  rw [Int.natCast_pow]
  rfl

/-- for the non-vacuity examples: the result is `ok` with exactly these bytes -/
def okWith : Res (List Byte) → List Byte → Bool
  | .ok t, u => t == u
  | _, _ => false

def okBuf : Res (List Byte × Int) → List Byte → Int → Bool
  | .ok (m, r), u, n => m == u && r == n
  | _, _, _ => false

end CelmaVerif.Int2Str
