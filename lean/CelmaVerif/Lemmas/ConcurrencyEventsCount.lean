import CelmaVerif.Lemmas.ConcurrencyLive
/-
  C20: "at most 7·n entries of any schedule change the state", as a theorem.  The event trace
  (`strace`, Model/Concurrency.lean) gets one event per schedule entry that is not a stutter step;
  a schedule entry emits no event exactly when it leaves the state unchanged, and the trace of
  every schedule has at most 7·n events (the distance to completion starts at 7·n and every event
  decreases it).
-/
namespace CelmaVerif.Concurrency

theorem sevent_none_step (cfg : Cfg) (n : Nat) (s : SState) (t : Nat) (h : sevent n s t = none) :
    sstep cfg n s t = s := by
  by_cases ht : t < n
  · by_cases hd : s.pc t = .done
    · simp [sstep, ht, hd]
    · cases hb : s.blocked t with
      | false => simp [sevent, ht, hd, hb] at h
      | true =>
        simp only [SState.blocked, Bool.and_eq_true, beq_iff_eq] at hb
        have hl : ¬ s.lock = none := by
          intro h'; rw [h'] at hb; simp at hb
        simp [sstep, ht, hb.1, hl]
  · exact sstep_ge cfg n s t ht

theorem sevent_some_lt (cfg : Cfg) (n : Nat) (s : SState) (t : Nat) (e : Ev) (h : sevent n s t = some e) :
    (sstep cfg n s t).measure n < s.measure n := by
  by_cases ht : t < n
  · by_cases hd : s.pc t = .done
    · simp [sevent, ht, hd] at h
    · cases hb : s.blocked t with
      | false => exact sstep_measure_lt cfg n s t ht hd hb
      | true => simp [sevent, ht, hd, hb] at h
  · simp [sevent, ht] at h

/-- a schedule entry emits no event iff it leaves the state unchanged -/
theorem sevent_none_iff (cfg : Cfg) (n : Nat) (s : SState) (t : Nat) :
    sevent n s t = none ↔ sstep cfg n s t = s := by
  constructor
  · exact sevent_none_step cfg n s t
  · intro h
    cases he : sevent n s t with
    | none => rfl
    | some e =>
      have := sevent_some_lt cfg n s t e he
      rw [h] at this
      exact absurd this (Nat.lt_irrefl _)

theorem stepTrace_length (cfg : Cfg) (n : Nat) (s : SState) (tr : List Ev) (t : Nat) :
    (stepTrace n s tr t).length + (sstep cfg n s t).measure n ≤ tr.length + s.measure n := by
  unfold stepTrace
  cases he : sevent n s t with
  | none => rw [sevent_none_step cfg n s t he]; exact Nat.le_refl _
  | some e =>
    have := sevent_some_lt cfg n s t e he
    simp only [List.length_append, List.length_cons, List.length_nil]
    omega

theorem trunFrom_length (cfg : Cfg) (n : Nat) (sched : List Nat) : ∀ s h tr,
    (trunFrom cfg n s h tr sched).2.2.length + (trunFrom cfg n s h tr sched).1.measure n ≤ tr.length + s.measure n := by
  induction sched with
  | nil => intro s h tr; exact Nat.le_refl _
  | cons t rest ih =>
    intro s h tr
    simp only [trunFrom]
    exact Nat.le_trans (ih _ _ _) (stepTrace_length cfg n s tr t)

/-- the event trace of every schedule has at most 7·n events -/
theorem strace_length_le (cfg : Cfg) (n : Nat) (sched : List Nat) : (strace cfg n sched).length ≤ 7 * n := by
  have h := trunFrom_length cfg n sched SState.init HB.init []
  rw [measure_init] at h
  simp only [List.length_nil, Nat.zero_add] at h
  unfold strace
  omega

/-- the trace only grows, by at most one event per schedule entry -/
theorem strace_snoc (cfg : Cfg) (n : Nat) (sched : List Nat) (t : Nat) : ∀ s h tr,
    (trunFrom cfg n s h tr (sched ++ [t])).2.2 =
      stepTrace n (trunFrom cfg n s h tr sched).1 (trunFrom cfg n s h tr sched).2.2 t := by
  induction sched with
  | nil => intro s h tr; rfl
  | cons u rest ih => intro s h tr; simp only [List.cons_append, trunFrom]; exact ih _ _ _

end CelmaVerif.Concurrency
