import CelmaVerif.Lemmas.LogInv
/-
  Helper lemmas for C14, part 5: what `checkSetFilter` does to the filter in effect for each
  filter type, under each duplicate policy.
-/
namespace CelmaVerif.Log
open CelmaVerif CelmaVerif.Generated.LogDefs

theorem Filter.hasType_iff (f : Filter) (t : FType) : f.hasType t = true ↔ f.ftype = .ok t := by
  cases f <;> cases t <;> simp [Filter.hasType, Filter.ftype]

theorem Filter.hasType_false_iff (f : Filter) (t : FType) : f.hasType t = false ↔ f.ftype ≠ .ok t := by
  cases f <;> cases t <;> simp [Filter.hasType, Filter.ftype]

theorem find?_first {α : Type} (P : α → Bool) (fs : List α) (j : Nat) (f : α)
    (h1 : fs[j]? = some f) (h2 : P f = true)
    (h3 : ∀ k g, k < j → fs[k]? = some g → P g = false) : fs.find? P = some f := by
  induction fs generalizing j with
  | nil => simp at h1
  | cons a as ih =>
    cases j with
    | zero =>
      simp only [List.getElem?_cons_zero, Option.some.injEq] at h1
      subst h1
      simp [h2]
    | succ j =>
      have ha : P a = false := h3 0 a (by omega) (by simp)
      rw [List.find?_cons, ha]
      exact ih j (by simpa using h1) (fun k g hk hg => h3 (k + 1) g (by omega) (by simpa using hg))

theorem find?_set_other {α : Type} (P : α → Bool) (fs : List α) (j : Nat) (f nf : α)
    (h1 : fs[j]? = some f) (h2 : P f = false) (h3 : P nf = false) :
    (fs.set j nf).find? P = fs.find? P := by
  induction fs generalizing j with
  | nil => simp at h1
  | cons a as ih =>
    cases j with
    | zero =>
      simp only [List.getElem?_cons_zero, Option.some.injEq] at h1
      subst h1
      simp [List.set, h2, h3]
    | succ j =>
      simp only [List.set, List.find?_cons]
      rw [ih j (by simpa using h1)]

theorem ftype_ne_of_ne {f : Filter} {t t' : FType} (h : f.ftype = .ok t) (hne : t' ≠ t) :
    f.hasType t' = false := by
  rw [Filter.hasType_false_iff, h]
  intro c
  cases c
  exact hne rfl

/-- no filter of type `t` yet: a successfully constructed filter is added and in effect; the
    filters of the other types are untouched; a throwing constructor changes nothing -/
theorem Filters.checkSet_fresh (F : Filters) (p : DuplicatePolicy) (t : FType) (mk : Res Filter)
    (hF : F.Inv) (hnone : F.setting t = none) :
    (∀ nf, mk = .ok nf → nf.ftype = .ok t →
      ∃ F', F.checkSet p t mk = .ok (F', none) ∧ F'.setting t = some nf ∧
        ∀ t', t' ≠ t → F'.setting t' = F.setting t') ∧
    (∀ e, mk = .throw e → F.checkSet p t mk = .ok (F, some e)) := by
  have hfind : findType t F.filters 0 = .ok none := by
    cases findType_spec t F.filters 0 hF.wf with
    | inl h => exact h.1
    | inr h =>
      obtain ⟨j, f, _, e2, e3, e4⟩ := h
      have := find?_first (fun f => f.hasType t) F.filters j f e2 ((Filter.hasType_iff f t).mpr e3)
        (fun k g hk hg => (Filter.hasType_false_iff g t).mpr (e4 k g hk hg))
      unfold Filters.setting at hnone
      rw [this] at hnone
      cases hnone
  constructor
  · intro nf hm ht
    unfold Filters.checkSet
    rw [hfind, hm]
    refine ⟨_, rfl, ?_, ?_⟩
    · unfold Filters.setting at hnone ⊢
      simp only [List.find?_append, hnone, Option.none_or, List.find?_cons,
        (Filter.hasType_iff nf t).mpr ht]
    · intro t' hne
      unfold Filters.setting
      simp only [List.find?_append, List.find?_cons, ftype_ne_of_ne ht hne, List.find?_nil,
        Option.or_none]
  · intro e hm
    unfold Filters.checkSet
    rw [hfind, hm]

/-- a filter `g` of type `t` exists: the policy decides -/
theorem Filters.checkSet_dup (F : Filters) (p : DuplicatePolicy) (t : FType) (mk : Res Filter)
    (g : Filter) (hF : F.Inv) (hsome : F.setting t = some g) :
    (acceptNew p = .keep →
      ∃ F', F.checkSet p t mk = .ok (F', none) ∧ F'.filters = F.filters) ∧
    (acceptNew p = .throws → F.checkSet p t mk = .ok (F, some .runtime_error)) ∧
    (acceptNew p = .replace → ∀ nf, mk = .ok nf → nf.ftype = .ok t →
      ∃ F', F.checkSet p t mk = .ok (F', none) ∧ F'.setting t = some nf ∧
        ∀ t', t' ≠ t → F'.setting t' = F.setting t') ∧
    (acceptNew p = .replace → ∀ e, mk = .throw e → F.checkSet p t mk = .ok (F, some e)) := by
  cases findType_spec t F.filters 0 hF.wf with
  | inl h =>
    have : F.setting t = none := by
      unfold Filters.setting
      rw [List.find?_eq_none]
      intro f hf
      simpa using (Filter.hasType_false_iff f t).mpr (h.2 f hf)
    rw [this] at hsome
    cases hsome
  | inr h =>
    obtain ⟨j, f, e1, e2, e3, e4⟩ := h
    simp only [Nat.zero_add] at e1
    have hjlt : j < F.filters.length := by
      rcases Nat.lt_or_ge j F.filters.length with h | h
      · exact h
      · rw [List.getElem?_eq_none h] at e2; cases e2
    refine ⟨?_, ?_, ?_, ?_⟩
    · intro hp
      unfold Filters.checkSet
      rw [e1]
      simp only [hp]
      refine ⟨_, rfl, ?_⟩
      split <;> rfl
    · intro hp
      unfold Filters.checkSet
      rw [e1]
      simp only [hp]
    · intro hp nf hm ht
      unfold Filters.checkSet
      rw [e1]
      simp only [hp, hm]
      refine ⟨_, rfl, ?_, ?_⟩
      · have : (F.filters.set j nf).find? (fun f => f.hasType t) = some nf := by
          apply find?_first _ _ j nf (by simp [hjlt]) ((Filter.hasType_iff nf t).mpr ht)
          intro k g' hk hg
          rw [List.getElem?_set_ne (by omega)] at hg
          exact (Filter.hasType_false_iff g' t).mpr (e4 k g' hk hg)
        unfold Filters.setting
        split <;> exact this
      · intro t' hne
        have : (F.filters.set j nf).find? (fun f => f.hasType t') = F.filters.find? (fun f => f.hasType t') :=
          find?_set_other _ _ j f nf e2 (ftype_ne_of_ne e3 hne) (ftype_ne_of_ne ht hne)
        unfold Filters.setting
        split <;> exact this
    · intro hp e hm
      unfold Filters.checkSet
      rw [e1]
      simp only [hp, hm, replace_is_safe]
      rfl

end CelmaVerif.Log
