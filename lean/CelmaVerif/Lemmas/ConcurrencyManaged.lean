import CelmaVerif.Model.Concurrency
/-
  Invariant of the ManagedThread model when the flag is constructed before the thread is started.
-/
namespace CelmaVerif.Concurrency

/-- the value of the flag is determined by the two program counters -/
def flagOf (p : PPc) (c : CPc) : Option Bool :=
  match p with
  | .begin | .atInit => none
  | .atStart => some false
  | .live | .joined =>
    match c with
    | .fBegin | .inF | .fEnd | .storeF => some true
    | _ => some false

def sampleOk (x : Sample) : Prop :=
  (x.win = .during → x.val = some true) ∧ (x.joined = true → x.val = some false ∧ x.win = .after) ∧
  x.val ≠ none

structure MInv (s : MState) : Prop where
  flag : s.flag = flagOf s.ppc s.cpc
  started : s.cpc ≠ .idle ↔ s.isLive = true
  joined : s.ppc = .joined → s.cpc = .done
  early : s.early = false
  samples : ∀ x ∈ s.samples, sampleOk x

theorem minv_init : MInv MState.init := by
  constructor <;> simp [MState.init, flagOf, MState.isLive]

theorem minv_parent (cfg : Cfg) (hf : cfg.flagFirst = true) (nobs : Nat) (s : MState) (h : MInv s) :
    MInv (mstep cfg nobs s 0) := by
  obtain ⟨h1, h2, h3, h4, h5⟩ := h
  obtain ⟨flag, ppc, cpc, early, samples⟩ := s
  simp only [MState.isLive] at h2
  simp only at h1 h3 h4 h5
  cases ppc <;> cases cpc <;>
    simp_all [mstep, flagOf] <;>
    (constructor <;> simp_all [flagOf, MState.isLive])

theorem minv_child (cfg : Cfg) (nobs : Nat) (s : MState) (h : MInv s) :
    MInv (mstep cfg nobs s 1) := by
  obtain ⟨h1, h2, h3, h4, h5⟩ := h
  obtain ⟨flag, ppc, cpc, early, samples⟩ := s
  simp only [MState.isLive] at h2
  simp only at h1 h3 h4 h5
  cases ppc <;> cases cpc <;>
    simp_all [mstep, flagOf] <;>
    (constructor <;> simp_all [flagOf, MState.isLive])

theorem minv_observer (cfg : Cfg) (nobs : Nat) (s : MState) (t : Nat) (h : MInv s) :
    MInv (mstep cfg nobs s (t + 2)) := by
  by_cases hc : t < nobs ∧ s.isLive = true
  · have e : mstep cfg nobs s (t + 2) =
        { s with samples := s.samples ++ [⟨t + 2, s.win, s.ppc == .joined, s.flag⟩] } := by
      simp [mstep, hc]
    rw [e]
    obtain ⟨h1, h2, h3, h4, h5⟩ := h
    refine ⟨h1, h2, h3, h4, ?_⟩
    intro x hx
    rcases List.mem_append.mp hx with hx | hx
    · exact h5 x hx
    · have hx' : x = ⟨t + 2, s.win, s.ppc == .joined, s.flag⟩ := by simpa using hx
      subst hx'
      have hl := hc.2
      obtain ⟨flag, ppc, cpc, early, samples⟩ := s
      simp only [MState.isLive] at hl h2
      simp only at h1 h3
      cases ppc <;> cases cpc <;> simp_all [sampleOk, MState.win, flagOf]
  · have e : mstep cfg nobs s (t + 2) = s := by simp [mstep, hc]
    rw [e]; exact h

theorem minv_step (cfg : Cfg) (hf : cfg.flagFirst = true) (nobs : Nat) (s : MState) (t : Nat) (h : MInv s) :
    MInv (mstep cfg nobs s t) := by
  match t with
  | 0 => exact minv_parent cfg hf nobs s h
  | 1 => exact minv_child cfg nobs s h
  | t + 2 => exact minv_observer cfg nobs s t h

theorem minv_runFrom (cfg : Cfg) (hf : cfg.flagFirst = true) (nobs : Nat) (sched : List Nat) :
    ∀ s, MInv s → MInv (mrunFrom cfg nobs s sched) := by
  induction sched with
  | nil => intro s h; exact h
  | cons t rest ih => intro s h; exact ih _ (minv_step cfg hf nobs s t h)

theorem minv_run (cfg : Cfg) (hf : cfg.flagFirst = true) (nobs : Nat) (sched : List Nat) :
    MInv (mrun cfg nobs sched) :=
  minv_runFrom cfg hf nobs sched _ minv_init

/-- with the flag first and atomic no state satisfying the invariant is racy -/
theorem mracy_of_inv (cfg : Cfg) (ha : cfg.flagAtomic = true) (nobs : Nat) (s : MState) (h : MInv s) :
    ¬ MRacy cfg nobs s := by
  rintro (⟨hp, hc⟩ | ⟨hna, _⟩)
  · have := h.started
    simp only [MState.isLive, hp] at this
    rcases hc with hc | hc <;> simp [hc] at this
  · rw [ha] at hna; cases hna

end CelmaVerif.Concurrency
