import CelmaVerif.Lemmas.GroupsPlain
import CelmaVerif.Lemmas.GroupsValueC
/-
  The evaluation loop and the end-of-evaluation checks: `Groups::evalArguments` over the views of a
  well-formed partition simulates `Handler::evalArguments` of the merged configuration.
-/
namespace CelmaVerif.ProgArgs
open CelmaVerif CelmaVerif.Keys

/-- outcome of the group loop relative to the loop of the merged handler -/
def LoopRel (cfg : Cfg) (vs : List View) : Res HState → Res (List (Cfg × HState)) → Prop
  | .ok H', g => ∃ ms', g = .ok ms' ∧ HInv cfg vs H' ∧ GRel cfg H' vs ms'
  | .throw e, g => ∃ e', g = .throw e' ∧ (e' = e ∨ (e = .invalid_argument ∧ e' = .runtime_error))
  | .oob _, g => ∃ w', g = .oob w'

theorem loop_sim {cfg : Cfg} {vs : List View} (wf : GroupWF cfg vs) (hne : vs ≠ []) (fuel : Nat) :
    ∀ (H : HState) (ms : List (Cfg × HState)) (ai : It), HInv cfg vs H → GRel cfg H vs ms → ai.Plain →
      LoopRel cfg vs (iterateLoop cfg fuel H ai) (groupsLoop fuel ms ai) := by
  induction fuel with
  | zero => intro H ms ai _ _ _; exact ⟨_, rfl⟩
  | succ fuel ih =>
    intro H ms ai hinv hrel hp
    unfold iterateLoop groupsLoop
    split
    · exact ⟨ms, rfl, hinv, hrel⟩
    · have hstep := group_step_sim wf hne hinv hrel ai hp.elem
      cases he : evalSingleArgument cfg H ai with
      | ok x =>
        obtain ⟨H', ai', r⟩ := x
        rw [he] at hstep
        simp only [Res.bind_ok]
        rcases hstep with ⟨rfl, ms', hg⟩ | ⟨rfl, ms', hg, hinv', hrel'⟩
        · rw [hg]
          exact ⟨_, rfl, Or.inr ⟨rfl, rfl⟩⟩
        · rw [hg]
          simp only [Res.bind_ok]
          have hp' := evalSingleArgument_plain hp he
          cases hs : ai'.step with
          | ok ai'' =>
            have : (ArgResult.consumed == ArgResult.unknown) = false := rfl
            simp only [this, Bool.false_eq_true, if_false, Res.bind_ok]
            exact ih H' ms' ai'' hinv' hrel' (plain_step hp' hs)
          | throw e => exact ⟨_, rfl, Or.inl rfl⟩
          | oob w => exact ⟨_, rfl⟩
      | throw e =>
        rw [he] at hstep
        have hg : offer (ai.cur.ty != .value) ms ai = .throw e := hstep
        rw [hg]
        exact ⟨_, rfl, Or.inl rfl⟩
      | oob w =>
        rw [he] at hstep
        have hg : offer (ai.cur.ty != .value) ms ai = .oob w := hstep
        rw [hg]
        exact ⟨_, rfl⟩

/-! ### the end-of-evaluation checks -/

theorem memberEndChecks_cases (c : Cfg) (h : HState) (hk : ∀ g ∈ c.globals, KindsOk c.args g) :
    memberEndChecks c h = .ok () ∨ memberEndChecks c h = .throw .runtime_error := by
  unfold memberEndChecks
  rw [checkMandatoryCardinality_eq, checkGlobals_eq]
  rcases checkAll_cases argEndCheck c.args (fun a _ => argEndCheck_cases a) h.args with h1 | h1 <;> rw [h1]
  · rcases pendingCheckRequired_cases h.pending with h2 | h2 <;> rw [h2]
    · exact checkAll_cases (GDef.endCheck c.args h.args) c.globals (fun g hg => endCheck_cases _ _ g (hk g hg)) h.globals
    · exact Or.inr rfl
  · exact Or.inr rfl

theorem groupsEndChecks_cases (ms : List (Cfg × HState)) (hk : ∀ m ∈ ms, ∀ g ∈ m.1.globals, KindsOk m.1.args g) :
    groupsEndChecks ms = .ok () ∨ groupsEndChecks ms = .throw .runtime_error := by
  induction ms with
  | nil => exact Or.inl rfl
  | cons m ms ih =>
    obtain ⟨c, h⟩ := m
    simp only [groupsEndChecks]
    rcases memberEndChecks_cases c h (hk (c, h) List.mem_cons_self) with h1 | h1 <;> rw [h1]
    · exact ih (fun m hm => hk m (List.mem_cons_of_mem _ hm))
    · exact Or.inr rfl

theorem kindsOk_cfg {cfg : Cfg} {vs : List View} (wf : GroupWF cfg vs) : ∀ g ∈ cfg.globals, KindsOk cfg.args g :=
  fun _ hg => kindsOk_of_valueArgs wf.disj wf.vargs hg

theorem kindsOk_view {cfg : Cfg} {vs : List View} (wf : GroupWF cfg vs) (v : View) :
    ∀ g ∈ (viewCfg cfg v).globals, KindsOk (viewCfg cfg v).args g := by
  intro g hg
  exact (kindsOk_cfg wf g (pick_sub hg)).mono (fun d hd => pick_sub hd)

/-- a member's handler constraints pass on the member's arguments exactly when they pass on the
    merged handler's -/
theorem member_globals_iff {cfg : Cfg} {vs : List View} (wf : GroupWF cfg vs) {H : HState} (hinv : HInv cfg vs H)
    {v : View} (hv : v ∈ vs) :
    checkAll (GDef.endCheck cfg.args H.args) (pick v.ig cfg.globals) (pick v.ig H.globals) = .ok () ↔
    checkAll (GDef.endCheck (pick v.ia cfg.args) (pick v.ia H.args)) (pick v.ig cfg.globals)
      (pick v.ig H.globals) = .ok () := by
  apply checkAll_ok_congr
  · intro g hg b
    exact endCheck_cases _ _ g (kindsOk_cfg wf g (pick_sub hg)) b
  · intro g hg b
    exact endCheck_cases _ _ g ((kindsOk_cfg wf g (pick_sub hg)).mono (fun d hd => pick_sub hd)) b
  · intro g hg b
    obtain ⟨gi, hgi, hgg⟩ := pick_mem hg
    exact group_endCheck_view wf.disj wf.vargs (wf.abound v hv) (wf.nodup v hv) hinv.alen (List.mem_of_getElem? hgg)
      (fun a ha db hdb => wf.w3 v hv gi hgi a ha g db hgg hdb) b

theorem pendingCheckRequired_ok_iff (p : List (Key × CType)) :
    pendingCheckRequired p = .ok () ↔ ∀ e ∈ p, e.2 ≠ .required := by
  unfold pendingCheckRequired
  rw [throwIf_eq_ok_g]
  constructor
  · intro h e he hr
    have : p.any (fun e => decide (e.2 = .required)) = true := List.any_eq_true.mpr ⟨e, he, by simp [hr]⟩
    rw [h] at this
    cases this
  · intro h
    cases hany : p.any (fun e => decide (e.2 = .required)) with
    | false => rfl
    | true =>
      obtain ⟨e, he, hr⟩ := List.any_eq_true.mp hany
      exact absurd (by simpa using hr) (h e he)

/-- the merged handler passes its end checks exactly when every member passes its own -/
theorem end_sim {cfg : Cfg} {vs : List View} (wf : GroupWF cfg vs) {H : HState} (hinv : HInv cfg vs H)
    {ms : List (Cfg × HState)} (hrel : GRel cfg H vs ms) :
    memberEndChecks cfg H = .ok () ↔ groupsEndChecks ms = .ok () := by
  rw [groupsEndChecks_ok_iff, memberEndChecks_ok_iff]
  have hargs := checkAll_views argEndCheck cfg.args (fun a _ => argEndCheck_cases a) H.args hinv.alen.symm (vs.map View.ia)
    (by
      intro ia hia
      obtain ⟨v, hv, rfl⟩ := List.mem_map.mp hia
      exact wf.abound v hv)
    (by
      intro i hi
      obtain ⟨v, hv, hiv⟩ := wf.acover i hi
      exact ⟨v.ia, List.mem_map.mpr ⟨v, hv, rfl⟩, hiv⟩)
  have hglob := checkAll_views (GDef.endCheck cfg.args H.args) cfg.globals
    (fun g hg => endCheck_cases _ _ g (kindsOk_cfg wf g hg)) H.globals hinv.glen.symm (vs.map View.ig)
    (by
      intro ig hig
      obtain ⟨v, hv, rfl⟩ := List.mem_map.mp hig
      exact wf.gbound v hv)
    (by
      intro i hi
      obtain ⟨v, hv, hiv⟩ := wf.gcover i hi
      exact ⟨v.ig, List.mem_map.mpr ⟨v, hv, rfl⟩, hiv⟩)
  rw [checkMandatoryCardinality_eq, checkGlobals_eq, hargs, hglob]
  constructor
  · rintro ⟨h1, h2, h3⟩ m hm
    obtain ⟨v, hv, hmv, hmr⟩ := GRel_mem hrel m hm
    rw [memberEndChecks_ok_iff, checkMandatoryCardinality_eq, checkGlobals_eq, hmv, hmr.args, hmr.globals, hmr.pending]
    refine ⟨h1 v.ia (List.mem_map.mpr ⟨v, hv, rfl⟩), ?_,
      (member_globals_iff wf hinv hv).mp (h3 v.ig (List.mem_map.mpr ⟨v, hv, rfl⟩))⟩
    rw [pendingCheckRequired_ok_iff] at h2 ⊢
    exact fun e he => h2 e (mem_pfilter.mp he).1
  · intro h
    have hm : ∀ v ∈ vs, checkAll argEndCheck (pick v.ia cfg.args) (pick v.ia H.args) = .ok () ∧
        pendingCheckRequired (pfilter (ownsKey cfg v) H.pending) = .ok () ∧
        checkAll (GDef.endCheck cfg.args H.args) (pick v.ig cfg.globals) (pick v.ig H.globals) = .ok () := by
      intro v hv
      obtain ⟨m, hm, hmv, hmr⟩ := GRel_mem' hrel v hv
      have := h m hm
      rw [memberEndChecks_ok_iff, checkMandatoryCardinality_eq, checkGlobals_eq, hmv, hmr.args, hmr.globals,
        hmr.pending] at this
      exact ⟨this.1, this.2.1, (member_globals_iff wf hinv hv).mpr this.2.2⟩
    refine ⟨?_, ?_, ?_⟩
    · intro ia hia
      obtain ⟨v, hv, rfl⟩ := List.mem_map.mp hia
      exact (hm v hv).1
    · rw [pendingCheckRequired_ok_iff]
      intro e he
      obtain ⟨v, hv, hown⟩ := hinv.pend e he
      exact (pendingCheckRequired_ok_iff _).mp (hm v hv).2.1 e (mem_pfilter.mpr ⟨he, hown⟩)
    · intro ig hig
      obtain ⟨v, hv, rfl⟩ := List.mem_map.mp hig
      exact (hm v hv).2.2

/-! ### the whole evaluation -/

/-- outcome of `Groups::evalArguments` relative to `Handler::evalArguments` of the merged handler:
    both accept, and the members' states are the views of the merged handler's final state (`H` is
    the state before `evalArguments` forgets the last argument); or both reject, with the same
    exception class except for the unknown argument -/
def EvalRel (cfg : Cfg) (vs : List View) : Res HState → Res (List (Cfg × HState)) → Prop
  | .ok H', g => ∃ ms' H, g = .ok ms' ∧ H' = { H with lastArg := none } ∧ HInv cfg vs H ∧ GRel cfg H vs ms'
  | .throw e, g => ∃ e', g = .throw e' ∧ (e' = e ∨ (e = .invalid_argument ∧ e' = .runtime_error))
  | .oob _, g => ∃ w', g = .oob w'

theorem eval_sim {cfg : Cfg} {vs : List View} (wf : GroupWF cfg vs) (hne : vs ≠ []) (H0 : HState)
    (ms0 : List (Cfg × HState)) (hinv0 : HInv cfg vs H0) (hrel0 : GRel cfg H0 vs ms0) (argv : List Word)
    (ha : ArgvPlain argv) :
    EvalRel cfg vs (iterateArguments cfg H0 argv >>= endChecks cfg)
      (It.begin argv >>= fun ai => groupsLoop (totalChars argv) ms0 ai >>= fun ms' =>
        groupsEndChecks ms' >>= fun _ => pure ms') := by
  unfold iterateArguments
  cases hb : It.begin argv with
  | ok ai =>
    simp only [Res.bind_ok]
    have hl := loop_sim wf hne (totalChars argv) H0 ms0 ai hinv0 hrel0 (begin_plain ha hb)
    cases hi : iterateLoop cfg (totalChars argv) H0 ai with
    | ok H =>
      rw [hi] at hl
      obtain ⟨ms', hg, hinv, hrel⟩ := hl
      rw [hg]
      simp only [Res.bind_ok, endChecks_eq]
      have hend := end_sim wf hinv hrel
      rcases memberEndChecks_cases cfg H (kindsOk_cfg wf) with h1 | h1
      · rw [h1, hend.mp h1]
        exact ⟨ms', H, rfl, rfl, hinv, hrel⟩
      · rcases groupsEndChecks_cases ms' (by
            intro m hm
            obtain ⟨v, _, hmv, _⟩ := GRel_mem hrel m hm
            rw [hmv]; exact kindsOk_view wf v) with h2 | h2
        · rw [hend.mpr h2] at h1; cases h1
        · rw [h1, h2]
          exact ⟨_, rfl, Or.inl rfl⟩
    | throw e =>
      rw [hi] at hl
      obtain ⟨e', hg, hee⟩ := hl
      rw [hg]
      exact ⟨e', rfl, hee⟩
    | oob w =>
      rw [hi] at hl
      obtain ⟨w', hg⟩ := hl
      rw [hg]
      exact ⟨w', rfl⟩
  | throw e => exact ⟨e, rfl, Or.inl rfl⟩
  | oob w => exact ⟨w, rfl⟩

end CelmaVerif.ProgArgs
