import CelmaVerif.Lemmas.LogInv
/-
  Helper lemmas for C14, part 6: parsing of class names and class lists.
-/
namespace CelmaVerif.Log
open CelmaVerif CelmaVerif.Generated.LogDefs

/-! ### obligations on the regenerated tables -/

theorem text2Class_nocase : text2ClassNoCase = true := by decide
theorem text2Class_fallback : text2ClassFallback = 0 := by decide
theorem classRejected_eq : classRejected = some 0 := by decide
theorem classEmptyRejected_eq : classEmptyRejected = true := by decide
theorem classSeparator_eq : classListSeparator = ',' := by decide

/-- the loop of `text2logClass` visits every enumerator, the last one included -/
theorem text2Class_indices : loopIndices text2ClassFrom text2ClassOp text2ClassBound = List.range numClasses := by
  decide

/-- every class other than `undefined` is found under its own display text: the texts are
    pairwise different ignoring case, and none of them equals the text of `undefined` -/
theorem text2logClass_own_text : ∀ c, c < numClasses → 1 ≤ c → text2logClass (logClass2text c) = c := by
  decide

/-- the display texts contain neither the list separator nor NUL, and are not empty -/
theorem classTexts_clean : ∀ c, c < numClasses →
    ',' ∉ lowerAscii (logClass2text c) ∧ Char.ofNat 0 ∉ lowerAscii (logClass2text c) ∧
    logClass2text c ≠ [] := by
  decide

/-! ### single names -/

theorem text2logClass_congr (s s' : List Char) (h : lowerAscii s = lowerAscii s') :
    text2logClass s = text2logClass s' := by
  unfold text2logClass sameText
  simp only [text2Class_nocase, if_true, h]

/-- a name that is, ignoring case, the display text of class `c` selects `c` -/
theorem text2logClass_complete (c : Nat) (s : List Char) (h1 : 1 ≤ c) (h2 : c < numClasses)
    (hs : lowerAscii s = lowerAscii (logClass2text c)) : text2logClass s = c := by
  rw [text2logClass_congr s _ hs]
  exact text2logClass_own_text c h2 h1

/-- whatever is returned other than `undefined` is a class whose display text is the name,
    ignoring case -/
theorem text2logClass_sound (s : List Char) (c : Nat) (h : text2logClass s = c) (hc : c ≠ 0) :
    c < numClasses ∧ lowerAscii (logClass2text c) = lowerAscii s := by
  unfold text2logClass at h
  rw [text2Class_indices] at h
  cases hf : (List.range numClasses).find? (fun i => sameText text2ClassNoCase (logClass2text i) s) with
  | none =>
    rw [hf] at h
    simp only [text2Class_fallback] at h
    exact absurd h.symm hc
  | some i =>
    rw [hf] at h
    simp only at h
    subst h
    have hm := List.mem_of_find?_eq_some hf
    have hp := List.find?_some hf
    refine ⟨by simpa using hm, ?_⟩
    unfold sameText at hp
    simpa [text2Class_nocase] using hp

theorem text2logClass_lt (s : List Char) : text2logClass s < numClasses := by
  by_cases h : text2logClass s = 0
  · rw [h]; decide
  · exact (text2logClass_sound s _ rfl h).1

/-! ### the loop over the tokens -/

theorem getD_set_true (bits : List Bool) (c k : Nat) (hc : c < bits.length) :
    (bits.set c true).getD k false = (bits.getD k false || decide (k = c)) := by
  simp only [List.getD_eq_getElem?_getD]
  by_cases h : c = k
  · subst h
    simp [hc]
  · rw [List.getElem?_set_ne h]
    have : decide (k = c) = false := by simp; omega
    simp [this]

theorem any_set_true (bits : List Bool) (c : Nat) (hc : c < bits.length) :
    (bits.set c true).any id = true := by
  rw [List.any_eq_true]
  have hlen : c < (bits.set c true).length := by simpa using hc
  exact ⟨true, List.mem_iff_getElem.mpr ⟨c, hlen, by simp⟩, rfl⟩

/-- all tokens name classes: the selection is the given bits plus exactly the named classes -/
theorem classesFromTokens_success (ts : List (List Char)) (bits : List Bool)
    (hlen : bits.length = classBitsetSize)
    (hall : ∀ t ∈ ts, text2logClass (cstr t) ≠ 0)
    (hne : ts ≠ [] ∨ bits.any id = true) :
    ∃ r, classesFromTokens ts bits = .ok r ∧
      ∀ k, r.getD k false = (bits.getD k false || decide (k ∈ ts.map (fun t => text2logClass (cstr t)))) := by
  induction ts generalizing bits with
  | nil =>
    have hany : bits.any id = true := by
      cases hne with
      | inl h => exact absurd rfl h
      | inr h => exact h
    refine ⟨bits, ?_, by simp⟩
    unfold classesFromTokens
    have : bits.all (fun b => !b) = false := by
      rw [List.any_eq_true] at hany
      obtain ⟨x, hx, hxt⟩ := hany
      rw [List.all_eq_false]
      exact ⟨x, hx, by simp at hxt; simp [hxt]⟩
    simp [this]
  | cons t ts ih =>
    have hc0 : text2logClass (cstr t) ≠ 0 := hall t (by simp)
    have hclt : text2logClass (cstr t) < bits.length := by
      have := text2logClass_lt (cstr t)
      have := bitset_covers_classes
      omega
    unfold classesFromTokens
    simp only
    have hrej : (classRejected == some (text2logClass (cstr t))) = false := by
      rw [classRejected_eq]
      simp
      exact fun h => hc0 h.symm
    rw [hrej]
    simp only [Bool.false_eq_true, if_false, bitsetSet, if_pos hclt]
    obtain ⟨r, hr, hk⟩ := ih (bits.set (text2logClass (cstr t)) true) (by simpa using hlen)
      (fun x hx => hall x (by simp [hx])) (.inr (any_set_true _ _ hclt))
    refine ⟨r, hr, ?_⟩
    intro k
    rw [hk k, getD_set_true _ _ _ hclt]
    simp only [List.map_cons, List.mem_cons]
    cases bits.getD k false <;> simp

/-- one token does not name a class: the constructor throws -/
theorem classesFromTokens_failure (ts : List (List Char)) (bits : List Bool)
    (hlen : bits.length = classBitsetSize)
    (hbad : ∃ t ∈ ts, text2logClass (cstr t) = 0) :
    classesFromTokens ts bits = .throw .runtime_error := by
  induction ts generalizing bits with
  | nil => obtain ⟨t, ht, _⟩ := hbad; simp at ht
  | cons t ts ih =>
    unfold classesFromTokens
    simp only
    by_cases hc0 : text2logClass (cstr t) = 0
    · have : (classRejected == some (text2logClass (cstr t))) = true := by
        rw [classRejected_eq, hc0]; rfl
      rw [if_pos this]
    · have hrej : (classRejected == some (text2logClass (cstr t))) = false := by
        rw [classRejected_eq]
        simp
        exact fun h => hc0 h.symm
      have hclt : text2logClass (cstr t) < bits.length := by
        have := text2logClass_lt (cstr t)
        have := bitset_covers_classes
        omega
      rw [hrej]
      simp only [Bool.false_eq_true, if_false, bitsetSet, if_pos hclt]
      apply ih _ (by simpa using hlen)
      obtain ⟨x, hx, hx0⟩ := hbad
      simp only [List.mem_cons] at hx
      cases hx with
      | inl h => subst h; exact absurd hx0 hc0
      | inr h => exact ⟨x, h, hx0⟩

theorem classesFromTokens_empty (n : Nat) :
    classesFromTokens [] (List.replicate n false) = .throw .runtime_error := by
  unfold classesFromTokens
  simp [classEmptyRejected_eq]

/-! ### the tokenizer -/

/-- tokens joined by single separators -/
def joinSep (sep : Char) : List (List Char) → List Char
  | [] => []
  | [t] => t
  | t :: ts => t ++ sep :: joinSep sep ts

theorem splitAux_token (sep : Char) (t rest cur : List Char) (ht : sep ∉ t) :
    splitAux sep (t ++ rest) cur = splitAux sep rest (t.reverse ++ cur) := by
  induction t generalizing cur with
  | nil => simp
  | cons c cs ih =>
    have hc : (c == sep) = false := by
      simp only [List.mem_cons, not_or] at ht
      simp
      exact fun h => ht.1 h.symm
    simp only [List.cons_append, splitAux, hc, Bool.false_eq_true, if_false]
    rw [ih _ (by simp only [List.mem_cons, not_or] at ht; exact ht.2)]
    simp

/-- separator-free, non-empty tokens joined by the separator are recovered exactly -/
theorem tokenize_joinSep (sep : Char) (ts : List (List Char))
    (h : ∀ t ∈ ts, t ≠ [] ∧ sep ∉ t) : tokenize sep (joinSep sep ts) = ts := by
  unfold tokenize
  induction ts with
  | nil => simp [joinSep, splitAux]
  | cons t ts ih =>
    obtain ⟨hne, hsep⟩ := h t (by simp)
    have hrev : t.reverse.isEmpty = false := by
      cases t with
      | nil => exact absurd rfl hne
      | cons a as => simp
    cases ts with
    | nil =>
      simp only [joinSep]
      have := splitAux_token sep t [] [] hsep
      simp only [List.append_nil] at this
      rw [this]
      simp [splitAux, hrev]
    | cons u us =>
      simp only [joinSep]
      rw [splitAux_token sep t _ [] hsep]
      simp only [List.append_nil, splitAux, beq_self_eq_true, if_true, hrev, Bool.false_eq_true,
        if_false, List.reverse_reverse]
      have := ih (fun x hx => h x (by simp [hx]))
      rw [this]

/-! ### spellings -/

theorem takeWhile_all {α : Type} (p : α → Bool) (l : List α) (h : ∀ x ∈ l, p x = true) :
    l.takeWhile p = l := by
  induction l with
  | nil => rfl
  | cons a as ih =>
    rw [List.takeWhile_cons, h a (by simp), if_pos rfl, ih (fun x hx => h x (by simp [hx]))]

theorem toLower_eq_of_nonletter (c : Char) (h : ¬ (c.val ≥ 65 ∧ c.val ≤ 90)) : c.toLower = c := by
  unfold Char.toLower
  split
  · rename_i h'; exact absurd h' h
  · rfl

theorem mem_lowerAscii_of_mem_fixed (s : List Char) (c : Char) (hfix : c.toLower = c) (h : c ∈ s) :
    c ∈ lowerAscii s := by
  unfold lowerAscii
  rw [List.mem_map]
  exact ⟨c, h, hfix⟩

/-- a spelling of a class text (same text ignoring case) is a clean token -/
theorem spelling_clean (c : Nat) (s : List Char) (hc : c < numClasses)
    (hs : lowerAscii s = lowerAscii (logClass2text c)) :
    s ≠ [] ∧ ',' ∉ s ∧ cstr s = s := by
  obtain ⟨h1, h2, h3⟩ := classTexts_clean c hc
  refine ⟨?_, ?_, ?_⟩
  · intro h
    subst h
    have : (lowerAscii (logClass2text c)).length = 0 := by rw [← hs]; rfl
    unfold lowerAscii at this
    rw [List.length_map] at this
    exact h3 (List.eq_nil_of_length_eq_zero this)
  · intro h
    exact h1 (hs ▸ mem_lowerAscii_of_mem_fixed s ',' (by decide) h)
  · unfold cstr
    apply takeWhile_all
    intro x hx
    simp only [bne_iff_ne, ne_eq]
    intro hx0
    subst hx0
    exact h2 (hs ▸ mem_lowerAscii_of_mem_fixed s (Char.ofNat 0) (by decide) hx)

end CelmaVerif.Log
