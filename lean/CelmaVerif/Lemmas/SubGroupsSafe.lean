import CelmaVerif.Lemmas.HandlerSafe
import CelmaVerif.Model.ProgArgs.SubGroups
/-
  Memory safety and termination of the handler model WITH sub-group arguments: the sub-group branch
  of `processArg` (the copy `subAI` of the cursor, its `++`, the sub handler's loop, `ai = subAI++`)
  never reads outside argv, never exhausts its bound, and hands back a valid cursor that is not
  the end iterator; so `evalArgumentsT` and `groupsEvalT` are `Safe` for every argv.
-/
namespace CelmaVerif.ProgArgs
open CelmaVerif CelmaVerif.Keys

theorem findSub_safe {α β : Type} (abbr : Bool) (subT : List (Key × α)) (plainT : List (Key × β)) (k : Key) :
    Safe (findSub abbr subT plainT k) := by
  unfold findSub
  split
  · trivial
  · split
    · trivial
    · apply Safe.bind (findArg_safe _ _ _); intro s _
      cases s with
      | none => trivial
      | some r =>
        dsimp only
        apply Safe.bind (findArg_safe _ _ _); intro p _
        cases p with
        | none => trivial
        | some _ => exact safe_rt

theorem handleIdentifiedSub_safe (cfg : TCfg) (t : TState) (j : Nat) (d : SubDef) :
    Safe (handleIdentifiedSub cfg t j d) := by
  unfold handleIdentifiedSub
  apply Safe.bind (pendingIdentified_safe _ _); intro _ _
  apply Safe.bind (executeGlobals_safe _ _ _); intro _ _
  apply Safe.bind (throwIf_safe _ _ se_rt); intro _ _
  apply Safe.bind (countValue_safe _ _ _); intro _ _
  apply Safe.bind (throwIf_safe _ _ se_rt); intro _ _
  trivial

/-- post-condition of the sub handler's loop with respect to the cursor `ai0` the main handler
    passed to `processArg`: the cursor handed back is valid, over the same argv, not before `ai0`,
    and not the end iterator -/
def SubPost (ai0 : It) (r : Res (HState × It)) : Prop :=
  match r with
  | .ok (_, ai') => ai'.Inv ∧ ai'.argv = ai0.argv ∧ ai'.measure ≤ ai0.measure ∧ ai'.argIndex ≤ ai'.argv.length
  | .throw e => stdExc e
  | .oob _ => False

theorem subLoop_safe (sc : Cfg) (ai0 : It) (fuel : Nat) : ∀ (sh : HState) (ai subAI : It),
    ai.Inv → ai.argv = ai0.argv → ai.measure ≤ ai0.measure → ai.argIndex ≤ ai.argv.length →
    subAI.Inv → subAI.argv = ai0.argv → subAI.measure ≤ ai0.measure → subAI.measure < fuel →
    SubPost ai0 (subLoop sc fuel sh ai subAI) := by
  induction fuel with
  | zero => intro sh ai subAI _ _ _ _ _ _ _ hm; omega
  | succ fuel ih =>
    intro sh ai subAI hI hv hm hle sI sv sm sf
    unfold subLoop
    split
    · exact ⟨hI, hv, hm, hle⟩
    · rename_i hne
      have hae : subAI.atEnd = false := by
        cases hh : subAI.atEnd with
        | false => rfl
        | true => exact absurd hh hne
      have sle := notAtEnd_le sI hae
      have hs := evalSingleArgument_safe sc sh subAI sI sle
      cases he : evalSingleArgument sc sh subAI with
      | ok p =>
        obtain ⟨sh', subAI', r⟩ := p
        rw [he] at hs
        obtain ⟨hI', hv', hm', hle'⟩ := hs
        simp only [Res.bind_ok]
        split
        · have hg := step_good subAI' hI' hle'
          cases hst : subAI'.step with
          | ok next =>
            rw [hst] at hg
            simp only [Res.bind_ok]
            exact ih sh' subAI' next hI' (hv'.trans sv) (Nat.le_trans hm' sm) hle' hg.1 (hg.2.1.trans (hv'.trans sv))
              (by have := hg.2.2; omega) (by have := hg.2.2; omega)
          | throw e => rw [hst] at hg; cases hg; exact se_rt
          | oob w => rw [hst] at hg; exact hg.elim
        · exact ⟨hI, hv, hm, hle⟩
      | throw e => rw [he] at hs; exact hs
      | oob w => rw [he] at hs; exact hs.elim

/-- `SafeIt` for the functions over the tree state -/
def SafeItT (ai : It) (r : Res (TState × It × ArgResult)) : Prop :=
  match r with
  | .ok (_, ai', _) => ai'.Inv ∧ ai'.argv = ai.argv ∧ ai'.measure ≤ ai.measure ∧ ai'.argIndex ≤ ai'.argv.length
  | .throw e => stdExc e
  | .oob _ => False

theorem SafeItT.bind {α : Type} {ai : It} {r : Res α} {f : α → Res (TState × It × ArgResult)} (hr : Safe r)
    (hf : ∀ a, r = .ok a → SafeItT ai (f a)) : SafeItT ai (r >>= f) := by
  cases r with
  | ok a => exact hf a rfl
  | throw e => exact hr
  | oob w => exact hr

theorem SafeItT.lift {ai : It} (t : TState) {r : Res (HState × It × ArgResult)} (h : SafeIt ai r) :
    SafeItT ai (liftMain t r) := by
  cases r with
  | ok p => obtain ⟨h', ai', x⟩ := p; exact h
  | throw e => exact h
  | oob w => exact h

theorem processArgT_safe (cfg : TCfg) (t : TState) (key : Key) (ai : It) (hI : ai.Inv)
    (hle : ai.argIndex ≤ ai.argv.length) : SafeItT ai (processArgT cfg t key ai) := by
  unfold processArgT
  apply SafeItT.bind (findSub_safe _ _ _ _)
  intro found _
  cases found with
  | none => exact SafeItT.lift t (processArg_safe _ _ _ _ hI hle)
  | some p =>
    obtain ⟨j, d⟩ := p
    dsimp only
    apply SafeItT.bind (handleIdentifiedSub_safe _ _ _ _); intro t1 _
    have hg := step_good ai hI hle
    cases hst : ai.step with
    | ok subAI =>
      rw [hst] at hg
      simp only [Res.bind_ok]
      have hf : subAI.measure < totalChars ai.argv := by
        have := measure_lt_total subAI; rw [hg.2.1] at this; exact this
      have hs := subLoop_safe d.sub ai (totalChars ai.argv) (t1.subs.getD j default) ai subAI hI rfl (Nat.le_refl _) hle
        hg.1 hg.2.1 (Nat.le_of_lt hg.2.2) hf
      cases hl : subLoop d.sub (totalChars ai.argv) (t1.subs.getD j default) ai subAI with
      | ok q => obtain ⟨sh, ai'⟩ := q; rw [hl] at hs; exact hs
      | throw e => rw [hl] at hs; exact hs
      | oob w => rw [hl] at hs; exact hs.elim
    | throw e => rw [hst] at hg; cases hg; exact se_rt
    | oob w => rw [hst] at hg; exact hg.elim

theorem evalSingleArgumentT_safe (cfg : TCfg) (t : TState) (ai : It) (hI : ai.Inv)
    (hle : ai.argIndex ≤ ai.argv.length) : SafeItT ai (evalSingleArgumentT cfg t ai) := by
  unfold evalSingleArgumentT
  split
  · exact processArgT_safe _ _ _ _ hI hle
  · apply SafeItT.bind (wordKey_safe _); intro _ _
    exact processArgT_safe _ _ _ _ hI hle
  · exact SafeItT.lift t (evalSingleArgument_safe _ _ _ hI hle)

theorem iterateLoopT_safe (cfg : TCfg) (fuel : Nat) : ∀ (t : TState) (ai : It), ai.Inv → ai.measure < fuel →
    Safe (iterateLoopT cfg fuel t ai) := by
  induction fuel with
  | zero => intro t ai _ hm; omega
  | succ fuel ih =>
    intro t ai hI hm
    unfold iterateLoopT
    split
    · trivial
    · rename_i hne
      have hae : ai.atEnd = false := by
        cases hh : ai.atEnd with
        | false => rfl
        | true => exact absurd hh hne
      have hle := notAtEnd_le hI hae
      have hs := evalSingleArgumentT_safe cfg t ai hI hle
      cases he : evalSingleArgumentT cfg t ai with
      | ok p =>
        obtain ⟨t', ai', r⟩ := p
        rw [he] at hs
        obtain ⟨hI', hv', hm', hle'⟩ := hs
        simp only [Res.bind_ok]
        cases r with
        | unknown => exact safe_ia
        | last => trivial
        | consumed =>
          dsimp only
          have hg := step_good ai' hI' hle'
          cases hst : ai'.step with
          | ok ai'' =>
            rw [hst] at hg
            simp only [Res.bind_ok]
            exact ih t' ai'' hg.1 (by have := hg.2.2; omega)
          | throw e => rw [hst] at hg; cases hg; exact safe_rt
          | oob w => rw [hst] at hg; exact hg.elim
      | throw e => rw [he] at hs; exact hs
      | oob w => rw [he] at hs; exact hs.elim

theorem iterateArgumentsT_safe (cfg : TCfg) (t : TState) (argv : List Word) (h1 : 1 ≤ argv.length) :
    Safe (iterateArgumentsT cfg t argv) := by
  unfold iterateArgumentsT
  have hb := begin_good argv h1
  cases hbe : It.begin argv with
  | ok ai =>
    rw [hbe] at hb
    simp only [Res.bind_ok]
    have := measure_lt_total ai
    rw [hb.2] at this
    exact iterateLoopT_safe cfg _ t ai hb.1 this
  | throw e => rw [hbe] at hb; cases hb; exact safe_rt
  | oob w => rw [hbe] at hb; exact hb.elim

theorem readFileLinesT_safe (cfg : TCfg) (lines : List Word) : ∀ t, Safe (readFileLinesT cfg lines t) := by
  induction lines with
  | nil => intro t; trivial
  | cons l ls ih =>
    intro t
    simp only [readFileLinesT]
    split
    · exact ih t
    · apply Safe.bind (iterateArgumentsT_safe _ _ _ (by simp)); intro _ _
      exact ih _

theorem checkSubMandatoryCardinality_safe (subs : List SubDef) (sts : List ArgSt) :
    Safe (checkSubMandatoryCardinality subs sts) := checkMandatoryCardinality_safe _ _

theorem endChecksT_safe (cfg : TCfg) (t : TState) : Safe (endChecksT cfg t) := by
  unfold endChecksT
  dsimp only
  apply Safe.bind (checkMandatoryCardinality_safe _ _); intro _ _
  apply Safe.bind (checkSubMandatoryCardinality_safe _ _); intro _ _
  apply Safe.bind (pendingCheckRequired_safe _); intro _ _
  apply Safe.bind (checkGlobals_safe _ _ _ _); intro _ _
  trivial

theorem evalArgumentsT_safe (cfg : TCfg) (t : TState) (src : Sources) (argv : List Word) (h1 : 1 ≤ argv.length) :
    Safe (evalArgumentsT cfg t src argv) := by
  unfold evalArgumentsT
  apply Safe.bind
  · unfold evalFileSourceT
    split
    · apply Safe.bind (readFileLinesT_safe _ _ _); intro _ _; trivial
    · trivial
  · intro _ _
    apply Safe.bind
    · unfold evalEnvSourceT
      split
      · apply Safe.bind (iterateArgumentsT_safe _ _ _ (by simp)); intro _ _; trivial
      · trivial
    · intro _ _
      apply Safe.bind (iterateArgumentsT_safe _ _ _ h1); intro _ _
      exact endChecksT_safe _ _

/-! ### Groups -/

def SafeOfferT (ai : It) (r : Res (List (TCfg × TState) × It × ArgResult)) : Prop :=
  match r with
  | .ok (_, ai', _) => ai'.Inv ∧ ai'.argv = ai.argv ∧ ai'.measure ≤ ai.measure ∧ ai'.argIndex ≤ ai'.argv.length
  | .throw e => stdExc e
  | .oob _ => False

theorem offerT_safe (isKey : Bool) (ms : List (TCfg × TState)) (ai : It) (hI : ai.Inv)
    (hle : ai.argIndex ≤ ai.argv.length) : SafeOfferT ai (offerT isKey ms ai) := by
  induction ms with
  | nil => exact ⟨hI, rfl, Nat.le_refl _, hle⟩
  | cons m ms ih =>
    obtain ⟨c, t⟩ := m
    simp only [offerT]
    have hs := evalSingleArgumentT_safe c t ai hI hle
    cases he : evalSingleArgumentT c t ai with
    | ok p =>
      obtain ⟨t', ai', r⟩ := p
      rw [he] at hs
      simp only [Res.bind_ok]
      split
      · exact hs
      · cases ho : offerT isKey ms ai with
        | ok q =>
          obtain ⟨rest', ai'', r'⟩ := q
          rw [ho] at ih
          simp only [Res.bind_ok]
          exact ih
        | throw e => rw [ho] at ih; exact ih
        | oob w => rw [ho] at ih; exact ih.elim
    | throw e => rw [he] at hs; exact hs
    | oob w => rw [he] at hs; exact hs.elim

theorem groupsLoopT_safe (fuel : Nat) : ∀ (ms : List (TCfg × TState)) (ai : It), ai.Inv → ai.measure < fuel →
    Safe (groupsLoopT fuel ms ai) := by
  induction fuel with
  | zero => intro ms ai _ hm; omega
  | succ fuel ih =>
    intro ms ai hI hm
    unfold groupsLoopT
    split
    · trivial
    · rename_i hne
      have hae : ai.atEnd = false := by
        cases hh : ai.atEnd with
        | false => rfl
        | true => exact absurd hh hne
      have hle := notAtEnd_le hI hae
      have hs := offerT_safe (ai.cur.ty != .value) ms ai hI hle
      cases he : offerT (ai.cur.ty != .value) ms ai with
      | ok p =>
        obtain ⟨ms', ai', r⟩ := p
        rw [he] at hs
        obtain ⟨hI', hv', hm', hle'⟩ := hs
        simp only [Res.bind_ok]
        split
        · exact safe_rt
        · have hg := step_good ai' hI' hle'
          cases hst : ai'.step with
          | ok ai'' =>
            rw [hst] at hg
            simp only [Res.bind_ok]
            exact ih ms' ai'' hg.1 (by have := hg.2.2; omega)
          | throw e => rw [hst] at hg; cases hg; exact safe_rt
          | oob w => rw [hst] at hg; exact hg.elim
      | throw e => rw [he] at hs; exact hs
      | oob w => rw [he] at hs; exact hs.elim

theorem groupsEndChecksT_safe (ms : List (TCfg × TState)) : Safe (groupsEndChecksT ms) := by
  induction ms with
  | nil => trivial
  | cons m ms ih =>
    obtain ⟨c, t⟩ := m
    simp only [groupsEndChecksT]
    apply Safe.bind
    · unfold memberEndChecksT
      apply Safe.bind (checkMandatoryCardinality_safe _ _); intro _ _
      apply Safe.bind (checkSubMandatoryCardinality_safe _ _); intro _ _
      apply Safe.bind (pendingCheckRequired_safe _); intro _ _
      exact checkGlobals_safe _ _ _ _
    · intro _ _; exact ih

theorem groupsEvalT_safe (cfg : TCfg) (inits : TInits) (am sm gm order : List Nat) (argv : List Word)
    (h1 : 1 ≤ argv.length) : Safe (groupsEvalT cfg inits am sm gm order argv) := by
  unfold groupsEvalT
  apply Safe.bind (throwIf_safe _ _ se_rt); intro _ _
  dsimp only
  have hb := begin_good argv h1
  cases hbe : It.begin argv with
  | ok ai =>
    rw [hbe] at hb
    simp only [Res.bind_ok]
    have := measure_lt_total ai
    rw [hb.2] at this
    apply Safe.bind (groupsLoopT_safe _ _ ai hb.1 this); intro _ _
    apply Safe.bind (groupsEndChecksT_safe _); intro _ _
    trivial
  | throw e => rw [hbe] at hb; cases hb; exact safe_rt
  | oob w => rw [hbe] at hb; exact hb.elim

end CelmaVerif.ProgArgs
