import CelmaVerif.Lemmas.Log
/-
  Helper lemmas for C14, part 2: routing by id bit mask and by name, the level pre-check.
-/
namespace CelmaVerif.Log
open CelmaVerif CelmaVerif.Generated.LogDefs

/-! ### powers of two -/

theorem two_pow_and_two_pow_of_ne {a b : Nat} (h : a ≠ b) : 2 ^ a &&& 2 ^ b = 0 := by
  apply Nat.eq_of_testBit_eq
  intro i
  rw [Nat.testBit_and, Nat.testBit_two_pow, Nat.testBit_two_pow, Nat.zero_testBit]
  by_cases h1 : a = i
  · by_cases h2 : b = i
    · exact absurd (h1.trans h2.symm) h
    · simp [h2]
  · simp [h1]

theorem two_pow_and_self (a : Nat) : 2 ^ a &&& 2 ^ a ≠ 0 := by
  rw [Nat.and_self]
  exact Nat.pos_iff_ne_zero.mp (Nat.two_pow_pos a)

/-- ids handed out by `findCreateLog` are pairwise disjoint single bits -/
def Disjoint (ids : List Nat) : Prop := ids.Pairwise (fun a b => a &&& b = 0)

theorem disjoint_pows (n : Nat) : Disjoint ((List.range n).map (fun k => 2 ^ k)) := by
  unfold Disjoint
  rw [List.pairwise_map]
  exact List.Pairwise.imp (fun {a b} (h : a < b) => two_pow_and_two_pow_of_ne (Nat.ne_of_lt h))
    List.pairwise_lt_range

/-! ### routing by id -/

/-- the loop of `Logging::log( ids, msg)` hands the message to exactly the logs whose bit is in
    `ids` (the `break` only skips logs that are not selected) -/
theorem logIdsGo_eq (ids : Nat) (m : Msg) (hm : m.Valid) (ls : List LogEntry)
    (hinv : ∀ e ∈ ls, e.log.Inv) (hdis : Disjoint (ls.map (·.id))) :
    logIdsGo ids m ls = .ok (ls.map (fun e => e.deliver (decide (ids &&& e.id ≠ 0)) m)) := by
  induction ls with
  | nil => simp [logIdsGo]
  | cons e es ih =>
    have hes : ∀ x ∈ es, x.log.Inv := fun x hx => hinv x (by simp [hx])
    have hd : Disjoint (es.map (·.id)) := by
      unfold Disjoint at hdis ⊢
      simp only [List.map_cons, List.pairwise_cons] at hdis
      exact hdis.2
    have hhead : ∀ x ∈ es, e.id &&& x.id = 0 := by
      unfold Disjoint at hdis
      simp only [List.map_cons, List.pairwise_cons, List.mem_map] at hdis
      intro x hx
      exact hdis.1 x.id ⟨x, hx, rfl⟩
    unfold logIdsGo
    by_cases hsel : ids &&& e.id ≠ 0
    · rw [if_pos hsel, LogEntry.message_eq e m (hinv e (by simp)) hm]
      have hdec : decide (ids &&& e.id ≠ 0) = true := decide_eq_true hsel
      simp only [List.map_cons, hdec]
      by_cases hone : ids = e.id
      · rw [if_pos hone]
        have : es.map (fun x => x.deliver (decide (ids &&& x.id ≠ 0)) m) = es := by
          rw [List.map_congr_left (g := id)]
          · simp
          · intro x hx
            have h0 : ids &&& x.id = 0 := by rw [hone]; exact hhead x hx
            simp [h0, LogEntry.deliver_false]
        rw [this]
      · rw [if_neg hone, ih hes hd]
    · rw [if_neg hsel, ih hes hd]
      have h0 : ids &&& e.id = 0 := by
        by_cases h : ids &&& e.id = 0
        · exact h
        · exact absurd h hsel
      simp [h0, LogEntry.deliver_false]

/-! ### routing by name -/

theorem logNameGo_eq (name : String) (m : Msg) (hm : m.Valid) (ls : List LogEntry)
    (hinv : ∀ e ∈ ls, e.log.Inv) :
    logNameGo name m ls = .ok (updFirst (fun e => name == e.name) (fun e => e.deliver true m) ls) := by
  induction ls with
  | nil => simp [logNameGo, updFirst]
  | cons e es ih =>
    unfold logNameGo updFirst
    by_cases h : (name == e.name) = true
    · rw [if_pos h, if_pos h, LogEntry.message_eq e m (hinv e (by simp)) hm]
    · rw [if_neg h, if_neg h, ih (fun x hx => hinv x (by simp [hx]))]

/-! ### the pre-check -/

theorem map_deliver_none (ids : Nat) (m : Msg) (ls : List LogEntry)
    (h : ∀ e ∈ ls, ids &&& e.id ≠ 0 → e.log.filters.accepts m = false) :
    ls.map (fun e => e.deliver (decide (ids &&& e.id ≠ 0)) m) = ls := by
  rw [List.map_congr_left (g := id)]
  · simp
  · intro e he
    by_cases hsel : ids &&& e.id ≠ 0
    · simp [LogEntry.deliver, h e he hsel]
    · have h0 : ids &&& e.id = 0 := by
        by_cases h : ids &&& e.id = 0
        · exact h
        · exact absurd h hsel
      simp [h0, LogEntry.deliver_false]

/-- what `getLog( ids)` returns: nullptr only when no log is selected; a log only when it is the
    single selected one -/
theorem getLogByIdGo_none (ids : Nat) (ls : List LogEntry) (h : getLogByIdGo ids ls = .ok none) :
    ∀ e ∈ ls, ids &&& e.id = 0 := by
  induction ls with
  | nil => simp
  | cons e es ih =>
    unfold getLogByIdGo at h
    by_cases hsel : ids &&& e.id ≠ 0
    · rw [if_pos hsel] at h
      split at h <;> cases h
    · rw [if_neg hsel] at h
      intro x hx
      simp only [List.mem_cons] at hx
      cases hx with
      | inl hx => subst hx; exact Decidable.not_not.mp hsel
      | inr hx => exact ih h x hx

theorem getLogByIdGo_some (ids : Nat) (ls : List LogEntry) (e : LogEntry)
    (hdis : Disjoint (ls.map (·.id))) (h : getLogByIdGo ids ls = .ok (some e)) :
    e ∈ ls ∧ ∀ x ∈ ls, ids &&& x.id ≠ 0 → x.log = e.log := by
  induction ls with
  | nil => simp [getLogByIdGo] at h
  | cons a as ih =>
    have hd : Disjoint (as.map (·.id)) := by
      unfold Disjoint at hdis ⊢
      simp only [List.map_cons, List.pairwise_cons] at hdis
      exact hdis.2
    have hhead : ∀ x ∈ as, a.id &&& x.id = 0 := by
      unfold Disjoint at hdis
      simp only [List.map_cons, List.pairwise_cons, List.mem_map] at hdis
      intro x hx
      exact hdis.1 x.id ⟨x, hx, rfl⟩
    unfold getLogByIdGo at h
    by_cases hsel : ids &&& a.id ≠ 0
    · rw [if_pos hsel] at h
      by_cases hone : ids ≠ a.id
      · rw [if_pos hone] at h; cases h
      · rw [if_neg hone] at h
        have hae : a = e := by cases h; rfl
        have hone' : ids = a.id := Decidable.not_not.mp hone
        subst hae
        refine ⟨by simp, ?_⟩
        intro x hx hxs
        simp only [List.mem_cons] at hx
        cases hx with
        | inl hx => rw [hx]
        | inr hx => exact absurd (by rw [hone']; exact hhead x hx) hxs
    · rw [if_neg hsel] at h
      obtain ⟨h1, h2⟩ := ih hd h
      refine ⟨by simp [h1], ?_⟩
      intro x hx hxs
      simp only [List.mem_cons] at hx
      cases hx with
      | inl hx => subst hx; exact absurd hxs hsel
      | inr hx => exact h2 x hx hxs

end CelmaVerif.Log
