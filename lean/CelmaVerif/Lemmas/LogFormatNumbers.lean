import CelmaVerif.Model.LogFormat
/-
  C16: what the number texts of the model (`decNat`, `decInt`, `zeroPad`) are, told without the model's
  own definitions: ASCII digits with the right decimal value and the minimal / the requested length.
-/
namespace CelmaVerif.LogFormat

/-- the number a text of ASCII digits denotes in decimal notation -/
def digitsValue (t : Text) : Nat := t.foldl (fun a c => 10 * a + (c - 48)) 0

theorem decNat_eq (n : Nat) : decNat n = (Nat.toDigits 10 n).map Char.toNat := by
  simp [decNat, bytes, Nat.toList_repr]

theorem decNat_digits (n : Nat) : ∀ c ∈ decNat n, 48 ≤ c ∧ c ≤ 57 := by
  intro c hc
  rw [decNat_eq] at hc
  obtain ⟨ch, hch, rfl⟩ := List.mem_map.mp hc
  have := Nat.isDigit_of_mem_toDigits (by decide) (by decide) hch
  simp only [Char.isDigit, Bool.and_eq_true, decide_eq_true_eq] at this
  have h1 : (48 : UInt32).toNat ≤ ch.val.toNat := UInt32.le_iff_toNat_le.mp this.1
  have h2 : ch.val.toNat ≤ (57 : UInt32).toNat := UInt32.le_iff_toNat_le.mp this.2
  exact ⟨h1, h2⟩

theorem digitsValue_map (l : List Char) (init : Nat) :
    (l.map Char.toNat).foldl (fun a c => 10 * a + (c - 48)) init = Nat.ofDigitChars 10 l init := by
  induction l generalizing init with
  | nil => simp
  | cons c cs ih =>
    rw [List.map_cons, List.foldl_cons, ih, Nat.ofDigitChars_cons]
    rfl

theorem decNat_value (n : Nat) : digitsValue (decNat n) = n := by
  unfold digitsValue
  rw [decNat_eq, digitsValue_map, Nat.ofDigitChars_ten_toDigits]

theorem decNat_length (n k : Nat) (hk : 0 < k) : (decNat n).length ≤ k ↔ n < 10 ^ k := by
  rw [decNat_eq, List.length_map]
  exact Nat.length_toDigits_le_iff (by decide) hk

theorem decInt_eq (i : Int) : decInt i = if i < 0 then 45 :: decNat i.natAbs else decNat i.natAbs := by
  unfold decInt
  by_cases h : i < 0
  · rw [if_pos h, if_pos h]
    have : (-i).toNat = i.natAbs := by omega
    rw [this]
  · rw [if_neg h, if_neg h]
    have : i.toNat = i.natAbs := by omega
    rw [this]

theorem foldl_zeros (j : Nat) (t : Text) :
    (List.replicate j 48 ++ t).foldl (fun a c => 10 * a + (c - 48)) 0 =
      t.foldl (fun a c => 10 * a + (c - 48)) 0 := by
  induction j with
  | zero => simp
  | succ j ih => rw [List.replicate_succ, List.cons_append, List.foldl_cons]; exact ih

/-- `setw( k) << setfill( '0')` of a number that fits: exactly `k` digits, same value -/
theorem zeroPad_spec (k n : Nat) (hk : 0 < k) (hn : n < 10 ^ k) :
    (zeroPad k n).length = k ∧ (∀ c ∈ zeroPad k n, 48 ≤ c ∧ c ≤ 57) ∧ digitsValue (zeroPad k n) = n := by
  have hl := (decNat_length n k hk).mpr hn
  refine ⟨?_, ?_, ?_⟩
  · simp only [zeroPad, List.length_append, List.length_replicate]; omega
  · intro c hc
    simp only [zeroPad, List.mem_append, List.mem_replicate] at hc
    rcases hc with hc | hc
    · omega
    · exact decNat_digits n c hc
  · unfold digitsValue zeroPad
    rw [foldl_zeros]
    exact decNat_value n

/-! ### the texts of the field kinds, told without the model's functions -/

/-- `ds` is THE decimal numeral of `n`: ASCII digits, the value `n`, and at most `k` digits exactly when
    `n < 10^k` (hence no leading zero; `0` is written "0") -/
def IsDecimal (ds : Text) (n : Nat) : Prop :=
  (∀ c ∈ ds, 48 ≤ c ∧ c ≤ 57) ∧ digitsValue ds = n ∧ ∀ k, 0 < k → (ds.length ≤ k ↔ n < 10 ^ k)

/-- `t` is the decimal numeral of the integer `i`: a '-' in front iff `i` is negative, then the numeral of `|i|` -/
def IsSignedDecimal (t : Text) (i : Int) : Prop :=
  ∃ ds, IsDecimal ds i.natAbs ∧ t = if i < 0 then 45 :: ds else ds

/-- `t` consists of exactly `k` ASCII digits and denotes `n` (leading zeros as needed) -/
def IsFixedDigits (t : Text) (k n : Nat) : Prop :=
  t.length = k ∧ (∀ c ∈ t, 48 ≤ c ∧ c ≤ 57) ∧ digitsValue t = n

/-- the names of the log levels by their integer value (`log_defs.hpp`); index 0 and everything from 7 on:
    "undefined" -/
def levelNames : List Text :=
  [bytes "undefined", bytes "Fatal Error", bytes "Error", bytes "Warning", bytes "Info", bytes "Debug",
   bytes "Full Debug"]

/-- the names of the log classes by their integer value -/
def classNames : List Text :=
  [bytes "undefined", bytes "SysCall", bytes "Data", bytes "Communication", bytes "Application",
   bytes "Accounting", bytes "Operator Action"]

theorem decInt_signed (i : Int) : IsSignedDecimal (decInt i) i :=
  ⟨decNat i.natAbs, ⟨decNat_digits _, decNat_value _, fun k hk => decNat_length _ k hk⟩, decInt_eq i⟩

theorem levelText_table : ∀ n, levelText n = (levelNames[n]?).getD (bytes "undefined")
  | 0 | 1 | 2 | 3 | 4 | 5 | 6 => rfl
  | _ + 7 => rfl

theorem classText_table : ∀ n, classText n = (classNames[n]?).getD (bytes "undefined")
  | 0 | 1 | 2 | 3 | 4 | 5 | 6 => rfl
  | _ + 7 => rfl

end CelmaVerif.LogFormat
