import CelmaVerif.Model.LogFormat
/-
  C16: what the number texts of the model (`decNat`, `decInt`, `zeroPad`) are, told without the model's
  own definitions: ASCII digits with the right decimal value and the minimal / the requested length.
-/
namespace CelmaVerif.LogFormat

/-- the number a text of ASCII digits denotes in decimal notation -/
def digitsValue (t : Text) : Nat := t.foldl (fun a c => 10 * a + (c - 48)) 0

theorem decNat_eq (n : Nat) : decNat n = (Nat.toDigits 10 n).map Char.toNat := by
  simp [decNat, bytes, Nat.toList_repr]

theorem decNat_digits (n : Nat) : ∀ c ∈ decNat n, 48 ≤ c ∧ c ≤ 57 := by
  intro c hc
  rw [decNat_eq] at hc
  obtain ⟨ch, hch, rfl⟩ := List.mem_map.mp hc
  have := Nat.isDigit_of_mem_toDigits (by decide) (by decide) hch
  simp only [Char.isDigit, Bool.and_eq_true, decide_eq_true_eq] at this
  have h1 : (48 : UInt32).toNat ≤ ch.val.toNat := UInt32.le_iff_toNat_le.mp this.1
  have h2 : ch.val.toNat ≤ (57 : UInt32).toNat := UInt32.le_iff_toNat_le.mp this.2
  exact ⟨h1, h2⟩

theorem digitsValue_map (l : List Char) (init : Nat) :
    (l.map Char.toNat).foldl (fun a c => 10 * a + (c - 48)) init = Nat.ofDigitChars 10 l init := by
  induction l generalizing init with
  | nil => simp
  | cons c cs ih =>
    rw [List.map_cons, List.foldl_cons, ih, Nat.ofDigitChars_cons]
    rfl

theorem decNat_value (n : Nat) : digitsValue (decNat n) = n := by
  unfold digitsValue
  rw [decNat_eq, digitsValue_map, Nat.ofDigitChars_ten_toDigits]

theorem decNat_length (n k : Nat) (hk : 0 < k) : (decNat n).length ≤ k ↔ n < 10 ^ k := by
  rw [decNat_eq, List.length_map]
  exact Nat.length_toDigits_le_iff (by decide) hk

theorem decInt_eq (i : Int) : decInt i = if i < 0 then 45 :: decNat i.natAbs else decNat i.natAbs := by
  unfold decInt
  by_cases h : i < 0
  · rw [if_pos h, if_pos h]
    have : (-i).toNat = i.natAbs := by omega
    rw [this]
  · rw [if_neg h, if_neg h]
    have : i.toNat = i.natAbs := by omega
    rw [this]

theorem foldl_zeros (j : Nat) (t : Text) :
    (List.replicate j 48 ++ t).foldl (fun a c => 10 * a + (c - 48)) 0 =
      t.foldl (fun a c => 10 * a + (c - 48)) 0 := by
  induction j with
  | zero => simp
  | succ j ih => rw [List.replicate_succ, List.cons_append, List.foldl_cons]; exact ih

/-- `setw( k) << setfill( '0')` of a number that fits: exactly `k` digits, same value -/
theorem zeroPad_spec (k n : Nat) (hk : 0 < k) (hn : n < 10 ^ k) :
    (zeroPad k n).length = k ∧ (∀ c ∈ zeroPad k n, 48 ≤ c ∧ c ≤ 57) ∧ digitsValue (zeroPad k n) = n := by
  have hl := (decNat_length n k hk).mpr hn
  refine ⟨?_, ?_, ?_⟩
  · simp only [zeroPad, List.length_append, List.length_replicate]; omega
  · intro c hc
    simp only [zeroPad, List.mem_append, List.mem_replicate] at hc
    rcases hc with hc | hc
    · omega
    · exact decNat_digits n c hc
  · unfold digitsValue zeroPad
    rw [foldl_zeros]
    exact decNat_value n

end CelmaVerif.LogFormat
