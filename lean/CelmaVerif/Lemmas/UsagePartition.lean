import CelmaVerif.Lemmas.UsageSpec
/-
  Lemmas for C18 (7): the reader `parseFrom` and its complement `ignoredFrom` (two hand-written walks over the
  lines, Lemmas/UsageSpec.lean) partition the lines of ANY text - a theorem about the two definitions, for every
  list of lines, not only for usage texts:
  * what an entry owns is stated without the walk: the entry that starts at a line takes the words of its own
    line and of exactly the run of continuation lines directly below it (`entryAt`, defined on the rest of the
    text from that line on - `suffixes` -, no state);
  * every line is counted exactly once as: caption line, entry line, continuation line owned by the entry above
    (`absorbed`), or line reported by `ignoredFrom`.
-/
namespace CelmaVerif.Usage
open CelmaVerif.TextBlock (Str words)

/-- the line continues an entry (at least four blanks) -/
def isCont (l : Str) : Bool := decide (classify l = .cont)

/-- the run of continuation lines at the front of a text -/
def contRun (ls : List Str) : List Str := ls.takeWhile isCont

/-- At one position of a text (`t` = the text from this line on): when the line starts an entry, the key shown,
    the words the entry owns - those of its own line behind the key and those of the continuation lines directly
    below - and these continuation lines. -/
def entryAt : List Str → Option (Str × List Str × List Str)
  | [] => none
  | l :: rest =>
    match classify l with
    | .entry k r => some (k, words r ++ (contRun rest).flatMap words, contRun rest)
    | _ => none

/-- a text from every one of its lines on (all suffixes, longest first) -/
def suffixes {α : Type} : List α → List (List α)
  | [] => [[]]
  | a :: l => (a :: l) :: suffixes l

/-- the number of continuation lines owned by some entry: for every entry line, the run directly below it -/
def absorbed (ls : List Str) : Nat := (((suffixes ls).filterMap entryAt).map (·.2.2.length)).sum

theorem contRun_cons (l : Str) (ls : List Str) :
    contRun (l :: ls) = if classify l = .cont then l :: contRun ls else [] := by
  unfold contRun
  rw [List.takeWhile_cons]
  by_cases h : classify l = .cont
  · simp [isCont, h]
  · simp [isCont, h]

theorem contWords_eq : ∀ ls : List Str, contWords ls = (contRun ls).flatMap words
  | [] => rfl
  | l :: ls => by
    rw [contWords, contRun_cons]
    by_cases h : classify l = .cont
    · rw [if_pos h, if_pos h, List.flatMap_cons, contWords_eq ls]
    · rw [if_neg h, if_neg h]; rfl

theorem entryAt_cons (l : Str) (rest : List Str) :
    entryAt (l :: rest) =
      match classify l with
      | .entry k r => some (k, words r ++ (contRun rest).flatMap words, contRun rest)
      | _ => none := rfl

theorem tails_cons' {α : Type} (a : α) (l : List α) : suffixes (a :: l) = (a :: l) :: suffixes l := rfl

/-- the entries `parseFrom` reports are, in order, the entries that start at the entry lines of the text, each
    with the words of its line and of the continuation run directly below it -/
theorem parseFrom_entries (sec : Option Bool) (ls : List Str) :
    (parseFrom sec ls).map (fun e => (e.key, e.words))
      = ((suffixes ls).filterMap entryAt).map (fun x => (x.1, x.2.1)) := by
  induction ls generalizing sec with
  | nil => simp [parseFrom, entryAt, suffixes]
  | cons l rest ih =>
    rw [tails_cons', List.filterMap_cons, entryAt_cons, parseFrom]
    cases hcl : classify l with
    | caption m => simp only; exact ih (some m)
    | entry k r =>
      simp only [List.map_cons]
      rw [ih sec, contWords_eq]
    | cont => simp only; exact ih sec
    | other => simp only; exact ih sec

theorem captions_cons (l : Str) (ls : List Str) :
    captions (l :: ls) = (match classify l with | .caption m => [m] | _ => []) ++ captions ls := by
  unfold captions
  rw [List.filterMap_cons]
  cases classify l <;> rfl

theorem absorbed_cons (l : Str) (rest : List Str) :
    absorbed (l :: rest) =
      (match classify l with | .entry _ _ => (contRun rest).length | _ => 0) + absorbed rest := by
  unfold absorbed
  rw [tails_cons', List.filterMap_cons, entryAt_cons]
  cases classify l <;> simp

/-- every line is counted exactly once: caption, entry line, continuation line owned by the entry above (when
    the walk starts inside an entry: also the run at the front, owned by that entry), or ignored -/
theorem lines_partition_from (sec : Option Bool) (b : Bool) (ls : List Str) :
    ls.length = (captions ls).length + (parseFrom sec ls).length + absorbed ls
                + (if b then (contRun ls).length else 0) + (ignoredFrom b ls).length := by
  induction ls generalizing sec b with
  | nil =>
    have : absorbed [] = 0 := rfl
    simp [captions, parseFrom, contRun, ignoredFrom, this]
  | cons l rest ih =>
    rw [captions_cons, absorbed_cons, contRun_cons, parseFrom, ignoredFrom]
    cases hcl : classify l with
    | caption m =>
      have := ih (some m) false
      simp only [List.length_cons, List.length_append, List.length_nil, reduceCtorEq, if_false,
        Bool.false_eq_true, ite_self] at this ⊢
      omega
    | entry k r =>
      have := ih sec true
      simp only [List.length_cons, List.length_append, List.length_nil, reduceCtorEq, if_false, if_true, ite_self] at this ⊢
      omega
    | cont =>
      cases b with
      | true =>
        have := ih sec true
        simp only [List.length_cons, List.length_append, List.length_nil, if_true] at this ⊢
        omega
      | false =>
        have := ih sec false
        simp only [List.length_cons, List.length_append, List.length_nil, if_false, Bool.false_eq_true] at this ⊢
        omega
    | other =>
      have := ih sec false
      simp only [List.length_cons, List.length_append, List.length_nil, reduceCtorEq, if_false,
        Bool.false_eq_true, ite_self] at this ⊢
      omega

/-- the ignored lines are lines of the text, in order -/
theorem ignoredFrom_sublist (b : Bool) (ls : List Str) : (ignoredFrom b ls).Sublist ls := by
  induction ls generalizing b with
  | nil => simp [ignoredFrom]
  | cons l rest ih =>
    rw [ignoredFrom]
    cases hcl : classify l with
    | caption m => exact (ih false).cons _
    | entry k r => exact (ih true).cons _
    | cont =>
      cases b with
      | true => exact (ih true).cons _
      | false => exact (ih false).cons_cons _
    | other => exact (ih false).cons_cons _

/-- an ignored line is a continuation line or a line of no kind - never a caption or an entry line -/
theorem ignoredFrom_kind (b : Bool) (ls : List Str) :
    ∀ l ∈ ignoredFrom b ls, classify l = .other ∨ classify l = .cont := by
  induction ls generalizing b with
  | nil => simp [ignoredFrom]
  | cons l rest ih =>
    rw [ignoredFrom]
    cases hcl : classify l with
    | caption m => exact ih false
    | entry k r => exact ih true
    | cont =>
      cases b with
      | true => exact ih true
      | false =>
        intro x hx
        rcases List.mem_cons.mp hx with rfl | hx
        · exact Or.inr hcl
        · exact ih false x hx
    | other =>
      intro x hx
      rcases List.mem_cons.mp hx with rfl | hx
      · exact Or.inl hcl
      · exact ih false x hx

end CelmaVerif.Usage
