import CelmaVerif.Lemmas.FixedStringC11World
/-
  C11 at the level of the operation language, observers whose implementation function has a C11 lemma in
  FixedStringC11Obs.lean.
-/
namespace CelmaVerif.FixedString
open CelmaVerif
variable {c cu : Cfg} {w : World}

theorem c11_str (hw : WFW c cu w) : C11Holds c cu w .str := by
  intro w' o h
  simp only [step] at h
  obtain ⟨a, h1, rfl, rfl⟩ := obs_inv h
  rw [str_abs hw.1] at h1; cases h1
  exact c11_obs hw.1 (by simp only [spec])

theorem c11_length (hw : WFW c cu w) : C11Holds c cu w .length := by
  intro w' o h
  simp only [step] at h
  cases h
  exact c11_obs hw.1 (by simp only [spec, abs_length hw.1])

theorem c11_empty (hw : WFW c cu w) : C11Holds c cu w .empty := by
  intro w' o h
  simp only [step] at h
  cases h
  refine c11_obs hw.1 ?_
  simp only [spec]
  have := abs_length hw.1
  congr 3
  cases hx : abs w.s with
  | nil => rw [hx] at this; simp at this; simp [← this]
  | cons a as => rw [hx] at this; simp at this; simp; omega

theorem c11_itDist (hc : CfgOK c) (hw : WFW c cu w) : C11Holds c cu w .itDist := by
  intro w' o h
  simp only [step] at h
  cases h
  refine c11_obs hw.1 ?_
  simp only [spec, abs_length hw.1]
  congr 3
  have := hc.hW; have := hw.1.2.1
  unfold itMinus itBegin itEnd subW
  repeat' split
  all_goals omega

theorem c11_atI (hw : WFW c cu w) (i : Nat) (hd : inDomain (npos c) w (.atI i) = true) : C11Holds c cu w (.atI i) := by
  intro w' o h
  simp only [step] at h
  obtain ⟨a, h1, rfl, rfl⟩ := obs_inv h
  simp only [inDomain, abs_length hw.1] at hd
  have hne : i ≠ w'.s.len := by simpa using hd
  by_cases hlt : i < w'.s.len
  · rw [at_abs hw.1 hlt] at h1
    exact c11_obs hw.1 (by simp only [spec, h1, bindR_ok])
  · rw [(at_throw hw.1 (idx := i) (by omega)).1] at h1; cases h1

theorem c11_cat (hw : WFW c cu w) (i : Nat) (hd : inDomain (npos c) w (.cat i) = true) : C11Holds c cu w (.cat i) := by
  intro w' o h
  simp only [step] at h
  obtain ⟨a, h1, rfl, rfl⟩ := obs_inv h
  simp only [inDomain, abs_length hw.1] at hd
  have hne : i ≠ w'.s.len := by simpa using hd
  by_cases hlt : i < w'.s.len
  · rw [at_abs hw.1 hlt] at h1
    exact c11_obs hw.1 (by simp only [spec, h1, bindR_ok])
  · rw [(at_throw hw.1 (idx := i) (by omega)).1] at h1; cases h1

theorem c11_iterFwd (hc : CfgOK c) (hw : WFW c cu w) : C11Holds c cu w .iterFwd := by
  intro w' o h
  simp only [step] at h
  obtain ⟨a, h1, rfl, rfl⟩ := obs_inv h
  rw [iterFwd_abs hc hw.1] at h1; cases h1
  exact c11_obs hw.1 (by simp only [spec])

theorem c11_iterCFwd (hc : CfgOK c) (hw : WFW c cu w) : C11Holds c cu w .iterCFwd := by
  intro w' o h
  simp only [step] at h
  obtain ⟨a, h1, rfl, rfl⟩ := obs_inv h
  rw [iterFwd_abs hc hw.1] at h1; cases h1
  exact c11_obs hw.1 (by simp only [spec])

theorem c11_iterRev (hc : CfgOK c) (hw : WFW c cu w) : C11Holds c cu w .iterRev := by
  intro w' o h
  simp only [step] at h
  obtain ⟨a, h1, rfl, rfl⟩ := obs_inv h
  rw [iterRev_abs hc hw.1] at h1; cases h1
  exact c11_obs hw.1 (by simp only [spec])

theorem c11_iterCRev (hc : CfgOK c) (hw : WFW c cu w) : C11Holds c cu w .iterCRev := by
  intro w' o h
  simp only [step] at h
  obtain ⟨a, h1, rfl, rfl⟩ := obs_inv h
  rw [iterRev_abs hc hw.1] at h1; cases h1
  exact c11_obs hw.1 (by simp only [spec])

theorem c11_substr (hw : WFW c cu w) (p n : Nat) (hd : inDomain (npos c) w (.substr p n) = true) :
    C11Holds c cu w (.substr p n) := by
  intro w' o h
  simp only [step] at h
  obtain ⟨a, h1, rfl, rfl⟩ := obs_inv h
  simp only [inDomain, abs_length hw.1] at hd
  have hp : p ≤ w'.s.len := by simpa using hd
  rw [substr_abs hw.1 p n hp] at h1; cases h1
  refine c11_obs hw.1 ?_
  simp only [spec, StdString.substr]
  rw [if_neg (by rw [abs_length hw.1]; omega), bindR_ok]

theorem c11_substrP (hw : WFW c cu w) (p : Nat) (hd : inDomain (npos c) w (.substrP p) = true) :
    C11Holds c cu w (.substrP p) := by
  intro w' o h
  simp only [step] at h
  obtain ⟨a, h1, rfl, rfl⟩ := obs_inv h
  simp only [inDomain, abs_length hw.1] at hd
  have hp : p ≤ w'.s.len := by simpa using hd
  rw [substr_abs hw.1 p _ hp] at h1; cases h1
  refine c11_obs hw.1 ?_
  simp only [spec, StdString.substr]
  rw [if_neg (by rw [abs_length hw.1]; omega), bindR_ok]

theorem c11_eq (hw : WFW c cu w) (f : Sel) : C11Holds c cu w (.eq f) := by
  intro w' o h
  simp only [step] at h
  obtain ⟨a, h1, rfl, rfl⟩ := obs_inv h
  obtain ⟨co, ho⟩ := sel_wf hw f
  rw [eqOp_abs hw.1 ho] at h1; cases h1
  refine c11_obs hw.1 ?_
  simp only [spec, World.text]
  congr 3
  by_cases he : abs w'.s = abs (w'.sel f) <;> simp [he]

theorem c11_ne (hw : WFW c cu w) (f : Sel) : C11Holds c cu w (.ne f) := by
  intro w' o h
  simp only [step] at h
  obtain ⟨a, h1, rfl, rfl⟩ := obs_inv h
  obtain ⟨co, ho⟩ := sel_wf hw f
  rw [neOp_abs hw.1 ho] at h1; cases h1
  refine c11_obs hw.1 ?_
  simp only [spec, World.text]
  congr 3
  by_cases he : abs w'.s = abs (w'.sel f) <;> simp [he]

theorem sel_take (hw : WFW c cu w) (f : Sel) : (w.sel f).buf.take (w.sel f).len = w.text f := rfl

theorem c11_cmpF (hw : WFW c cu w) (f : Sel) : C11Holds c cu w (.cmpF f) := by
  intro w' o h
  simp only [step] at h
  obtain ⟨a, h1, rfl, rfl⟩ := obs_inv h
  rw [fullCompare_abs hw.1 (sel_len hw f)] at h1; cases h1
  exact c11_obs hw.1 (by simp only [spec, World.text, abs])

theorem c11_cmpS (hw : WFW c cu w) (d : Str) : C11Holds c cu w (.cmpS d) := by
  intro w' o h
  simp only [step] at h
  obtain ⟨a, h1, rfl, rfl⟩ := obs_inv h
  rw [fullCompare_abs hw.1 (by simp), List.take_left' rfl] at h1; cases h1
  exact c11_obs hw.1 (by simp only [spec])

theorem c11_swF (hw : WFW c cu w) (f : Sel) : C11Holds c cu w (.swF f) := by
  intro w' o h
  simp only [step] at h
  obtain ⟨a, h1, rfl, rfl⟩ := obs_inv h
  rw [startsWith_abs hw.1 (sel_len hw f)] at h1; cases h1
  exact c11_obs hw.1 (by simp only [spec, World.text, abs])

theorem c11_swS (hw : WFW c cu w) (d : Str) : C11Holds c cu w (.swS d) := by
  intro w' o h
  simp only [step] at h
  obtain ⟨a, h1, rfl, rfl⟩ := obs_inv h
  rw [startsWith_abs hw.1 (by simp), List.take_left' rfl] at h1; cases h1
  exact c11_obs hw.1 (by simp only [spec])

theorem c11_ewF (hw : WFW c cu w) (f : Sel) : C11Holds c cu w (.ewF f) := by
  intro w' o h
  simp only [step] at h
  obtain ⟨a, h1, rfl, rfl⟩ := obs_inv h
  rw [endsWith_abs hw.1 (sel_len hw f)] at h1; cases h1
  exact c11_obs hw.1 (by simp only [spec, World.text, abs])

theorem c11_ewS (hw : WFW c cu w) (d : Str) : C11Holds c cu w (.ewS d) := by
  intro w' o h
  simp only [step] at h
  obtain ⟨a, h1, rfl, rfl⟩ := obs_inv h
  rw [endsWith_abs hw.1 (by simp), List.take_left' rfl] at h1; cases h1
  exact c11_obs hw.1 (by simp only [spec])

theorem c11_copy (hw : WFW c cu w) (n p : Nat) (hd : inDomain (npos c) w (.copy n p) = true) :
    C11Holds c cu w (.copy n p) := by
  intro w' o h
  simp only [step] at h
  obtain ⟨a, h1, rfl, rfl⟩ := obs_inv h
  simp only [inDomain, abs_length hw.1] at hd
  have hp : p ≤ w'.s.len := by simpa using hd
  have hroom : min n (w'.s.len - p) ≤ (if p < w'.s.len then min n (w'.s.len - p) else 0) := by
    split
    · exact Nat.le_refl _
    · have : w'.s.len - p = 0 := by omega
      rw [this]; simp
  rw [copy_abs hw.1 hp hroom] at h1
  cases h1
  refine c11_obs hw.1 ?_
  simp only [spec, StdString.copy]
  rw [if_neg (by rw [abs_length hw.1]; omega), bindR_ok]

theorem c11_copyC (hw : WFW c cu w) (n : Nat) : C11Holds c cu w (.copyC n) := by
  intro w' o h
  simp only [step] at h
  obtain ⟨a, h1, rfl, rfl⟩ := obs_inv h
  rw [copy_abs hw.1 (Nat.zero_le _) (by simp)] at h1
  cases h1
  refine c11_obs hw.1 ?_
  simp only [spec, StdString.copy]
  rw [if_neg (by omega), bindR_ok]

end CelmaVerif.FixedString
