import CelmaVerif.Lemmas.SubGroupsValueList
/-
  Frame of the sub-group branch of `Handler::processArg` (model `processArgT`, SubGroups.lean:138-146)
  and the composition of the element loop across it (audit3, weakness 4):

  * `SubTakes`: a relational reading of the `while` loop `subLoop` — which elements the sub handler
    consumes, which cursor is handed back to the caller, and at which element the loop stopped;
  * `processArgT_sub_frame`: the branch leaves `t.main.args` (destinations, counters of the MAIN
    handler) unchanged, writes the sub handler's state `j` only, and hands back the cursor whose
    successor is the first element the sub handler did not consume;
  * `FreeWords`: from a cursor on only value elements follow, up to the end;
  * `iterateLoopT_free_words`: the element loop over free words from a state without last argument.
-/
namespace CelmaVerif.ProgArgs
open CelmaVerif CelmaVerif.Keys

/-- `SubTakes sc sh ai subAI sh' ai' stop`: the loop `while (subAI != end && sub->evalSingleArgument(
    subAI, end) == consumed) ai = subAI++;` started with the sub handler in state `sh`, the caller's
    cursor `ai` and its copy `subAI`, ends with the sub handler in state `sh'`, the caller's cursor
    `ai'` and the copy on `stop`: `stop` is the end cursor, or the first element the sub handler
    answered anything but `consumed` to; every element before it was consumed by the sub handler. -/
inductive SubTakes (sc : Cfg) : HState → It → It → HState → It → It → Prop
  | atEnd (sh : HState) (ai subAI : It) : subAI.atEnd = true → SubTakes sc sh ai subAI sh ai subAI
  | refused (sh sh' : HState) (ai subAI subAI' : It) (r : ArgResult) :
      subAI.atEnd = false → evalSingleArgument sc sh subAI = .ok (sh', subAI', r) → r ≠ .consumed →
      SubTakes sc sh ai subAI sh' ai subAI
  | take (sh sh' sh'' : HState) (ai subAI subAI' next ai'' stop : It) :
      subAI.atEnd = false → evalSingleArgument sc sh subAI = .ok (sh', subAI', .consumed) →
      subAI'.step = .ok next → SubTakes sc sh' subAI' next sh'' ai'' stop →
      SubTakes sc sh ai subAI sh'' ai'' stop

/-- what `subLoop` returns is a `SubTakes` run (for every fuel) -/
theorem subLoop_subTakes (sc : Cfg) : ∀ (fuel : Nat) (sh : HState) (ai subAI : It) (sh' : HState) (ai' : It),
    subLoop sc fuel sh ai subAI = .ok (sh', ai') → ∃ stop, SubTakes sc sh ai subAI sh' ai' stop := by
  intro fuel
  induction fuel with
  | zero => intro sh ai subAI sh' ai' h; unfold subLoop at h; cases h
  | succ n ih =>
    intro sh ai subAI sh' ai' h
    unfold subLoop at h
    cases he : subAI.atEnd with
    | true =>
      rw [he] at h
      simp only [if_true] at h
      cases h
      exact ⟨subAI, .atEnd sh ai subAI he⟩
    | false =>
      rw [he] at h
      simp only [Bool.false_eq_true, if_false] at h
      cases h1 : evalSingleArgument sc sh subAI with
      | throw e => rw [h1] at h; cases h
      | oob w => rw [h1] at h; cases h
      | ok x =>
        obtain ⟨sh1, subAI1, r⟩ := x
        rw [h1] at h
        simp only [Res.bind_ok] at h
        by_cases hr : r = .consumed
        · rw [if_pos hr] at h
          cases h2 : subAI1.step with
          | throw e => rw [h2] at h; cases h
          | oob w => rw [h2] at h; cases h
          | ok next =>
            rw [h2] at h
            simp only [Res.bind_ok] at h
            obtain ⟨stop, hst⟩ := ih sh1 subAI1 next sh' ai' h
            subst hr
            exact ⟨stop, .take sh sh1 sh' ai subAI subAI1 next ai' stop he h1 h2 hst⟩
        · rw [if_neg hr] at h
          cases h
          exact ⟨subAI, .refused sh _ _ subAI subAI1 r he h1 hr⟩

/-- the cursor handed back is the one just before the element the loop stopped at: the caller's
    `++ai` lands on the first element the sub handler did not consume -/
theorem SubTakes.handed_back {sc : Cfg} {sh sh' : HState} {ai subAI ai' stop : It}
    (h : SubTakes sc sh ai subAI sh' ai' stop) (hstep : ai.step = .ok subAI) : ai'.step = .ok stop := by
  induction h with
  | atEnd sh ai subAI _ => exact hstep
  | refused sh sh' ai subAI subAI' r _ _ _ => exact hstep
  | take sh sh' sh'' ai subAI subAI' next ai'' stop _ _ h3 _ ih => exact ih h3

/-- at the element the loop stopped at, the sub handler did not answer `consumed` (or it is the end) -/
theorem SubTakes.stop_not_consumed {sc : Cfg} {sh sh' : HState} {ai subAI ai' stop : It}
    (h : SubTakes sc sh ai subAI sh' ai' stop) :
    stop.atEnd = true ∨ (stop.atEnd = false ∧ ∃ sh0 sa r, evalSingleArgument sc sh0 stop = .ok (sh', sa, r) ∧
      r ≠ .consumed) := by
  induction h with
  | atEnd sh ai subAI he => exact Or.inl he
  | refused sh sh' ai subAI subAI' r he h1 hr => exact Or.inr ⟨he, sh, subAI', r, h1, hr⟩
  | take _ _ _ _ _ _ _ _ _ _ _ _ _ ih => exact ih

/-- the loop is deterministic: started in the same state on the same cursors it ends in the same state,
    hands back the same cursor and stops at the same element -/
theorem SubTakes.functional {sc : Cfg} {sh sh1 sh2 : HState} {ai subAI ai1 ai2 stop1 stop2 : It}
    (h : SubTakes sc sh ai subAI sh1 ai1 stop1) (h' : SubTakes sc sh ai subAI sh2 ai2 stop2) :
    sh1 = sh2 ∧ ai1 = ai2 ∧ stop1 = stop2 := by
  induction h generalizing sh2 ai2 stop2 with
  | atEnd sh ai subAI he =>
    cases h' with
    | atEnd _ _ _ _ => exact ⟨rfl, rfl, rfl⟩
    | refused _ _ _ _ _ _ he' _ _ => rw [he] at he'; cases he'
    | take _ _ _ _ _ _ _ _ _ he' _ _ _ => rw [he] at he'; cases he'
  | refused sh sh' ai subAI subAI' r he h1 hr =>
    cases h' with
    | atEnd _ _ _ he' => rw [he] at he'; cases he'
    | refused _ _ _ _ _ _ _ h1' _ => rw [h1] at h1'; cases h1'; exact ⟨rfl, rfl, rfl⟩
    | take _ _ _ _ _ _ _ _ _ _ h1' _ _ => rw [h1] at h1'; cases h1'; exact absurd rfl hr
  | take sh sh' sh'' ai subAI subAI' next ai'' stop he h1 h2 _ ih =>
    cases h' with
    | atEnd _ _ _ he' => rw [he] at he'; cases he'
    | refused _ _ _ _ _ _ _ h1' hr' => rw [h1] at h1'; cases h1'; exact absurd rfl hr'
    | take _ _ _ _ _ _ _ _ _ _ h1' h2' hrest =>
      rw [h1] at h1'; cases h1'
      rw [h2] at h2'; cases h2'
      exact ih hrest

/-- `handleIdentifiedSub` writes the main handler's constraint bookkeeping and the sub-group
    argument's own state; destinations and counters of the main handler, its last argument and the
    sub handlers' states are untouched -/
theorem handleIdentifiedSub_frame {cfg : TCfg} {t t1 : TState} {j : Nat} {d : SubDef}
    (h : handleIdentifiedSub cfg t j d = .ok t1) :
    t1.main.args = t.main.args ∧ t1.main.lastArg = t.main.lastArg ∧ t1.subs = t.subs ∧
    t1.main.uses = t.main.uses ∧ t1.main.fromSrc = t.main.fromSrc := by
  unfold handleIdentifiedSub at h
  cases h1 : pendingIdentified d.key t.main.pending with
  | throw e => rw [h1] at h; cases h
  | oob w => rw [h1] at h; cases h
  | ok p =>
    rw [h1] at h
    simp only [Res.bind_ok] at h
    cases h2 : executeGlobals cfg.main.globals t.main.globals d.key with
    | throw e => rw [h2] at h; cases h
    | oob w => rw [h2] at h; cases h
    | ok g =>
      rw [h2] at h
      simp only [Res.bind_ok] at h
      cases h3 : throwIf d.deprecated Exc.runtime_error with
      | throw e => rw [h3] at h; cases h
      | oob w => rw [h3] at h; cases h
      | ok _ =>
        rw [h3] at h
        simp only [Res.bind_ok] at h
        cases h4 : countValue t.main.fromSrc d.card (t.subArgs.getD j default).cnt with
        | throw e => rw [h4] at h; cases h
        | oob w => rw [h4] at h; cases h
        | ok cnt =>
          rw [h4] at h
          simp only [Res.bind_ok] at h
          cases h5 : throwIf t.main.inverted Exc.runtime_error with
          | throw e => rw [h5] at h; cases h
          | oob w => rw [h5] at h; cases h
          | ok _ =>
            rw [h5] at h
            simp only [Res.bind_ok, Res.pure_eq] at h
            cases h
            exact ⟨rfl, rfl, rfl, rfl, rfl⟩

/-- **Frame of the sub-group branch.**  If `processArg` on a key that designates the sub-group
    argument `(j, d)` returns, then
    * the main handler's argument states (destinations AND cardinality counters) are exactly those
      before the call — whatever the last argument was, nothing is appended to it;
    * the main handler has no last argument afterwards, the answer is `consumed`;
    * only the state of sub handler `j` is written: it is the state a `SubTakes` run of the sub
      handler ends in, started on the element after the key;
    * the cursor handed back is the one whose successor is `stop`, the first element the sub handler
      did not consume (the end cursor, or an element it answered `unknown`/`last` to). -/
theorem processArgT_sub_frame (cfg : TCfg) (t t' : TState) (key : Key) (ai ai' : It) (r : ArgResult)
    (j : Nat) (d : SubDef)
    (hs : findSub cfg.main.abbr cfg.subTable cfg.main.table key = .ok (some (j, d)))
    (hp : processArgT cfg t key ai = .ok (t', ai', r)) :
    t'.main.args = t.main.args ∧ t'.main.lastArg = none ∧ r = .consumed ∧
    t'.main.uses = t.main.uses ∧ t'.main.fromSrc = t.main.fromSrc ∧
    ∃ s sh stop, ai.step = .ok s ∧ SubTakes d.sub (t.subs.getD j default) ai s sh ai' stop ∧
      ai'.step = .ok stop ∧ t'.subs = t.subs.set j sh := by
  unfold processArgT at hp
  rw [hs] at hp
  simp only [Res.bind_ok] at hp
  cases h1 : handleIdentifiedSub cfg t j d with
  | throw e => rw [h1] at hp; cases hp
  | oob w => rw [h1] at hp; cases hp
  | ok t1 =>
    rw [h1] at hp
    simp only [Res.bind_ok] at hp
    cases h2 : ai.step with
    | throw e => rw [h2] at hp; cases hp
    | oob w => rw [h2] at hp; cases hp
    | ok s =>
      rw [h2] at hp
      simp only [Res.bind_ok] at hp
      cases h3 : subLoop d.sub (totalChars ai.argv) (t1.subs.getD j default) ai s with
      | throw e => rw [h3] at hp; cases hp
      | oob w => rw [h3] at hp; cases hp
      | ok x =>
        obtain ⟨sh, a1⟩ := x
        rw [h3] at hp
        simp only [Res.bind_ok, Res.pure_eq] at hp
        cases hp
        obtain ⟨f1, _, f3, f4, f5⟩ := handleIdentifiedSub_frame h1
        rw [f3] at h3
        obtain ⟨stop, hst⟩ := subLoop_subTakes d.sub _ _ _ _ _ _ h3
        refine ⟨f1, rfl, rfl, f4, f5, s, sh, stop, rfl, hst, hst.handed_back h2, ?_⟩
        show t1.subs.set j sh = t.subs.set j sh
        rw [f3]

/-! ## the element loop, one step and over free words -/

/-- one turn of the element loop on an element that is answered `consumed` -/
theorem iterateLoopT_consumed (cfg : TCfg) (fuel : Nat) (t t' : TState) (ai ai' nxt : It)
    (hne : ai.atEnd = false) (he : evalSingleArgumentT cfg t ai = .ok (t', ai', .consumed))
    (hstep : ai'.step = .ok nxt) :
    iterateLoopT cfg (fuel + 1) t ai = iterateLoopT cfg fuel t' nxt := by
  conv => lhs; unfold iterateLoopT
  rw [hne, he]
  simp only [Bool.false_eq_true, if_false, Res.bind_ok, hstep]

/-- `FreeWords av ws`: from the cursor `av` on, only value elements follow up to the end of the
    argument list; `ws` are their words in order -/
inductive FreeWords : It → List Word → Prop
  | done (av : It) : av.atEnd = true → FreeWords av []
  | word (av nxt : It) (ws : List Word) : av.atEnd = false → av.cur.ty = .value → av.step = .ok nxt →
      FreeWords nxt ws → FreeWords av (av.cur.val :: ws)

/-- free words handed one after the other to the positional argument `p` of a handler (each through
    `handleIdentifiedArg`, as for an identified key) -/
def positionalFold (c : Cfg) (p : Nat) (pd : ArgDef) : List Word → HState → Res HState
  | [], h => .ok h
  | w :: ws, h => handleIdentifiedArg c h p pd w >>= positionalFold c p pd ws

/-- `positionalFold` writes the state of argument `p` only and keeps the last argument -/
theorem positionalFold_frame {c : Cfg} {p : Nat} {pd : ArgDef} : ∀ (ws : List Word) {h h' : HState},
    positionalFold c p pd ws h = .ok h' →
    h'.lastArg = h.lastArg ∧ ∀ k, k ≠ p → h'.args[k]? = h.args[k]? := by
  intro ws
  induction ws with
  | nil => intro h h' e; unfold positionalFold at e; cases e; exact ⟨rfl, fun _ _ => rfl⟩
  | cons w ws ih =>
    intro h h' e
    unfold positionalFold at e
    cases h1 : handleIdentifiedArg c h p pd w with
    | throw x => rw [h1] at e; cases e
    | oob x => rw [h1] at e; cases e
    | ok hm =>
      rw [h1] at e
      simp only [Res.bind_ok] at e
      obtain ⟨a, b⟩ := ih e
      refine ⟨by rw [a, (handleIdentifiedArg_frame h1).2.1], fun k hk => ?_⟩
      rw [b k hk, handleIdentifiedArg_args_other h1 k hk]

/-- a value element met by a tree whose main handler has no last argument and a positional argument -/
theorem evalSingleArgumentT_value_pos (cfg : TCfg) (t : TState) (av : It) (p : Nat) (pd : ArgDef)
    (hl : t.main.lastArg = none) (hv : av.cur.ty = .value)
    (hpos : findArg cfg.main.abbr cfg.main.table Key.pos = .ok (some (p, pd))) :
    evalSingleArgumentT cfg t av =
      liftMain t (handleIdentifiedArg cfg.main t.main p pd av.cur.val >>= fun h' => pure (h', av, .consumed)) := by
  unfold evalSingleArgumentT
  rw [hv]
  dsimp only
  rw [evalSingleArgument_value_none cfg.main t.main av hv hl, hpos]
  rfl

/-- **The element loop over free words, no last argument, positional argument `p`.**  If the loop
    returns, the main handler's state is the fold of the words into the positional argument, and
    nothing else of the tree changed. -/
theorem iterateLoopT_free_words (cfg : TCfg) (p : Nat) (pd : ArgDef)
    (hpos : findArg cfg.main.abbr cfg.main.table Key.pos = .ok (some (p, pd))) :
    ∀ (fuel : Nat) (t tf : TState) (av : It) (ws : List Word), t.main.lastArg = none → FreeWords av ws →
      iterateLoopT cfg fuel t av = .ok tf →
      positionalFold cfg.main p pd ws t.main = .ok tf.main ∧ tf = { t with main := tf.main } := by
  intro fuel
  induction fuel with
  | zero => intro t tf av ws _ _ h; unfold iterateLoopT at h; cases h
  | succ n ih =>
    intro t tf av ws hl hw h
    cases hw with
    | done _ he =>
      unfold iterateLoopT at h
      rw [he] at h
      simp only [if_true] at h
      cases h
      exact ⟨rfl, rfl⟩
    | word _ nxt ws' hne hv hstep hrest =>
      have he := evalSingleArgumentT_value_pos cfg t av p pd hl hv hpos
      cases hh : handleIdentifiedArg cfg.main t.main p pd av.cur.val with
      | throw x =>
        unfold iterateLoopT at h
        rw [hne, he, hh] at h
        cases h
      | oob x =>
        unfold iterateLoopT at h
        rw [hne, he, hh] at h
        cases h
      | ok h1 =>
        rw [hh] at he
        have he' : evalSingleArgumentT cfg t av = .ok ({ t with main := h1 }, av, .consumed) := he
        rw [iterateLoopT_consumed cfg n t _ av av nxt hne he' hstep] at h
        have hl1 : ({ t with main := h1 } : TState).main.lastArg = none := by
          show h1.lastArg = none
          rw [(handleIdentifiedArg_frame hh).2.1]; exact hl
        obtain ⟨a, b⟩ := ih _ tf nxt ws' hl1 hrest h
        refine ⟨?_, ?_⟩
        · unfold positionalFold
          rw [hh]
          exact a
        · rw [b]

/-- the element loop on a free word from a state without last argument, no positional argument:
    std::invalid_argument -/
theorem iterateLoopT_free_word_refused (cfg : TCfg) (fuel : Nat) (t : TState) (av : It)
    (hl : t.main.lastArg = none) (hne : av.atEnd = false) (hv : av.cur.ty = .value)
    (hpos : findArg cfg.main.abbr cfg.main.table Key.pos = .ok none) :
    iterateLoopT cfg (fuel + 1) t av = .throw .invalid_argument := by
  have he : evalSingleArgumentT cfg t av = .ok (t, av, .unknown) := by
    unfold evalSingleArgumentT
    rw [hv]
    dsimp only
    rw [evalSingleArgument_value_none cfg.main t.main av hv hl, hpos]
    rfl
  unfold iterateLoopT
  rw [hne, he]
  rfl

/-! ## the running value list before the sub-group argument -/

/-- `ValueRun av vs ag`: starting at the cursor `av`, the value elements with the words `vs` follow
    one after the other, and the cursor after the last of them is `ag` (any element, or the end) -/
inductive ValueRun : It → List Word → It → Prop
  | done (av : It) : ValueRun av [] av
  | word (av nxt ag : It) (vs : List Word) : av.atEnd = false → av.cur.ty = .value → av.step = .ok nxt →
      ValueRun nxt vs ag → ValueRun av (av.cur.val :: vs) ag

/-- free values given one after the other to the multi-value argument `i` (`assignValue`, no key
    identified) -/
def multiFold (i : Nat) (dv : ArgDef) : List Word → HState → Res HState
  | [], h => .ok h
  | w :: ws, h => assignValue h i dv w >>= multiFold i dv ws

theorem multiFold_frame {i : Nat} {dv : ArgDef} : ∀ (ws : List Word) {h h' : HState},
    multiFold i dv ws h = .ok h' →
    h'.lastArg = h.lastArg ∧ ∀ k, k ≠ i → h'.args[k]? = h.args[k]? := by
  intro ws
  induction ws with
  | nil => intro h h' e; unfold multiFold at e; cases e; exact ⟨rfl, fun _ _ => rfl⟩
  | cons w ws ih =>
    intro h h' e
    unfold multiFold at e
    cases h1 : assignValue h i dv w with
    | throw x => rw [h1] at e; cases e
    | oob x => rw [h1] at e; cases e
    | ok hm =>
      rw [h1] at e
      simp only [Res.bind_ok] at e
      obtain ⟨a, b⟩ := ih e
      refine ⟨by rw [a, (assignValue_frame h1).2.1], fun k hk => ?_⟩
      rw [b k hk, assignValue_args_other h1 k hk]

/-- **The element loop over a running value list.**  Main handler's last argument `i` takes multiple
    values: the loop gives the words `vs` to `i` and goes on at `ag` with `i` still the last argument
    and nothing else of the tree changed.  (Stated for runs that return.) -/
theorem iterateLoopT_value_run (cfg : TCfg) (i : Nat) (dv : ArgDef) (hd : cfg.main.args[i]? = some dv)
    (hm : dv.multi = true) :
    ∀ (vs : List Word) (fuel : Nat) (t tf : TState) (av ag : It), t.main.lastArg = some i → ValueRun av vs ag →
      iterateLoopT cfg (fuel + vs.length) t av = .ok tf →
      ∃ h1, multiFold i dv vs t.main = .ok h1 ∧ iterateLoopT cfg fuel { t with main := h1 } ag = .ok tf := by
  intro vs
  induction vs with
  | nil =>
    intro fuel t tf av ag _ hw h
    cases hw
    exact ⟨t.main, rfl, h⟩
  | cons v vs ih =>
    intro fuel t tf av ag hl hw h
    cases hw with
    | word _ nxt _ _ hne hv hstep hrest =>
      have he : evalSingleArgumentT cfg t av =
          liftMain t (assignValue t.main i dv av.cur.val >>= fun h' => pure (h', av, .consumed)) := by
        unfold evalSingleArgumentT
        rw [hv]
        dsimp only
        rw [evalSingleArgument_value_multi cfg.main t.main av (Or.inl hv) i dv hl hd hm]
      have hlen : fuel + (av.cur.val :: vs).length = (fuel + vs.length) + 1 := by
        simp only [List.length_cons]; omega
      rw [hlen] at h
      cases hh : assignValue t.main i dv av.cur.val with
      | throw x =>
        unfold iterateLoopT at h
        rw [hne, he, hh] at h
        cases h
      | oob x =>
        unfold iterateLoopT at h
        rw [hne, he, hh] at h
        cases h
      | ok h1 =>
        rw [hh] at he
        have he' : evalSingleArgumentT cfg t av = .ok ({ t with main := h1 }, av, .consumed) := he
        rw [iterateLoopT_consumed cfg _ t _ av av nxt hne he' hstep] at h
        have hl1 : ({ t with main := h1 } : TState).main.lastArg = some i := by
          show h1.lastArg = some i
          rw [(assignValue_frame hh).2.1]; exact hl
        obtain ⟨h2, a, b⟩ := ih fuel _ tf nxt ag hl1 hrest h
        refine ⟨h2, ?_, b⟩
        unfold multiFold
        rw [hh]
        exact a

/-- the same as an equation, for value lists the multi-value argument accepts: the loop over the
    value run IS the loop from `ag` in the state after the fold (whatever that one answers) -/
theorem iterateLoopT_value_run_eq (cfg : TCfg) (i : Nat) (dv : ArgDef) (hd : cfg.main.args[i]? = some dv)
    (hm : dv.multi = true) :
    ∀ (vs : List Word) (fuel : Nat) (t : TState) (h1 : HState) (av ag : It), t.main.lastArg = some i →
      ValueRun av vs ag → multiFold i dv vs t.main = .ok h1 →
      iterateLoopT cfg (fuel + vs.length) t av = iterateLoopT cfg fuel { t with main := h1 } ag := by
  intro vs
  induction vs with
  | nil =>
    intro fuel t h1 av ag _ hw hf
    cases hw
    unfold multiFold at hf
    cases hf
    rfl
  | cons v vs ih =>
    intro fuel t h1 av ag hl hw hf
    cases hw with
    | word _ nxt _ _ hne hv hstep hrest =>
      have he : evalSingleArgumentT cfg t av =
          liftMain t (assignValue t.main i dv av.cur.val >>= fun h' => pure (h', av, .consumed)) := by
        unfold evalSingleArgumentT
        rw [hv]
        dsimp only
        rw [evalSingleArgument_value_multi cfg.main t.main av (Or.inl hv) i dv hl hd hm]
      have hlen : fuel + (av.cur.val :: vs).length = (fuel + vs.length) + 1 := by
        simp only [List.length_cons]; omega
      rw [hlen]
      unfold multiFold at hf
      cases hh : assignValue t.main i dv av.cur.val with
      | throw x => rw [hh] at hf; cases hf
      | oob x => rw [hh] at hf; cases hf
      | ok hmid =>
        rw [hh] at hf he
        simp only [Res.bind_ok] at hf
        have he' : evalSingleArgumentT cfg t av = .ok ({ t with main := hmid }, av, .consumed) := he
        rw [iterateLoopT_consumed cfg _ t _ av av nxt hne he' hstep]
        have hl1 : ({ t with main := hmid } : TState).main.lastArg = some i := by
          show hmid.lastArg = some i
          rw [(assignValue_frame hh).2.1]; exact hl
        exact ih fuel _ h1 nxt ag hl1 hrest hf

/-- a cursor on a key element and the key it carries (`-c` ⇒ the character, `--name` ⇒ `wordKey`) -/
def IsKeyElem (ai : It) (key : Key) : Prop :=
  (ai.cur.ty = .singleCharArg ∧ key = Key.ofChar ai.cur.ch) ∨
  (ai.cur.ty = .stringArg ∧ wordKey ai.cur.str = .ok key)

theorem evalSingleArgumentT_key (cfg : TCfg) (t : TState) (ai : It) (key : Key) (hk : IsKeyElem ai key) :
    evalSingleArgumentT cfg t ai = processArgT cfg t key ai := by
  unfold evalSingleArgumentT
  rcases hk with ⟨h1, h2⟩ | ⟨h1, h2⟩
  · rw [h1, h2]
  · rw [h1]; dsimp only; rw [h2]; rfl

/-! ## the witness `-v 1 2 -g -x 5 7 8` on the tree `vlCfg`, cursor by cursor -/

instance : Inhabited It := ⟨{ argv := [], argIndex := 0, charPos := 0, cur := {} }⟩
instance : Inhabited ArgResult := ⟨.unknown⟩

/-- the value of a result that is `.ok` -/
def okVal {α : Type} [Inhabited α] : Res α → α
  | .ok a => a
  | _ => default

theorem okVal_eq {α : Type} [Inhabited α] {r : Res α} (h : r.isOk = true) : r = .ok (okVal r) := by
  cases r with
  | ok a => rfl
  | throw e => cases h
  | oob w => cases h

def vlArgv8 : List Word := sgArgv ["-v", "1", "2", "-g", "-x", "5", "7", "8"]
/-- the cursor on `-v` -/
def vlCurV : It := okVal (It.begin vlArgv8)
/-- `evalSingleArgument` on `-v` (takes the value `1`): state and cursor afterwards -/
def vlAfterV (pos : Bool) : TState × It × ArgResult :=
  okVal (evalSingleArgumentT (vlCfg pos) ((vlCfg pos).initState vlInits) vlCurV)
/-- the cursor on the free value `2` -/
def vlCur2 (pos : Bool) : It := okVal (vlAfterV pos).2.1.step
/-- the cursor on `-g` -/
def vlCurG (pos : Bool) : It := okVal (vlCur2 pos).step
/-- the main handler after `-v 1 2` -/
def vlMainAfterValues (pos : Bool) : HState :=
  okVal (multiFold 0 { key := ⟨some 'v', []⟩, kind := .vecInt, vmode := .required, card := .unlimited, multi := true }
    [(vlCur2 pos).cur.val] (vlAfterV pos).1.main)
/-- the sub-group branch on `-g` -/
def vlAfterG (pos : Bool) : TState × It × ArgResult :=
  okVal (processArgT (vlCfg pos) { (vlAfterV pos).1 with main := vlMainAfterValues pos } ⟨some 'g', []⟩ (vlCurG pos))
/-- the cursor on `7`, the first word the sub handler did not take -/
def vlCur7 (pos : Bool) : It := okVal (vlAfterG pos).2.1.step
/-- what the element loop returns from the cursor on `2` -/
def vlLoopFrom2 (pos : Bool) : TState := okVal (iterateLoopT (vlCfg pos) 20 (vlAfterV pos).1 (vlCur2 pos))

/-! the hypotheses of the C06s end-to-end theorems on that witness, one by one -/

def vlDefV : ArgDef := { key := ⟨some 'v', []⟩, kind := .vecInt, vmode := .required, card := .unlimited, multi := true }
def vlDefPos : ArgDef := { key := Key.pos, kind := .vecInt, vmode := .required, card := .unlimited }
def vlSubDef : SubDef := { key := ⟨some 'g', []⟩, sub := vlSub }

example : (vlCur2 true).cur.val = "2".toList ∧ (vlCurG true).cur.ch = 'g' ∧ (vlCur7 true).cur.val = "7".toList ∧
    (vlCur7 true).cur.ty = .value := by decide +kernel

theorem vl_step2 (pos : Bool) : (vlCur2 pos).step = .ok (vlCurG pos) := by
  unfold vlCurG; exact okVal_eq (by cases pos <;> decide +kernel)

theorem vl_value_run (pos : Bool) : ValueRun (vlCur2 pos) [(vlCur2 pos).cur.val] (vlCurG pos) :=
  .word _ (vlCurG pos) _ [] (by cases pos <;> decide +kernel) (by cases pos <;> decide +kernel) (vl_step2 pos) (.done _)

theorem vl_key_elem (pos : Bool) : IsKeyElem (vlCurG pos) ⟨some 'g', []⟩ :=
  Or.inl ⟨by cases pos <;> decide +kernel, by cases pos <;> decide +kernel⟩

theorem vl_hd (pos : Bool) : (vlCfg pos).main.args[0]? = some vlDefV := by cases pos <;> rfl
theorem vl_hs (pos : Bool) : findSub (vlCfg pos).main.abbr (vlCfg pos).subTable (vlCfg pos).main.table ⟨some 'g', []⟩ = .ok (some (0, vlSubDef)) := by
  cases pos <;> rfl
theorem vl_hpos_t : findArg (vlCfg true).main.abbr (vlCfg true).main.table Key.pos = .ok (some (2, vlDefPos)) := rfl
theorem vl_hpos_f : findArg (vlCfg false).main.abbr (vlCfg false).main.table Key.pos = .ok none := rfl
theorem vl_hl (pos : Bool) : (vlAfterV pos).1.main.lastArg = some 0 := by cases pos <;> decide +kernel
theorem vl_gne (pos : Bool) : (vlCurG pos).atEnd = false := by cases pos <;> decide +kernel
theorem vl_run_t : iterateLoopT (vlCfg true) (18 + 1 + [(vlCur2 true).cur.val].length) (vlAfterV true).1 (vlCur2 true) = .ok (vlLoopFrom2 true) := by
  unfold vlLoopFrom2; exact okVal_eq (by decide +kernel)

theorem vl_hf (pos : Bool) : multiFold 0 vlDefV [(vlCur2 pos).cur.val] (vlAfterV pos).1.main = .ok (vlMainAfterValues pos) := by
  unfold vlMainAfterValues; exact okVal_eq (by cases pos <;> decide +kernel)
theorem vl_hp0 (pos : Bool) : processArgT (vlCfg pos) { (vlAfterV pos).1 with main := vlMainAfterValues pos } ⟨some 'g', []⟩ (vlCurG pos)
    = .ok (vlAfterG pos) := by
  unfold vlAfterG; exact okVal_eq (by cases pos <;> decide +kernel)
theorem vl_hp (pos : Bool) : processArgT (vlCfg pos) { (vlAfterV pos).1 with main := vlMainAfterValues pos } ⟨some 'g', []⟩ (vlCurG pos)
    = .ok ((vlAfterG pos).1, (vlAfterG pos).2.1, (vlAfterG pos).2.2) := by
  rw [vl_hp0]
theorem vl_hst (pos : Bool) : (vlAfterG pos).2.1.step = .ok (vlCur7 pos) := by
  unfold vlCur7; exact okVal_eq (by cases pos <;> decide +kernel)
theorem vl_7 (pos : Bool) : (vlCur7 pos).atEnd = false ∧ (vlCur7 pos).cur.ty = .value := by cases pos <;> decide +kernel

/-! the sub handler's run on the witness: `-x 5` is taken, `7` is answered `unknown` -/

/-- the cursor on `-x` -/
def vlCurX (pos : Bool) : It := okVal (vlCurG pos).step
/-- the sub handler on `-x` (takes `5`) -/
def vlSubAfterX (pos : Bool) : HState × It × ArgResult :=
  okVal (evalSingleArgument vlSub ((vlAfterV pos).1.subs.getD 0 default) (vlCurX pos))
/-- the cursor on `7` as the sub handler's loop reaches it -/
def vlCur7' (pos : Bool) : It := okVal (vlSubAfterX pos).2.1.step
/-- the sub handler on `7` -/
def vlSubAt7 (pos : Bool) : HState × It × ArgResult :=
  okVal (evalSingleArgument vlSub (vlSubAfterX pos).1 (vlCur7' pos))
def vlCur8 (pos : Bool) : It := okVal (vlCur7' pos).step
def vlCurEnd (pos : Bool) : It := okVal (vlCur8 pos).step

theorem triple_eta {α β γ : Type} (x : α × β × γ) (c : γ) (h : x.2.2 = c) : x = (x.1, x.2.1, c) := by
  subst h; rfl

theorem vl_stepG (pos : Bool) : (vlCurG pos).step = .ok (vlCurX pos) := by
  unfold vlCurX; exact okVal_eq (by cases pos <;> decide +kernel)

theorem vl_subX (pos : Bool) : evalSingleArgument vlSub ((vlAfterV pos).1.subs.getD 0 default) (vlCurX pos) =
    .ok ((vlSubAfterX pos).1, (vlSubAfterX pos).2.1, .consumed) := by
  have h0 : evalSingleArgument vlSub ((vlAfterV pos).1.subs.getD 0 default) (vlCurX pos) = .ok (vlSubAfterX pos) := by
    unfold vlSubAfterX; exact okVal_eq (by cases pos <;> decide +kernel)
  have hr : (vlSubAfterX pos).2.2 = .consumed := by cases pos <;> decide +kernel
  rw [h0]
  exact congrArg Res.ok (triple_eta _ _ hr)

theorem vl_sub7 (pos : Bool) : evalSingleArgument vlSub (vlSubAfterX pos).1 (vlCur7' pos) =
    .ok ((vlSubAt7 pos).1, (vlSubAt7 pos).2.1, .unknown) := by
  have h0 : evalSingleArgument vlSub (vlSubAfterX pos).1 (vlCur7' pos) = .ok (vlSubAt7 pos) := by
    unfold vlSubAt7; exact okVal_eq (by cases pos <;> decide +kernel)
  have hr : (vlSubAt7 pos).2.2 = .unknown := by cases pos <;> decide +kernel
  rw [h0]
  exact congrArg Res.ok (triple_eta _ _ hr)

/-- the `SubTakes` run of the witness: one element taken, stop at `7` -/
theorem vl_subTakes (pos : Bool) : SubTakes vlSub ((vlAfterV pos).1.subs.getD 0 default) (vlCurG pos) (vlCurX pos)
    (vlSubAt7 pos).1 (vlSubAfterX pos).2.1 (vlCur7' pos) :=
  .take _ _ _ _ _ _ (vlCur7' pos) _ _ (by cases pos <;> decide +kernel) (vl_subX pos)
    (by unfold vlCur7'; exact okVal_eq (by cases pos <;> decide +kernel))
    (.refused _ _ _ _ _ .unknown (by cases pos <;> decide +kernel) (vl_sub7 pos) (by decide))

/-- from `7` on only the free words `7`, `8` follow -/
theorem vl_freeWords (pos : Bool) : FreeWords (vlCur7' pos) [(vlCur7' pos).cur.val, (vlCur8 pos).cur.val] :=
  .word _ (vlCur8 pos) _ (by cases pos <;> decide +kernel) (by cases pos <;> decide +kernel)
    (by unfold vlCur8; exact okVal_eq (by cases pos <;> decide +kernel))
    (.word _ (vlCurEnd pos) _ (by cases pos <;> decide +kernel) (by cases pos <;> decide +kernel)
      (by unfold vlCurEnd; exact okVal_eq (by cases pos <;> decide +kernel))
      (.done _ (by cases pos <;> decide +kernel)))

example : (vlCur7' true).cur.val = "7".toList ∧ (vlCur8 true).cur.val = "8".toList := by decide +kernel

end CelmaVerif.ProgArgs
