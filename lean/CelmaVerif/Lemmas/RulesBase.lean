import CelmaVerif.Lemmas.Keys
import CelmaVerif.Model.ProgArgs.Spec
/-
  Rules layer of the argument handler (C02/C03), part 1: monadic inversion lemmas, the
  well-formedness of a configuration, and the one-step inversion of `applyUse`.
  See design_notes/rules.md.
-/
namespace CelmaVerif.ProgArgs
open CelmaVerif CelmaVerif.Keys

/-! ### inversion of `Res` computations -/

theorem bind_eq_ok {α β : Type} {r : Res α} {f : α → Res β} {b : β} :
    (r >>= f) = .ok b ↔ ∃ a, r = .ok a ∧ f a = .ok b := by
  cases r <;> simp

theorem throwIf_eq_ok {c : Bool} {e : Exc} {x : Unit} : throwIf c e = .ok x ↔ c = false := by
  unfold throwIf; cases c <;> simp

theorem res_unit_ok {r : Res Unit} {x : Unit} : r = .ok x ↔ r = .ok () := Iff.rfl

/-! ### keys of constraints -/

/-- `k` is one way of writing the table key `t`: its short key, its long key or both (and not
    nothing) -/
def _root_.CelmaVerif.Keys.Key.Sub (k t : Key) : Prop :=
  (k.short = none ∨ k.short = t.short) ∧ (k.long = [] ∨ k.long = t.long) ∧ (k.short ≠ none ∨ k.long ≠ [])

instance (k t : Key) : Decidable (k.Sub t) := by unfold Key.Sub; infer_instance

/-- the constraint key `k` names argument `j` of the configuration -/
def Names (cfg : Cfg) (k : Key) (j : Nat) : Prop := ∃ d, cfg.args[j]? = some d ∧ k.Sub d.key

theorem sub_eq {k t : Key} (h : k.Sub t) : k.eq t = true := by
  obtain ⟨ks, kl⟩ := k
  obtain ⟨ts, tl⟩ := t
  unfold Key.Sub at h
  unfold Key.eq
  simp only at h ⊢
  obtain ⟨h1, h2, h3⟩ := h
  cases ks with
  | some c =>
    rcases h1 with h1 | h1
    · cases h1
    · subst h1; simp
  | none =>
    have hl : kl ≠ [] := by rcases h3 with h3 | h3; exact absurd rfl h3; exact h3
    rcases h2 with h2 | h2
    · exact absurd h2 hl
    · subst h2; simp [hl]

/-- a way of writing `t` that `==` another key clashes with it -/
theorem sub_eq_clash {k t t' : Key} (h : k.Sub t) (e : k.eq t' = true) : t.Clash t' := by
  obtain ⟨ks, kl⟩ := k
  obtain ⟨ts, tl⟩ := t
  obtain ⟨ts', tl'⟩ := t'
  unfold Key.Sub at h
  unfold Key.eq at e
  unfold Key.Clash Key.shareShort Key.shareLong Key.pos
  simp only at h e ⊢
  obtain ⟨h1, h2, h3⟩ := h
  cases ks with
  | some c =>
    rcases h1 with h1 | h1
    · cases h1
    · subst h1
      cases ts' with
      | some c' => simp at e; left; simp [e]
      | none =>
        simp at e
        rcases h2 with h2 | h2
        · simp [h2] at e
        · subst h2; right; left; exact ⟨e.1.1, e.2⟩
  | none =>
    have hl : kl ≠ [] := by rcases h3 with h3 | h3; exact absurd rfl h3; exact h3
    rcases h2 with h2 | h2
    · exact absurd h2 hl
    · subst h2
      simp [hl] at e
      right; left; exact ⟨hl, e.2⟩

/-- two ways of writing table keys that `==` each other: the table keys clash -/
theorem sub_sub_eq_clash {k k' t t' : Key} (h : k.Sub t) (h' : k'.Sub t') (e : k.eq k' = true) : t.Clash t' := by
  obtain ⟨ks, kl⟩ := k
  obtain ⟨ks', kl'⟩ := k'
  obtain ⟨ts, tl⟩ := t
  obtain ⟨ts', tl'⟩ := t'
  unfold Key.Sub at h h'
  unfold Key.eq at e
  unfold Key.Clash Key.shareShort Key.shareLong Key.pos
  simp only at h h' e ⊢
  obtain ⟨h1, h2, h3⟩ := h
  obtain ⟨g1, g2, g3⟩ := h'
  cases ks with
  | some c =>
    rcases h1 with h1 | h1
    · cases h1
    · subst h1
      cases ks' with
      | some c' =>
        rcases g1 with g1 | g1
        · cases g1
        · subst g1; simp at e; left; simp [e]
      | none =>
        have hl' : kl' ≠ [] := by rcases g3 with g3 | g3; exact absurd rfl g3; exact g3
        rcases g2 with g2 | g2
        · exact absurd g2 hl'
        · subst g2
          simp [hl'] at e
          rcases h2 with h2 | h2
          · simp [h2] at e
          · subst h2; right; left; exact ⟨e.1, e.2⟩
  | none =>
    have hl : kl ≠ [] := by rcases h3 with h3 | h3; exact absurd rfl h3; exact h3
    rcases h2 with h2 | h2
    · exact absurd h2 hl
    · subst h2
      simp [hl] at e
      rcases g2 with g2 | g2
      · simp [g2] at e
      · subst g2; right; left; exact ⟨hl, e.2⟩

/-! ### well-formed configurations -/

/-- the numbers of a cardinality object make sense: a maximum is -1 ("no limit") or not negative -/
def Card.Sane : Card → Prop
  | .unlimited => True
  | .max n => -1 ≤ n
  | .exact _ => True
  | .range _ hi => -1 ≤ hi

instance (c : Card) : Decidable c.Sane := by cases c <;> unfold Card.Sane <;> infer_instance

/-- the argument lists of the value constraints (differ / disjoint) as `Handler::validValueArguments`
    leaves them, with a destination type the constraint can compare — see `Cfg.WellFormed` -/
def Cfg.ValueArgsOk (cfg : Cfg) : Prop :=
  ∀ g ∈ cfg.globals,
    (g.kind = .differ → ∃ kd : Kind, (kd = .int ∨ kd = .str) ∧
      ∀ k ∈ g.keys, ∃ (j : Nat) (d : ArgDef), cfg.args[j]? = some d ∧ k.Sub d.key ∧ d.kind = kd) ∧
    (g.kind = .disjoint → g.keys.length = 2 ∧
      ∀ k ∈ g.keys, ∃ (j : Nat) (d : ArgDef), cfg.args[j]? = some d ∧ k.Sub d.key ∧ d.kind = .vecInt)

/-- What the rules layer assumes about a configuration.

  * `disjoint` — no two arguments share a short key, a long key, or are both positional.  This is
    what `Storage::addArgument` enforces (`addArgument_disjoint`, `addAll_disjoint` in
    Lemmas/Keys.lean): every table built through the API satisfies it.
  * `argKeys` — every key written in a requires/excludes constraint is the short key, the long key
    or both keys of a defined argument.  `ArgumentKey::operator==` is not transitive
    (`-a,--foo == -a,--bar` and `-a,--bar == --bar`, but `-a,--foo != --bar`), and the constraint
    container uses it to suppress duplicates; with keys that are not spellings of table keys an
    exclusion can be lost (see `excludes_lost_without_argKeys` in Lemmas/RulesExample.lean).  The
    handler validates constraint keys against the table when the constraint is added, and the
    differential generator only produces such keys.
  * `cardSane` — a maximum number of values is -1 (the documented "unlimited") or non-negative.
    With `CardinalityMax( -5)` the object refuses every value but accepts the command line without
    the argument, while "at most -5 values" is not met by zero values
    (`cardinality_unsound_without_cardSane` in Lemmas/RulesExample.lean).
  * `globKeys` — the keys of one handler constraint designate pairwise different arguments.
    `Handler::validArguments()` refuses a constraint specification in which the same argument is
    listed twice ("same argument key used twice in argument list") and normalises every listed key
    to the argument's full key.  Without it an all-of constraint that lists one argument under two
    spellings can never be met by a single use (`allOf_same_argument_twice` in
    Lemmas/RulesExample.lean).  Only the completeness direction uses this clause (for all-of; for
    the value constraints also the soundness of disjoint).
  * `valueArgs` — the argument list of a value constraint (differ / disjoint) as
    `Handler::validValueArguments` leaves it: every key is (a spelling of) the key of a defined
    argument — the handler pointer stored in `mArgHandlers` —, all listed arguments have the same
    destination type, and a disjoint constraint has exactly two arguments (fewer: "need at least 2
    arguments", a third: "can handle only two arguments").  In addition the type is one the
    constraint can compare: int or string for differ (`TypedArg<T>::compareValue`), a vector for
    disjoint (`hasIntersection`); with any other type of the fragment the end check throws
    std::invalid_argument as soon as it has two values to compare, which is not a verdict about
    the values (`differ_flags_invalid_argument` in Lemmas/RulesExample.lean). -/
structure Cfg.WellFormed (cfg : Cfg) : Prop where
  disjoint : Disjoint cfg.table
  argKeys  : ∀ d ∈ cfg.args, ∀ c ∈ d.constraints, ∀ k ∈ c.2, ∃ j, Names cfg k j
  cardSane : ∀ d ∈ cfg.args, d.card.Sane
  globKeys : ∀ g ∈ cfg.globals, g.keys.Pairwise (fun x y => ∀ d ∈ cfg.args, ¬ (x.eq d.key = true ∧ y.eq d.key = true))
  valueArgs : cfg.ValueArgsOk

theorem table_getElem? (cfg : Cfg) (i : Nat) : cfg.table[i]? = (cfg.args[i]?).map (fun d => (d.key, d)) := by
  unfold Cfg.table; simp

/-- in a disjoint table two arguments whose keys clash are the same argument -/
theorem clash_index {cfg : Cfg} (hd : Disjoint cfg.table) {i j : Nat} {d e : ArgDef}
    (hi : cfg.args[i]? = some d) (hj : cfg.args[j]? = some e) (hc : d.key.Clash e.key) : i = j := by
  unfold Disjoint at hd
  rw [List.pairwise_iff_getElem] at hd
  have hi' := List.getElem?_eq_some_iff.mp hi
  have hj' := List.getElem?_eq_some_iff.mp hj
  obtain ⟨hil, hie⟩ := hi'
  obtain ⟨hjl, hje⟩ := hj'
  have hlen : cfg.table.length = cfg.args.length := by unfold Cfg.table; simp
  rcases Nat.lt_trichotomy i j with hlt | heq | hgt
  · exfalso
    have := hd i j (by omega) (by omega) hlt
    apply this
    simp only [Cfg.table, List.getElem_map, hie, hje]; exact hc
  · exact heq
  · exfalso
    have := hd j i (by omega) (by omega) hgt
    apply this
    simp only [Cfg.table, List.getElem_map, hie, hje]; exact clash_symm hc

/-- a constraint key that names argument `j` designates `j` and nothing else -/
theorem names_designates {cfg : Cfg} (hd : Disjoint cfg.table) {k : Key} {j : Nat} (hn : Names cfg k j)
    (j' : Nat) : Designates cfg k j' ↔ j' = j := by
  obtain ⟨d, hj, hs⟩ := hn
  constructor
  · rintro ⟨d', hj', he⟩
    exact (clash_index hd hj hj' (sub_eq_clash hs he)).symm
  · rintro rfl
    exact ⟨d, hj, sub_eq hs⟩

/-- two constraint keys that `==` each other name the same argument -/
theorem names_eq {cfg : Cfg} (hd : Disjoint cfg.table) {k k' : Key} {j j' : Nat} (hn : Names cfg k j)
    (hn' : Names cfg k' j') (e : k.eq k' = true) : j = j' := by
  obtain ⟨d, hj, hs⟩ := hn
  obtain ⟨d', hj', hs'⟩ := hn'
  exact clash_index hd hj hj' (sub_sub_eq_clash hs hs' e)

/-- two constraint keys stand for the same argument: they `==` the same table keys -/
def SameTarget (cfg : Cfg) (k k' : Key) : Prop :=
  ∀ (j : Nat) (d : ArgDef), cfg.args[j]? = some d → k.eq d.key = k'.eq d.key

theorem SameTarget.refl (cfg : Cfg) (k : Key) : SameTarget cfg k k := by intro _ _ _; rfl

theorem sameTarget_of_eq {cfg : Cfg} (hd : Disjoint cfg.table) {k k' : Key} {j j' : Nat} (hn : Names cfg k j)
    (hn' : Names cfg k' j') (e : k.eq k' = true) : SameTarget cfg k k' := by
  have hjj := names_eq hd hn hn' e
  subst hjj
  intro i d hi
  have h1 := names_designates hd hn i
  have h2 := names_designates hd hn' i
  unfold Designates at h1 h2
  cases e1 : k.eq d.key <;> cases e2 : k'.eq d.key <;> try rfl
  · have : i = j := h2.mp ⟨d, hi, e2⟩
    have := h1.mpr this
    obtain ⟨d', hd', he'⟩ := this
    rw [hi] at hd'; cases hd'; rw [e1] at he'; cases he'
  · have : i = j := h1.mp ⟨d, hi, e1⟩
    have := h2.mpr this
    obtain ⟨d', hd', he'⟩ := this
    rw [hi] at hd'; cases hd'; rw [e2] at he'; cases he'

/-! ### one step of the abstract evaluation -/

theorem assignValue_ok {h : HState} {i : Nat} {d : ArgDef} {v : Word} {b : Bool} {h' : HState}
    (e : assignValue h i d v b = .ok h') :
    d.deprecated = false ∧ h.inverted = false ∧ ∃ cnt st',
      countValue h.fromSrc d.card (h.args.getD i default).cnt = .ok cnt ∧
      assignDest d { h.args.getD i default with cnt := cnt } v = .ok st' ∧
      h' = { h with args := h.args.set i st', pending := activateConstraints d.constraints h.pending,
                    uses := h.uses ++ [{ arg := i, val := v, ident := b }] } := by
  unfold assignValue at e
  simp only [bind_eq_ok, throwIf_eq_ok] at e
  obtain ⟨_, hd, cnt, hc, _, hi, st', hs, e⟩ := e
  refine ⟨hd, hi, cnt, st', hc, hs, ?_⟩
  cases e; rfl

/-- everything that is known when one use was applied successfully -/
structure StepOk (cfg : Cfg) (h : HState) (u : Use) (h' : HState) (d : ArgDef)
    (pend : List (Key × CType)) (cnt : Int) (st' : ArgSt) : Prop where
  arg       : cfg.args[u.arg]? = some d
  notDepr   : d.deprecated = false
  notInv    : h.inverted = false
  pendI     : u.ident = true → pendingIdentified d.key h.pending = .ok pend
  pendF     : u.ident = false → pend = h.pending
  globI     : u.ident = true → executeGlobals cfg.globals h.globals d.key = .ok h'.globals
  globF     : u.ident = false → h'.globals = h.globals
  count     : countValue h.fromSrc d.card (h.args.getD u.arg default).cnt = .ok cnt
  assign    : assignDest d { h.args.getD u.arg default with cnt := cnt } u.val = .ok st'
  args'     : h'.args = h.args.set u.arg st'
  pending'  : h'.pending = activateConstraints d.constraints pend
  uses'     : h'.uses = h.uses ++ [u]
  fromSrc'  : h'.fromSrc = h.fromSrc
  inverted' : h'.inverted = false

theorem applyUse_ok {cfg : Cfg} {h : HState} {u : Use} {h' : HState} (e : applyUse cfg h u = .ok h') :
    ∃ d pend cnt st', StepOk cfg h u h' d pend cnt st' := by
  unfold applyUse at e
  cases hd : cfg.args[u.arg]? with
  | none => rw [hd] at e; cases e
  | some d =>
    rw [hd] at e
    dsimp only at e
    obtain ⟨ua, uv, ui⟩ := u
    cases ui with
    | true =>
      simp only [if_true] at e
      unfold handleIdentifiedArg at e
      simp only [bind_eq_ok] at e
      obtain ⟨pend, hp, globs, hg, h1, ha, e⟩ := e
      obtain ⟨h2, h3, cnt, st', h4, h5, h6⟩ := assignValue_ok ha
      subst h6
      cases e
      exact ⟨d, pend, cnt, st', ⟨hd, h2, h3, fun _ => hp, (fun c => by cases c), fun _ => hg, (fun c => by cases c),
        h4, h5, rfl, rfl, rfl, rfl, rfl⟩⟩
    | false =>
      simp only [Bool.false_eq_true, if_false] at e
      obtain ⟨h2, h3, cnt, st', h4, h5, h6⟩ := assignValue_ok e
      subst h6
      exact ⟨d, h.pending, cnt, st', ⟨hd, h2, h3, (fun c => by cases c), fun _ => rfl, (fun c => by cases c), fun _ => rfl,
        h4, h5, rfl, rfl, rfl, rfl, h3⟩⟩

/-- an invariant of single steps is an invariant of `applyUses` -/
theorem applyUses_inv {cfg : Cfg} (I : HState → Prop)
    (hstep : ∀ h u h', I h → applyUse cfg h u = .ok h' → I h') :
    ∀ (us : List Use) (h h' : HState), I h → applyUses cfg h us = .ok h' → I h' := by
  intro us
  induction us with
  | nil => intro h h' hi e; simp only [applyUses] at e; cases e; exact hi
  | cons u us ih =>
    intro h h' hi e
    simp only [applyUses, bind_eq_ok] at e
    obtain ⟨h1, e1, e2⟩ := e
    exact ih h1 h' (hstep h u h1 hi e1) e2

/-- the ghost field `uses` records exactly the uses applied -/
theorem applyUses_uses {cfg : Cfg} : ∀ (us : List Use) (h h' : HState), applyUses cfg h us = .ok h' →
    h'.uses = h.uses ++ us := by
  intro us
  induction us with
  | nil => intro h h' e; simp only [applyUses] at e; cases e; simp
  | cons u us ih =>
    intro h h' e
    simp only [applyUses, bind_eq_ok] at e
    obtain ⟨h1, e1, e2⟩ := e
    obtain ⟨d, pend, cnt, st', s⟩ := applyUse_ok e1
    rw [ih h1 h' e2, s.uses']; simp

theorem endChecks_ok {cfg : Cfg} {h h' : HState} (e : endChecks cfg h = .ok h') :
    checkMandatoryCardinality cfg.args h.args = .ok () ∧ pendingCheckRequired h.pending = .ok () ∧
    checkGlobals cfg.args h.args cfg.globals h.globals = .ok () ∧ h' = { h with lastArg := none } := by
  unfold endChecks at e
  simp only [bind_eq_ok] at e
  obtain ⟨_, h1, _, h2, _, h3, e⟩ := e
  cases e
  exact ⟨h1, h2, h3, rfl⟩

theorem evalUses_ok {cfg : Cfg} {h0 h : HState} {us : List Use} (e : evalUses cfg h0 us = .ok h) :
    ∃ h1, applyUses cfg h0 us = .ok h1 ∧ endChecks cfg h1 = .ok h := by
  unfold evalUses at e
  simpa only [bind_eq_ok] using e

/-- the part of the state that no rule changes -/
structure Frame (cfg : Cfg) (h : HState) : Prop where
  argsLen  : h.args.length = cfg.args.length
  globLen  : h.globals.length = cfg.globals.length
  fromSrc  : h.fromSrc = false
  inverted : h.inverted = false

theorem executeGlobals_length : ∀ (gs : List GDef) (ss ss' : List GSt) (k : Key),
    executeGlobals gs ss k = .ok ss' → ss.length = gs.length → ss'.length = gs.length := by
  intro gs
  induction gs with
  | nil => intro ss ss' k e _; cases ss <;> simp [executeGlobals] at e <;> subst e <;> rfl
  | cons g gs ih =>
    intro ss ss' k e hl
    cases ss with
    | nil => simp at hl
    | cons s ss =>
      simp only [executeGlobals, bind_eq_ok] at e
      obtain ⟨s', _, rest, hr, e⟩ := e
      cases e
      simp only [List.length_cons] at hl ⊢
      rw [ih ss rest k hr (by omega)]

theorem frame_init (cfg : Cfg) (inits : List DVal) (hin : cfg.args.length ≤ inits.length) :
    Frame cfg (cfg.initState inits) := by
  refine ⟨?_, ?_, rfl, rfl⟩
  · simp [Cfg.initState]; omega
  · simp [Cfg.initState]

theorem frame_step {cfg : Cfg} {h : HState} {u : Use} {h' : HState} (f : Frame cfg h)
    (e : applyUse cfg h u = .ok h') : Frame cfg h' := by
  obtain ⟨d, pend, cnt, st', s⟩ := applyUse_ok e
  refine ⟨?_, ?_, ?_, s.inverted'⟩
  · rw [s.args']; simp [f.argsLen]
  · cases hi : u.ident with
    | true => exact executeGlobals_length _ _ _ _ (s.globI hi) f.globLen
    | false => rw [s.globF hi]; exact f.globLen
  · rw [s.fromSrc']; exact f.fromSrc

end CelmaVerif.ProgArgs
