import CelmaVerif.Lemmas.Keys
/-
  Lemmas about `Key.parse` (the string constructor of ArgumentKey): totality without
  out-of-bounds reads, well-formedness of accepted keys, the documented spellings.
-/
namespace CelmaVerif.Keys
open CelmaVerif

theorem charAt_le (s : List Char) (i : Nat) (w : String) (h : i ≤ s.length) :
    ∃ c, charAt s i w = .ok c ∧ (c ≠ '\x00' → i < s.length ∧ s[i]? = some c) := by
  unfold charAt
  by_cases h1 : i < s.length
  · rw [if_pos h1]
    refine ⟨_, rfl, fun _ => ⟨h1, ?_⟩⟩
    simp [List.getD, List.getElem?_eq_getElem h1]
  · rw [if_neg h1, if_pos (by omega)]
    exact ⟨_, rfl, fun hc => absurd rfl hc⟩

/-- `remove_dashes` never reads out of bounds; it returns a suffix without leading dash or throws -/
theorem removeDashes_cases (s : List Char) :
    removeDashes s = .throw .invalid_argument ∨
    ∃ r, removeDashes s = .ok r ∧ (∃ n, r = s.drop n) ∧ r.head? ≠ some '-' := by
  unfold removeDashes
  obtain ⟨c1, e1, f1⟩ := charAt_le s 0 "remove_dashes: arg_spec[0] (1)" (Nat.zero_le _)
  simp only [e1, Res.bind_ok]
  generalize hs1 : (if c1 = StartChar then s.drop 1 else s) = s1
  obtain ⟨c2, e2, f2⟩ := charAt_le s1 0 "remove_dashes: arg_spec[0] (2)" (Nat.zero_le _)
  simp only [e2, Res.bind_ok]
  generalize hs2 : (if c2 = StartChar then s1.drop 1 else s1) = s2
  obtain ⟨c3, e3, f3⟩ := charAt_le s2 0 "remove_dashes: arg_spec[0] (3)" (Nat.zero_le _)
  simp only [e3, Res.bind_ok]
  by_cases h3 : c3 = StartChar
  · rw [if_pos h3]; exact Or.inl rfl
  · rw [if_neg h3]
    refine Or.inr ⟨s2, rfl, ?_, ?_⟩
    · have a1 : ∃ n, s1 = s.drop n := by
        rw [← hs1]; split
        · exact ⟨1, rfl⟩
        · exact ⟨0, rfl⟩
      obtain ⟨n1, rfl⟩ := a1
      rw [← hs2]; split
      · exact ⟨n1 + 1, by simp [List.drop_drop]⟩
      · exact ⟨n1, rfl⟩
    · intro hh
      cases s2 with
      | nil => simp at hh
      | cons x r =>
        simp at hh
        subst hh
        simp [charAt] at e3
        exact h3 (by rw [← e3]; rfl)

theorem mkShort_ne_nul (c : Char) : mkShort c ≠ some '\x00' := by
  unfold mkShort; split <;> simp_all

theorem mkShort_eq_some {c d : Char} (h : mkShort c = some d) : c = d := by
  unfold mkShort at h; split at h <;> simp_all

/-- the single-key branch (repaired code): no out-of-bounds read; the outcome is a rejection, a
    short key that is a character of the specification, or a suffix of it without leading dash -/
theorem parseSingle_cases (s : List Char) (hs : s ≠ []) :
    parseSingle true s = .throw .invalid_argument ∨
    (∃ c, parseSingle true s = .ok ⟨mkShort c, []⟩ ∧ c ≠ '-' ∧ (c = '\x00' ∨ c ∈ s)) ∨
    (∃ n, parseSingle true s = .ok ⟨none, s.drop n⟩ ∧ (s.drop n).head? ≠ some '-') := by
  have hlen : 1 ≤ s.length := by
    cases s with | nil => exact absurd rfl hs | cons _ _ => simp
  unfold parseSingle
  obtain ⟨c0, e0, f0⟩ := charAt_le s 0 "ctor: arg_spec[0]" (Nat.zero_le _)
  obtain ⟨c1, e1, f1⟩ := charAt_le s 1 "ctor: arg_spec[1]" hlen
  simp only [e0, e1, Res.bind_ok]
  have hign : ignoreLeadingDashes true c0 c1 ≤ s.length ∧ ignoreLeadingDashes true c0 c1 ≤ 2 := by
    unfold ignoreLeadingDashes
    simp only [if_true]
    by_cases h0 : c0 ≠ StartChar
    · rw [if_pos h0]; omega
    · rw [if_neg h0]
      by_cases h1 : c1 = StartChar
      · rw [if_pos h1]
        have := (f1 (by rw [h1]; decide)).1
        omega
      · rw [if_neg h1]; omega
  generalize ignoreLeadingDashes true c0 c1 = ign at hign
  obtain ⟨ci, ei, fi⟩ := charAt_le s ign "ctor: arg_spec[ignore_leading_dashes]" hign.1
  simp only [ei, Res.bind_ok]
  by_cases hd : ci = StartChar
  · rw [if_pos hd]; exact Or.inl rfl
  · rw [if_neg hd]
    by_cases hsh : s.length - ign = 1 ∧ ign < 2
    · rw [if_pos hsh]
      refine Or.inr (Or.inl ⟨ci, rfl, hd, ?_⟩)
      by_cases hn : ci = '\x00'
      · exact Or.inl hn
      · exact Or.inr (List.mem_of_getElem? (fi hn).2)
    · rw [if_neg hsh]
      unfold substrFrom
      rw [if_pos hign.1]
      refine Or.inr (Or.inr ⟨ign, rfl, ?_⟩)
      intro hh
      rw [List.head?_drop] at hh
      by_cases hn : ci = '\x00'
      · by_cases hlt : ign < s.length
        · unfold charAt at ei
          rw [if_pos hlt] at ei
          simp [List.getD, hh] at ei
          exact hd (by rw [← ei]; rfl)
        · rw [List.getElem?_eq_none (by omega)] at hh; cases hh
      · rw [(fi hn).2] at hh
        have : ci = '-' := by simpa using hh
        exact hd this

theorem mem_of_drop_eq {r s : List Char} (h : ∃ n, r = s.drop n) {x : Char} (hx : x ∈ r) : x ∈ s := by
  obtain ⟨n, rfl⟩ := h
  exact List.mem_of_mem_drop hx

/-- the short/long branch: no out-of-bounds read; rejection or a key built from two suffixes of the
    two halves -/
theorem parsePair_cases (s : List Char) (pos : Nat) :
    parsePair s pos = .throw .invalid_argument ∨
    ∃ c w, parsePair s pos = .ok ⟨mkShort c, w⟩ ∧ c ≠ '-' ∧ w.head? ≠ some '-' ∧
      ((c ∈ s.take pos ∧ ∃ n, w = (s.drop (pos + 1)).drop n) ∨
       (c ∈ s.drop (pos + 1) ∧ ∃ n, w = (s.take pos).drop n)) ∧
      ¬ (s.drop (pos + 1)).contains KeySeparator = true := by
  unfold parsePair
  by_cases hc : (s.drop (pos + 1)).contains KeySeparator = true
  · rw [if_pos hc]; exact Or.inl rfl
  · rw [if_neg hc]
    rcases removeDashes_cases (s.take pos) with e1 | ⟨b, e1, hb1, hb2⟩
    · rw [e1]; exact Or.inl rfl
    · rcases removeDashes_cases (s.drop (pos + 1)) with e2 | ⟨e, e2, he1, he2⟩
      · rw [e1, e2]; exact Or.inl rfl
      · simp only [e1, e2, Res.bind_ok]
        by_cases h1 : b = e
        · rw [if_pos h1]; exact Or.inl rfl
        rw [if_neg h1]
        by_cases h2 : b.length = 0 ∨ e.length = 0
        · rw [if_pos h2]; exact Or.inl rfl
        rw [if_neg h2]
        by_cases h3 : b.length = 1 ∧ e.length = 1
        · rw [if_pos h3]; exact Or.inl rfl
        rw [if_neg h3]
        by_cases h4 : b.length = 1
        · rw [if_pos h4]
          match b, h4, hb1, hb2 with
          | [x], _, hb1, hb2 =>
            refine Or.inr ⟨x, e, rfl, ?_, he2, Or.inl ⟨mem_of_drop_eq hb1 (by simp), he1⟩, hc⟩
            intro hx; exact hb2 (by simp [hx])
        rw [if_neg h4]
        by_cases h5 : e.length = 1
        · rw [if_pos h5]
          match e, h5, he1, he2 with
          | [x], _, he1, he2 =>
            refine Or.inr ⟨x, b, rfl, ?_, hb2, Or.inr ⟨mem_of_drop_eq he1 (by simp), hb1⟩, hc⟩
            intro hx; exact he2 (by simp [hx])
        rw [if_neg h5]; exact Or.inl rfl

/-- no comma before the first comma -/
theorem not_mem_take_findIdx {s : List Char} {pos : Nat} (h : s.findIdx? (· == KeySeparator) = some pos) :
    KeySeparator ∉ s.take pos := by
  obtain ⟨hlt, _, hbefore⟩ := List.findIdx?_eq_some_iff_getElem.mp h
  intro hm
  obtain ⟨j, hj, hjv⟩ := List.getElem_of_mem hm
  rw [List.length_take] at hj
  have hj' : j < pos := by omega
  have := hbefore j hj'
  rw [List.getElem_take] at hjv
  simp [hjv] at this

theorem parse_total (s : List Char) :
    (∃ k, Key.parse s = .ok k) ∨ Key.parse s = .throw .invalid_argument := by
  unfold Key.parse Key.parseWith
  by_cases h0 : s.length = 0
  · rw [if_pos h0]; exact Or.inr rfl
  rw [if_neg h0]
  by_cases h1 : s = [KeySeparator]
  · rw [if_pos h1]; exact Or.inr rfl
  rw [if_neg h1]
  by_cases h2 : s.contains ' ' = true
  · rw [if_pos h2]; exact Or.inr rfl
  rw [if_neg h2]
  have hs : s ≠ [] := by intro e; rw [e] at h0; exact h0 rfl
  cases hf : s.findIdx? (· == KeySeparator) with
  | none =>
    simp only
    rcases parseSingle_cases s hs with e | ⟨c, e, _⟩ | ⟨n, e, _⟩
    · exact Or.inr e
    · exact Or.inl ⟨_, e⟩
    · exact Or.inl ⟨_, e⟩
  | some pos =>
    simp only
    rcases parsePair_cases s pos with e | ⟨c, w, e, _⟩
    · exact Or.inr e
    · exact Or.inl ⟨_, e⟩

theorem parse_wellformed (s : List Char) (k : Key) (h : Key.parse s = .ok k) : k.WellFormed := by
  unfold Key.parse Key.parseWith at h
  by_cases h0 : s.length = 0
  · rw [if_pos h0] at h; cases h
  rw [if_neg h0] at h
  by_cases h1 : s = [KeySeparator]
  · rw [if_pos h1] at h; cases h
  rw [if_neg h1] at h
  by_cases h2 : s.contains ' ' = true
  · rw [if_pos h2] at h; cases h
  rw [if_neg h2] at h
  have hsp : ' ' ∉ s := fun hm => h2 (List.contains_iff_mem.mpr hm)
  have hs : s ≠ [] := by intro e; rw [e] at h0; exact h0 rfl
  have hnul : (' ' : Char) ≠ '\x00' := by decide
  have hnul2 : (',' : Char) ≠ '\x00' := by decide
  cases hf : s.findIdx? (· == KeySeparator) with
  | none =>
    rw [hf] at h
    simp only at h
    have hcm : ',' ∉ s := by
      intro hm
      have := List.findIdx?_eq_none_iff.mp hf ',' hm
      simp [KeySeparator] at this
    rcases parseSingle_cases s hs with e | ⟨c, e, hc1, hc2⟩ | ⟨n, e, hn⟩
    · rw [e] at h; cases h
    · rw [e] at h; cases h
      refine ⟨?_, ?_, ?_, mkShort_ne_nul c, by simp, by simp, by simp⟩
      · intro hh; exact hc1 (mkShort_eq_some hh)
      · intro hh
        have := mkShort_eq_some hh
        rcases hc2 with h' | h'
        · rw [this] at h'; exact hnul h'
        · rw [this] at h'; exact hsp h'
      · intro hh
        have := mkShort_eq_some hh
        rcases hc2 with h' | h'
        · rw [this] at h'; exact hnul2 h'
        · rw [this] at h'; exact hcm h'
    · rw [e] at h; cases h
      refine ⟨by simp, by simp, by simp, by simp, hn, ?_, ?_⟩
      · exact fun hm => hsp (List.mem_of_mem_drop hm)
      · exact fun hm => hcm (List.mem_of_mem_drop hm)
  | some pos =>
    rw [hf] at h
    simp only at h
    have hct : ',' ∉ s.take pos := not_mem_take_findIdx hf
    rcases parsePair_cases s pos with e | ⟨c, w, e, hc1, hw1, hsrc, hcd⟩
    · rw [e] at h; cases h
    · rw [e] at h; cases h
      have hcd' : ',' ∉ s.drop (pos + 1) := fun hm => hcd (List.contains_iff_mem.mpr hm)
      have hcin : c ∈ s ∧ c ≠ ',' := by
        rcases hsrc with ⟨hc, _⟩ | ⟨hc, _⟩
        · exact ⟨List.mem_of_mem_take hc, fun e => hct (by rw [← e]; exact hc)⟩
        · exact ⟨List.mem_of_mem_drop hc, fun e => hcd' (by rw [← e]; exact hc)⟩
      have hwin : ∀ x ∈ w, x ∈ s ∧ x ≠ ',' := by
        intro x hx
        rcases hsrc with ⟨_, hw⟩ | ⟨_, hw⟩
        · have := mem_of_drop_eq hw hx
          exact ⟨List.mem_of_mem_drop this, fun e => hcd' (by rw [← e]; exact this)⟩
        · have := mem_of_drop_eq hw hx
          exact ⟨List.mem_of_mem_take this, fun e => hct (by rw [← e]; exact this)⟩
      refine ⟨?_, ?_, ?_, mkShort_ne_nul c, hw1, ?_, ?_⟩
      · intro hh; exact hc1 (mkShort_eq_some hh)
      · intro hh; have := mkShort_eq_some hh; rw [this] at hcin; exact hsp hcin.1
      · intro hh; have := mkShort_eq_some hh; rw [this] at hcin; exact hcin.2 rfl
      · exact fun hm => hsp (hwin _ hm).1
      · exact fun hm => (hwin _ hm).2 rfl

/-! ### the documented spellings -/

theorem parse_single_eq (s : List Char) (hne : s ≠ []) (hc : ',' ∉ s) (hsp : ' ' ∉ s) :
    Key.parse s = parseSingle true s := by
  unfold Key.parse Key.parseWith
  have h0 : ¬ s.length = 0 := by
    cases s with | nil => exact absurd rfl hne | cons _ _ => simp
  have h1 : ¬ s = [KeySeparator] := by
    intro e; rw [e] at hc; exact hc (by simp [KeySeparator])
  have h2 : ¬ s.contains ' ' = true := fun h => hsp (List.contains_iff_mem.mp h)
  rw [if_neg h0, if_neg h1, if_neg h2]
  have : s.findIdx? (· == KeySeparator) = none := by
    rw [List.findIdx?_eq_none_iff]
    intro x hx
    simp only [KeySeparator, beq_eq_false_iff_ne, ne_eq]
    intro e; rw [e] at hx; exact hc hx
  rw [this]

theorem parse_pair_eq (b e : List Char) (hb : ',' ∉ b) (_he : ',' ∉ e) (hsb : ' ' ∉ b) (hse : ' ' ∉ e)
    (hne : b ≠ [] ∨ e ≠ []) :
    Key.parse (b ++ ',' :: e) = parsePair (b ++ ',' :: e) b.length := by
  unfold Key.parse Key.parseWith
  have h0 : ¬ (b ++ ',' :: e).length = 0 := by simp
  have h1 : ¬ (b ++ ',' :: e) = [KeySeparator] := by
    intro h
    have hl := congrArg List.length h
    simp at hl
    have hb0 : b = [] := List.eq_nil_of_length_eq_zero (by omega)
    have he0 : e = [] := List.eq_nil_of_length_eq_zero (by omega)
    rcases hne with h' | h'
    · exact h' hb0
    · exact h' he0
  have h2 : ¬ (b ++ ',' :: e).contains ' ' = true := by
    intro h
    have := List.contains_iff_mem.mp h
    simp only [List.mem_append, List.mem_cons] at this
    rcases this with h' | h' | h'
    · exact hsb h'
    · exact absurd h' (by decide)
    · exact hse h'
  rw [if_neg h0, if_neg h1, if_neg h2]
  have : (b ++ ',' :: e).findIdx? (· == KeySeparator) = some b.length := by
    rw [List.findIdx?_eq_some_iff_getElem]
    refine ⟨by simp, by simp [KeySeparator], ?_⟩
    intro j hj
    rw [List.getElem_append_left hj]
    simp only [KeySeparator, beq_iff_eq]
    intro e'
    exact hb (by rw [← e']; exact List.getElem_mem hj)
  rw [this]

theorem parsePair_split (b e : List Char) (he : ',' ∉ e) :
    parsePair (b ++ ',' :: e) b.length = (do
      let subBegin ← removeDashes b
      let subEnd ← removeDashes e
      if subBegin = subEnd then .throw .invalid_argument
      else if subBegin.length = 0 ∨ subEnd.length = 0 then .throw .invalid_argument
      else if subBegin.length = 1 ∧ subEnd.length = 1 then .throw .invalid_argument
      else if subBegin.length = 1 then pure ⟨mkShort (subBegin.headD '\x00'), subEnd⟩
      else if subEnd.length = 1 then pure ⟨mkShort (subEnd.headD '\x00'), subBegin⟩
      else .throw .invalid_argument) := by
  unfold parsePair
  have hd : (b ++ ',' :: e).drop (b.length + 1) = e := by
    rw [show b.length + 1 = (b ++ [',']).length by simp, show b ++ ',' :: e = (b ++ [',']) ++ e by simp,
      List.drop_left]
  have ht : (b ++ ',' :: e).take b.length = b := by simp
  have he' : ¬ e.contains KeySeparator = true := fun h => he (List.contains_iff_mem.mp h)
  rw [hd, ht, if_neg he']

/-- up to two dashes before a word that does not start with a dash are removed -/
theorem removeDashes_strip (d : List Char) (hd : d ∈ [[], ['-'], ['-', '-']]) (x : Char) (r : List Char)
    (hx : x ≠ '-') : removeDashes (d ++ x :: r) = .ok (x :: r) := by
  simp only [List.mem_cons, List.not_mem_nil, or_false] at hd
  rcases hd with rfl | rfl | rfl <;> simp [removeDashes, charAt, StartChar, hx]

theorem parse_forms (c : Char) (w : List Char) (hc : KeyChar c) (hw : KeyWord w) :
    (∀ d ∈ [[], ['-']], Key.parse (d ++ [c]) = .ok ⟨some c, []⟩) ∧
    (2 ≤ w.length → ∀ d ∈ [[], ['-'], ['-', '-']], Key.parse (d ++ w) = .ok ⟨none, w⟩) ∧
    Key.parse (['-', '-'] ++ w) = .ok ⟨none, w⟩ ∧
    (2 ≤ w.length → ∀ d₁ ∈ [[], ['-']], ∀ d₂ ∈ [[], ['-'], ['-', '-']],
      Key.parse (d₁ ++ [c] ++ [','] ++ d₂ ++ w) = .ok ⟨some c, w⟩ ∧
      Key.parse (d₂ ++ w ++ [','] ++ d₁ ++ [c]) = .ok ⟨some c, w⟩) := by
  obtain ⟨c1, c2, c3, c4⟩ := hc
  obtain ⟨w1, w2, w3, w4⟩ := hw
  obtain ⟨a, r, rfl⟩ : ∃ a r, w = a :: r := by
    cases w with | nil => exact absurd rfl w1 | cons a r => exact ⟨a, r, rfl⟩
  have a1 : a ≠ '-' := by intro e; exact w2 (by simp [e])
  have a2 : a ≠ ' ' := by intro e; exact w3 (by simp [e])
  have a3 : a ≠ ',' := by intro e; exact w4 (by simp [e])
  have r2 : ' ' ∉ r := fun h => w3 (by simp [h])
  have r3 : ',' ∉ r := fun h => w4 (by simp [h])
  have hmk : mkShort c = some c := by unfold mkShort; rw [if_neg c4]
  have dd : ∀ d ∈ [[], ['-'], ['-', '-']], (',' ∉ d ∧ ' ' ∉ d) := by
    intro d hd
    simp only [List.mem_cons, List.not_mem_nil, or_false] at hd
    rcases hd with rfl | rfl | rfl <;> decide
  refine ⟨?_, ?_, ?_, ?_⟩
  · intro d hd
    simp only [List.mem_cons, List.not_mem_nil, or_false] at hd
    rcases hd with rfl | rfl
    · rw [parse_single_eq _ (by simp) (by simp [Ne.symm c3]) (by simp [Ne.symm c2])]
      simp [parseSingle, charAt, ignoreLeadingDashes, StartChar, c1, hmk]
    · rw [parse_single_eq _ (by simp) (by simp [Ne.symm c3]) (by simp [Ne.symm c2])]
      simp [parseSingle, charAt, ignoreLeadingDashes, StartChar, c1, hmk]
  · intro hlen d hd
    obtain ⟨b, r', rfl⟩ : ∃ b r', r = b :: r' := by
      cases r with | nil => simp at hlen | cons b r' => exact ⟨b, r', rfl⟩
    have hdd := dd d hd
    rw [parse_single_eq _ (by simp) (by simp [hdd.1, Ne.symm a3, r3]) (by simp [hdd.2, Ne.symm a2, r2])]
    simp only [List.mem_cons, List.not_mem_nil, or_false] at hd
    rcases hd with rfl | rfl | rfl <;>
      simp [parseSingle, charAt, ignoreLeadingDashes, StartChar, a1, substrFrom]
  · rw [parse_single_eq _ (by simp) (by simp [Ne.symm a3, r3]) (by simp [Ne.symm a2, r2])]
    simp [parseSingle, charAt, ignoreLeadingDashes, StartChar, a1, substrFrom]
  · intro hlen d₁ hd₁ d₂ hd₂
    have hd₁' : d₁ ∈ [[], ['-'], ['-', '-']] := by
      simp only [List.mem_cons, List.not_mem_nil, or_false] at hd₁ ⊢
      rcases hd₁ with h | h
      · exact Or.inl h
      · exact Or.inr (Or.inl h)
    have k1 := dd d₁ hd₁'
    have k2 := dd d₂ hd₂
    have rlen : 1 ≤ r.length := by simpa using hlen
    have hl2 : (a :: r).length = r.length + 1 := rfl
    have hl1 : ([c] : List Char).length = 1 := rfl
    have hne : ([c] : List Char) ≠ a :: r := by
      intro e; have := congrArg List.length e; rw [hl1, hl2] at this; omega
    constructor
    · have e : d₁ ++ [c] ++ [','] ++ d₂ ++ a :: r = (d₁ ++ [c]) ++ ',' :: (d₂ ++ a :: r) := by simp
      rw [e, parse_pair_eq _ _ (by simp [k1.1, Ne.symm c3]) (by simp [k2.1, Ne.symm a3, r3])
        (by simp [k1.2, Ne.symm c2]) (by simp [k2.2, Ne.symm a2, r2]) (Or.inl (by simp)),
        parsePair_split _ _ (by simp [k2.1, Ne.symm a3, r3]),
        removeDashes_strip d₁ hd₁' c [] c1, removeDashes_strip d₂ hd₂ a r a1]
      simp only [Res.bind_ok]
      rw [if_neg hne, if_neg (by omega), if_neg (by omega), if_pos hl1]
      simp [hmk]
    · have e : d₂ ++ a :: r ++ [','] ++ d₁ ++ [c] = (d₂ ++ a :: r) ++ ',' :: (d₁ ++ [c]) := by simp
      rw [e, parse_pair_eq _ _ (by simp [k2.1, Ne.symm a3, r3]) (by simp [k1.1, Ne.symm c3])
        (by simp [k2.2, Ne.symm a2, r2]) (by simp [k1.2, Ne.symm c2]) (Or.inl (by simp)),
        parsePair_split _ _ (by simp [k1.1, Ne.symm c3]),
        removeDashes_strip d₂ hd₂ a r a1, removeDashes_strip d₁ hd₁' c [] c1]
      simp only [Res.bind_ok]
      rw [if_neg (Ne.symm hne), if_neg (by omega), if_neg (by omega), if_neg (by omega), if_pos hl1]
      simp [hmk]

/-! ### the key of a command-line name (`wordKey`, the repaired `Handler::evalSingleArgument`) -/

/-- a name that is not exactly one character long goes through the constructor unchanged -/
theorem wordKey_of_ne_one (name : List Char) (h : name.length ≠ 1) : wordKey name = Key.parse name := by
  unfold wordKey; rw [if_neg h]

theorem wordKey_of_two_le (name : List Char) (h : 2 ≤ name.length) : wordKey name = Key.parse name :=
  wordKey_of_ne_one name (by omega)

/-- a name of one character gets its two dashes back -/
theorem wordKey_one (c : Char) : wordKey [c] = Key.parse ['-', '-', c] := by
  unfold wordKey; rw [if_pos (by rfl : [c].length = 1)]

/-- in every case the key is what the constructor makes of *some* specification -/
theorem wordKey_eq_parse (name : List Char) : ∃ s, wordKey name = Key.parse s := ⟨_, rfl⟩

theorem wordKey_total (name : List Char) :
    (∃ k, wordKey name = .ok k) ∨ wordKey name = .throw .invalid_argument := parse_total _

theorem wordKey_wellformed (name : List Char) (k : Key) (h : wordKey name = .ok k) : k.WellFormed :=
  parse_wellformed _ k h

/-- every key word `w` — of one character or more — gives the long key `w` -/
theorem wordKey_word (w : List Char) (hw : KeyWord w) : wordKey w = .ok ⟨none, w⟩ := by
  have hf := parse_forms 'a' w (by decide) hw
  by_cases h1 : w.length = 1
  · unfold wordKey; rw [if_pos h1]
    exact hf.2.2.1
  · rw [wordKey_of_ne_one w h1]
    have hlen : 2 ≤ w.length := by
      have : w.length ≠ 0 := fun h => hw.1 (List.eq_nil_of_length_eq_zero h)
      omega
    have := hf.2.1 hlen [] (by simp)
    rw [List.nil_append] at this
    exact this

/-- the pinned code looked a one-character name up as the SHORT key -/
theorem wordKeyHead_one (c : Char) (hc : KeyChar c) : wordKeyHead [c] = .ok ⟨some c, []⟩ := by
  have := (parse_forms c ['a', 'a'] hc (by decide)).1 [] (by simp)
  rw [List.nil_append] at this
  exact this

end CelmaVerif.Keys
