import CelmaVerif.Lemmas.Groups
import CelmaVerif.Model.ProgArgs.GroupsCross
/-
  The cross check between the members of an argument group when an argument is defined.

  `checkArgMix`, `crossCheck` and `groupAddArgument` (since moved to Model/ProgArgs/GroupsCross.lean and
  validated against the real Groups by the `pa gdef` operation of the prog_args harness) are a model of
    * `ArgumentContainer::checkArgMix`            (detail/argument_container.cpp, the two loops),
    * `Groups::crossCheckArguments( mod_handler)` (groups.cpp: every other member),
    * `Handler::internAddArgument`                (handler.cpp: `mArguments.addArgument`, then, when the
                                                   handler is used by a group, the cross check)
  restricted to the plain argument tables (`mSubGroupArgs` and the bracket handlers are outside the
  fragment).  `addArgument`, `Key.eq`, `Key.mismatch` are the validated ones of Model/Keys.lean.
-/
namespace CelmaVerif.ProgArgs
open CelmaVerif CelmaVerif.Keys

theorem checkArgMixInner_cases (o : Key) (own : List Key) :
    (checkArgMixInner o own = .ok () ∧ ∀ a ∈ own, ¬ a.Clash o) ∨
    (checkArgMixInner o own = .throw .invalid_argument ∧ ∃ a ∈ own, a.Clash o) := by
  induction own with
  | nil => exact Or.inl ⟨rfl, by simp⟩
  | cons a rest ih =>
    simp only [checkArgMixInner]
    by_cases h1 : a.eq o = true
    · rw [if_pos h1]
      exact Or.inr ⟨rfl, a, List.mem_cons_self .., (eq_or_mismatch_iff a o).mp (by rw [h1]; rfl)⟩
    · rw [if_neg h1]
      by_cases h2 : a.mismatch o = true
      · rw [if_pos h2]
        exact Or.inr ⟨rfl, a, List.mem_cons_self .., (eq_or_mismatch_iff a o).mp (by rw [h2]; exact Bool.or_true _)⟩
      · rw [if_neg h2]
        have hna : ¬ a.Clash o := by
          intro hc
          have := (eq_or_mismatch_iff a o).mpr hc
          simp [h1, h2] at this
        rcases ih with ⟨e, hno⟩ | ⟨e, b, hb, hc⟩
        · refine Or.inl ⟨e, ?_⟩
          intro x hx
          rcases List.mem_cons.mp hx with rfl | hx
          · exact hna
          · exact hno x hx
        · exact Or.inr ⟨e, b, List.mem_cons_of_mem _ hb, hc⟩

theorem checkArgMix_cases (own other : List Key) :
    (checkArgMix own other = .ok () ∧ ∀ a ∈ own, ∀ o ∈ other, ¬ a.Clash o) ∨
    (checkArgMix own other = .throw .invalid_argument ∧ ∃ a ∈ own, ∃ o ∈ other, a.Clash o) := by
  induction other with
  | nil => exact Or.inl ⟨rfl, by simp⟩
  | cons o rest ih =>
    simp only [checkArgMix]
    rcases checkArgMixInner_cases o own with ⟨e, hno⟩ | ⟨e, a, ha, hc⟩
    · rw [e]
      simp only [Res.bind_ok]
      rcases ih with ⟨e', hno'⟩ | ⟨e', a, ha, o', ho', hc⟩
      · refine Or.inl ⟨e', ?_⟩
        intro a ha x hx
        rcases List.mem_cons.mp hx with rfl | hx
        · exact hno a ha
        · exact hno' a ha x hx
      · exact Or.inr ⟨e', a, ha, o', List.mem_cons_of_mem _ ho', hc⟩
    · rw [e]
      exact Or.inr ⟨rfl, a, ha, o, List.mem_cons_self .., hc⟩

theorem crossCheck_cases (own : List Key) (others : List (List Key)) :
    (crossCheck own others = .ok () ∧ ∀ t ∈ others, ∀ a ∈ own, ∀ o ∈ t, ¬ a.Clash o) ∨
    (crossCheck own others = .throw .invalid_argument ∧ ∃ t ∈ others, ∃ a ∈ own, ∃ o ∈ t, a.Clash o) := by
  induction others with
  | nil => exact Or.inl ⟨rfl, by simp⟩
  | cons t rest ih =>
    simp only [crossCheck]
    rcases checkArgMix_cases own t with ⟨e, hno⟩ | ⟨e, a, ha, o, ho, hc⟩
    · rw [e]
      simp only [Res.bind_ok]
      rcases ih with ⟨e', hno'⟩ | ⟨e', t', ht', a, ha, o, ho, hc⟩
      · refine Or.inl ⟨e', ?_⟩
        intro x hx
        rcases List.mem_cons.mp hx with rfl | hx
        · exact hno
        · exact hno' x hx
      · exact Or.inr ⟨e', t', List.mem_cons_of_mem _ ht', a, ha, o, ho, hc⟩
    · rw [e]
      exact Or.inr ⟨rfl, t, List.mem_cons_self .., a, ha, o, ho, hc⟩

/-- defining an argument in a member is accepted exactly when its key designates no argument of the
    member itself and — provided the member did not clash with the others before — no argument of
    any other member; otherwise it is refused with `std::invalid_argument` -/
theorem groupAddArgument_cases {α : Type} (own : List (Key × α)) (others : List (List Key)) (k : Key) (a : α)
    (hprev : ∀ t ∈ others, ∀ e ∈ own, ∀ o ∈ t, ¬ e.1.Clash o) :
    (groupAddArgument own others k a = .ok (own ++ [(k, a)]) ∧
      (¬ ∃ e ∈ own, e.1.Clash k) ∧ ∀ t ∈ others, ∀ o ∈ t, ¬ k.Clash o) ∨
    (groupAddArgument own others k a = .throw .invalid_argument ∧
      ((∃ e ∈ own, e.1.Clash k) ∨ ∃ t ∈ others, ∃ o ∈ t, k.Clash o)) := by
  unfold groupAddArgument
  rcases addArgument_cases own k a with h | h
  · rw [h]
    exact Or.inr ⟨rfl, Or.inl ((addArgument_throw_iff own k a).mp h)⟩
  · rw [h]
    simp only [Res.bind_ok]
    have hown := (addArgument_ok_iff own k a).mp h
    rcases crossCheck_cases ((own ++ [(k, a)]).map (·.1)) others with ⟨e, hno⟩ | ⟨e, t, ht, x, hx, o, ho, hc⟩
    · rw [e]
      refine Or.inl ⟨rfl, hown, ?_⟩
      intro t ht o ho
      exact hno t ht k (by simp) o ho
    · rw [e]
      refine Or.inr ⟨rfl, Or.inr ⟨t, ht, o, ho, ?_⟩⟩
      simp only [List.map_append, List.map_cons, List.map_nil, List.mem_append, List.mem_map, List.mem_singleton] at hx
      rcases hx with ⟨e', he', rfl⟩ | rfl
      · exact absurd hc (hprev t ht e' he' o ho)
      · exact hc

/-- a key that designates (equals or mismatches, `Key.Clash`) a key of another member is refused -/
theorem groupAddArgument_refused {α : Type} (own : List (Key × α)) (others : List (List Key)) (k : Key) (a : α)
    (t : List Key) (ht : t ∈ others) (o : Key) (ho : o ∈ t) (hc : o.eq k = true ∨ o.mismatch k = true) :
    groupAddArgument own others k a = .throw .invalid_argument := by
  have hclash : k.Clash o := clash_symm ((eq_or_mismatch_iff o k).mp (by rcases hc with h | h <;> simp [h]))
  unfold groupAddArgument
  rcases addArgument_cases own k a with h | h
  · rw [h]; rfl
  · rw [h]
    simp only [Res.bind_ok]
    rcases crossCheck_cases ((own ++ [(k, a)]).map (·.1)) others with ⟨_, hno⟩ | ⟨e, _⟩
    · exact absurd hclash (hno t ht k (by simp) o ho)
    · rw [e]; rfl

end CelmaVerif.ProgArgs
