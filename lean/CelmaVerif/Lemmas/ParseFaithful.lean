import CelmaVerif.Lemmas.ParseCursor
/-
  Parse faithfulness: every argument vector the handler accepts has a `SpellsPlus` derivation of
  exactly the uses it logged.
-/
namespace CelmaVerif.ProgArgs
open CelmaVerif CelmaVerif.Keys


theorem StepSim_bad {x : Res It} {argv : List Word} : StepSim x argv .bad ↔ x = .throw .runtime_error := Iff.rfl
theorem StepSim_done {x : Res It} {argv : List Word} :
    StepSim x argv .done ↔ ∃ it', x = .ok it' ∧ Cur it' argv .done := Iff.rfl
theorem StepSim_tok {x : Res It} {argv : List Word} {t : Tok} {p : Pos} :
    StepSim x argv (.tok t p) ↔ ∃ it', x = .ok it' ∧ Cur it' argv (.tok t p) := Iff.rfl

/-- a successful `operator++` from a represented position shows the next element -/
theorem step_ok_cur {it it' : It} {argv : List Word} {pos : Pos} (h1 : 1 ≤ argv.length) (hr : Rep it argv pos)
    (hs : it.step = .ok it') : Cur it' argv (nextTok it.remAsValue pos) := by
  have := step_sim h1 hr
  cases hn : nextTok it.remAsValue pos with
  | bad => rw [hn, StepSim_bad, hs] at this; cases this
  | done =>
    rw [hn, StepSim_done, hs] at this
    obtain ⟨x, e, c⟩ := this; cases e; exact c
  | tok t p =>
    rw [hn, StepSim_tok, hs] at this
    obtain ⟨x, e, c⟩ := this; cases e; exact c

/-- a value element: a further value of the last multi-value argument, or a value of the positional
    argument, or refused -/
theorem evalValue_shape {cfg : Cfg} {h h' : HState} {ai ai' : It} {r : ArgResult}
    (hty : ai.cur.ty = .value) (he : evalSingleArgument cfg h ai = .ok (h', ai', r)) (hr : r ≠ .unknown) :
    ai' = ai ∧ r = .consumed ∧ h.inverted = false ∧ h'.inverted = false ∧ h'.lastArg = h.lastArg ∧
    ((∃ i d, h.lastArg = some i ∧ cfg.args[i]? = some d ∧ d.multi = true ∧
        h'.uses = h.uses ++ [{ arg := i, val := ai.cur.val, ident := false }]) ∨
     (∃ i d, (∀ j dj, h.lastArg = some j → cfg.args[j]? = some dj → dj.multi = false) ∧
        Resolves cfg Key.pos i d ∧ h'.uses = h.uses ++ [{ arg := i, val := ai.cur.val, ident := true }])) := by
  unfold evalSingleArgument at he
  rw [hty] at he
  dsimp only at he
  split at he
  · rename_i i d hml
    have hd : h.lastArg = some i ∧ cfg.args[i]? = some d ∧ d.multi = true := by
      revert hml
      cases hl : h.lastArg with
      | none => intro hml; cases hml
      | some j =>
        dsimp only
        cases hc : cfg.args[j]? with
        | none => intro hml; cases hml
        | some d' =>
          dsimp only
          split
          · rename_i hm
            intro hml; cases hml; exact ⟨rfl, hc, hm⟩
          · intro hml; cases hml
    cases ha : assignValue h i d ai.cur.val with
    | throw e => rw [ha] at he; cases he
    | oob w => rw [ha] at he; cases he
    | ok x =>
      rw [ha] at he
      simp only [Res.bind_ok, Res.pure_eq, Res.ok.injEq, Prod.mk.injEq] at he
      obtain ⟨e1, e2, e3⟩ := he
      subst e1 e2 e3
      obtain ⟨f1, f2, f3, f4, f5, f6⟩ := assignValue_frame ha
      exact ⟨rfl, rfl, f6, by rw [f1, f6], f2, Or.inl ⟨i, d, hd.1, hd.2.1, hd.2.2, f5⟩⟩
  · rename_i hml
    have hnm : ∀ j dj, h.lastArg = some j → cfg.args[j]? = some dj → dj.multi = false := by
      intro j dj hj hdj
      rw [hj] at hml
      dsimp only at hml
      rw [hdj] at hml
      dsimp only at hml
      cases hm : dj.multi with
      | false => rfl
      | true => rw [hm] at hml; simp at hml
    cases hf : findArg cfg.abbr cfg.table Key.pos with
    | throw e => rw [hf] at he; cases he
    | oob w => rw [hf] at he; cases he
    | ok found =>
      rw [hf] at he
      simp only [Res.bind_ok] at he
      cases found with
      | none =>
        simp only [Res.pure_eq, Res.ok.injEq, Prod.mk.injEq] at he
        exact absurd he.2.2.symm hr
      | some p =>
        obtain ⟨i, d⟩ := p
        dsimp only at he
        cases hh : handleIdentifiedArg cfg h i d ai.cur.val with
        | throw e => rw [hh] at he; cases he
        | oob w => rw [hh] at he; cases he
        | ok x =>
          rw [hh] at he
          simp only [Res.bind_ok, Res.pure_eq, Res.ok.injEq, Prod.mk.injEq] at he
          obtain ⟨e1, e2, e3⟩ := he
          subst e1 e2 e3
          obtain ⟨f1, f2, f3, f4, f5⟩ := handleIdentifiedArg_frame hh
          exact ⟨rfl, rfl, f5, f1, f2, Or.inr ⟨i, d, hnm, hf, f4⟩⟩

/-- a key element: the key must resolve; the argument takes no value, or the next element is its
    value, or (optional value) no value element follows -/
theorem processArg_shape {cfg : Cfg} {h h' : HState} {key : Key} {ai ai' : It} {r : ArgResult}
    {argv : List Word} {pos : Pos} (h1 : 1 ≤ argv.length) (hrep : Rep ai argv pos) (hrem : ai.remAsValue = false)
    (he : processArg cfg h key ai = .ok (h', ai', r)) (hr : r ≠ .unknown) :
    r = .consumed ∧ h.inverted = false ∧ h'.inverted = false ∧ ∃ i d, Resolves cfg key i d ∧ h'.lastArg = some i ∧
      ((d.vmode = .none ∧ ai' = ai ∧ h'.uses = h.uses ++ [{ arg := i, val := [], ident := true }]) ∨
       (d.vmode ≠ .none ∧ ∃ v pos', nextTok (decide (d.vmode = .required)) pos = .tok (.value v) pos' ∧
          Rep ai' argv pos' ∧ ai'.remAsValue = false ∧ h'.uses = h.uses ++ [{ arg := i, val := v, ident := true }]) ∨
       (d.vmode = .optional ∧ (∀ v pos', nextTok false pos ≠ .tok (.value v) pos') ∧ ai' = ai ∧
          h'.uses = h.uses ++ [{ arg := i, val := [], ident := true }])) := by
  unfold processArg at he
  cases hf : findArg cfg.abbr cfg.table key with
  | throw e => rw [hf] at he; cases he
  | oob w => rw [hf] at he; cases he
  | ok found =>
    rw [hf] at he
    simp only [Res.bind_ok] at he
    cases found with
    | none =>
      simp only [Res.pure_eq, Res.ok.injEq, Prod.mk.injEq] at he
      exact absurd he.2.2.symm hr
    | some p =>
      obtain ⟨i, d⟩ := p
      dsimp only at he
      -- what a successful `handleIdentifiedArg` gives
      have key_fact : ∀ v (x : HState), handleIdentifiedArg cfg { h with lastArg := some i } i d v = .ok x →
          h.inverted = false ∧ x.inverted = false ∧ x.lastArg = some i ∧
          x.uses = h.uses ++ [{ arg := i, val := v, ident := true }] := by
        intro v x hok
        obtain ⟨f1, f2, _, f4, f5⟩ := handleIdentifiedArg_frame hok
        exact ⟨f5, f1, f2, f4⟩
      split at he
      · rename_i hm
        cases hh : handleIdentifiedArg cfg { h with lastArg := some i } i d [] with
        | throw e => rw [hh] at he; cases he
        | oob w => rw [hh] at he; cases he
        | ok x =>
          rw [hh] at he
          simp only [Res.bind_ok, Res.pure_eq, Res.ok.injEq, Prod.mk.injEq] at he
          obtain ⟨e1, e2, e3⟩ := he
          subst e1 e2 e3
          obtain ⟨g1, g2, g3, g4⟩ := key_fact _ _ hh
          exact ⟨rfl, g1, g2, i, d, hf, g3, Or.inl ⟨hm, rfl, g4⟩⟩
      · rename_i hm
        -- the look-ahead cursor
        have hrep' : Rep (if d.vmode = VMode.required then ({ ai with remAsValue := true } : It) else ai) argv pos := by
          split
          · exact Rep_rem true hrep
          · exact hrep
        have hrem' : (if d.vmode = VMode.required then ({ ai with remAsValue := true } : It) else ai).remAsValue
            = decide (d.vmode = .required) := by
          split
          · rename_i hq; simp [hq]
          · rename_i hq; simp [hq, hrem]
        cases hs : (if d.vmode = VMode.required then ({ ai with remAsValue := true } : It) else ai).step with
        | throw e => rw [hs] at he; cases he
        | oob w => rw [hs] at he; cases he
        | ok ait2 =>
          rw [hs] at he
          simp only [Res.bind_ok] at he
          have hcur := step_ok_cur h1 hrep' hs
          rw [hrem'] at hcur
          split at he
          · rename_i hcond
            split at he
            · rename_i hopt
              cases hh : handleIdentifiedArg cfg { h with lastArg := some i } i d [] with
              | throw e => rw [hh] at he; cases he
              | oob w => rw [hh] at he; cases he
              | ok x =>
                rw [hh] at he
                simp only [Res.bind_ok, Res.pure_eq, Res.ok.injEq, Prod.mk.injEq] at he
                obtain ⟨e1, e2, e3⟩ := he
                subst e1 e2 e3
                obtain ⟨g1, g2, g3, g4⟩ := key_fact _ _ hh
                refine ⟨rfl, g1, g2, i, d, hf, g3, Or.inr (Or.inr ⟨hopt, ?_, rfl, g4⟩)⟩
                intro v pos' hn
                have hnr : decide (d.vmode = VMode.required) = false := by rw [hopt]; rfl
                rw [hnr, hn] at hcur
                obtain ⟨c1, c2, _, _⟩ := hcur
                rw [c1, c2.1] at hcond
                simp at hcond
            · cases he
          · rename_i hcond
            have hne : ait2.atEnd = false := by
              cases ha : ait2.atEnd with
              | false => rfl
              | true => rw [ha] at hcond; simp at hcond
            have hty : ait2.cur.ty = .value := by
              cases hq : ait2.cur.ty <;> simp [hq] at hcond <;> rfl
            cases hh : handleIdentifiedArg cfg { h with lastArg := some i } i d ait2.cur.val with
            | throw e => rw [hh] at he; cases he
            | oob w => rw [hh] at he; cases he
            | ok x =>
              rw [hh] at he
              simp only [Res.bind_ok, Res.pure_eq, Res.ok.injEq, Prod.mk.injEq] at he
              obtain ⟨e1, e2, e3⟩ := he
              subst e1 e2 e3
              obtain ⟨g1, g2, g3, g4⟩ := key_fact _ _ hh
              refine ⟨rfl, g1, g2, i, d, hf, g3, Or.inr (Or.inl ⟨hm, ?_⟩)⟩
              cases hn : nextTok (decide (d.vmode = VMode.required)) pos with
              | bad => rw [hn] at hcur; exact hcur.elim
              | done => rw [hn] at hcur; change ait2.atEnd = true at hcur; rw [hne] at hcur; cases hcur
              | tok t pos' =>
                rw [hn] at hcur
                obtain ⟨_, c2, c3, c4⟩ := hcur
                cases t with
                | short c => exact absurd (c2.1.symm.trans hty) (by decide)
                | long n => exact absurd (c2.1.symm.trans hty) (by decide)
                | ctrl c => exact absurd (c2.1.symm.trans hty) (by decide)
                | value v =>
                  refine ⟨v, pos', rfl, c3, c4, ?_⟩
                  rw [g4, c2.2]

/-- the loop continues from a represented position -/
theorem cont_faithful {cfg : Cfg} {argv : List Word} (h1 : 1 ≤ argv.length) {fuel : Nat}
    (ih : ∀ (h : HState) (ai : It) (res : TokRes) (hf : HState), Cur ai argv res →
      iterateLoop cfg fuel h ai = .ok hf → ∃ us, SP cfg h.lastArg h.inverted res us ∧ hf.uses = h.uses ++ us)
    {h hf : HState} {ai : It} {pos : Pos} (hrep : Rep ai argv pos) (hrem : ai.remAsValue = false)
    (he : (ai.step >>= fun ai'' => iterateLoop cfg fuel h ai'') = .ok hf) :
    ∃ us, SP cfg h.lastArg h.inverted (nextTok false pos) us ∧ hf.uses = h.uses ++ us := by
  cases hs : ai.step with
  | throw e => rw [hs] at he; cases he
  | oob w => rw [hs] at he; cases he
  | ok ai2 =>
    rw [hs] at he
    simp only [Res.bind_ok] at he
    have hcur := step_ok_cur h1 hrep hs
    rw [hrem] at hcur
    exact ih h ai2 _ hf hcur he

theorem loop_faithful (cfg : Cfg) (argv : List Word) (h1 : 1 ≤ argv.length) (fuel : Nat) :
    ∀ (h : HState) (ai : It) (res : TokRes) (hf : HState), Cur ai argv res →
      iterateLoop cfg fuel h ai = .ok hf → ∃ us, SP cfg h.lastArg h.inverted res us ∧ hf.uses = h.uses ++ us := by
  induction fuel with
  | zero => intro h ai res hf _ he; simp [iterateLoop] at he
  | succ fuel ih =>
    intro h ai res hf hcur he
    unfold iterateLoop at he
    cases res with
    | bad => exact hcur.elim
    | done =>
      change ai.atEnd = true at hcur
      rw [if_pos hcur] at he
      cases he
      exact ⟨[], SP.done _ _, by simp⟩
    | tok t pos =>
      obtain ⟨hne, htok, hrep, hrem⟩ := hcur
      rw [if_neg (by rw [hne]; decide)] at he
      cases hs : evalSingleArgument cfg h ai with
      | throw e => rw [hs] at he; cases he
      | oob w => rw [hs] at he; cases he
      | ok p =>
        obtain ⟨h', ai', r⟩ := p
        rw [hs] at he
        simp only [Res.bind_ok] at he
        have hru : r ≠ .unknown := by
          intro e; subst e; cases he
        cases t with
        | ctrl c =>
          obtain ⟨hty, hch, hc⟩ := htok
          unfold evalSingleArgument at hs
          rw [hty] at hs
          dsimp only at hs
          rw [hch] at hs
          rcases hc with rfl | rfl | rfl
          · simp at hs; exact absurd hs.2.2.symm hru
          · simp at hs; exact absurd hs.2.2.symm hru
          · have hb : (('!' : Char) == '(' || ('!' : Char) == ')') = false := by decide
            rw [hb] at hs
            simp only [Bool.false_eq_true, if_false, Res.pure_eq, Res.ok.injEq, Prod.mk.injEq] at hs
            obtain ⟨e1, e2, e3⟩ := hs
            subst e1 e2 e3
            dsimp only at he
            obtain ⟨us, sp, hu⟩ := cont_faithful h1 ih (h := { h with inverted := true }) hrep hrem he
            exact ⟨us, SP.invert sp, hu⟩
        | value v =>
          obtain ⟨hty, hval⟩ := htok
          obtain ⟨e1, e2, i1, i2, hl, hcase⟩ := evalValue_shape hty hs hru
          subst e1 e2
          dsimp only at he
          obtain ⟨us, sp, hu⟩ := cont_faithful h1 ih (h := h') hrep hrem he
          rw [i2, hl] at sp
          rw [i1]
          rcases hcase with ⟨i, d, hli, hd, hm, hlog⟩ | ⟨i, d, hnm, hres, hlog⟩
          · rw [hli] at sp ⊢
            refine ⟨_ :: us, SP.free hd hm sp, ?_⟩
            rw [hu, hlog, hval]; simp
          · refine ⟨_ :: us, SP.positional hnm hres sp, ?_⟩
            rw [hu, hlog, hval]; simp
        | short c =>
          obtain ⟨hty, hch⟩ := htok
          have hs' : processArg cfg h (Key.ofChar c) ai = .ok (h', ai', r) := by
            unfold evalSingleArgument at hs
            rw [hty] at hs
            dsimp only at hs
            rw [hch] at hs
            exact hs
          obtain ⟨e2, i1, i2, i, d, hres, hl, hcase⟩ := processArg_shape h1 hrep hrem hs' hru
          subst e2
          dsimp only at he
          rw [i1]
          rcases hcase with ⟨hm, e1, hlog⟩ | ⟨hm, v, pos', hn, hrep', hrem', hlog⟩ | ⟨hm, hnv, e1, hlog⟩
          · subst e1
            obtain ⟨us, sp, hu⟩ := cont_faithful h1 ih (h := h') hrep hrem he
            rw [i2, hl] at sp
            exact ⟨_ :: us, SP.flag (t := .short c) (k := Key.ofChar c) rfl hres hm sp, by rw [hu, hlog]; simp⟩
          · obtain ⟨us, sp, hu⟩ := cont_faithful h1 ih (h := h') hrep' hrem' he
            rw [i2, hl] at sp
            exact ⟨_ :: us, SP.keyValue (t := .short c) (k := Key.ofChar c) rfl hres hm hn sp, by rw [hu, hlog]; simp⟩
          · subst e1
            obtain ⟨us, sp, hu⟩ := cont_faithful h1 ih (h := h') hrep hrem he
            rw [i2, hl] at sp
            exact ⟨_ :: us, SP.keyAlone (t := .short c) (k := Key.ofChar c) rfl hres hm hnv sp, by rw [hu, hlog]; simp⟩
        | long n =>
          obtain ⟨hty, hstr⟩ := htok
          have hs' : ∃ key, wordKey n = .ok key ∧ processArg cfg h key ai = .ok (h', ai', r) := by
            unfold evalSingleArgument at hs
            rw [hty] at hs
            dsimp only at hs
            rw [hstr] at hs
            cases hk : wordKey n with
            | throw e => rw [hk] at hs; cases hs
            | oob w => rw [hk] at hs; cases hs
            | ok key => rw [hk] at hs; exact ⟨key, rfl, hs⟩
          obtain ⟨key, hk, hs'⟩ := hs'
          obtain ⟨e2, i1, i2, i, d, hres, hl, hcase⟩ := processArg_shape h1 hrep hrem hs' hru
          subst e2
          dsimp only at he
          rw [i1]
          rcases hcase with ⟨hm, e1, hlog⟩ | ⟨hm, v, pos', hn, hrep', hrem', hlog⟩ | ⟨hm, hnv, e1, hlog⟩
          · subst e1
            obtain ⟨us, sp, hu⟩ := cont_faithful h1 ih (h := h') hrep hrem he
            rw [i2, hl] at sp
            exact ⟨_ :: us, SP.flag (t := .long n) (k := key) hk hres hm sp, by rw [hu, hlog]; simp⟩
          · obtain ⟨us, sp, hu⟩ := cont_faithful h1 ih (h := h') hrep' hrem' he
            rw [i2, hl] at sp
            exact ⟨_ :: us, SP.keyValue (t := .long n) (k := key) hk hres hm hn sp, by rw [hu, hlog]; simp⟩
          · subst e1
            obtain ⟨us, sp, hu⟩ := cont_faithful h1 ih (h := h') hrep hrem he
            rw [i2, hl] at sp
            exact ⟨_ :: us, SP.keyAlone (t := .long n) (k := key) hk hres hm hnv sp, by rw [hu, hlog]; simp⟩

/-- `endChecks` does not touch the use log -/
theorem endChecks_uses {cfg : Cfg} {a a' : HState} (he : endChecks cfg a = .ok a') : a'.uses = a.uses := by
  obtain ⟨b', hb, hs⟩ := endChecks_same (HState.Same.refl a) he
  unfold endChecks at he
  dsimp only at he
  simp only [Res.bind_eq_ok] at he
  obtain ⟨_, _, _, _, _, _, he⟩ := he
  simp only [Res.pure_eq, Res.ok.injEq] at he
  rw [← he]

/-- **Parse faithfulness.**  An accepted argument vector spells — in the declarative grammar — exactly
    the uses the evaluation logged. -/
theorem parse_faithful (cfg : Cfg) (h0 hf : HState) (prog : Word) (ws : List Word) (hl : h0.lastArg = none)
    (hi : h0.inverted = false) (he : evalArguments cfg h0 {} (prog :: ws) = .ok hf) :
    ∃ us, SpellsPlus cfg us ws ∧ hf.uses = h0.uses ++ us := by
  unfold evalArguments evalFileSource evalEnvSource at he
  simp only [Res.pure_eq, Res.bind_ok] at he
  cases hit : iterateArguments cfg h0 (prog :: ws) with
  | throw e => rw [hit] at he; cases he
  | oob w => rw [hit] at he; cases he
  | ok hmid =>
    rw [hit] at he
    simp only [Res.bind_ok] at he
    have hu := endChecks_uses he
    unfold iterateArguments at hit
    have hb := begin_sim prog ws
    cases hbeg : It.begin (prog :: ws) with
    | throw e => rw [hbeg] at hit; cases hit
    | oob w => rw [hbeg] at hit; cases hit
    | ok ai =>
      rw [hbeg] at hit hb
      simp only [Res.bind_ok] at hit
      have hcur : Cur ai (prog :: ws) (nextTok false (.bnd false true ws)) := by
        cases hn : nextTok false (.bnd false true ws) with
        | bad => rw [hn, StepSim_bad] at hb; cases hb
        | done => rw [hn, StepSim_done] at hb; obtain ⟨x, e, c⟩ := hb; cases e; exact c
        | tok t p => rw [hn, StepSim_tok] at hb; obtain ⟨x, e, c⟩ := hb; cases e; exact c
      obtain ⟨us, sp, hlog⟩ := loop_faithful cfg (prog :: ws) (by simp) _ h0 ai _ hmid hcur hit
      rw [hl, hi] at sp
      exact ⟨us, sp, by rw [hu, hlog]⟩

end CelmaVerif.ProgArgs
