import CelmaVerif.Lemmas.RulesCInv
import CelmaVerif.Lemmas.RulesLevel
import CelmaVerif.Lemmas.RulesValueC
/-
  Rules layer, part 9: completeness — an abstract command line that obeys the declared rules is
  accepted.
-/
namespace CelmaVerif.ProgArgs
open CelmaVerif CelmaVerif.Keys

theorem valuesGiven_append (cfg : Cfg) (i : Nat) (a b : List Use) :
    valuesGiven cfg i (a ++ b) = valuesGiven cfg i a + valuesGiven cfg i b := by
  simp [valuesGiven, List.filter_append]

theorem valuesGiven_cons_self (cfg : Cfg) (u : Use) (d : ArgDef) (hd : cfg.args[u.arg]? = some d) (post : List Use) :
    valuesGiven cfg u.arg (u :: post) = u.valueCount d + valuesGiven cfg u.arg post := by
  simp [valuesGiven, hd]

theorem valueCount_pos (d : ArgDef) (u : Use) : 1 ≤ u.valueCount d := by
  unfold Use.valueCount
  cases d.kind <;> simp only <;> omega

/-- a met cardinality leaves room for every value that was given -/
theorem metBy_room {c : Card} {n : Int} {k : Nat} (hm : c.MetBy k) (hl : c.limit = some n) (hpos : 0 < k) :
    (k : Int) ≤ n := by
  unfold Card.MetBy at hm
  cases c with
  | unlimited => cases hl
  | max m =>
    dsimp only at hm
    by_cases h1 : m = -1
    · simp [Card.limit, h1] at hl
    · simp only [Card.limit, h1, if_false, Option.some.injEq] at hl; omega
  | exact m =>
    dsimp only at hm
    simp only [Card.limit, Option.some.injEq] at hl; omega
  | range lo hi =>
    dsimp only at hm
    by_cases h1 : hi = -1
    · simp [Card.limit, h1] at hl
    · simp only [Card.limit, h1, if_false, Option.some.injEq] at hl; omega

/-- the invariants the completeness direction needs -/
structure CompInv (cfg : Cfg) (inits : List DVal) (h : HState) : Prop where
  frame : Frame cfg h
  args  : ArgInv cfg inits h
  glob  : GlobInv cfg h
  cinv  : CInv cfg inits h
  vals  : ValInv cfg inits h

theorem compInv_init (cfg : Cfg) (inits : List DVal) (hin : cfg.args.length ≤ inits.length) :
    CompInv cfg inits (cfg.initState inits) :=
  ⟨frame_init cfg inits hin, argInv_init cfg inits hin, globInv_init cfg inits, cInv_init cfg inits hin,
    valInv_init cfg inits hin⟩

theorem compInv_step {cfg : Cfg} (wf : cfg.WellFormed) {inits : List DVal} {h : HState} {u : Use} {h' : HState}
    (a : CompInv cfg inits h) (e : applyUse cfg h u = .ok h') : CompInv cfg inits h' :=
  ⟨frame_step a.frame e, argInv_step a.frame a.args e, globInv_step a.glob e, cInv_step wf a.frame a.cinv e,
    valInv_step a.frame a.vals e⟩

/-- the hypotheses about the whole command line -/
structure Admissible (cfg : Cfg) (inits : List DVal) (us : List Use) : Prop where
  obeys : Obeys cfg inits us
  /-- no use of a deprecated argument (`assignValue` refuses those) -/
  notDeprecated : ∀ u ∈ us, ∀ d, cfg.args[u.arg]? = some d → d.deprecated = false
  /-- the values given to a LevelCounter argument obey its (stateful) value rules, which
      `ScalarValueOk` only approximates -/
  levels : ∀ (i : Nat) (d : ArgDef) (v : DVal), cfg.args[i]? = some d → d.kind = .level → inits[i]? = some v →
    LevelValuesOk d (levelOf v) false false (valsOf i us)

theorem getElem?_prefix {α : Type} {pre post : List α} {p : Nat} {x : α} (h : pre[p]? = some x) :
    (pre ++ post)[p]? = some x := by
  rw [List.getElem?_append_left (List.getElem?_eq_some_iff.mp h).1]; exact h

/-- progress: the next use of a command line that obeys the rules goes through -/
theorem applyUse_complete {cfg : Cfg} {inits : List DVal} {us pre post : List Use} {u : Use} {h : HState}
    (hus : us = pre ++ u :: post) (huses : h.uses = pre) (inv : CompInv cfg inits h)
    (lf : LevelFuture cfg h (u :: post)) (ad : Admissible cfg inits us) : ∃ h', applyUse cfg h u = .ok h' := by
  have hu : u ∈ us := by rw [hus]; simp
  have huq : us[pre.length]? = some u := by rw [hus]; simp
  obtain ⟨d, harg, hval⟩ := ad.obeys.values u hu
  have hlt : u.arg < h.args.length := by
    rw [inv.frame.argsLen]; exact (List.getElem?_eq_some_iff.mp harg).1
  have hst : h.args[u.arg]? = some h.args[u.arg] := List.getElem?_eq_getElem hlt
  have hgetD := getD_of_getElem? hst
  -- room in the counter
  have room : ∀ n, d.card.limit = some n → (h.args[u.arg]).cnt + u.valueCount d ≤ n := by
    intro n hl
    obtain ⟨st2, hst2, hc, _⟩ := inv.args.count u.arg d n harg hl
    rw [hst] at hst2; cases hst2
    rw [hc, huses]
    have hm := ad.obeys.cardinality u.arg d harg
    have hsplit : valuesGiven cfg u.arg us =
        valuesGiven cfg u.arg pre + (u.valueCount d + valuesGiven cfg u.arg post) := by
      rw [hus, valuesGiven_append, valuesGiven_cons_self cfg u d harg]
    have hpos := valueCount_pos d u
    have := metBy_room hm hl (by omega)
    omega
  apply applyUse_progress harg (ad.notDeprecated u hu d harg) inv.frame.inverted
  · -- no exclusion is pending against this argument
    intro hi
    apply pendingIdentified_progress
    intro x hx hxe
    cases hx2 : x.2 with
    | required => rfl
    | excluded =>
      exfalso
      obtain ⟨p, u0, d0, ks, hu0, hd0, hc0, hk0, _⟩ := inv.cinv.origin x hx
      rw [hx2] at hc0
      rw [huses] at hu0
      have hp : p < pre.length := (List.getElem?_eq_some_iff.mp hu0).1
      have hu0' : us[p]? = some u0 := by rw [hus]; exact getElem?_prefix hu0
      exact ad.obeys.excludes p pre.length u0 u d0 ks x.1 hp hu0' huq hi hd0 hc0 hk0 ⟨d, harg, hxe⟩
  · -- no any-of / one-of constraint was used up
    intro hi
    apply executeGlobals_progress
    intro n g st hg hs
    apply execute_progress
    intro hca hk
    cases hused : st.used with
    | false => rfl
    | true =>
      exfalso
      have h1 := inv.glob.used n g st hg hs hk
      rw [hused, huses] at h1
      have hl : listed cfg g u = true := by simp [listed, hi, harg, hca]
      have h2 : 2 ≤ (listedUses cfg g us).length := by
        rw [hus, listedUses_eq, List.filter_append, List.filter_cons, hl]
        rw [listedUses_eq] at h1
        simp only [if_true, List.length_append, List.length_cons, h1]
        omega
      have h3 := ad.obeys.globals g (List.mem_of_getElem? hg)
      cases hkk : g.kind with
      | allOf => rw [hkk] at hk; rcases hk with c | c <;> cases c
      | differ => rw [hkk] at hk; rcases hk with c | c <;> cases c
      | disjoint => rw [hkk] at hk; rcases hk with c | c <;> cases c
      | anyOf => rw [hkk] at h3; dsimp only at h3; omega
      | oneOf => rw [hkk] at h3; dsimp only at h3; omega
  · intro cnt hcnt
    rw [hgetD] at hcnt ⊢
    rw [inv.frame.fromSrc] at hcnt
    simp only [countValue, Bool.false_eq_true, if_false] at hcnt
    by_cases hkl : d.kind = .level
    · have := lf u.arg d _ harg hkl hst
      rw [valsOf_cons_self] at this
      exact assignDest_level_progress hkl this.1
    · apply assignDest_progress hkl hval
      intro n hl
      have := (gotValue_ok_some hl hcnt).1
      have := room n hl
      show cnt + u.valueCount d ≤ n + 1
      omega
  · rw [hgetD, inv.frame.fromSrc]
    simp only [countValue, Bool.false_eq_true, if_false]
    apply gotValue_progress
    intro n hl
    have := room n hl
    have := valueCount_pos d u
    omega

/-- all uses of a command line that obeys the rules go through -/
theorem applyUses_complete {cfg : Cfg} (wf : cfg.WellFormed) {inits : List DVal} {us : List Use}
    (ad : Admissible cfg inits us) : ∀ (post pre : List Use) (h : HState), us = pre ++ post → h.uses = pre →
    CompInv cfg inits h → LevelFuture cfg h post →
    ∃ h', applyUses cfg h post = .ok h' ∧ h'.uses = us ∧ CompInv cfg inits h' := by
  intro post
  induction post with
  | nil =>
    intro pre h hus huses inv _
    exact ⟨h, rfl, by rw [huses, hus]; simp, inv⟩
  | cons u post ih =>
    intro pre h hus huses inv lf
    obtain ⟨h1, e1⟩ := applyUse_complete hus huses inv lf ad
    obtain ⟨d, pend, cnt, st', s⟩ := applyUse_ok e1
    obtain ⟨h', e', hu', inv'⟩ := ih (pre ++ [u]) h1 (by rw [hus]; simp) (by rw [s.uses', huses])
      (compInv_step wf inv e1) (levelFuture_step inv.frame lf e1)
    exact ⟨h', by simp only [applyUses, e1, Res.bind_ok]; exact e', hu', inv'⟩

/-- the final checks pass on a command line that obeys the rules -/
theorem endChecks_complete {cfg : Cfg} (wf : cfg.WellFormed) {inits : List DVal}
    (hin : cfg.args.length ≤ inits.length) {us : List Use} {h : HState}
    (huses : h.uses = us) (inv : CompInv cfg inits h) (ad : Admissible cfg inits us) :
    ∃ h', endChecks cfg h = .ok h' := by
  have c1 : checkMandatoryCardinality cfg.args h.args = .ok () := by
    apply checkMandatoryCardinality_progress
    intro i d st hi hs
    constructor
    · cases hm : d.mandatory with
      | false => rfl
      | true =>
        have hob := ad.obeys.mandatory i d hi hm
        have := inv.cinv.hasValue i d st hi hs (by rw [huses]; exact hob)
        simp [this]
    · have hmet := ad.obeys.cardinality i d hi
      unfold Card.MetBy at hmet
      cases hc : d.card with
      | unlimited => rfl
      | max m => rfl
      | exact m =>
        rw [hc] at hmet; dsimp only at hmet
        obtain ⟨st2, hst2, h1, _⟩ := inv.args.count i d m hi (by rw [hc]; rfl)
        rw [hs] at hst2; cases hst2
        rw [huses] at h1
        simp only [Card.check]
        rw [if_neg]
        · rfl
        · simp only [bne_iff_ne, ne_eq, not_and, Decidable.not_not]; omega
      | range lo hi' =>
        rw [hc] at hmet; dsimp only at hmet
        simp only [Card.check]
        rw [if_neg]
        · rfl
        · simp only [bne_iff_ne, ne_eq, not_and, Int.not_lt]
          by_cases h1 : hi' = -1
          · have := inv.cinv.idle i d st hi hs (by rw [hc]; simp [Card.limit, h1])
            omega
          · obtain ⟨st2, hst2, h2, _⟩ := inv.args.count i d hi' hi (by rw [hc]; simp [Card.limit, h1])
            rw [hs] at hst2; cases hst2
            rw [huses] at h2
            omega
  have c2 : pendingCheckRequired h.pending = .ok () := by
    unfold pendingCheckRequired
    rw [throwIf_eq_ok]
    cases hany : h.pending.any (fun e => decide (e.2 = CType.required)) with
    | false => rfl
    | true =>
      exfalso
      obtain ⟨x, hx, hx2⟩ := List.any_eq_true.mp hany
      simp only [decide_eq_true_eq] at hx2
      obtain ⟨p, u0, d0, ks, hu0, hd0, hc0, hk0, hnot⟩ := inv.cinv.origin x hx
      rw [hx2] at hc0
      rw [huses] at hu0 hnot
      obtain ⟨q, w, hpq, hw, hwi, hdes⟩ := ad.obeys.requires p u0 d0 ks x.1 hu0 hd0 hc0 hk0
      exact hnot hx2 q w hpq hw hwi hdes
  have c3 : checkGlobals cfg.args h.args cfg.globals h.globals = .ok () := by
    apply checkGlobals_progress
    intro n g st hg hs
    have hgm : g ∈ cfg.globals := List.mem_of_getElem? hg
    have hob := ad.obeys.globals g hgm
    cases hk : g.kind with
    | differ =>
      rw [hk] at hob; dsimp only at hob
      exact differ_complete wf hin inv.args inv.vals hgm hk (by rw [huses]; exact hob) st
    | disjoint =>
      rw [hk] at hob; dsimp only at hob
      exact disjoint_complete wf hin inv.vals hgm hk (by rw [huses]; exact hob) st
    | allOf =>
      unfold GDef.endCheck
      rw [hk] at hob; dsimp only at hob ⊢
      rw [hk]; dsimp only
      obtain ⟨hsl, hno⟩ := inv.cinv.remaining n g st hg hs hk
      cases hr : st.remaining with
      | nil => rfl
      | cons k ks =>
        exfalso
        have hkm : k ∈ st.remaining := by rw [hr]; exact List.mem_cons_self
        obtain ⟨u, hu, hui, hdes⟩ := hob k (hsl.subset hkm)
        exact hno k hkm u (by rw [huses]; exact hu) hui hdes
    | anyOf => unfold GDef.endCheck; rw [hk]; rfl
    | oneOf =>
      unfold GDef.endCheck
      rw [hk] at hob; dsimp only at hob ⊢
      rw [hk]; dsimp only
      have := inv.glob.used n g st hg hs (Or.inr hk)
      rw [huses, hob] at this
      cases hu : st.used with
      | true => rfl
      | false => rw [hu] at this; simp at this
  unfold endChecks
  simp only [c1, c2, c3, Res.bind_ok]
  exact ⟨_, rfl⟩

/-- **Completeness of the rules layer.**  For every well-formed configuration, all initial values
    and every abstract command line: if the command line obeys the declared rules (`Obeys`), uses
    no deprecated argument, and the values given to each LevelCounter argument obey the
    LevelCounter rules (`LevelValuesOk`, the exact reading of what `ScalarValueOk` approximates),
    the evaluation returns normally. -/
theorem rules_complete {cfg : Cfg} (wf : cfg.WellFormed) {inits : List DVal}
    (hin : cfg.args.length ≤ inits.length) {us : List Use} (ob : Obeys cfg inits us)
    (notDeprecated : ∀ u ∈ us, ∀ d, cfg.args[u.arg]? = some d → d.deprecated = false)
    (levels : ∀ (i : Nat) (d : ArgDef) (v : DVal), cfg.args[i]? = some d → d.kind = .level →
      inits[i]? = some v → LevelValuesOk d (levelOf v) false false (valsOf i us)) :
    ∃ h, evalUses cfg (cfg.initState inits) us = .ok h := by
  have ad : Admissible cfg inits us := ⟨ob, notDeprecated, levels⟩
  have lf : LevelFuture cfg (cfg.initState inits) us := by
    intro i d st hi hk hs
    obtain ⟨v, hv, hst⟩ := initState_args cfg inits i d hi hin
    rw [hst] at hs; cases hs
    exact levels i d v hi hk hv
  obtain ⟨h1, e1, hu1, inv1⟩ := applyUses_complete wf ad us [] (cfg.initState inits) (by simp)
    (by simp [Cfg.initState]) (compInv_init cfg inits hin) lf
  obtain ⟨h2, e2⟩ := endChecks_complete wf hin hu1 inv1 ad
  exact ⟨h2, by unfold evalUses; simp only [e1, Res.bind_ok]; exact e2⟩

/-- completeness without LevelCounter arguments: if the command line obeys the declared rules and
    uses neither a deprecated nor a LevelCounter argument, the evaluation returns normally -/
theorem rules_complete_partial {cfg : Cfg} (wf : cfg.WellFormed) {inits : List DVal}
    (hin : cfg.args.length ≤ inits.length) {us : List Use} (ob : Obeys cfg inits us)
    (notDeprecated : ∀ u ∈ us, ∀ d, cfg.args[u.arg]? = some d → d.deprecated = false)
    (noLevel : ∀ u ∈ us, ∀ d, cfg.args[u.arg]? = some d → d.kind ≠ .level) :
    ∃ h, evalUses cfg (cfg.initState inits) us = .ok h := by
  apply rules_complete wf hin ob notDeprecated
  intro i d v hi hk _
  have : valsOf i us = [] := by
    unfold valsOf
    rw [List.map_eq_nil_iff, List.filter_eq_nil_iff]
    intro u hu
    simp only [decide_eq_true_eq]
    intro hui
    exact noLevel u hu d (by rw [hui]; exact hi) hk
  rw [this]; trivial

/-- the LevelCounter rules are also necessary: an accepted command line obeys them -/
theorem level_rules_sound {cfg : Cfg} {inits : List DVal} (hin : cfg.args.length ≤ inits.length)
    {us : List Use} {h : HState} (e : evalUses cfg (cfg.initState inits) us = .ok h)
    {i : Nat} {d : ArgDef} {v : DVal} (hi : cfg.args[i]? = some d) (hk : d.kind = .level)
    (hv : inits[i]? = some v) : LevelValuesOk d (levelOf v) false false (valsOf i us) := by
  obtain ⟨h1, ha, _⟩ := evalUses_ok e
  obtain ⟨v', hv', hst⟩ := initState_args cfg inits i d hi hin
  rw [hv] at hv'; cases hv'
  exact level_future_sound us _ _ (frame_init cfg inits hin) ha i d _ hi hk hst

end CelmaVerif.ProgArgs
