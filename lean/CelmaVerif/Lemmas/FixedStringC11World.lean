import CelmaVerif.Lemmas.FixedStringStep
import CelmaVerif.Lemmas.FixedStringC11Mut
import CelmaVerif.Lemmas.FixedStringC11Rep
import CelmaVerif.Lemmas.FixedStringC11Obs
/-
  C11 at the level of the operation language: what is claimed for one `step`, and the inversion lemmas
  that reduce a `step` equation to an equation about the implementation function.
-/
namespace CelmaVerif.FixedString
open CelmaVerif

/-- the five overloads that return an iterator: only the content is compared with std::string -/
def CmpOut : Op → Prop
  | .insertItC .. | .insertItCC .. | .insertItIl .. | .eraseIt .. | .eraseItIt .. => False
  | _ => True

/-- C11 for one operation in one state: whenever the operation returns, `std::string` (the specification)
    is defined on the same arguments, the text of `s` afterwards is the specified text cut off at the
    capacity, and the value returned is the specified value. -/
def C11Holds (c cu : Cfg) (w : World) (op : Op) : Prop :=
  ∀ w' o, step c cu w op = .ok (w', o) →
    ∃ t o', spec id (npos c) w op = .ok (t, o') ∧ abs w'.s = t.take c.L ∧ (CmpOut op → o = o')

variable {c cu : Cfg} {w w' : World} {o : Out}

theorem mutS_inv {r : Res FStr} (h : mutS w r = .ok (w', o)) :
    ∃ s', r = .ok s' ∧ w' = { w with s := s' } ∧ o = .unit := by
  unfold mutS at h
  cases r with
  | ok s' => rw [bindR_ok] at h; cases h; exact ⟨s', rfl, rfl, rfl⟩
  | oob x => rw [bindR_oob] at h; cases h
  | throw e => rw [bindR_throw] at h; cases h

theorem mutIt_inv {r : Res (FStr × Nat)} (h : mutIt w r = .ok (w', o)) :
    ∃ p, r = .ok p ∧ w' = { w with s := p.1 } := by
  unfold mutIt at h
  cases r with
  | ok p => rw [bindR_ok] at h; cases h; exact ⟨p, rfl, rfl⟩
  | oob x => rw [bindR_oob] at h; cases h
  | throw e => rw [bindR_throw] at h; cases h

theorem obs_inv {α : Type} {r : Res α} {f : α → Out} (h : obs w r f = .ok (w', o)) :
    ∃ a, r = .ok a ∧ w' = w ∧ o = f a := by
  unfold obs at h
  cases r with
  | ok a => rw [bindR_ok] at h; cases h; exact ⟨a, rfl, rfl, rfl⟩
  | oob x => rw [bindR_oob] at h; cases h
  | throw e => rw [bindR_throw] at h; cases h

/-- the text of a well-formed string fits the capacity -/
theorem abs_take_cap {s : FStr} (hs : WF c s) : (abs s).take c.L = abs s :=
  List.take_of_length_le (by rw [abs_length hs]; exact hs.2.1)

/-- conclusion of `C11Holds` for a mutator whose new text is known -/
theorem c11_mut {op : Op} {s' : FStr} {t : Str} (hsp : spec id (npos c) w op = .ok (t, .unit))
    (habs : abs s' = t.take c.L) :
    ∃ t' o', spec id (npos c) w op = .ok (t', o') ∧ abs ({ w with s := s' } : World).s = t'.take c.L ∧
      (CmpOut op → Out.unit = o') :=
  ⟨t, .unit, hsp, habs, fun _ => rfl⟩

/-- conclusion of `C11Holds` for an observer whose answer is known -/
theorem c11_obs {op : Op} (hs : WF c w.s) {o' : Out} (hsp : spec id (npos c) w op = .ok (abs w.s, o')) :
    ∃ t o'', spec id (npos c) w op = .ok (t, o'') ∧ abs w.s = t.take c.L ∧ (CmpOut op → o' = o'') :=
  ⟨abs w.s, o', hsp, (abs_take_cap hs).symm, fun _ => rfl⟩

end CelmaVerif.FixedString
