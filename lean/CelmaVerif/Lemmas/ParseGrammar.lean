import CelmaVerif.Lemmas.Spelling
/-
  Declarative grammar of the command line, defined over the *words* only — no cursor object, no
  indices, none of the functions of Model/ProgArgs/Iter.lean:

  * `nextTok` says how words break into elements (`Tok`): short key characters behind one dash,
    the name behind two dashes (up to a `=`), values, the lone control characters, the separator
    `--` (after which every word is a value);
  * `SP` says which element sequences spell which uses: a key must resolve (`Resolves`), a key whose
    argument needs a value must be followed by a value element, a value element goes to the last
    multi-value argument or to the positional argument, `!` must not be followed by any use;
  * `SpellsPlus cfg us ws`: the words `ws` (argv without the program name) spell the uses `us`.

  Lemmas/ParseCursor.lean ties `nextTok` to the cursor model, Lemmas/ParseFaithful.lean proves that
  every accepted argument vector has a `SpellsPlus` derivation of exactly the uses it logged.
-/
namespace CelmaVerif.ProgArgs
open CelmaVerif CelmaVerif.Keys

/-- the elements a command line is made of -/
inductive Tok where
  | short (c : Char)      -- one key character behind a single dash
  | long (name : Word)    -- the name behind a double dash, up to the first `=`
  | value (v : Word)
  | ctrl (c : Char)       -- a word that is only `(`, `)` or `!`
  deriving DecidableEq, Repr

/-- where the reading stands -/
inductive Pos where
  /-- before the words `ws`; `dashed`: behind the separator `--`; `first`: `ws` is the whole line -/
  | bnd (dashed first : Bool) (ws : List Word)
  /-- inside a word that started with a dash: the characters `c :: cs` of it are left, `ws` follow -/
  | inw (c : Char) (cs : Word) (ws : List Word)
  /-- behind `--name=`: the rest `v` of the word is the value, `ws` follow -/
  | eqv (v : Word) (ws : List Word)
  deriving DecidableEq, Repr

inductive TokRes where
  | bad                         -- a lone dash
  | done                        -- end of the line
  | tok (t : Tok) (p : Pos)     -- next element, and where the reading stands behind it
  deriving DecidableEq, Repr

/-- a word that is exactly one control character -/
def ctrlOf : Word → Option Char
  | [c] => if c = '(' ∨ c = ')' ∨ c = '!' then some c else none
  | _ => none

/-- behind the separator `--`: every word is a value (a lone control character stays one) -/
def dashedTok : List Word → TokRes
  | [] => .done
  | w :: rest =>
    match ctrlOf w with
    | some c => .tok (.ctrl c) (.bnd true false rest)
    | none => .tok (.value w) (.bnd true false rest)

/-- inside a dashed word, at character `c` with `r` behind it:
    a dash that ends the word is the separator `--`; a dash with more behind it starts a long name
    (cut at the first `=`, the rest of the word being its value); any other character is a short key -/
def inWordTok (c : Char) (r : Word) (rest : List Word) : TokRes :=
  if c = '-' then
    match r with
    | [] => dashedTok rest
    | _ :: _ =>
      match r.dropWhile (· != '=') with
      | [] => .tok (.long r) (.bnd false false rest)
      | _ :: v => .tok (.long (r.takeWhile (· != '='))) (.eqv v rest)
  else
    match r with
    | [] => .tok (.short c) (.bnd false false rest)
    | c' :: r' => .tok (.short c) (.inw c' r' rest)

/-- at a word boundary (not behind `--`) -/
def wordTok (first : Bool) : List Word → TokRes
  | [] => .done
  | w :: rest =>
    match (if first then none else ctrlOf w) with
    | some c => .tok (.ctrl c) (.bnd false false rest)
    | none =>
      match w with
      | ['-'] => .bad
      | '-' :: c :: r => inWordTok c r rest
      | _ => .tok (.value w) (.bnd false false rest)

/-- the next element.  `rem`: the element before was a key whose argument requires a value — then
    the rest of the current word is that value (`-cVALUE`) -/
def nextTok (rem : Bool) : Pos → TokRes
  | .bnd true _ ws => dashedTok ws
  | .bnd false first ws => wordTok first ws
  | .inw c cs ws => if rem then .tok (.value (c :: cs)) (.bnd false false ws) else inWordTok c cs ws
  | .eqv v ws => .tok (.value v) (.bnd false false ws)

/-- the key an element stands for (`wordKey n`: what the constructor for key specifications makes of
    the name `n`, of `--n` when `n` has one character — `Handler::evalSingleArgument`, case `stringArg`) -/
def KeyTok (t : Tok) (k : Key) : Prop :=
  match t with
  | .short c => k = Key.ofChar c
  | .long n => wordKey n = .ok k
  | _ => False

/-- `SP cfg l inv r us`: from the element/position `r` on, the line spells the uses `us`;
    `l` = the argument used last by key (free values go there), `inv` = a `!` was read and no use
    has followed. -/
inductive SP (cfg : Cfg) : Option Nat → Bool → TokRes → List Use → Prop where
  | done (l : Option Nat) (inv : Bool) : SP cfg l inv .done []
  /-- a key of an argument that takes no value -/
  | flag {l : Option Nat} {t : Tok} {pos : Pos} {k : Key} {i : Nat} {d : ArgDef} {us : List Use} :
      KeyTok t k → Resolves cfg k i d → d.vmode = .none →
      SP cfg (some i) false (nextTok false pos) us →
      SP cfg l false (.tok t pos) ({ arg := i, val := [], ident := true } :: us)
  /-- a key of an argument that takes a value, followed by a value element -/
  | keyValue {l : Option Nat} {t : Tok} {pos pos' : Pos} {k : Key} {i : Nat} {d : ArgDef} {v : Word} {us : List Use} :
      KeyTok t k → Resolves cfg k i d → d.vmode ≠ .none →
      nextTok (decide (d.vmode = .required)) pos = .tok (.value v) pos' →
      SP cfg (some i) false (nextTok false pos') us →
      SP cfg l false (.tok t pos) ({ arg := i, val := v, ident := true } :: us)
  /-- a key of an argument whose value is optional, not followed by a value element -/
  | keyAlone {l : Option Nat} {t : Tok} {pos : Pos} {k : Key} {i : Nat} {d : ArgDef} {us : List Use} :
      KeyTok t k → Resolves cfg k i d → d.vmode = .optional →
      (∀ v pos', nextTok false pos ≠ .tok (.value v) pos') →
      SP cfg (some i) false (nextTok false pos) us →
      SP cfg l false (.tok t pos) ({ arg := i, val := [], ident := true } :: us)
  /-- a value element behind a multi-value argument: a further value of it -/
  | free {i : Nat} {d : ArgDef} {v : Word} {pos : Pos} {us : List Use} :
      cfg.args[i]? = some d → d.multi = true →
      SP cfg (some i) false (nextTok false pos) us →
      SP cfg (some i) false (.tok (.value v) pos) ({ arg := i, val := v, ident := false } :: us)
  /-- any other value element: a value of the positional argument (which must be defined) -/
  | positional {l : Option Nat} {i : Nat} {d : ArgDef} {v : Word} {pos : Pos} {us : List Use} :
      (∀ j dj, l = some j → cfg.args[j]? = some dj → dj.multi = false) →
      Resolves cfg Key.pos i d →
      SP cfg l false (nextTok false pos) us →
      SP cfg l false (.tok (.value v) pos) ({ arg := i, val := v, ident := true } :: us)
  /-- `!`: accepted only if no use follows (no argument of the fragment supports inversion) -/
  | invert {l : Option Nat} {inv : Bool} {pos : Pos} {us : List Use} :
      SP cfg l true (nextTok false pos) us → SP cfg l inv (.tok (.ctrl '!') pos) us

/-- the words `ws` (argv without the program name) spell the uses `us` -/
def SpellsPlus (cfg : Cfg) (us : List Use) (ws : List Word) : Prop :=
  SP cfg none false (nextTok false (.bnd false true ws)) us

/-! ### correspondence with the cursor model (used by ParseCursor / ParseFaithful) -/

/-- the cursor's current element is the element `t` -/
def TokIs (e : Elem) (t : Tok) : Prop :=
  match t with
  | .short c => e.ty = .singleCharArg ∧ e.ch = c
  | .long n => e.ty = .stringArg ∧ e.str = n
  | .value v => e.ty = .value ∧ e.val = v
  | .ctrl c => e.ty = .control ∧ e.ch = c ∧ (c = '(' ∨ c = ')' ∨ c = '!')

/-- the cursor `it` over `argv` stands at the position `pos` (its current element, `curLen` and the
    "rest as value" flag do not matter) -/
def Rep (it : It) (argv : List Word) : Pos → Prop
  | .bnd dashed first ws =>
      first = false ∧ it.argv = argv ∧ it.argIndex ≤ argv.length ∧ it.charPos = 0 ∧ it.nextIsValue = false ∧
      it.acceptDashed = dashed ∧ argv.drop it.argIndex = ws
  | .inw c cs ws =>
      ∃ w, it.argv = argv ∧ argv[it.argIndex]? = some w ∧ 1 ≤ it.charPos ∧ w.drop it.charPos = c :: cs ∧
        it.nextIsValue = false ∧ it.acceptDashed = false ∧ argv.drop (it.argIndex + 1) = ws
  | .eqv v ws =>
      ∃ w, it.argv = argv ∧ argv[it.argIndex]? = some w ∧ it.charPos ≤ w.length ∧ w.drop it.charPos = v ∧
        it.nextIsValue = true ∧ it.acceptDashed = false ∧ argv.drop (it.argIndex + 1) = ws

/-- the cursor `ai` (current element + position) shows the reading result `r` -/
def Cur (ai : It) (argv : List Word) : TokRes → Prop
  | .bad => False
  | .done => ai.atEnd = true
  | .tok t pos => ai.atEnd = false ∧ TokIs ai.cur t ∧ Rep ai argv pos ∧ ai.remAsValue = false

/-- a cursor operation (`begin()`, `operator++`) produces the reading result `r` -/
def StepSim (x : Res It) (argv : List Word) (r : TokRes) : Prop :=
  match r with
  | .bad => x = .throw .runtime_error
  | r => ∃ it', x = .ok it' ∧ Cur it' argv r

end CelmaVerif.ProgArgs
