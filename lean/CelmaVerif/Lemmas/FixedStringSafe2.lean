import CelmaVerif.Lemmas.FixedStringSafe
/-
  C10, mutators continued: replace family, swap, append( first, last).
-/
namespace CelmaVerif.FixedString
open CelmaVerif

variable {c : Cfg}

/-- `replaceImpl`: `[str + pos2, str + pos2 + count2)` must be readable -/
theorem replaceImpl_safe (hc : CfgOK c) {s : FStr} (hs : WF c s) (pos1 count1 : Nat) {a : List Byte} {pos2 count2 : Nat}
    (ha : pos2 + count2 ≤ a.length) : OkWF c (replaceImpl c s pos1 count1 a pos2 count2) := by
  obtain ⟨hb, hl, h0⟩ := hs
  unfold replaceImpl
  split
  · exact okwf_ok ⟨hb, hl, h0⟩
  · split
    · simp only
      split
      · apply okwf_bind (good_copyIn hb (by omega) (by omega)); intro b h1
        exact okwf_finish hc h1 (by omega)
      · apply okwf_bind (good_copyIn hb (by omega) (by omega)); intro b h1
        exact okwf_finish hc h1 (by omega)
    · split
      · obtain ⟨b, e1, l1⟩ := good_copyIn (buf := s.buf) (off := pos1) (a := a) (spos := pos2) (n := count2) hb
          (by omega) (by omega)
        rw [e1, bindR_ok]
        refine ⟨_, rfl, l1, hl, ?_⟩
        -- the terminator at `len` is behind the replaced part
        simp only
        unfold copyIn at e1
        obtain ⟨d, hd, hdl⟩ := read_len (a := a) (off := pos2) (n := count2) (w := "memcpy") ha
        rw [hd, bindR_ok] at e1
        unfold Mem.write at e1
        rw [if_pos (by omega)] at e1
        cases e1
        have : pos1 + d.length ≤ s.len := by omega
        rw [List.getElem?_append_right (by simp; omega)]
        simp only [List.length_append, List.length_take, List.getElem?_drop]
        rw [Nat.min_eq_left (by omega)]
        rw [← h0]; congr 1; omega
      · split
        · simp only
          split
          · split
            · apply okwf_bind (good_move hb (by omega) (by omega)); intro b1 h1
              apply okwf_bind (good_copyIn h1 (by omega) (by omega)); intro b2 h2
              exact okwf_finish hc h2 (by omega)
            · apply okwf_bind (good_move hb (by omega) (by omega)); intro b1 h1
              apply okwf_bind (good_copyIn h1 (by omega) (by omega)); intro b2 h2
              exact okwf_finish hc h2 (by omega)
          · split
            · apply okwf_bind (good_move hb (by omega) (by omega)); intro b1 h1
              apply okwf_bind (good_copyIn h1 (by omega) (by omega)); intro b2 h2
              exact okwf_finish hc h2 (by omega)
            · apply okwf_bind (good_move hb (by omega) (by omega)); intro b1 h1
              apply okwf_bind (good_copyIn h1 (by omega) (by omega)); intro b2 h2
              exact okwf_finish hc h2 (by omega)
        · apply okwf_bind (good_move hb (by omega) (by omega)); intro b1 h1
          apply okwf_bind (good_copyIn h1 (by omega) (by omega)); intro b2 h2
          exact okwf_finish hc h2 (by omega)

theorem replaceF_safe (hc : CfgOK c) {s : FStr} (hs : WF c s) (pos count : Nat) {co : Cfg} {o : FStr} (ho : WF co o) :
    OkWF c (replaceF c s pos count o) := by
  unfold replaceF; exact replaceImpl_safe hc hs pos count (by have := ho.1; have := ho.2.1; omega)

theorem replaceS_safe (hc : CfgOK c) {s : FStr} (hs : WF c s) (pos count : Nat) (d : Str) :
    OkWF c (replaceS c s pos count d) := by
  unfold replaceS; exact replaceImpl_safe hc hs pos count (by simp)

theorem replaceFSub_safe (hc : CfgOK c) {s : FStr} (hs : WF c s) (pos1 count1 : Nat) {co : Cfg} {o : FStr}
    (ho : WF co o) (pos2 count2 : Nat) : OkWF c (replaceFSub c s pos1 count1 o pos2 count2) := by
  unfold replaceFSub; split
  · exact okwf_ok hs
  · apply replaceImpl_safe hc hs
    have : min count2 (o.len - pos2) ≤ o.len - pos2 := Nat.min_le_right _ _
    have := ho.1; have := ho.2.1
    omega

theorem replaceSSub_safe (hc : CfgOK c) {s : FStr} (hs : WF c s) (pos1 count1 : Nat) (d : Str) (pos2 count2 : Nat) :
    OkWF c (replaceSSub c s pos1 count1 d pos2 count2) := by
  unfold replaceSSub; split
  · exact okwf_ok hs
  · apply replaceImpl_safe hc hs
    have : min count2 (d.length - pos2) ≤ d.length - pos2 := Nat.min_le_right _ _
    simp; omega

theorem replaceP_safe (hc : CfgOK c) {s : FStr} (hs : WF c s) (pos1 count1 : Nat) {a : List Byte} (ha : 0 ∈ a) :
    OkWF c (replaceP c s pos1 count1 a) := by
  obtain ⟨n, h1, h2, _⟩ := cstrlen_ok a ha
  unfold replaceP; rw [h1, bindR_ok]
  exact replaceImpl_safe hc hs pos1 count1 (by omega)

theorem replacePN_safe (hc : CfgOK c) {s : FStr} (hs : WF c s) (pos1 count1 : Nat) {a : List Byte} (ha : 0 ∈ a)
    (count2 : Nat) : OkWF c (replacePN c s pos1 count1 a count2) := by
  obtain ⟨n, h1, h2, _⟩ := cstrlen_ok a ha
  unfold replacePN; rw [h1, bindR_ok]
  apply replaceImpl_safe hc hs pos1 count1
  have : min count2 n ≤ n := Nat.min_le_right _ _
  omega

theorem replaceCh_safe (hc : CfgOK c) {s : FStr} (hs : WF c s) (pos count count2 ch : Nat) :
    OkWF c (replaceCh c s pos count count2 ch) := by
  unfold replaceCh; exact replaceS_safe hc hs pos count _

/-- `[first2, last2)` is a range of the other string; `first2` can be dereferenced unless the range is empty -/
theorem replaceItIt_safe (hc : CfgOK c) {s : FStr} (hs : WF c s) (first last : Nat) {o : FStr} (ho : WF c o)
    {first2 last2 : Nat}
    (h : first2 = last2 ∨ (first2 < o.len ∧ (last2 = itEnd c ∨ (first2 ≤ last2 ∧ last2 ≤ o.len)))) :
    OkWF c (replaceItIt c s first last o first2 last2) := by
  have hW := hc.hW
  unfold replaceItIt; split
  · exact okwf_ok hs
  · rename_i hcond
    rcases h with h | ⟨h2, hl2⟩
    · exact absurd (Or.inr (Or.inr h)) hcond
    · have hne : first2 ≠ itEnd c := by unfold itEnd; have := ho.2.1; omega
      simp only
      obtain ⟨x, hx⟩ := okr_get1 (a := o.buf) (i := first2) (by have := ho.1; have := ho.2.1; omega)
      unfold itDeref; rw [if_neg hne, hx]
      simp only
      split
      · -- up to the terminator of the other string
        have hmem : (0 : Byte) ∈ o.buf.drop first2 := by
          have h0 := ho.2.2
          have : (o.buf.drop first2)[o.len - first2]? = some 0 := by
            rw [List.getElem?_drop]; rw [← h0]; congr 1; omega
          exact List.mem_of_getElem? this
        obtain ⟨n, e1, e2, _⟩ := cstrlen_ok _ hmem
        rw [e1, bindR_ok]
        exact replaceImpl_safe hc hs _ _ (by omega)
      · apply replaceImpl_safe hc hs
        rcases hl2 with h | ⟨h3, h4⟩
        · contradiction
        · have := ho.1; have := ho.2.1
          have hle : itMinus c o last2 first2 ≤ last2 - first2 := by
            unfold itMinus subW
            repeat' split
            all_goals omega
          simp only [List.length_drop]; omega

theorem replaceItSIt_safe (hc : CfgOK c) {s : FStr} (hs : WF c s) (first last : Nat) (d : Str) {i j : Nat}
    (hij : i ≤ j) (hj : j ≤ d.length) : OkWF c (replaceItSIt c s first last d i j) := by
  unfold replaceItSIt; split
  · exact okwf_ok hs
  · exact replaceImpl_safe hc hs _ _ (by simp; omega)

theorem replaceItPN_safe (hc : CfgOK c) {s : FStr} (hs : WF c s) (first last : Nat) {a : List Byte} {count2 : Nat}
    (ha : count2 ≤ a.length) : OkWF c (replaceItPN c s first last a count2) := by
  unfold replaceItPN; split
  · exact okwf_ok hs
  · exact replaceImpl_safe hc hs _ _ (by omega)

theorem replaceItP_safe (hc : CfgOK c) {s : FStr} (hs : WF c s) (first last : Nat) {a : List Byte} (ha : 0 ∈ a) :
    OkWF c (replaceItP c s first last a) := by
  obtain ⟨n, h1, h2, _⟩ := cstrlen_ok a ha
  unfold replaceItP; rw [h1, bindR_ok]
  exact replaceItPN_safe hc hs first last (by omega)

theorem replaceItCh_safe (hc : CfgOK c) {s : FStr} (hs : WF c s) (first last count2 ch : Nat) :
    OkWF c (replaceItCh c s first last count2 ch) := by
  unfold replaceItCh; split
  · exact okwf_ok hs
  · exact replaceCh_safe hc hs _ _ _ _

theorem replaceItList_safe (hc : CfgOK c) {s : FStr} (hs : WF c s) (first last : Nat) (il : Str) :
    OkWF c (replaceItList c s first last il) := by
  unfold replaceItList; split
  · exact okwf_ok hs
  · exact replaceItPN_safe hc hs first last (Nat.le_refl _)

/-- `append( first, last)`: `[first, last)` is a range of the other string, `first` can be dereferenced
    unless the range is empty -/
theorem appendItIt_safe (hc : CfgOK c) {s : FStr} (hs : WF c s) {o : FStr} (ho : WF c o) {first last : Nat}
    (h : first = last ∨ (first < o.len ∧ (last = itEnd c ∨ (first ≤ last ∧ last ≤ o.len)))) :
    OkWF c (appendItIt c s o first last) := by
  have hW := hc.hW
  unfold appendItIt; split
  · exact okwf_ok hs
  · rename_i hne
    rcases h with h | ⟨h1, h2⟩
    · exact absurd (Or.inl h) hne
    · have hne2 : first ≠ itEnd c := by unfold itEnd; have := ho.2.1; omega
      obtain ⟨x, hx⟩ := okr_get1 (a := o.buf) (i := first) (by have := ho.1; have := ho.2.1; omega)
      simp only
      unfold itDeref; rw [if_neg hne2, hx]
      simp only
      apply appendImpl_safe hc hs
      have := ho.1; have := ho.2.1
      have hle : itMinus c o last first ≤ o.len - first := by
        unfold itMinus subW
        repeat' split
        all_goals omega
      simp only [List.length_drop]; omega

/-! ### swap -/

def OkWFPair (c : Cfg) (r : Res (FStr × FStr)) : Prop := ∃ p, r = .ok p ∧ WF c p.1 ∧ WF c p.2

theorem copyIn_term {buf a r : List Byte} {n : Nat} (h : copyIn buf 0 a 0 (n + 1) = .ok r) (ha : a[n]? = some 0)
    (hn : n + 1 ≤ a.length) : r[n]? = some 0 := by
  unfold copyIn at h
  rw [Mem.read_ok (by omega), bindR_ok] at h
  unfold Mem.write at h
  split at h
  · cases h
    have hl : (List.take (n + 1) (List.drop 0 a)).length = n + 1 := by simp; omega
    rw [List.append_assoc, List.getElem?_append_right (by simp)]
    simp only [List.take_zero, List.length_nil, Nat.sub_zero]
    rw [List.getElem?_append_left (by omega)]
    simp only [List.drop_zero]
    rw [List.getElem?_take_of_lt (by omega)]
    exact ha
  · cases h

theorem swap_safe (hc : CfgOK c) {s o : FStr} (hs : WF c s) (ho : WF c o) : OkWFPair c (swap c s o) := by
  obtain ⟨hb, hl, h0⟩ := hs
  obtain ⟨ob, ol, o0⟩ := ho
  unfold swap
  split
  · rename_i hz
    split
    · obtain ⟨b, e1, l1⟩ := good_copyIn (buf := s.buf) (off := 0) (a := o.buf) (spos := 0) (n := o.len + 1) hb
        (by omega) (by omega)
      obtain ⟨b2, e2, l2⟩ := good_put1 (buf := o.buf) (i := 0) (b := 0) ob (by omega)
      rw [e1, bindR_ok, e2, bindR_ok]
      exact ⟨_, rfl, ⟨l1, ol, copyIn_term (n := o.len) e1 o0 (by omega)⟩, ⟨l2, Nat.zero_le _, put1_get e2⟩⟩
    · exact ⟨_, rfl, ⟨hb, hl, h0⟩, ⟨ob, ol, o0⟩⟩
  · split
    · obtain ⟨b, e1, l1⟩ := good_copyIn (buf := o.buf) (off := 0) (a := s.buf) (spos := 0) (n := s.len + 1) ob
        (by omega) (by omega)
      obtain ⟨b2, e2, l2⟩ := good_put1 (buf := s.buf) (i := 0) (b := 0) hb (by omega)
      rw [e1, bindR_ok, e2, bindR_ok]
      exact ⟨_, rfl, ⟨l2, Nat.zero_le _, put1_get e2⟩, ⟨l1, hl, copyIn_term (n := s.len) e1 h0 (by omega)⟩⟩
    · obtain ⟨tmp, e0, l0⟩ := good_copyIn (buf := zeros c) (off := 0) (a := s.buf) (spos := 0) (n := s.len + 1)
        (zeros_length c) (by omega) (by omega)
      obtain ⟨b, e1, l1⟩ := good_copyIn (buf := s.buf) (off := 0) (a := o.buf) (spos := 0) (n := o.len + 1) hb
        (by omega) (by omega)
      obtain ⟨b2, e2, l2⟩ := good_copyIn (buf := o.buf) (off := 0) (a := tmp) (spos := 0) (n := s.len + 1) ob
        (by omega) (by omega)
      rw [e0, bindR_ok, e1, bindR_ok, e2, bindR_ok]
      have t0 := copyIn_term (n := s.len) e0 h0 (by omega)
      exact ⟨_, rfl, ⟨l1, ol, copyIn_term (n := o.len) e1 o0 (by omega)⟩, ⟨l2, hl, copyIn_term (n := s.len) e2 t0 (by omega)⟩⟩

end CelmaVerif.FixedString
